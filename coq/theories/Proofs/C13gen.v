(* Statement/expression skeletons of time.py:TimeAxis.get_FrequencyAxis, frequency.py:FrequencyAxis.get_TimeAxis and of the
   array code of dfunction.py:DFunction.get_Fourier_transform / get_inverse_Fourier_transform, with the arithmetic
   content (lengths, steps, scale factors, indices, bounds, slices) as parameters, and the lemmas that turn "the content
   is the expected one" into equality with the definitions of Model/C13.v.
   harness/translate_c13.py instantiates the parameters from the current source on every run. *)
From Coq Require Import ZArith List Bool Arith Lia ZifyNat Field.
From QV Require Import Base.Alg Base.Sums Base.Util Base.Dft Model.C13 Proofs.C13.
Import ListNotations.

(* ---------------------------------------------------------------------------------- *)
(*  axes: numpy arrays of axis values as (length, element function)                   *)
(* ---------------------------------------------------------------------------------- *)
Section AxisSkel.
  Variable K : Fld.
  Add Field KfGen : (fth K).
  Variable tp : K.
  Local Notation "x + y" := (fadd K x y).
  Local Notation "x - y" := (fsub K x y).
  Local Notation "x * y" := (fmul K x y).
  Local Notation "x / y" := (fdiv K x y).

  Record arr := mkArr { alen : nat; aget : nat -> K }.
  (* a[i] for a non-negative Python int i; None = IndexError *)
  Definition arr_get (a : arr) (i : nat) : option K := if (i <? alen a)%nat then Some (aget a i) else None.
  Definition arr_len (a : arr) : nat := alen a.
  (* numpy.fft.fftfreq(n, d):  [0, 1, ..., (n-1)//2, -(n//2), ..., -1] / (n d) *)
  Definition arr_fftfreq (n : nat) (d : K) : arr :=
    mkArr n (fun k => (if (k <? (n - 1) / 2 + 1)%nat then ofnat K k else ofnat K k - ofnat K n) / (ofnat K n * d)).
  (* numpy.fft.fftshift = roll by +n//2;  ifftshift = roll by -(n//2) *)
  Definition arr_shift (a : arr) : arr := mkArr (alen a) (fun k => aget a ((k + (alen a - alen a / 2)) mod alen a)%nat).
  Definition arr_ishift (a : arr) : arr := mkArr (alen a) (fun k => aget a ((k + alen a / 2) mod alen a)%nat).
  Definition arr_scale (c : K) (a : arr) : arr := mkArr (alen a) (fun k => c * aget a k).
  (* ValueAxis.data = numpy.linspace(start, start + (length-1) step, length) *)
  Definition axis_data (t : axis K) : arr := mkArr (a_len t) (point K t).

  (* exceptions: option monad, arithmetic lifted *)
  Definition obind {A B} (x : option A) (f : A -> option B) : option B := match x with Some v => f v | None => None end.
  Definition olift2 (f : K -> K -> K) (x y : option K) : option K := obind x (fun a => obind y (fun b => Some (f a b))).
  Definition oadd := olift2 (fadd K).
  Definition osub := olift2 (fsub K).
  Definition omul := olift2 (fmul K).
  Definition odiv := olift2 (fdiv K).

  Lemma arr_get_in a i : (i < alen a)%nat -> arr_get a i = Some (aget a i).
  Proof. intros H. unfold arr_get. destruct (Nat.ltb_spec i (alen a)); [reflexivity|lia]. Qed.
  Lemma arr_get_out a i : (alen a <= i)%nat -> arr_get a i = None.
  Proof. intros H. unfold arr_get. destruct (Nat.ltb_spec i (alen a)); [lia|reflexivity]. Qed.

  Lemma ofnat_add a b : ofnat K (a + b)%nat = ofnat K a + ofnat K b.
  Proof. induction b as [|b IH]; [rewrite Nat.add_0_r; cbn [ofnat]; ring|]. rewrite Nat.add_succ_r. cbn [ofnat]. rewrite IH. ring. Qed.

  Lemma shift_scale c a : arr_shift (arr_scale c a) = arr_scale c (arr_shift a).
  Proof. reflexivity. Qed.
  Lemma aget_scale c a k : aget (arr_scale c a) k = c * aget a k.
  Proof. reflexivity. Qed.

  (* the composite the axes are made of: point k of fftshift(fftfreq(n, d)) is (k - n//2)/(n d) *)
  Lemma aget_shift_fftfreq n d k : (k < n)%nat -> aget (arr_shift (arr_fftfreq n d)) k = fftfreq_shifted K n d k.
  Proof.
    intros Hk. unfold arr_shift, arr_fftfreq, fftfreq_shifted. cbn [alen aget].
    assert (Hh : (n / 2 <= n)%nat) by lia.
    assert (Hc : ((n - 1) / 2 + 1 = n - n / 2)%nat) by lia.
    rewrite Hc. set (h := (n / 2)%nat) in *. set (c := (n - h)%nat).
    assert (Hn : n = (h + c)%nat) by lia.
    destruct (Nat.ltb_spec k h) as [Hlt|Hge].
    - (* k < n//2: wraps to the negative frequencies *)
      rewrite (Nat.mod_small (k + c) n) by lia.
      destruct (Nat.ltb_spec (k + c) c) as [Hx|_]; [lia|].
      rewrite ofnat_add. rewrite Hn at 1. rewrite ofnat_add.
      rewrite !(Fdiv_def (fth K)). ring.
    - assert (Hm : ((k + c) mod n = k - h)%nat).
      { replace (k + c)%nat with ((k - h) + 1 * n)%nat by lia. rewrite Nat.mod_add by lia. apply Nat.mod_small. lia. }
      rewrite Hm. destruct (Nat.ltb_spec (k - h) c) as [_|Hx]; [|lia].
      replace k with ((k - h) + h)%nat at 2 by lia. rewrite ofnat_add.
      rewrite !(Fdiv_def (fth K)). ring.
  Qed.

  Lemma even_mod2 n : Nat.eqb (n mod 2) 0 = Nat.even n.
  Proof.
    destruct (Nat.even n) eqn:E.
    - apply Nat.eqb_eq. apply Nat.even_spec in E. destruct E as [m ->]. rewrite Nat.mul_comm. apply Nat.mod_mul. lia.
    - apply Nat.eqb_neq. intros H. assert (Nat.even n = true); [|congruence].
      apply Nat.even_spec. exists (n / 2)%nat. pose proof (Nat.div_mod n 2 ltac:(lia)). lia.
  Qed.

  Lemma even_mod2_sym n : Nat.eqb 0 (n mod 2) = Nat.even n.
  Proof. rewrite Nat.eqb_sym. apply even_mod2. Qed.

  (* lengths of conjugate upper-half axes (used to instantiate the array lengths of the transforms) *)
  Lemma upper_freq_len t w : freq_axis_of K tp t = Some w -> a_type t = UpperHalf -> a_len w = (2 * a_len t)%nat.
  Proof.
    unfold freq_axis_of. intros H Ht. rewrite Ht in H. destruct (2 * a_len t <? 2)%nat; [discriminate|].
    injection H as <-. reflexivity.
  Qed.
  Lemma upper_time_len w t : time_axis_of K tp w = Some t -> a_type w = UpperHalf -> a_len w = (2 * a_len t)%nat.
  Proof.
    unfold time_axis_of. intros H Hw. rewrite Hw in H. destruct (Nat.even (a_len w)) eqn:E; cbn [negb] in H; [|discriminate].
    destruct (a_len w <? 2)%nat; [discriminate|]. injection H as <-. change (a_len w = 2 * (a_len w / 2))%nat.
    apply Nat.even_spec in E. destruct E as [m Hm]. lia.
  Qed.
  Lemma conj_lengths :
    (forall t w, freq_axis_of K tp t = Some w -> a_type t = UpperHalf -> a_len w = (2 * a_len t)%nat) /\
    (forall w t, time_axis_of K tp w = Some t -> a_type w = UpperHalf -> a_len w = (2 * a_len t)%nat).
  Proof. split; [exact upper_freq_len|exact upper_time_len]. Qed.
End AxisSkel.

Arguments mkArr {K}. Arguments alen {K}. Arguments aget {K}.
Arguments arr_get {K}. Arguments arr_len {K}. Arguments arr_fftfreq {K}. Arguments arr_shift {K}. Arguments arr_ishift {K}.
Arguments arr_scale {K}. Arguments axis_data {K}. Arguments oadd {K}. Arguments osub {K}. Arguments omul {K}. Arguments odiv {K}.

(* normalisation of the generated axis definitions: every array access becomes Some/None from the lengths *)
Lemma alen_shift K (a : @arr K) : alen (arr_shift a) = alen a. Proof. reflexivity. Qed.
Lemma alen_ishift K (a : @arr K) : alen (arr_ishift a) = alen a. Proof. reflexivity. Qed.
Lemma alen_scale K c (a : @arr K) : alen (arr_scale c a) = alen a. Proof. reflexivity. Qed.
Lemma alen_fftfreq K n (d : fcar K) : alen (arr_fftfreq n d) = n. Proof. reflexivity. Qed.
Lemma alen_data K (t : axis K) : alen (axis_data t) = a_len t. Proof. reflexivity. Qed.
Lemma arr_len_alen K (a : @arr K) : arr_len a = alen a. Proof. reflexivity. Qed.
Lemma aget_data K (t : axis K) k : aget (axis_data t) k = point K t k. Proof. reflexivity. Qed.
Create HintDb arrdb.
#[export] Hint Rewrite alen_shift alen_ishift alen_scale alen_fftfreq alen_data arr_len_alen aget_data shift_scale aget_scale : arrdb.

Ltac arr_len_goal := autorewrite with arrdb; lia.
Ltac arr_access :=
  repeat match goal with
    | |- context [arr_get ?a ?i] =>
        first [rewrite (arr_get_in _ a i) by arr_len_goal | rewrite (arr_get_out _ a i) by arr_len_goal]
    end.
Ltac axis_field K :=
  first [ reflexivity
        | autorewrite with arrdb; rewrite ?aget_shift_fftfreq by lia;
          first [reflexivity | lia | rewrite ?(Fdiv_def (fth K)); ring] ].
(* goal: generated branch = branch of freq_axis_of / time_axis_of (the model tests  n <? 2  for the refusal) *)
Ltac axis_tie K :=
  cbv zeta; rewrite ?even_mod2, ?even_mod2_sym;
  try match goal with
      | |- context [negb (Nat.even ?n)] =>
          let E := fresh "E" in let m := fresh "m" in
          destruct (Nat.even n) eqn:E; cbn [negb]; [apply Nat.even_spec in E; destruct E as [m E]|reflexivity]
      end;
  match goal with
  | |- context [(?n <? 2)%nat] =>
      let H := fresh "H" in
      destruct (Nat.ltb_spec n 2) as [H|H];
      [ let Hc := fresh "Hc" in assert (Hc : n = 0%nat \/ n = 1%nat) by lia; destruct Hc as [Hc|Hc] | ]
  end;
  try (exfalso; lia);
  arr_access; unfold oadd, osub, omul, odiv, olift2, obind;
  first [reflexivity | f_equal; apply axis_eq; axis_field K].

(* ---------------------------------------------------------------------------------- *)
(*  values: array statements of the transforms                                        *)
(* ---------------------------------------------------------------------------------- *)
Section ValueSkel.
  Context {R : StarRing}.
  Add Ring RrGen13 : (rth R).
  Open Scope sr_scope.

  (* Y[a:b] for non-negative Python ints a, b (clipped at the end like a Python slice; empty when b <= a) *)
  Definition slice_n (a b : nat) (l : list R) : list R := firstn (b - a) (skipn a l).
  (* numpy.zeros(n) *)
  Definition zeros_n (n : nat) : list R := repeat 0 n.
  (* l[a:b] = v ; numpy demands len(v) = b - a (or broadcasts): the lemmas below require the lengths to fit *)
  Definition slice_assign (l : list R) (a b : nat) (v : list R) : list R := firstn a l ++ v ++ skipn b l.

  (* Python indexing with a (possibly negative) int; outside the array the code raises: modelled as default / unchanged *)
  Definition zidx (len : nat) (i : Z) : option nat :=
    let n := Z.of_nat len in
    if ((0 <=? i) && (i <? n))%Z then Some (Z.to_nat i)
    else if ((- n <=? i) && (i <? 0))%Z then Some (Z.to_nat (i + n)) else None.
  Definition zget (l : list R) (i : Z) : R := match zidx (length l) i with Some k => nth k l 0 | None => 0 end.
  Fixpoint set_nth (l : list R) (k : nat) (v : R) : list R :=
    match l with
    | [] => []
    | x :: l' => match k with O => v :: l' | S k' => x :: set_nth l' k' v end
    end.
  Definition zset (l : list R) (i : Z) (v : R) : list R := match zidx (length l) i with Some k => set_nth l k v | None => l end.
  Definition zrange (lo hi : Z) : list Z := map (fun i => (lo + Z.of_nat i)%Z) (seq 0 (Z.to_nat (hi - lo))).

  (* yy = zeros(zl); yy[slo:shi] = y; for k in range(klo, khi): yy[idx k] = conj(y[src k]) *)
  Definition herm_skel (zl slo shi : nat) (klo khi : Z) (idx src : Z -> Z) (y : list R) : list R :=
    fold_left (fun yy k => zset yy (idx k) (cj R (zget y (src k)))) (zrange klo khi) (slice_assign (zeros_n zl) slo shi y).

  Lemma set_nth_length l k v : length (set_nth l k v) = length l.
  Proof. revert k; induction l as [|x l IH]; intros [|k]; cbn [set_nth length]; try reflexivity. now rewrite IH. Qed.
  Lemma nth_set_nth l k v j d : (k < length l)%nat -> nth j (set_nth l k v) d = if Nat.eqb j k then v else nth j l d.
  Proof.
    revert k j; induction l as [|x l IH]; intros k j Hk; cbn [length] in Hk; [lia|].
    destruct k as [|k], j as [|j]; cbn [set_nth nth Nat.eqb]; try reflexivity. apply IH. lia.
  Qed.
  Lemma zset_length l i v : length (zset l i v) = length l.
  Proof. unfold zset. destruct (zidx (length l) i); [apply set_nth_length|reflexivity]. Qed.
  Lemma zidx_in len i : (0 <= i < Z.of_nat len)%Z -> zidx len i = Some (Z.to_nat i).
  Proof.
    intros H. unfold zidx. destruct (Z.leb_spec 0 i); [|lia]. destruct (Z.ltb_spec i (Z.of_nat len)); [reflexivity|lia].
  Qed.

  Lemma nth_repeat0 n j : nth j (repeat (r0 R) n) 0 = 0.
  Proof. revert j; induction n as [|n IH]; intros [|j]; cbn [repeat nth]; try reflexivity. apply IH. Qed.

  (* state of the filled array after the first m passes of the loop *)
  Definition herm_inv (N m : nat) (y yy : list R) : Prop :=
    length yy = (2 * N)%nat /\
    forall j, (j < 2 * N)%nat ->
      nth j yy 0 = if (j <? N)%nat then nth j y 0 else if (2 * N - m <=? j)%nat then cj R (nth (2 * N - j) y 0) else 0.

  Lemma herm_skel_is_model (N : nat) (y : list R) zl slo shi klo khi idx src :
    N <> 0%nat -> length y = N -> zl = (2 * N)%nat -> slo = 0%nat -> shi = N -> klo = 0%Z -> khi = (Z.of_nat N - 1)%Z ->
    (forall k, (0 <= k < Z.of_nat N - 1)%Z -> idx k = (2 * Z.of_nat N - k - 1)%Z) ->
    (forall k, (0 <= k < Z.of_nat N - 1)%Z -> src k = (k + 1)%Z) ->
    herm_skel zl slo shi klo khi idx src y = herm y.
  Proof.
    intros HN Hy -> -> -> -> -> Hidx Hsrc. unfold herm_skel.
    assert (Hinv : forall m, (m <= N - 1)%nat ->
              herm_inv N m y (fold_left (fun yy k => zset yy (idx k) (cj R (zget y (src k)))) (zrange 0 (Z.of_nat m))
                                        (slice_assign (zeros_n (2 * N)) 0 N y))).
    { induction m as [|m IH]; intros Hm.
      - unfold zrange. replace (Z.to_nat (Z.of_nat 0 - 0)) with 0%nat by lia. cbn [seq map fold_left].
        unfold slice_assign, zeros_n. cbn [firstn app].
        split.
        + rewrite app_length, skipn_length, repeat_length. lia.
        + intros j Hj. destruct (Nat.ltb_spec j N) as [Hlt|Hge].
          * apply app_nth1. lia.
          * rewrite app_nth2 by lia. destruct (Nat.leb_spec (2 * N - 0) j); [lia|].
            rewrite nth_skipn_add. apply nth_repeat0.
      - specialize (IH ltac:(lia)). destruct IH as [Hlen Hval].
        unfold zrange in *. replace (Z.to_nat (Z.of_nat (S m) - 0)) with (S m) by lia.
        replace (Z.to_nat (Z.of_nat m - 0)) with m in * by lia.
        rewrite seq_S, map_app, fold_left_app. cbn [map fold_left Nat.add].
        set (yy := fold_left _ _ _) in *.
        assert (Hk : (0 <= 0 + Z.of_nat m < Z.of_nat N - 1)%Z) by lia.
        rewrite (Hidx _ Hk), (Hsrc _ Hk).
        unfold zset, zget. rewrite Hlen, Hy.
        rewrite (zidx_in (2 * N)) by lia. rewrite (zidx_in N) by lia.
        split; [now rewrite set_nth_length|].
        intros j Hj. rewrite nth_set_nth by lia. rewrite (Hval j Hj).
        destruct (Nat.eqb_spec j (Z.to_nat (2 * Z.of_nat N - (0 + Z.of_nat m) - 1))) as [E|E].
        + destruct (Nat.ltb_spec j N); [lia|]. destruct (Nat.leb_spec (2 * N - S m) j); [|lia].
          f_equal. f_equal. lia.
        + destruct (Nat.ltb_spec j N); [reflexivity|].
          destruct (Nat.leb_spec (2 * N - S m) j), (Nat.leb_spec (2 * N - m) j); try reflexivity; lia. }
    specialize (Hinv (N - 1)%nat ltac:(lia)). replace (Z.of_nat (N - 1)) with (Z.of_nat N - 1)%Z in Hinv by lia.
    destruct Hinv as [Hlen Hval].
    pose proof (herm_length N HN y Hy) as Hhl.
    apply list_ext_nth; [now rewrite Hlen, Hhl|].
    intros j d Hj. rewrite Hlen in Hj.
    rewrite (nth_indep _ d 0) by lia. rewrite (nth_indep (herm y) d 0) by lia.
    rewrite (Hval j Hj).
    destruct (Nat.ltb_spec j N) as [Hlt|Hge]; [symmetry; now apply (herm_low N HN)|].
    destruct (Nat.leb_spec (2 * N - (N - 1)) j) as [Hhi|Hmid].
    - replace j with (N + S (j - N - 1))%nat at 2 by lia. rewrite (herm_high N HN) by (try assumption; lia).
      f_equal. f_equal. lia.
    - replace j with N by lia. symmetry. now apply (herm_mid N HN).
  Qed.

  (* Y[n:2n] is the cut the model calls upper_part *)
  Lemma slice_is_upper_part n a b (Y : list R) : a = n -> b = (2 * n)%nat -> slice_n a b Y = upper_part n Y.
  Proof. intros -> ->. unfold slice_n, upper_part. f_equal. lia. Qed.

  (* y = zeros(n); y[0:n] = V  with len V = n *)
  Lemma zeros_assign_all n a b (V : list R) : a = 0%nat -> b = n -> length V = n -> slice_assign (zeros_n n) a b V = V.
  Proof.
    intros -> -> HV. unfold slice_assign, zeros_n. cbn [firstn app].
    rewrite skipn_all2 by (rewrite repeat_length; lia). apply app_nil_r.
  Qed.

  Lemma upper_part_length n (Y : list R) : (2 * n <= length Y)%nat -> length (upper_part n Y) = n.
  Proof. intros H. unfold upper_part. rewrite firstn_length, skipn_length. lia. Qed.
End ValueSkel.

(* equality of two elementwise scalings of the same array: the scale factors are compared as ring expressions *)
Ltac scale_eq := cbv zeta; cbn [inner]; apply map_ext; intros; unfold two; ring.
(* side conditions of herm_skel_is_model, from the code's own expressions *)
Ltac herm_side := first [reflexivity | assumption | lia | (intros; lia)].
