(* Algebra of four-index tensors under numpy.tensordot: composition is associative with the identity
   tensor as unit, distributes over sums and scalar multiples, and application to a matrix is an action. *)
From Coq Require Import ZArith Arith List Lia Bool.
From QV Require Import Base.Alg Base.Sums Base.Mat Base.Tens Base.TensId Model.C01 Proofs.Tensor.
Import ListNotations.

Section TensAlg.
  Context {R : StarRing}.
  Add Ring Rr : (rth R).
  Open Scope sr_scope.
  Variable n : nat.
  Notation tid := (@tid R).
  Notation basis_el := (@basis_el R).

  Lemma teq_refl (T : @tens R) : teq n T T.  Proof. intros a b c d _ _ _ _. reflexivity. Qed.
  Lemma teq_sym (T U : @tens R) : teq n T U -> teq n U T.
  Proof. intros H a b c d Ha Hb Hc Hd. symmetry. now apply H. Qed.
  Lemma teq_trans (T U W : @tens R) : teq n T U -> teq n U W -> teq n T W.
  Proof. intros H1 H2 a b c d Ha Hb Hc Hd. rewrite H1 by assumption. now apply H2. Qed.
  Lemma teq_tab4 (T : @tens R) : teq n (tab4 n T) T.
  Proof.
    intros a b c d Ha Hb Hc Hd. unfold tab4.
    rewrite (nth_indep _ [] (map (fun b0 => map (fun c0 => map (T 0%nat b0 c0) (seq 0 n)) (seq 0 n)) (seq 0 n)))
      by (rewrite map_length, seq_length; exact Ha).
    rewrite (map_nth (fun a0 => map (fun b0 => map (fun c0 => map (T a0 b0 c0) (seq 0 n)) (seq 0 n)) (seq 0 n))), seq_nth by exact Ha.
    cbn [Nat.add].
    rewrite (nth_indep _ [] (map (fun c0 => map (T a 0%nat c0) (seq 0 n)) (seq 0 n))) by (rewrite map_length, seq_length; exact Hb).
    rewrite (map_nth (fun b0 => map (fun c0 => map (T a b0 c0) (seq 0 n)) (seq 0 n))), seq_nth by exact Hb. cbn [Nat.add].
    rewrite (nth_indep _ [] (map (T a b 0%nat) (seq 0 n))) by (rewrite map_length, seq_length; exact Hc).
    rewrite (map_nth (fun c0 => map (T a b c0) (seq 0 n))), seq_nth by exact Hc. cbn [Nat.add].
    rewrite (nth_indep _ 0 (T a b c 0%nat)) by (rewrite map_length, seq_length; exact Hd).
    rewrite map_nth, seq_nth by exact Hd. reflexivity.
  Qed.

  (* sums against a product of two Kronecker conditions *)
  Lemma sum2_delta (p q : nat) (f : nat -> nat -> R) : (p < n)%nat -> (q < n)%nat ->
    sum n (fun e => sum n (fun g => (if Nat.eqb e p && Nat.eqb g q then 1 else 0) * f e g)) = f p q.
  Proof.
    intros Hp Hq.
    rewrite (sum_single n p) by (auto; intros e _ Hne; apply Nat.eqb_neq in Hne; rewrite Hne; cbn [andb];
                                  apply sum_0_ext; intros; ring).
    rewrite Nat.eqb_refl. cbn [andb].
    rewrite (sum_single n q) by (auto; intros g _ Hne; apply Nat.eqb_neq in Hne; rewrite Hne; ring).
    rewrite Nat.eqb_refl. ring.
  Qed.

  Lemma tcomp_ext (T T' U U' : @tens R) : teq n T T' -> teq n U U' -> teq n (tcomp n T U) (tcomp n T' U').
  Proof.
    intros HT HU a b c d Ha Hb Hc Hd. unfold tcomp. apply sum_ext. intros e He. apply sum_ext. intros f Hf.
    now rewrite HT, HU.
  Qed.

  Lemma tcomp_assoc (T U W : @tens R) : teq n (tcomp n (tcomp n T U) W) (tcomp n T (tcomp n U W)).
  Proof.
    intros a b c d _ _ _ _. unfold tcomp.
    rewrite (sum_ext n _ (fun e => sum n (fun f => sum n (fun g => sum n (fun h => T a b g h * U g h e f * W e f c d))))).
    2:{ intros e _. apply sum_ext. intros f _. rewrite <- sum_mul_r. apply sum_ext. intros g _. now rewrite <- sum_mul_r. }
    rewrite (sum4_rot n (fun g h e f => T a b g h * U g h e f * W e f c d)).
    apply sum_ext. intros g _. apply sum_ext. intros h _. rewrite <- sum_mul_l. apply sum_ext. intros e _.
    rewrite <- sum_mul_l. apply sum_ext. intros f _. ring.
  Qed.

  Lemma tcomp_id_l (T : @tens R) : teq n (tcomp n tid T) T.
  Proof.
    intros a b c d Ha Hb _ _. unfold tcomp, tid.
    rewrite (sum_ext n _ (fun e => sum n (fun g => (if Nat.eqb e a && Nat.eqb g b then 1 else 0) * T e g c d))).
    - now apply (sum2_delta a b (fun e g => T e g c d)).
    - intros e _. apply sum_ext. intros g _. now rewrite (Nat.eqb_sym a e), (Nat.eqb_sym b g).
  Qed.
  Lemma tcomp_id_r (T : @tens R) : teq n (tcomp n T tid) T.
  Proof.
    intros a b c d _ _ Hc Hd. unfold tcomp, tid.
    rewrite (sum_ext n _ (fun e => sum n (fun g => (if Nat.eqb e c && Nat.eqb g d then 1 else 0) * T a b e g))).
    - now apply (sum2_delta c d (fun e g => T a b e g)).
    - intros e _. apply sum_ext. intros g _. ring.
  Qed.

  Lemma tcomp_tadd_l (T T' U : @tens R) : teq n (tcomp n (tadd T T') U) (tadd (tcomp n T U) (tcomp n T' U)).
  Proof.
    intros a b c d _ _ _ _. unfold tcomp, tadd. rewrite <- sum_add. apply sum_ext. intros e _. rewrite <- sum_add.
    apply sum_ext. intros; ring.
  Qed.
  Lemma tcomp_tadd_r (T U U' : @tens R) : teq n (tcomp n T (tadd U U')) (tadd (tcomp n T U) (tcomp n T U')).
  Proof.
    intros a b c d _ _ _ _. unfold tcomp, tadd. rewrite <- sum_add. apply sum_ext. intros e _. rewrite <- sum_add.
    apply sum_ext. intros; ring.
  Qed.
  Lemma tcomp_tscale_l x (T U : @tens R) : teq n (tcomp n (tscale x T) U) (tscale x (tcomp n T U)).
  Proof.
    intros a b c d _ _ _ _. unfold tcomp, tscale. rewrite <- sum_mul_l. apply sum_ext. intros e _. rewrite <- sum_mul_l.
    apply sum_ext. intros; ring.
  Qed.
  Lemma tcomp_tscale_r x (T U : @tens R) : teq n (tcomp n T (tscale x U)) (tscale x (tcomp n T U)).
  Proof.
    intros a b c d _ _ _ _. unfold tcomp, tscale. rewrite <- sum_mul_l. apply sum_ext. intros e _. rewrite <- sum_mul_l.
    apply sum_ext. intros; ring.
  Qed.
  Lemma tadd_ext (T T' U U' : @tens R) : teq n T T' -> teq n U U' -> teq n (tadd T U) (tadd T' U').
  Proof. intros HT HU a b c d Ha Hb Hc Hd. unfold tadd. now rewrite HT, HU. Qed.
  Lemma tscale_ext x (T T' : @tens R) : teq n T T' -> teq n (tscale x T) (tscale x T').
  Proof. intros HT a b c d Ha Hb Hc Hd. unfold tscale. now rewrite HT. Qed.

  (* application *)
  Lemma tapply_ext (T T' : @tens R) (A A' : @mat R) : teq n T T' -> meq n A A' -> meq n (tapply n T A) (tapply n T' A').
  Proof.
    intros HT HA a b Ha Hb. unfold tapply. apply sum_ext. intros c Hc. apply sum_ext. intros d Hd. now rewrite HT, HA.
  Qed.
  Lemma tapply_tcomp (T U : @tens R) (A : @mat R) : meq n (tapply n (tcomp n T U) A) (tapply n T (tapply n U A)).
  Proof.
    intros a b _ _. unfold tapply, tcomp.
    rewrite (sum_ext n _ (fun c => sum n (fun d => sum n (fun e => sum n (fun f => T a b e f * U e f c d * A c d))))).
    2:{ intros c _. apply sum_ext. intros d _. rewrite <- sum_mul_r. apply sum_ext. intros e _. now rewrite <- sum_mul_r. }
    rewrite (sum4_rot n (fun e f c d => T a b e f * U e f c d * A c d)).
    apply sum_ext. intros e _. apply sum_ext. intros f _. rewrite <- sum_mul_l. apply sum_ext. intros c _.
    rewrite <- sum_mul_l. apply sum_ext. intros d _. ring.
  Qed.
  Lemma tapply_id (A : @mat R) : meq n (tapply n tid A) A.
  Proof.
    intros a b Ha Hb. unfold tapply, tid.
    rewrite (sum_ext n _ (fun c => sum n (fun d => (if Nat.eqb c a && Nat.eqb d b then 1 else 0) * A c d))).
    - now apply (sum2_delta a b A).
    - intros c _. apply sum_ext. intros d _. now rewrite (Nat.eqb_sym a c), (Nat.eqb_sym b d).
  Qed.
  Lemma tapply_tadd (T U : @tens R) (A : @mat R) : meq n (tapply n (tadd T U) A) (madd (tapply n T A) (tapply n U A)).
  Proof.
    intros a b _ _. unfold tapply, tadd, madd. rewrite <- sum_add. apply sum_ext. intros c _. rewrite <- sum_add.
    apply sum_ext. intros; ring.
  Qed.
  Lemma tapply_tscale x (T : @tens R) (A : @mat R) : meq n (tapply n (tscale x T) A) (mscale x (tapply n T A)).
  Proof.
    intros a b _ _. unfold tapply, tscale, mscale. rewrite <- sum_mul_l. apply sum_ext. intros c _. rewrite <- sum_mul_l.
    apply sum_ext. intros; ring.
  Qed.
  (* applying a tensor to a basis matrix picks a column pair *)
  Lemma tapply_basis (T : @tens R) p q a b : (p < n)%nat -> (q < n)%nat -> tapply n T (basis_el p q) a b = T a b p q.
  Proof.
    intros Hp Hq. unfold tapply, basis_el.
    rewrite (sum_ext n _ (fun c => sum n (fun d => (if Nat.eqb c p && Nat.eqb d q then 1 else 0) * T a b c d))).
    - now apply (sum2_delta p q (fun c d => T a b c d)).
    - intros c _. apply sum_ext. intros d _. ring.
  Qed.

  (* trace-preserving maps: sum_a U[a,a,c,d] = delta_cd; closed under composition, contain the identity *)
  Definition trace_keep (U : @tens R) : Prop :=
    forall c d, (c < n)%nat -> (d < n)%nat -> sum n (fun a => U a a c d) = if Nat.eqb c d then 1 else 0.
  Lemma trace_keep_id : trace_keep tid.
  Proof.
    intros c d Hc Hd. unfold tid. destruct (Nat.eqb_spec c d) as [<-|Hne].
    - rewrite (sum_single n c) by (auto; intros a _ Hne; apply Nat.eqb_neq in Hne; now rewrite Hne).
      now rewrite Nat.eqb_refl.
    - apply sum_0_ext. intros a _. destruct (Nat.eqb_spec a c) as [->|]; [|reflexivity].
      cbn [andb]. apply Nat.eqb_neq in Hne. now rewrite Hne.
  Qed.
  Lemma trace_keep_tcomp (T U : @tens R) : trace_keep T -> trace_keep U -> trace_keep (tcomp n T U).
  Proof.
    intros HT HU c d Hc Hd. unfold tcomp.
    rewrite sum_swap. rewrite (sum_ext n _ (fun e => sum n (fun f => (if Nat.eqb e f then 1 else 0) * U e f c d))).
    2:{ intros e He. rewrite sum_swap. apply sum_ext. intros f Hf. rewrite sum_mul_r. now rewrite (HT e f He Hf). }
    rewrite <- (HU c d Hc Hd). apply sum_ext. intros e He.
    rewrite (sum_single n e) by (auto; intros f _ Hne; assert (Nat.eqb e f = false) as E by (apply Nat.eqb_neq; congruence);
                                  rewrite E; ring).
    rewrite Nat.eqb_refl. ring.
  Qed.
  Lemma trace_keep_ext (T U : @tens R) : teq n T U -> trace_keep U -> trace_keep T.
  Proof. intros E H c d Hc Hd. rewrite <- (H c d Hc Hd). apply sum_ext. intros a Ha. now apply E. Qed.
  Lemma trace_keep_apply (U : @tens R) (A : @mat R) : trace_keep U -> mtr n (tapply n U A) = mtr n A.
  Proof.
    intros HU. unfold mtr, tapply. rewrite sum_swap.
    rewrite (sum_ext n _ (fun c => sum n (fun d => (if Nat.eqb c d then 1 else 0) * A c d))).
    2:{ intros c Hc. rewrite sum_swap. apply sum_ext. intros d Hd. rewrite sum_mul_r. now rewrite (HU c d Hc Hd). }
    apply sum_ext. intros c Hc.
    rewrite (sum_single n c) by (auto; intros d _ Hne; assert (Nat.eqb c d = false) as E by (apply Nat.eqb_neq; congruence);
                                  rewrite E; ring).
    rewrite Nat.eqb_refl. ring.
  Qed.

  (* Hermiticity-preserving maps are closed under composition and contain the identity *)
  Lemma herm_pres_id : herm_pres n tid.
  Proof.
    intros a b c d _ _ _ _. unfold tid. rewrite (andb_comm (Nat.eqb b d)).
    destruct (Nat.eqb a c && Nat.eqb b d); [apply cj_1|apply cj_0].
  Qed.
  Lemma herm_pres_tcomp (T U : @tens R) : herm_pres n T -> herm_pres n U -> herm_pres n (tcomp n T U).
  Proof.
    intros HT HU a b c d Ha Hb Hc Hd. unfold tcomp. rewrite sum_cj.
    rewrite (sum_ext n _ (fun e => sum n (fun f => T b a f e * U f e d c))).
    2:{ intros e He. rewrite sum_cj. apply sum_ext. intros f Hf. now rewrite cj_mul, HT, HU. }
    apply sum_swap.
  Qed.
  Lemma herm_pres_ext (T U : @tens R) : teq n T U -> herm_pres n U -> herm_pres n T.
  Proof. intros E H a b c d Ha Hb Hc Hd. rewrite (E a b c d), (E b a d c) by assumption. now apply H. Qed.
End TensAlg.
