(* The look-up table of Franck-Condon (shift-operator) matrices: quantarhei/qm/oscillators/ho.py class fcstorage, as used by
   AggregateBase.fc_factor:   if not FC.lookup(shft): FC.add(shft, shift_operator(shft));  ii = FC.index(shft);  FC.get(ii)
   Two parallel Python lists.  The theorem: for every sequence of such requests, starting from an empty table, every request
   returns the matrix computed for ITS OWN shift - the table is an implementation of the function shift |-> matrix that the
   model of C10 (Model/C10.v: the FC table as a function of the shift) assumes. *)
From Coq Require Import List Bool Arith Lia.
Import ListNotations.

Section Store.
  Variables (K V : Type) (keqb : K -> K -> bool).
  Hypothesis keqb_spec : forall a b, keqb a b = true <-> a = b.

  Record store := mkStore { shifts : list K; fcs : list V }.
  Definition st_new : store := mkStore [] [].
  (* list.count(x) *)
  Definition count (k : K) (l : list K) : nat := length (filter (keqb k) l).
  (* list.index(x): first position; None = ValueError *)
  Fixpoint index_of (k : K) (l : list K) : option nat :=
    match l with [] => None | x :: l' => if keqb k x then Some 0 else option_map S (index_of k l') end.

  Definition st_lookup (k : K) (s : store) : bool := Nat.ltb 0 (count k (shifts s)).
  Definition st_index (k : K) (s : store) : option nat := index_of k (shifts s).
  Definition st_add (k : K) (v : V) (s : store) : store := mkStore (shifts s ++ [k]) (fcs s ++ [v]).
  Definition st_get (i : nat) (s : store) : option V := nth_error (fcs s) i.

  (* one request of fc_factor with the matrices computed by f *)
  Definition request (f : K -> V) (k : K) (s : store) : store * option V :=
    let s' := if st_lookup k s then s else st_add k (f k) s in
    (s', match st_index k s' with Some i => st_get i s' | None => None end).

  Definition coherent (f : K -> V) (s : store) : Prop :=
    length (shifts s) = length (fcs s) /\
    forall i k, nth_error (shifts s) i = Some k -> nth_error (fcs s) i = Some (f k).

  Lemma keqb_refl k : keqb k k = true.
  Proof. now apply keqb_spec. Qed.

  Lemma index_of_spec k l : match index_of k l with
                            | Some i => nth_error l i = Some k
                            | None => count k l = 0
                            end.
  Proof.
    induction l as [|x l IH]; cbn [index_of]; [reflexivity|]. unfold count in *. cbn [filter].
    destruct (keqb k x) eqn:E.
    - apply keqb_spec in E. subst. reflexivity.
    - destruct (index_of k l) as [i|]; cbn [option_map nth_error]; exact IH.
  Qed.

  Lemma index_of_app_new k l : count k l = 0 -> index_of k (l ++ [k]) = Some (length l).
  Proof.
    unfold count. induction l as [|x l IH]; cbn [index_of filter app length]; intros H.
    - now rewrite keqb_refl.
    - destruct (keqb k x) eqn:E; [cbn [length] in H; discriminate|].
      rewrite (IH H). reflexivity.
  Qed.

  Lemma coherent_new f : coherent f st_new.
  Proof. split; [reflexivity|]. intros [|i] k H; discriminate H. Qed.

  Theorem request_correct f k s : coherent f s ->
    coherent f (fst (request f k s)) /\ snd (request f k s) = Some (f k).
  Proof.
    intros [Hlen Hco]. unfold request, st_lookup, st_index, st_get. cbn [fst snd].
    destruct (Nat.ltb_spec 0 (count k (shifts s))) as [Hpos|Hzero].
    - split; [split; assumption|].
      pose proof (index_of_spec k (shifts s)) as Hi. destruct (index_of k (shifts s)) as [i|]; [|lia].
      now apply Hco.
    - assert (Hz : count k (shifts s) = 0) by lia. unfold st_add. cbn [shifts fcs].
      rewrite (index_of_app_new k (shifts s) Hz). split.
      + unfold coherent. cbn [shifts fcs]. split; [rewrite !app_length; cbn [length]; lia|].
        intros i k' Hn. destruct (Nat.lt_ge_cases i (length (shifts s))) as [Hlt|Hge].
        * rewrite nth_error_app1 in Hn by assumption. rewrite nth_error_app1 by lia. now apply Hco.
        * rewrite nth_error_app2 in Hn by assumption. rewrite nth_error_app2 by lia.
          rewrite <- Hlen. destruct (i - length (shifts s)) as [|j]; cbn [nth_error] in *.
          -- now injection Hn as ->.
          -- destruct j; discriminate Hn.
      + rewrite Hlen, nth_error_app2 by lia. rewrite Nat.sub_diag. reflexivity.
  Qed.

  (* every request of every history is answered with the matrix of its own shift *)
  Fixpoint serve (f : K -> V) (ks : list K) (s : store) : list (option V) :=
    match ks with [] => [] | k :: ks' => let r := request f k s in snd r :: serve f ks' (fst r) end.
  Theorem table_is_function_of_shift f ks : serve f ks st_new = map (fun k => Some (f k)) ks.
  Proof.
    assert (H : forall s, coherent f s -> serve f ks s = map (fun k => Some (f k)) ks).
    { induction ks as [|k ks IH]; intros s Hs; cbn [serve map]; [reflexivity|].
      destruct (request_correct f k s Hs) as [Hc Hv]. now rewrite Hv, (IH _ Hc). }
    apply H, coherent_new.
  Qed.

  (* what goes wrong when the two lists are not kept parallel (the oldest shift dropped, its matrix kept) *)
  Definition st_add_evict (k : K) (v : V) (s : store) : store := mkStore (tl (shifts s) ++ [k]) (fcs s ++ [v]).
End Store.
Arguments st_new {K V}.
Arguments st_add {K V}.
Arguments st_add_evict {K V}.
Arguments request {K V}.
Arguments serve {K V}.
Arguments st_lookup {K V}.
Arguments st_index {K V}.
Arguments st_get {K V}.
Arguments shifts {K V}.
Arguments fcs {K V}.
Arguments mkStore {K V}.

Example eviction_refuted :
  let f := fun k : nat => 10 * k in
  let s := st_add_evict 3 (f 3) (st_add 2 (f 2) (st_add 1 (f 1) st_new)) in
  snd (request Nat.eqb f 2 s) = Some (f 1) /\ f 1 <> f 2.
Proof. cbv. split; [reflexivity | discriminate]. Qed.
