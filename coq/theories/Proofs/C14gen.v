(* Statement skeletons of the thermal-state kernels with their arithmetic content as arguments, and the lemmas that turn
   "the content is the expected one" into equality with Model/C14.v.  harness/translate_c14.py instantiates the arguments from
   the current source on every run.
     AggregateBase._thermal_population (builders/aggregate_base.py): the loop that fills the energies, the T = 0 branch, the
       Boltzmann branch and where the populations are put
     AggregateBase.get_DensityMatrix: accumulated basis transformation, site-basis Hamiltonian and return transformation of the
       strong-coupling branch; energy shift of the weak-coupling branch
     OpenSystem.get_thermal_ReducedDensityMatrix (builders/opensystem.py) *)
From Coq Require Import ZArith List Bool Arith Lia QArith Qabs Lqa.
From QV Require Import Base.Alg Base.Sums Base.Mat Model.C14 Proofs.C14.
Import ListNotations.
Local Open Scope Q_scope.

(* ---------- for i in range(lo, hi) ---------- *)
Definition zrange (lo hi : Z) : list Z := map (fun t => (lo + Z.of_nat t)%Z) (seq 0 (Z.to_nat (hi - lo))).

Lemma seq_from a n : seq a n = map (fun t => (a + t)%nat) (seq 0 n).
Proof.
  revert a. induction n as [|n IH]; intros a; cbn [seq map]; [reflexivity|].
  rewrite Nat.add_0_r. f_equal. rewrite (IH (S a)), <- seq_shift, map_map. apply map_ext. intros t. lia.
Qed.

(* ---------- ens = zeros(len); for i in range(lo, hi): ens[ei(i)] = val(i) ---------- *)
Definition updf (f : nat -> Q) (k : nat) (v : Q) : nat -> Q := fun i => if Nat.eqb i k then v else f i.
Definition fill_skel (lo hi : Z) (ei : Z -> Z) (val : Z -> Q) : nat -> Q :=
  fold_left (fun f i => updf f (Z.to_nat (ei i)) (val i)) (zrange lo hi) (fun _ => 0).

Lemma fill_spec (start dim : nat) lo hi ei val : lo = Z.of_nat start -> hi = Z.of_nat dim -> (start <= dim)%nat ->
  (forall i, ei i = (i - Z.of_nat start)%Z) ->
  forall k, (k < dim - start)%nat -> fill_skel lo hi ei val k = val (Z.of_nat (start + k)).
Proof.
  intros -> -> Hsd Hei. unfold fill_skel, zrange. replace (Z.to_nat (Z.of_nat dim - Z.of_nat start)) with (dim - start)%nat by lia.
  assert (H : forall n, (n <= dim - start)%nat -> forall k,
             fold_left (fun f i => updf f (Z.to_nat (ei i)) (val i)) (map (fun t => (Z.of_nat start + Z.of_nat t)%Z) (seq 0 n)) (fun _ => 0) k
             = if (k <? n)%nat then val (Z.of_nat (start + k)) else 0).
  { induction n as [|n IH]; intros Hn k; [reflexivity|].
    rewrite seq_S, map_app, fold_left_app. cbn [map fold_left Nat.add]. unfold updf at 1. rewrite Hei.
    replace (Z.to_nat (Z.of_nat start + Z.of_nat n - Z.of_nat start)) with n by lia.
    destruct (Nat.eqb_spec k n) as [->|Hkn].
    - assert (Hl : (n <? S n)%nat = true) by (apply Nat.ltb_lt; lia). rewrite Hl. f_equal. lia.
    - rewrite IH by lia. destruct (Nat.ltb_spec k n), (Nat.ltb_spec k (S n)); try reflexivity; lia. }
  intros k Hk. rewrite (H (dim - start)%nat (le_n _) k). apply Nat.ltb_lt in Hk. now rewrite Hk.
Qed.

Lemma zipsub_map h s : (length h <= length s)%nat ->
  zipsub h s = map (fun k => nth k h 0 - nth k s 0) (seq 0 (length h)).
Proof.
  revert s. induction h as [|x h IH]; intros s Hl; [reflexivity|].
  destruct s as [|y s]; [cbn in Hl; lia|]. cbn [zipsub length seq map nth]. f_equal.
  rewrite IH by (cbn in Hl; lia). rewrite <- seq_shift, map_map. reflexivity.
Qed.

Lemma nth_skipn {A} (l : list A) n k d : nth k (skipn n l) d = nth (n + k) l d.
Proof. revert l. induction n as [|n IH]; intros l; [reflexivity|]. destruct l as [|x l]; [now destruct k|]. cbn [skipn Nat.add nth]. apply IH. Qed.

Lemma fill_is_zipsub hd sub (start dim : nat) lo hi ei val : lo = Z.of_nat start -> hi = Z.of_nat dim ->
  (forall i, ei i = (i - Z.of_nat start)%Z) ->
  (forall i, val i = nth (Z.to_nat i) hd 0 - nth (Z.to_nat (i - Z.of_nat start)) sub 0) ->
  length hd = dim -> (dim - start <= length sub)%nat -> (start <= dim)%nat ->
  map (fill_skel lo hi ei val) (seq 0 (dim - start)) = zipsub (skipn start hd) sub.
Proof.
  intros Hlo Hhi Hei Hval Hhd Hsub Hsd.
  rewrite zipsub_map by (rewrite skipn_length; lia). rewrite skipn_length, Hhd.
  apply map_ext_in. intros k Hk. apply in_seq in Hk.
  rewrite (fill_spec start dim lo hi ei val Hlo Hhi Hsd Hei k) by lia. rewrite Hval, nth_skipn.
  replace (Z.to_nat (Z.of_nat (start + k))) with (start + k)%nat by lia.
  replace (Z.to_nat (Z.of_nat (start + k) - Z.of_nat start)) with k by lia. reflexivity.
Qed.

(* ---------- the diagonal of rho0 ---------- *)
(* rho0 = zeros((dim,dim)); rho0[zr,zc] = one *)
Definition point_diag (dim : nat) (zr zc : Z) (one : Q) : list Q :=
  map (fun i => if (Z.of_nat i =? zr)%Z && (Z.of_nat i =? zc)%Z then one else 0) (seq 0 dim).
(* rho0 = zeros((dim,dim)); rho0[lo1:,lo2:] = numpy.diag(p) *)
Definition block_diag (dim : nat) (lo1 lo2 : Z) (p : list Q) : list Q :=
  map (fun i => let z := Z.of_nat i in
                if (lo1 <=? z)%Z && (lo2 <=? z)%Z && (z - lo1 =? z - lo2)%Z then nth (Z.to_nat (z - lo1)) p 0 else 0) (seq 0 dim).

Lemma list_as_map (p : list Q) : p = map (fun t => nth t p 0) (seq 0 (length p)).
Proof.
  induction p as [|x p IH]; [reflexivity|]. cbn [length seq map nth]. f_equal. rewrite <- seq_shift, map_map. exact IH.
Qed.

Lemma onehot_shift start m k : onehot (start + m) (start + k) = repeat 0 start ++ onehot m k.
Proof. induction start as [|s IH]; [reflexivity|]. cbn [Nat.add onehot repeat app]. now rewrite IH. Qed.

Lemma onehot_map len k : (k < len)%nat -> onehot len k = map (fun i => if Nat.eqb i k then 1 else 0) (seq 0 len).
Proof.
  revert k. induction len as [|len IH]; intros k Hk; [lia|]. destruct k as [|k]; cbn [onehot seq map].
  - f_equal. rewrite <- seq_shift, map_map. cbn [Nat.eqb]. clear. induction len as [|n IHn]; [reflexivity|].
    cbn [repeat seq map]. f_equal. rewrite <- seq_shift, map_map. exact IHn.
  - cbn [Nat.eqb]. f_equal. rewrite IH by lia. rewrite <- seq_shift, map_map. reflexivity.
Qed.

Lemma point_diag_spec start m k zr zc one : (k < m)%nat -> zr = Z.of_nat (start + k) -> zc = Z.of_nat (start + k) -> one = 1 ->
  point_diag (start + m) zr zc one = repeat 0 start ++ onehot m k.
Proof.
  intros Hk -> -> ->. rewrite <- onehot_shift, (onehot_map (start + m) (start + k)) by lia. unfold point_diag.
  apply map_ext. intros i. destruct (Nat.eqb_spec i (start + k)) as [->|Hne].
  - now rewrite Z.eqb_refl.
  - replace (Z.of_nat i =? Z.of_nat (start + k))%Z with false by (symmetry; apply Z.eqb_neq; lia). reflexivity.
Qed.

Lemma block_diag_spec start m lo1 lo2 p : lo1 = Z.of_nat start -> lo2 = Z.of_nat start -> length p = m ->
  block_diag (start + m) lo1 lo2 p = repeat 0 start ++ p.
Proof.
  intros -> -> Hp. unfold block_diag. rewrite seq_app, map_app. f_equal.
  - assert (Hc : forall (l : list nat), repeat 0 (length l) = map (fun _ => 0) l) by (induction l; cbn; congruence).
    rewrite <- (seq_length start 0) at 2. rewrite Hc. apply map_ext_in. intros i Hi. apply in_seq in Hi. cbv zeta.
    replace (Z.of_nat start <=? Z.of_nat i)%Z with false by (symmetry; apply Z.leb_gt; lia). reflexivity.
  - cbn [Nat.add]. rewrite seq_from, map_map. subst m.
    rewrite (list_as_map p) at 2. apply map_ext_in. intros t Ht. apply in_seq in Ht. cbv zeta.
    replace (Z.of_nat start <=? Z.of_nat (start + t))%Z with true by (symmetry; apply Z.leb_le; lia).
    rewrite Z.eqb_refl. cbn [andb]. f_equal. lia.
Qed.

(* ---------- AggregateBase._thermal_population ---------- *)
Section ThermalSkel.
  Variable ex : Q -> Q.
  Variables (kbt : Q) (tzero : bool) (lo hi enslen : Z) (ei : Z -> Z) (val : Z -> Q).
  Variables (imin zr zc : Z -> Z) (one : Q) (warg : Q -> Q -> Q -> Q) (lo1 lo2 : Z).

  (* ens = zeros(enslen); for i in range(lo,hi): ens[ei] = val
     if tzero: imin = imin(argmin(ens)); rho0[zr,zc] = one
     else: ne = exp(warg(ens, amin(ens), kBT)); sne = sum(ne); rho0[lo1:,lo2:] = diag(ne/sne)        -> diagonal of rho0
     (None: argmin/amin of an empty array raise; 0/0 gives NaN, which the constructor of DensityMatrix refuses) *)
  Definition tp_skel (dim : nat) : option (list Q) :=
    let ens := map (fill_skel lo hi ei val) (seq 0 (Z.to_nat enslen)) in
    match ens with
    | [] => None
    | e0 :: er =>
        if tzero then let im := imin (Z.of_nat (argmin e0 er)) in Some (point_diag dim (zr im) (zc im) one)
        else let m := lmin e0 er in
             let ne := map (fun e => ex (warg e m kbt)) ens in
             let s := qsum ne in
             if Qeq_bool s 0 then None else Some (block_diag dim lo1 lo2 (map (fun x => x / s) ne))
    end.

  Variables (kB temp : Q) (hd sub : list Q) (start dim : nat).
  Hypothesis Hkbt : kbt = kB * temp.
  Hypothesis Htz : tzero = Qeq_bool temp 0.
  Hypothesis Hlo : lo = Z.of_nat start.
  Hypothesis Hhi : hi = Z.of_nat dim.
  Hypothesis Hlen : enslen = (Z.of_nat dim - Z.of_nat start)%Z.
  Hypothesis Hei : forall i, ei i = (i - Z.of_nat start)%Z.
  Hypothesis Hval : forall i, val i = nth (Z.to_nat i) hd 0 - nth (Z.to_nat (i - Z.of_nat start)) sub 0.
  Hypothesis Himin : forall a, imin a = (Z.of_nat start + a)%Z.
  Hypothesis Hzr : forall i, zr i = i.
  Hypothesis Hzc : forall i, zc i = i.
  Hypothesis Hone : one = 1.
  Hypothesis Hwarg : forall e m kT, warg e m kT = - (e - m) / kT.
  Hypothesis Hlo1 : lo1 = Z.of_nat start.
  Hypothesis Hlo2 : lo2 = Z.of_nat start.
  Hypothesis Hhd : length hd = dim.
  Hypothesis Hsub : (dim - start <= length sub)%nat.
  Hypothesis Hsd : (start <= dim)%nat.

  Theorem tp_skel_is_model : tp_skel dim = thermal_population ex Fixed Fixed kB temp hd sub start.
  Proof.
    unfold tp_skel, thermal_population.
    replace (Z.to_nat enslen) with (dim - start)%nat by lia.
    rewrite (fill_is_zipsub hd sub start dim lo hi ei val Hlo Hhi Hei Hval Hhd Hsub Hsd).
    assert (Hzl : length (zipsub (skipn start hd) sub) = (dim - start)%nat).
    { rewrite zipsub_map by (rewrite skipn_length; lia). rewrite map_length, seq_length, skipn_length. lia. }
    destruct (zipsub (skipn start hd) sub) as [|e0 er] eqn:Ez; [reflexivity|].
    cbn [length] in Hzl. assert (Hdim : dim = (start + S (length er))%nat) by lia.
    rewrite Htz. destruct (Qeq_bool temp 0).
    - cbv zeta. f_equal. rewrite Hzr, Hzc, Himin, Hdim. unfold zeroT.
      destruct (argmin_spec e0 er) as [Hk _].
      apply point_diag_spec; [exact Hk|lia|lia|exact Hone].
    - cbv zeta. unfold boltz, bweights, bshift. rewrite Hkbt.
      rewrite (map_ext (fun e => ex (warg e (lmin e0 er) (kB * temp))) (fun e => ex (- (e - lmin e0 er) / (kB * temp))))
        by (intros e; now rewrite Hwarg).
      destruct (Qeq_bool (qsum (map (fun e => ex (- (e - lmin e0 er) / (kB * temp))) (e0 :: er))) 0); [reflexivity|].
      f_equal. rewrite Hdim. apply block_diag_spec; [exact Hlo1|exact Hlo2|]. now rewrite !map_length.
  Qed.
End ThermalSkel.

(* ---------- OpenSystem.get_thermal_ReducedDensityMatrix ---------- *)
Definition opt_eqv (a b : option (list Q)) : Prop :=
  match a, b with Some p, Some q => Forall2 Qeq p q | None, None => True | _, _ => False end.

Lemma fold_left_qsum l a : fold_left Qplus l a == a + qsum l.
Proof. revert a. induction l as [|x l IH]; intros a; cbn [fold_left qsum]; [ring|]. rewrite IH. ring. Qed.

Lemma Qeq_bool_compat x y : x == y -> Qeq_bool x 0 = Qeq_bool y 0.
Proof.
  intros H. destruct (Qeq_bool x 0) eqn:Ex, (Qeq_bool y 0) eqn:Ey; try reflexivity.
  - apply Qeq_bool_iff in Ex. assert (Hy : y == 0) by (rewrite <- H; exact Ex). apply Qeq_bool_iff in Hy. congruence.
  - apply Qeq_bool_iff in Ey. assert (Hx : x == 0) by (rewrite H; exact Ey). apply Qeq_bool_iff in Hx. congruence.
Qed.

Lemma Qeq_bool_sym x y : Qeq_bool x y = Qeq_bool y x.
Proof.
  destruct (Qeq_bool x y) eqn:E1, (Qeq_bool y x) eqn:E2; try reflexivity.
  - apply Qeq_bool_iff in E1. symmetry in E1. apply Qeq_bool_iff in E1. congruence.
  - apply Qeq_bool_iff in E2. symmetry in E2. apply Qeq_bool_iff in E2. congruence.
Qed.

Section OpenSystemSkel.
  Variable ex : Q -> Q.
  Variables (tiny : Q) (z1 z2 : Z) (one : Q) (lo hi : Z) (warg : Q -> Q -> Q) (scale : Q -> Q) (dsum0 : Q).

  (* dat = zeros; inside eigenbasis_of(H):
       if |T| < tiny: dat[z1,z2] = one
       else: dsum = dsum0; emin = amin(diag H); for n in range(lo,hi): dat[n,n] = exp(warg(H[n,n], emin)); dsum += dat[n,n]
             dat *= scale(dsum)                                                                      -> diagonal of dat *)
  Definition os_skel (temp : Q) (hd : list Q) : option (list Q) :=
    match hd with
    | [] => None
    | e0 :: er =>
        if negb (Qle_bool tiny (Qabs temp)) then Some (point_diag (length hd) z1 z2 one)
        else let emin := lmin e0 er in
             let ne := map (fun n => ex (warg (nth n hd 0) emin)) (map Z.to_nat (zrange lo hi)) in
             let ds := fold_left Qplus ne dsum0 in
             if Qeq_bool ds 0 then None else Some (map (fun x => x * scale ds) ne)
    end.

  Variables (kB temp : Q) (hd : list Q).
  Hypothesis Htiny : tiny = 1 # 10000000000.
  Hypothesis Hz1 : z1 = 0%Z.
  Hypothesis Hz2 : z2 = 0%Z.
  Hypothesis Hone : one = 1.
  Hypothesis Hlo : lo = 0%Z.
  Hypothesis Hhi : hi = Z.of_nat (length hd).
  Hypothesis Hwarg : forall e m, warg e m = - (e - m) / (kB * temp).
  Hypothesis Hscale : forall d, ~ d == 0 -> scale d == 1 / d.
  Hypothesis Hds : dsum0 = 0.

  Theorem os_skel_is_model : opt_eqv (os_skel temp hd) (opensystem_population ex Fixed kB temp hd).
  Proof.
    unfold os_skel, opensystem_population. destruct hd as [|e0 er] eqn:Ehd; [exact I|].
    rewrite Htiny. destruct (negb (Qle_bool (1 # 10000000000) (Qabs temp))).
    - cbn [opt_eqv]. rewrite Hz1, Hz2, Hone.
      pose proof (point_diag_spec 0 (length (e0 :: er)) 0 0%Z 0%Z 1) as Hp. cbn [Nat.add] in Hp.
      rewrite Hp by (cbn [length]; first [lia | reflexivity]). cbn [repeat app length]. clear. induction (onehot (S (length er)) 0) as [|x l IH]; constructor; [reflexivity|exact IH].
    - assert (Hidx : forall m, map Z.to_nat (zrange 0 (Z.of_nat m)) = seq 0 m).
      { intros m. unfold zrange. rewrite Z.sub_0_r, Nat2Z.id, map_map.
        rewrite (map_ext (fun t => Z.to_nat (0 + Z.of_nat t)) (fun t => t)) by (intros; lia). apply map_id. }
      rewrite Hlo, Hhi, Hidx. cbv zeta.
      set (f := fun e => ex (- (e - lmin e0 er) / (kB * temp))).
      assert (Hne : map (fun n => ex (warg (nth n (e0 :: er) 0) (lmin e0 er))) (seq 0 (length (e0 :: er))) = map f (e0 :: er)).
      { transitivity (map f (map (fun t => nth t (e0 :: er) 0) (seq 0 (length (e0 :: er))))); [|now rewrite <- list_as_map].
        rewrite map_map. apply map_ext. intros n. unfold f. now rewrite Hwarg. }
      rewrite Hne. unfold boltz, bweights, bshift. fold f. rewrite Hds.
      assert (Hs : fold_left Qplus (map f (e0 :: er)) 0 == qsum (map f (e0 :: er))) by (rewrite fold_left_qsum; ring).
      rewrite (Qeq_bool_compat _ _ Hs).
      destruct (Qeq_bool (qsum (map f (e0 :: er))) 0) eqn:Es; [exact I|]. cbn [opt_eqv].
      assert (Hnz : ~ fold_left Qplus (map f (e0 :: er)) 0 == 0).
      { intros H0. rewrite Hs in H0. apply Qeq_bool_iff in H0. congruence. }
      induction (map f (e0 :: er)) as [|x l IH] in Hs, Hnz |- *.
      + constructor.
      + clear IH. revert Hs Hnz. generalize (fold_left Qplus (x :: l) 0). generalize (qsum (x :: l)). intros s ds Hs Hnz.
        induction (x :: l) as [|y m IHm]; constructor; [|exact IHm].
        rewrite (Hscale ds Hnz), Hs. field. intros H0. apply Hnz. now rewrite Hs.
  Qed.
End OpenSystemSkel.

(* ---------- get_DensityMatrix: matrices ---------- *)
Section MatSkel.
  Context {R : StarRing}.
  Add Ring Rr14 : (rth R).
  Open Scope sr_scope.

  Lemma mmul3_at n (A B C : @mat R) a b : (a < n)%nat -> (b < n)%nat -> mmul3 n A B C a b = mmul n A (mmul n B C) a b.
  Proof. intros Ha Hb. unfold mmul3, mmul. apply sum_ext. intros k Hk. now rewrite tab2_spec. Qed.

  (* strong coupling: ham = SS . ham . S1 read on the diagonal; rho0 = S1 . rho0 . SS *)
  Lemma strong_energies_spec n (S S1 Hcur : @mat R) (g : @mat R) i : (i < n)%nat ->
    (forall a b, g a b = mmul n S (mmul n Hcur S1) a b) -> g i i = strong_energies Fixed n S S1 Hcur i.
  Proof. intros Hi Hg. unfold strong_energies, site_repr. rewrite tab2_spec by assumption. rewrite mmul3_at by assumption. apply Hg. Qed.

  Lemma strong_data_spec n (S S1 D : @mat R) (g : @mat R) a b : (a < n)%nat -> (b < n)%nat ->
    (forall a b, g a b = mmul n S1 (mmul n D S) a b) -> g a b = strong_data Fixed n S S1 D a b.
  Proof. intros Ha Hb Hg. unfold strong_data. rewrite mmul3_at by assumption. apply Hg. Qed.
End MatSkel.
