(* Statement skeletons of the vibronic part of quantarhei/builders/aggregate_base.py and aggregate_states.py (collection of the
   sub-modes, vsignatures, fc_factor, the vibrational part of the energy, the fill loops of _build with vibrational
   signatures) with the arithmetic content as section variables, and the lemmas that turn "the content is the expected one" into
   equality with Model/C10.v and Model/C10x.v.  harness/translate_c10.py instantiates them from the current source on every run.
   The electronic skeletons are those of Proofs/C03gen.v.  As there, the skeletons read the statements faithfully where the side
   conditions hold (indices in range); elsewhere they are total but arbitrary. *)
From Coq Require Import ZArith List Bool Arith Lia.
From QV Require Import Base.Alg Base.Sums Base.Mat Model.C03 Proofs.C03 Proofs.C03gen Model.C10 Proofs.C10 Model.C10x Proofs.C10x.
Import ListNotations.

(* ------------------------------------------------------------------------------------------------------------
   ElectronicState.__init__:
     vb_ls = []; n = N0
     for mn in aggregate.monomers:
         for a in range(NMOD): vb_ls.append(mn.get_Mode(MODEIDX).get_SubMode(LEVEL))
         n = NNEXT                                                                                               *)
Section VibModesSkel.
  Variable SM : Type.
  Variable sub : nat -> Z -> Z -> SM.           (* monomers[p].get_Mode(.).get_SubMode(.) *)
  Variable nmodz : nat -> Z.                     (* monomers[p].nmod *)
  Variables (n0 : Z) (nnext : Z -> Z) (nmodh : Z -> Z) (modeidx : Z -> Z -> Z) (level : sig -> Z -> Z -> Z).   (* a n *)
  Definition vibmodes_skel (N : nat) (s : sig) : list SM :=
    snd (fold_left (fun st p => (nnext (fst st),
                                 snd st ++ map (fun a => sub p (modeidx a (fst st)) (level s a (fst st))) (zrange 0 (nmodh (nmodz p)))))
                   (seq 0 N) (n0, [])).
  Hypothesis Hn0 : n0 = 0%Z.
  Hypothesis Hnnext : forall n, nnext n = (n + 1)%Z.
  Hypothesis Hnmodh : forall x, nmodh x = x.
  Hypothesis Hmodeidx : forall a n, modeidx a n = a.
  Hypothesis Hlevel : forall s a n, level s a n = pynth s n.
  Lemma vibmodes_skel_is_model (nmod : nat -> nat) N s : (forall p, nmodz p = Z.of_nat (nmod p)) ->
    vibmodes_skel N s = vibmodes_of SM (fun p a l => sub p (Z.of_nat a) (Z.of_nat l)) nmod N s.
  Proof.
    intros Hm. unfold vibmodes_skel. rewrite Hn0.
    assert (G : fold_left (fun st p => (nnext (fst st),
                 snd st ++ map (fun a => sub p (modeidx a (fst st)) (level s a (fst st))) (zrange 0 (nmodh (nmodz p))))) (seq 0 N) (0%Z, [])
                = (Z.of_nat N, vibmodes_of SM (fun p a l => sub p (Z.of_nat a) (Z.of_nat l)) nmod N s)).
    { induction N as [|N IH]; [reflexivity|]. rewrite seq_S, fold_left_app, IH. cbn [fold_left fst snd Nat.add].
      rewrite Hnnext, Hnmodh, Hm, vibmodes_S. f_equal; [lia|]. f_equal.
      change 0%Z with (Z.of_nat 0). rewrite zrange_nat, Nat.sub_0_r, map_map. apply map_ext. intros a.
      now rewrite Hmodeidx, Hlevel, pynth_nat. }
    now rewrite G.
  Qed.
End VibModesSkel.

(* ------------------------------------------------------------------------------------------------------------
   fc_factor(state1, state2):
     res = RES0
     for kk in range(len(sta1)):
         smod1 = sta1[I1]; smod2 = sta2[I2]; shft = smod1.shift - smod2.shift; qn1 = inx1[Q1]; qn2 = inx2[Q2]
         [the table is filled for the key shft when it is new]; ii = self.FC.index(shft); rs = self.FC.get(ii)[R1, R2]
         res = RESNEXT
     return res                                                                                                   *)
Section FcSkel.
  Context {R : StarRing}.
  Variables (Sh K : Type) (shiftdiff : Sh -> Sh -> K) (FCtab : K -> nat -> nat -> R).
  Variables (res0 : R) (i1 i2 q1 q2 : Z -> Z) (ri1 ri2 : Z -> Z -> Z) (resnext : R -> R -> R).
  Variable key : K -> K.            (* what is looked up, added and indexed, given shft *)
  Definition fc_skel (m1 m2 : list (@submode R Sh)) (v1 v2 : list nat) : R :=
    fold_left (fun res kk =>
      match nth_error m1 (Z.to_nat (i1 kk)), nth_error m2 (Z.to_nat (i2 kk)) with
      | Some a, Some b =>
          let qn1 := pynth v1 (q1 kk) in let qn2 := pynth v2 (q2 kk) in
          resnext res (FCtab (key (shiftdiff (sm_shift Sh a) (sm_shift Sh b))) (Z.to_nat (ri1 qn1 qn2)) (Z.to_nat (ri2 qn1 qn2)))
      | _, _ => res
      end) (zrange 0 (Z.of_nat (length m1))) res0.
  Hypothesis Hres0 : res0 = r1 R.
  Hypothesis Hi1 : forall kk, i1 kk = kk.
  Hypothesis Hi2 : forall kk, i2 kk = kk.
  Hypothesis Hq1 : forall kk, q1 kk = kk.
  Hypothesis Hq2 : forall kk, q2 kk = kk.
  Hypothesis Hr1 : forall a b, ri1 a b = a.
  Hypothesis Hr2 : forall a b, ri2 a b = b.
  Hypothesis Hresnext : forall res rs, resnext res rs = rmul R res rs.
  Hypothesis Hkey : forall k, key k = k.

  Lemma fc_gen : forall m1 m2 v1 v2 (p1 p2 : list (@submode R Sh)) (w1 w2 : list nat) res,
    length m1 = length m2 -> length v1 = length m1 -> length v2 = length m1 ->
    length p1 = length p2 -> length w1 = length p1 -> length w2 = length p1 ->
    fold_left (fun res kk =>
      match nth_error (p1 ++ m1) (Z.to_nat (i1 kk)), nth_error (p2 ++ m2) (Z.to_nat (i2 kk)) with
      | Some a, Some b =>
          let qn1 := pynth (w1 ++ v1) (q1 kk) in let qn2 := pynth (w2 ++ v2) (q2 kk) in
          resnext res (FCtab (key (shiftdiff (sm_shift Sh a) (sm_shift Sh b))) (Z.to_nat (ri1 qn1 qn2)) (Z.to_nat (ri2 qn1 qn2)))
      | _, _ => res
      end) (map Z.of_nat (seq (length p1) (length m1))) res
    = fc_prod Sh K shiftdiff FCtab m1 m2 v1 v2 res.
  Proof.
    induction m1 as [|a m1 IH]; intros [|b m2] [|x1 v1] [|x2 v2] p1 p2 w1 w2 res H1 H2 H3 H4 H5 H6; cbn [length] in *; try lia; [reflexivity|].
    assert (E1 : nth_error (p1 ++ a :: m1) (length p1) = Some a) by (rewrite nth_error_app2, Nat.sub_diag by lia; reflexivity).
    assert (E2 : nth_error (p2 ++ b :: m2) (length p1) = Some b) by (rewrite H4, nth_error_app2, Nat.sub_diag by lia; reflexivity).
    assert (E3 : nth (length p1) (w1 ++ x1 :: v1) 0 = x1) by (rewrite <- H5, app_nth2, Nat.sub_diag by lia; reflexivity).
    assert (E4 : nth (length p1) (w2 ++ x2 :: v2) 0 = x2) by (rewrite <- H6, app_nth2, Nat.sub_diag by lia; reflexivity).
    cbn [seq map fold_left fc_prod]. rewrite Hi1, Hi2, Hq1, Hq2, Nat2Z.id, E1, E2.
    cbv zeta. rewrite Hr1, Hr2, Hresnext, Hkey, !pynth_nat, E3, E4, !Nat2Z.id.
    specialize (IH m2 v1 v2 (p1 ++ [a]) (p2 ++ [b]) (w1 ++ [x1]) (w2 ++ [x2])). rewrite <- !app_assoc in IH. cbn [app] in IH.
    rewrite !app_length in IH. cbn [length] in IH. replace (length p1 + 1) with (S (length p1)) in IH by lia.
    apply IH; lia.
  Qed.

  Lemma fc_skel_is_model m1 m2 v1 v2 : length m1 = length m2 -> length v1 = length m1 -> length v2 = length m1 ->
    fc_skel m1 m2 v1 v2 = fc_prod Sh K shiftdiff FCtab m1 m2 v1 v2 (r1 R).
  Proof.
    intros H1 H2 H3. unfold fc_skel. rewrite Hres0. change 0%Z with (Z.of_nat 0). rewrite zrange_nat, Nat.sub_0_r.
    exact (fc_gen m1 m2 v1 v2 [] [] [] [] (r1 R) H1 H2 H3 eq_refl eq_refl eq_refl).
  Qed.
End FcSkel.

(* ------------------------------------------------------------------------------------------------------------
   ElectronicState.energy(vsig) with vibrational modes: the skeleton is energy_skel of Proofs/C03gen.v                *)
Section VibEnergy.
  Context {R : StarRing}.
  Add Ring Rr : (rth R).
  Variable Sh : Type.
  Variables (en0 : R) (vk0 k0 : Z) (vknext knext : Z -> Z).
  Variable vnext : R -> (Z -> R) -> R -> Z -> R.
  Variable enext : R -> (Z -> Z -> R) -> Z -> Z -> R.
  Hypothesis Hen0 : en0 = r0 R.
  Hypothesis Hvk0 : vk0 = 0%Z.
  Hypothesis Hk0 : k0 = 0%Z.
  Hypothesis Hvknext : forall k, vknext k = (k + 1)%Z.
  Hypothesis Hknext : forall k, knext k = (k + 1)%Z.
  Hypothesis Hvnext : forall en vq om k, vnext en vq om k = radd R en (rmul R (vq k) om).
  Hypothesis Henext : forall en Ez k nn, enext en Ez k nn = radd R en (Ez k nn).

  Lemma zinj_nat n : zinj (Z.of_nat n) = ofnat (R:=R) n.
  Proof. unfold zinj, ofnat. now rewrite Nat2Z.id. Qed.

  Lemma vib_gen : forall (m : list (@submode R Sh)) v w acc, length v = length m ->
    fold_left (fun st om => (vknext (fst st), vnext (snd st) (fun i => zinj (pynth (w ++ v) i)) om (fst st))) (map (sm_omega Sh) m) (Z.of_nat (length w), acc)
    = (Z.of_nat (length w + length m), vib_energy Sh m v acc).
  Proof.
    induction m as [|a m IH]; intros [|q v] w acc Hl; cbn [length] in *; try lia; cbn [map fold_left vib_energy fst snd]; [f_equal; f_equal; lia|].
    rewrite Hvknext, Hvnext, pynth_nat, app_nth2, Nat.sub_diag, zinj_nat by lia. cbn [nth].
    specialize (IH v (w ++ [q]) (radd R acc (rmul R (ofnat q) (sm_omega Sh a)))). rewrite <- app_assoc, app_length in IH. cbn [app length] in IH.
    replace (Z.of_nat (length w) + 1)%Z with (Z.of_nat (length w + 1)) by lia. rewrite IH by lia. f_equal. f_equal. lia.
  Qed.

  Lemma venergy_skel_is_model N (E : nat -> nat -> R) Ez (vm : sig -> list (@submode R Sh)) i s v :
    (forall k n, Ez (Z.of_nat k) (Z.of_nat n) = E k n) -> length s = N -> length v = length (vm s) ->
    energy_skel en0 vk0 k0 vknext knext vnext enext (Some v) (map (sm_omega Sh) (vm s)) Ez s = venergy N E Sh vm (i, s, v).
  Proof.
    intros HE Hs Hv. unfold energy_skel, venergy. rewrite (el_part_spec k0 knext enext Hk0 Hknext Henext E) by exact HE.
    unfold vib_part. rewrite Hvk0, Hen0. pose proof (vib_gen (vm s) v [] (r0 R) Hv) as G. cbn [app length] in G.
    change (Z.of_nat 0) with 0%Z in G. rewrite G. cbn [snd]. unfold energy. now rewrite Hs.
  Qed.
End VibEnergy.

(* ------------------------------------------------------------------------------------------------------------
   assembly: the generated pieces put together are vH / vD / vFC of Model/C10.v                                   *)
Lemma Forall2_len {A B} (P : A -> B -> Prop) l l' : Forall2 P l l' -> length l = length l'.
Proof. induction 1; cbn [length]; [reflexivity|]. now f_equal. Qed.

Section VAssembly.
  Context {R : StarRing}.
  Variable N : nat.
  Variables (E J dip : nat -> nat -> R) (sqrtf : nat -> R).
  Variables (Sh K : Type) (shiftdiff : Sh -> Sh -> K) (FCtab : K -> nat -> nat -> R).
  Variable vm : sig -> list (@submode R Sh).
  Variable sigs : list sig.
  Hypothesis Hlen : forall a, a < length sigs -> length (nth a sigs []) = N.
  Let vs := fun s => ndindex (nmaxes Sh vm s).
  Let G := gstates_from vs 0 sigs.
  Let d0 : nst := (0, [], []).

  Lemma G_is_vstates : G = vstates Sh vm sigs.
  Proof. reflexivity. Qed.

  Lemma G_valid a : a < length G ->
    let '(i, s, v) := nth a G d0 in i < length sigs /\ nth i sigs [] = s /\ length v = length (vm s).
  Proof.
    intros Ha.
    assert (H : let '(i, s, v) := nth a G d0 in i < length sigs /\ nth i sigs [] = s /\ Forall2 lt v (nmaxes Sh vm s))
      by exact (vst_consistent Sh vm sigs a Ha).
    destruct (nth a G d0) as [[i s] v]. destruct H as [H1 [H2 H3]]. split; [exact H1|]. split; [exact H2|].
    apply Forall2_len in H3. rewrite H3. unfold nmaxes. now rewrite map_length.
  Qed.

  Variables (enf : C03gen.vst -> R) (coupf trdf fcf : C03gen.vst -> C03gen.vst -> R).
  Variables (d1 d2 : Z -> Z) (off : Z -> Z -> bool) (r2 c2 rD cD rF cF : Z -> Z -> Z) (sc1 sc2 st1 st2 sf1 sf2 : C03gen.vst -> C03gen.vst -> C03gen.vst).
  Hypothesis Hd1 : forall a, d1 a = a.
  Hypothesis Hd2 : forall a, d2 a = a.
  Hypothesis Hoff : forall a b, off a b = negb (a =? b)%Z.
  Hypothesis Hr2 : forall a b, r2 a b = a.
  Hypothesis Hc2 : forall a b, c2 a b = b.
  Hypothesis HrD : forall a b, rD a b = a.
  Hypothesis HcD : forall a b, cD a b = b.
  Hypothesis HrF : forall a b, rF a b = a.
  Hypothesis HcF : forall a b, cF a b = b.
  Hypothesis Hsc1 : forall s1 s2, sc1 s1 s2 = s1.
  Hypothesis Hsc2 : forall s1 s2, sc2 s1 s2 = s2.
  Hypothesis Hst1 : forall s1 s2, st1 s1 s2 = s1.
  Hypothesis Hst2 : forall s1 s2, st2 s1 s2 = s2.
  Hypothesis Hsf1 : forall s1 s2, sf1 s1 s2 = s1.
  Hypothesis Hsf2 : forall s1 s2, sf2 s1 s2 = s2.
  Variable states : list (Z * C03gen.vst).
  Hypothesis Hstates : states = map zst (combine (seq 0 (length G)) G).
  Hypothesis Hen : forall i s v, length s = N -> length v = length (vm s) -> enf (Z.of_nat i, s, v) = venergy N E Sh vm (i, s, v).
  Hypothesis Hfc : forall i1 s1 v1 i2 s2 v2, length v1 = length (vm s1) -> length v2 = length (vm s2) ->
    fcf (i1, s1, v1) (i2, s2, v2) = fc_factor Sh K shiftdiff FCtab vm s1 s2 v1 v2.
  Hypothesis Hcoup : forall i1 s1 v1 i2 s2 v2, length s1 = length s2 -> length v1 = length (vm s1) -> length v2 = length (vm s2) ->
    coupf (Z.of_nat i1, s1, v1) (Z.of_nat i2, s2, v2) = coupling N J sqrtf s1 i1 s2 i2 (fc_factor Sh K shiftdiff FCtab vm s1 s2 v1 v2).

  Lemma vst_G a : Model.C10.vst Sh vm sigs a = nth a G d0.
  Proof. reflexivity. Qed.
  Ltac valid a Ha i s v Hi Hs Hv :=
    let H := fresh in pose proof (G_valid a Ha) as H; rewrite ?(vst_G a);
    destruct (nth a G d0) as [[i s] v]; destruct H as [Hi [Hs Hv]].

  Lemma vH_assembly a b : a < length G -> b < length G ->
    fill_H C03gen.vst enf coupf d1 d2 off r2 c2 sc1 sc2 states a b = vH N E J sqrtf Sh K shiftdiff FCtab vm sigs a b.
  Proof.
    intros Ha Hb. rewrite Hstates, (states_as_nstates G d0).
    rewrite (fill_H_spec C03gen.vst enf coupf d1 d2 off r2 c2 sc1 sc2 Hd1 Hd2 Hoff Hr2 Hc2 Hsc1 Hsc2 (zs d0) (map zs G)) by (rewrite map_length; assumption).
    rewrite !(map_nth zs G d0). unfold vH.
    valid a Ha i1 s1 v1 Hi1 Hs1 Hv1. valid b Hb i2 s2 v2 Hi2 Hs2 Hv2. cbn [zs].
    destruct (a =? b).
    - apply Hen; [|exact Hv1]. rewrite <- Hs1. now apply Hlen.
    - apply Hcoup; [|exact Hv1|exact Hv2]. rewrite <- Hs1, <- Hs2. now rewrite !Hlen.
  Qed.

  Variable c : nat.
  Hypothesis Htrd : forall i1 s1 v1 i2 s2 v2, length s1 = length s2 -> length v1 = length (vm s1) -> length v2 = length (vm s2) ->
    trdf (i1, s1, v1) (i2, s2, v2) = trdip dip s1 s2 (fc_factor Sh K shiftdiff FCtab vm s1 s2 v1 v2) c.
  Lemma vD_assembly a b : a < length G -> b < length G ->
    fill_D C03gen.vst trdf rD cD st1 st2 states a b = vD dip Sh K shiftdiff FCtab vm sigs c a b.
  Proof.
    intros Ha Hb. rewrite Hstates, (states_as_nstates G d0).
    rewrite (fill_D_spec C03gen.vst trdf rD cD st1 st2 HrD HcD Hst1 Hst2 (zs d0) (map zs G)) by (rewrite map_length; assumption).
    rewrite !(map_nth zs G d0). unfold vD.
    valid a Ha i1 s1 v1 Hi1 Hs1 Hv1. valid b Hb i2 s2 v2 Hi2 Hs2 Hv2. cbn [zs].
    apply Htrd; [|exact Hv1|exact Hv2]. rewrite <- Hs1, <- Hs2. now rewrite !Hlen.
  Qed.

  Lemma vFC_assembly a b : a < length G -> b < length G ->
    fill_D C03gen.vst fcf rF cF sf1 sf2 states a b = vFC Sh K shiftdiff FCtab vm sigs a b.
  Proof.
    intros Ha Hb. rewrite Hstates, (states_as_nstates G d0).
    rewrite (fill_D_spec C03gen.vst fcf rF cF sf1 sf2 HrF HcF Hsf1 Hsf2 (zs d0) (map zs G)) by (rewrite map_length; assumption).
    rewrite !(map_nth zs G d0). unfold vFC.
    valid a Ha i1 s1 v1 Hi1 Hs1 Hv1. valid b Hb i2 s2 v2 Hi2 Hs2 Hv2. cbn [zs].
    apply Hfc; assumption.
  Qed.
End VAssembly.

(* number of vibronic states per band *)
Lemma vNb_nth {R : StarRing} (Sh : Type) (vm : sig -> list (@submode R Sh)) omax mult ii : ii <= mult ->
  nth ii (vNb Sh vm omax mult) 0 = length (gstates_from (fun s => ndindex (nmaxes Sh vm s)) 0 (elsigs_eq omax ii)).
Proof.
  intros H. unfold vNb.
  rewrite (nth_indep _ 0 ((fun k => list_sum (map (fun s => prod (nmaxes Sh vm s)) (elsigs_eq omax k))) 0)) by (rewrite map_length, seq_length; lia).
  rewrite (map_nth (fun k => list_sum (map (fun s => prod (nmaxes Sh vm s)) (elsigs_eq omax k)))), seq_nth by lia. cbn [Nat.add].
  symmetry. exact (vstates_from_length Sh vm 0 (elsigs_eq omax ii)).
Qed.

Lemma gstates_from_ext (vs1 vs2 : sig -> list (list nat)) : (forall s, vs1 s = vs2 s) -> forall I sigs, gstates_from vs1 I sigs = gstates_from vs2 I sigs.
Proof. intros H I sigs. unfold gstates_from. apply flat_map_ext_in'. intros p _. now rewrite H. Qed.
