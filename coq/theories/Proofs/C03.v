(* C03, part 1: the enumeration of electronic states by excitation signature
   (elsignatures/_add_excitation) is complete, duplicate free and ordered by band, for every list of
   per-molecule level counts and every multiplicity; explicit shape for two-level molecules. *)
From Coq Require Import ZArith List Bool Arith Lia Permutation.
From QV Require Import Base.Alg Base.Sums Base.Mat Model.C03.
Import ListNotations.

(* ---------- generic list facts ---------- *)
Lemma NoDup_app_intro3 {A} (l m : list A) : NoDup l -> NoDup m -> (forall x, In x l -> In x m -> False) -> NoDup (l ++ m).
Proof.
  intros Hl Hm Hd. induction l as [|a l IH]; [exact Hm|]. cbn [app]. inversion Hl as [|? ? Ha Hl']; subst.
  constructor.
  - rewrite in_app_iff. intros [H|H]; [contradiction|]. apply (Hd a); [now left|exact H].
  - apply IH; [exact Hl'|]. intros x Hx. apply Hd. now right.
Qed.

Lemma NoDup_flat_map {A B} (f : A -> list B) l : NoDup l -> (forall x, In x l -> NoDup (f x)) ->
  (forall x y z, In x l -> In y l -> In z (f x) -> In z (f y) -> x = y) -> NoDup (flat_map f l).
Proof.
  induction l as [|a l IH]; intros Hnd Hin Hdis; cbn [flat_map]; [constructor|].
  inversion Hnd as [|? ? Ha Hl]; subst. apply NoDup_app_intro3.
  - apply Hin. now left.
  - apply IH; [exact Hl|intros x Hx; apply Hin; now right|].
    intros x y z Hx Hy. apply Hdis; now right.
  - intros z Hz1 Hz2. apply in_flat_map in Hz2. destruct Hz2 as [y [Hy Hzy]].
    assert (a = y) as -> by (apply (Hdis a y z); [now left|now right|exact Hz1|exact Hzy]). contradiction.
Qed.

Lemma map_flat_map' {A B C} (h : B -> C) (g : A -> list B) l :
  map h (flat_map g l) = flat_map (fun x => map h (g x)) l.
Proof. induction l as [|a l IH]; cbn [flat_map map]; [reflexivity|]. now rewrite map_app, IH. Qed.

Lemma flat_map_map' {A B C} (g : B -> list C) (h : A -> B) l :
  flat_map g (map h l) = flat_map (fun x => g (h x)) l.
Proof. induction l as [|a l IH]; cbn [flat_map map]; [reflexivity|]. now rewrite IH. Qed.

Lemma flat_map_single {A B} (g : A -> list B) (h : A -> B) l :
  (forall x, In x l -> g x = [h x]) -> flat_map g l = map h l.
Proof.
  induction l as [|a l IH]; intros H; cbn [flat_map map]; [reflexivity|].
  rewrite H by now left. cbn [app]. f_equal. apply IH. intros x Hx. apply H. now right.
Qed.

Lemma flat_map_nil {A B} (g : A -> list B) l : (forall x, In x l -> g x = []) -> flat_map g l = [].
Proof.
  induction l as [|a l IH]; intros H; cbn [flat_map]; [reflexivity|].
  rewrite H by now left. cbn [app]. apply IH. intros x Hx. apply H. now right.
Qed.

Lemma flat_map_ext_in' {A B} (f g : A -> list B) l : (forall x, In x l -> f x = g x) -> flat_map f l = flat_map g l.
Proof.
  induction l as [|a l IH]; intros H; cbn [flat_map]; [reflexivity|].
  rewrite H by now left. f_equal. apply IH. intros x Hx. apply H. now right.
Qed.

Lemma flat_map_length {A B} (g : A -> list B) l : length (flat_map g l) = list_sum (map (fun x => length (g x)) l).
Proof. induction l as [|a l IH]; cbn [flat_map map list_sum]; [reflexivity|]. now rewrite app_length, IH. Qed.

(* ---------- signatures ---------- *)
Lemma sig_eqb_eq a b : sig_eqb a b = true <-> a = b.
Proof.
  revert b; induction a as [|x a IH]; intros [|y b]; cbn [sig_eqb]; split; try discriminate; try reflexivity.
  - intros H. apply andb_prop in H. destruct H as [H1 H2]. apply Nat.eqb_eq in H1. apply IH in H2. congruence.
  - intros [= -> ->]. rewrite Nat.eqb_refl. cbn. now apply IH.
Qed.

Lemma sig_eqb_refl a : sig_eqb a a = true.
Proof. now apply sig_eqb_eq. Qed.

Lemma sig_eqb_neq a b : a <> b -> sig_eqb a b = false.
Proof. intros H. destruct (sig_eqb a b) eqn:E; [|reflexivity]. apply sig_eqb_eq in E. contradiction. Qed.

Lemma sig_ext (a b : sig) : length a = length b -> (forall i, nth i a 0 = nth i b 0) -> a = b.
Proof. intros Hl H. apply (nth_ext a b 0 0 Hl). intros n _. apply H. Qed.

Lemma raise_length s i : length (raise s i) = length s.
Proof. revert i; induction s as [|x s IH]; intros [|i]; cbn [raise length]; auto. Qed.

Lemma raise_nth_same s i : i < length s -> nth i (raise s i) 0 = S (nth i s 0).
Proof. revert i; induction s as [|x s IH]; intros [|i] H; cbn [raise length nth] in *; try lia. apply IH. lia. Qed.

Lemma raise_nth_other s i j : i <> j -> nth j (raise s i) 0 = nth j s 0.
Proof.
  revert i j; induction s as [|x s IH]; intros [|i] [|j] H; cbn [raise nth]; try reflexivity; try lia.
  apply IH. lia.
Qed.

Lemma raise_sum s i : i < length s -> list_sum (raise s i) = S (list_sum s).
Proof.
  revert i; induction s as [|x s IH]; intros [|i] H; cbn [raise length] in *; try lia; simpl list_sum.
  - lia.
  - rewrite IH by lia. lia.
Qed.

Fixpoint lower (s : sig) (i : nat) : sig :=
  match s with
  | [] => []
  | x :: s' => match i with O => pred x :: s' | S i' => x :: lower s' i' end
  end.

Lemma lower_length s i : length (lower s i) = length s.
Proof. revert i; induction s as [|x s IH]; intros [|i]; cbn [lower length]; auto. Qed.

Lemma lower_nth_same s i : nth i (lower s i) 0 = pred (nth i s 0).
Proof. revert i; induction s as [|x s IH]; intros [|i]; cbn [lower nth]; try reflexivity. apply IH. Qed.

Lemma lower_nth_other s i j : i <> j -> nth j (lower s i) 0 = nth j s 0.
Proof.
  revert i j; induction s as [|x s IH]; intros [|i] [|j] H; cbn [lower nth]; try reflexivity; try lia.
  apply IH. lia.
Qed.

Lemma nth_pos_lt (s : sig) i : 1 <= nth i s 0 -> i < length s.
Proof. intros H. destruct (Nat.lt_ge_cases i (length s)) as [L|L]; [exact L|]. rewrite nth_overflow in H by exact L. lia. Qed.

Lemma raise_lower s i : 1 <= nth i s 0 -> raise (lower s i) i = s.
Proof.
  intros H. pose proof (nth_pos_lt s i H) as Hi. apply sig_ext; [now rewrite raise_length, lower_length|].
  intros j. destruct (Nat.eq_dec i j) as [<-|Hne].
  - rewrite raise_nth_same by now rewrite lower_length. rewrite lower_nth_same. lia.
  - rewrite raise_nth_other, lower_nth_other by exact Hne. reflexivity.
Qed.

Lemma lower_raise s i : i < length s -> lower (raise s i) i = s.
Proof.
  intros Hi. apply sig_ext; [now rewrite lower_length, raise_length|].
  intros j. destruct (Nat.eq_dec i j) as [<-|Hne].
  - rewrite lower_nth_same, raise_nth_same by exact Hi. reflexivity.
  - rewrite lower_nth_other, raise_nth_other by exact Hne. reflexivity.
Qed.

Lemma lower_sum s i : 1 <= nth i s 0 -> S (list_sum (lower s i)) = list_sum s.
Proof.
  intros H. rewrite <- (raise_lower s i H) at 2. rewrite raise_sum; [reflexivity|].
  rewrite lower_length. now apply nth_pos_lt.
Qed.

Lemma sum0_nth (s : sig) j : list_sum s = 0 -> nth j s 0 = 0.
Proof.
  revert j; induction s as [|x s IH]; intros j H; [now destruct j|]. simpl list_sum in H.
  destruct j as [|j]; cbn [nth]; [lia|]. apply IH. lia.
Qed.

Lemma list_sum_repeat0 n : list_sum (repeat 0 n) = 0.
Proof. induction n as [|n IH]; [reflexivity|]. cbn [repeat]. simpl list_sum. exact IH. Qed.

Lemma nth_repeat0 n i : nth i (repeat 0 n) 0 = 0.
Proof. revert i; induction n as [|n IH]; intros [|i]; cbn [repeat nth]; auto. Qed.

Lemma sum0_zeros (s : sig) : list_sum s = 0 -> s = repeat 0 (length s).
Proof.
  intros H. apply sig_ext; [now rewrite repeat_length|]. intros i. rewrite nth_repeat0. now apply sum0_nth.
Qed.

Lemma nth_le_sum (s : sig) i : nth i s 0 <= list_sum s.
Proof.
  revert i; induction s as [|x s IH]; intros [|i]; cbn [nth]; simpl list_sum; try lia. specialize (IH i). lia.
Qed.

(* ---------- invariants of the level-by-level generation ---------- *)
Definition bounded (omax : list nat) (s : sig) : Prop :=
  length s = length omax /\ forall i, nth i s 0 <= nth i omax 0.
(* p is the position of the last excited molecule *)
Definition top (s : sig) (p : nat) : Prop := 1 <= nth p s 0 /\ forall j, p < j -> nth j s 0 = 0.

Lemma exists_top (s : sig) : 1 <= list_sum s -> exists p, top s p.
Proof.
  induction s as [|x s IH]; simpl list_sum; [lia|]. intros H.
  destruct (Nat.eq_dec (list_sum s) 0) as [Z|NZ].
  - exists 0. split; [cbn [nth]; lia|]. intros [|j] Hj; [lia|]. cbn [nth]. now apply sum0_nth.
  - destruct IH as [p [Hp1 Hp2]]; [lia|]. exists (S p). split; [exact Hp1|].
    intros [|j] Hj; [lia|]. cbn [nth]. apply Hp2. lia.
Qed.

Lemma top_unique s p q : top s p -> top s q -> p = q.
Proof.
  intros [P1 P2] [Q1 Q2]. destruct (Nat.lt_trichotomy p q) as [L|[L|L]]; [|exact L|].
  - rewrite (P2 q L) in Q1. lia.
  - rewrite (Q2 p L) in P1. lia.
Qed.

Definition inv (omax : list nat) (k : nat) (x : sig * nat) : Prop :=
  bounded omax (fst x) /\ list_sum (fst x) = k /\ ((k = 0 /\ snd x = 0) \/ (1 <= k /\ top (fst x) (snd x))).

Lemma add_one_In omax s p t q :
  In (t, q) (add_one omax s p) <-> (p <= q < length s /\ nth q s 0 < nth q omax 0 /\ t = raise s q).
Proof.
  unfold add_one. rewrite in_flat_map. split.
  - intros [i [Hi Hin]]. apply in_seq in Hi. destruct (Nat.ltb (nth i s 0) (nth i omax 0)) eqn:E; [|destruct Hin].
    destruct Hin as [Heq|[]]. inversion Heq; subst. apply Nat.ltb_lt in E. repeat split; try lia.
  - intros [Hq [Hlt ->]]. exists q. split; [apply in_seq; lia|].
    apply Nat.ltb_lt in Hlt. rewrite Hlt. now left.
Qed.

Lemma level_S omax k : level omax (S k) = add_excitation omax (level omax k).
Proof. reflexivity. Qed.

Lemma add_one_inv omax k s p t q : inv omax k (s, p) -> In (t, q) (add_one omax s p) ->
  inv omax (S k) (t, q) /\ t = raise s q /\ q < length s.
Proof.
  intros [[Hlen Hb] [Hsum Hk]] Hin. cbn [fst snd] in *. apply add_one_In in Hin. destruct Hin as [Hq [Hlt ->]].
  split; [|split; [reflexivity|lia]]. unfold inv. cbn [fst snd]. split; [|split].
  - split; [now rewrite raise_length|]. intros i. destruct (Nat.eq_dec q i) as [<-|Hne].
    + rewrite raise_nth_same by lia. lia.
    + rewrite raise_nth_other by exact Hne. apply Hb.
  - rewrite raise_sum by lia. now rewrite Hsum.
  - right. split; [lia|]. split; [rewrite raise_nth_same by lia; lia|].
    intros j Hj. rewrite raise_nth_other by lia. destruct Hk as [[K0 _]|[K1 [_ T2]]].
    + apply sum0_nth. lia.
    + apply T2. lia.
Qed.

Lemma level_inv omax k : forall t q, In (t, q) (level omax k) <-> inv omax k (t, q).
Proof.
  induction k as [|k IH]; intros t q.
  - unfold level. cbn [Nat.iter In]. unfold inv, bounded. cbn [fst snd]. split.
    + intros [Heq|[]]. inversion Heq; subst. rewrite repeat_length, list_sum_repeat0.
      repeat split; auto. intros i. rewrite nth_repeat0. lia.
    + intros [[Hlen _] [Hs [[_ Hq]|[Hk _]]]]; [|lia]. left. subst q. f_equal.
      rewrite <- Hlen. symmetry. now apply sum0_zeros.
  - rewrite level_S. unfold add_excitation. rewrite in_flat_map. split.
    + intros [[s p] [Hsp Hin]]. cbn [fst snd] in Hin. apply IH in Hsp.
      now destruct (add_one_inv omax k s p t q Hsp Hin) as [H _].
    + intros [[Hlen Hb] [Hsum [[K0 _]|[_ [T1 T2]]]]]; [lia|]. cbn [fst snd] in *.
      pose proof (nth_pos_lt t q T1) as Hq.
      assert (list_sum (lower t q) = k) as Hls by (pose proof (lower_sum t q T1); lia).
      assert (bounded omax (lower t q)) as Hbd.
      { split; [now rewrite lower_length|]. intros i. destruct (Nat.eq_dec q i) as [<-|Hne].
        - rewrite lower_nth_same. specialize (Hb q). lia.
        - rewrite lower_nth_other by exact Hne. apply Hb. }
      assert (exists p, p <= q /\ inv omax k (lower t q, p)) as [p [Hpq Hinv]].
      { destruct (Nat.eq_dec k 0) as [K0|K1].
        - exists 0. split; [lia|]. unfold inv. cbn [fst snd]. auto.
        - destruct (exists_top (lower t q)) as [p Hp]; [lia|]. exists p. split.
          + destruct (Nat.le_gt_cases p q) as [L|L]; [exact L|]. destruct Hp as [Hp1 _].
            rewrite lower_nth_other in Hp1 by lia. rewrite (T2 p L) in Hp1. lia.
          + unfold inv. cbn [fst snd]. split; [exact Hbd|]. split; [exact Hls|]. right. split; [lia|exact Hp]. }
      exists (lower t q, p). split; [now apply IH|]. cbn [fst snd]. apply add_one_In.
      rewrite lower_length. split; [lia|]. split.
      * rewrite lower_nth_same. specialize (Hb q). lia.
      * symmetry. now apply raise_lower.
Qed.

Lemma raise_inj_idx s i j : i < length s -> j < length s -> raise s i = raise s j -> i = j.
Proof.
  intros Hi Hj H. destruct (Nat.eq_dec i j) as [E|NE]; [exact E|].
  assert (nth i (raise s i) 0 = nth i (raise s j) 0) as H' by now rewrite H.
  rewrite raise_nth_same in H' by exact Hi. rewrite raise_nth_other in H' by lia. lia.
Qed.

Lemma add_one_nodup omax s p : NoDup (map fst (add_one omax s p)).
Proof.
  unfold add_one. rewrite map_flat_map'. apply NoDup_flat_map.
  - apply seq_NoDup.
  - intros i _. destruct (Nat.ltb _ _); cbn [map]; [constructor; [intros []|constructor]|constructor].
  - intros i j z Hi Hj Hzi Hzj. apply in_seq in Hi, Hj.
    destruct (Nat.ltb (nth i s 0) (nth i omax 0)); [|destruct Hzi].
    destruct (Nat.ltb (nth j s 0) (nth j omax 0)); [|destruct Hzj].
    cbn [map fst In] in Hzi, Hzj. destruct Hzi as [<-|[]]. destruct Hzj as [Hz|[]].
    apply (raise_inj_idx s i j); [lia|lia|now symmetry].
Qed.

Lemma inv_snd_unique omax k s p q : inv omax k (s, p) -> inv omax k (s, q) -> p = q.
Proof.
  intros [_ [_ [[K0 P]|[K1 P]]]] [_ [_ [[K0' Q]|[K1' Q]]]]; cbn [fst snd] in *; try lia.
  now apply (top_unique s).
Qed.

Lemma level_nodup omax k : NoDup (map fst (level omax k)).
Proof.
  induction k as [|k IH]; [cbn; constructor; [intros []|constructor]|].
  rewrite level_S. unfold add_excitation. rewrite map_flat_map'. apply NoDup_flat_map.
  - now apply NoDup_map_inv in IH.
  - intros [s p] _. apply add_one_nodup.
  - intros [s1 p1] [s2 p2] z H1 H2 Hz1 Hz2. cbn [fst snd] in *.
    apply level_inv in H1, H2.
    apply in_map_iff in Hz1, Hz2. destruct Hz1 as [[t1 q1] [E1 I1]]. destruct Hz2 as [[t2 q2] [E2 I2]].
    cbn [fst] in E1, E2. subst t1 t2.
    destruct (add_one_inv omax k s1 p1 z q1 H1 I1) as [V1 [R1 L1]].
    destruct (add_one_inv omax k s2 p2 z q2 H2 I2) as [V2 [R2 L2]].
    assert (q1 = q2) as <- by (apply (inv_snd_unique omax (S k) z); assumption).
    assert (s1 = s2) as <-.
    { rewrite <- (lower_raise s1 q1 L1), <- (lower_raise s2 q1 L2). now rewrite <- R1, <- R2. }
    f_equal. now apply (inv_snd_unique omax k s1).
Qed.

(* ---------- the statements about elsignatures ---------- *)
Lemma elsigs_eq_spec omax k s : In s (elsigs_eq omax k) <-> (bounded omax s /\ band s = k).
Proof.
  unfold elsigs_eq, band. rewrite in_map_iff. split.
  - intros [[t q] [<- Hin]]. apply level_inv in Hin. destruct Hin as [Hb [Hs _]]. cbn [fst] in *. auto.
  - intros [Hb Hs]. destruct (Nat.eq_dec k 0) as [K0|K1].
    + exists (s, 0). split; [reflexivity|]. apply level_inv. unfold inv. cbn [fst snd]. auto.
    + destruct (exists_top s) as [p Hp]; [lia|]. exists (s, p). split; [reflexivity|]. apply level_inv.
      unfold inv. cbn [fst snd]. split; [exact Hb|]. split; [exact Hs|]. right. split; [lia|exact Hp].
Qed.

Lemma elsigs_eq_nodup omax k : NoDup (elsigs_eq omax k).
Proof. apply level_nodup. Qed.

Lemma elsigs_spec omax mult s : In s (elsigs omax mult) <-> (bounded omax s /\ band s <= mult).
Proof.
  unfold elsigs. rewrite in_flat_map. split.
  - intros [k [Hk Hin]]. apply in_seq in Hk. apply elsigs_eq_spec in Hin. destruct Hin as [Hb Hs]. split; [exact Hb|lia].
  - intros [Hb Hs]. exists (band s). split; [apply in_seq; lia|]. now apply elsigs_eq_spec.
Qed.

Lemma elsigs_nodup omax mult : NoDup (elsigs omax mult).
Proof.
  unfold elsigs. apply NoDup_flat_map.
  - apply seq_NoDup.
  - intros k _. apply elsigs_eq_nodup.
  - intros k1 k2 z _ _ H1 H2. apply elsigs_eq_spec in H1, H2. destruct H1 as [_ H1]. destruct H2 as [_ H2]. congruence.
Qed.

(* ordered by band: a list that is the concatenation over k = 0, 1, ... of blocks of weight k *)
Lemma blocks_sorted {A} (w : A -> nat) (g : nat -> list A) (d : A) n :
  (forall k x, In x (g k) -> w x = k) ->
  forall a b, a < b -> b < length (flat_map g (seq 0 n)) ->
  w (nth a (flat_map g (seq 0 n)) d) <= w (nth b (flat_map g (seq 0 n)) d).
Proof.
  intros Hw. induction n as [|n IH]; intros a b Hab Hb; [cbn in Hb; lia|].
  assert (flat_map g (seq 0 (S n)) = flat_map g (seq 0 n) ++ g n) as EQ
    by (rewrite seq_S, flat_map_app; cbn [flat_map Nat.add]; now rewrite app_nil_r).
  rewrite EQ in *. clear EQ.
  set (L := flat_map g (seq 0 n)) in *.
  assert (forall x, In x L -> w x < n) as HL.
  { intros x Hx. apply in_flat_map in Hx. destruct Hx as [k [Hk Hx]]. apply in_seq in Hk. rewrite (Hw k x Hx). lia. }
  rewrite app_length in Hb.
  destruct (Nat.lt_ge_cases b (length L)) as [Lb|Lb].
  - rewrite !app_nth1 by lia. apply IH; lia.
  - rewrite (app_nth2 L (g n) d Lb).
    assert (w (nth (b - length L) (g n) d) = n) as -> by (apply Hw, nth_In; lia).
    destruct (Nat.lt_ge_cases a (length L)) as [La|La].
    + rewrite app_nth1 by lia. specialize (HL (nth a L d) (nth_In L d La)). lia.
    + rewrite (app_nth2 L (g n) d La). rewrite (Hw n); [lia|]. apply nth_In. lia.
Qed.

Lemma elsigs_sorted omax mult a b : a < b -> b < length (elsigs omax mult) ->
  band (nth a (elsigs omax mult) []) <= band (nth b (elsigs omax mult) []).
Proof.
  unfold elsigs. apply blocks_sorted. intros k x Hx. now apply elsigs_eq_spec in Hx.
Qed.

Lemma elsigs_length omax mult : length (elsigs omax mult) = list_sum (Nb omax mult).
Proof. unfold elsigs, Nb. apply flat_map_length. Qed.

Lemma which_band_spec omax mult a : nth a (which_band omax mult) 0 = band (nth a (elsigs omax mult) []).
Proof. unfold which_band. change 0 with (band []) at 1. apply map_nth. Qed.

(* ---------- explicit shape for molecules with at least two levels / exactly two levels ---------- *)
Definition unit_sig (N i : nat) : sig := raise (repeat 0 N) i.
Definition two_level (N : nat) : list nat := repeat 1 N.

Lemma nth_repeat1 n i : i < n -> nth i (repeat 1 n) 0 = 1.
Proof. revert i; induction n as [|n IH]; intros [|i] H; cbn [repeat nth]; try lia. apply IH. lia. Qed.

Lemma nth_repeat1_le n i : nth i (repeat 1 n) 0 <= 1.
Proof. revert i; induction n as [|n IH]; intros [|i]; cbn [repeat nth]; try lia. apply IH. Qed.

Lemma level_1 omax : (forall i, i < length omax -> 1 <= nth i omax 0) ->
  level omax 1 = map (fun i => (unit_sig (length omax) i, i)) (seq 0 (length omax)).
Proof.
  intros H. change (level omax 1) with (add_excitation omax [(repeat 0 (length omax), 0)]).
  unfold add_excitation. cbn [flat_map fst snd]. rewrite app_nil_r.
  unfold add_one. rewrite repeat_length, Nat.sub_0_r. apply flat_map_single.
  intros i Hi. apply in_seq in Hi. rewrite nth_repeat0.
  assert (Nat.ltb 0 (nth i omax 0) = true) as -> by (apply Nat.ltb_lt; apply H; lia). reflexivity.
Qed.

Lemma unit_nth_same N i : i < N -> nth i (unit_sig N i) 0 = 1.
Proof. intros H. unfold unit_sig. rewrite raise_nth_same by now rewrite repeat_length. now rewrite nth_repeat0. Qed.
Lemma unit_nth_other N i j : i <> j -> nth j (unit_sig N i) 0 = 0.
Proof. intros H. unfold unit_sig. rewrite raise_nth_other by exact H. apply nth_repeat0. Qed.
Lemma unit_length N i : length (unit_sig N i) = N.
Proof. unfold unit_sig. now rewrite raise_length, repeat_length. Qed.
Lemma unit_band N i : i < N -> band (unit_sig N i) = 1.
Proof. intros H. unfold band, unit_sig. rewrite raise_sum by now rewrite repeat_length. now rewrite list_sum_repeat0. Qed.

Lemma level_2_two_level N :
  level (two_level N) 2 =
  flat_map (fun i => map (fun j => (raise (unit_sig N i) j, j)) (seq (S i) (N - S i))) (seq 0 N).
Proof.
  change (level (two_level N) 2) with (add_excitation (two_level N) (level (two_level N) 1)).
  rewrite level_1.
  2:{ unfold two_level. rewrite repeat_length. intros i Hi. rewrite nth_repeat1 by exact Hi. lia. }
  unfold two_level at 2 3. rewrite repeat_length. unfold add_excitation. rewrite flat_map_map'. cbn [fst snd].
  apply flat_map_ext_in'. intros i Hi. apply in_seq in Hi. unfold add_one. rewrite unit_length.
  replace (N - i) with (S (N - S i)) by lia. cbn [seq flat_map].
  rewrite unit_nth_same by lia. unfold two_level. rewrite nth_repeat1 by lia. cbn [Nat.ltb Nat.leb app].
  apply flat_map_single. intros j Hj. apply in_seq in Hj.
  rewrite unit_nth_other by lia. rewrite nth_repeat1 by lia. reflexivity.
Qed.

Lemma tri_sum M n : n <= M -> 2 * list_sum (map (fun i => M - S i) (seq 0 n)) + n * (n + 1) = 2 * n * M.
Proof.
  induction n as [|n IH]; intros H; [reflexivity|].
  rewrite seq_S, map_app, list_sum_app. cbn [map list_sum Nat.add]. specialize (IH ltac:(lia)).
  remember (list_sum (map (fun i => M - S i) (seq 0 n))) as T. remember (M - S n) as x.
  assert (M = x + S n) as HM by lia. change (list_sum [x]) with (x + 0).
  clear HeqT Heqx H. subst M. nia.
Qed.

Lemma Nb_two_level N : Nb (two_level N) 2 = [1; N; length (elsigs_eq (two_level N) 2)] /\
  2 * length (elsigs_eq (two_level N) 2) = N * (N - 1).
Proof.
  split.
  - unfold Nb. cbn [seq map]. f_equal. f_equal. unfold elsigs_eq. rewrite level_1.
    + unfold two_level. now rewrite !map_length, seq_length, repeat_length.
    + unfold two_level. rewrite repeat_length. intros i Hi. rewrite nth_repeat1 by exact Hi. lia.
  - unfold elsigs_eq. rewrite level_2_two_level, map_length, flat_map_length.
    rewrite (map_ext_in _ (fun i => N - S i)) by (intros i _; now rewrite map_length, seq_length).
    pose proof (tri_sum N N (le_n N)). nia.
Qed.

(* position of the ground state and of the singly excited states: index = 1 + site *)
Lemma elsigs_head omax mult : (forall i, i < length omax -> 1 <= nth i omax 0) -> 1 <= mult ->
  elsigs omax mult = repeat 0 (length omax) :: map (unit_sig (length omax)) (seq 0 (length omax))
                     ++ flat_map (elsigs_eq omax) (seq 2 (mult - 1)).
Proof.
  intros H Hm. unfold elsigs. replace (S mult) with (S (S (mult - 1))) by lia. cbn [seq flat_map].
  unfold elsigs_eq at 1 2. rewrite level_1 by exact H. unfold level at 1. cbn [Nat.iter map fst app].
  rewrite map_map. cbn [fst]. reflexivity.
Qed.

Lemma elsigs_single_index omax mult i : (forall i, i < length omax -> 1 <= nth i omax 0) -> 1 <= mult ->
  i < length omax -> nth (S i) (elsigs omax mult) [] = unit_sig (length omax) i /\ S i < length (elsigs omax mult).
Proof.
  intros H Hm Hi. rewrite (elsigs_head omax mult H Hm). cbn [nth length]. split.
  - rewrite app_nth1 by now rewrite map_length, seq_length.
    rewrite (nth_indep _ [] (unit_sig (length omax) 0)) by now rewrite map_length, seq_length.
    rewrite map_nth, seq_nth by exact Hi. reflexivity.
  - rewrite app_length, map_length, seq_length. lia.
Qed.

Lemma elsigs_ground_first omax mult : nth 0 (elsigs omax mult) [] = repeat 0 (length omax).
Proof. reflexivity. Qed.
