From Coq Require Import ZArith List Bool QArith Qfield Lia.
From QV Require Import Model.C05.
Import ListNotations.

(* ---------- conversions ---------- *)
Section Conv.
  Variable fac : eunit -> Q.
  Hypothesis fac_nz : forall u, ~ fac u == 0.

  (* supplying in u and reading in v is the exact conversion between the two units *)
  Lemma conv_exact u v x : (is_nm u = true \/ is_nm v = true -> ~ x == 0) ->
    convert fac u v x ==
      match is_nm u, is_nm v with
      | false, false => x * fac u / fac v
      | true, false => 1 / (x * fac u * fac v)
      | false, true => 1 / (x * fac u * fac v)
      | true, true => x * fac u / fac v
      end.
  Proof.
    intros Hx. unfold convert, to_int, to_cur. pose proof (fac_nz u) as Hu. pose proof (fac_nz v) as Hv.
    destruct (is_nm u) eqn:Eu; destruct (is_nm v) eqn:Ev.
    - assert (~ x == 0) by auto. field. repeat split; auto.
    - assert (~ x == 0) by auto. field. repeat split; auto.
    - assert (~ x == 0) by auto. field. repeat split; auto.
    - field. auto.
  Qed.

  Lemma roundtrip u x : (is_nm u = true -> ~ x == 0) -> convert fac u u x == x.
  Proof.
    intros Hx. unfold convert, to_int, to_cur. pose proof (fac_nz u) as Hu.
    destruct (is_nm u) eqn:Eu.
    - assert (~ x == 0) by auto. field. split; auto.
    - field. auto.
  Qed.

  (* conversions compose: reading in w what was supplied in u does not depend on an intermediate v *)
  Lemma conv_compose u v w x : (forall z, is_nm z = true -> ~ x == 0) -> ~ x == 0 ->
    convert fac v w (convert fac u v x) == convert fac u w x.
  Proof.
    intros _ Hx. unfold convert, to_int, to_cur.
    pose proof (fac_nz u) as Hu. pose proof (fac_nz v) as Hv. pose proof (fac_nz w) as Hw.
    destruct (is_nm u); destruct (is_nm v); destruct (is_nm w); field; repeat split; auto.
  Qed.

  (* arrays: zero stays zero in every unit, other elements convert like scalars *)
  Lemma elt_zero u : to_int_elt fac u 0 == 0 /\ to_cur_elt fac u 0 == 0.
  Proof. unfold to_int_elt, to_cur_elt. destruct (is_nm u); cbn; split; try reflexivity; field; apply fac_nz. Qed.

  Lemma elt_nonzero u x : ~ x == 0 -> to_int_elt fac u x == to_int fac u x /\ to_cur_elt fac u x == to_cur fac u x.
  Proof.
    intros Hx. unfold to_int_elt, to_cur_elt, to_int, to_cur.
    destruct (is_nm u); [|split; reflexivity].
    destruct (Qeq_bool x 0) eqn:E; [apply Qeq_bool_iff in E; contradiction|]. split; reflexivity.
  Qed.
End Conv.

(* ---------- contexts ---------- *)
Definition consistent (s : ust) : Prop := (0 <= count s)%Z /\ in_eu s = (0 <? count s)%Z.

Lemma enter_spec s u : consistent s ->
  consistent (enter_e s u) /\ count (enter_e s u) = (count s + 1)%Z /\ cur_l (enter_e s u) = cur_l s /\ cur_e (enter_e s u) = u.
Proof.
  intros [H0 Hf]. unfold consistent, enter_e, set_e. cbn [count in_eu cur_l cur_e]. repeat split; try lia;
  try (symmetry; apply Z.ltb_lt; lia).
Qed.

Lemma exit_spec s1 backup c : consistent s1 -> count s1 = (c + 1)%Z -> (0 <= c)%Z ->
  cur_e (exit_e s1 backup) = backup /\ cur_l (exit_e s1 backup) = cur_l s1 /\ count (exit_e s1 backup) = c /\
  consistent (exit_e s1 backup).
Proof.
  intros [H0 Hf] Hc Hc0. unfold consistent, exit_e, set_e. cbn [count in_eu cur_l cur_e].
  rewrite Hc. replace (c + 1 - 1)%Z with c by lia. repeat split; try lia.
  destruct (Z.eqb_spec c 0) as [E|E].
  - rewrite E. reflexivity.
  - rewrite Hf, Hc. destruct (Z.ltb_spec 0 (c + 1)); destruct (Z.ltb_spec 0 c); try lia; reflexivity.
Qed.

(* every repaired program leaves units, nesting counter and flag as it found them,
   whether it ends normally or by an exception *)
Theorem ctx_restore p : repaired p = true -> forall s, consistent s ->
  let '(s', r, o) := exec p s in
  cur_e s' = cur_e s /\ cur_l s' = cur_l s /\ count s' = count s /\ consistent s'.
Proof.
  induction p as [|a IHa b IHb|u body IH|u body IH| |body IH|v body IH|]; intros Hrep s Hc; cbn [exec repaired] in *.
  - repeat split; apply Hc.
  - apply andb_prop in Hrep. destruct Hrep as [Ra Rb]. specialize (IHa Ra s Hc).
    destruct (exec a s) as [[s1 r1] o1]. destruct IHa as [E1 [L1 [C1 K1]]]. destruct r1.
    + repeat split; try assumption; apply K1.
    + specialize (IHb Rb s1 K1). destruct (exec b s1) as [[s2 r2] o2]. destruct IHb as [E2 [L2 [C2 K2]]].
      repeat split; try congruence; apply K2.
  - destruct (enter_spec s u Hc) as [Hc1 [Hn [Hl He]]].
    specialize (IH Hrep (enter_e s u) Hc1). destruct (exec body (enter_e s u)) as [[s1 r] o].
    destruct IH as [E1 [L1 [C1 K1]]].
    destruct (exit_spec s1 (cur_e s) (count s) K1 ltac:(congruence) ltac:(apply Hc)) as [X1 [X2 [X3 X4]]].
    repeat split; try assumption; try congruence; apply X4.
  - assert (consistent (set_l s u)) as Hc1 by (unfold consistent, set_l; cbn [count in_eu]; exact Hc).
    specialize (IH Hrep (set_l s u) Hc1). destruct (exec body (set_l s u)) as [[s1 r] o].
    destruct IH as [E1 [L1 [C1 K1]]]. unfold set_l in *. cbn [cur_e cur_l count in_eu] in *. repeat split; try assumption; apply K1.
  - repeat split; apply Hc.
  - specialize (IH Hrep s Hc). destruct (exec body s) as [[s1 r] o]. exact IH.
  - destruct v; [discriminate|].
    destruct (enter_spec s E_int Hc) as [Hc1 [Hn [Hl He]]].
    specialize (IH Hrep (enter_e s E_int) Hc1). destruct (exec body (enter_e s E_int)) as [[s1 r] o].
    destruct IH as [E1 [L1 [C1 K1]]].
    destruct (exit_spec s1 (cur_e s) (count s) K1 ltac:(congruence) ltac:(apply Hc)) as [X1 [X2 [X3 X4]]].
    repeat split; try assumption; try congruence; apply X4.
  - repeat split; apply Hc.
Qed.

(* inside a context the units are the requested ones (when the body starts) *)
Lemma with_sets_units u body s : let '(_, _, o) := exec (PWithE u (PSeq PObs body)) s in hd_error o = Some (u, cur_l s).
Proof.
  cbn [exec]. unfold enter_e, set_e. cbn [cur_e cur_l].
  destruct (exec body _) as [[s2 r2] o2]. reflexivity.
Qed.

(* the pinned raw switch: build called inside a units context leaves the caller in "int",
   because the inner context of set_rwa clobbers the single saved slot *)
Lemma raw_switch_witness :
  let s0 := mkU E_cm L_A None None 1 true in
  let '(s', r, _) := exec (PBuild RawSwitch (PWithE E_int PSkip)) s0 in (cur_e s', r) = (E_int, false).
Proof. vm_compute. reflexivity. Qed.

Lemma raw_switch_exception_witness :
  let s0 := mkU E_cm L_A None None 1 true in
  let '(s', r, _) := exec (PBuild RawSwitch PRaise) s0 in (cur_e s', r) = (E_int, true).
Proof. vm_compute. reflexivity. Qed.

(* ---------- length units: plain scaling, no reciprocal member ---------- *)
Section Lin.
  Variable facl : lunit -> Q.
  Hypothesis facl_nz : forall u, ~ facl u == 0.
  Lemma conv_l_exact u v x : convert_l facl u v x == x * facl u / facl v.
  Proof. unfold convert_l, to_cur_l, to_int_l. reflexivity. Qed.
  Lemma roundtrip_l u x : convert_l facl u u x == x.
  Proof. unfold convert_l, to_cur_l, to_int_l. field. apply facl_nz. Qed.
  Lemma conv_l_compose u v w x : convert_l facl v w (convert_l facl u v x) == convert_l facl u w x.
  Proof. unfold convert_l, to_cur_l, to_int_l. field. split; apply facl_nz. Qed.
End Lin.
