From Coq Require Import ZArith List Bool Arith Lia.
From QV Require Import Base.Alg Base.Sums Base.Mat Base.Taylor Model.C16 Proofs.C16.
Import ListNotations.

Section RHS.
  Context {R : StarRing}.
  Add Ring Rr : (rth R).
  Open Scope sr_scope.
  Variable dim nb : nat.
  Variable H : list mi.
  Variable HH : @mat R.
  Variable Vs : nat -> @mat R.
  Variable ii : R.
  Variables lam gam : nat -> R.
  Variables kBT two : R.

  Notation rhs := (rhs dim nb H HH Vs ii lam gam kBT two).
  Notation Gamma := (Gamma nb H gam).
  Notation cros_term := (cros_term dim H Vs ii lam gam kBT two).

  Hypothesis root : nth 0 H [] = repeat 0%nat nb.

  Lemma nth_repeat0 k n : nth k (repeat 0%nat n) 0%nat = 0%nat.
  Proof. revert k; induction n as [|n IH]; intros [|k]; cbn; auto. Qed.

  Lemma Gamma_root : Gamma 0%nat = 0.
  Proof.
    unfold C16.Gamma. apply sum_0_ext. intros k _. rewrite root, nth_repeat0. change (ofnat (R:=R) 0) with (r0 R). ring.
  Qed.

  Lemma sum_mtr n (f : nat -> @mat R) :
    mtr dim (fun a b => sum n (fun k => f k a b)) = sum n (fun k => mtr dim (f k)).
  Proof. unfold mtr. now rewrite sum_swap. Qed.

  (* the trace of the right-hand side of the reduced density matrix (ADO 0) vanishes identically *)
  Theorem rhs_root_traceless dt ado : mtr dim (rhs dt ado 0%nat) = 0.
  Proof.
    unfold C16.rhs. rewrite mtr_madd.
    assert (mtr dim (self_rhs dim nb H HH ii gam dt ado 0%nat) = 0) as ->.
    { unfold self_rhs. rewrite mtr_mscale, mtr_madd, !mtr_mscale. unfold comm. rewrite mtr_comm0, Gamma_root. ring. }
    unfold cros_rhs. rewrite sum_mtr. rewrite sum_0_ext; [ring|]. intros k Hk.
    unfold C16.cros_term. rewrite root, nth_repeat0. change (ofnat (R:=R) 0) with (r0 R). cbn [Nat.eqb orb]. rewrite mtr_madd.
    assert (forall (A : @mat R) c, mtr dim (mscale (c * 0) A) = 0) as Z0 by (intros; rewrite mtr_mscale; ring).
    rewrite mtr_madd.
    replace (dt * 0 * lam k * gam k) with ((dt * lam k * gam k) * 0) by ring.
    replace (ii * dt * two * 0 * lam k * kBT) with ((ii * dt * two * lam k * kBT) * 0) by ring.
    rewrite !Z0.
    destruct (np1 H 0 k) as [[|j]|]; rewrite ?mtr_zero, ?mtr_mscale; unfold comm; rewrite ?mtr_comm0; ring.
  Qed.

  (* ---- Hermiticity ---- *)
  Hypothesis HH_herm : herm dim HH.
  Hypothesis Vs_herm : forall k, herm dim (Vs k).
  Hypothesis ii_conj : cj R ii = - ii.
  Hypothesis lam_real : forall k, is_real R (lam k).
  Hypothesis gam_real : forall k, is_real R (gam k).
  Hypothesis kBT_real : is_real R kBT.
  Hypothesis two_real : is_real R two.

  Lemma ofnat_real n : is_real R (ofnat n).
  Proof. induction n as [|n IH]; cbn [ofnat Nat.iter]; [apply real_0|]. apply real_add; [exact IH|apply real_1]. Qed.

  Lemma Gamma_real n : is_real R (Gamma n).
  Proof.
    unfold C16.Gamma, is_real. rewrite sum_cj. apply sum_ext. intros k _. rewrite cj_mul, ofnat_real, gam_real. reflexivity.
  Qed.

  Lemma herm_sum n (f : nat -> @mat R) : (forall k, (k < n)%nat -> herm dim (f k)) ->
    herm dim (fun a b => sum n (fun k => f k a b)).
  Proof.
    intros Hf i j Hi Hj. rewrite sum_cj. apply sum_ext. intros k Hk. now apply Hf.
  Qed.

  Lemma herm_mscale_icomm c A B : is_real R c -> herm dim A -> herm dim B ->
    herm dim (mscale (ii * c) (comm dim A B)).
  Proof.
    intros Hc HA HB i j Hi Hj. pose proof (herm_icomm dim ii A B ii_conj HA HB i j Hi Hj) as Hh.
    unfold mscale, comm in *. rewrite cj_mul, cj_mul, Hc, ii_conj.
    unfold msub in *. rewrite cj_sub, (herm_mmul_swap dim A B HA HB i j Hi Hj), (herm_mmul_swap dim B A HB HA i j Hi Hj). ring.
  Qed.

  Definition all_herm (ado : nat -> @mat R) : Prop := forall n, herm dim (ado n).

  Theorem rhs_hermitian dt ado n : is_real R dt -> all_herm ado -> herm dim (rhs dt ado n).
  Proof.
    intros Hdt Hado. unfold C16.rhs. apply herm_madd.
    - unfold cros_rhs. apply herm_sum. intros k Hk. unfold C16.cros_term. apply herm_madd.
      + destruct (Nat.eqb (nth k (nth n H []) 0%nat) 0 || match nm1 H n k with Some _ => true | None => false end); [|apply herm_zero].
        assert (herm dim (ado_at H ado (nm1 H n k))) as Hj by (unfold ado_at; destruct (nm1 H n k); apply Hado).
        apply herm_madd.
        * apply herm_mscale; [|apply herm_acomm; [apply Vs_herm|exact Hj]].
          repeat apply real_mul; auto using ofnat_real.
        * replace (ii * dt * two * ofnat (nth k (nth n H []) 0%nat) * lam k * kBT)
            with (ii * (dt * two * ofnat (nth k (nth n H []) 0%nat) * lam k * kBT)) by ring.
          apply herm_mscale_icomm; [|apply Vs_herm|exact Hj]. repeat apply real_mul; auto using ofnat_real.
      + destruct (np1 H n k) as [[|j]|]; try apply herm_zero.
        apply herm_mscale_icomm; [exact Hdt|apply Vs_herm|apply Hado].
    - unfold self_rhs. apply herm_mscale; [apply real_opp; exact Hdt|]. apply herm_madd.
      + replace ii with (ii * 1) by ring. apply herm_mscale_icomm; [apply real_1|exact HH_herm|apply Hado].
      + apply herm_mscale; [apply Gamma_real|apply Hado].
  Qed.

  (* ---- the propagation loop: ado1 = rhs(ado1, dt/ll); ado2 = ado2 + ado1 ---- *)
  Definition ado_add (x y : nat -> @mat R) : nat -> @mat R := fun n => madd (x n) (y n).
  Definition heom_traj (prefs : list R) (nsteps : nat) (ado0 : nat -> @mat R) : list (nat -> @mat R) :=
    traj ado_add (fun c x => rhs c x) (fun x => x) nsteps 1 prefs ado0.

  Theorem heom_trace_conserved prefs nsteps ado0 :
    Forall (fun ado => mtr dim (ado 0%nat) = mtr dim (ado0 0%nat)) (heom_traj prefs nsteps ado0).
  Proof.
    unfold heom_traj.
    apply (traj_functional R (nat -> @mat R) ado_add (fun c x => rhs c x) (fun x => x) R (fun ado => mtr dim (ado 0%nat)) (radd R) 0).
    - intros x; ring.
    - intros x y. unfold ado_add. apply mtr_madd.
    - intros c x. apply rhs_root_traceless.
  Qed.

  Theorem heom_stays_hermitian prefs nsteps ado0 : Forall (is_real R) prefs -> all_herm ado0 ->
    Forall all_herm (heom_traj prefs nsteps ado0).
  Proof.
    intros Hp H0. unfold heom_traj.
    apply (traj_closed R (nat -> @mat R) ado_add (fun c x => rhs c x) (fun x => x) all_herm (is_real R)); auto.
    - intros x y Hx Hy n. unfold ado_add. apply herm_madd; auto.
    - intros c x Hc Hx n. now apply rhs_hermitian.
  Qed.
End RHS.

(* zero system-bath coupling: the hierarchy decouples and ADO 0 follows the closed-system equation *)
Section ZeroCoupling.
  Context {R : StarRing}.
  Add Ring Rr2 : (rth R).
  Open Scope sr_scope.
  Variable dim nb : nat.
  Variable H : list mi.
  Variable HH : @mat R.
  Variable Vs : nat -> @mat R.
  Variable ii : R.
  Variables gam : nat -> R.
  Variables kBT two : R.
  Hypothesis root : nth 0 H [] = repeat 0%nat nb.
  Notation rhs0 := (rhs dim nb H HH Vs ii (fun _ => 0) gam kBT two).

  Definition higher_zero (ado : nat -> @mat R) : Prop := forall n, (1 <= n)%nat -> meq dim (ado n) (fun _ _ => 0).

  Lemma mmul_zero_r (A B : @mat R) : meq dim B (fun _ _ => 0) -> meq dim (mmul dim A B) (fun _ _ => 0).
  Proof. intros HB i j Hi Hj. unfold mmul. apply sum_0_ext. intros k Hk. rewrite (HB k j Hk Hj). ring. Qed.
  Lemma mmul_zero_l (A B : @mat R) : meq dim A (fun _ _ => 0) -> meq dim (mmul dim A B) (fun _ _ => 0).
  Proof. intros HA i j Hi Hj. unfold mmul. apply sum_0_ext. intros k Hk. rewrite (HA i k Hi Hk). ring. Qed.

  Theorem zero_coupling_rhs dt ado : higher_zero ado ->
    higher_zero (rhs0 dt ado) /\
    meq dim (rhs0 dt ado 0%nat) (mscale (- dt) (mscale ii (comm dim HH (ado 0%nat)))).
  Proof.
    intros Hz.
    assert (forall n k a b, (a < dim)%nat -> (b < dim)%nat ->
              cros_term dim H Vs ii (fun _ => 0) gam kBT two dt ado n k a b = 0) as Hc.
    { intros n k a b Ha Hb. unfold cros_term. cbv zeta.
      assert (forall j, mscale (ii * dt) (comm dim (Vs k) (ado (S j))) a b = 0) as Hdn.
      { intros j. unfold mscale, comm, msub.
        rewrite (mmul_zero_r (Vs k) (ado (S j)) (Hz (S j) ltac:(lia)) a b Ha Hb).
        rewrite (mmul_zero_l (ado (S j)) (Vs k) (Hz (S j) ltac:(lia)) a b Ha Hb). ring. }
      unfold madd at 1.
      match goal with |- context [if ?c then _ else _] => destruct c end;
        destruct (np1 H n k) as [[|j]|]; rewrite ?Hdn; unfold madd, mscale; ring. }
    split.
    - intros n Hn a b Ha Hb. unfold rhs, madd, cros_rhs.
      rewrite sum_0_ext by (intros k _; now apply Hc).
      unfold self_rhs, mscale, madd, comm, msub.
      rewrite (mmul_zero_r HH (ado n) (Hz n Hn) a b Ha Hb), (mmul_zero_l (ado n) HH (Hz n Hn) a b Ha Hb), (Hz n Hn a b Ha Hb). ring.
    - intros a b Ha Hb. unfold rhs, madd, cros_rhs.
      rewrite sum_0_ext by (intros k _; now apply Hc).
      unfold self_rhs, mscale, madd. rewrite (Gamma_root nb H gam root). ring.
  Qed.
End ZeroCoupling.
