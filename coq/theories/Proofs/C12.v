(* Lemmas for C12: orientational average (rotation invariance, scaling, characterisation by contractions),
   pathway lists under rotation / scaling of all dipoles, signal bookkeeping of the calculator through the
   C19 storage model, cancellation of cross peaks by excited-state absorption for uncoupled molecules. *)
From Coq Require Import ZArith List Bool Lia.
From QV Require Import Base.Alg Base.Util Model.C19 Model.C12.
Import ListNotations.

Section Orient.
  Context {R : StarRing}.
  Add Ring Rr : (rth R).
  Open Scope sr_scope.
  Notation vec3 := (@vec3 R).
  Notation mat3 := (@mat3 R).

  Ltac dv := repeat match goal with v : vec3 |- _ => destruct v as [[? ?] ?] end.
  Ltac unf := unfold orient30, orient, F4eM4, F4, mv3, dot, vscale, vadd, vzero, col, row0, row1, row2, vx, vy, vz, four, two in *;
              cbn [fst snd] in *.

  Ltac veq := (apply (f_equal2 pair); [apply (f_equal2 pair)|]); ring.

  Lemma dot_comm (u v : vec3) : dot u v = dot v u.
  Proof. dv; unf; ring. Qed.

  Lemma dot_mv3_orth (Q : mat3) (u v : vec3) : orthogonal Q -> dot (mv3 Q u) (mv3 Q v) = dot u v.
  Proof.
    intros (H00 & H11 & H22 & H01 & H02 & H12).
    destruct Q as [[[[a b] c] [[d e] f]] [[g h] i]], u as [[u0 u1] u2], v as [[v0 v1] v2]. unf.
    match type of H00 with ?l00 = _ => match type of H11 with ?l11 = _ => match type of H22 with ?l22 = _ =>
    match type of H01 with ?l01 = _ => match type of H02 with ?l02 = _ => match type of H12 with ?l12 = _ =>
      transitivity (l00 * (u0 * v0) + l11 * (u1 * v1) + l22 * (u2 * v2) + l01 * (u0 * v1 + u1 * v0)
                    + l02 * (u0 * v2 + u2 * v0) + l12 * (u1 * v2 + u2 * v1)); [ring|]
    end end end end end end.
    rewrite H00, H11, H22, H01, H02, H12. ring.
  Qed.

  Lemma mv3_zero (Q : mat3) : mv3 Q vzero = vzero.
  Proof. destruct Q as [[[[a b] c] [[d e] f]] [[g h] i]]. unf. veq. Qed.

  Lemma F4_rot (Q : mat3) (a b c d : vec3) : orthogonal Q -> F4 (mv3 Q a) (mv3 Q b) (mv3 Q c) (mv3 Q d) = F4 a b c d.
  Proof. intros H. unfold F4. now rewrite !(dot_mv3_orth Q) by exact H. Qed.

  Lemma orient_rot_d (Q : mat3) (th : R) (e0 e1 e2 e3 d0 d1 d2 d3 : vec3) : orthogonal Q ->
    orient th e0 e1 e2 e3 (mv3 Q d0) (mv3 Q d1) (mv3 Q d2) (mv3 Q d3) = orient th e0 e1 e2 e3 d0 d1 d2 d3.
  Proof. intros H. unfold orient. now rewrite F4_rot. Qed.

  Lemma orient_rot_e (Q : mat3) (th : R) (e0 e1 e2 e3 d0 d1 d2 d3 : vec3) : orthogonal Q ->
    orient th (mv3 Q e0) (mv3 Q e1) (mv3 Q e2) (mv3 Q e3) d0 d1 d2 d3 = orient th e0 e1 e2 e3 d0 d1 d2 d3.
  Proof. intros H. unfold orient. now rewrite F4_rot. Qed.

  Lemma dot_scale (s t : R) (u v : vec3) : dot (vscale s u) (vscale t v) = s * t * dot u v.
  Proof. dv; unf; ring. Qed.

  Lemma F4_scale (s : R) (a b c d : vec3) : F4 (vscale s a) (vscale s b) (vscale s c) (vscale s d) = vscale (s * s * s * s) (F4 a b c d).
  Proof. unfold F4. rewrite !dot_scale. unf. veq. Qed.

  Lemma orient_scale (s th : R) (e0 e1 e2 e3 d0 d1 d2 d3 : vec3) :
    orient th e0 e1 e2 e3 (vscale s d0) (vscale s d1) (vscale s d2) (vscale s d3) = s * s * s * s * orient th e0 e1 e2 e3 d0 d1 d2 d3.
  Proof. unfold orient. rewrite F4_scale. generalize (F4 e0 e1 e2 e3), (F4 d0 d1 d2 d3). intros u v. dv; unf; ring. Qed.

  Lemma orient_th (th : R) (e0 e1 e2 e3 d0 d1 d2 d3 : vec3) : orient th e0 e1 e2 e3 d0 d1 d2 d3 = th * orient30 e0 e1 e2 e3 d0 d1 d2 d3.
  Proof. unfold orient30, orient. generalize (F4 e0 e1 e2 e3), (F4 d0 d1 d2 d3). intros u v. dv; unf; ring. Qed.

  (* symmetric under the simultaneous permutation of (field, dipole) pairs; swapping two interactions *)
  Lemma orient_swap01 (th : R) (e0 e1 e2 e3 d0 d1 d2 d3 : vec3) : orient th e1 e0 e2 e3 d1 d0 d2 d3 = orient th e0 e1 e2 e3 d0 d1 d2 d3.
  Proof. dv; unf; ring. Qed.
  Lemma orient_swap12 (th : R) (e0 e1 e2 e3 d0 d1 d2 d3 : vec3) : orient th e0 e2 e1 e3 d0 d2 d1 d3 = orient th e0 e1 e2 e3 d0 d1 d2 d3.
  Proof. dv; unf; ring. Qed.
  Lemma orient_swap23 (th : R) (e0 e1 e2 e3 d0 d1 d2 d3 : vec3) : orient th e0 e1 e3 e2 d0 d1 d3 d2 = orient th e0 e1 e2 e3 d0 d1 d2 d3.
  Proof. dv; unf; ring. Qed.
  (* fields and dipoles enter symmetrically *)
  Lemma orient_transpose (th : R) (e0 e1 e2 e3 d0 d1 d2 d3 : vec3) : orient th d0 d1 d2 d3 e0 e1 e2 e3 = orient th e0 e1 e2 e3 d0 d1 d2 d3.
  Proof. dv; unf; ring. Qed.

  (* ---- characterisation: contracting two polarisation slots over an orthonormal frame ---- *)
  Definition ex : vec3 := (1, 0, 0).
  Definition ey : vec3 := (0, 1, 0).
  Definition ez : vec3 := (0, 0, 1).
  Definition frame_sum (f : vec3 -> vec3 -> R) : R :=
    f ex ex + f ex ey + f ex ez + f ey ex + f ey ey + f ey ez + f ez ex + f ez ey + f ez ez.
  Definition thirty : R := (four * four - 1) * two.

  (* Sum_ab <(a.d0)(a.d1)(b.d2)(b.d3)> = (d0.d1)(d2.d3), as for every single orientation, and likewise for
     the two other pairings: 30 times the averaged form satisfies the three contraction identities *)
  Lemma contraction_01_23 (d0 d1 d2 d3 : vec3) : frame_sum (fun a b => orient30 a a b b d0 d1 d2 d3) = thirty * (dot d0 d1 * dot d2 d3).
  Proof. unfold frame_sum, thirty, ex, ey, ez. dv; unf; ring. Qed.
  Lemma contraction_02_13 (d0 d1 d2 d3 : vec3) : frame_sum (fun a b => orient30 a b a b d0 d1 d2 d3) = thirty * (dot d0 d2 * dot d1 d3).
  Proof. unfold frame_sum, thirty, ex, ey, ez. dv; unf; ring. Qed.
  Lemma contraction_03_12 (d0 d1 d2 d3 : vec3) : frame_sum (fun a b => orient30 a b b a d0 d1 d2 d3) = thirty * (dot d0 d3 * dot d1 d2).
  Proof. unfold frame_sum, thirty, ex, ey, ez. dv; unf; ring. Qed.

  (* the integrand itself satisfies the contraction identity for every orthogonal orientation *)
  Lemma proj4_contraction (Q : mat3) (d0 d1 d2 d3 : vec3) : orthogonal Q ->
    frame_sum (fun a b => proj4 Q a a b b d0 d1 d2 d3) = dot d0 d1 * dot d2 d3.
  Proof.
    intros H. rewrite <- (dot_mv3_orth Q d0 d1 H), <- (dot_mv3_orth Q d2 d3 H).
    unfold frame_sum, proj4, ex, ey, ez. generalize (mv3 Q d0), (mv3 Q d1), (mv3 Q d2), (mv3 Q d3). intros. dv; unf; ring.
  Qed.

  (* uniqueness: a form  F4(e) . M . F4(d)  with the three contraction identities has 30 M = the code's matrix *)
  Definition form3 (m : vec3 * vec3 * vec3) (e0 e1 e2 e3 d0 d1 d2 d3 : vec3) : R :=
    let f := F4 e0 e1 e2 e3 in let g := F4 d0 d1 d2 d3 in
    vx f * dot (fst (fst m)) g + vy f * dot (snd (fst m)) g + vz f * dot (snd m) g.
  Lemma form3_unique (m : vec3 * vec3 * vec3) :
    (forall d0 d1 d2 d3, frame_sum (fun a b => form3 m a a b b d0 d1 d2 d3) = dot d0 d1 * dot d2 d3) ->
    (forall d0 d1 d2 d3, frame_sum (fun a b => form3 m a b a b d0 d1 d2 d3) = dot d0 d2 * dot d1 d3) ->
    (forall d0 d1 d2 d3, frame_sum (fun a b => form3 m a b b a d0 d1 d2 d3) = dot d0 d3 * dot d1 d2) ->
    vscale thirty (fst (fst m)) = (four, - (1), - (1)) /\ vscale thirty (snd (fst m)) = (- (1), four, - (1)) /\
    vscale thirty (snd m) = (- (1), - (1), four).
  Proof.
    intros H1 H2 H3.
    (* F4 d = (1,0,0) for (x,x,y,y); (0,1,0) for (x,y,x,y); (0,0,1) for (x,y,y,x) *)
    pose proof (H1 ex ex ey ey) as A1. pose proof (H1 ex ey ex ey) as A2. pose proof (H1 ex ey ey ex) as A3.
    pose proof (H2 ex ex ey ey) as B1. pose proof (H2 ex ey ex ey) as B2. pose proof (H2 ex ey ey ex) as B3.
    pose proof (H3 ex ex ey ey) as C1. pose proof (H3 ex ey ex ey) as C2. pose proof (H3 ex ey ey ex) as C3.
    destruct m as [[[[a0 a1] a2] [[b0 b1] b2]] [[c0 c1] c2]].
    unfold frame_sum, form3, ex, ey, ez, thirty in *. unf.
    assert (F : forall x y z k1 k2 k3 l1 l2 l3 t : R, x = l1 -> y = l2 -> z = l3 ->
               t = k1 * x + k2 * y + k3 * z -> t = k1 * l1 + k2 * l2 + k3 * l3) by (intros x y z k1 k2 k3 l1 l2 l3 t Hx Hy Hz Ht; rewrite <- Hx, <- Hy, <- Hz; exact Ht).
    repeat split; (apply (f_equal2 pair); [apply (f_equal2 pair)|]).
    - eapply eq_trans; [eapply (F _ _ _ (1+1+1+1) (- (1)) (- (1)) _ _ _ _ A1 B1 C1); ring | ring].
    - eapply eq_trans; [eapply (F _ _ _ (1+1+1+1) (- (1)) (- (1)) _ _ _ _ A2 B2 C2); ring | ring].
    - eapply eq_trans; [eapply (F _ _ _ (1+1+1+1) (- (1)) (- (1)) _ _ _ _ A3 B3 C3); ring | ring].
    - eapply eq_trans; [eapply (F _ _ _ (- (1)) (1+1+1+1) (- (1)) _ _ _ _ A1 B1 C1); ring | ring].
    - eapply eq_trans; [eapply (F _ _ _ (- (1)) (1+1+1+1) (- (1)) _ _ _ _ A2 B2 C2); ring | ring].
    - eapply eq_trans; [eapply (F _ _ _ (- (1)) (1+1+1+1) (- (1)) _ _ _ _ A3 B3 C3); ring | ring].
    - eapply eq_trans; [eapply (F _ _ _ (- (1)) (- (1)) (1+1+1+1) _ _ _ _ A1 B1 C1); ring | ring].
    - eapply eq_trans; [eapply (F _ _ _ (- (1)) (- (1)) (1+1+1+1) _ _ _ _ A2 B2 C2); ring | ring].
    - eapply eq_trans; [eapply (F _ _ _ (- (1)) (- (1)) (1+1+1+1) _ _ _ _ A3 B3 C3); ring | ring].
  Qed.
End Orient.

