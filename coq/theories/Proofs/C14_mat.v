(* Lemmas for C14, part 2: Hermiticity / positive semidefiniteness of the matrices that are handed out and
   the basis bookkeeping of get_DensityMatrix, over an arbitrary commutative ring with involution. *)
From Coq Require Import Arith List Lia.
From QV Require Import Base.Alg Base.Sums Base.Mat Model.C14.
Import ListNotations.

Section MatLemmas.
  Context {R : StarRing}.
  Add Ring Rr : (rth R).
  Open Scope sr_scope.

  (* ---- associativity helpers ---- *)
  Lemma mmul3_assoc n (A B C : @mat R) : meq n (mmul n A (mmul n B C)) (mmul n (mmul n A B) C).
  Proof. intros i j Hi Hj. symmetry. now apply mmul_assoc. Qed.

  Lemma meq_refl n (A : @mat R) : meq n A A. Proof. intros i j _ _. reflexivity. Qed.
  Lemma meq_sym n (A B : @mat R) : meq n A B -> meq n B A. Proof. intros H i j Hi Hj. symmetry. now apply H. Qed.
  Lemma meq_trans n (A B C : @mat R) : meq n A B -> meq n B C -> meq n A C.
  Proof. intros H1 H2 i j Hi Hj. rewrite H1 by assumption. now apply H2. Qed.

  (* ---- the materialised triple product is the triple product ---- *)
  Lemma mmul3_ext n (A A' B B' C C' : @mat R) : meq n A A' -> meq n B B' -> meq n C C' ->
    meq n (mmul3 n A B C) (mmul n A' (mmul n B' C')).
  Proof.
    intros HA HB HC. unfold mmul3. apply mmul_ext; [exact HA|].
    intros i j Hi Hj. rewrite tab2_spec by assumption. now apply mmul_ext.
  Qed.
  Lemma mmul3_spec n (A B C : @mat R) : meq n (mmul3 n A B C) (mmul n A (mmul n B C)).
  Proof. apply mmul3_ext; apply meq_refl. Qed.

  (* ---- the physical state denoted by the weak-coupling result depends only on the total transformation
          site basis -> exciton basis ---- *)
  Lemma weak_fixed_site_repr n (S S1 U U1 D : @mat R) :
    meq n (site_repr n S S1 (weak_data Fixed n U U1 D)) (mmul n (mmul n S U) (mmul n D (mmul n U1 S1))).
  Proof.
    unfold site_repr, weak_data.
    apply meq_trans with (mmul n S (mmul n (mmul n U (mmul n D U1)) S1)).
    { apply mmul3_ext; [apply meq_refl|apply mmul3_spec|apply meq_refl]. }
    (* S (U (D U1)) S1 *)
    apply meq_trans with (mmul n S (mmul n U (mmul n (mmul n D U1) S1))).
    - apply mmul_ext; [apply meq_refl|]. apply mmul_assoc.
    - apply meq_trans with (mmul n (mmul n S U) (mmul n (mmul n D U1) S1)).
      + apply mmul3_assoc.
      + apply mmul_ext; [apply meq_refl|]. apply mmul_assoc.
  Qed.

  Lemma weak_fixed_same_state n (S S1 U U1 S' S1' U' U1' D : @mat R) :
    meq n (mmul n S U) (mmul n S' U') -> meq n (mmul n U1 S1) (mmul n U1' S1') ->
    meq n (site_repr n S S1 (weak_data Fixed n U U1 D)) (site_repr n S' S1' (weak_data Fixed n U' U1' D)).
  Proof.
    intros HW HW1.
    apply meq_trans with (mmul n (mmul n S U) (mmul n D (mmul n U1 S1))); [apply weak_fixed_site_repr|].
    apply meq_trans with (mmul n (mmul n S' U') (mmul n D (mmul n U1' S1'))); [|apply meq_sym, weak_fixed_site_repr].
    apply mmul_ext; [exact HW|]. apply mmul_ext; [apply meq_refl|exact HW1].
  Qed.

  (* ---- strong coupling: with S . S1 = 1 the site energies are recovered and the result denotes D ---- *)
  Lemma sandwich_id n (S S1 A : @mat R) : meq n (mmul n S S1) mid ->
    meq n (mmul n S (mmul n (mmul n S1 (mmul n A S)) S1)) A.
  Proof.
    intros Hinv.
    (* S ((S1 (A S)) S1) = (S S1) (A (S S1)) *)
    apply meq_trans with (mmul n S (mmul n S1 (mmul n (mmul n A S) S1))).
    { apply mmul_ext; [apply meq_refl|]. apply mmul_assoc. }
    apply meq_trans with (mmul n (mmul n S S1) (mmul n (mmul n A S) S1)); [apply mmul3_assoc|].
    apply meq_trans with (mmul n mid (mmul n A (mmul n S S1))).
    { apply mmul_ext; [exact Hinv|]. apply mmul_assoc. }
    apply meq_trans with (mmul n A (mmul n S S1)); [apply mmul_id_l|].
    apply meq_trans with (mmul n A mid); [apply mmul_ext; [apply meq_refl|exact Hinv]|apply mmul_id_r].
  Qed.

  Lemma strong_fixed_energies n (S S1 Hsite : @mat R) i : meq n (mmul n S S1) mid -> (i < n)%nat ->
    strong_energies Fixed n S S1 (mmul n S1 (mmul n Hsite S)) i = Hsite i i.
  Proof.
    intros Hinv Hi. unfold strong_energies. cbv zeta. rewrite tab2_spec by exact Hi. unfold site_repr.
    rewrite (mmul3_spec n S _ S1 i i Hi Hi). now apply sandwich_id.
  Qed.

  Lemma strong_fixed_site_repr n (S S1 D : @mat R) : meq n (mmul n S S1) mid ->
    meq n (site_repr n S S1 (strong_data Fixed n S S1 D)) D.
  Proof.
    intros Hinv. unfold site_repr, strong_data.
    apply meq_trans with (mmul n S (mmul n (mmul n S1 (mmul n D S)) S1)).
    - apply mmul3_ext; [apply meq_refl|apply mmul3_spec|apply meq_refl].
    - now apply sandwich_id.
  Qed.

  (* ---- Hermiticity ---- *)
  Lemma mdiag_herm n (d : nat -> R) : (forall i, (i < n)%nat -> is_real R (d i)) -> herm n (mdiag d).
  Proof.
    intros Hd i j Hi Hj. unfold mdiag. rewrite (Nat.eqb_sym j i).
    destruct (Nat.eqb_spec i j) as [->|_]; [now apply Hd|apply cj_0].
  Qed.

  (* the entry (i,j) of X rho X^dagger as a double sum *)
  Lemma congr_entry n (X rho : @mat R) i j :
    mmul n X (mmul n rho (mdag X)) i j = sum n (fun k => sum n (fun l => X i k * rho k l * cj R (X j l))).
  Proof. unfold mmul, mdag. apply sum_ext. intros k _. rewrite <- sum_mul_l. apply sum_ext. intros l _. ring. Qed.

  Lemma congruence_herm n (X rho : @mat R) : herm n rho -> herm n (mmul n X (mmul n rho (mdag X))).
  Proof.
    intros Hr i j Hi Hj. rewrite !congr_entry. rewrite sum_cj.
    rewrite (sum_ext n _ (fun k => sum n (fun l => X i l * rho l k * cj R (X j k)))).
    - rewrite sum_swap. reflexivity.
    - intros k Hk. rewrite sum_cj. apply sum_ext. intros l Hl.
      rewrite !cj_mul, cj_cj, (Hr l k Hl Hk). ring.
  Qed.

  (* ---- quadratic forms ---- *)
  Lemma qform_ext n (A B : @mat R) v : meq n A B -> qform n A v = qform n B v.
  Proof. intros H. unfold qform. apply sum_ext. intros i Hi. apply sum_ext. intros j Hj. now rewrite H. Qed.

  (* v^dagger (X rho X^dagger) v = (X^dagger v)^dagger rho (X^dagger v) *)
  Lemma qform_congruence n (X rho : @mat R) v :
    qform n (mmul n X (mmul n rho (mdag X))) v = qform n rho (mv n (mdag X) v).
  Proof.
    unfold qform.
    pose (g := fun i j k l : nat => cj R (v i) * X i k * rho k l * cj R (X j l) * v j).
    transitivity (sum n (fun i => sum n (fun j => sum n (fun k => sum n (fun l => g i j k l))))).
    - apply sum_ext. intros i _. apply sum_ext. intros j _. rewrite congr_entry.
      rewrite <- sum_mul_l, <- sum_mul_r. apply sum_ext. intros k _.
      rewrite <- sum_mul_l, <- sum_mul_r. apply sum_ext. intros l _. unfold g. ring.
    - rewrite <- sum4_rot. apply sum_ext. intros k _. apply sum_ext. intros l _.
      unfold mv, mdag. rewrite sum_cj.
      (* (sum_i cj(cj X_ik v_i)) * rho_kl * (sum_j cj X_jl v_j) *)
      rewrite <- !sum_mul_r. apply sum_ext. intros i _.
      rewrite <- sum_mul_l. apply sum_ext. intros j _. unfold g. rewrite cj_mul, cj_cj. ring.
  Qed.

  Lemma qform_mdiag n (d : nat -> R) v : qform n (mdiag d) v = sum n (fun i => d i * (v i * cj R (v i))).
  Proof.
    unfold qform. apply sum_ext. intros i Hi.
    rewrite (sum_single n i) by (exact Hi || (intros j Hj Hne; unfold mdiag; apply Nat.eqb_neq in Hne; rewrite Nat.eqb_sym, Hne; ring)).
    unfold mdiag. rewrite Nat.eqb_refl. ring.
  Qed.

  (* ---- positivity, with "non-negative" any predicate closed like 0 <= x in an ordered ring ---- *)
  Section Psd.
    Variable nonneg : R -> Prop.
    Hypothesis nn0 : nonneg 0.
    Hypothesis nnadd : forall x y, nonneg x -> nonneg y -> nonneg (x + y).
    Hypothesis nnmul : forall x y, nonneg x -> nonneg y -> nonneg (x * y).
    Hypothesis nnnorm : forall x, nonneg (x * cj R x).

    Definition psd (n : nat) (A : @mat R) : Prop := forall v, nonneg (qform n A v).

    Lemma sum_nonneg n f : (forall i, (i < n)%nat -> nonneg (f i)) -> nonneg (sum n f).
    Proof. induction n as [|n IH]; intros H; cbn [sum]; [exact nn0|]. apply nnadd; [apply IH; intros; apply H; lia|apply H; lia]. Qed.

    Lemma mdiag_psd n (d : nat -> R) : (forall i, (i < n)%nat -> nonneg (d i)) -> psd n (mdiag d).
    Proof. intros Hd v. rewrite qform_mdiag. apply sum_nonneg. intros i Hi. apply nnmul; [now apply Hd|apply nnnorm]. Qed.

    Lemma congruence_psd n (X rho : @mat R) : psd n rho -> psd n (mmul n X (mmul n rho (mdag X))).
    Proof. intros Hp v. rewrite qform_congruence. apply Hp. Qed.

    (* the code multiplies by X on both sides; X = dabs is real symmetric, i.e. Hermitian *)
    Lemma impulsive_is_congruence n (X rho : @mat R) : herm n X -> meq n (impulsive n X rho) (mmul n X (mmul n rho (mdag X))).
    Proof.
      intros HX. unfold impulsive. apply mmul3_ext; [apply meq_refl|apply meq_refl|].
      intros i j Hi Hj. unfold mdag. symmetry. now apply HX.
    Qed.

    Lemma impulsive_psd n (X rho : @mat R) : herm n X -> psd n rho -> psd n (impulsive n X rho).
    Proof. intros HX Hp v. rewrite (qform_ext n _ _ v (impulsive_is_congruence n X rho HX)). now apply congruence_psd. Qed.

    Lemma impulsive_herm n (X rho : @mat R) : herm n X -> herm n rho -> herm n (impulsive n X rho).
    Proof.
      intros HX Hr i j Hi Hj. rewrite (impulsive_is_congruence n X rho HX i j Hi Hj), (impulsive_is_congruence n X rho HX j i Hj Hi).
      now apply congruence_herm.
    Qed.

    (* similarity by a unitary (S1 = S^dagger) keeps Hermiticity and positivity: the transformed objects
       handed out in another basis are valid too *)
    Lemma unitary_similarity_psd n (S1 rho : @mat R) : psd n rho -> psd n (mmul n S1 (mmul n rho (mdag S1))).
    Proof. apply congruence_psd. Qed.
  End Psd.
End MatLemmas.

(* ---- witnesses over the integers: the basis is changed by the swap of two states ---- *)
From Coq Require Import ZArith.
Definition swap2 : @mat ZR := mat_of (R:=ZR) [[0; 1]; [1; 0]]%Z.
Definition pop10 : @mat ZR := mdiag (R:=ZR) (fun i => if Nat.eqb i 0 then 1%Z else 0%Z).
Definition hsite12 : @mat ZR := mdiag (R:=ZR) (fun i => if Nat.eqb i 0 then 1%Z else 2%Z).

Lemma swap2_involution : meq 2 (mmul 2 swap2 swap2) (mid (R:=ZR)).
Proof. intros [|[|i]] [|[|j]] Hi Hj; try lia; reflexivity. Qed.

(* weak coupling, pinned code: requested outside (S = 1, U = swap) and inside the context (S = swap, U = 1),
   i.e. with the same total transformation, the results denote different states *)
Lemma weak_buggy_witness :
  meq 2 (mmul 2 (mid (R:=ZR)) swap2) (mmul 2 swap2 mid) /\
  ~ meq 2 (site_repr 2 mid mid (weak_data Buggy 2 swap2 swap2 pop10))
          (site_repr 2 swap2 swap2 (weak_data Buggy 2 mid mid pop10)).
Proof.
  split.
  - intros [|[|i]] [|[|j]] Hi Hj; try lia; reflexivity.
  - intros H. specialize (H 0%nat 0%nat ltac:(lia) ltac:(lia)). vm_compute in H. discriminate.
Qed.

(* strong coupling, pinned code, requested inside a context: the energies are not the site energies and the
   result does not denote the matrix of populations *)
Lemma strong_buggy_witness :
  strong_energies Buggy 2 swap2 swap2 (mmul 2 swap2 (mmul 2 hsite12 swap2)) 0 <> hsite12 0%nat 0%nat /\
  ~ meq 2 (site_repr 2 swap2 swap2 (strong_data Buggy 2 swap2 swap2 pop10)) pop10.
Proof.
  split.
  - vm_compute. discriminate.
  - intros H. specialize (H 0%nat 0%nat ltac:(lia) ltac:(lia)). vm_compute in H. discriminate.
Qed.


(* ---------- nested basis contexts ---------- *)
Section NestedLemmas.
  Context {R : StarRing}.
  Add Ring Rrn : (rth R).

  Lemma nested_fold_ext n ctx (X X' : @mat R) : meq n X X' ->
    meq n (fold_left (fun X c => mmul n (snd c) (mmul n X (fst c))) ctx X) (fold_left (fun X c => mmul n (snd c) (mmul n X (fst c))) ctx X').
  Proof.
    revert X X'. induction ctx as [|c ctx IH]; intros X X' H; cbn [fold_left]; [exact H|].
    apply IH. apply mmul_ext; [apply meq_refl|]. apply mmul_ext; [exact H|apply meq_refl].
  Qed.

  Lemma nested_general n ctx (A T S : @mat R) :
    meq n (fold_left (fun X c => mmul n (snd c) (mmul n X (fst c))) ctx (mmul n T (mmul n A S)))
          (mmul n (fold_left (fun T Zi => mmul n Zi T) (map snd ctx) T) (mmul n A (fold_left (fun S Z => mmul n S Z) (map fst ctx) S))).
  Proof.
    revert T S. induction ctx as [|[Z Zi] ctx IH]; intros T S; cbn [fold_left map fst snd]; [apply meq_refl|].
    apply meq_trans with (fold_left (fun X c => mmul n (snd c) (mmul n X (fst c))) ctx (mmul n (mmul n Zi T) (mmul n A (mmul n S Z)))); [|apply IH].
    apply nested_fold_ext.
    (* Zi ((T (A S)) Z) = (Zi T) (A (S Z)) *)
    apply meq_trans with (mmul n Zi (mmul n T (mmul n (mmul n A S) Z))).
    { apply mmul_ext; [apply meq_refl|]. apply mmul_assoc. }
    apply meq_trans with (mmul n Zi (mmul n T (mmul n A (mmul n S Z)))).
    { apply mmul_ext; [apply meq_refl|]. apply mmul_ext; [apply meq_refl|]. apply mmul_assoc. }
    apply mmul3_assoc.
  Qed.

  (* inside nested contexts the data of an operator are  (Zi_m ... Zi_1) . A . (Z_1 ... Z_m):  the transformation from the site
     basis to the current one is the product of the transformations in the order in which the contexts were entered *)
  Lemma nested_data_accumulated n ctx (A : @mat R) :
    meq n (nested_data n ctx A) (mmul n (inverse_product n (map snd ctx)) (mmul n A (basis_product n (map fst ctx)))).
  Proof.
    unfold nested_data, inverse_product, basis_product.
    apply meq_trans with (fold_left (fun X c => mmul n (snd c) (mmul n X (fst c))) ctx (mmul n mid (mmul n A mid))); [|apply nested_general].
    apply nested_fold_ext. apply meq_sym.
    apply meq_trans with (mmul n A mid); [apply mmul_id_l|apply mmul_id_r].
  Qed.

  Lemma product_inverse_general n ctx (S T : @mat R) :
    (forall c, In c ctx -> meq n (mmul n (fst c) (snd c)) mid) ->
    meq n (mmul n (fold_left (fun S Z => mmul n S Z) (map fst ctx) S) (fold_left (fun T Zi => mmul n Zi T) (map snd ctx) T)) (mmul n S T).
  Proof.
    revert S T. induction ctx as [|[Z Zi] ctx IH]; intros S T H; cbn [fold_left map fst snd]; [apply meq_refl|].
    apply meq_trans with (mmul n (mmul n S Z) (mmul n Zi T)); [apply IH; intros c Hc; apply H; now right|].
    (* (S Z)(Zi T) = S ((Z Zi) T) = S T *)
    apply meq_trans with (mmul n S (mmul n Z (mmul n Zi T))); [apply mmul_assoc|].
    apply mmul_ext; [apply meq_refl|].
    apply meq_trans with (mmul n (mmul n Z Zi) T); [apply mmul3_assoc|].
    apply meq_trans with (mmul n mid T); [|apply mmul_id_l].
    apply mmul_ext; [|apply meq_refl]. apply (H (Z, Zi)). now left.
  Qed.

  Lemma basis_product_inverse n ctx : (forall c, In c ctx -> meq n (mmul n (fst c) (snd c)) (mid (R:=R))) ->
    meq n (mmul n (basis_product n (map fst ctx)) (inverse_product n (map snd ctx))) mid.
  Proof.
    intros H. unfold basis_product, inverse_product.
    apply meq_trans with (mmul n (mid (R:=R)) mid); [now apply product_inverse_general|apply mmul_id_l].
  Qed.

  (* strong coupling inside nested contexts: the energies read from the accumulated transformation are the site energies *)
  Lemma strong_energies_nested n ctx (Hsite : @mat R) i : (i < n)%nat ->
    (forall c, In c ctx -> meq n (mmul n (fst c) (snd c)) mid) ->
    strong_energies Fixed n (basis_product n (map fst ctx)) (inverse_product n (map snd ctx)) (nested_data n ctx Hsite) i = Hsite i i.
  Proof.
    intros Hi H. set (S := basis_product n (map fst ctx)). set (S1 := inverse_product n (map snd ctx)).
    rewrite <- (strong_fixed_energies n S S1 Hsite i (basis_product_inverse n ctx H) Hi).
    unfold strong_energies. cbv zeta. rewrite !tab2_spec by exact Hi. unfold site_repr.
    rewrite (mmul3_ext n S S (nested_data n ctx Hsite) (mmul n S1 (mmul n Hsite S)) S1 S1 (meq_refl n S) (nested_data_accumulated n ctx Hsite)
               (meq_refl n S1) i i Hi Hi).
    symmetry. apply (mmul3_spec n S (mmul n S1 (mmul n Hsite S)) S1 i i Hi Hi).
  Qed.
End NestedLemmas.
