(* C04, static tie of the BOOKKEEPING (second generated file GenC04b.v, harness/translate_c04.py).

   pst    : the bookkeeping state of quantarhei as the Python code has it - Manager.basis_stack (list of basis ids),
            Manager.basis_transformations (list, headed by the integer 1), Manager.basis_registered (dictionary basis id ->
            list of objects), Manager.current_basis_operator, Manager._in_eigenbasis_of_context, and the heap of
            basis-managed objects (tag = _current_basis, prot = is_basis_protected, dat = the stored array).
   py_*   : the reference transcription, statement by statement, of core/managers.py (Manager.get_current_basis,
            set_new_basis, transform_to_current_basis, register_with_basis, store_current_basis_operator; BasisManaged.*;
            eigenbasis_of.__init__/__enter__/__exit__), of the property wrappers of utils/types.py, of the tagging block
            of the constructors and of SuperOperator.apply.  The generated file proves gen_* = py_* for the definitions
            it regenerates from the current source.
   Rep    : the representation relation between pst and the state mst of Model/C04.v (basis ids are stack positions,
            the transformations innermost first, the dictionary as the aligned list of lists).
   *_sim  : every py_* step simulates the step function of Model/C04.v that exec is made of.
   mexec  : the machine that runs a program of Model/C04.v with a given set of step functions; with the py_* steps it
            simulates Model.C04.exec (mexec_sim), so the restoration theorem holds for the Python-level state
            (py_top_level_restores), including the two fields the model does not carry (current_basis_operator is put
            back, _in_eigenbasis_of_context is true exactly inside a context). *)
From Coq Require Import List Bool Arith Lia.
From QV Require Import Model.C04 Proofs.C04.
Import ListNotations.

Definition obind {A B} (o : option A) (f : A -> option B) : option B :=
  match o with Some a => f a | None => None end.

(* for k in l: (a, broke) = body k a; if broke: break *)
Fixpoint for_break {A} (l : list nat) (body : nat -> A -> A * bool) (a : A) : A :=
  match l with
  | [] => a
  | k :: l' => let '(a', brk) := body k a in if brk then a' else for_break l' body a'
  end.

(* dictionaries basis id -> list of object labels *)
Definition dict := nat -> option (list nat).
Definition dempty : dict := fun _ => None.
Definition dset (d : dict) (k : nat) (v : list nat) : dict := fun j => if Nat.eqb j k then Some v else d j.
Definition ddel (d : dict) (k : nat) : dict := fun j => if Nat.eqb j k then None else d j.
Definition dget (d : dict) (k : nat) : list nat := match d k with Some l => l | None => [] end.
Definition dmem (d : dict) (k : nat) : bool := match d k with Some _ => true | None => false end.

Lemma for_break_ext {A} (l : list nat) (f g : nat -> A -> A * bool) a :
  (forall k x, f k x = g k x) -> for_break l f a = for_break l g a.
Proof. intros H. revert a. induction l as [|k l IH]; intros a; cbn [for_break]; [reflexivity|]. rewrite H. destruct (g k a) as [a' b]. destruct b; auto. Qed.

Lemma fold_left_ext {A B} (f g : A -> B -> A) l a : (forall x y, f x y = g x y) -> fold_left f l a = fold_left g l a.
Proof. intros H. revert a. induction l as [|k l IH]; intros a; cbn [fold_left]; [reflexivity|]. rewrite H. apply IH. Qed.

Section Py.
  Variables G X : Type.
  Notation obj := (obj X).
  Notation tag := (tag X).
  Notation prot := (prot X).
  Notation dat := (dat X).
  Notation mkObj := (mkObj X).

  Record pst := mkP {
    stack : list nat;              (* Manager.basis_stack *)
    transf : list G;               (* Manager.basis_transformations (element 0 is the integer 1) *)
    regd : dict;                   (* Manager.basis_registered *)
    cbo : option nat;              (* Manager.current_basis_operator *)
    inctx : bool;                  (* Manager._in_eigenbasis_of_context *)
    pheap : nat -> option obj
  }.
  Definition set_stack (ps : pst) v := mkP v (transf ps) (regd ps) (cbo ps) (inctx ps) (pheap ps).
  Definition set_transf (ps : pst) v := mkP (stack ps) v (regd ps) (cbo ps) (inctx ps) (pheap ps).
  Definition set_regd (ps : pst) v := mkP (stack ps) (transf ps) v (cbo ps) (inctx ps) (pheap ps).
  Definition set_cbo (ps : pst) v := mkP (stack ps) (transf ps) (regd ps) v (inctx ps) (pheap ps).
  Definition set_inctx (ps : pst) v := mkP (stack ps) (transf ps) (regd ps) (cbo ps) v (pheap ps).
  Definition pupd (ps : pst) (i : nat) (o : obj) :=
    mkP (stack ps) (transf ps) (regd ps) (cbo ps) (inctx ps) (fun j => if Nat.eqb j i then Some o else pheap ps j).
  Definition p_blank : pst := mkP [] [] dempty None false (fun _ => None).

  (* attribute reads and writes of a basis-managed object *)
  Definition ptag (ps : pst) i : nat := match pheap ps i with Some o => tag o | None => 0 end.
  Definition pprot (ps : pst) i : bool := match pheap ps i with Some o => prot o | None => false end.
  Definition pdat (ps : pst) i : option X := option_map dat (pheap ps i).
  Definition pset_tag (ps : pst) i v := match pheap ps i with Some o => pupd ps i (mkObj v (prot o) (dat o)) | None => ps end.
  Definition pset_prot (ps : pst) i b := match pheap ps i with Some o => pupd ps i (mkObj (tag o) b (dat o)) | None => ps end.
  Definition pset_dat (ps : pst) i x := match pheap ps i with Some o => pupd ps i (mkObj (tag o) (prot o) x) | None => ps end.
  (* a label bound to a new Python object: nothing is registered under it *)
  Definition p_alloc (ps : pst) (i : nat) (o : obj) : pst :=
    mkP (stack ps) (transf ps) (fun k => option_map (filter (fun j => negb (Nat.eqb j i))) (regd ps k)) (cbo ps) (inctx ps)
        (fun j => if Nat.eqb j i then Some o else pheap ps j).
  (* cls.__new__(cls); new.__dict__.update(self.__dict__) *)
  Definition p_alloc_copy (ps : pst) (src new : nat) : pst :=
    match pheap ps src with Some o => p_alloc ps new o | None => ps end.

  Variable gid : G.
  Variable gmul : G -> G -> G.
  Variable ginv : G -> G.
  Variable act : G -> X -> X.
  Variable act2 : G -> G -> X -> X.        (* transform(S, inv=S1): S1 is used for the inverse of S *)
  Variable app : X -> X -> X.

  Definition ptransform (ps : pst) i (S : G) := match pheap ps i with Some o => pupd ps i (mkObj (tag o) (prot o) (act S (dat o))) | None => ps end.
  Definition ptransform2 (ps : pst) i (S S1 : G) := match pheap ps i with Some o => pupd ps i (mkObj (tag o) (prot o) (act2 S S1 (dat o))) | None => ps end.
  (* numpy.linalg.eigh(self._data)[1] *)
  Definition pdiag (eigh : X -> G) (ps : pst) i : G := match pheap ps i with Some o => eigh (dat o) | None => gid end.

  (* ================= the reference transcription ================= *)
  Definition py_init : pst :=
    let ps := p_blank in
    let ps := set_cbo ps None in
    let ps := set_inctx ps false in
    let ps := set_stack ps [] in
    let ps := set_stack ps (stack ps ++ [0]) in
    let ps := set_transf ps [] in
    let ps := set_transf ps (transf ps ++ [gid]) in
    let ps := set_regd ps dempty in
    ps.

  Definition py_get_current_basis (ps : pst) : nat :=
    let v_l := (length (stack ps)) in
    (nth (v_l - 1) (stack ps) 0).

  Definition py_register (ps : pst) (v_nb : nat) (v_operator : nat) : pst :=
    let ps := set_regd ps (dset (regd ps) v_nb (dget (regd ps) v_nb ++ [v_operator])) in
    ps.

  Definition py_set_new_basis (ps : pst) (v_SS : G) : pst * nat :=
    let v_nb := ((py_get_current_basis ps) + 1) in
    let ps := set_stack ps (stack ps ++ [v_nb]) in
    let ps := set_transf ps (transf ps ++ [v_SS]) in
    let ps := set_regd ps (dset (regd ps) v_nb []) in
    (ps, v_nb).

  Definition py_store_cbo (ps : pst) (v_op : option nat) : pst :=
    let ps := set_cbo ps v_op in
    ps.

  Definition py_obj_get_basis (ps : pst) (self : nat) : nat :=
    (ptag ps self).

  Definition py_obj_set_basis (ps : pst) (self : nat) (v_bb : nat) : pst :=
    let ps := pset_tag ps self v_bb in
    ps.

  Definition py_protect (ps : pst) (self : nat) : pst :=
    let ps := pset_prot ps self true in
    ps.

  Definition py_unprotect (ps : pst) (self : nat) : pst :=
    let ps := pset_prot ps self false in
    ps.

  Definition py_to_current (ps : pst) (v_operator : nat) : option pst :=
    (if (pprot ps v_operator)
     then Some ps
     else let v_ob := (py_obj_get_basis ps v_operator) in
    let v_cb := (py_get_current_basis ps) in
    (if (negb (v_ob =? v_cb))
     then let v_SS := gid in
    (if (existsb (Nat.eqb v_ob) (stack ps))
     then let v_sl := (length (stack ps)) in
    let v_SS := for_break (seq 1 (v_sl - 1)) (fun v_k v_SS =>
    let v_ZZ := (nth (v_sl - v_k) (transf ps) gid) in
    let v_SS := (gmul v_ZZ v_SS) in
    (if ((nth ((v_sl - v_k) - 1) (stack ps) 0) =? v_ob) then (v_SS, true) else (v_SS, false))) v_SS in
    let ps := ptransform ps v_operator v_SS in
    let ps := py_obj_set_basis ps v_operator v_cb in
    let ps := py_register ps v_cb v_operator in
    Some ps
     else None)
     else Some ps)).

  Definition py_default_tag : nat := py_get_current_basis py_init.
  Definition py_default_prot : bool := false.

  Definition py_copy (ps : pst) (self new : nat) : pst :=
    let ps := p_alloc_copy ps self new in
    let v_cb := (py_obj_get_basis ps new) in
    (if ((negb (v_cb =? 0)) && (dmem (regd ps) v_cb))
     then let ps := py_register ps v_cb new in
    ps
     else ps).

  Definition py_getter (ps : pst) (self : nat) : option (pst * option X) :=
    let v_cb := (py_get_current_basis ps) in
    let v_ob := (py_obj_get_basis ps self) in
    (if (v_cb =? v_ob)
     then Some (ps, (pdat ps self))
     else obind (py_to_current ps self) (fun ps =>
    Some (ps, (pdat ps self)))).

  Definition py_setter (ps : pst) (self : nat) (v_value : X) : option pst :=
    let v_cb := (py_get_current_basis ps) in
    let v_ob := (py_obj_get_basis ps self) in
    (if (v_cb =? v_ob)
     then Some (pset_dat ps self v_value)
     else obind (py_to_current ps self) (fun ps =>
    Some (pset_dat ps self v_value))).

  Definition py_get_diag (eigh : X -> G) (ps : pst) (self : nat) : G :=
    let v_SS := pdiag eigh ps self in
    v_SS.

  Definition py_ctx_init (ps : pst) (v_operator : nat) : pst * nat * option nat :=
    let f_op := v_operator in
    let f_op_outer := (cbo ps) in
    let ps := py_store_cbo ps (Some f_op) in
    (ps, f_op, f_op_outer).

  Definition py_enter (eigh : X -> G) (ps : pst) (f_op : nat) (f_op_outer : option nat) : option pst :=
    let ps := set_inctx ps true in
    let v_cb := (py_get_current_basis ps) in
    let v_ob := (py_obj_get_basis ps f_op) in
    (if (negb (v_cb =? v_ob))
     then obind (py_to_current ps f_op) (fun ps =>
    let v_SS := (py_get_diag eigh ps f_op) in
    let '(ps, _) := py_set_new_basis ps v_SS in
    Some ps)
     else let v_SS := (py_get_diag eigh ps f_op) in
    let '(ps, _) := py_set_new_basis ps v_SS in
    Some ps).

  Definition py_exit (ps : pst) (f_op : nat) (f_op_outer : option nat) : pst :=
    let v_bb := last (stack ps) 0 in
    let ps := set_stack ps (removelast (stack ps)) in
    let v_SS := last (transf ps) gid in
    let ps := set_transf ps (removelast (transf ps)) in
    let v_bss := (length (stack ps)) in
    let v_nb := (nth (v_bss - 1) (stack ps) 0) in
    let v_S1 := (ginv v_SS) in
    let v_operators_key := v_bb in
    (if (negb (v_nb =? 0))
     then let v_ops_above_key := v_nb in
    let ps := fold_left (fun ps v_op =>
    (if (negb (pprot ps v_op))
     then let ps := ptransform2 ps v_op v_S1 v_SS in
    let ps := py_obj_set_basis ps v_op v_nb in
    (if (negb (existsb (Nat.eqb v_op) (dget (regd ps) v_ops_above_key)))
     then let ps := py_register ps v_nb v_op in
    ps
     else ps)
     else let ps := py_obj_set_basis ps v_op v_nb in
    (if (negb (existsb (Nat.eqb v_op) (dget (regd ps) v_ops_above_key)))
     then let ps := py_register ps v_nb v_op in
    ps
     else ps))) (dget (regd ps) v_operators_key) ps in
    let ps := py_store_cbo ps f_op_outer in
    let ps := set_regd ps (ddel (regd ps) v_bb) in
    (if ((length (stack ps)) =? 1)
     then let ps := set_inctx ps false in
    ps
     else ps)
     else let ps := fold_left (fun ps v_op =>
    (if (negb (pprot ps v_op))
     then let ps := ptransform2 ps v_op v_S1 v_SS in
    let ps := py_obj_set_basis ps v_op v_nb in
    ps
     else let ps := py_obj_set_basis ps v_op v_nb in
    ps)) (dget (regd ps) v_operators_key) ps in
    let ps := py_store_cbo ps f_op_outer in
    let ps := set_regd ps (ddel (regd ps) v_bb) in
    (if ((length (stack ps)) =? 1)
     then let ps := set_inctx ps false in
    ps
     else ps)).

  (* the block heading the constructors *)
  Definition py_tag_new (ps : pst) (self : nat) : pst :=
    let v_cb := (py_get_current_basis ps) in
    let ps := py_obj_set_basis ps self v_cb in
    (if (negb (v_cb =? 0))
     then let ps := py_register ps v_cb self in
    ps
     else ps).

  (* Operator(data=x): a new object with the class defaults, the tagging block, self.data = x *)
  Definition py_new (ps : pst) (i : nat) (x : X) : option pst :=
    let ps := p_alloc ps i (mkObj py_default_tag py_default_prot x) in
    let ps := py_tag_new ps i in
    py_setter ps i x.

  Definition py_apply (ps : pst) (sup src dst : nat) : option pst :=
    let ps := py_copy ps src dst in
    obind (py_getter ps sup) (fun '(ps, r) =>
    obind (py_getter ps src) (fun '(ps, x) =>
    match r, x with
    | Some rv, Some xv => py_setter ps dst (app rv xv)
    | _, _ => None
    end)).
End Py.

(* ================= the machine: programs of Model/C04.v run with given step functions ================= *)
Section Machine.
  Variables G X : Type.
  Notation pst := (pst G X).
  Record steps := mkSteps {
    s_new : pst -> nat -> X -> option pst;                    (* Operator(data=x) *)
    s_read : pst -> nat -> option (pst * option X);           (* o.data *)
    s_write : pst -> nat -> X -> option pst;                  (* o.data = x *)
    s_protect : pst -> nat -> pst;
    s_unprotect : pst -> nat -> pst;
    s_apply : pst -> nat -> nat -> nat -> option pst;         (* dst = sup.apply(src) *)
    s_ctx_init : pst -> nat -> pst * nat * option nat;        (* eigenbasis_of(op): the fields op, op_outer of the context object *)
    s_enter : (X -> G) -> pst -> nat -> option nat -> option pst;
    s_exit : pst -> nat -> option nat -> pst
  }.

  (* `with eigenbasis_of(op): body` = __init__, __enter__, body, __exit__ (also when the body raises); the diagonaliser
     the run used is handed over as the oracle, as in Model.C04.exec *)
  Fixpoint mexec (F : steps) (p : prog G X) (ps : pst) : pst * bool * list (nat * option X) :=
    match p with
    | PSkip _ _ => (ps, false, [])
    | PSeq _ _ a b => let '(p1, r1, o1) := mexec F a ps in
                      if r1 then (p1, true, o1) else let '(p2, r2, o2) := mexec F b p1 in (p2, r2, o1 ++ o2)
    | PNew _ _ i x => match s_new F ps i x with Some ps' => (ps', false, []) | None => (ps, true, []) end
    | PRead _ _ i => match pheap G X ps i, s_read F ps i with
                     | Some _, Some (ps', v) => (ps', false, [(i, v)])
                     | _, _ => (ps, true, [])
                     end
    | PWrite _ _ i x => match pheap G X ps i, s_write F ps i x with Some _, Some ps' => (ps', false, []) | _, _ => (ps, true, []) end
    | PProtect _ _ i b => match pheap G X ps i with
                          | Some _ => ((if b then s_protect F ps i else s_unprotect F ps i), false, [])
                          | None => (ps, true, [])
                          end
    | PApply _ _ v sup src dst =>
        match v, pheap G X ps sup, pheap G X ps src with
        | CopyRegistered, Some _, Some _ => match s_apply F ps sup src dst with Some ps' => (ps', false, []) | None => (ps, true, []) end
        | _, _, _ => (ps, true, [])
        end
    | PWith _ _ opi T body =>
        match pheap G X ps opi with
        | None => (ps, true, [])
        | Some _ => let '(ps0, op, oo) := s_ctx_init F ps opi in
                    match s_enter F (fun _ => T) ps0 op oo with
                    | None => (ps, true, [])
                    | Some ps1 => let '(ps2, r, o) := mexec F body ps1 in (s_exit F ps2 op oo, r, o)
                    end
        end
    | PRaise _ _ => (ps, true, [])
    | PTry _ _ body => let '(p1, _, o) := mexec F body ps in (p1, false, o)
    end.

  Record steps_eq (F F' : steps) : Prop := mkStepsEq {
    e_new : forall ps i x, s_new F ps i x = s_new F' ps i x;
    e_read : forall ps i, s_read F ps i = s_read F' ps i;
    e_write : forall ps i x, s_write F ps i x = s_write F' ps i x;
    e_protect : forall ps i, s_protect F ps i = s_protect F' ps i;
    e_unprotect : forall ps i, s_unprotect F ps i = s_unprotect F' ps i;
    e_apply : forall ps a b c, s_apply F ps a b c = s_apply F' ps a b c;
    e_ctx_init : forall ps i, s_ctx_init F ps i = s_ctx_init F' ps i;
    e_enter : forall eigh ps i oo, s_enter F eigh ps i oo = s_enter F' eigh ps i oo;
    e_exit : forall ps i oo, s_exit F ps i oo = s_exit F' ps i oo
  }.

  Lemma mexec_ext F F' : steps_eq F F' -> forall p ps, mexec F p ps = mexec F' p ps.
  Proof.
    intros E. induction p as [|a IHa b IHb|i x|i|i x|i b|v sup src dst|opi T body IH| |body IH]; intros ps; cbn [mexec].
    - reflexivity.
    - rewrite IHa. destruct (mexec F' a ps) as [[p1 r1] o1]. destruct r1; [reflexivity|]. now rewrite IHb.
    - now rewrite (e_new F F' E).
    - now rewrite (e_read F F' E).
    - now rewrite (e_write F F' E).
    - now rewrite (e_protect F F' E), (e_unprotect F F' E).
    - now rewrite (e_apply F F' E).
    - destruct (pheap G X ps opi); [|reflexivity]. rewrite (e_ctx_init F F' E). destruct (s_ctx_init F' ps opi) as [[ps0 op] oo].
      rewrite (e_enter F F' E). destruct (s_enter F' (fun _ => T) ps0 op oo) as [ps1|]; [|reflexivity].
      rewrite IH. destruct (mexec F' body ps1) as [[ps2 r] ob]. now rewrite (e_exit F F' E).
    - reflexivity.
    - now rewrite IH.
  Qed.

  (* the state outside every context *)
  Record PTop (gid : G) (ps : pst) : Prop := mkPTop {
    T_stack : stack G X ps = [0];
    T_transf : transf G X ps = [gid];
    T_regd : forall k, regd G X ps k = None;
    T_flag : inctx G X ps = false;
    T_tags : forall j o, pheap G X ps j = Some o -> tag X o = 0
  }.
End Machine.

(* ================= the transcription simulates Model/C04.v ================= *)
Section Sim.
  Variables G X : Type.
  Variable gid : G.
  Variable gmul : G -> G -> G.
  Variable ginv : G -> G.
  Variable act : G -> X -> X.
  Variable act2 : G -> G -> X -> X.
  Variable app : X -> X -> X.
  Hypothesis gmul_assoc : forall a b c, gmul a (gmul b c) = gmul (gmul a b) c.
  Hypothesis gid_l : forall a, gmul gid a = a.
  Hypothesis gid_r : forall a, gmul a gid = a.
  Hypothesis ginv_r : forall a, gmul a (ginv a) = gid.
  Hypothesis ginv_l : forall a, gmul (ginv a) a = gid.
  Hypothesis act_id : forall x, act gid x = x.
  Hypothesis act_mul : forall g h x, act (gmul g h) x = act h (act g x).
  (* transform(S, inv=S1) with S1 the inverse of S is transform(S) *)
  Hypothesis act2_inv : forall a b x, gmul a b = gid -> act2 a b x = act a x.

  Notation mst := (mst G X).
  Notation obj := (obj X).
  Notation depth := (depth G X).
  Notation heap := (heap G X).
  Notation trans := (trans G X).
  Notation reg := (reg G X).
  Notation tag := (tag X).
  Notation dat := (dat X).
  Notation prot := (prot X).
  Notation mkObj := (mkObj X).
  Notation pst := (pst G X).
  Notation Inv := (Inv G X).
  Notation Pr := (Pr G gid gmul).

  Definition regd_of (s : mst) : dict :=
    fun k => if (1 <=? k) && (k <=? depth s) then Some (reg_at (reg s) k) else None.

  (* ex = Some (bb, l): while a context is being left, the dictionary still holds the list l of the basis bb just popped *)
  Definition regdX (ex : option (nat * list nat)) (s : mst) : dict :=
    match ex with
    | Some (bb, l0) => fun k => if Nat.eqb k bb then Some l0 else regd_of s k
    | None => regd_of s
    end.
  Record RepX (ex : option (nat * list nat)) (ps : pst) (s : mst) : Prop := mkRep {
    R_stack : stack G X ps = seq 0 (S (depth s));
    R_transf : transf G X ps = gid :: rev (trans s);
    R_regd : forall k, regd G X ps k = regdX ex s k;
    R_heap : forall j, pheap G X ps j = heap s j;
    R_len : length (reg s) = length (trans s)
  }.
  Notation Rep := (RepX None).
  (* _in_eigenbasis_of_context is set exactly inside a context *)
  Definition Flag (ps : pst) (s : mst) : Prop := inctx G X ps = negb (depth s =? 0).

  Lemma Rep_init : Rep (py_init G X gid) (mkM G X [] [] (fun _ => None)).
  Proof. constructor; try reflexivity. intros k. unfold regdX, regd_of. cbn. destruct k as [|k]; [reflexivity|]. cbn. reflexivity. Qed.
  Lemma Flag_init : Flag (py_init G X gid) (mkM G X [] [] (fun _ => None)).
  Proof. reflexivity. Qed.

  Lemma get_current_basis_sim ps s : Rep ps s -> py_get_current_basis G X ps = depth s.
  Proof.
    intros R. unfold py_get_current_basis. rewrite (R_stack _ ps s R), seq_length. cbv zeta.
    replace (S (depth s) - 1) with (depth s) by lia. rewrite seq_nth by lia. reflexivity.
  Qed.

  Lemma ptag_sim ps s i : Rep ps s -> ptag G X ps i = match heap s i with Some o => tag o | None => 0 end.
  Proof. intros R. unfold ptag. now rewrite (R_heap _ ps s R). Qed.
  Lemma pprot_sim ps s i : Rep ps s -> pprot G X ps i = match heap s i with Some o => prot o | None => false end.
  Proof. intros R. unfold pprot. now rewrite (R_heap _ ps s R). Qed.
  Lemma pprot_sim' ex ps s i : RepX ex ps s -> pprot G X ps i = match heap s i with Some o => prot o | None => false end.
  Proof. intros R. unfold pprot. now rewrite (R_heap _ ps s R). Qed.

  (* an update of one object on both sides *)
  Lemma Rep_upd ex ps s i o : RepX ex ps s -> RepX ex (pupd G X ps i o) (set_obj G X s i o).
  Proof.
    intros R. constructor; cbn; try apply R. intros j. destruct (Nat.eqb j i); [reflexivity|apply R].
  Qed.

  Lemma Rep_heap_ext ex ps s s' : RepX ex ps s -> trans s' = trans s -> reg s' = reg s -> (forall j, heap s' j = heap s j) -> RepX ex ps s'.
  Proof.
    intros R Ht Hr Hh. constructor.
    - unfold C04.depth. rewrite Ht. apply R.
    - rewrite Ht. apply R.
    - intros k. rewrite (R_regd _ ps s R). unfold regdX, regd_of, C04.depth. now rewrite Ht, Hr.
    - intros j. rewrite Hh. apply R.
    - rewrite Hr, Ht. apply R.
  Qed.

  Lemma register_sim ex ps s nb i : RepX ex ps s -> 1 <= nb <= depth s -> (forall bb l0, ex = Some (bb, l0) -> bb <> nb) ->
    RepX ex (py_register G X ps nb i) (register G X s nb i).
  Proof.
    intros R Hn Hex. pose proof (R_len _ ps s R) as Hl. constructor; cbn; try apply R.
    - intros k. unfold dset, dget. rewrite !(R_regd _ ps s R).
      assert (regd_of (register G X s nb i) k = if Nat.eqb k nb then Some (reg_at (reg s) nb ++ [i]) else regd_of s k) as Hk.
      { unfold regd_of, C04.depth in *. cbn [C04.reg C04.trans register]. rewrite reg_at_add by lia.
        destruct (Nat.eqb_spec k nb) as [->|N]; [|reflexivity].
        replace ((1 <=? nb) && (nb <=? length (trans s))) with true; [reflexivity|].
        symmetry. apply andb_true_intro. split; apply Nat.leb_le; lia. }
      assert (regd_of s nb = Some (reg_at (reg s) nb)) as Hnb.
      { unfold regd_of. replace ((1 <=? nb) && (nb <=? depth s)) with true; [reflexivity|].
        symmetry. apply andb_true_intro. split; apply Nat.leb_le; lia. }
      unfold regdX. destruct ex as [[bb l0]|].
      + specialize (Hex bb l0 eq_refl). destruct (Nat.eqb_spec nb bb); [congruence|]. rewrite Hk, Hnb.
        destruct (Nat.eqb_spec k nb) as [E|N]; [|reflexivity]. rewrite E. destruct (Nat.eqb_spec nb bb); [congruence|reflexivity].
      + rewrite Hk, Hnb. reflexivity.
    - rewrite reg_add_length. exact Hl.
  Qed.

  Lemma set_new_basis_sim ps s T : Rep ps s -> Rep (fst (py_set_new_basis G X ps T)) (enter G X s T).
  Proof.
    intros R. pose proof (R_len _ ps s R) as Hl. unfold py_set_new_basis. rewrite (get_current_basis_sim ps s R). cbv zeta. cbn [fst].
    constructor; cbn [stack transf regd pheap set_stack set_transf set_regd C04.depth C04.trans C04.reg C04.heap enter length].
    - rewrite (R_stack _ ps s R). unfold C04.depth. rewrite (seq_S (S (length (trans s)))). f_equal. cbn. f_equal. lia.
    - rewrite (R_transf _ ps s R). cbn [rev]. reflexivity.
    - intros k. unfold dset. rewrite (R_regd _ ps s R). unfold regdX, regd_of, C04.depth in *. cbn [C04.reg C04.trans enter length].
      rewrite reg_at_cons. rewrite Hl.
      destruct (Nat.eqb_spec k (length (trans s) + 1)) as [->|N].
      + replace (S (length (trans s)) =? length (trans s) + 1) with true by (symmetry; apply Nat.eqb_eq; lia).
        replace ((1 <=? length (trans s) + 1) && (length (trans s) + 1 <=? S (length (trans s)))) with true; [reflexivity|].
        symmetry. apply andb_true_intro. split; apply Nat.leb_le; lia.
      + destruct (Nat.eqb_spec (S (length (trans s))) k); [lia|].
        destruct (Nat.leb_spec 1 k); cbn [andb]; [|reflexivity].
        destruct (Nat.leb_spec k (length (trans s))); destruct (Nat.leb_spec k (S (length (trans s)))); try reflexivity; lia.
    - apply R.
    - f_equal. exact Hl.
  Qed.

  (* the walk back over the stack computes the product of the transformations passed *)
  Definition walk_body (ts : list G) (ob : nat) : nat -> G -> G * bool := fun v_k v_SS =>
      let v_ZZ := nth (S (length ts) - v_k) (gid :: rev ts) gid in
      let v_SS := gmul v_ZZ v_SS in
      if (nth (S (length ts) - v_k - 1) (seq 0 (S (length ts))) 0 =? ob) then (v_SS, true) else (v_SS, false).

  Lemma walk_back ts ob : ob < length ts ->
    forall rest pre acc, ts = pre ++ rest -> acc = Pr pre -> length pre < length ts - ob ->
    for_break (seq (S (length pre)) (length rest)) (walk_body ts ob) acc = path G gid gmul ts ob.
  Proof.
    intros Hob. induction rest as [|t rest IH]; intros pre acc Hts Hacc Hlt.
    - rewrite app_nil_r in Hts. subst pre. lia.
    - cbn [length]. rewrite <- cons_seq. cbn [for_break]. unfold walk_body at 1. cbv zeta.
      assert (length ts = length pre + S (length rest)) as Hlen by (rewrite Hts, app_length; reflexivity).
      assert (nth (S (length ts) - S (length pre)) (gid :: rev ts) gid = t) as Hz.
      { replace (S (length ts) - S (length pre)) with (S (length rest)) by lia. cbn [nth].
        rewrite rev_nth by lia. replace (length ts - S (length rest)) with (length pre) by lia.
        rewrite Hts, app_nth2 by lia. now rewrite Nat.sub_diag. }
      rewrite Hz.
      assert (nth (S (length ts) - S (length pre) - 1) (seq 0 (S (length ts))) 0 = length rest) as Hs.
      { rewrite seq_nth by lia. lia. }
      rewrite Hs.
      assert (gmul t acc = Pr (pre ++ [t])) as Hacc'.
      { rewrite (Pr_app G gid gmul gmul_assoc gid_r). subst acc. replace (Pr [t]) with t; [reflexivity|]. unfold C04.Pr. cbn [fold_right]. now rewrite gid_l. }
      destruct (Nat.eqb_spec (length rest) ob) as [E|N].
      + rewrite Hacc'. unfold path. fold (Pr (firstn (length ts - ob) ts)). f_equal.
        replace (length ts - ob) with (length (pre ++ [t])) by (rewrite app_length; cbn [length]; lia).
        rewrite Hts. replace (pre ++ t :: rest) with ((pre ++ [t]) ++ rest) by (rewrite <- app_assoc; reflexivity).
        rewrite firstn_app, firstn_all, Nat.sub_diag. cbn [firstn]. now rewrite app_nil_r.
      + replace (S (S (length pre))) with (S (length (pre ++ [t]))) by (rewrite app_length; cbn [length]; lia).
        apply IH.
        * rewrite <- app_assoc. exact Hts.
        * exact Hacc'.
        * rewrite app_length. cbn [length]. lia.
  Qed.

  Lemma in_stack d ob : existsb (Nat.eqb ob) (seq 0 (S d)) = (ob <=? d).
  Proof.
    destruct (Nat.leb_spec ob d) as [H|H].
    - apply existsb_exists. exists ob. split; [apply in_seq; lia|apply Nat.eqb_refl].
    - destruct (existsb (Nat.eqb ob) (seq 0 (S d))) eqn:E; [|reflexivity].
      apply existsb_exists in E. destruct E as [x [Hx E]]. apply in_seq in Hx. apply Nat.eqb_eq in E. lia.
  Qed.

  Lemma to_current_sim ps s i o : Rep ps s -> heap s i = Some o ->
    match to_current G X gid gmul act s i with
    | Some s' => exists ps', py_to_current G X gid gmul act ps i = Some ps' /\ Rep ps' s' /\
                             cbo G X ps' = cbo G X ps /\ inctx G X ps' = inctx G X ps
    | None => py_to_current G X gid gmul act ps i = None
    end.
  Proof.
    intros R Ho. unfold to_current, py_to_current, py_obj_get_basis. rewrite Ho.
    rewrite (pprot_sim ps s i R), (ptag_sim ps s i R), Ho, (get_current_basis_sim ps s R). cbv zeta.
    destruct (prot o) eqn:Hp; [exists ps; auto|].
    destruct (Nat.eqb_spec (tag o) (depth s)) as [E|N]; cbn [negb]; [exists ps; auto|].
    rewrite (R_stack _ ps s R), in_stack, seq_length.
    destruct (Nat.leb_spec (tag o) (depth s)) as [Hle|Hgt]; [|reflexivity].
    match goal with |- context [for_break ?l ?f gid] => assert (for_break l f gid = path G gid gmul (trans s) (tag o)) as Hw end.
    { rewrite (R_transf _ ps s R). replace (S (depth s) - 1) with (length (trans s)) by (unfold C04.depth; lia).
      unfold C04.depth. exact (walk_back (trans s) (tag o) ltac:(unfold C04.depth in *; lia) (trans s) [] gid eq_refl eq_refl ltac:(unfold C04.depth in *; cbn [length]; lia)). }
    rewrite Hw.
    unfold ptransform. rewrite (R_heap _ ps s R), Ho.
    unfold py_obj_set_basis, pset_tag. cbn [pheap pupd]. rewrite Nat.eqb_refl. cbn [C04.tag C04.prot C04.dat].
    eexists. split; [reflexivity|]. split; [|split; reflexivity].
    eapply Rep_heap_ext with (s := register G X (set_obj G X (set_obj G X s i (mkObj (tag o) (prot o) (act (path G gid gmul (trans s) (tag o)) (dat o)))) i
                                     (mkObj (depth s) (prot o) (act (path G gid gmul (trans s) (tag o)) (dat o)))) (depth s) i).
    - apply register_sim; [|cbn; unfold C04.depth in *; lia|discriminate]. apply Rep_upd. apply Rep_upd. exact R.
    - reflexivity.
    - reflexivity.
    - intros j. cbn. rewrite ?Hp. destruct (Nat.eqb j i); reflexivity.
  Qed.

  Lemma Rep_set_cbo ex ps s v : RepX ex ps s -> RepX ex (set_cbo G X ps v) s.
  Proof. intros R. constructor; cbn; apply R. Qed.
  Lemma Rep_set_inctx ex ps s v : RepX ex ps s -> RepX ex (set_inctx G X ps v) s.
  Proof. intros R. constructor; cbn; apply R. Qed.

  Lemma pdat_sim ps s i : Rep ps s -> pdat G X ps i = option_map dat (heap s i).
  Proof. intros R. unfold pdat. now rewrite (R_heap _ ps s R). Qed.

  Lemma pset_dat_sim ex ps s i x : RepX ex ps s ->
    RepX ex (pset_dat G X ps i x) (match heap s i with Some o => set_obj G X s i (mkObj (tag o) (prot o) x) | None => s end).
  Proof. intros R. unfold pset_dat. rewrite (R_heap _ ps s R). destruct (heap s i); [now apply Rep_upd|exact R]. Qed.

  Lemma pset_prot_sim ex ps s i b : RepX ex ps s -> RepX ex (pset_prot G X ps i b) (set_prot G X s i b).
  Proof. intros R. unfold pset_prot, set_prot. rewrite (R_heap _ ps s R). destruct (heap s i); [now apply Rep_upd|exact R]. Qed.

  Lemma pset_tag_sim ex ps s i v : RepX ex ps s ->
    RepX ex (pset_tag G X ps i v) (match heap s i with Some o => set_obj G X s i (mkObj v (prot o) (dat o)) | None => s end).
  Proof. intros R. unfold pset_tag. rewrite (R_heap _ ps s R). destruct (heap s i); [now apply Rep_upd|exact R]. Qed.

  Lemma to_current_same s i o : heap s i = Some o -> tag o = depth s -> to_current G X gid gmul act s i = Some s.
  Proof. intros Ho Ht. unfold to_current. rewrite Ho. destruct (prot o); [reflexivity|]. rewrite Ht, Nat.eqb_refl. reflexivity. Qed.

  (* property getter = read *)
  Lemma getter_sim ps s i o : Rep ps s -> heap s i = Some o ->
    match read G X gid gmul act s i with
    | Some (s', v) => exists ps', py_getter G X gid gmul act ps i = Some (ps', v) /\ Rep ps' s' /\
                                 cbo G X ps' = cbo G X ps /\ inctx G X ps' = inctx G X ps
    | None => py_getter G X gid gmul act ps i = None
    end.
  Proof.
    intros R Ho. unfold read, py_getter, py_obj_get_basis. rewrite (get_current_basis_sim ps s R), (ptag_sim ps s i R), Ho. cbv zeta.
    destruct (Nat.eqb_spec (depth s) (tag o)) as [E|N].
    - rewrite (to_current_same s i o Ho (eq_sym E)). exists ps. rewrite (pdat_sim ps s i R). auto.
    - pose proof (to_current_sim ps s i o R Ho) as H. destruct (to_current G X gid gmul act s i) as [s'|].
      + destruct H as [ps' [H1 [H2 [H3 H4]]]]. rewrite H1. cbn [obind]. exists ps'. rewrite (pdat_sim ps' s' i H2). auto.
      + rewrite H. reflexivity.
  Qed.

  (* property setter = write *)
  Lemma setter_sim ps s i o x : Rep ps s -> heap s i = Some o ->
    match write G X gid gmul act s i x with
    | Some s' => exists ps', py_setter G X gid gmul act ps i x = Some ps' /\ Rep ps' s' /\
                             cbo G X ps' = cbo G X ps /\ inctx G X ps' = inctx G X ps
    | None => py_setter G X gid gmul act ps i x = None
    end.
  Proof.
    intros R Ho. unfold write, py_setter, py_obj_get_basis. rewrite (get_current_basis_sim ps s R), (ptag_sim ps s i R), Ho. cbv zeta.
    assert (forall ps' s', Rep ps' s' -> cbo G X (pset_dat G X ps' i x) = cbo G X ps' /\ inctx G X (pset_dat G X ps' i x) = inctx G X ps') as Hfr.
    { intros ps' s' _. unfold pset_dat. destruct (pheap G X ps' i); split; reflexivity. }
    destruct (Nat.eqb_spec (depth s) (tag o)) as [E|N].
    - rewrite (to_current_same s i o Ho (eq_sym E)). rewrite Ho. eexists. split; [reflexivity|].
      split; [|apply (Hfr ps s R)]. pose proof (pset_dat_sim None ps s i x R) as H. rewrite Ho in H. exact H.
    - pose proof (to_current_sim ps s i o R Ho) as H. destruct (to_current G X gid gmul act s i) as [s'|].
      + destruct H as [ps' [H1 [H2 [H3 H4]]]]. rewrite H1. cbn [obind].
        destruct (Hfr ps' s' H2) as [F1 F2]. pose proof (pset_dat_sim None ps' s' i x H2) as H.
        destruct (heap s' i); (eexists; split; [reflexivity|]; split; [exact H|split; congruence]).
      + rewrite H. reflexivity.
  Qed.

  (* a label bound to a new object *)
  Lemma alloc_sim ps s i o : Rep ps s -> Rep (p_alloc G X ps i o) (set_new G X s i o).
  Proof.
    intros R. constructor; cbn [stack transf regd pheap p_alloc C04.trans C04.reg C04.heap set_new]; try apply R.
    - intros k. rewrite (R_regd _ ps s R). unfold regdX, regd_of, C04.depth. cbn [C04.trans C04.reg set_new].
      destruct ((1 <=? k) && (k <=? length (trans s))); [|reflexivity]. cbn [option_map]. now rewrite reg_at_filter.
    - intros j. destruct (Nat.eqb j i); [reflexivity|apply R].
    - rewrite map_length. apply R.
  Qed.

  Lemma dmem_sim ps s k : Rep ps s -> dmem (regd G X ps) k = (1 <=? k) && (k <=? depth s).
  Proof. intros R. unfold dmem. rewrite (R_regd _ ps s R). unfold regdX, regd_of. destruct ((1 <=? k) && (k <=? depth s)); reflexivity. Qed.

  (* BasisManaged.__copy__ = the copy of apply(): registered with the basis the copied object is in *)
  Lemma copy_sim ps s src dst o : Rep ps s -> heap s src = Some o -> tag o <= depth s ->
    Rep (py_copy G X ps src dst) (let s1 := set_new G X s dst o in if Nat.eqb (tag o) 0 then s1 else register G X s1 (tag o) dst) /\
    cbo G X (py_copy G X ps src dst) = cbo G X ps /\ inctx G X (py_copy G X ps src dst) = inctx G X ps.
  Proof.
    intros R Ho Ht. unfold py_copy, p_alloc_copy, py_obj_get_basis. rewrite (R_heap _ ps s R), Ho. cbv zeta.
    pose proof (alloc_sim ps s dst o R) as R1.
    rewrite (ptag_sim _ _ dst R1). cbn [C04.heap set_new]. rewrite Nat.eqb_refl. rewrite (dmem_sim _ _ (tag o) R1).
    destruct (Nat.eqb_spec (tag o) 0) as [E|N]; cbn [negb andb]; [auto|].
    replace ((1 <=? tag o) && (tag o <=? depth (set_new G X s dst o))) with true.
    2:{ symmetry. apply andb_true_intro. split; apply Nat.leb_le; [lia|exact Ht]. }
    split; [|split; reflexivity]. apply register_sim; [exact R1|split; [lia|exact Ht]|discriminate].
  Qed.

  Lemma default_tag_outside : py_default_tag G X gid = 0.
  Proof. reflexivity. Qed.

  (* Operator(data = x) = create *)
  Lemma new_sim ps s i x : Rep ps s ->
    exists ps', py_new G X gid gmul act ps i x = Some ps' /\ Rep ps' (create G X s i x) /\
                cbo G X ps' = cbo G X ps /\ inctx G X ps' = inctx G X ps.
  Proof.
    intros R. unfold py_new, py_default_prot. rewrite default_tag_outside. cbv zeta.
    pose proof (alloc_sim ps s i (mkObj 0 false x) R) as R1. set (sa := set_new G X s i (mkObj 0 false x)) in *.
    set (pa := p_alloc G X ps i (mkObj 0 false x)) in *.
    assert (heap sa i = Some (mkObj 0 false x)) as Ha by (unfold sa; cbn; now rewrite Nat.eqb_refl).
    assert (depth sa = depth s) as Hd by reflexivity.
    unfold py_tag_new, py_obj_set_basis. rewrite (get_current_basis_sim pa sa R1), Hd. cbv zeta.
    pose proof (pset_tag_sim None pa sa i (depth s) R1) as R2. rewrite Ha in R2. cbn [C04.prot C04.dat] in R2.
    set (sb := set_obj G X sa i (mkObj (depth s) false x)) in *. set (pb := pset_tag G X pa i (depth s)) in *.
    assert (heap sb i = Some (mkObj (depth s) false x)) as Hb by (unfold sb; cbn; now rewrite Nat.eqb_refl).
    assert (cbo G X pb = cbo G X ps /\ inctx G X pb = inctx G X ps) as [Fc Fi].
    { unfold pb, pset_tag. rewrite (R_heap _ pa sa R1), Ha. split; reflexivity. }
    assert (exists pc sc, (if negb (depth s =? 0) then py_register G X pb (depth s) i else pb) = pc /\ Rep pc sc /\
              sc = (if depth s =? 0 then sb else register G X sb (depth s) i) /\ cbo G X pc = cbo G X ps /\ inctx G X pc = inctx G X ps) as [pc [sc [Ec [R3 [Esc [Fc3 Fi3]]]]]].
    { destruct (Nat.eqb_spec (depth s) 0) as [E|N]; cbn [negb].
      - exists pb, sb. auto.
      - eexists. eexists. split; [reflexivity|]. split; [apply register_sim; [exact R2| |discriminate]|split; [reflexivity|split; assumption]].
        change (depth sb) with (depth s). lia. }
    rewrite Ec.
    assert (heap sc i = Some (mkObj (depth s) false x)) as Hc by (rewrite Esc; destruct (depth s =? 0); exact Hb).
    assert (depth sc = depth s) as Hdc by (rewrite Esc; destruct (depth s =? 0); reflexivity).
    pose proof (setter_sim pc sc i _ x R3 Hc) as H.
    unfold write in H. rewrite (to_current_same sc i _ Hc (eq_sym Hdc)), Hc in H. destruct H as [pd [H1 [H2 [H3 H4]]]].
    exists pd. split; [exact H1|]. split; [|split; congruence].
    eapply Rep_heap_ext; [exact H2| | |].
    - rewrite Esc. unfold create. destruct (depth s =? 0); reflexivity.
    - rewrite Esc. unfold create. destruct (depth s =? 0); reflexivity.
    - intros j. rewrite Esc. unfold create, sb, sa. cbn [C04.tag C04.prot]. destruct (depth s =? 0); cbn; destruct (Nat.eqb j i); reflexivity.
  Qed.

  Lemma to_current_keeps_obj s i s' j o : to_current G X gid gmul act s i = Some s' -> heap s j = Some o -> exists o', heap s' j = Some o'.
  Proof.
    unfold to_current. destruct (heap s i) as [oi|]; [|intros [= <-] H; eauto].
    destruct (prot oi); [intros [= <-] H; eauto|]. destruct (tag oi =? depth s); [intros [= <-] H; eauto|].
    destruct (tag oi <=? depth s); [|discriminate]. intros [= <-] H. cbn. destruct (Nat.eqb j i); eauto.
  Qed.

  (* eigenbasis_of.__enter__ = enter_prepare, then enter with the diagonaliser of the operator *)
  Lemma enter_sim eigh ps s opi oo o : Rep ps s -> heap s opi = Some o ->
    match enter_prepare G X gid gmul act s opi with
    | Some s0 => exists ps', py_enter G X gid gmul act eigh ps opi oo = Some ps' /\
                             Rep ps' (enter G X s0 (match heap s0 opi with Some o' => eigh (dat o') | None => gid end)) /\
                             cbo G X ps' = cbo G X ps /\ inctx G X ps' = true
    | None => py_enter G X gid gmul act eigh ps opi oo = None
    end.
  Proof.
    intros R Ho. unfold enter_prepare, py_enter, py_obj_get_basis, py_get_diag. cbv zeta.
    pose proof (Rep_set_inctx None ps s true R) as Ra. set (pa := set_inctx G X ps true) in *.
    rewrite (get_current_basis_sim pa s Ra), (ptag_sim pa s opi Ra), Ho.
    assert (forall pb sb, Rep pb sb -> cbo G X pb = cbo G X ps -> inctx G X pb = true ->
              exists ps', (let '(ps0, _) := py_set_new_basis G X pb (pdiag G X gid eigh pb opi) in Some ps0) = Some ps' /\
                Rep ps' (enter G X sb (match heap sb opi with Some o' => eigh (dat o') | None => gid end)) /\
                cbo G X ps' = cbo G X ps /\ inctx G X ps' = true) as Hfin.
    { intros pb sb Rb Hc Hi. pose proof (set_new_basis_sim pb sb (pdiag G X gid eigh pb opi) Rb) as H.
      unfold pdiag in *. rewrite (R_heap _ pb sb Rb) in *.
      destruct (py_set_new_basis G X pb (match heap sb opi with Some o' => eigh (dat o') | None => gid end)) as [p1 n1] eqn:E.
      exists p1. split; [reflexivity|]. split; [exact H|]. unfold py_set_new_basis in E. injection E as E _. subst p1. cbn. auto. }
    destruct (Nat.eqb_spec (depth s) (tag o)) as [E|N]; cbn [negb].
    - rewrite (to_current_same s opi o Ho (eq_sym E)). apply Hfin; [exact Ra|reflexivity|reflexivity].
    - pose proof (to_current_sim pa s opi o Ra Ho) as H. destruct (to_current G X gid gmul act s opi) as [s0|].
      + destruct H as [pb [H1 [H2 [H3 H4]]]]. rewrite H1. cbn [obind]. apply Hfin; [exact H2|rewrite H3; reflexivity|rewrite H4; reflexivity].
      + rewrite H. reflexivity.
  Qed.

  (* ---------- eigenbasis_of.__exit__ = leave ---------- *)
  Definition exit_body1 (T : G) (nb : nat) : pst -> nat -> pst := fun ps v_op =>
    (if (negb (pprot G X ps v_op))
     then let ps := ptransform2 G X act2 ps v_op (ginv T) T in
    let ps := py_obj_set_basis G X ps v_op nb in
    (if (negb (existsb (Nat.eqb v_op) (dget (regd G X ps) nb)))
     then let ps := py_register G X ps nb v_op in
    ps
     else ps)
     else let ps := py_obj_set_basis G X ps v_op nb in
    (if (negb (existsb (Nat.eqb v_op) (dget (regd G X ps) nb)))
     then let ps := py_register G X ps nb v_op in
    ps
     else ps)).
  Definition exit_body2 (T : G) (nb : nat) : pst -> nat -> pst := fun ps v_op =>
    (if (negb (pprot G X ps v_op))
     then let ps := ptransform2 G X act2 ps v_op (ginv T) T in
    let ps := py_obj_set_basis G X ps v_op nb in
    ps
     else let ps := py_obj_set_basis G X ps v_op nb in
    ps).
  Definition exit_tail (ps : pst) (bb : nat) (oo : option nat) : pst :=
    let ps := py_store_cbo G X ps oo in
    let ps := set_regd G X ps (ddel (regd G X ps) bb) in
    (if ((length (stack G X ps)) =? 1)
     then let ps := set_inctx G X ps false in
    ps
     else ps).
  Definition py_exit' (ps : pst) (oo : option nat) : pst :=
    let bb := last (stack G X ps) 0 in
    let T := last (transf G X ps) gid in
    let ps0 := set_transf G X (set_stack G X ps (removelast (stack G X ps))) (removelast (transf G X ps)) in
    let nb := nth (length (stack G X ps0) - 1) (stack G X ps0) 0 in
    if negb (nb =? 0) then exit_tail (fold_left (exit_body1 T nb) (dget (regd G X ps0) bb) ps0) bb oo
    else exit_tail (fold_left (exit_body2 T nb) (dget (regd G X ps0) bb) ps0) bb oo.
  Lemma py_exit_unfold ps op oo : py_exit G X gid ginv act2 ps op oo = py_exit' ps oo.
  Proof. reflexivity. Qed.

  Lemma ginv_ginv a : ginv (ginv a) = a.
  Proof. rewrite <- (gid_l (ginv (ginv a))), <- (ginv_r a), <- gmul_assoc, ginv_r, gid_r. reflexivity. Qed.

  Lemma exit_body_sim ex T nb ps u i o : RepX ex ps u -> heap u i = Some o -> depth u = nb ->
    (forall bb l0, ex = Some (bb, l0) -> bb <> nb) ->
    let ps' := (if nb =? 0 then exit_body2 T nb ps i else exit_body1 T nb ps i) in
    RepX ex ps' (exit_one G X ginv act T nb u i) /\ cbo G X ps' = cbo G X ps /\ inctx G X ps' = inctx G X ps /\ stack G X ps' = stack G X ps.
  Proof.
    intros R Ho Hd Hex. cbv zeta.
    set (o' := mkObj nb (prot o) (if prot o then dat o else act (ginv T) (dat o))).
    (* the heap part of both bodies *)
    assert (exists pb, (if negb (pprot G X ps i) then py_obj_set_basis G X (ptransform2 G X act2 ps i (ginv T) T) i nb else py_obj_set_basis G X ps i nb) = pb /\
              RepX ex pb (set_obj G X u i o') /\ cbo G X pb = cbo G X ps /\ inctx G X pb = inctx G X ps /\ stack G X pb = stack G X ps)
      as [pb [Eb [Rb [Fc [Fi Fs]]]]].
    { rewrite (pprot_sim' ex ps u i R), Ho. unfold py_obj_set_basis, ptransform2, pset_tag. rewrite (R_heap _ ps u R), Ho.
      destruct (prot o) eqn:Hp; cbn [negb].
      - eexists. split; [reflexivity|]. split; [|repeat split; reflexivity]. unfold o'. rewrite ?Hp. apply Rep_upd. exact R.
      - cbn [pheap pupd]. rewrite Nat.eqb_refl. cbn [C04.tag C04.prot C04.dat]. eexists. split; [reflexivity|]. split; [|repeat split; reflexivity].
        eapply Rep_heap_ext with (s := set_obj G X (set_obj G X u i (mkObj (tag o) false (act2 (ginv T) T (dat o)))) i
                                         (mkObj nb false (act2 (ginv T) T (dat o)))).
        + apply Rep_upd. apply Rep_upd. exact R.
        + reflexivity.
        + reflexivity.
        + intros j. cbn. unfold o'. rewrite ?Hp. rewrite (act2_inv (ginv T) T (dat o) (ginv_l T)). destruct (Nat.eqb j i); reflexivity. }
    unfold exit_one. rewrite Ho. fold o'. cbv zeta.
    destruct (Nat.eqb_spec nb 0) as [E0|N0].
    - unfold exit_body2. cbv zeta.
      assert ((if negb (pprot G X ps i) then py_obj_set_basis G X (ptransform2 G X act2 ps i (ginv T) T) i nb else py_obj_set_basis G X ps i nb) = pb) as Eb' by exact Eb.
      destruct (negb (pprot G X ps i)); rewrite Eb'; auto.
    - unfold exit_body1. cbv zeta.
      assert (dget (regd G X pb) nb = reg_at (reg (set_obj G X u i o')) nb) as Hg.
      { unfold dget. rewrite (R_regd _ pb _ Rb). unfold regdX. destruct ex as [[bb l0]|].
        - specialize (Hex bb l0 eq_refl). destruct (Nat.eqb_spec nb bb); [congruence|]. unfold regd_of.
          change (depth (set_obj G X u i o')) with (depth u). rewrite Hd.
          replace ((1 <=? nb) && (nb <=? nb)) with true; [reflexivity|]. symmetry. apply andb_true_intro. split; apply Nat.leb_le; lia.
        - unfold regd_of. change (depth (set_obj G X u i o')) with (depth u). rewrite Hd.
          replace ((1 <=? nb) && (nb <=? nb)) with true; [reflexivity|]. symmetry. apply andb_true_intro. split; apply Nat.leb_le; lia. }
      assert ((if negb (existsb (Nat.eqb i) (dget (regd G X pb) nb)) then py_register G X pb nb i else pb) =
              (if negb (existsb (Nat.eqb i) (reg_at (reg (set_obj G X u i o')) nb)) then py_register G X pb nb i else pb)) as Hr by now rewrite Hg.
      assert (RepX ex (if negb (existsb (Nat.eqb i) (reg_at (reg (set_obj G X u i o')) nb)) then py_register G X pb nb i else pb)
                (if existsb (Nat.eqb i) (reg_at (reg (set_obj G X u i o')) nb) then set_obj G X u i o' else register G X (set_obj G X u i o') nb i)) as Rc.
      { destruct (existsb (Nat.eqb i) (reg_at (reg (set_obj G X u i o')) nb)); cbn [negb]; [exact Rb|].
        apply register_sim; [exact Rb| |exact Hex]. change (depth (set_obj G X u i o')) with (depth u). lia. }
      assert (forall b : bool, cbo G X (if b then py_register G X pb nb i else pb) = cbo G X ps /\ inctx G X (if b then py_register G X pb nb i else pb) = inctx G X ps /\
                               stack G X (if b then py_register G X pb nb i else pb) = stack G X ps) as Hfr.
      { intros b. destruct b; cbn; auto. }
      destruct (negb (pprot G X ps i)); rewrite Eb, Hr; (split; [exact Rc|apply Hfr]).
  Qed.

  Lemma exit_one_frame T nb u i : depth (exit_one G X ginv act T nb u i) = depth u /\
    (forall j o, heap u j = Some o -> exists o', heap (exit_one G X ginv act T nb u i) j = Some o').
  Proof.
    unfold exit_one. destruct (heap u i) as [oi|] eqn:Hi; [|split; [reflexivity|eauto]]. cbv zeta.
    set (u1 := set_obj G X u i _).
    assert (forall j o, heap u j = Some o -> exists o', heap u1 j = Some o') as H1.
    { intros j o H. unfold u1. cbn. destruct (Nat.eqb j i); eauto. }
    destruct (nb =? 0); [split; [reflexivity|exact H1]|].
    destruct (existsb (Nat.eqb i) (reg_at (reg u1) nb)); split; try reflexivity; exact H1.
  Qed.

  Lemma exit_fold ex T nb : forall l ps u, RepX ex ps u -> depth u = nb -> (forall bb l0, ex = Some (bb, l0) -> bb <> nb) ->
    (forall i, In i l -> exists o, heap u i = Some o) ->
    let pf := fold_left (if nb =? 0 then exit_body2 T nb else exit_body1 T nb) l ps in
    RepX ex pf (fold_left (exit_one G X ginv act T nb) l u) /\ cbo G X pf = cbo G X ps /\ inctx G X pf = inctx G X ps /\
    stack G X pf = stack G X ps.
  Proof.
    induction l as [|i l IH]; intros ps u R Hd Hex Hl; cbn [fold_left]; [auto|].
    destruct (Hl i (or_introl eq_refl)) as [o Ho].
    pose proof (exit_body_sim ex T nb ps u i o R Ho Hd Hex) as H. cbv zeta in H. destruct H as [R1 [F1 [F2 F3]]].
    destruct (exit_one_frame T nb u i) as [Hd1 Hk1].
    assert (forall j, In j l -> exists o0, heap (exit_one G X ginv act T nb u i) j = Some o0) as Hl1.
    { intros j Hj. destruct (Hl j (or_intror Hj)) as [oj Hoj]. exact (Hk1 j oj Hoj). }
    assert ((if nb =? 0 then exit_body2 T nb else exit_body1 T nb) ps i = (if nb =? 0 then exit_body2 T nb ps i else exit_body1 T nb ps i)) as E
      by (destruct (nb =? 0); reflexivity).
    rewrite E. specialize (IH _ _ R1 (eq_trans Hd1 Hd) Hex Hl1). cbv zeta in IH. destruct IH as [R2 [G1 [G2 G3]]].
    split; [exact R2|]. split; [congruence|]. split; congruence.
  Qed.

  Lemma andb_le_true a b c : a <= b -> b <= c -> (a <=? b) && (b <=? c) = true.
  Proof. intros. apply andb_true_intro. split; apply Nat.leb_le; assumption. Qed.

  Lemma exit_sim ps s T ts l rs op oo : Rep ps s -> Flag ps s -> trans s = T :: ts -> reg s = l :: rs ->
    (forall i, In i l -> exists o, heap s i = Some o) ->
    let ps' := py_exit G X gid ginv act2 ps op oo in
    Rep ps' (leave G X ginv act s) /\ Flag ps' (leave G X ginv act s) /\ cbo G X ps' = oo.
  Proof.
    intros R F Ht Hr Hl. cbv zeta. rewrite py_exit_unfold. unfold py_exit'.
    pose proof (R_len _ ps s R) as Hlen. rewrite Ht, Hr in Hlen. cbn [length] in Hlen. injection Hlen as Hlen.
    pose proof (R_stack _ ps s R) as Hs. pose proof (R_transf _ ps s R) as Htr. unfold C04.depth in Hs. rewrite Ht in Hs, Htr. cbn [length] in Hs.
    rewrite (seq_S (S (length ts))) in Hs. cbn [Nat.add] in Hs. cbn [rev] in Htr. rewrite app_comm_cons in Htr.
    rewrite Hs, Htr, !last_last, !removelast_last. cbn [stack transf set_stack set_transf]. rewrite seq_length.
    replace (S (length ts) - 1) with (length ts) by lia. rewrite seq_nth by lia. cbn [Nat.add].
    set (ps0 := set_transf G X (set_stack G X ps (seq 0 (S (length ts)))) (gid :: rev ts)).
    set (u0 := mkM G X ts rs (heap s)).
    assert (leave G X ginv act s = fold_left (exit_one G X ginv act T (length ts)) l u0) as El by (unfold leave; rewrite Ht, Hr; reflexivity).
    assert (RepX (Some (S (length ts), l)) ps0 u0) as R0.
    { constructor; try reflexivity.
      - intros k. change (regd G X ps0 k) with (regd G X ps k). rewrite (R_regd _ ps s R). unfold regdX, regd_of, u0, C04.depth. rewrite Ht, Hr.
        cbn [C04.trans C04.reg length]. rewrite reg_at_cons, Hlen.
        destruct (Nat.eqb_spec k (S (length ts))) as [E|N].
        + rewrite E, Nat.eqb_refl, andb_le_true by lia. reflexivity.
        + destruct (Nat.eqb_spec (S (length ts)) k); [lia|].
          destruct (Nat.leb_spec 1 k); cbn [andb]; [|reflexivity].
          destruct (Nat.leb_spec k (length ts)); destruct (Nat.leb_spec k (S (length ts))); try reflexivity; lia.
      - intros j. apply R.
      - exact Hlen. }
    assert (dget (regd G X ps0) (S (length ts)) = l) as Hops.
    { unfold dget. rewrite (R_regd _ ps0 u0 R0). cbn [regdX]. now rewrite Nat.eqb_refl. }
    rewrite Hops.
    pose proof (exit_fold (Some (S (length ts), l)) T (length ts) l ps0 u0 R0 eq_refl) as Hf.
    assert (forall bb l0, Some (S (length ts), l) = Some (bb, l0) -> bb <> length ts) as Hex by (intros bb l0 [= <- _]; lia).
    specialize (Hf Hex Hl). cbv zeta in Hf. rewrite <- El in Hf.
    assert (forall pf, RepX (Some (S (length ts), l)) pf (leave G X ginv act s) -> inctx G X pf = inctx G X ps0 -> stack G X pf = stack G X ps0 ->
              Rep (exit_tail pf (S (length ts)) oo) (leave G X ginv act s) /\ Flag (exit_tail pf (S (length ts)) oo) (leave G X ginv act s) /\
              cbo G X (exit_tail pf (S (length ts)) oo) = oo) as Htail.
    { intros pf Rf Fi Fs.
      assert (depth (leave G X ginv act s) = length ts) as Hdl.
      { pose proof (R_stack _ pf _ Rf) as H. rewrite Fs in H. change (stack G X ps0) with (seq 0 (S (length ts))) in H. apply (f_equal (@length nat)) in H. rewrite !seq_length in H. lia. }
      unfold exit_tail, py_store_cbo. cbv zeta. cbn [stack set_regd set_cbo]. rewrite Fs. cbn [stack ps0 set_transf set_stack]. rewrite seq_length.
      assert (Rep (set_regd G X (set_cbo G X pf oo) (ddel (regd G X (set_cbo G X pf oo)) (S (length ts)))) (leave G X ginv act s)) as Rt.
      { constructor; cbn [stack transf regd pheap set_regd set_cbo]; try apply Rf.
        intros k. unfold ddel. rewrite (R_regd _ pf _ Rf). cbn [regdX].
        destruct (Nat.eqb_spec k (S (length ts))) as [E|N]; [|reflexivity].
        unfold regd_of. rewrite Hdl, E. destruct (Nat.leb_spec (S (length ts)) (length ts)); [lia|]. now rewrite andb_false_r. }
      unfold Flag. rewrite Hdl.
      destruct (Nat.eqb_spec (S (length ts)) 1) as [E1|N1].
      - split; [constructor; cbn; apply Rt|]. split; [|reflexivity]. cbn. replace (length ts) with 0 by lia. reflexivity.
      - split; [exact Rt|]. split; [|reflexivity]. cbn [inctx set_regd set_cbo]. rewrite Fi. change (inctx G X ps0) with (inctx G X ps).
        unfold Flag in F. rewrite F. unfold C04.depth. rewrite Ht. cbn [length]. destruct (Nat.eqb_spec (length ts) 0); [lia|reflexivity]. }
    destruct Hf as [Rf [_ [Fi Fs]]].
    destruct (Nat.eqb_spec (length ts) 0) as [E0|N0]; cbn [negb]; apply Htail; assumption.
  Qed.

  (* ---------- whole programs ---------- *)
  Definition py_steps : steps G X :=
    mkSteps G X (py_new G X gid gmul act) (py_getter G X gid gmul act) (py_setter G X gid gmul act) (py_protect G X) (py_unprotect G X)
            (py_apply G X gid gmul act app) (py_ctx_init G X) (py_enter G X gid gmul act) (py_exit G X gid ginv act2).

  Notation exec := (exec G X gid gmul ginv act app).
  Notation Hgrp := (gmul_assoc) (only parsing).

  Lemma to_current_total s i o : Inv s -> heap s i = Some o -> exists s', to_current G X gid gmul act s i = Some s'.
  Proof.
    intros HI Ho. unfold to_current. rewrite Ho. destruct (prot o); [eauto|]. destruct (tag o =? depth s); [eauto|].
    pose proof (I_tag G X s HI i o Ho) as Hle. destruct (Nat.leb_spec (tag o) (depth s)); [eauto|lia].
  Qed.

  Theorem mexec_sim p : forall ps s, repaired G X p = true -> Inv s -> Rep ps s -> Flag ps s ->
    let '(ps', r', o') := mexec G X py_steps p ps in
    let '(s', r, o) := exec p s in
    Rep ps' s' /\ Flag ps' s' /\ cbo G X ps' = cbo G X ps /\ r' = r /\ o' = o.
  Proof.
    induction p as [|a IHa b IHb|i x|i|i x|i b|v sup src dst|opi T body IH| |body IH]; intros ps s Hrep HI R F;
      cbn [mexec C04.exec repaired s_new s_read s_write s_protect s_unprotect s_apply s_ctx_init s_enter s_exit py_steps] in *.
    - auto.
    - (* seq *)
      apply andb_prop in Hrep. destruct Hrep as [Ra Rb]. specialize (IHa ps s Ra HI R F).
      pose proof (exec_spec G X gid gmul ginv act app gmul_assoc gid_l gid_r ginv_r ginv_l act_id act_mul a s Ra HI) as Ha.
      destruct (mexec G X py_steps a ps) as [[p1 r1'] o1']. destruct (exec a s) as [[s1 r1] o1].
      destruct IHa as [R1 [F1 [C1 [E1 E2]]]]. subst r1' o1'. destruct Ha as [I1 _]. destruct r1; [auto|].
      specialize (IHb p1 s1 Rb I1 R1 F1). destruct (mexec G X py_steps b p1) as [[p2 r2'] o2']. destruct (exec b s1) as [[s2 r2] o2].
      destruct IHb as [R2 [F2 [C2 [E3 E4]]]]. subst. split; [exact R2|]. split; [exact F2|]. split; [congruence|auto].
    - (* new *)
      destruct (new_sim ps s i x R) as [ps' [H1 [H2 [H3 H4]]]]. rewrite H1. split; [exact H2|]. split; [|auto].
      assert (depth (create G X s i x) = depth s) as Hd by (unfold create; cbv zeta; destruct (depth s =? 0); reflexivity).
      unfold Flag in *. rewrite H4, F, Hd. reflexivity.
    - (* read *)
      rewrite (R_heap _ ps s R). destruct (heap s i) as [o|] eqn:Ho; [|auto].
      pose proof (getter_sim ps s i o R Ho) as H. destruct (read G X gid gmul act s i) as [[s1 v]|] eqn:E.
      + destruct H as [ps' [H1 [H2 [H3 H4]]]]. rewrite H1.
        destruct (read_spec G X gid gmul ginv act gmul_assoc gid_l gid_r ginv_r ginv_l act_id act_mul s i s1 v HI E) as [_ [T1 _]].
        split; [exact H2|]. split; [|auto]. unfold Flag, C04.depth in *. rewrite H4, F, T1. reflexivity.
      + rewrite H. auto.
    - (* write *)
      rewrite (R_heap _ ps s R). destruct (heap s i) as [o|] eqn:Ho; [|auto].
      pose proof (setter_sim ps s i o x R Ho) as H. destruct (write G X gid gmul act s i x) as [s1|] eqn:E.
      + destruct H as [ps' [H1 [H2 [H3 H4]]]]. rewrite H1.
        destruct (write_spec G X gid gmul ginv act gmul_assoc gid_l gid_r ginv_r ginv_l act_id act_mul s i x s1 HI E) as [_ [T1 _]].
        split; [exact H2|]. split; [|auto]. unfold Flag, C04.depth in *. rewrite H4, F, T1. reflexivity.
      + rewrite H. auto.
    - (* protect *)
      rewrite (R_heap _ ps s R). destruct (heap s i) as [o|] eqn:Ho; [|auto].
      assert ((if b then py_protect G X ps i else py_unprotect G X ps i) = pset_prot G X ps i b) as E by (destruct b; reflexivity).
      rewrite E. split; [apply pset_prot_sim; exact R|]. split; [|split; [|auto]].
      + unfold Flag, pset_prot, set_prot in *. rewrite Ho. destruct (pheap G X ps i); exact F.
      + unfold pset_prot. destruct (pheap G X ps i); reflexivity.
    - (* apply *)
      destruct v; [discriminate|]. rewrite !(R_heap _ ps s R).
      destruct (heap s sup) as [osup|] eqn:Hsup; [|auto]. destruct (heap s src) as [o|] eqn:Hsrc; [|auto].
      pose proof (I_tag G X s HI src o Hsrc) as Htag.
      destruct (Inv_new_registered G X gid gmul ginv act s dst o true HI Htag ltac:(discriminate)) as [I1 [T1 [_ [Hd1 Hk1]]]].
      cbv zeta in I1, T1, Hd1, Hk1.
      destruct (copy_sim ps s src dst o R Hsrc Htag) as [R1 [C1 F1]]. cbv zeta in R1.
      set (s1 := if Nat.eqb (tag o) 0 then set_new G X s dst o else register G X (set_new G X s dst o) (tag o) dst) in *.
      unfold py_apply. cbv zeta. set (p1 := py_copy G X ps src dst) in *.
      assert (exists o1, heap s1 sup = Some o1) as [o1 Ho1].
      { destruct (Nat.eq_dec sup dst) as [->|N]; [eauto|]. rewrite (Hk1 sup N). eauto. }
      destruct (to_current_total s1 sup o1 I1 Ho1) as [s2 E2].
      pose proof (getter_sim p1 s1 sup o1 R1 Ho1) as H2. unfold read in *. rewrite E2 in *.
      destruct H2 as [p2 [G2 [R2 [C2 F2]]]]. rewrite G2. cbn [obind].
      destruct (to_current_spec G X gid gmul ginv act gmul_assoc gid_l gid_r ginv_r ginv_l act_id act_mul s1 sup s2 I1 E2) as [I2 [T2 _]].
      destruct (to_current_keeps_obj s1 sup s2 sup o1 E2 Ho1) as [o2 Ho2]. rewrite Ho2. cbn [option_map].
      assert (exists o3, heap s1 src = Some o3) as [o3 Ho3].
      { destruct (Nat.eq_dec src dst) as [->|N]; [eauto|]. rewrite (Hk1 src N). eauto. }
      destruct (to_current_keeps_obj s1 sup s2 src o3 E2 Ho3) as [o4 Ho4].
      destruct (to_current_total s2 src o4 I2 Ho4) as [s3 E3].
      pose proof (getter_sim p2 s2 src o4 R2 Ho4) as H3. unfold read in *. rewrite E3 in *.
      destruct H3 as [p3 [G3 [R3 [C3 F3]]]]. rewrite G3. cbn [obind].
      destruct (to_current_spec G X gid gmul ginv act gmul_assoc gid_l gid_r ginv_r ginv_l act_id act_mul s2 src s3 I2 E3) as [I3 [T3 _]].
      destruct (to_current_keeps_obj s2 src s3 src o4 E3 Ho4) as [o5 Ho5]. rewrite Ho5. cbn [option_map].
      destruct (to_current_keeps_obj s1 sup s2 dst o E2 Hd1) as [o6 Ho6].
      destruct (to_current_keeps_obj s2 src s3 dst o6 E3 Ho6) as [o7 Ho7].
      pose proof (setter_sim p3 s3 dst o7 (app (dat o2) (dat o5)) R3 Ho7) as H4.
      destruct (write G X gid gmul act s3 dst (app (dat o2) (dat o5))) as [s4|] eqn:E4.
      + destruct H4 as [p4 [G4 [R4 [C4 F4]]]]. rewrite G4.
        destruct (write_spec G X gid gmul ginv act gmul_assoc gid_l gid_r ginv_r ginv_l act_id act_mul s3 dst _ s4 I3 E4) as [_ [T4 _]].
        split; [exact R4|]. split; [|split; [congruence|auto]].
        unfold Flag, C04.depth in *. rewrite F4, F3, F2, F1, F, T4, T3, T2, T1. reflexivity.
      + exfalso. unfold write in E4. destruct (to_current_total s3 dst o7 I3 Ho7) as [s4 E5]. rewrite E5 in E4. destruct (heap s4 dst); discriminate.
    - (* with *)
      rewrite (R_heap _ ps s R). destruct (heap s opi) as [o|] eqn:Ho; [|auto].
      unfold py_ctx_init, py_store_cbo. cbv zeta.
      pose proof (Rep_set_cbo None ps s (Some opi) R) as Rc. set (pc := set_cbo G X ps (Some opi)) in *.
      pose proof (enter_sim (fun _ => T) pc s opi (cbo G X ps) o Rc Ho) as He.
      unfold enter_prepare in *. destruct (to_current_total s opi o HI Ho) as [s0 E0]. rewrite E0 in *.
      destruct He as [p1 [G1 [R1 [C1 F1]]]]. rewrite G1.
      destruct (to_current_keeps_obj s opi s0 opi o E0 Ho) as [o0 Ho0]. rewrite Ho0 in R1.
      destruct (to_current_spec G X gid gmul ginv act gmul_assoc gid_l gid_r ginv_r ginv_l act_id act_mul s opi s0 HI E0) as [I0 [T0 _]].
      destruct (enter_spec G X gid gmul ginv act s0 T I0) as [Ie _].
      assert (Flag p1 (enter G X s0 T)) as Fe by (unfold Flag; rewrite F1; reflexivity).
      specialize (IH p1 (enter G X s0 T) Hrep Ie R1 Fe).
      pose proof (exec_spec G X gid gmul ginv act app gmul_assoc gid_l gid_r ginv_r ginv_l act_id act_mul body (enter G X s0 T) Hrep Ie) as Hb.
      destruct (mexec G X py_steps body p1) as [[p2 r'] ob']. destruct (exec body (enter G X s0 T)) as [[s1 r] ob].
      destruct IH as [R2 [F2 [C2 [E1 E2]]]]. destruct Hb as [I1 [T1 _]]. cbn [C04.trans enter] in T1.
      pose proof (I_len G X s1 I1) as Hl1. rewrite T1 in Hl1. destruct (reg s1) as [|l rs] eqn:Er; [discriminate|].
      assert (forall j, In j l -> exists oj, heap s1 j = Some oj) as Hown.
      { intros j Hj. destruct (I_own G X s1 I1 (S (length rs)) j) as [oj [Hoj _]]; [|eauto]. rewrite Er, reg_at_cons, Nat.eqb_refl. exact Hj. }
      destruct (exit_sim p2 s1 T (trans s0) l rs opi (cbo G X ps) R2 F2 T1 Er Hown) as [R3 [F3 C3]].
      split; [exact R3|]. split; [exact F3|]. split; [exact C3|auto].
    - auto.
    - (* try *)
      specialize (IH ps s Hrep HI R F). destruct (mexec G X py_steps body ps) as [[p1 r'] o']. destruct (exec body s) as [[s1 r] o].
      destruct IH as [R1 [F1 [C1 [_ E]]]]. auto.
  Qed.

  (* ---------- the restoration theorem for the Python-level state ---------- *)
  Definition abs_top (ps : pst) : mst := mkM G X [] [] (pheap G X ps).

  Lemma PTop_Rep ps : PTop G X gid ps -> Rep ps (abs_top ps) /\ Flag ps (abs_top ps) /\ Inv (abs_top ps).
  Proof.
    intros [H1 H2 H3 H4 H5]. split; [|split].
    - constructor; cbn; auto. intros k. rewrite H3. unfold regd_of. cbn. destruct k as [|k]; reflexivity.
    - exact H4.
    - constructor; cbn.
      + reflexivity.
      + intros i o H. rewrite (H5 i o H). unfold C04.depth. cbn. lia.
      + intros i o H Ht. rewrite (H5 i o H) in Ht. lia.
      + intros L i [].
      + intros L. constructor.
  Qed.

  Theorem py_top_level_restores p ps : repaired G X p = true -> PTop G X gid ps ->
    let '(ps', r, obs) := mexec G X py_steps p ps in
    PTop G X gid ps' /\ cbo G X ps' = cbo G X ps /\
    (forall j o, ~ In j (writes G X p) -> pheap G X ps j = Some o -> prot o = false ->
       exists o', pheap G X ps' j = Some o' /\ dat o' = dat o /\ tag o' = 0 /\ prot o' = false) /\
    (let '(s', r0, obs0) := exec p (abs_top ps) in r = r0 /\ obs = obs0).
  Proof.
    intros Hrep HT. destruct (PTop_Rep ps HT) as [R [F HI]].
    pose proof (mexec_sim p ps (abs_top ps) Hrep HI R F) as Hs.
    pose proof (top_level_restores G X gid gmul ginv act app gmul_assoc gid_l gid_r ginv_r ginv_l act_id act_mul p (abs_top ps) Hrep HI eq_refl) as Ht.
    destruct (mexec G X py_steps p ps) as [[ps' r] obs]. destruct (exec p (abs_top ps)) as [[s' r0] obs0].
    destruct Hs as [R' [F' [C' [E1 E2]]]]. destruct Ht as [T1 [T2 [T3 T4]]].
    split; [|split; [exact C'|split; [|auto]]].
    - constructor.
      + rewrite (R_stack _ ps' s' R'). unfold C04.depth. rewrite T1. reflexivity.
      + rewrite (R_transf _ ps' s' R'), T1. reflexivity.
      + intros k. rewrite (R_regd _ ps' s' R'). unfold regdX, regd_of, C04.depth. rewrite T1. cbn. destruct k as [|k]; reflexivity.
      + unfold Flag, C04.depth in F'. rewrite T1 in F'. exact F'.
      + intros j o H. rewrite (R_heap _ ps' s' R') in H. exact (T3 j o H).
    - intros j o Hn Ho Hp. destruct (T4 j o Hn Ho Hp) as [o' [H1 H2]]. exists o'. rewrite (R_heap _ ps' s' R'). auto.
  Qed.
End Sim.

(* non-vacuity: the freshly constructed Manager is a state outside every context *)
Lemma PTop_init (G X : Type) (gid : G) : PTop G X gid (py_init G X gid).
Proof. constructor; try reflexivity. intros j o H. discriminate. Qed.

(* ================= the tactic of the generated file: gen_f = py_f =================
   conversion first (unchanged source, renamed locals, re-associated lets).  Otherwise: unfold the pair gen_f / py_f one level,
   rewrite the calls of already tied procedures (rw), decide every condition (so `a == b` / `b == a`, `not c` with swapped
   branches, nested / joined conditions agree), compare the bodies of loops and continuations pointwise, index arithmetic by lia *)
Lemma obind_ext {A B} (o : option A) (f g : A -> option B) : (forall a, f a = g a) -> obind o f = obind o g.
Proof. intros H. destruct o; cbn; [apply H|reflexivity]. Qed.

Ltac nat_facts :=
  repeat match goal with
  | H : Nat.eqb _ _ = true |- _ => apply Nat.eqb_eq in H
  | H : Nat.eqb _ _ = false |- _ => apply Nat.eqb_neq in H
  | H : Nat.leb _ _ = true |- _ => apply Nat.leb_le in H
  | H : Nat.leb _ _ = false |- _ => apply Nat.leb_gt in H
  end.
Ltac nth_norm :=
  repeat match goal with
  | H : context [nth ?a ?l ?d], H' : context [nth ?b ?l ?d] |- _ =>
      tryif constr_eq a b then fail else (replace a with b in * by lia)
  end.
Ltac tie_leaf := first [ reflexivity | (exfalso; nat_facts; first [lia | congruence]) | (exfalso; nat_facts; nth_norm; first [lia | congruence])
                       | (nat_facts; subst; reflexivity) | (repeat f_equal; lia) ].
Ltac split_cond c :=
  lazymatch c with
  | negb ?d => split_cond d
  | andb ?a ?b => first [split_cond a | split_cond b]
  | orb ?a ?b => first [split_cond a | split_cond b]
  | true => fail
  | false => fail
  | _ => let E := fresh "E" in destruct c eqn:E
  end.
Ltac no_inner_if c := lazymatch c with context [if _ then _ else _] => fail | _ => idtac end.
Ltac tie_split1 :=
  repeat (first [ match goal with |- context [if ?c then _ else _] => no_inner_if c; split_cond c end
                | match goal with |- context [match ?v with Some _ => _ | None => _ end] => is_var v; destruct v end ];
          cbn [negb andb orb]).
Ltac tie_split :=
  repeat (first [ match goal with |- context [if ?c then _ else _] => no_inner_if c; split_cond c end
                | match goal with |- context [if ?c then _ else _] => split_cond c end
                | match goal with |- context [match ?v with Some _ => _ | None => _ end] => is_var v; destruct v end ];
          cbn [negb andb orb]).
Ltac tie_pairs :=
  repeat match goal with
  | a : (_ * _)%type |- _ => destruct a
  end.
Ltac tie_go rw :=
  cbv beta iota zeta; rw; tie_split1; rw;
  repeat match goal with
  | |- ?lhs = ?rhs =>
      match lhs with context [fold_left ?f ?l ?a] =>
        match rhs with context [fold_left ?g l a] =>
          tryif constr_eq f g then fail else (rewrite (fold_left_ext f g l a); [|intros; tie_pairs; tie_go rw])
        end
      end
  | |- ?lhs = ?rhs =>
      match lhs with context [for_break ?l ?f ?a] =>
        match rhs with context [for_break l ?g a] =>
          tryif constr_eq f g then fail else (rewrite (for_break_ext l f g a); [|intros; tie_pairs; tie_go rw])
        end
      end
  | |- ?lhs = ?rhs =>
      match lhs with context [obind ?o ?f] =>
        match rhs with context [obind o ?g] =>
          tryif constr_eq f g then fail else (rewrite (obind_ext o f g); [|intros; tie_pairs; tie_go rw])
        end
      end
  end;
  tie_split; tie_leaf.
Ltac tie unf rw := intros; first [ reflexivity | (unf; tie_go rw) ].
