(* Lemmas about ElectronicState.vibmodes as modelled in Model/C10x.v *)
From Coq Require Import List Arith Lia.
From QV Require Import Model.C03 Model.C10x.
Import ListNotations.

Section VibModes.
  Variable SM : Type.
  Variable submode_of : nat -> nat -> nat -> SM.
  Variable nmod : nat -> nat.
  Local Notation vmo := (vibmodes_of SM submode_of nmod).
  Local Notation off := (mode_offset nmod).

  Lemma vibmodes_S N s : vmo (S N) s = vmo N s ++ map (fun a => submode_of N a (nth N s 0)) (seq 0 (nmod N)).
  Proof. unfold vibmodes_of. rewrite seq_S, flat_map_app. cbn [flat_map Nat.add]. now rewrite app_nil_r. Qed.

  Lemma offset_S n : off (S n) = off n + nmod n.
  Proof.
    unfold mode_offset. rewrite seq_S, map_app. cbn [map Nat.add].
    assert (G : forall l x, list_sum (l ++ [x]) = list_sum l + x).
    { induction l as [|y l IH]; intros x; cbn [app list_sum fold_right]; [lia|]. fold (list_sum (l ++ [x])). fold (list_sum l). rewrite IH. lia. }
    apply G.
  Qed.

  Lemma vibmodes_length N s : length (vmo N s) = off N.
  Proof.
    induction N as [|N IH]; [reflexivity|]. rewrite vibmodes_S, app_length, IH, map_length, seq_length, offset_S. reflexivity.
  Qed.

  (* the number of sub-modes does not depend on the electronic state *)
  Lemma vibmodes_length_indep N s s' : length (vmo N s) = length (vmo N s').
  Proof. now rewrite !vibmodes_length. Qed.

  Lemma vibmodes_nth N s d : forall n a, n < N -> a < nmod n -> nth (off n + a) (vmo N s) d = submode_of n a (nth n s 0).
  Proof.
    induction N as [|N IH]; intros n a Hn Ha; [lia|]. rewrite vibmodes_S.
    destruct (Nat.eq_dec n N) as [->|Hne].
    - rewrite app_nth2 by (rewrite vibmodes_length; lia). rewrite vibmodes_length.
      replace (off N + a - off N) with a by lia.
      rewrite (nth_indep _ d ((fun a0 => submode_of N a0 (nth N s 0)) 0)) by (rewrite map_length, seq_length; exact Ha).
      rewrite (map_nth (fun a0 => submode_of N a0 (nth N s 0))), seq_nth by exact Ha. reflexivity.
    - assert (Hlt : n < N) by lia. rewrite app_nth1; [apply IH; assumption|].
      rewrite vibmodes_length.
      assert (G : forall m k, m <= k -> off m <= off k).
      { intros m k Hmk. induction Hmk; [lia|]. rewrite offset_S. lia. }
      pose proof (G (S n) N ltac:(lia)) as H. rewrite offset_S in H. lia.
  Qed.
End VibModes.
