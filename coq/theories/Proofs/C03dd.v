(* Lemmas about the dipole-dipole coupling matrix of Model/C03dd.v *)
From Coq Require Import ZArith List Bool Arith Lia Field.
From QV Require Import Model.C03 Model.C03dd Proofs.C03_relabel.

Section DDMatrix.
  Variable F : Type.
  Variables (f0 f1 : F) (fadd fmul fsub : F -> F -> F) (fopp : F -> F) (fdiv : F -> F -> F) (finv : F -> F).
  Hypothesis Fth : field_theory f0 f1 fadd fmul fsub fopp fdiv finv (@eq F).
  Variables (pos dmom : nat -> nat -> F) (RRf : nat -> nat -> F) (close : nat -> nat -> bool) (pi eps0 : F).
  Local Notation M := (dd_matrix F f0 f1 fadd fmul fsub fdiv pos dmom RRf close pi eps0).

  Lemma dd_matrix_sym J0 epsr a b : a <> b -> M J0 epsr a b = M J0 epsr b a.
  Proof.
    intros Hab. unfold dd_matrix. destruct (Nat.ltb_spec a b), (Nat.ltb_spec b a); try reflexivity; lia.
  Qed.

  Lemma dd_matrix_diag J0 epsr a : M J0 epsr a a = J0 a a.
  Proof. unfold dd_matrix. now rewrite Nat.ltb_irrefl. Qed.

  Lemma dd_matrix_formula J0 epsr a b : a < b -> close a b = false ->
    RRf a b <> f0 -> pi <> f0 -> eps0 <> f0 -> epsr <> f0 -> fadd f1 f1 <> f0 ->
    let dot := fdot3 F fadd fmul in
    let n := fun c => fdiv (fsub (pos a c) (pos b c)) (RRf a b) in
    M J0 epsr a b =
    fdiv (fsub (dot (dmom a) (dmom b)) (fmul (fmul (f3 F f1 fadd) (dot (dmom a) n)) (dot (dmom b) n)))
         (fmul (fmul (fmul (fmul (f4 F f1 fadd) pi) eps0) epsr) (fmul (fmul (RRf a b) (RRf a b)) (RRf a b))).
  Proof.
    intros Hab Hc H1 H2 H3 H4 H5 dot n. unfold dd_matrix, dd_entry, dd_coupling.
    replace (a <? b) with true by (symmetry; apply Nat.ltb_lt; lia). rewrite Hc.
    exact (dd_point_dipole F f0 f1 fadd fmul fsub fopp fdiv finv Fth (pos a) (pos b) (dmom a) (dmom b) (RRf a b) pi eps0 epsr H1 H2 H3 H4 H5).
  Qed.

  Lemma dd_matrix_refused J0 epsr a b : a < b -> close a b = true -> M J0 epsr a b = f0 /\ M J0 epsr b a = f0.
  Proof.
    intros Hab Hc. unfold dd_matrix, dd_entry. replace (a <? b) with true by (symmetry; apply Nat.ltb_lt; lia).
    replace (b <? a) with false by (symmetry; apply Nat.ltb_ge; lia). now rewrite Hc.
  Qed.
End DDMatrix.
