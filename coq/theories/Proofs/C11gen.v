(* Skeletons of quantarhei/spectroscopy/abscalculator.py: the tail of one_transition_spectrum (hfft, shift, reversal, cut),
   the sum over exciton transitions of _calculate_aggregate, bootstrap's frequency axis and the axis re-created for the
   returned spectrum, with the arithmetic content (scale factors, slice bounds, loop bounds, indices) as parameters,
   and the lemmas that turn "the content is the expected one" into equality with the definitions of Model/C11.v.
   The axis lemma is about the code AS IT IS (the Pinned variant: the axis cut from bootstrap's grid of 2 Nt points, a
   known finding), not about a corrected one.  harness/translate_c11.py instantiates the skeletons on every run. *)
From Coq Require Import ZArith List Bool Arith Lia ZifyNat Field Permutation.
From QV Require Import Base.Alg Base.Sums Base.Mat Base.Util Base.Dft Model.C13 Proofs.C13 Model.C11 Proofs.C11 Proofs.C13gen.
Import ListNotations.

Section LineSkel.
  Context {R : StarRing}.
  Add Ring RrGen11 : (rth R).
  Open Scope sr_scope.

  (* ft[Nt//2 : Nt + Nt//2] is the central cut of the model *)
  Lemma slice_is_cut nt a b (l : list R) : a = (nt / 2)%nat -> b = (nt + nt / 2)%nat -> slice_n a b l = cut nt l.
  Proof. intros -> ->. unfold slice_n, cut. f_equal. lia. Qed.

  Variable hfft : list R -> list R.

  (* data = l0; for ii in range(lo, hi): data += line(ii) *)
  Definition sum_skel (l0 : list R) (line : Z -> list R) (lo hi : Z) : list R :=
    fold_left (fun acc ii => ladd acc (line ii)) (zrange lo hi) l0.

  Lemma zrange_S lo k : zrange lo (lo + Z.of_nat (S k)) = lo :: zrange (lo + 1) (lo + 1 + Z.of_nat k).
  Proof.
    unfold zrange. replace (Z.to_nat (lo + Z.of_nat (S k) - lo)) with (S k) by lia.
    replace (Z.to_nat (lo + 1 + Z.of_nat k - (lo + 1))) with k by lia.
    cbn [seq map]. f_equal; [lia|]. rewrite <- seq_shift, map_map. apply map_ext. intros. lia.
  Qed.

  (* with the transitions 1 .. dim-1 in this order the loop is the model's sum of lines *)
  Lemma sum_skel_is_spectrum (dim : nat) (dt : R) (l0 : list R) (line : Z -> list R) (L : nat -> R * list R) lo hi :
    (2 <= dim)%nat -> lo = 2%Z -> hi = Z.of_nat dim ->
    l0 = one_transition hfft (fst (L 1%nat)) dt (snd (L 1%nat)) ->
    (forall a, (2 <= a < dim)%nat -> line (Z.of_nat a) = one_transition hfft (fst (L a)) dt (snd (L a))) ->
    sum_skel l0 line lo hi = spectrum hfft dt (map L (seq 1 (dim - 1))).
  Proof.
    intros Hd -> -> -> Hline. unfold sum_skel.
    destruct dim as [|[|k]]; try lia. replace (S (S k) - 1)%nat with (S k) by lia.
    cbn [seq map spectrum]. destruct (L 1%nat) as [dd a] eqn:EL. cbn [fst snd].
    generalize (one_transition hfft dd dt a) as acc.
    replace (Z.of_nat (S (S k))) with (2 + Z.of_nat k)%Z by lia.
    assert (G : forall k' (s : nat) acc, (2 <= s)%nat -> (s + k' <= S (S k))%nat ->
              fold_left (fun acc ii => ladd acc (line ii)) (zrange (Z.of_nat s) (Z.of_nat s + Z.of_nat k')) acc =
              fold_left (fun acc l => ladd acc (one_transition hfft (fst l) dt (snd l))) (map L (seq s k')) acc).
    { induction k' as [|k' IH]; intros s acc Hs Hb.
      - unfold zrange. replace (Z.to_nat (Z.of_nat s + Z.of_nat 0 - Z.of_nat s)) with 0%nat by lia. reflexivity.
      - rewrite zrange_S. cbn [fold_left seq map]. rewrite (Hline s) by lia.
        replace (Z.of_nat s + 1)%Z with (Z.of_nat (S s)) by lia. apply IH; lia. }
    intros acc. apply (G k 2%nat acc); lia.
  Qed.
End LineSkel.

Section CoftSkel.
  Context {R : StarRing}.
  Add Ring RrGen11c : (rth R).
  Open Scope sr_scope.

  (* ct = init; for kk in range(lo1, hi1): for ll in range(lo2, hi2): ct += term kk ll   (one time point) *)
  Definition loop2_skel (lo1 hi1 lo2 hi2 : Z) (term : Z -> Z -> R) (init : R) : R :=
    fold_left (fun acc kk => fold_left (fun acc ll => acc + term kk ll) (zrange lo2 hi2) acc) (zrange lo1 hi1) init.

  Lemma zrange_nat m : zrange 0 (Z.of_nat m) = map Z.of_nat (seq 0 m).
  Proof. unfold zrange. replace (Z.to_nat (Z.of_nat m - 0)) with m by lia. apply map_ext. intros. lia. Qed.
  Lemma fold_left_map' {A B C} (g : A -> B -> A) (h : C -> B) l a : fold_left g (map h l) a = fold_left (fun a x => g a (h x)) l a.
  Proof. revert a; induction l as [|x l IH]; intros a; cbn [map fold_left]; [reflexivity|apply IH]. Qed.
  Lemma fold_acc_sum m (f : nat -> R) acc : fold_left (fun acc k => acc + f k) (seq 0 m) acc = acc + sum m f.
  Proof.
    induction m as [|m IH]; [cbn [seq fold_left sum]; ring|].
    rewrite seq_S, fold_left_app, IH. cbn [fold_left sum Nat.add]. ring.
  Qed.

  Lemma loop2_skel_is_sum (na : nat) lo1 hi1 lo2 hi2 term (f : nat -> nat -> R) :
    lo1 = 0%Z -> hi1 = Z.of_nat na -> lo2 = 0%Z -> hi2 = Z.of_nat na ->
    (forall kk ll, (kk < na)%nat -> (ll < na)%nat -> term (Z.of_nat kk) (Z.of_nat ll) = f kk ll) ->
    loop2_skel lo1 hi1 lo2 hi2 term 0 = sum na (fun kk => sum na (fun ll => f kk ll)).
  Proof.
    intros -> -> -> -> Hterm. unfold loop2_skel. rewrite !zrange_nat, fold_left_map'.
    transitivity (fold_left (fun acc kk => acc + sum na (fun ll => term (Z.of_nat kk) (Z.of_nat ll))) (seq 0 na) 0).
    { assert (G : forall l acc,
                fold_left (fun a x => fold_left (fun acc ll => acc + term (Z.of_nat x) ll) (map Z.of_nat (seq 0 na)) a) l acc =
                fold_left (fun acc kk => acc + sum na (fun ll => term (Z.of_nat kk) (Z.of_nat ll))) l acc).
      { induction l as [|kk l IH]; intros acc; cbn [fold_left]; [reflexivity|].
        rewrite fold_left_map'. cbv beta. rewrite (fold_acc_sum na (fun ll => term (Z.of_nat kk) (Z.of_nat ll)) acc). apply IH. }
      apply G. }
    rewrite fold_acc_sum. transitivity (sum na (fun kk => sum na (fun ll => term (Z.of_nat kk) (Z.of_nat ll)))); [ring|].
    apply sum_ext. intros kk Hk. apply sum_ext. intros ll Hl. now apply Hterm.
  Qed.

  (* relabelling the molecules (sites, eigenvector rows and the correlation-function matrix permuted together) leaves the
     correlation function of every exciton state unchanged *)
  Lemma exc_coft_relabel (na : nat) sigma (S C S' C' : nat -> nat -> R) n : Permutation sigma (seq 0 na) ->
    (forall k, (k < na)%nat -> S' (k + 1)%nat (n + 1)%nat = S (nth k sigma 0%nat + 1)%nat (n + 1)%nat) ->
    (forall k l, (k < na)%nat -> (l < na)%nat -> C' k l = C (nth k sigma 0%nat) (nth l sigma 0%nat)) ->
    exc_coft na S' C' n = exc_coft na S C n.
  Proof.
    intros Hp HS HC. unfold exc_coft.
    set (w := exc_weight S n). set (g := fun a b => w a * w b * C a b).
    transitivity (sum na (fun kk => sum na (fun ll => g (nth kk sigma 0%nat) (nth ll sigma 0%nat)))).
    { apply sum_ext. intros kk Hk. apply sum_ext. intros ll Hl. unfold g, w, exc_weight.
      rewrite (HS kk Hk), (HS ll Hl), (HC kk ll Hk Hl). reflexivity. }
    rewrite (sum_permuted na sigma (fun a => sum na (fun ll => g a (nth ll sigma 0%nat))) Hp).
    apply sum_ext. intros a _. exact (sum_permuted na sigma (fun b => g a b) Hp).
  Qed.

  (* independent baths (C kk ll = 0 for kk <> ll): the weights become the fourth powers of the eigenvector column
     (exchange narrowing by the participation ratio) *)
  Lemma exc_coft_uncorrelated (na : nat) (S C : nat -> nat -> R) (c : nat -> R) n :
    (forall k l, (k < na)%nat -> (l < na)%nat -> C k l = c k * delta k l) ->
    exc_coft na S C n = sum na (fun k => exc_weight S n k * exc_weight S n k * c k).
  Proof.
    intros HC. unfold exc_coft. apply sum_ext. intros k Hk.
    transitivity (sum na (fun l => (exc_weight S n k * exc_weight S n l * c k) * delta k l)).
    { apply sum_ext. intros l Hl. rewrite (HC k l Hk Hl). ring. }
    exact (sum_delta_mid na k (fun l => exc_weight S n k * exc_weight S n l * c k) Hk).
  Qed.
End CoftSkel.

Section AxisSkel11.
  Variable K : Fld.
  Add Field KfGen11 : (fth K).
  Variable tp : K.

  (* a.data += c  on the array of axis values *)
  Definition arr_addc (c : K) (a : @arr K) : @arr K := mkArr (alen a) (fun k => fadd K (aget a k) c).
  Lemma alen_addc c a : alen (arr_addc c a) = alen a. Proof. reflexivity. Qed.
  Lemma aget_addc c a k : aget (arr_addc c a) k = fadd K (aget a k) c. Proof. reflexivity. Qed.

  (* the upper-half time axis of the calculator and bootstrap's frequency axis of 2 Nt points *)
  Lemma boot_axis s nt dt w : (1 <= nt)%nat -> freq_axis_of K tp (mkAxis s nt dt UpperHalf (f0 K)) = Some w ->
    a_len w = (2 * nt)%nat /\
    a_step w = fsub K (fmul K tp (fftfreq_shifted K (2 * nt) dt 1)) (fmul K tp (fftfreq_shifted K (2 * nt) dt 0)) /\
    a_start w = fadd K (fmul K tp (fftfreq_shifted K (2 * nt) dt 0)) (f0 K).
  Proof.
    intros Hn. unfold freq_axis_of. cbn [a_type a_len a_step a_start a_conj].
    destruct (Nat.ltb_spec (2 * nt) 2); [lia|]. intros E. injection E as <-. cbn [a_len a_step a_start]. repeat split.
  Qed.

  (* the axis the spectrum is returned on (code as it is): axis point p of FrequencyAxis(st, Nt, do) is point p of the model's Pinned axis *)
  Lemma returned_axis_is_pinned s nt dt rwa w (st stp : K) (n : nat) p :
    (1 <= nt)%nat -> freq_axis_of K tp (mkAxis s nt dt UpperHalf (f0 K)) = Some w ->
    n = nt -> st = fadd K (point K w (nt / 2)) rwa -> stp = a_step w ->
    returned_axis_point K tp Pinned nt dt rwa p = Some (point K (mkAxis st n stp Complete (f0 K)) p).
  Proof.
    intros Hn Hw -> -> ->. destruct (boot_axis s nt dt w Hn Hw) as (Hl & Hs & Hst).
    unfold returned_axis_point, freq_axis_of. cbn [a_type a_len a_step a_start a_conj].
    destruct (Nat.ltb_spec (2 * nt) 2); [lia|]. cbn [a_len a_step a_start a_conj].
    replace (2 * nt / 2 / 2)%nat with (nt / 2)%nat by lia. f_equal.
    unfold point. cbn [a_start a_step]. rewrite Hs, Hst. ring.
  Qed.
End AxisSkel11.
Arguments arr_addc {K}.
#[export] Hint Rewrite alen_addc aget_addc : arrdb.

(* equality of two transform tails that differ at most in the way the scale factors are written *)
Ltac line_eq := cbv zeta; repeat (apply f_equal); first [reflexivity | scale_eq].

Lemma a_len_mk K (s : fcar K) n d ty c : a_len (mkAxis s n d ty c) = n. Proof. reflexivity. Qed.

(* goal: exists ax, <re-creation of the axis from bootstrap's shifted data> = Some ax /\ a_len ax = nt /\ pinned point p = point p of ax *)
Ltac axis11_tie K tp s nt dt rwa w Hn Hw :=
  let Hl := fresh "Hl" in let Hs := fresh "Hs" in let Hst := fresh "Hst" in
  destruct (boot_axis K tp s nt dt w Hn Hw) as (Hl & Hs & Hst);
  cbv zeta; arr_access; unfold oadd, osub, omul, odiv, olift2, obind;
  eexists; split; [reflexivity|]; split;
  [ rewrite a_len_mk; autorewrite with arrdb; rewrite Hl; lia
  | apply (returned_axis_is_pinned K tp s nt dt rwa w); try assumption;
    [ autorewrite with arrdb; rewrite Hl; lia
    | autorewrite with arrdb; rewrite ?Hl; first [reflexivity | (f_equal; f_equal; lia) | (unfold point; cbn [ofnat]; ring)]
    | autorewrite with arrdb; unfold point; cbn [ofnat]; ring ] ].

(* ---- the basis discipline of _calculate_aggregate: which of the shared operators (Hamiltonian, dipole operator, supplied
   tensor) is transformed with which matrix, in source order; the third component says whether the call is guarded by
   `relaxation_tensor is not None`.  X.transform(M) presents X in the basis given by the columns of M: inv(M) X M (for the
   three components of the dipole operator alike; the tensor's transformation is the same conjugation with the
   super-operator M (x) M acting on Liouville space, for which the same algebra holds); SS = HH.diagonalize() is this map
   with M = SS, the eigenvector matrix it returns. *)
Inductive tobj := OH | OD | OR.
Inductive tmat := MS | MS1.
Definition tobj_eqb (a b : tobj) : bool := match a, b with OH, OH | OD, OD | OR, OR => true | _, _ => false end.

Section BasisSkel.
  Context {R : StarRing}.
  Variable n : nat.
  Variables S S1 : @mat R.

  Definition tapply (m : tmat) (A : @mat R) : @mat R :=
    match m with MS => mmul n S1 (mmul n A S) | MS1 => mmul n S (mmul n A S1) end.
  (* the object o after the calls of the program (with / without a supplied tensor) *)
  Definition trun (with_tensor : bool) (prog : list (tobj * tmat * bool)) (o : tobj) (A : @mat R) : @mat R :=
    fold_left (fun X c => let '(o', m, g) := c in
                          if tobj_eqb o o' && (negb g || with_tensor) then tapply m X else X) prog A.
  Definition purity_prog : list (tobj * tmat * bool) :=
    [(OH, MS, false); (OD, MS, false); (OR, MS, true); (OH, MS1, false); (OD, MS1, false); (OR, MS1, true)].

  Lemma purity_prog_restores wt o A : meq n (mmul n S S1) mid -> meq n (trun wt purity_prog o A) A.
  Proof.
    intros HS. destruct wt, o; cbv [trun purity_prog fold_left tobj_eqb andb negb orb tapply];
      first [now apply transform_back | intros i j _ _; reflexivity].
  Qed.
End BasisSkel.
