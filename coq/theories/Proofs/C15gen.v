(* Lemmas behind the static tie of C15 (harness/translate_c15.py): the fields Model.C15 says a call may leave changed are
   never inputs, hence a write set of the code that is included in them cannot touch an input. *)
From Coq Require Import List Bool Arith.
From QV Require Import Model.C15 Proofs.C15.
Import ListNotations.

Lemma model_changed_not_input : forall s, api s = true -> forallb (fun f => negb (is_input f)) (model_changed s) = true.
Proof.
  intros s H. destruct s as [k|p| | | | | |e|k|w| |p big| | |rp fr|e]; try discriminate H.
  - destruct k; vm_compute; reflexivity.
  - destruct w; try discriminate H; vm_compute; reflexivity.
  - vm_compute; reflexivity.
  - destruct p as [|k| | |]; try destruct k; destruct big; vm_compute; reflexivity.
  - vm_compute; reflexivity.
  - vm_compute; reflexivity.
  - destruct rp, fr; vm_compute; reflexivity.
  - destruct e as [k| |]; try destruct k; vm_compute; reflexivity.
Qed.

Lemma mem_field_In f l : mem_field f l = true -> In f l.
Proof.
  unfold mem_field. rewrite existsb_exists. intros (g & Hg & He). apply field_eqb_eq in He. now subst.
Qed.

(* a code write set accepted by [changed_ok] leaves every input field unchanged *)
Lemma changed_ok_no_input : forall s (code : list (field * list wkind)), api s = true -> changed_ok s code = true ->
  forall f ks, In (f, ks) code -> existsb (may_change f) ks = true -> is_input f = false.
Proof.
  intros s code Hapi Hok f ks Hin Hch. unfold changed_ok in Hok. rewrite forallb_forall in Hok.
  specialize (Hok _ Hin). cbn [fst snd] in Hok. rewrite Hch in Hok. cbn [negb orb] in Hok.
  apply mem_field_In in Hok. pose proof (model_changed_not_input s Hapi) as Hn. rewrite forallb_forall in Hn.
  specialize (Hn _ Hok). now apply negb_true_iff in Hn.
Qed.

(* ... and, by the theorems of Proofs/C15.v, those are the fields every history keeps *)
Lemma api_shapes_are_api : forallb api api_shapes = true.
Proof. vm_compute. reflexivity. Qed.
