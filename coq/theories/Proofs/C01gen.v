(* Statement skeletons of the imperative completion loops around the relaxation tensors
     relaxationtensor.py  RelaxationTensor.updateStructure        (depopulation loop, dephasing loop)
     foerstertensor.py / tdfoerstertensor.py  add_dephasing        (guarded in-place update)
     redfieldfoerster.py  _reference_implementation                (final "add the rates to the Redfield" loop)
   as sequential folds of single-element writes with the arithmetic content (targets, right-hand sides, bounds, guards) as
   parameters, and the lemmas that turn "the content is the expected one" into pointwise equality with the functional
   definitions of Model/C01.v.  harness/translate_c01.py instantiates the parameters from the current source on every run. *)
From Coq Require Import List Bool Arith Lia.
From QV Require Import Base.Alg Base.Sums Base.Mat Base.Tens Model.C01.
Import ListNotations.

Section Skel.
  Context {R : StarRing}.
  Add Ring Rr : (rth R).
  Open Scope sr_scope.
  Variable n : nat.

  Definition idx4 := (nat * nat * nat * nat)%type.
  Definition ieqb (p : idx4) (a b c d : nat) : bool :=
    let '(i, j, k, l) := p in Nat.eqb a i && Nat.eqb b j && Nat.eqb c k && Nat.eqb d l.
  Definition tget (T : @tens R) (p : idx4) : R := let '(i, j, k, l) := p in T i j k l.
  (* self.data[i,j,k,l] = v *)
  Definition tsetp (T : @tens R) (p : idx4) (v : R) : @tens R := fun a b c d => if ieqb p a b c d then v else T a b c d.

  Lemma ieqb_spec i j k l a b c d : ieqb (i, j, k, l) a b c d = true <-> (a = i /\ b = j /\ c = k /\ d = l).
  Proof.
    unfold ieqb. rewrite !andb_true_iff, !Nat.eqb_eq. tauto.
  Qed.
  Lemma ieqb_false i j k l a b c d : ieqb (i, j, k, l) a b c d = false <-> ~ (a = i /\ b = j /\ c = k /\ d = l).
  Proof. rewrite <- ieqb_spec. destruct (ieqb _ _ _ _ _); intuition congruence. Qed.

  (* ------------------------------------------------------------------------------------------------------------
     updateStructure, first loop:    for nn in range(dn): data[t1 nn] -= d1(data, nn)                              *)
  Definition depop_skel (dn : nat) (t1 : nat -> idx4) (d1 : @tens R -> nat -> R) (T : @tens R) : @tens R :=
    fold_left (fun U nn => tsetp U (t1 nn) (tget U (t1 nn) - d1 U nn)) (seq 0 dn) T.

  Definition depop_upto (k : nat) (T : @tens R) : @tens R := fun a b c d =>
    if Nat.eqb a b && Nat.eqb c d && Nat.eqb a c && Nat.ltb a k
    then T a a a a - (sum n (fun i => T i i a a) - T a a a a) else T a b c d.

  Lemma depop_prefix t1 d1 T :
    (forall nn, t1 nn = (nn, nn, nn, nn)) ->
    (forall U nn, d1 U nn = sum n (fun i => U i i nn nn) - U nn nn nn nn) ->
    forall k a b c d, fold_left (fun U nn => tsetp U (t1 nn) (tget U (t1 nn) - d1 U nn)) (seq 0 k) T a b c d = depop_upto k T a b c d.
  Proof.
    intros Ht Hd k. induction k as [|k IH]; intros a b c d.
    - cbn [seq fold_left]. unfold depop_upto. rewrite Nat.ltb_irrefl || idtac.
      replace (Nat.ltb a 0) with false by (symmetry; apply Nat.ltb_ge; lia). rewrite andb_false_r. reflexivity.
    - rewrite seq_S, fold_left_app. cbn [fold_left Nat.add].
      set (U := fold_left _ (seq 0 k) T) in *.
      rewrite Ht. unfold tsetp, tget. rewrite Hd.
      assert (HU : forall i, U i i k k = T i i k k).
      { intros i. rewrite IH. unfold depop_upto.
        destruct (Nat.eqb_spec i k) as [->|Hne].
        - replace (Nat.ltb k k) with false by (symmetry; apply Nat.ltb_ge; lia). rewrite andb_false_r. reflexivity.
        - rewrite !Nat.eqb_refl. cbn [andb]. reflexivity. }
      destruct (ieqb (k, k, k, k) a b c d) eqn:E.
      + apply ieqb_spec in E. destruct E as (-> & -> & -> & ->).
        unfold depop_upto. rewrite !Nat.eqb_refl. replace (Nat.ltb k (S k)) with true by (symmetry; apply Nat.ltb_lt; lia).
        cbn [andb]. rewrite HU. rewrite (sum_ext n (fun i => U i i k k) (fun i => T i i k k)) by (intros; apply HU). reflexivity.
      + apply ieqb_false in E. rewrite IH. unfold depop_upto.
        destruct (Nat.eqb_spec a b) as [<-|?], (Nat.eqb_spec c d) as [<-|?]; cbn [andb]; try reflexivity.
        destruct (Nat.eqb_spec a c) as [<-|?]; cbn [andb]; try reflexivity.
        destruct (Nat.ltb_spec a k), (Nat.ltb_spec a (S k)); try reflexivity; try lia.
  Qed.

  Lemma depop_skel_is_model dn t1 d1 T :
    dn = n ->
    (forall nn, t1 nn = (nn, nn, nn, nn)) ->
    (forall U nn, d1 U nn = sum n (fun i => U i i nn nn) - U nn nn nn nn) ->
    forall a b c d, (a < n)%nat -> depop_skel dn t1 d1 T a b c d = upd_depop n T a b c d.
  Proof.
    intros -> Ht Hd a b c d Ha. unfold depop_skel. rewrite (depop_prefix t1 d1 T Ht Hd n).
    unfold depop_upto, upd_depop. replace (Nat.ltb a n) with true by (symmetry; apply Nat.ltb_lt; lia).
    rewrite andb_true_r. reflexivity.
  Qed.

  (* ------------------------------------------------------------------------------------------------------------
     updateStructure, second loop:
        for nn in range(en): for mm in range(lo nn, hi): data[t2 nn mm] = r2(data, nn, mm); data[t3 nn mm] = r3(data, nn, mm) *)
  Definition deph_body (t2 t3 : nat -> nat -> idx4) (r2 r3 : @tens R -> nat -> nat -> R) (nn : nat) (U : @tens R) (mm : nat) : @tens R :=
    let U' := tsetp U (t2 nn mm) (r2 U nn mm) in tsetp U' (t3 nn mm) (r3 U' nn mm).
  Definition deph_skel (en : nat) (lo : nat -> nat) (hi : nat) t2 t3 r2 r3 (T : @tens R) : @tens R :=
    fold_left (fun U nn => fold_left (deph_body t2 t3 r2 r3 nn) (seq (lo nn) (hi - lo nn)) U) (seq 0 en) T.

  Variable half : R.
  (* the pairs x < y already written: P x y *)
  Definition deph_done (P : nat -> nat -> bool) (T : @tens R) : @tens R := fun a b c d =>
    if Nat.eqb a c && Nat.eqb b d && negb (Nat.eqb a b) && P (Nat.min a b) (Nat.max a b)
    then half * (T a a a a + T b b b b) else T a b c d.
  Definition done (k j : nat) (x y : nat) : bool :=
    (Nat.ltb x k && Nat.ltb y n) || (Nat.eqb x k && Nat.ltb y (S k + j)).

  Lemma deph_done_diag P T a : deph_done P T a a a a = T a a a a.
  Proof. unfold deph_done. rewrite !Nat.eqb_refl. cbn [andb negb]. reflexivity. Qed.

  Lemma deph_inner t2 t3 r2 r3 T k :
    (forall nn mm, t2 nn mm = (nn, mm, nn, mm)) -> (forall nn mm, t3 nn mm = (mm, nn, mm, nn)) ->
    (forall U nn mm, r2 U nn mm = half * (U nn nn nn nn + U mm mm mm mm)) -> (forall U nn mm, r3 U nn mm = U nn mm nn mm) ->
    forall j U, (forall a b c d, U a b c d = deph_done (done k 0) T a b c d) ->
    forall a b c d, fold_left (deph_body t2 t3 r2 r3 k) (seq (S k) j) U a b c d = deph_done (done k j) T a b c d.
  Proof.
    intros Ht2 Ht3 Hr2 Hr3 j U HU. induction j as [|j IH]; intros a b c d.
    - cbn [seq fold_left]. apply HU.
    - rewrite seq_S, fold_left_app. cbn [fold_left].
      set (V := fold_left (deph_body t2 t3 r2 r3 k) (seq (S k) j) U) in *. set (mm := (S k + j)%nat).
      unfold deph_body. rewrite Ht2, Ht3, Hr3, Hr2.
      assert (Hself : tsetp V (k, mm, k, mm) (half * (V k k k k + V mm mm mm mm)) k mm k mm = half * (T k k k k + T mm mm mm mm)).
      { unfold tsetp. replace (ieqb (k, mm, k, mm) k mm k mm) with true by (symmetry; apply ieqb_spec; tauto).
        rewrite !IH, !deph_done_diag. reflexivity. }
      rewrite Hself. unfold tsetp at 1.
      destruct (ieqb (mm, k, mm, k) a b c d) eqn:E1.
      + apply ieqb_spec in E1. destruct E1 as (-> & -> & -> & ->).
        unfold deph_done, done. rewrite !Nat.eqb_refl.
        replace (Nat.eqb mm k) with false by (symmetry; apply Nat.eqb_neq; unfold mm; lia).
        replace (Nat.min mm k) with k by (unfold mm; lia). replace (Nat.max mm k) with mm by (unfold mm; lia).
        rewrite Nat.eqb_refl. replace (Nat.ltb mm (S k + S j)) with true by (symmetry; apply Nat.ltb_lt; unfold mm; lia).
        cbn [andb negb]. rewrite orb_true_r. ring.
      + apply ieqb_false in E1. unfold tsetp.
        destruct (ieqb (k, mm, k, mm) a b c d) eqn:E2.
        * apply ieqb_spec in E2. destruct E2 as (-> & -> & -> & ->).
          rewrite !IH, !deph_done_diag. unfold deph_done, done. rewrite !Nat.eqb_refl.
          replace (Nat.eqb k mm) with false by (symmetry; apply Nat.eqb_neq; unfold mm; lia).
          replace (Nat.min k mm) with k by (unfold mm; lia). replace (Nat.max k mm) with mm by (unfold mm; lia).
          rewrite Nat.eqb_refl. replace (Nat.ltb mm (S k + S j)) with true by (symmetry; apply Nat.ltb_lt; unfold mm; lia).
          cbn [andb negb]. rewrite orb_true_r. reflexivity.
        * apply ieqb_false in E2. rewrite IH. unfold deph_done.
          destruct (Nat.eqb_spec a c) as [<-|?]; cbn [andb]; try reflexivity.
          destruct (Nat.eqb_spec b d) as [<-|?]; cbn [andb]; try reflexivity.
          destruct (Nat.eqb_spec a b) as [<-|?]; cbn [andb negb]; try reflexivity.
          replace (done k (S j) (Nat.min a b) (Nat.max a b)) with (done k j (Nat.min a b) (Nat.max a b)); [reflexivity|].
          unfold done. f_equal. destruct (Nat.eqb_spec (Nat.min a b) k) as [Hk|?]; cbn [andb]; try reflexivity.
          destruct (Nat.ltb_spec (Nat.max a b) (S k + j)), (Nat.ltb_spec (Nat.max a b) (S k + S j)); try reflexivity; try lia.
  Qed.

  Definition rows_done (k : nat) (x y : nat) : bool := Nat.ltb x k && Nat.ltb y n.

  Lemma deph_done_ext P Q T : (forall x y, (x < y)%nat -> P x y = Q x y) -> forall a b c d, deph_done P T a b c d = deph_done Q T a b c d.
  Proof.
    intros H a b c d. unfold deph_done.
    destruct (Nat.eqb_spec a b) as [<-|Hab]; cbn [negb]; [rewrite !andb_false_r; reflexivity|].
    rewrite H by lia. reflexivity.
  Qed.

  Lemma deph_outer lo hi t2 t3 r2 r3 T :
    hi = n -> (forall nn, lo nn = S nn) ->
    (forall nn mm, t2 nn mm = (nn, mm, nn, mm)) -> (forall nn mm, t3 nn mm = (mm, nn, mm, nn)) ->
    (forall U nn mm, r2 U nn mm = half * (U nn nn nn nn + U mm mm mm mm)) -> (forall U nn mm, r3 U nn mm = U nn mm nn mm) ->
    forall k, (k <= n)%nat -> forall a b c d,
    fold_left (fun U nn => fold_left (deph_body t2 t3 r2 r3 nn) (seq (lo nn) (hi - lo nn)) U) (seq 0 k) T a b c d
    = deph_done (rows_done k) T a b c d.
  Proof.
    intros -> Hlo Ht2 Ht3 Hr2 Hr3 k. induction k as [|k IH]; intros Hk a b c d.
    - cbn [seq fold_left]. unfold deph_done, rows_done. cbn [Nat.ltb Nat.leb andb]. rewrite andb_false_r. reflexivity.
    - rewrite seq_S, fold_left_app. cbn [fold_left Nat.add]. rewrite Hlo.
      rewrite (deph_inner t2 t3 r2 r3 T k Ht2 Ht3 Hr2 Hr3).
      + apply deph_done_ext. intros x y Hxy. unfold done, rows_done.
        destruct (Nat.ltb_spec x k), (Nat.ltb_spec x (S k)), (Nat.eqb_spec x k), (Nat.ltb_spec y n), (Nat.ltb_spec y (S k + (n - S k))); cbn [andb orb]; try reflexivity; lia.
      + intros a' b' c' d'. rewrite IH by lia. apply deph_done_ext. intros x y Hxy. unfold done, rows_done.
        destruct (Nat.ltb_spec x k), (Nat.eqb_spec x k), (Nat.ltb_spec y n), (Nat.ltb_spec y (S k + 0)); cbn [andb orb]; try reflexivity; lia.
  Qed.

  Lemma deph_skel_is_model en lo hi t2 t3 r2 r3 T :
    en = n -> hi = n -> (forall nn, lo nn = S nn) ->
    (forall nn mm, t2 nn mm = (nn, mm, nn, mm)) -> (forall nn mm, t3 nn mm = (mm, nn, mm, nn)) ->
    (forall U nn mm, r2 U nn mm = half * (U nn nn nn nn + U mm mm mm mm)) -> (forall U nn mm, r3 U nn mm = U nn mm nn mm) ->
    forall a b c d, (a < n)%nat -> (b < n)%nat -> deph_skel en lo hi t2 t3 r2 r3 T a b c d = upd_deph half T a b c d.
  Proof.
    intros -> Hhi Hlo Ht2 Ht3 Hr2 Hr3 a b c d Ha Hb. unfold deph_skel.
    rewrite (deph_outer lo hi t2 t3 r2 r3 T Hhi Hlo Ht2 Ht3 Hr2 Hr3 n (le_n n)).
    unfold deph_done, upd_deph, rows_done.
    replace (Nat.ltb (Nat.min a b) n) with true by (symmetry; apply Nat.ltb_lt; lia).
    replace (Nat.ltb (Nat.max a b) n) with true by (symmetry; apply Nat.ltb_lt; lia).
    cbn [andb]. rewrite andb_true_r. reflexivity.
  Qed.

  (* the whole method on one time index *)
  Lemma update_skel_is_model dn t1 d1 en lo hi t2 t3 r2 r3 T :
    dn = n -> (forall nn, t1 nn = (nn, nn, nn, nn)) -> (forall U nn, d1 U nn = sum n (fun i => U i i nn nn) - U nn nn nn nn) ->
    en = n -> hi = n -> (forall nn, lo nn = S nn) ->
    (forall nn mm, t2 nn mm = (nn, mm, nn, mm)) -> (forall nn mm, t3 nn mm = (mm, nn, mm, nn)) ->
    (forall U nn mm, r2 U nn mm = half * (U nn nn nn nn + U mm mm mm mm)) -> (forall U nn mm, r3 U nn mm = U nn mm nn mm) ->
    forall a b c d, (a < n)%nat -> (b < n)%nat ->
    deph_skel en lo hi t2 t3 r2 r3 (depop_skel dn t1 d1 T) a b c d = update_structure n half T a b c d.
  Proof.
    intros Hdn Ht1 Hd1 Hen Hhi Hlo Ht2 Ht3 Hr2 Hr3 a b c d Ha Hb.
    rewrite (deph_skel_is_model en lo hi t2 t3 r2 r3 _ Hen Hhi Hlo Ht2 Ht3 Hr2 Hr3) by assumption.
    unfold update_structure, upd_deph.
    destruct (Nat.eqb a c && Nat.eqb b d && negb (Nat.eqb a b)).
    - rewrite !(depop_skel_is_model dn t1 d1 T Hdn Ht1 Hd1) by assumption. reflexivity.
    - apply (depop_skel_is_model dn t1 d1 T Hdn Ht1 Hd1); assumption.
  Qed.

  (* ------------------------------------------------------------------------------------------------------------
     add_dephasing:   for aa in range(n1): for bb in range(n2): if cond aa bb: data[tgt aa bb] -= delta aa bb       *)
  Definition gw_body (cond : nat -> nat -> bool) (tgt : nat -> nat -> idx4) (delta : nat -> nat -> R) (aa : nat) (U : @tens R) (bb : nat) : @tens R :=
    if cond aa bb then tsetp U (tgt aa bb) (tget U (tgt aa bb) - delta aa bb) else U.
  Definition gw_skel (n1 n2 : nat) cond tgt delta (T : @tens R) : @tens R :=
    fold_left (fun U aa => fold_left (gw_body cond tgt delta aa) (seq 0 n2) U) (seq 0 n1) T.

  Definition gw_done (P : nat -> nat -> bool) (h : nat -> R) (T : @tens R) : @tens R := fun a b c d =>
    if Nat.eqb a c && Nat.eqb b d && negb (Nat.eqb a b) && P a b then T a b c d - (h a + cj R (h b)) else T a b c d.
  Definition gdone (k j : nat) (x y : nat) : bool := (Nat.ltb x k && Nat.ltb y n) || (Nat.eqb x k && Nat.ltb y j).

  Lemma gw_done_ext P Q h T : (forall x y, P x y = Q x y) -> forall a b c d, gw_done P h T a b c d = gw_done Q h T a b c d.
  Proof. intros H a b c d. unfold gw_done. rewrite H. reflexivity. Qed.

  Lemma gw_inner cond tgt delta h T k :
    (forall aa bb, cond aa bb = negb (Nat.eqb aa bb)) -> (forall aa bb, tgt aa bb = (aa, bb, aa, bb)) ->
    (forall aa bb, delta aa bb = h aa + cj R (h bb)) ->
    forall j U, (forall a b c d, U a b c d = gw_done (gdone k 0) h T a b c d) ->
    forall a b c d, fold_left (gw_body cond tgt delta k) (seq 0 j) U a b c d = gw_done (gdone k j) h T a b c d.
  Proof.
    intros Hc Ht Hd j U HU. induction j as [|j IH]; intros a b c d.
    - cbn [seq fold_left]. apply HU.
    - rewrite seq_S, fold_left_app. cbn [fold_left Nat.add].
      set (V := fold_left (gw_body cond tgt delta k) (seq 0 j) U) in *.
      unfold gw_body. rewrite Hc, Ht, Hd.
      assert (Hstep : forall x y, gdone k (S j) x y = gdone k j x y || (Nat.eqb x k && Nat.eqb y j)).
      { intros x y. unfold gdone. destruct (Nat.ltb_spec x k), (Nat.ltb_spec y n), (Nat.eqb_spec x k), (Nat.ltb_spec y j), (Nat.ltb_spec y (S j)), (Nat.eqb_spec y j);
          cbn [andb orb]; try reflexivity; lia. }
      destruct (Nat.eqb_spec k j) as [<-|Hkj]; cbn [negb].
      + rewrite IH. unfold gw_done. rewrite Hstep.
        destruct (Nat.eqb_spec a c) as [<-|?]; cbn [andb]; try reflexivity.
        destruct (Nat.eqb_spec b d) as [<-|?]; cbn [andb]; try reflexivity.
        destruct (Nat.eqb_spec a b) as [<-|?]; cbn [andb negb]; try reflexivity.
        destruct (Nat.eqb_spec a k), (Nat.eqb_spec b k); cbn [andb]; rewrite ?orb_false_r; try reflexivity. lia.
      + unfold tsetp, tget. destruct (ieqb (k, j, k, j) a b c d) eqn:E.
        * apply ieqb_spec in E. destruct E as (-> & -> & -> & ->).
          rewrite IH. unfold gw_done. rewrite !Nat.eqb_refl.
          replace (Nat.eqb k j) with false by (symmetry; apply Nat.eqb_neq; lia).
          unfold gdone. rewrite !Nat.eqb_refl, !Nat.ltb_irrefl.
          replace (Nat.ltb j (S j)) with true by (symmetry; apply Nat.ltb_lt; lia).
          cbn [andb orb negb]. rewrite ?orb_true_r. reflexivity.
        * apply ieqb_false in E. rewrite IH. unfold gw_done. rewrite Hstep.
          destruct (Nat.eqb_spec a c) as [<-|?]; cbn [andb]; try reflexivity.
          destruct (Nat.eqb_spec b d) as [<-|?]; cbn [andb]; try reflexivity.
          destruct (Nat.eqb_spec a k), (Nat.eqb_spec b j); cbn [andb]; rewrite ?orb_false_r; try reflexivity. lia.
  Qed.

  Lemma gw_skel_is_model n1 n2 cond tgt delta h T :
    n1 = n -> n2 = n ->
    (forall aa bb, cond aa bb = negb (Nat.eqb aa bb)) -> (forall aa bb, tgt aa bb = (aa, bb, aa, bb)) ->
    (forall aa bb, delta aa bb = h aa + cj R (h bb)) ->
    forall a b c d, (a < n)%nat -> (b < n)%nat -> gw_skel n1 n2 cond tgt delta T a b c d = add_dephasing DephRepaired h T a b c d.
  Proof.
    intros -> -> Hc Ht Hd a b c d Ha Hb. unfold gw_skel.
    assert (Hpre : forall k, (k <= n)%nat -> forall a b c d,
      fold_left (fun U aa => fold_left (gw_body cond tgt delta aa) (seq 0 n) U) (seq 0 k) T a b c d
      = gw_done (fun x y => Nat.ltb x k && Nat.ltb y n) h T a b c d).
    { intros k. induction k as [|k IH]; intros Hk a' b' c' d'.
      - cbn [seq fold_left]. unfold gw_done. cbn [Nat.ltb Nat.leb andb]. rewrite andb_false_r. reflexivity.
      - rewrite seq_S, fold_left_app. cbn [fold_left Nat.add].
        rewrite (gw_inner cond tgt delta h T k Hc Ht Hd).
        + apply gw_done_ext. intros x y. unfold gdone.
          destruct (Nat.ltb_spec x k), (Nat.ltb_spec x (S k)), (Nat.eqb_spec x k), (Nat.ltb_spec y n); cbn [andb orb]; try reflexivity; lia.
        + intros a2 b2 c2 d2. rewrite IH by lia. apply gw_done_ext. intros x y. unfold gdone.
          replace (Nat.ltb y 0) with false by (symmetry; apply Nat.ltb_ge; lia). rewrite andb_false_r, orb_false_r. reflexivity. }
    rewrite Hpre by lia. unfold gw_done, add_dephasing.
    replace (Nat.ltb a n) with true by (symmetry; apply Nat.ltb_lt; lia).
    replace (Nat.ltb b n) with true by (symmetry; apply Nat.ltb_lt; lia).
    cbn [andb]. rewrite andb_true_r. reflexivity.
  Qed.

  (* ------------------------------------------------------------------------------------------------------------
     RedfieldFoerster:  for b in range(nb): gg = g0; for a in range(na): data[tgt1 a b] += inc1 a b; gg += ginc a b
                                            data[tgt2 b] += fin gg                                                 *)
  Definition rf_inner (tgt1 : nat -> nat -> idx4) (inc1 ginc : nat -> nat -> R) (b : nat) (st : @tens R * R) (a : nat) : @tens R * R :=
    (tsetp (fst st) (tgt1 a b) (tget (fst st) (tgt1 a b) + inc1 a b), snd st + ginc a b).
  Definition rf_skel (nb na : nat) (g0 : R) tgt1 inc1 ginc (tgt2 : nat -> idx4) (fin : R -> R) (T : @tens R) : @tens R :=
    fold_left (fun U b => let st := fold_left (rf_inner tgt1 inc1 ginc b) (seq 0 na) (U, g0) in
                          tsetp (fst st) (tgt2 b) (tget (fst st) (tgt2 b) + fin (snd st))) (seq 0 nb) T.

  Definition rf_part (KF : @mat R) (k j : nat) (T : @tens R) : @tens R := fun a b c d =>
    T a b c d + (if Nat.eqb a b && Nat.eqb c d && ((Nat.ltb c k && Nat.ltb a n) || (Nat.eqb c k && Nat.ltb a j)) then KF a c else 0)
    - (if Nat.eqb a b && Nat.eqb c d && Nat.eqb a c && Nat.ltb c k then colsum n KF c else 0).

  Lemma rf_inner_spec tgt1 inc1 ginc KF T k :
    (forall a b, tgt1 a b = (a, a, b, b)) -> (forall a b, inc1 a b = KF a b) -> (forall a b, ginc a b = KF a b) ->
    forall j (U : @tens R), (forall a b c d, U a b c d = rf_part KF k 0 T a b c d) ->
    let st := fold_left (rf_inner tgt1 inc1 ginc k) (seq 0 j) (U, 0) in
    (forall a b c d, fst st a b c d = rf_part KF k j T a b c d) /\ snd st = sum j (fun a => KF a k).
  Proof.
    intros Ht Hi Hg j U HU. induction j as [|j IH].
    - cbn [seq fold_left fst snd sum]. split; [exact HU|reflexivity].
    - rewrite seq_S, fold_left_app. cbn [fold_left Nat.add].
      set (st := fold_left (rf_inner tgt1 inc1 ginc k) (seq 0 j) (U, 0)) in *. destruct IH as [IH1 IH2].
      unfold rf_inner at 1. cbn [fst snd]. split.
      + intros a b c d. rewrite Ht, Hi. unfold tsetp, tget.
        destruct (ieqb (j, j, k, k) a b c d) eqn:E.
        * apply ieqb_spec in E. destruct E as (-> & -> & -> & ->). rewrite IH1. unfold rf_part. rewrite !Nat.eqb_refl, !Nat.ltb_irrefl.
          replace (Nat.ltb j (S j)) with true by (symmetry; apply Nat.ltb_lt; lia). cbn [andb orb]. ring.
        * apply ieqb_false in E. rewrite IH1. unfold rf_part. f_equal. f_equal.
          destruct (Nat.eqb_spec a b) as [<-|?]; cbn [andb]; try reflexivity.
          destruct (Nat.eqb_spec c d) as [<-|?]; cbn [andb]; try reflexivity.
          destruct (Nat.eqb_spec c k) as [->|?]; cbn [andb]; [|rewrite !orb_false_r; reflexivity].
          destruct (Nat.ltb_spec a j), (Nat.ltb_spec a (S j)); try reflexivity; try lia.
      + unfold rf_inner. cbn [fst snd]. rewrite Hg, IH2. cbn [sum]. ring.
  Qed.

  Lemma rf_skel_is_model nb na g0 tgt1 inc1 ginc tgt2 fin KF T :
    nb = n -> na = n -> g0 = 0 ->
    (forall a b, tgt1 a b = (a, a, b, b)) -> (forall a b, inc1 a b = KF a b) -> (forall a b, ginc a b = KF a b) ->
    (forall b, tgt2 b = (b, b, b, b)) -> (forall g, fin g = - g) ->
    forall a b c d, (a < n)%nat -> (c < n)%nat -> rf_skel nb na g0 tgt1 inc1 ginc tgt2 fin T a b c d = rf_add n KF T a b c d.
  Proof.
    intros -> -> -> Ht1 Hi Hg Ht2 Hf a b c d Ha Hc. unfold rf_skel.
    assert (Hpre : forall k, (k <= n)%nat -> forall a b c d,
      fold_left (fun U b => let st := fold_left (rf_inner tgt1 inc1 ginc b) (seq 0 n) (U, 0) in
                            tsetp (fst st) (tgt2 b) (tget (fst st) (tgt2 b) + fin (snd st))) (seq 0 k) T a b c d
      = rf_part KF k 0 T a b c d).
    { intros k. induction k as [|k IH]; intros Hk a' b' c' d'.
      - cbn [seq fold_left]. unfold rf_part. replace (Nat.ltb c' 0) with false by (symmetry; apply Nat.ltb_ge; lia). replace (Nat.ltb a' 0) with false by (symmetry; apply Nat.ltb_ge; lia). rewrite ?andb_false_r. cbn [andb orb]. rewrite ?andb_false_r. ring.
      - rewrite seq_S, fold_left_app. cbn [fold_left Nat.add].
        match goal with |- context[fold_left ?f (seq 0 k) T] => set (W := fold_left f (seq 0 k) T) in * end.
        assert (HW : forall a b c d, W a b c d = rf_part KF k 0 T a b c d) by (intros; apply IH; lia).
        destruct (rf_inner_spec tgt1 inc1 ginc KF T k Ht1 Hi Hg n W HW) as [H1 H2].
        cbv zeta. rewrite Ht2, Hf, H2. unfold tsetp, tget.
        destruct (ieqb (k, k, k, k) a' b' c' d') eqn:E.
        + apply ieqb_spec in E. destruct E as (-> & -> & -> & ->). rewrite H1. unfold rf_part, colsum.
          rewrite !Nat.eqb_refl, !Nat.ltb_irrefl. replace (Nat.ltb k (S k)) with true by (symmetry; apply Nat.ltb_lt; lia).
          replace (Nat.ltb k n) with true by (symmetry; apply Nat.ltb_lt; lia).
          replace (Nat.ltb k 0) with false by (symmetry; apply Nat.ltb_ge; lia). cbn [andb orb]. ring.
        + apply ieqb_false in E. rewrite H1. unfold rf_part.
          destruct (Nat.eqb_spec a' b') as [<-|?]; cbn [andb]; try reflexivity.
          destruct (Nat.eqb_spec c' d') as [<-|?]; cbn [andb]; try reflexivity.
          replace (Nat.ltb a' 0) with false by (symmetry; apply Nat.ltb_ge; lia). rewrite andb_false_r, orb_false_r.
          f_equal; [f_equal|].
          * destruct (Nat.ltb_spec c' k), (Nat.ltb_spec c' (S k)), (Nat.eqb_spec c' k), (Nat.ltb_spec a' n); cbn [andb orb]; try reflexivity; lia.
          * destruct (Nat.eqb_spec a' c') as [<-|?]; cbn [andb]; try reflexivity.
            destruct (Nat.ltb_spec a' k), (Nat.ltb_spec a' (S k)); try reflexivity; lia. }
    rewrite Hpre by lia. unfold rf_part, rf_add.
    replace (Nat.ltb a n) with true by (symmetry; apply Nat.ltb_lt; lia).
    replace (Nat.ltb c n) with true by (symmetry; apply Nat.ltb_lt; lia).
    replace (Nat.ltb a 0) with false by (symmetry; apply Nat.ltb_ge; lia).
    cbn [andb orb]. rewrite !andb_true_r. reflexivity.
  Qed.

  (* ------------------------------------------------------------------------------------------------------------
     Foerster tensors, initialize():  data = zeros;  for aa: for bb: if cond aa bb: data[tgt aa bb] = val aa bb          *)
  Definition gs_body (cond : nat -> nat -> bool) (tgt : nat -> nat -> idx4) (val : nat -> nat -> R) (aa : nat) (U : @tens R) (bb : nat) : @tens R :=
    if cond aa bb then tsetp U (tgt aa bb) (val aa bb) else U.
  Definition gs_skel (n1 n2 : nat) cond tgt val (T : @tens R) : @tens R :=
    fold_left (fun U aa => fold_left (gs_body cond tgt val aa) (seq 0 n2) U) (seq 0 n1) T.

  Definition gs_done (P : nat -> nat -> bool) (K : @mat R) (T : @tens R) : @tens R := fun a b c d =>
    if Nat.eqb a b && Nat.eqb c d && negb (Nat.eqb a c) && P a c then K a c else T a b c d.

  Lemma gs_done_ext P Q K T : (forall x y, P x y = Q x y) -> forall a b c d, gs_done P K T a b c d = gs_done Q K T a b c d.
  Proof. intros H a b c d. unfold gs_done. rewrite H. reflexivity. Qed.

  Lemma gs_inner cond tgt val K T k :
    (forall aa bb, cond aa bb = negb (Nat.eqb aa bb)) -> (forall aa bb, tgt aa bb = (aa, aa, bb, bb)) ->
    (forall aa bb, val aa bb = K aa bb) ->
    forall j U, (forall a b c d, U a b c d = gs_done (gdone k 0) K T a b c d) ->
    forall a b c d, fold_left (gs_body cond tgt val k) (seq 0 j) U a b c d = gs_done (gdone k j) K T a b c d.
  Proof.
    intros Hc Ht Hv j U HU. induction j as [|j IH]; intros a b c d.
    - cbn [seq fold_left]. apply HU.
    - rewrite seq_S, fold_left_app. cbn [fold_left Nat.add].
      set (V := fold_left (gs_body cond tgt val k) (seq 0 j) U) in *.
      unfold gs_body. rewrite Hc, Ht, Hv.
      assert (Hstep : forall x y, gdone k (S j) x y = gdone k j x y || (Nat.eqb x k && Nat.eqb y j)).
      { intros x y. unfold gdone. destruct (Nat.ltb_spec x k), (Nat.ltb_spec y n), (Nat.eqb_spec x k), (Nat.ltb_spec y j), (Nat.ltb_spec y (S j)), (Nat.eqb_spec y j);
          cbn [andb orb]; try reflexivity; lia. }
      destruct (Nat.eqb_spec k j) as [<-|Hkj]; cbn [negb].
      + rewrite IH. unfold gs_done. rewrite Hstep.
        destruct (Nat.eqb_spec a b) as [<-|?]; cbn [andb]; try reflexivity.
        destruct (Nat.eqb_spec c d) as [<-|?]; cbn [andb]; try reflexivity.
        destruct (Nat.eqb_spec a c) as [<-|?]; cbn [andb negb]; try reflexivity.
        destruct (Nat.eqb_spec a k), (Nat.eqb_spec c k); cbn [andb]; rewrite ?orb_false_r; try reflexivity. lia.
      + unfold tsetp. destruct (ieqb (k, k, j, j) a b c d) eqn:E.
        * apply ieqb_spec in E. destruct E as (-> & -> & -> & ->).
          unfold gs_done. rewrite !Nat.eqb_refl.
          replace (Nat.eqb k j) with false by (symmetry; apply Nat.eqb_neq; lia).
          unfold gdone. rewrite !Nat.eqb_refl.
          replace (Nat.ltb j (S j)) with true by (symmetry; apply Nat.ltb_lt; lia).
          cbn [andb orb negb]. rewrite ?orb_true_r. reflexivity.
        * apply ieqb_false in E. rewrite IH. unfold gs_done. rewrite Hstep.
          destruct (Nat.eqb_spec a b) as [<-|?]; cbn [andb]; try reflexivity.
          destruct (Nat.eqb_spec c d) as [<-|?]; cbn [andb]; try reflexivity.
          destruct (Nat.eqb_spec a k), (Nat.eqb_spec c j); cbn [andb]; rewrite ?orb_false_r; try reflexivity. lia.
  Qed.

  Lemma gs_skel_is_model n1 n2 cond tgt val K :
    n1 = n -> n2 = n ->
    (forall aa bb, cond aa bb = negb (Nat.eqb aa bb)) -> (forall aa bb, tgt aa bb = (aa, aa, bb, bb)) ->
    (forall aa bb, val aa bb = K aa bb) ->
    forall a b c d, (a < n)%nat -> (c < n)%nat -> gs_skel n1 n2 cond tgt val (fun _ _ _ _ => 0) a b c d = rates_to_tensor K a b c d.
  Proof.
    intros -> -> Hc Ht Hv a b c d Ha Hcn. unfold gs_skel.
    assert (Hpre : forall k, (k <= n)%nat -> forall a b c d,
      fold_left (fun U aa => fold_left (gs_body cond tgt val aa) (seq 0 n) U) (seq 0 k) (fun _ _ _ _ => 0) a b c d
      = gs_done (fun x y => Nat.ltb x k && Nat.ltb y n) K (fun _ _ _ _ => 0) a b c d).
    { intros k. induction k as [|k IH]; intros Hk a' b' c' d'.
      - cbn [seq fold_left]. unfold gs_done. cbn [Nat.ltb Nat.leb andb]. rewrite andb_false_r. reflexivity.
      - rewrite seq_S, fold_left_app. cbn [fold_left Nat.add].
        rewrite (gs_inner cond tgt val K (fun _ _ _ _ => 0) k Hc Ht Hv).
        + apply gs_done_ext. intros x y. unfold gdone.
          destruct (Nat.ltb_spec x k), (Nat.ltb_spec x (S k)), (Nat.eqb_spec x k), (Nat.ltb_spec y n); cbn [andb orb]; try reflexivity; lia.
        + intros a2 b2 c2 d2. rewrite IH by lia. apply gs_done_ext. intros x y. unfold gdone.
          replace (Nat.ltb y 0) with false by (symmetry; apply Nat.ltb_ge; lia). rewrite andb_false_r, orb_false_r. reflexivity. }
    rewrite Hpre by lia. unfold gs_done, rates_to_tensor.
    replace (Nat.ltb a n) with true by (symmetry; apply Nat.ltb_lt; lia).
    replace (Nat.ltb c n) with true by (symmetry; apply Nat.ltb_lt; lia).
    cbn [andb]. rewrite andb_true_r. reflexivity.
  Qed.

  (* updateStructure reads and writes elements with indices below the dimension only *)
  Lemma update_structure_ext (T U : @tens R) :
    (forall a b c d, (a < n)%nat -> (b < n)%nat -> (c < n)%nat -> (d < n)%nat -> T a b c d = U a b c d) ->
    forall a b c d, (a < n)%nat -> (b < n)%nat -> (c < n)%nat -> (d < n)%nat ->
    update_structure n half T a b c d = update_structure n half U a b c d.
  Proof.
    intros H a b c d Ha Hb Hc Hd.
    assert (Hdep : forall x y z w, (x < n)%nat -> (y < n)%nat -> (z < n)%nat -> (w < n)%nat -> upd_depop n T x y z w = upd_depop n U x y z w).
    { intros x y z w Hx Hy Hz Hw. unfold upd_depop.
      destruct (Nat.eqb x y && Nat.eqb z w && Nat.eqb x z).
      - rewrite (sum_ext n (fun i => T i i x x) (fun i => U i i x x)) by (intros; apply H; assumption). rewrite H by assumption. reflexivity.
      - apply H; assumption. }
    unfold update_structure, upd_deph.
    destruct (Nat.eqb a c && Nat.eqb b d && negb (Nat.eqb a b)).
    - rewrite !Hdep by assumption. reflexivity.
    - apply Hdep; assumption.
  Qed.

  (* the assembly body depends on Lambda and Lambda^dagger only through their entries *)
  Lemma loopit_m_ext (K Kd L L' Ld Ld' : @mat R) : (forall x y, L x y = L' x y) -> (forall x y, Ld x y = Ld' x y) ->
    forall a b c d, loopit_m n K Kd L Ld a b c d = loopit_m n K Kd L' Ld' a b c d.
  Proof.
    intros HL HD a b c d. unfold loopit_m, mmul. rewrite HL, HD.
    rewrite (sum_ext n (fun k => Kd a k * L k c) (fun k => Kd a k * L' k c)) by (intros; rewrite HL; reflexivity).
    rewrite (sum_ext n (fun k => Ld d k * K k b) (fun k => Ld' d k * K k b)) by (intros; rewrite HD; reflexivity).
    reflexivity.
  Qed.
End Skel.
