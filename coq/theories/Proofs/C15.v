(* Proofs for the effect model of C15: symbolic execution (the run in the free interpretation) is
   sound for every interpretation satisfying the recover law; two finite checks on the symbolic runs
   of the call shapes then give the statements for all histories. *)
From Coq Require Import List Bool Arith Lia.
From QV Require Import Model.C15.
Import ListNotations.

(* ---- decidable equalities ------------------------------------------------------------------- *)
Lemma tk_eqb_eq a b : tk_eqb a b = true -> a = b.
Proof. destruct a, b; cbn; intro H; try reflexivity; discriminate H. Qed.
Lemma tk_eqb_refl a : tk_eqb a a = true.
Proof. destruct a; reflexivity. Qed.
Lemma pk_eqb_eq a b : pk_eqb a b = true -> a = b.
Proof. destruct a, b; cbn; intro H; try reflexivity; try discriminate H. f_equal. now apply tk_eqb_eq. Qed.
Lemma pk_eqb_refl a : pk_eqb a a = true.
Proof. destruct a; cbn; auto using tk_eqb_refl. Qed.
Lemma ek_eqb_eq a b : ek_eqb a b = true -> a = b.
Proof. destruct a, b; cbn; intro H; try reflexivity; try discriminate H. f_equal. now apply tk_eqb_eq. Qed.
Lemma ek_eqb_refl a : ek_eqb a a = true.
Proof. destruct a; cbn; auto using tk_eqb_refl. Qed.

Lemma field_eqb_eq a b : field_eqb a b = true -> a = b.
Proof.
  destruct a, b; cbn; intro H; try reflexivity; try discriminate H; f_equal;
    first [now apply tk_eqb_eq | now apply pk_eqb_eq | now apply ek_eqb_eq].
Qed.
Lemma field_eqb_refl a : field_eqb a a = true.
Proof. destruct a; cbn; auto using tk_eqb_refl, pk_eqb_refl, ek_eqb_refl. Qed.
Lemma field_eqb_neq a b : a <> b -> field_eqb a b = false.
Proof. intro H. destruct (field_eqb a b) eqn:E; [apply field_eqb_eq in E; contradiction | reflexivity]. Qed.

Lemma sym_eqb_eq a b : sym_eqb a b = true -> a = b.
Proof.
  destruct a, b; cbn; intro H; try reflexivity; try discriminate H; f_equal;
    first [now apply tk_eqb_eq | now apply Nat.eqb_eq].
Qed.
Lemma sym_eqb_refl a : sym_eqb a a = true.
Proof. destruct a; cbn; auto using tk_eqb_refl, Nat.eqb_refl. Qed.

Lemma expr_eqb_eq a : forall b, expr_eqb a b = true -> a = b.
Proof.
  induction a; destruct b; cbn; intro H; try discriminate H.
  - f_equal; now apply field_eqb_eq.
  - f_equal; now apply sym_eqb_eq.
  - apply andb_true_iff in H as [H1 H2]. f_equal; auto.
Qed.
Lemma expr_eqb_refl a : expr_eqb a a = true.
Proof. induction a; cbn; auto using field_eqb_refl, sym_eqb_refl. rewrite IHa1, IHa2. reflexivity. Qed.
Lemma expr_neq a b : expr_eqb a b = false -> a <> b.
Proof. intros H E. subst. rewrite expr_eqb_refl in H. discriminate H. Qed.

(* ---- the free interpretation satisfies the law ----------------------------------------------- *)
Lemma free_law : recover_law Free.
Proof.
  intros H c0. cbn [iapp isym Free]. unfold nap at 2 3 4 5 6. cbn.
  unfold nap. rewrite !expr_eqb_refl. reflexivity.
Qed.

(* ---- pointwise equality of worlds ------------------------------------------------------------ *)
Definition weq {I} (w1 w2 : world I) : Prop := forall f, w1 f = w2 f.

Lemma eval_weq {I} (w1 w2 : world I) e : weq w1 w2 -> eval w1 e = eval w2 e.
Proof. intro H. induction e; cbn; [apply H | reflexivity | now rewrite IHe1, IHe2]. Qed.
Lemma upd_weq {I} (w1 w2 : world I) f v1 v2 : weq w1 w2 -> v1 = v2 -> weq (upd w1 f v1) (upd w2 f v2).
Proof. intros H E g. unfold upd. destruct (field_eqb g f); auto. Qed.
Lemma exec_weq {I} p : forall (w1 w2 : world I), weq w1 w2 -> weq (exec p w1) (exec p w2).
Proof.
  induction p as [|[f e] p IH]; intros w1 w2 H; [exact H|]. cbn. apply IH. unfold step; cbn.
  apply upd_weq; [exact H | now apply eval_weq].
Qed.

Lemma eval_agree {I} (w1 w2 : world I) e : (forall f, In f (fields_of e) -> w1 f = w2 f) -> eval w1 e = eval w2 e.
Proof.
  induction e; cbn; intro H.
  - apply H. now left.
  - reflexivity.
  - rewrite IHe1, IHe2; [reflexivity| |]; intros f Hf; apply H; apply in_or_app; auto.
Qed.

(* ---- symbolic execution is sound -------------------------------------------------------------- *)
Section Sound.
  Variable I : interp.
  Hypothesis law : recover_law I.
  Variable w : world I.

  Lemma eval_nap a b : eval w (nap a b) = iapp I (eval w a) (eval w b).
  Proof.
    unfold nap.
    destruct a as [| |a1 a2]; try reflexivity.
    destruct a1 as [|s1|]; try reflexivity. destruct s1; try reflexivity.
    destruct a2 as [| |a21 c1]; try reflexivity.
    destruct a21 as [| |a211 h]; try reflexivity.
    destruct a211 as [|s2|]; try reflexivity. destruct s2; try reflexivity.
    destruct b as [| |b1 c2]; try reflexivity.
    destruct b1 as [| |b11 h']; try reflexivity.
    destruct b11 as [|s3|]; try reflexivity. destruct s3; try reflexivity.
    destruct (expr_eqb h h' && expr_eqb c1 c2) eqn:E; [|reflexivity].
    apply andb_true_iff in E as [E1 E2]. apply expr_eqb_eq in E1, E2. subst h' c2.
    cbn [eval]. symmetry. apply law.
  Qed.

  (* evaluating a term obtained by symbolic evaluation = evaluating in the evaluated world *)
  Lemma eval_sym (s : world Free) e : eval w (@eval Free s e) = eval (fun f => eval w (s f)) e.
  Proof.
    induction e; cbn [eval]; try reflexivity.
    cbn [iapp Free]. rewrite eval_nap, IHe1, IHe2. reflexivity.
  Qed.

  Lemma exec_sym p : forall (s : world Free),
    weq (fun f => eval w (@exec Free p s f)) (exec p (fun f => eval w (s f))).
  Proof.
    induction p as [|[f e] p IH]; intro s; [intro g; reflexivity|].
    intro g. change (@exec Free ((f, e) :: p) s) with (@exec Free p (step s (f, e))).
    change (@exec I ((f, e) :: p) (fun f0 => eval w (s f0)))
      with (@exec I p (step (fun f0 => eval w (s f0)) (f, e))).
    rewrite (IH (step s (f, e)) g). apply exec_weq. intro g'.
    unfold step, upd; cbn [fst snd]. destruct (field_eqb g' f); [apply eval_sym | reflexivity].
  Qed.

  Lemma s0_clean : clean w -> weq (fun f => eval w (s0 f)) w.
  Proof. intros [H1 H2] f. destruct f; cbn; try reflexivity; congruence. Qed.

  (* the symbolic run of a shape describes its execution in every clean world *)
  Lemma sym_run_sound v s : clean w -> weq (exec (prog_of v s) w) (fun f => eval w (sym_run v s f)).
  Proof.
    intros Hc f. unfold sym_run. rewrite (exec_sym (prog_of v s) s0 f).
    apply exec_weq. intro g. symmetry. now apply s0_clean.
  Qed.
End Sound.

(* ---- all fields are listed -------------------------------------------------------------------- *)
Lemma all_tk_complete k : In k all_tk.
Proof. destruct k; cbn; tauto. Qed.
Lemma all_pk_complete p : In p all_pk.
Proof.
  destruct p; unfold all_pk; try (cbn; tauto).
  right. apply in_or_app. left. apply in_map. apply all_tk_complete.
Qed.
Lemma all_ek_complete e : In e all_ek.
Proof.
  destruct e; unfold all_ek; try (apply in_or_app; right; cbn; tauto).
  apply in_or_app. left. apply in_map. apply all_tk_complete.
Qed.

Lemma all_fields_complete f : In f all_fields.
Proof.
  unfold all_fields.
  destruct f;
    try (apply in_or_app; left; cbn; tauto);
    try (repeat (apply in_or_app; right); cbn; tauto);
    repeat first
      [ apply in_or_app; left; apply in_map; first [apply all_tk_complete | apply all_pk_complete | apply all_ek_complete]
      | apply in_or_app; left; cbn; tauto
      | apply in_or_app; right ].
Qed.

Lemma input_fields_complete f : is_input f = true -> In f input_fields.
Proof. intro H. unfold input_fields. apply filter_In. split; [apply all_fields_complete | exact H]. Qed.

(* ---- the finite checks ------------------------------------------------------------------------ *)
Lemma api_checks s : api s = true ->
  preserves repaired s = true /\ reads_inputs_only repaired s = true.
Proof.
  destruct s as [k|p| | | | | |e|k|fw| |p big| | |rep fr|e]; cbn [api]; intro H; try discriminate H;
    try (destruct k); try (destruct p as [|k| | |]; try destruct k); try (destruct e as [k| |]; try destruct k);
    try (destruct fw); try (destruct big); try (destruct rep, fr); try discriminate H;
    split; vm_compute; reflexivity.
Qed.

(* ---- histories --------------------------------------------------------------------------------- *)
Section Hist.
  Variable I : interp.
  Hypothesis law : recover_law I.

  Lemma setargs_other (w : world I) cl f :
    f <> ArgNref -> f <> ArgL -> f <> ArgCut -> f <> ArgUnits -> setargs w cl f = w f.
  Proof.
    intros H1 H2 H3 H4. unfold setargs, upd.
    rewrite (field_eqb_neq _ _ H4), (field_eqb_neq _ _ H3), (field_eqb_neq _ _ H2), (field_eqb_neq _ _ H1). reflexivity.
  Qed.
  Lemma input_not_arg f : is_input f = true -> f <> ArgNref /\ f <> ArgL /\ f <> ArgCut /\ f <> ArgUnits.
  Proof. intro H. repeat split; intro E; subst; discriminate H. Qed.
  Lemma setargs_input (w : world I) cl f : is_input f = true -> setargs w cl f = w f.
  Proof. intro H. destruct (input_not_arg f H) as (H1 & H2 & H3 & H4). now apply setargs_other. Qed.
  Lemma setargs_clean (w : world I) cl : clean w -> clean (setargs w cl).
  Proof. intros [H1 H2]. split; rewrite setargs_input; auto. Qed.

  (* one call of the property keeps every input field (and so cleanliness) *)
  Lemma docall_input (w : world I) cl f : clean w -> api (sh cl) = true -> is_input f = true ->
    docall repaired w cl f = w f.
  Proof.
    intros Hc Ha Hf. unfold docall.
    rewrite (sym_run_sound I law (setargs w cl) repaired (sh cl) (setargs_clean w cl Hc) f).
    destruct (api_checks (sh cl) Ha) as [Hp _]. unfold preserves in Hp.
    rewrite forallb_forall in Hp. specialize (Hp f (input_fields_complete f Hf)).
    apply expr_eqb_eq in Hp. rewrite Hp.
    rewrite (s0_clean I (setargs w cl) (setargs_clean w cl Hc) f). now apply setargs_input.
  Qed.
  Lemma docall_clean (w : world I) cl : clean w -> api (sh cl) = true -> clean (docall repaired w cl).
  Proof. intros Hc Ha. destruct Hc as [H1 H2]. split; rewrite docall_input; auto; now split. Qed.

  Lemma run_inputs h : forall (w : world I), clean w -> Forall (fun cl => api (sh cl) = true) h ->
    clean (run repaired h w) /\ forall f, is_input f = true -> run repaired h w f = w f.
  Proof.
    induction h as [|cl h IH]; intros w Hc Hall; [split; auto|].
    inversion Hall as [|? ? Ha Hall']; subst. cbn [run fold_left]. fold (run repaired h (docall repaired w cl)).
    destruct (IH (docall repaired w cl) (docall_clean w cl Hc Ha) Hall') as [Hc' Hin]. split; [exact Hc'|].
    intros f Hf. rewrite (Hin f Hf). now apply docall_input.
  Qed.

  (* the result of a call of the property is a function of input fields and its arguments *)
  Lemma result_depends (w1 w2 : world I) cl : clean w1 -> clean w2 -> api (sh cl) = true ->
    (forall f, is_input f = true -> w1 f = w2 f) -> result repaired w1 cl = result repaired w2 cl.
  Proof.
    intros Hc1 Hc2 Ha Hag. unfold result, docall.
    rewrite (sym_run_sound I law (setargs w1 cl) repaired (sh cl) (setargs_clean w1 cl Hc1) Res).
    rewrite (sym_run_sound I law (setargs w2 cl) repaired (sh cl) (setargs_clean w2 cl Hc2) Res).
    apply eval_agree. intros f Hf.
    destruct (api_checks (sh cl) Ha) as [_ Hr]. unfold reads_inputs_only in Hr.
    rewrite forallb_forall in Hr. specialize (Hr f Hf). apply orb_true_iff in Hr as [Hi|Harg].
    - rewrite !setargs_input; auto.
    - unfold setargs, upd. destruct f; try discriminate Harg; cbn; reflexivity.
  Qed.

  Lemma repeatable h (w : world I) cl : clean w -> Forall (fun cl => api (sh cl) = true) h ->
    api (sh cl) = true -> result repaired (run repaired h w) cl = result repaired w cl.
  Proof.
    intros Hc Hall Ha. destruct (run_inputs h w Hc Hall) as [Hc' Hin].
    apply result_depends; auto.
  Qed.
End Hist.

(* ---- witnesses against the pinned variant (free interpretation) -------------------------------- *)
Definition cl (s : shape) (n l cut : nat) : call := mkCall s n l cut 0.

Lemma w_init_clean : clean w_init.
Proof. split; reflexivity. Qed.

Lemma heom_carryover_witness :
  let c1 := cl (Heom false false) 0 4 0 in
  result pinned (run pinned [c1] w_init) c1 <> result pinned w_init c1.
Proof. apply expr_neq. vm_compute. reflexivity. Qed.

Lemma heom_free_carryover_witness :
  let c1 := cl (Heom false true) 0 4 0 in let c2 := cl (Heom false false) 0 4 0 in
  result pinned (run pinned [c1] w_init) c2 <> result pinned w_init c2.
Proof. apply expr_neq. vm_compute. reflexivity. Qed.

Lemma nref_sticky_witness :
  let c1 := cl (DMProp (PT T) true) 3 4 0 in let c2 := cl (DMProp (PT T) false) 0 4 0 in
  result pinned (run pinned [c1] w_init) c2 <> result pinned w_init c2 /\
  run pinned [c1] w_init (PConf (PT T)) <> w_init (PConf (PT T)).
Proof. split; apply expr_neq; vm_compute; reflexivity. Qed.

Lemma reltensor_exception_witness :
  let c1 := cl (RelTFail FailCRFTD) 0 4 7 in let c2 := cl (DMProp PH false) 0 4 0 in
  run pinned [c1] w_init HamData <> w_init HamData /\
  run pinned [c1] w_init HamProt <> w_init HamProt /\
  result pinned (run pinned [c1] w_init) c2 <> result pinned w_init c2.
Proof. repeat split; apply expr_neq; vm_compute; reflexivity. Qed.
