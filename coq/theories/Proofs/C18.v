(* Proofs for C18: packing/extraction of data with an axis, export/import through the formats,
   save/load of parcels on the basis-management machine. *)
From Coq Require Import List Bool Arith Lia ZArith QArith.
From QV Require Import Model.C04 Model.C05 Model.C18.
Import ListNotations.
Local Open Scope nat_scope.

Section Data.
  Variable A : Type.
  Notation arr := (arr A).

  Lemma heads_pair (ax l : list A) : length ax = length l ->
    heads A (zip_with (fun a x => [a; x]) ax l) = ax.
  Proof.
    revert l. induction ax as [|a ax IH]; intros [|x l] H; try discriminate H; [reflexivity|].
    cbn. unfold heads in IH. rewrite IH; [reflexivity | now injection H].
  Qed.
  Lemma seconds_pair (ax l : list A) : length ax = length l ->
    concat (map (skipn 1) (zip_with (fun a x => [a; x]) ax l)) = l.
  Proof.
    revert l. induction ax as [|a ax IH]; intros [|x l] H; try discriminate H; [reflexivity|].
    cbn. rewrite IH; [reflexivity | now injection H].
  Qed.
  Lemma heads_cons (ax : list A) rows : length ax = length rows -> heads A (zip_with cons ax rows) = ax.
  Proof.
    revert rows. induction ax as [|a ax IH]; intros [|r rows] H; try discriminate H; [reflexivity|].
    cbn. unfold heads in IH. rewrite IH; [reflexivity | now injection H].
  Qed.
  Lemma tails_cons (ax : list A) rows : length ax = length rows -> map (skipn 1) (zip_with cons ax rows) = rows.
  Proof.
    revert rows. induction ax as [|a ax IH]; intros [|r rows] H; try discriminate H; [reflexivity|].
    cbn. rewrite IH; [reflexivity | now injection H].
  Qed.
  Lemma concat_tails_cons (ax : list A) rows : length ax = length rows ->
    concat (map (skipn 1) (zip_with cons ax rows)) = concat rows.
  Proof. intro H. now rewrite tails_cons. Qed.
  Lemma zip_length {B C D} (f : B -> C -> D) l m : length l = length m -> length (zip_with f l m) = length l.
  Proof. revert m. induction l; intros [|y m] H; try discriminate H; cbn; [reflexivity|]. f_equal. apply IHl. now injection H. Qed.

  (* (N,) data with an axis *)
  Lemma pack_extract_1d (ax l : list A) : length ax = length l ->
    exists p, pack A ax (A1 l) = Some p /\ extract A p = Some (ax, A1 l).
  Proof.
    intro H. unfold pack. rewrite H, Nat.eqb_refl. eexists; split; [reflexivity|].
    cbn. now rewrite heads_pair, seconds_pair.
  Qed.

  (* (N,M) data, M >= 2, with an axis *)
  Lemma pack_extract_2d (ax : list A) w rows : 2 <= w -> length ax = length rows ->
    exists p, pack A ax (A2 w rows) = Some p /\ extract A p = Some (ax, A2 w rows).
  Proof.
    intros Hw H. unfold pack. rewrite H, Nat.eqb_refl. eexists; split; [reflexivity|].
    destruct w as [|[|w]]; try lia. cbn. now rewrite heads_cons, tails_cons.
  Qed.

  (* (N,1) data comes back with one index less *)
  Lemma pack_extract_n1 (a x : A) :
    exists p, pack A [a] (A2 1 [[x]]) = Some p /\ extract A p = Some ([a], A1 [x]) /\ A1 [x] <> A2 1 [[x]].
  Proof. eexists; split; [reflexivity|]. split; [reflexivity | discriminate]. Qed.

  Lemma squeeze_regular (d : arr) : regular A d -> squeeze A d = d.
  Proof.
    destruct d as [x|l|w rows]; cbn; [tauto| |].
    - destruct l as [|x [|y l]]; cbn; intros; try lia; reflexivity.
    - intros (Hw & Hn & _). destruct rows as [|r1 [|r2 rows]]; cbn in Hn; try lia.
      destruct w as [|[|w]]; try lia; reflexivity.
  Qed.
  Lemma squeeze_packed w rows : 2 <= w -> 2 <= length rows -> squeeze A (A2 w rows) = A2 w rows.
  Proof.
    intros Hw Hn. destruct rows as [|r1 [|r2 rows]]; cbn in Hn; try lia.
    destruct w as [|[|w]]; try lia; reflexivity.
  Qed.

  Lemma flat_squeeze (d : arr) : flat A (squeeze A d) = flat A d.
  Proof.
    destruct d as [x|l|w rows]; cbn; try reflexivity.
    - destruct l as [|x [|y l]]; reflexivity.
    - destruct rows as [|r1 [|r2 rows]].
      + destruct w as [|[|[|w]]]; reflexivity.
      + destruct w as [|[|[|w]]]; destruct r1 as [|x [|y r1]]; cbn; rewrite ?app_nil_r; reflexivity.
      + destruct w as [|[|[|w]]]; reflexivity.
  Qed.
  Lemma flat_atleast2d (d : arr) : flat A (atleast2d A d) = flat A d.
  Proof. destruct d; cbn; rewrite ?app_nil_r; reflexivity. Qed.

  Lemma through_packed (v : dvariant) (f : fmt) w rows : squeeze A (A2 w rows) = A2 w rows ->
    (f = Npz -> npz_axis_saves v = true) -> through A v f true (A2 w rows) = Some (A2 w rows).
  Proof.
    intros Hsq Hn. destruct f; cbn [through andb]; try reflexivity.
    - destruct (text_axis_ndmin2 v); [reflexivity | now rewrite Hsq].
    - destruct (text_axis_ndmin2 v); [reflexivity | now rewrite Hsq].
    - rewrite (Hn eq_refl). reflexivity.
  Qed.

  (* every format, with or without axis, for the shapes the formats can represent *)
  Lemma export_import_regular (v : dvariant) (f : fmt) (ax : option (list A)) (d : arr) :
    regular A d ->
    (forall a, ax = Some a -> length a = nrows A d) ->
    (f = Mat -> ax = None -> exists w rows, d = A2 w rows) ->
    (f = Npz -> ax <> None -> npz_axis_saves v = true) ->
    export_import A v f ax d = Some (ax, d).
  Proof.
    intros Hr Hax Hmat Hnpz. destruct ax as [a|]; unfold export_import.
    - specialize (Hax a eq_refl).
      destruct d as [x|l|w rows]; cbn in Hr; [tauto| |].
      + cbn in Hax. destruct (pack_extract_1d a l Hax) as (p & Hp & He). rewrite Hp.
        assert (Hpk : p = A2 2 (zip_with (fun a x => [a; x]) a l)).
        { unfold pack in Hp. rewrite Hax, Nat.eqb_refl in Hp. now injection Hp. }
        assert (Hsq : squeeze A p = p).
        { subst p. apply squeeze_packed; [lia|]. rewrite zip_length; [lia | exact Hax]. }
        subst p. rewrite through_packed; [now rewrite He | exact Hsq |].
        intro Hf. apply Hnpz; [exact Hf | discriminate].
      + cbn in Hax. destruct Hr as (Hw & Hn & _).
        destruct (pack_extract_2d a w rows Hw Hax) as (p & Hp & He). rewrite Hp.
        assert (Hpk : p = A2 (S w) (zip_with cons a rows)).
        { unfold pack in Hp. rewrite Hax, Nat.eqb_refl in Hp. now injection Hp. }
        assert (Hsq : squeeze A p = p).
        { subst p. apply squeeze_packed; [lia|]. rewrite zip_length; [lia | exact Hax]. }
        subst p. rewrite through_packed; [now rewrite He | exact Hsq |].
        intro Hf. apply Hnpz; [exact Hf | discriminate].
    - destruct f; cbn [through andb].
      + destruct d; cbn in Hr; try tauto; now rewrite squeeze_regular.
      + destruct d; cbn in Hr; try tauto; now rewrite squeeze_regular.
      + reflexivity.
      + reflexivity.
      + destruct (Hmat eq_refl eq_refl) as (w & rows & ->). reflexivity.
  Qed.

  (* whatever the shape: if the import succeeds, the values (in storage order) and the axis are the
     ones exported *)
  Lemma export_import_values (f : fmt) (ax : option (list A)) (d : arr) ax' d' :
    export_import A drepaired f ax d = Some (ax', d') -> flat A d' = flat A d /\ ax' = ax.
  Proof.
    unfold export_import. destruct ax as [a|].
    - destruct d as [x|l|w rows]; cbn [pack]; [discriminate| |].
      + destruct (Nat.eqb (length a) (length l)) eqn:E; [|discriminate]. apply Nat.eqb_eq in E.
        assert (Hth : through A drepaired f true (A2 2 (zip_with (fun a x => [a; x]) a l)) =
                      Some (A2 2 (zip_with (fun a x => [a; x]) a l))) by (destruct f; reflexivity).
        rewrite Hth. cbn [extract]. rewrite heads_pair, seconds_pair by exact E.
        intro H. injection H as <- <-. split; reflexivity.
      + destruct (Nat.eqb (length a) (length rows)) eqn:E; [|discriminate]. apply Nat.eqb_eq in E.
        assert (Hth : through A drepaired f true (A2 (S w) (zip_with cons a rows)) =
                      Some (A2 (S w) (zip_with cons a rows))) by (destruct f; reflexivity).
        rewrite Hth. destruct w as [|[|w]]; cbn [extract]; [discriminate| |].
        * rewrite heads_cons, concat_tails_cons by exact E. intro H. injection H as <- <-. split; reflexivity.
        * rewrite heads_cons, tails_cons by exact E. intro H. injection H as <- <-. split; reflexivity.
    - destruct f; cbn [through andb].
      + destruct d as [x|l|w rows]; [discriminate | |]; intro H; injection H as <- <-; split; try reflexivity;
          [exact (flat_squeeze (A1 l)) | exact (flat_squeeze (A2 w rows))].
      + destruct d as [x|l|w rows]; [discriminate | |]; intro H; injection H as <- <-; split; try reflexivity;
          [exact (flat_squeeze (A1 l)) | exact (flat_squeeze (A2 w rows))].
      + intro H; injection H as <- <-; split; reflexivity.
      + intro H; injection H as <- <-; split; reflexivity.
      + intro H; injection H as <- <-; split; [apply flat_atleast2d | reflexivity].
  Qed.
End Data.

(* ---- parcels ---------------------------------------------------------------------------------- *)
Section Parcel.
  Variables G X : Type.
  Variable gid : G.
  Variable gmul : G -> G -> G.
  Variable act : G -> X -> X.

  Notation read := (read G X gid gmul act).
  Notation to_current := (to_current G X gid gmul act).

  Definition value_read (r : option (mst G X * option X)) : option (option X) := option_map snd r.

  (* the object created by load presents, wherever it is read, what the saved object presents there
     (same value, or the same "not on stack" failure), as long as the saved object still holds the
     raw triple that was stored *)
  Lemma load_reads_like_original (s : mst G X) i j o : heap G X s i = Some o ->
    value_read (read (load G X s j o) j) = value_read (read s i).
  Proof.
    intro Hi. unfold value_read, Model.C04.read, Model.C04.to_current, load, set_new.
    cbn [heap trans]. rewrite Nat.eqb_refl, Hi. unfold depth; cbn [trans].
    destruct (prot X o) eqn:Hp.
    - cbn. rewrite Nat.eqb_refl, Hi. reflexivity.
    - destruct (Nat.eqb (tag X o) (length (trans G X s))) eqn:Ht.
      + cbn. rewrite Nat.eqb_refl, Hi. reflexivity.
      + destruct (Nat.leb (tag X o) (length (trans G X s))) eqn:Hl; [|reflexivity].
        cbn. rewrite !Nat.eqb_refl. reflexivity.
  Qed.

  (* saved and loaded outside every context: the data come back as they are *)
  Lemma save_load_outside (s : mst G X) i j o : trans G X s = [] -> heap G X s i = Some o -> tag X o = 0 ->
    save G X s i = Some o /\ value_read (read (load G X s j o) j) = Some (Some (dat X o)).
  Proof.
    intros Ht Hi Htag. split; [exact Hi|].
    unfold value_read, Model.C04.read, Model.C04.to_current, load, set_new. cbn [heap trans].
    rewrite Nat.eqb_refl. unfold depth; cbn [trans]. rewrite Ht, Htag. cbn.
    destruct (prot X o); cbn; rewrite Nat.eqb_refl; reflexivity.
  Qed.
End Parcel.

(* ---- witnesses on a small instance: the group (Z,+) acting on Z by translation ----------------- *)
Definition zrun := run18 Z Z 0%Z Z.add Z.opp (fun g x => (x + g)%Z).
Definition zfresh : mst Z Z * files Z := (mkM Z Z [] [] (fun _ => None), fun _ => None).

(* object 1 (value 7) is read (10) and saved inside the context of object 0 (shift 3); after the
   context the loaded copy cannot be read although the original can *)
Lemma saved_in_context_unreadable_outside :
  snd (zrun zfresh [ONew Z Z 0 5%Z; ONew Z Z 1 7%Z; OEnter Z Z 0 3%Z; ORead Z Z 1; OSave Z Z 1 0; OLeave Z Z;
                    OLoad Z Z 0 2; ORead Z Z 2; ORead Z Z 1])
  = [Val Z 1 10%Z; Err Z 2; Val Z 1 7%Z].
Proof. vm_compute. reflexivity. Qed.

(* loaded inside the same context it reads correctly there (10) but is not registered: after the
   context it keeps the tag of the left basis *)
Lemma loaded_in_context_stale_outside :
  snd (zrun zfresh [ONew Z Z 0 5%Z; ONew Z Z 1 7%Z; OEnter Z Z 0 3%Z; ORead Z Z 1; OSave Z Z 1 0; OLoad Z Z 0 2;
                    ORead Z Z 2; OLeave Z Z; ORead Z Z 2; ORead Z Z 1])
  = [Val Z 1 10%Z; Val Z 2 10%Z; Err Z 2; Val Z 1 7%Z].
Proof. vm_compute. reflexivity. Qed.

(* saved in one context (shift 3) and loaded in another one (shift 5): no error, but the copy shows
   10 where the original shows 12 *)
Lemma saved_in_context_mislabelled_in_another :
  snd (zrun zfresh [ONew Z Z 0 5%Z; ONew Z Z 1 7%Z; OEnter Z Z 0 3%Z; ORead Z Z 1; OSave Z Z 1 0; OLeave Z Z;
                    OEnter Z Z 0 5%Z; OLoad Z Z 0 2; ORead Z Z 2; ORead Z Z 1])
  = [Val Z 1 10%Z; Val Z 2 10%Z; Val Z 1 12%Z].
Proof. vm_compute. reflexivity. Qed.

(* saved outside, loaded inside a context: transformed on first read, registered, restored on exit *)
Lemma saved_outside_loaded_inside_ok :
  snd (zrun zfresh [ONew Z Z 0 5%Z; ONew Z Z 1 7%Z; OSave Z Z 1 0; OEnter Z Z 0 3%Z; OLoad Z Z 0 2; ORead Z Z 2;
                    ORead Z Z 1; OLeave Z Z; ORead Z Z 2])
  = [Val Z 2 10%Z; Val Z 1 10%Z; Val Z 2 7%Z].
Proof. vm_compute. reflexivity. Qed.
