(* Proofs for C18: packing/extraction of data with an axis, export/import through the formats,
   save/load of parcels on the basis-management machine. *)
From Coq Require Import List Bool Arith Lia ZArith QArith.
From QV Require Import Model.C04 Model.C05 Model.C18.
Import ListNotations.
Local Open Scope nat_scope.

Section Data.
  Variable A : Type.
  Notation arr := (arr A).

  Lemma heads_pair (ax l : list A) : length ax = length l ->
    heads A (zip_with (fun a x => [a; x]) ax l) = ax.
  Proof.
    revert l. induction ax as [|a ax IH]; intros [|x l] H; try discriminate H; [reflexivity|].
    cbn. unfold heads in IH. rewrite IH; [reflexivity | now injection H].
  Qed.
  Lemma seconds_pair (ax l : list A) : length ax = length l ->
    concat (map (skipn 1) (zip_with (fun a x => [a; x]) ax l)) = l.
  Proof.
    revert l. induction ax as [|a ax IH]; intros [|x l] H; try discriminate H; [reflexivity|].
    cbn. rewrite IH; [reflexivity | now injection H].
  Qed.
  Lemma heads_cons (ax : list A) rows : length ax = length rows -> heads A (zip_with cons ax rows) = ax.
  Proof.
    revert rows. induction ax as [|a ax IH]; intros [|r rows] H; try discriminate H; [reflexivity|].
    cbn. unfold heads in IH. rewrite IH; [reflexivity | now injection H].
  Qed.
  Lemma tails_cons (ax : list A) rows : length ax = length rows -> map (skipn 1) (zip_with cons ax rows) = rows.
  Proof.
    revert rows. induction ax as [|a ax IH]; intros [|r rows] H; try discriminate H; [reflexivity|].
    cbn. rewrite IH; [reflexivity | now injection H].
  Qed.
  Lemma concat_tails_cons (ax : list A) rows : length ax = length rows ->
    concat (map (skipn 1) (zip_with cons ax rows)) = concat rows.
  Proof. intro H. now rewrite tails_cons. Qed.
  Lemma zip_length {B C D} (f : B -> C -> D) l m : length l = length m -> length (zip_with f l m) = length l.
  Proof. revert m. induction l; intros [|y m] H; try discriminate H; cbn; [reflexivity|]. f_equal. apply IHl. now injection H. Qed.

  (* (N,) data with an axis *)
  Lemma pack_extract_1d (ax l : list A) : length ax = length l ->
    exists p, pack A ax (A1 l) = Some p /\ extract A p = Some (ax, A1 l).
  Proof.
    intro H. unfold pack. rewrite H, Nat.eqb_refl. eexists; split; [reflexivity|].
    cbn. now rewrite heads_pair, seconds_pair.
  Qed.

  (* (N,M) data, M >= 2, with an axis *)
  Lemma pack_extract_2d (ax : list A) w rows : 2 <= w -> length ax = length rows ->
    exists p, pack A ax (A2 w rows) = Some p /\ extract A p = Some (ax, A2 w rows).
  Proof.
    intros Hw H. unfold pack. rewrite H, Nat.eqb_refl. eexists; split; [reflexivity|].
    destruct w as [|[|w]]; try lia. cbn. now rewrite heads_cons, tails_cons.
  Qed.

  (* (N,1) data comes back with one index less *)
  Lemma pack_extract_n1 (a x : A) :
    exists p, pack A [a] (A2 1 [[x]]) = Some p /\ extract A p = Some ([a], A1 [x]) /\ A1 [x] <> A2 1 [[x]].
  Proof. eexists; split; [reflexivity|]. split; [reflexivity | discriminate]. Qed.

  Lemma squeeze_regular (d : arr) : regular A d -> squeeze A d = d.
  Proof.
    destruct d as [x|l|w rows]; cbn; [tauto| |].
    - destruct l as [|x [|y l]]; cbn; intros; try lia; reflexivity.
    - intros (Hw & Hn & _). destruct rows as [|r1 [|r2 rows]]; cbn in Hn; try lia.
      destruct w as [|[|w]]; try lia; reflexivity.
  Qed.
  Lemma squeeze_packed w rows : 2 <= w -> 2 <= length rows -> squeeze A (A2 w rows) = A2 w rows.
  Proof.
    intros Hw Hn. destruct rows as [|r1 [|r2 rows]]; cbn in Hn; try lia.
    destruct w as [|[|w]]; try lia; reflexivity.
  Qed.

  Lemma flat_squeeze (d : arr) : flat A (squeeze A d) = flat A d.
  Proof.
    destruct d as [x|l|w rows]; cbn; try reflexivity.
    - destruct l as [|x [|y l]]; reflexivity.
    - destruct rows as [|r1 [|r2 rows]].
      + destruct w as [|[|[|w]]]; reflexivity.
      + destruct w as [|[|[|w]]]; destruct r1 as [|x [|y r1]]; cbn; rewrite ?app_nil_r; reflexivity.
      + destruct w as [|[|[|w]]]; reflexivity.
  Qed.
  Lemma flat_atleast2d (d : arr) : flat A (atleast2d A d) = flat A d.
  Proof. destruct d; cbn; rewrite ?app_nil_r; reflexivity. Qed.

  Lemma through_packed (v : dvariant) (f : fmt) w rows : squeeze A (A2 w rows) = A2 w rows ->
    (f = Npz -> npz_axis_saves v = true) -> through A v f true (A2 w rows) = Some (A2 w rows).
  Proof.
    intros Hsq Hn. destruct f; cbn [through andb]; try reflexivity.
    - destruct (text_axis_ndmin2 v); [reflexivity | now rewrite Hsq].
    - destruct (text_axis_ndmin2 v); [reflexivity | now rewrite Hsq].
    - rewrite (Hn eq_refl). reflexivity.
  Qed.

  (* every format, with or without axis, for the shapes the formats can represent *)
  Lemma export_import_regular (v : dvariant) (f : fmt) (ax : option (list A)) (d : arr) :
    regular A d ->
    (forall a, ax = Some a -> length a = nrows A d) ->
    (f = Mat -> ax = None -> exists w rows, d = A2 w rows) ->
    (f = Npz -> ax <> None -> npz_axis_saves v = true) ->
    export_import A v f ax d = Some (ax, d).
  Proof.
    intros Hr Hax Hmat Hnpz. destruct ax as [a|]; unfold export_import.
    - specialize (Hax a eq_refl).
      destruct d as [x|l|w rows]; cbn in Hr; [tauto| |].
      + cbn in Hax. destruct (pack_extract_1d a l Hax) as (p & Hp & He). rewrite Hp.
        assert (Hpk : p = A2 2 (zip_with (fun a x => [a; x]) a l)).
        { unfold pack in Hp. rewrite Hax, Nat.eqb_refl in Hp. now injection Hp. }
        assert (Hsq : squeeze A p = p).
        { subst p. apply squeeze_packed; [lia|]. rewrite zip_length; [lia | exact Hax]. }
        subst p. rewrite through_packed; [now rewrite He | exact Hsq |].
        intro Hf. apply Hnpz; [exact Hf | discriminate].
      + cbn in Hax. destruct Hr as (Hw & Hn & _).
        destruct (pack_extract_2d a w rows Hw Hax) as (p & Hp & He). rewrite Hp.
        assert (Hpk : p = A2 (S w) (zip_with cons a rows)).
        { unfold pack in Hp. rewrite Hax, Nat.eqb_refl in Hp. now injection Hp. }
        assert (Hsq : squeeze A p = p).
        { subst p. apply squeeze_packed; [lia|]. rewrite zip_length; [lia | exact Hax]. }
        subst p. rewrite through_packed; [now rewrite He | exact Hsq |].
        intro Hf. apply Hnpz; [exact Hf | discriminate].
    - destruct f; cbn [through andb].
      + destruct d; cbn in Hr; try tauto; now rewrite squeeze_regular.
      + destruct d; cbn in Hr; try tauto; now rewrite squeeze_regular.
      + reflexivity.
      + reflexivity.
      + destruct (Hmat eq_refl eq_refl) as (w & rows & ->). reflexivity.
  Qed.

  (* whatever the shape: if the import succeeds, the values (in storage order) and the axis are the
     ones exported *)
  Lemma export_import_values (f : fmt) (ax : option (list A)) (d : arr) ax' d' :
    export_import A drepaired f ax d = Some (ax', d') -> flat A d' = flat A d /\ ax' = ax.
  Proof.
    unfold export_import. destruct ax as [a|].
    - destruct d as [x|l|w rows]; cbn [pack]; [discriminate| |].
      + destruct (Nat.eqb (length a) (length l)) eqn:E; [|discriminate]. apply Nat.eqb_eq in E.
        assert (Hth : through A drepaired f true (A2 2 (zip_with (fun a x => [a; x]) a l)) =
                      Some (A2 2 (zip_with (fun a x => [a; x]) a l))) by (destruct f; reflexivity).
        rewrite Hth. cbn [extract]. rewrite heads_pair, seconds_pair by exact E.
        intro H. injection H as <- <-. split; reflexivity.
      + destruct (Nat.eqb (length a) (length rows)) eqn:E; [|discriminate]. apply Nat.eqb_eq in E.
        assert (Hth : through A drepaired f true (A2 (S w) (zip_with cons a rows)) =
                      Some (A2 (S w) (zip_with cons a rows))) by (destruct f; reflexivity).
        rewrite Hth. destruct w as [|[|w]]; cbn [extract]; [discriminate| |].
        * rewrite heads_cons, concat_tails_cons by exact E. intro H. injection H as <- <-. split; reflexivity.
        * rewrite heads_cons, tails_cons by exact E. intro H. injection H as <- <-. split; reflexivity.
    - destruct f; cbn [through andb].
      + destruct d as [x|l|w rows]; [discriminate | |]; intro H; injection H as <- <-; split; try reflexivity;
          [exact (flat_squeeze (A1 l)) | exact (flat_squeeze (A2 w rows))].
      + destruct d as [x|l|w rows]; [discriminate | |]; intro H; injection H as <- <-; split; try reflexivity;
          [exact (flat_squeeze (A1 l)) | exact (flat_squeeze (A2 w rows))].
      + intro H; injection H as <- <-; split; reflexivity.
      + intro H; injection H as <- <-; split; reflexivity.
      + intro H; injection H as <- <-; split; [apply flat_atleast2d | reflexivity].
  Qed.
End Data.

(* ---- parcels ---------------------------------------------------------------------------------- *)
Section Parcel.
  Variables G X : Type.
  Variable gid : G.
  Variable gmul : G -> G -> G.
  Variable act : G -> X -> X.

  Notation read := (read G X gid gmul act).
  Notation to_current := (to_current G X gid gmul act).

  Definition value_read (r : option (mst G X * option X)) : option (option X) := option_map snd r.

  (* the object created by load presents, wherever it is read, what the saved object presents there
     (same value, or the same "not on stack" failure), as long as the saved object still holds the
     raw triple that was stored *)
  Lemma load_reads_like_original (s : mst G X) i j o : heap G X s i = Some o ->
    value_read (read (load G X s j o) j) = value_read (read s i).
  Proof.
    intro Hi. unfold value_read, Model.C04.read, Model.C04.to_current, load, set_new.
    cbn [heap trans]. rewrite Nat.eqb_refl, Hi. unfold depth; cbn [trans].
    destruct (prot X o) eqn:Hp.
    - cbn. rewrite Nat.eqb_refl, Hi. reflexivity.
    - destruct (Nat.eqb (tag X o) (length (trans G X s))) eqn:Ht.
      + cbn. rewrite Nat.eqb_refl, Hi. reflexivity.
      + destruct (Nat.leb (tag X o) (length (trans G X s))) eqn:Hl; [|reflexivity].
        cbn. rewrite !Nat.eqb_refl. reflexivity.
  Qed.

  (* saved and loaded outside every context: the data come back as they are *)
  Lemma save_load_outside (s : mst G X) i j o : trans G X s = [] -> heap G X s i = Some o -> tag X o = 0 ->
    save G X s i = Some o /\ value_read (read (load G X s j o) j) = Some (Some (dat X o)).
  Proof.
    intros Ht Hi Htag. split; [exact Hi|].
    unfold value_read, Model.C04.read, Model.C04.to_current, load, set_new. cbn [heap trans].
    rewrite Nat.eqb_refl. unfold depth; cbn [trans]. rewrite Ht, Htag. cbn.
    destruct (prot X o); cbn; rewrite Nat.eqb_refl; reflexivity.
  Qed.
End Parcel.

(* ---- witnesses on a small instance: the group (Z,+) acting on Z by translation ----------------- *)
Definition zrun := run18 Z Z 0%Z Z.add Z.opp (fun g x => (x + g)%Z).
Definition zfresh : mst Z Z * files Z := (mkM Z Z [] [] (fun _ => None), fun _ => None).

(* object 1 (value 7) is read (10) and saved inside the context of object 0 (shift 3); after the
   context the loaded copy cannot be read although the original can *)
Lemma saved_in_context_unreadable_outside :
  snd (zrun zfresh [ONew Z Z 0 5%Z; ONew Z Z 1 7%Z; OEnter Z Z 0 3%Z; ORead Z Z 1; OSave Z Z 1 0; OLeave Z Z;
                    OLoad Z Z 0 2; ORead Z Z 2; ORead Z Z 1])
  = [Val Z 1 10%Z; Err Z 2; Val Z 1 7%Z].
Proof. vm_compute. reflexivity. Qed.

(* loaded inside the same context it reads correctly there (10) but is not registered: after the
   context it keeps the tag of the left basis *)
Lemma loaded_in_context_stale_outside :
  snd (zrun zfresh [ONew Z Z 0 5%Z; ONew Z Z 1 7%Z; OEnter Z Z 0 3%Z; ORead Z Z 1; OSave Z Z 1 0; OLoad Z Z 0 2;
                    ORead Z Z 2; OLeave Z Z; ORead Z Z 2; ORead Z Z 1])
  = [Val Z 1 10%Z; Val Z 2 10%Z; Err Z 2; Val Z 1 7%Z].
Proof. vm_compute. reflexivity. Qed.

(* saved in one context (shift 3) and loaded in another one (shift 5): no error, but the copy shows
   10 where the original shows 12 *)
Lemma saved_in_context_mislabelled_in_another :
  snd (zrun zfresh [ONew Z Z 0 5%Z; ONew Z Z 1 7%Z; OEnter Z Z 0 3%Z; ORead Z Z 1; OSave Z Z 1 0; OLeave Z Z;
                    OEnter Z Z 0 5%Z; OLoad Z Z 0 2; ORead Z Z 2; ORead Z Z 1])
  = [Val Z 1 10%Z; Val Z 2 10%Z; Val Z 1 12%Z].
Proof. vm_compute. reflexivity. Qed.

(* saved outside, loaded inside a context: transformed on first read, registered, restored on exit *)
Lemma saved_outside_loaded_inside_ok :
  snd (zrun zfresh [ONew Z Z 0 5%Z; ONew Z Z 1 7%Z; OSave Z Z 1 0; OEnter Z Z 0 3%Z; OLoad Z Z 0 2; ORead Z Z 2;
                    ORead Z Z 1; OLeave Z Z; ORead Z Z 2])
  = [Val Z 2 10%Z; Val Z 1 10%Z; Val Z 2 7%Z].
Proof. vm_compute. reflexivity. Qed.

(* ---- savedir / loaddir sessions ---------------------------------------------------------------- *)
Lemma tag_eqb_eq a b : tag_eqb a b = true -> a = b.
Proof. destruct a, b; cbn; intro H; try discriminate H; f_equal; [now apply Z.eqb_eq | now apply Nat.eqb_eq]. Qed.
Lemma tag_eqb_refl a : tag_eqb a a = true.
Proof. destruct a; cbn; [apply Z.eqb_refl | apply Nat.eqb_refl]. Qed.

Section Dir.
  Variable O : Type.
  Notation table := (table O).
  Notation dirs := (dirs O).

  Lemma tget_tset_same (t : table) k x : tget O (tset O t k x) k = Some x.
  Proof.
    induction t as [|[k' y] t IH]; cbn; [now rewrite tag_eqb_refl|].
    destruct (tag_eqb k' k) eqn:E; cbn; rewrite E; [reflexivity | exact IH].
  Qed.
  Lemma tget_tset_other (t : table) k x k' : tag_eqb k' k = false -> tget O (tset O t k x) k' = tget O t k'.
  Proof.
    intro Hne. induction t as [|[k0 y] t IH]; cbn.
    - destruct (tag_eqb k k') eqn:E; [|reflexivity]. apply tag_eqb_eq in E. subst. now rewrite tag_eqb_refl in Hne.
    - destruct (tag_eqb k0 k) eqn:E; cbn.
      + destruct (tag_eqb k0 k') eqn:E2; [|reflexivity].
        apply tag_eqb_eq in E, E2. subst. now rewrite tag_eqb_refl in Hne.
      + destruct (tag_eqb k0 k'); [reflexivity | exact IH].
  Qed.

  Definition tab_of (s : dirs) (d : nat) : table := match s d with Some t => t | None => [] end.

  (* one successful savedir (either variant): the object is in the table of that directory under the
     tag reported, every other tag of that directory and every other directory are as before *)
  Lemma savedir_spec v (s s' : dirs) d tag x k : savedir O v s d tag x = (s', DSaved k) ->
    s' d = Some (tset O (tab_of s d) k x) /\
    tget O (tab_of s' d) k = Some x /\
    (forall k', tag_eqb k' k = false -> tget O (tab_of s' d) k' = tget O (tab_of s d) k') /\
    (forall d', d' <> d -> s' d' = s d') /\
    (tag = Some k \/ (tag = None /\ auto_tag O v (tab_of s d) = Some k)).
  Proof.
    unfold savedir. fold (tab_of s d).
    destruct tag as [k0|]; [|destruct (auto_tag O v (tab_of s d)) as [k0|] eqn:Ea]; intro H; try discriminate H;
      injection H as <- <-;
      assert (Hd : (if Nat.eqb d d then Some (tset O (tab_of s d) k0 x) else s d) = Some (tset O (tab_of s d) k0 x))
        by (now rewrite Nat.eqb_refl);
      (repeat split;
       [ exact Hd
       | unfold tab_of at 1; rewrite Hd; apply tget_tset_same
       | intros k' Hk; unfold tab_of at 1; rewrite Hd; now apply tget_tset_other
       | intros d' Hd'; apply Nat.eqb_neq in Hd'; now rewrite Hd'
       | ]); [now left | now right].
  Qed.

  (* the first savedir into a directory that does not exist: its table lists that object only, the
     automatic tag is 1 (either variant) *)
  Lemma savedir_fresh v (s : dirs) d tag x : s d = None ->
    exists k, savedir O v s d tag x = (fun d' => if Nat.eqb d' d then Some [(k, x)] else s d', DSaved k) /\
              (tag = None -> k = TInt 1) /\ (forall k0, tag = Some k0 -> k = k0).
  Proof.
    intro H. unfold savedir. rewrite H. destruct tag as [k0|]; cbn.
    - exists k0. repeat split; [discriminate | intros k1 E; now injection E].
    - exists (TInt 1). destruct v; repeat split; intros k0 E; discriminate E.
  Qed.

  (* what a directory holds after any session depends only on the savedir calls into THAT directory *)
  Lemma dstep_other v (s : dirs) o d : target O o <> d -> fst (dstep O v s o) d = s d.
  Proof.
    destruct o as [d0 tag x|d0]; cbn; intro Hd; [|reflexivity].
    unfold savedir. destruct (match tag with Some k => Some k | None => auto_tag O v _ end); cbn; [|reflexivity].
    apply Nat.eqb_neq in Hd. rewrite Nat.eqb_sym in Hd. now rewrite Hd.
  Qed.
  Lemma dstep_same v (s1 s2 : dirs) o d : target O o = d -> s1 d = s2 d ->
    fst (dstep O v s1 o) d = fst (dstep O v s2 o) d /\ snd (dstep O v s1 o) = snd (dstep O v s2 o).
  Proof.
    destruct o as [d0 tag x|d0]; cbn; intros <- H.
    - unfold savedir. rewrite H.
      destruct (match tag with Some k => Some k | None => auto_tag O v _ end); cbn; [|now split].
      rewrite Nat.eqb_refl. now split.
    - rewrite H. now split.
  Qed.

  Lemma drun_cons v (s : dirs) o h :
    drun O v s (o :: h) = (fst (drun O v (fst (dstep O v s o)) h),
                           snd (dstep O v s o) :: snd (drun O v (fst (dstep O v s o)) h)).
  Proof. cbn [drun]. destruct (dstep O v s o) as [s1 r]. cbn [fst snd]. destruct (drun O v s1 h). reflexivity. Qed.

  Lemma directories_independent v h : forall (s1 s2 : dirs) d, s1 d = s2 d ->
    fst (drun O v s1 h) d = fst (drun O v s2 (filter (fun o => Nat.eqb (target O o) d) h)) d.
  Proof.
    induction h as [|o h IH]; intros s1 s2 d H; [exact H|].
    rewrite drun_cons. cbn [fst filter].
    destruct (Nat.eqb (target O o) d) eqn:E.
    - apply Nat.eqb_eq in E. rewrite drun_cons. cbn [fst]. apply IH.
      now destruct (dstep_same v s1 s2 o d E H).
    - apply Nat.eqb_neq in E. apply IH. now rewrite dstep_other.
  Qed.

  (* ---- the repaired automatic tag ---- *)
  Lemma fold_max_ge zs : forall z0, (z0 <= fold_left Z.max zs z0)%Z /\
                                     forall z, In z zs -> (z <= fold_left Z.max zs z0)%Z.
  Proof.
    induction zs as [|a zs IH]; intro z0; cbn; [split; [lia | tauto]|].
    destruct (IH (Z.max z0 a)) as [H1 H2]. split; [lia|].
    intros z [<-|Hz]; [lia | now apply H2].
  Qed.
  Lemma tget_int_key (t : table) z y : tget O t (TInt z) = Some y -> In z (int_keys O t).
  Proof.
    induction t as [|[k0 y0] t IH]; cbn; [discriminate|].
    destruct (tag_eqb k0 (TInt z)) eqn:E.
    - intros _. apply tag_eqb_eq in E. subst k0. unfold int_keys; cbn. now left.
    - intro H. unfold int_keys; cbn. apply in_or_app. right. now apply IH.
  Qed.

  (* never fails, and the tag it yields is not a key of the table *)
  Lemma auto_tag_repaired_free (t : table) :
    exists z, auto_tag O TagRepaired t = Some (TInt z) /\ tget O t (TInt z) = None.
  Proof.
    unfold auto_tag. eexists; split; [reflexivity|].
    destruct (tget O t (TInt _)) as [y|] eqn:E; [|reflexivity]. exfalso.
    apply tget_int_key in E. destruct (int_keys O t) as [|z0 zs]; [exact E|].
    destruct (fold_max_ge zs z0) as [H1 H2]. destruct E as [E|E]; [lia|]. specialize (H2 _ E). lia.
  Qed.

  (* savedir without tag (repaired): always succeeds, and every (tag, object) of the directory's
     table before the call is still there after it - no earlier object is lost *)
  Lemma savedir_auto_repaired (s : dirs) d x :
    exists s' k, savedir O TagRepaired s d None x = (s', DSaved k) /\
                 tget O (tab_of s d) k = None /\
                 tget O (tab_of s' d) k = Some x /\
                 forall k' y, tget O (tab_of s d) k' = Some y -> tget O (tab_of s' d) k' = Some y.
  Proof.
    destruct (auto_tag_repaired_free (tab_of s d)) as (z & Ha & Hfree).
    assert (Hs : savedir O TagRepaired s d None x =
                 (fun d' => if Nat.eqb d' d then Some (tset O (tab_of s d) (TInt z) x) else s d', DSaved (TInt z))).
    { unfold savedir. fold (tab_of s d). now rewrite Ha. }
    eexists _, _. split; [exact Hs|]. destruct (savedir_spec _ _ _ _ _ _ _ Hs) as (_ & H2 & H3 & _).
    repeat split; [exact Hfree | exact H2 |].
    intros k' y Hy. rewrite H3; [exact Hy|].
    destruct (tag_eqb k' (TInt z)) eqn:E; [|reflexivity]. apply tag_eqb_eq in E. subst k'. congruence.
  Qed.
End Dir.

(* pinned: an automatic tag continues from the LAST key of the table, not from the largest: after tags
   1, 3, 2 the fourth object takes tag 3 and the second one is lost; repaired: it takes tag 4 *)
Lemma auto_tag_overwrites :
  snd (drun nat TagPinned (no_dirs nat) [SaveDir 0 None 10; SaveDir 0 (Some (TInt 3)) 11; SaveDir 0 (Some (TInt 2)) 12;
                                         SaveDir 0 None 13; LoadDir 0])
  = [DSaved (TInt 1); DSaved (TInt 3); DSaved (TInt 2); DSaved (TInt 3);
     DLoaded [(TInt 1, 10); (TInt 3, 13); (TInt 2, 12)]] /\
  snd (drun nat TagRepaired (no_dirs nat) [SaveDir 0 None 10; SaveDir 0 (Some (TInt 3)) 11; SaveDir 0 (Some (TInt 2)) 12;
                                           SaveDir 0 None 13; LoadDir 0])
  = [DSaved (TInt 1); DSaved (TInt 3); DSaved (TInt 2); DSaved (TInt 4);
     DLoaded [(TInt 1, 10); (TInt 3, 11); (TInt 2, 12); (TInt 4, 13)]].
Proof. split; vm_compute; reflexivity. Qed.
(* pinned: after a string tag the automatic tag cannot be formed (TypeError), nothing is written;
   repaired: the object gets tag 1 *)
Lemma auto_tag_after_string_fails :
  snd (drun nat TagPinned (no_dirs nat) [SaveDir 0 (Some (TStr 0)) 10; SaveDir 0 None 11; LoadDir 0])
  = [DSaved (TStr 0); DErr; DLoaded [(TStr 0, 10)]] /\
  snd (drun nat TagRepaired (no_dirs nat) [SaveDir 0 (Some (TStr 0)) 10; SaveDir 0 None 11; LoadDir 0])
  = [DSaved (TStr 0); DSaved (TInt 1); DLoaded [(TStr 0, 10); (TInt 1, 11)]].
Proof. split; vm_compute; reflexivity. Qed.

(* ---- part E: dtype of the packed array, dispatch by kind ------------------------------------------ *)
Lemma through_by_kind A v f wa d : through A v f wa d = through_k A v (kind_of f) wa d.
Proof. destruct f; cbn; try reflexivity; destruct d; try reflexivity; unfold text_ndmin; destruct (wa && text_axis_ndmin2 v); reflexivity. Qed.

Section TypedP.
  Variable A : Type.
  Variable cast : dty -> A -> A.
  Hypothesis cast_mono : forall t t' x, dt_le t t' = true -> fits A cast t x -> fits A cast t' x.
  Lemma dt_le_join_l a b : dt_le a (dt_join a b) = true.
  Proof. destruct a, b; reflexivity. Qed.
  Lemma dt_le_join_r a b : dt_le b (dt_join a b) = true.
  Proof. destruct a, b; reflexivity. Qed.
  Lemma map_fits t l : Forall (fits A cast t) l -> map (cast t) l = l.
  Proof. induction 1 as [|x l Hx _ IH]; cbn; [reflexivity|]. now rewrite Hx, IH. Qed.
  Lemma Forall_mono t t' l : dt_le t t' = true -> Forall (fits A cast t) l -> Forall (fits A cast t') l.
  Proof. intros Hle H. induction H; constructor; [eapply cast_mono; eauto | assumption]. Qed.
  Lemma map_map_fits t rows : Forall (fits A cast t) (concat rows) -> map (map (cast t)) rows = rows.
  Proof.
    induction rows as [|r rows IH]; cbn; [reflexivity|]. intro H. apply Forall_app in H. destruct H as [H1 H2].
    now rewrite map_fits, IH.
  Qed.
  Lemma pack_t_lossless td ta ax d : Forall (fits A cast td) (flat A d) -> Forall (fits A cast ta) ax ->
    pack_t A cast (dt_join td ta) ax d = pack A ax d.
  Proof.
    intros Hd Ha. unfold pack_t.
    apply (Forall_mono _ _ _ (dt_le_join_l td ta)) in Hd. apply (Forall_mono _ _ _ (dt_le_join_r td ta)) in Ha.
    rewrite (map_fits _ _ Ha). destruct d as [x|l|w rows]; cbn [amap flat] in *.
    - reflexivity.
    - now rewrite (map_fits _ _ Hd).
    - now rewrite (map_map_fits _ _ Hd).
  Qed.
End TypedP.

Lemma zcast_mono : forall t t' x, dt_le t t' = true -> fits _ zcast t x -> fits _ zcast t' x.
Proof. intros [] [] [a b]; cbn; unfold fits; cbn; intros H1 H2; try discriminate H1; try exact H2; reflexivity. Qed.
Lemma pack_axis_dtype_loses :
  pack_t _ zcast DReal [(1, 0)%Z; (2, 0)%Z] (A2 1 [[(5, 7)%Z]; [(6, 8)%Z]]) = Some (A2 2 [[(1, 0); (5, 0)]; [(2, 0); (6, 0)]]%Z) /\
  pack_t _ zcast (dt_join DCplx DReal) [(1, 0)%Z; (2, 0)%Z] (A2 1 [[(5, 7)%Z]; [(6, 8)%Z]]) = Some (A2 2 [[(1, 0); (5, 7)]; [(2, 0); (6, 8)]]%Z).
Proof. split; reflexivity. Qed.
