(* The orthogonality of the powers of a root of unity - the hypothesis of the inversion / round-trip theorems of Base/Dft.v and
   Props/C13.v - holds in every integral domain in which zeta is a PRIMITIVE L-th root of unity:
       (w - 1) * sum_{k<L} w^k = w^L - 1 = 0   and   w = zeta^a <> 1   for a not divisible by L.
   So "orthogonality" is no assumption about exp(2 pi i / L) beyond: C has no zero divisors and exp(2 pi i a / L) <> 1 unless L | a. *)
From Coq Require Import ZArith List Bool Arith Lia.
From QV Require Import Base.Alg Base.Sums Base.Dft.

Section OrthFromPrimitive.
  Context {R : StarRing}.
  Add Ring Rorth : (rth R).
  Open Scope sr_scope.
  Variable L : nat.
  Hypothesis Lpos : L <> 0%nat.
  Variable zeta : R.
  Hypothesis zeta_L : pow zeta L = 1.
  Hypothesis domain : forall x y : R, x * y = 0 -> x = 0 \/ y = 0.
  Hypothesis primitive : forall a : Z, (a mod Z.of_nat L <> 0)%Z -> zpow L zeta a <> 1.

  Lemma geometric (w : R) n : (w - 1) * sum n (fun k => pow w k) = pow w n - 1.
  Proof.
    induction n as [|n IH]; cbn [sum pow]; [ring|].
    replace ((w - 1) * (sum n (fun k => pow w k) + pow w n))
      with ((w - 1) * sum n (fun k => pow w k) + (w - 1) * pow w n) by ring.
    rewrite IH. ring.
  Qed.

  Lemma zpow_mul_nat a k : zpow L zeta (a * Z.of_nat k) = pow (zpow L zeta a) k.
  Proof.
    induction k as [|k IH]; cbn [pow].
    - replace (a * Z.of_nat 0)%Z with 0%Z by lia. apply (zpow_0 L Lpos zeta).
    - replace (a * Z.of_nat (S k))%Z with (a + a * Z.of_nat k)%Z by lia.
      rewrite (zpow_add L Lpos zeta zeta_L), IH. reflexivity.
  Qed.

  Lemma zpow_pow_L a : pow (zpow L zeta a) L = 1.
  Proof.
    rewrite <- zpow_mul_nat. rewrite <- (zpow_0 L Lpos zeta). apply zpow_congr.
    rewrite Z.mod_mul by lia. rewrite Z.mod_0_l by lia. reflexivity.
  Qed.

  Theorem orth_of_primitive : forall a : Z, (a mod Z.of_nat L <> 0)%Z ->
    sum L (fun k => zpow L zeta (a * Z.of_nat k)) = 0.
  Proof.
    intros a Ha. set (w := zpow L zeta a).
    rewrite (sum_ext L (fun k => zpow L zeta (a * Z.of_nat k)) (fun k => pow w k)) by (intros; apply zpow_mul_nat).
    pose proof (geometric w L) as Hg. unfold w in Hg at 3. rewrite zpow_pow_L in Hg.
    replace (1 - 1) with (r0 R) in Hg by ring.
    destruct (domain _ _ Hg) as [Hw|Hs]; [|exact Hs].
    exfalso. apply (primitive a Ha). fold w. transitivity (w - 1 + 1); [ring | rewrite Hw; ring].
  Qed.
End OrthFromPrimitive.

(* an instance: the Gaussian integers are an integral domain and i is a primitive fourth root of unity *)
Open Scope Z_scope.
Lemma gz_domain : forall x y : GZ, rmul GZ x y = r0 GZ -> x = r0 GZ \/ y = r0 GZ.
Proof.
  intros [a b] [c d] H. cbn in H. unfold gmul in H. cbn [fst snd] in H. injection H as H1 H2.
  cbn in H1, H2.
  assert (Hn : (a * a + b * b) * (c * c + d * d) = 0).
  { replace ((a * a + b * b) * (c * c + d * d)) with ((a * c - b * d) * (a * c - b * d) + (a * d + b * c) * (a * d + b * c)) by ring. rewrite H1, H2. reflexivity. }
  apply Z.mul_eq_0 in Hn. destruct Hn as [Hn|Hn]; [left|right].
  - assert (a = 0 /\ b = 0) as [-> ->] by nia. reflexivity.
  - assert (c = 0 /\ d = 0) as [-> ->] by nia. reflexivity.
Qed.
Lemma gi_pow4 : pow (gi ZR) 4 = r1 GZ.
Proof. vm_compute. reflexivity. Qed.
Lemma gi_primitive : forall a : Z, (a mod Z.of_nat 4 <> 0)%Z -> zpow 4 (gi ZR) a <> r1 GZ.
Proof.
  intros a Ha. unfold zpow. pose proof (Z.mod_pos_bound a (Z.of_nat 4) ltac:(lia)) as Hb.
  change (Z.of_nat 4) with 4 in *.
  assert (Hc : a mod 4 = 1 \/ a mod 4 = 2 \/ a mod 4 = 3) by lia.
  destruct Hc as [-> | [-> | ->]]; vm_compute; discriminate.
Qed.
