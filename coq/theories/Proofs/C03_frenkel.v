(* C03, part 2: the matrices filled by AggregateBase._build for two-level molecules are the Frenkel
   exciton Hamiltonian and the site-dipole transition operator, stated on signatures. *)
From Coq Require Import ZArith List Bool Arith Lia Permutation.
From QV Require Import Base.Alg Base.Sums Base.Mat Model.C03 Proofs.C03.
Import ListNotations.

(* ---------- positions where two signatures differ ---------- *)
Lemma diffs_filter a : forall b i, length a = length b ->
  diffs i a b = filter (fun j => negb (Nat.eqb (nth (j - i) a 0) (nth (j - i) b 0))) (seq i (length a)).
Proof.
  induction a as [|x a IH]; intros [|y b] i Hl; cbn [length] in Hl; try discriminate; [reflexivity|].
  cbn [diffs length seq filter]. rewrite Nat.sub_diag. cbn [nth].
  rewrite (IH b (S i)) by lia.
  assert (filter (fun j => negb (Nat.eqb (nth (j - S i) a 0) (nth (j - S i) b 0))) (seq (S i) (length a)) =
          filter (fun j => negb (Nat.eqb (nth (j - i) (x :: a) 0) (nth (j - i) (y :: b) 0))) (seq (S i) (length a))) as ->.
  { apply filter_ext_in. intros j Hj. apply in_seq in Hj. replace (j - i) with (S (j - S i)) by lia. reflexivity. }
  destruct (Nat.eqb x y); reflexivity.
Qed.

Definition neqb (s t : sig) (j : nat) : bool := negb (Nat.eqb (nth j s 0) (nth j t 0)).

Lemma diffs0 s t : length s = length t -> diffs 0 s t = filter (neqb s t) (seq 0 (length s)).
Proof.
  intros H. rewrite diffs_filter by exact H. apply filter_ext. intros j. unfold neqb. now rewrite Nat.sub_0_r.
Qed.

Lemma neqb_true s t j : neqb s t j = true <-> nth j s 0 <> nth j t 0.
Proof. unfold neqb. rewrite negb_true_iff, Nat.eqb_neq. reflexivity. Qed.

Lemma filter_none {A} (p : A -> bool) l : (forall x, In x l -> p x = false) -> filter p l = [].
Proof.
  induction l as [|a l IH]; intros H; cbn [filter]; [reflexivity|]. rewrite H by now left.
  apply IH. intros x Hx. apply H. now right.
Qed.

Lemma filter_seq_one p s n x : s <= x < s + n ->
  (forall i, s <= i < s + n -> (p i = true <-> i = x)) -> filter p (seq s n) = [x].
Proof.
  intros Hx Hp. replace n with ((x - s) + S (s + n - S x)) by lia. rewrite seq_app, filter_app.
  replace (s + (x - s)) with x by lia. cbn [seq filter].
  assert (p x = true) as -> by (apply Hp; [lia|reflexivity]).
  rewrite !filter_none; [reflexivity| |].
  - intros i Hi. apply in_seq in Hi. destruct (p i) eqn:E; [|reflexivity]. apply Hp in E; lia.
  - intros i Hi. apply in_seq in Hi. destruct (p i) eqn:E; [|reflexivity]. apply Hp in E; lia.
Qed.

Lemma filter_seq_two p n x y : x < y < n ->
  (forall i, i < n -> (p i = true <-> (i = x \/ i = y))) -> filter p (seq 0 n) = [x; y].
Proof.
  intros Hxy Hp. replace n with (x + S (n - S x)) by lia. rewrite seq_app, filter_app. cbn [Nat.add seq filter].
  assert (p x = true) as -> by (apply Hp; [lia|now left]).
  rewrite filter_none.
  2:{ intros i Hi. apply in_seq in Hi. destruct (p i) eqn:E; [|reflexivity]. apply Hp in E; lia. }
  cbn [app]. f_equal. apply filter_seq_one; [lia|]. intros i Hi. rewrite Hp by lia. lia.
Qed.

Lemma diffs_sym : forall s t i, diffs i s t = diffs i t s.
Proof.
  induction s as [|x s IH]; intros [|y t] i; cbn [diffs]; try reflexivity.
  rewrite (Nat.eqb_sym y x), IH. reflexivity.
Qed.

Lemma absdiff_sym : forall s t, absdiff s t = absdiff t s.
Proof. induction s as [|x s IH]; intros [|y t]; cbn [absdiff]; try reflexivity. rewrite IH. lia. Qed.

(* ---------- two-level signatures ---------- *)
Definition tl (N : nat) (s : sig) : Prop := length s = N /\ forall i, nth i s 0 <= 1.

Lemma tl_tail N x s : tl (S N) (x :: s) -> x <= 1 /\ tl N s.
Proof.
  intros [Hl Hb]. split; [exact (Hb 0)|]. split; [cbn [length] in Hl; lia|]. intros i. exact (Hb (S i)).
Qed.

Lemma absdiff_len_diffs : forall N s t i, tl N s -> tl N t -> absdiff s t = length (diffs i s t).
Proof.
  induction N as [|N IH]; intros s t i Hs Ht.
  - destruct Hs as [Hs _]. destruct s; [|discriminate]. reflexivity.
  - destruct s as [|x s]; [destruct Hs; discriminate|]. destruct t as [|y t]; [destruct Ht; discriminate|].
    apply tl_tail in Hs, Ht. destruct Hs as [Hx Hs]. destruct Ht as [Hy Ht]. cbn [absdiff diffs].
    rewrite (IH s t (S i) Hs Ht). destruct (Nat.eqb x y) eqn:E.
    + apply Nat.eqb_eq in E. lia.
    + apply Nat.eqb_neq in E. cbn [length]. lia.
Qed.

Lemma elsigs_tl N mult s : In s (elsigs (two_level N) mult) -> tl N s /\ band s <= mult.
Proof.
  intros H. apply elsigs_spec in H. destruct H as [[Hl Hb] Hm]. unfold two_level in *. rewrite repeat_length in Hl.
  split; [|exact Hm]. split; [exact Hl|]. intros i. specialize (Hb i). pose proof (nth_repeat1_le N i). lia.
Qed.

Lemma tl_elsigs N mult s : tl N s -> band s <= mult -> In s (elsigs (two_level N) mult).
Proof.
  intros [Hl Hb] Hm. apply elsigs_spec. split; [|exact Hm]. unfold two_level. split; [now rewrite repeat_length|].
  intros i. destruct (Nat.lt_ge_cases i N) as [L|L].
  - rewrite nth_repeat1 by exact L. apply Hb.
  - rewrite nth_overflow by lia. lia.
Qed.

Lemma band1_unit N s k : length s = N -> band s = 1 -> nth k s 0 = 1 -> s = unit_sig N k.
Proof.
  intros Hl Hb Hk. assert (1 <= nth k s 0) as H1 by lia. rewrite <- (raise_lower s k H1). unfold unit_sig. f_equal.
  pose proof (lower_sum s k H1) as Hs. unfold band in Hb.
  rewrite <- Hl, <- (lower_length s k). apply sum0_zeros. lia.
Qed.

Lemma band1_is_unit N s : tl N s -> band s = 1 -> exists k, k < N /\ s = unit_sig N k.
Proof.
  intros [Hl Hb] H1. destruct (exists_top s) as [p [Hp _]]; [unfold band in H1; lia|].
  exists p. split; [rewrite <- Hl; now apply nth_pos_lt|]. apply band1_unit; auto. specialize (Hb p). lia.
Qed.

(* ---------- relations between signatures ---------- *)
(* t is s with the excitation of molecule k moved to molecule l *)
Definition moved (s t : sig) (k l : nat) : Prop :=
  k <> l /\ nth k s 0 = 1 /\ nth k t 0 = 0 /\ nth l s 0 = 0 /\ nth l t 0 = 1 /\
  forall i, i <> k -> i <> l -> nth i s 0 = nth i t 0.
(* s and t differ in the state of molecule k only *)
Definition differ_at (s t : sig) (k : nat) : Prop :=
  nth k s 0 <> nth k t 0 /\ forall i, i <> k -> nth i s 0 = nth i t 0.

Lemma moved_sym s t k l : moved s t k l -> moved t s l k.
Proof. intros [H1 [H2 [H3 [H4 [H5 H6]]]]]. repeat split; auto. intros i Hi Hj. symmetry. now apply H6. Qed.

Lemma moved_band N s t k l : tl N s -> tl N t -> moved s t k l -> band s = band t.
Proof.
  intros [Ls _] [Lt _] [Hkl [Sk [Tk [Sl [Tl Ho]]]]].
  assert (1 <= nth k s 0) as H1 by lia. assert (l < N) as Hl by (rewrite <- Lt; apply nth_pos_lt; lia).
  assert (t = raise (lower s k) l) as ->.
  { apply sig_ext; [rewrite raise_length, lower_length; lia|]. intros i.
    destruct (Nat.eq_dec l i) as [<-|Nl].
    - rewrite raise_nth_same by (rewrite lower_length; lia). rewrite lower_nth_other by exact Hkl. lia.
    - rewrite raise_nth_other by exact Nl. destruct (Nat.eq_dec k i) as [<-|Nk].
      + rewrite lower_nth_same. lia.
      + rewrite lower_nth_other by exact Nk. symmetry. apply Ho; lia. }
  unfold band. rewrite raise_sum by (rewrite lower_length; lia). now rewrite lower_sum.
Qed.

Lemma moved_diffs N s t k l : tl N s -> tl N t -> moved s t k l ->
  diffs 0 s t = [Nat.min k l; Nat.max k l].
Proof.
  intros [Ls _] [Lt _] [Hkl [Sk [Tk [Sl [Tl Ho]]]]].
  assert (k < N) as Hk by (rewrite <- Ls; apply nth_pos_lt; lia).
  assert (l < N) as Hl by (rewrite <- Lt; apply nth_pos_lt; lia).
  rewrite diffs0 by lia. rewrite Ls.
  assert (forall x y, x < y < N -> (x = k /\ y = l) \/ (x = l /\ y = k) ->
            filter (neqb s t) (seq 0 N) = [x; y]) as Hgen.
  { intros x y Hxy Hc. apply filter_seq_two; [lia|]. intros i Hi. rewrite neqb_true. split.
    - intros Hne. destruct (Nat.eq_dec i k) as [->|Nk]; [lia|]. destruct (Nat.eq_dec i l) as [->|Nl]; [lia|].
      exfalso. apply Hne. now apply Ho.
    - intros [->| ->]; destruct Hc as [[-> ->]|[-> ->]]; lia. }
  destruct (Nat.lt_ge_cases k l) as [L|L].
  - rewrite Nat.min_l, Nat.max_r by lia. apply Hgen; [lia|now left].
  - rewrite Nat.min_r, Nat.max_l by lia. apply Hgen; [lia|now right].
Qed.

Lemma diffs_two_inv s t kk ll : length s = length t -> diffs 0 s t = [kk; ll] ->
  kk <> ll /\ nth kk s 0 <> nth kk t 0 /\ nth ll s 0 <> nth ll t 0 /\
  forall i, i <> kk -> i <> ll -> nth i s 0 = nth i t 0.
Proof.
  intros Hl H. rewrite diffs0 in H by exact Hl.
  assert (NoDup [kk; ll]) as Hnd by (rewrite <- H; apply NoDup_filter, seq_NoDup).
  assert (forall i, In i [kk; ll] <-> (i < length s /\ nth i s 0 <> nth i t 0)) as Hin.
  { intros i. rewrite <- H, filter_In, in_seq, neqb_true. split; intros [? ?]; split; auto; lia. }
  split; [inversion Hnd as [|? ? Hn _]; subst; intros ->; apply Hn; now left|].
  split; [apply Hin; now left|]. split; [apply Hin; right; now left|].
  intros i Hk Hll. destruct (Nat.eq_dec (nth i s 0) (nth i t 0)) as [E|NE]; [exact E|].
  destruct (Nat.lt_ge_cases i (length s)) as [L|L].
  - assert (In i [kk; ll]) as Hi by (apply Hin; auto). destruct Hi as [<-|[<-|[]]]; contradiction.
  - rewrite !nth_overflow by lia. reflexivity.
Qed.

Lemma diffs_one_inv s t l : length s = length t -> diffs 0 s t = [l] -> differ_at s t l.
Proof.
  intros Hl H. rewrite diffs0 in H by exact Hl.
  assert (forall i, In i [l] <-> (i < length s /\ nth i s 0 <> nth i t 0)) as Hin.
  { intros i. rewrite <- H, filter_In, in_seq, neqb_true. split; intros [? ?]; split; auto; lia. }
  split; [apply Hin; now left|]. intros i Hi.
  destruct (Nat.eq_dec (nth i s 0) (nth i t 0)) as [E|NE]; [exact E|].
  destruct (Nat.lt_ge_cases i (length s)) as [L|L].
  - assert (In i [l]) as Hi' by (apply Hin; auto). destruct Hi' as [<-|[]]. contradiction.
  - rewrite !nth_overflow by lia. reflexivity.
Qed.

Lemma differ_diffs N s t k : tl N s -> tl N t -> differ_at s t k -> diffs 0 s t = [k].
Proof.
  intros [Ls _] [Lt _] [Hk Ho].
  assert (k < N) as HkN.
  { destruct (Nat.lt_ge_cases k N) as [L|L]; [exact L|]. rewrite !nth_overflow in Hk by lia. contradiction. }
  rewrite diffs0 by lia. rewrite Ls. apply filter_seq_one; [lia|]. intros i Hi. rewrite neqb_true. split.
  - intros Hne. destruct (Nat.eq_dec i k) as [E|NE]; [exact E|]. exfalso. apply Hne. now apply Ho.
  - intros ->. exact Hk.
Qed.

(* differing in exactly one molecule = one excitation more or less *)
Lemma differ_band N s t k : tl N s -> tl N t -> differ_at s t k ->
  (band s - band t) + (band t - band s) = 1.
Proof.
  intros [Ls Bs] [Lt Bt] [Hk Ho].
  assert (k < N) as HkN.
  { destruct (Nat.lt_ge_cases k N) as [L|L]; [exact L|]. rewrite !nth_overflow in Hk by lia. contradiction. }
  pose proof (Bs k) as B1. pose proof (Bt k) as B2.
  assert (forall a b : sig, length a = N -> length b = N -> nth k a 0 = 0 -> nth k b 0 = 1 ->
            (forall i, i <> k -> nth i a 0 = nth i b 0) -> band b = S (band a)) as Hlem.
  { intros a b La Lb Ha Hb Hab. assert (b = raise a k) as ->.
    { apply sig_ext; [now rewrite raise_length, La|]. intros i. destruct (Nat.eq_dec k i) as [<-|NE].
      - rewrite raise_nth_same by lia. lia.
      - rewrite raise_nth_other by exact NE. symmetry. apply Hab. lia. }
    unfold band. apply raise_sum. lia. }
  destruct (Nat.eq_dec (nth k s 0) 0) as [S0|S1].
  - rewrite (Hlem s t Ls Lt S0 ltac:(lia) Ho). lia.
  - rewrite (Hlem t s Lt Ls ltac:(lia) ltac:(lia)); [lia|]. intros i Hi. symmetry. now apply Ho.
Qed.

Lemma two_level_ok N : forall i, i < length (two_level N) -> 1 <= nth i (two_level N) 0.
Proof. unfold two_level. rewrite repeat_length. intros i Hi. rewrite nth_repeat1 by exact Hi. lia. Qed.

Lemma two_level_single_index N mult k : 1 <= mult -> k < N ->
  nth (S k) (elsigs (two_level N) mult) [] = unit_sig N k /\ S k < length (elsigs (two_level N) mult).
Proof.
  intros Hm Hk. pose proof (elsigs_single_index (two_level N) mult k (two_level_ok N) Hm) as H.
  assert (length (two_level N) = N) as EL by apply repeat_length. rewrite EL in H. now apply H.
Qed.

Section Frenkel.
  Context {R : StarRing}.
  Add Ring Rr : (rth R).
  Variable N : nat.
  Variable E : nat -> nat -> R.
  Variable J : nat -> nat -> R.
  Variable dip : nat -> nat -> R.
  Variable sqrtf : nat -> R.
  Hypothesis sqrt_1 : sqrtf 1 = r1 R.

  (* ---- statements that hold for every list of signatures ---- *)
  Lemma H_diag (sigs : list sig) a : build_H N E J sqrtf sigs a a = energy N E (nth a sigs []).
  Proof. unfold build_H. now rewrite Nat.eqb_refl. Qed.

  Lemma coupling_sym s i t j : (forall k l, J k l = J l k) ->
    coupling N J sqrtf s i t j (r1 R) = coupling N J sqrtf t j s i (r1 R).
  Proof.
    intros Js. unfold coupling. destruct (Nat.ltb 1 N); [|reflexivity].
    rewrite (Nat.eqb_sym (band t) (band s)). destruct (Nat.eqb (band s) (band t)) eqn:Eb; [|reflexivity].
    apply Nat.eqb_eq in Eb. rewrite <- Eb. destruct (Nat.eqb (band s) 1).
    - destruct i as [|kk], j as [|ll]; try reflexivity. now rewrite (Js kk ll).
    - rewrite (diffs_sym t s), (absdiff_sym t s).
      destruct (diffs 0 s t) as [|kk [|ll [|? ?]]]; try reflexivity.
      destruct (Nat.eqb (absdiff s t) 2); [|reflexivity].
      rewrite (Nat.max_comm (nth kk t 0)), (Nat.max_comm (nth ll t 0)). reflexivity.
  Qed.

  Lemma H_sym (sigs : list sig) a b : (forall k l, J k l = J l k) ->
    build_H N E J sqrtf sigs a b = build_H N E J sqrtf sigs b a.
  Proof.
    intros Js. unfold build_H. rewrite (Nat.eqb_sym b a). destruct (Nat.eqb a b) eqn:Eab.
    - apply Nat.eqb_eq in Eab. now subst.
    - now apply coupling_sym.
  Qed.

  Lemma H_interband (sigs : list sig) a b : band (nth a sigs []) <> band (nth b sigs []) -> build_H N E J sqrtf sigs a b = r0 R.
  Proof.
    intros Hb. unfold build_H. destruct (Nat.eqb a b) eqn:Eab; [apply Nat.eqb_eq in Eab; subst; contradiction|].
    unfold coupling. destruct (Nat.ltb 1 N); [|reflexivity]. apply Nat.eqb_neq in Hb. now rewrite Hb.
  Qed.

  (* real parameters give a real matrix *)
  Lemma H_real (sigs : list sig) a b : (forall k n, is_real R (E k n)) -> (forall k l, is_real R (J k l)) ->
    (forall n, is_real R (sqrtf n)) -> is_real R (build_H N E J sqrtf sigs a b).
  Proof.
    intros HE HJ Hq. unfold build_H. destruct (Nat.eqb a b).
    - unfold energy, is_real. rewrite sum_cj. apply sum_ext. intros i _. apply HE.
    - unfold coupling. destruct (Nat.ltb 1 N); [|apply real_0]. destruct (Nat.eqb _ _); [|apply real_0].
      destruct (Nat.eqb _ 1).
      + destruct a; [apply real_0|]. destruct b; [apply real_0|]. apply real_mul; [apply HJ|apply real_1].
      + destruct (diffs 0 _ _) as [|kk [|ll [|? ?]]]; try apply real_0.
        destruct (Nat.eqb _ 2); [|apply real_0].
        apply real_mul; [apply HJ|]. apply real_mul; [apply real_1|]. apply real_mul; apply Hq.
  Qed.

  (* ---- two-level molecules, any multiplicity ---- *)
  Variable mult : nat.
  Let sigs := elsigs (two_level N) mult.

  Lemma sig_at a : a < length sigs -> tl N (nth a sigs []) /\ band (nth a sigs []) <= mult.
  Proof. intros H. apply elsigs_tl. now apply nth_In. Qed.

  Lemma index_unique a b : a < length sigs -> b < length sigs -> nth a sigs [] = nth b sigs [] -> a = b.
  Proof. intros Ha Hb. apply (proj1 (NoDup_nth sigs [])); [apply elsigs_nodup|exact Ha|exact Hb]. Qed.

  (* a singly excited state with the excitation on molecule k has index 1 + k *)
  Lemma single_index a k : a < length sigs -> nth a sigs [] = unit_sig N k -> k < N -> a = S k.
  Proof.
    intros Ha Hs Hk. destruct (sig_at a Ha) as [_ Hm]. rewrite Hs, unit_band in Hm by exact Hk.
    destruct (two_level_single_index N mult k Hm Hk) as [H1 H2].
    apply index_unique; [exact Ha|exact H2|]. unfold sigs in *. now rewrite H1.
  Qed.

  Lemma H_move a b k l : (forall k l, J k l = J l k) -> a < length sigs -> b < length sigs ->
    moved (nth a sigs []) (nth b sigs []) k l -> build_H N E J sqrtf sigs a b = J k l.
  Proof.
    intros Js Ha Hb Hm. destruct (sig_at a Ha) as [Ts _]. destruct (sig_at b Hb) as [Tt _].
    set (s := nth a sigs []) in *. set (t := nth b sigs []) in *.
    pose proof Hm as [Hkl [Sk [Tk [Sl [Tl Ho]]]]].
    assert (k < N) as HkN by (destruct Ts as [Ls _]; rewrite <- Ls; apply nth_pos_lt; lia).
    assert (l < N) as HlN by (destruct Tt as [Lt _]; rewrite <- Lt; apply nth_pos_lt; lia).
    unfold build_H. fold s t.
    assert (Nat.eqb a b = false) as ->.
    { apply Nat.eqb_neq. intros ->. unfold s, t in *. lia. }
    unfold coupling. assert (Nat.ltb 1 N = true) as -> by (apply Nat.ltb_lt; lia).
    rewrite <- (moved_band N s t k l Ts Tt Hm), Nat.eqb_refl.
    destruct (Nat.eqb (band s) 1) eqn:E1.
    - apply Nat.eqb_eq in E1.
      assert (s = unit_sig N k) as Hs by (apply band1_unit; [apply Ts|exact E1|exact Sk]).
      assert (t = unit_sig N l) as Ht.
      { apply band1_unit; [apply Tt| |exact Tl]. now rewrite <- (moved_band N s t k l Ts Tt Hm). }
      rewrite (single_index a k Ha Hs HkN), (single_index b l Hb Ht HlN). ring.
    - rewrite (moved_diffs N s t k l Ts Tt Hm).
      rewrite (absdiff_len_diffs N s t 0 Ts Tt), (moved_diffs N s t k l Ts Tt Hm). cbn [length Nat.eqb].
      destruct (Nat.min_spec k l) as [[? ->]|[? ->]]; destruct (Nat.max_spec k l) as [[? ->]|[? ->]]; try lia.
      + rewrite Sk, Tk, Sl, Tl. cbn [Nat.max]. rewrite sqrt_1. ring.
      + rewrite Sk, Tk, Sl, Tl. cbn [Nat.max]. rewrite sqrt_1, (Js l k). ring.
  Qed.

  Lemma H_zero a b : a < length sigs -> b < length sigs -> a <> b ->
    (forall k l, ~ moved (nth a sigs []) (nth b sigs []) k l) -> build_H N E J sqrtf sigs a b = r0 R.
  Proof.
    intros Ha Hb Hab Hnm. destruct (sig_at a Ha) as [Ts _]. destruct (sig_at b Hb) as [Tt _].
    assert (nth a sigs [] <> nth b sigs []) as Hne by (intros H; apply Hab; now apply index_unique).
    set (s := nth a sigs []) in *. set (t := nth b sigs []) in *.
    unfold build_H. fold s t. apply Nat.eqb_neq in Hab. rewrite Hab. unfold coupling.
    destruct (Nat.ltb 1 N); [|reflexivity]. destruct (Nat.eqb (band s) (band t)) eqn:Eb; [|reflexivity].
    apply Nat.eqb_eq in Eb. destruct (Nat.eqb (band s) 1) eqn:E1.
    - exfalso. apply Nat.eqb_eq in E1.
      destruct (band1_is_unit N s Ts E1) as [k [Hk Hs]].
      destruct (band1_is_unit N t Tt ltac:(lia)) as [l [Hl Ht]].
      apply (Hnm k l). rewrite Hs, Ht. assert (k <> l) as Hkl by (intros ->; apply Hne; congruence).
      unfold moved. rewrite !unit_nth_same by assumption. rewrite !unit_nth_other by auto.
      repeat split; auto. intros i Hik Hil. now rewrite !unit_nth_other by auto.
    - destruct (diffs 0 s t) as [|kk [|ll [|? ?]]] eqn:Ed; try reflexivity.
      exfalso. destruct Ts as [Ls Bs]. destruct Tt as [Lt Bt].
      destruct (diffs_two_inv s t kk ll ltac:(lia) Ed) as [Hkl [Dk [Dl Ho]]].
      pose proof (Bs kk). pose proof (Bt kk). pose proof (Bs ll). pose proof (Bt ll).
      destruct (Nat.eq_dec (nth kk s 0) 1) as [Sk|Sk]; destruct (Nat.eq_dec (nth ll s 0) 1) as [Sl|Sl].
      + (* both lowered: band t + 2 = band s *)
        assert (t = lower (lower s kk) ll) as Ht.
        { apply sig_ext; [rewrite !lower_length; lia|]. intros i. destruct (Nat.eq_dec ll i) as [<-|Nl].
          - rewrite lower_nth_same, lower_nth_other by auto. lia.
          - rewrite lower_nth_other by exact Nl. destruct (Nat.eq_dec kk i) as [<-|Nk].
            + rewrite lower_nth_same. lia.
            + rewrite lower_nth_other by exact Nk. symmetry. apply Ho; auto. }
        assert (1 <= nth kk s 0) as P1 by lia.
        assert (1 <= nth ll (lower s kk) 0) as P2 by (rewrite lower_nth_other by auto; lia).
        pose proof (lower_sum s kk P1). pose proof (lower_sum (lower s kk) ll P2).
        unfold band in Eb. rewrite Ht in Eb. lia.
      + apply (Hnm kk ll). unfold moved. repeat split; auto; lia.
      + apply (Hnm ll kk). unfold moved. repeat split; auto; try lia; intros i Hi1 Hi2; apply Ho; auto.
      + assert (s = lower (lower t kk) ll) as Hs.
        { apply sig_ext; [rewrite !lower_length; lia|]. intros i. destruct (Nat.eq_dec ll i) as [<-|Nl].
          - rewrite lower_nth_same, lower_nth_other by auto. lia.
          - rewrite lower_nth_other by exact Nl. destruct (Nat.eq_dec kk i) as [<-|Nk].
            + rewrite lower_nth_same. lia.
            + rewrite lower_nth_other by exact Nk. apply Ho; auto. }
        assert (1 <= nth kk t 0) as P1 by lia.
        assert (1 <= nth ll (lower t kk) 0) as P2 by (rewrite lower_nth_other by auto; lia).
        pose proof (lower_sum t kk P1). pose proof (lower_sum (lower t kk) ll P2).
        unfold band in Eb. rewrite Hs in Eb. lia.
  Qed.

  (* ---- transition dipole operator ---- *)
  Lemma D_one a b k c : a < length sigs -> b < length sigs ->
    differ_at (nth a sigs []) (nth b sigs []) k -> build_D dip sigs c a b = dip k c.
  Proof.
    intros Ha Hb Hd. destruct (sig_at a Ha) as [Ts _]. destruct (sig_at b Hb) as [Tt _].
    unfold build_D, trdip, exindx. rewrite (differ_band N _ _ k Ts Tt Hd). cbn [Nat.eqb negb andb].
    rewrite (differ_diffs N _ _ k Ts Tt Hd). ring.
  Qed.

  Lemma D_zero a b c : a < length sigs -> b < length sigs ->
    (forall k, ~ differ_at (nth a sigs []) (nth b sigs []) k) -> build_D dip sigs c a b = r0 R.
  Proof.
    intros Ha Hb Hn. destruct (sig_at a Ha) as [[Ls _] _]. destruct (sig_at b Hb) as [[Lt _] _].
    unfold build_D, trdip, exindx. destruct (negb _ && negb _); [reflexivity|].
    destruct (diffs 0 (nth a sigs []) (nth b sigs [])) as [|l [|? ?]] eqn:Ed; try reflexivity.
    exfalso. apply (Hn l). apply diffs_one_inv; [lia|exact Ed].
  Qed.

  Lemma D_adjacent_bands a b c : a < length sigs -> b < length sigs ->
    (band (nth a sigs []) - band (nth b sigs [])) + (band (nth b sigs []) - band (nth a sigs [])) <> 1 ->
    build_D dip sigs c a b = r0 R.
  Proof.
    intros Ha Hb Hn. apply D_zero; auto. intros k Hd.
    destruct (sig_at a Ha) as [Ts _]. destruct (sig_at b Hb) as [Tt _].
    apply Hn. exact (differ_band N _ _ k Ts Tt Hd).
  Qed.
End Frenkel.
