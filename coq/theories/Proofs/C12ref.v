(* C12: with unequal dephasings and Lorentzian lines the pinned dephasing tables break the cancellation *)
From Coq Require Import ZArith List Bool Lia.
From QV Require Import Base.Alg Base.Util Model.C19 Model.C12.
Import ListNotations.

Lemma lorentz_unequal_refuted :
  let L : bool -> bool -> ZR -> ZR -> ZR -> ZR -> ZR := fun _ _ c1 _ _ g3 => (c1 * g3)%Z in
  let neg (x : ZR) := Z.ltb x 0 in
  let om (a : nat) : ZR := (Z.of_nat a + 9)%Z in
  let dip (a : nat) : @vec3 ZR := (1, 0, 0)%Z in
  let wd (a : nat) : ZR := 1%Z in
  let ga (a : nat) : ZR := (Z.of_nat a + 1)%Z in
  let FM : @vec3 ZR := (4, -1, -1)%Z in
  response L neg 1%Z false FM (gen6 (usys 2 om dip wd ga (fun _ _ => 1%Z) (fun _ => true))) <>
  (response L neg 1%Z false FM (gen4 (monomer om dip wd ga (fun _ => true) 0)) +
   response L neg 1%Z false FM (gen4 (monomer om dip wd ga (fun _ => true) 1)))%Z.
Proof. vm_compute. discriminate. Qed.
