(* Carriers and library lemmas for the model GENERATED from quantarhei/core/parallel.py by harness/translate_c20.py:
   outcomes of the translated helpers, Python's slice semantics, the facts about [range_of] the generated lemmas need,
   and the tactic that decides a generated if-tree against the hand-written model.  No definition here mentions the
   expected content of the code: that content arrives in the generated file and is compared with Model/C20.v and
   Model/C20regions.v there. *)
From Coq Require Import ZArith List Bool Lia ZifyBool.
From QV Require Import Model.C20 Proofs.C20 Model.C20regions.
Import ListNotations.
Open Scope Z_scope.

(* what a translated helper does: raise, return range(a,b), return a slice / the whole sequence (by item index),
   return the list of (reported index, item index) pairs *)
Inductive outcome := ORaised | ORange (l : list Z) | OItems (l : list Z) | OIndexed (l : list (Z * Z)).

(* what a translated reduction does *)
Inductive routcome := QRaised | QUntouched | QSummed.

(* Python's seq[lo:hi] on a sequence of length len, as the list of selected positions *)
Definition pyclip (len k : Z) : Z := if k <? 0 then Z.max (k + len) 0 else Z.min k len.
Definition pyslice (len lo hi : Z) : list Z := zrange (pyclip len lo) (pyclip len hi).

Lemma pyslice_within len lo hi : 0 <= lo <= len -> 0 <= hi <= len -> pyslice len lo hi = zrange lo hi.
Proof.
  intros Hl Hh. unfold pyslice, pyclip.
  destruct (lo <? 0) eqn:E1; destruct (hi <? 0) eqn:E2; try lia.
  rewrite !Z.min_l by lia. reflexivity.
Qed.

Lemma pyslice_whole len : 0 <= len -> pyslice len 0 len = zrange 0 len.
Proof. intros H. apply pyslice_within; lia. Qed.

(* the expected views of the model's outcome *)
Definition as_range (h : handed) : outcome := match h with Refused => ORaised | Handed l => ORange l end.
Definition as_items (return_index : bool) (h : handed) : outcome :=
  match h with
  | Refused => ORaised
  | Handed l => if return_index then OIndexed (map (fun a => (a, a)) l) else OItems l
  end.
Definition as_rmode (m : rmode) : routcome := match m with RRefused => QRaised | RSummed => QSummed | RUntouched => QUntouched end.

(* every block of [0, len) lies inside [0, len] *)
Lemma range_of_within size len rank : 1 <= size -> 0 <= len -> 0 <= rank < size ->
  0 <= fst (range_of FromStart size 0 len rank) <= len /\ 0 <= snd (range_of FromStart size 0 len rank) <= len.
Proof.
  intros Hs Hl Hr.
  pose proof (block_nonneg size 0 len rank Hs Hl Hr) as Hn.
  rewrite range_of_fst, range_of_snd in *.
  pose proof (rem_bounds size 0 len Hs) as Hb. pose proof (per_rem size 0 len Hs) as Hd.
  pose proof (per_nonneg size 0 len Hs Hl) as Hp.
  set (p := per size 0 len) in *. set (m := rem size 0 len) in *.
  destruct (rank <=? m) eqn:E1; destruct (rank =? 0) eqn:E2; nia.
Qed.

Lemma slice_is_block size len rank : 1 <= size -> 0 <= len -> 0 <= rank < size ->
  pyslice len (fst (range_of FromStart size 0 len rank)) (snd (range_of FromStart size 0 len rank)) = block FromStart size 0 len rank.
Proof.
  intros Hs Hl Hr. destruct (range_of_within size len rank Hs Hl Hr) as [H1 H2].
  rewrite pyslice_within by assumption. unfold block. destruct (range_of FromStart size 0 len rank); reflexivity.
Qed.

Lemma block_as_zrange v size start stop rank :
  zrange (fst (range_of v size start stop rank)) (snd (range_of v size start stop rank)) = block v size start stop rank.
Proof. unfold block. destruct (range_of v size start stop rank); reflexivity. Qed.

Lemma app_nil_map {A B} (f : A -> B) l : [] ++ map f l = map f l.
Proof. reflexivity. Qed.

(* ---- deciding an if-tree: split every condition of the goal, refute the impossible combinations by linear
   arithmetic over the recorded boolean equations (ZifyBool), close the others by computation ---- *)
Ltac split_cond c :=
  lazymatch c with
  | andb ?a _ => split_cond a
  | orb ?a _ => split_cond a
  | negb ?a => split_cond a
  | _ => let E := fresh "E" in destruct c eqn:E
  end.
Ltac split_ifs :=
  repeat (match goal with
          | |- context [if ?c then _ else _] => split_cond c
          end; cbn [andb orb negb] in *; try (exfalso; lia)).
Ltac decide_tree := cbv zeta; split_ifs; try reflexivity; try (repeat f_equal; lia).

(* parallel regions: the model's step as a triple *)
Definition step_triple (sh : bool) (level region : Z) (o : rop) : Z * Z * bool :=
  let r := r_step sh (mkR level region) o in (r_level (fst r), r_region (fst r), snd r).
