(* Uncoupled sites: a diagonal Hamiltonian and diagonal system parts of the bath couplings (projectors on the sites).  The right-hand
   side of the hierarchy then acts on every matrix element separately: element (a,b) of every ADO obeys a scalar hierarchy whose
   coefficients are the differences / sums of the diagonal entries - this is what makes the model exactly solvable - and the
   populations (a = b) of the reduced density matrix do not move at all, for any depth, step and expansion order.  The scalar
   hierarchy is carried through the whole propagation loop by a simulation lemma for the Taylor loop of Base/Taylor.v. *)
From Coq Require Import ZArith List Bool Arith Lia.
From QV Require Import Base.Alg Base.Sums Base.Mat Base.Taylor Model.C16 Proofs.C16 Proofs.C16rhs.
Import ListNotations.

(* ---- two Taylor loops related step by step stay related ---- *)
Section TaylorSim.
  Variable S V W : Type.
  Variable vadd : V -> V -> V.
  Variable vstep : S -> V -> V.          (* c, x |-> c . G x *)
  Variable wadd : W -> W -> W.
  Variable wstep : S -> W -> W.
  Variable Rel : V -> W -> Prop.
  Hypothesis rel_add : forall x y x' y', Rel x x' -> Rel y y' -> Rel (vadd x y) (wadd x' y').
  Hypothesis rel_step : forall c x x', Rel x x' -> Rel (vstep c x) (wstep c x').

  Notation tloopV := (tloop vadd (fun c x => vstep c x) (fun x => x)).
  Notation tloopW := (tloop wadd (fun c x => wstep c x) (fun x => x)).

  Lemma tloop_sim prefs r1 r2 s1 s2 : Rel r1 s1 -> Rel r2 s2 ->
    Rel (fst (tloopV prefs r1 r2)) (fst (tloopW prefs s1 s2)) /\ Rel (snd (tloopV prefs r1 r2)) (snd (tloopW prefs s1 s2)).
  Proof.
    revert r1 r2 s1 s2; induction prefs as [|c cs IH]; intros r1 r2 s1 s2 H1 H2; cbn [tloop fst snd]; [split; assumption|].
    apply IH; [apply rel_step; exact H1|apply rel_add; [exact H2|apply rel_step; exact H1]].
  Qed.

  Lemma tstep_sim prefs r s : Rel r s ->
    Rel (tstep vadd (fun c x => vstep c x) (fun x => x) prefs r) (tstep wadd (fun c x => wstep c x) (fun x => x) prefs s).
  Proof. intros H. unfold tstep. now apply tloop_sim. Qed.

  Lemma titer_sim k prefs r s : Rel r s ->
    Rel (titer vadd (fun c x => vstep c x) (fun x => x) k prefs r) (titer wadd (fun c x => wstep c x) (fun x => x) k prefs s).
  Proof. revert r s; induction k as [|k IH]; intros r s H; cbn [titer]; [exact H|]. apply IH. now apply tstep_sim. Qed.

  Lemma traj_sim nsteps nref prefs r s : Rel r s ->
    Forall2 Rel (traj vadd (fun c x => vstep c x) (fun x => x) nsteps nref prefs r)
                (traj wadd (fun c x => wstep c x) (fun x => x) nsteps nref prefs s).
  Proof.
    revert r s; induction nsteps as [|m IH]; intros r s H; cbn [traj]; constructor; auto.
    apply IH. now apply titer_sim.
  Qed.
End TaylorSim.

Section Diag.
  Context {R : StarRing}.
  Add Ring Rrd16 : (rth R).
  Open Scope sr_scope.
  Variable dim nb : nat.
  Variable H : list mi.
  Variable HH : @mat R.
  Variable Vs : nat -> @mat R.
  Variable ii : R.
  Variables lam gam : nat -> R.
  Variables kBT two : R.

  Notation rhs := (rhs dim nb H HH Vs ii lam gam kBT two).
  Notation Gamma := (Gamma nb H gam).

  Definition diagonal (A : @mat R) : Prop := forall i j, (i < dim)%nat -> (j < dim)%nat -> i <> j -> A i j = 0.

  Lemma mmul_diag_l A B a b : diagonal A -> (a < dim)%nat -> (b < dim)%nat -> mmul dim A B a b = A a a * B a b.
  Proof.
    intros HA Ha Hb. unfold mmul. apply (sum_single dim a (fun k => A a k * B k b) Ha).
    intros i Hi Hne. rewrite (HA a i Ha Hi); [ring|congruence].
  Qed.

  Lemma mmul_diag_r A B a b : diagonal A -> (a < dim)%nat -> (b < dim)%nat -> mmul dim B A a b = B a b * A b b.
  Proof.
    intros HA Ha Hb. unfold mmul. apply (sum_single dim b (fun k => B a k * A k b) Hb).
    intros i Hi Hne. rewrite (HA i b Hi Hb Hne). ring.
  Qed.

  Lemma comm_diag A B a b : diagonal A -> (a < dim)%nat -> (b < dim)%nat -> comm dim A B a b = (A a a - A b b) * B a b.
  Proof. intros HA Ha Hb. unfold comm, msub. rewrite (mmul_diag_l A B a b HA Ha Hb), (mmul_diag_r A B a b HA Ha Hb). ring. Qed.

  Lemma acomm_diag A B a b : diagonal A -> (a < dim)%nat -> (b < dim)%nat -> acomm dim A B a b = (A a a + A b b) * B a b.
  Proof. intros HA Ha Hb. unfold acomm, madd. rewrite (mmul_diag_l A B a b HA Ha Hb), (mmul_diag_r A B a b HA Ha Hb). ring. Qed.

  Hypothesis HH_diag : diagonal HH.
  Hypothesis Vs_diag : forall k, diagonal (Vs k).

  (* the scalar hierarchy of one matrix element: w = h_a - h_b, da k = v_k,a - v_k,b, sa k = v_k,a + v_k,b *)
  Definition x_at (x : nat -> R) (j : option nat) : R := match j with Some i => x i | None => x (length H - 1)%nat end.
  Definition scalar_term (da sa : nat -> R) (dt : R) (x : nat -> R) (n k : nat) : R :=
    let nk := nth k (nth n H []) 0%nat in
    let jm := nm1 H n k in
    (if (Nat.eqb nk 0) || (match jm with Some _ => true | None => false end)
     then dt * ofnat nk * lam k * gam k * (sa k * x_at x jm) + ii * dt * two * ofnat nk * lam k * kBT * (da k * x_at x jm)
     else 0)
    + match np1 H n k with Some (S j) => ii * dt * (da k * x (S j)) | _ => 0 end.
  Definition scalar_rhs (w : R) (da sa : nat -> R) (dt : R) (x : nat -> R) (n : nat) : R :=
    sum nb (fun k => scalar_term da sa dt x n k) + (- dt) * (ii * (w * x n) + Gamma n * x n).

  Theorem rhs_elementwise dt ado n a b : (a < dim)%nat -> (b < dim)%nat ->
    rhs dt ado n a b =
    scalar_rhs (HH a a - HH b b) (fun k => Vs k a a - Vs k b b) (fun k => Vs k a a + Vs k b b) dt (fun m => ado m a b) n.
  Proof.
    intros Ha Hb. unfold C16.rhs, scalar_rhs, madd. f_equal.
    - unfold cros_rhs. apply sum_ext. intros k Hk. unfold C16.cros_term, scalar_term, madd. cbv zeta. f_equal.
      + destruct (Nat.eqb (nth k (nth n H []) 0%nat) 0 || match nm1 H n k with Some _ => true | None => false end); [|reflexivity].
        unfold mscale.
        rewrite (acomm_diag (Vs k) (ado_at H ado (nm1 H n k)) a b (Vs_diag k) Ha Hb),
                (comm_diag (Vs k) (ado_at H ado (nm1 H n k)) a b (Vs_diag k) Ha Hb).
        unfold ado_at, x_at. destruct (nm1 H n k); ring.
      + destruct (np1 H n k) as [[|j]|]; try reflexivity.
        unfold mscale. rewrite (comm_diag (Vs k) (ado (S j)) a b (Vs_diag k) Ha Hb). ring.
    - unfold self_rhs, mscale, madd. rewrite (comm_diag HH (ado n) a b HH_diag Ha Hb). ring.
  Qed.

  Hypothesis root : nth 0 H [] = repeat 0%nat nb.

  (* populations of the reduced density matrix: the right-hand side of ADO 0 has a vanishing diagonal *)
  Theorem rhs_root_population_zero dt ado a : (a < dim)%nat -> rhs dt ado 0%nat a a = 0.
  Proof.
    intros Ha. rewrite (rhs_elementwise dt ado 0%nat a a Ha Ha). unfold scalar_rhs.
    rewrite (@Gamma_root R nb H gam root).
    rewrite sum_0_ext; [ring|]. intros k Hk. unfold scalar_term. cbv zeta.
    rewrite root, nth_repeat0. change (ofnat (R:=R) 0) with (r0 R). cbn [Nat.eqb orb].
    destruct (np1 H 0 k) as [[|j]|]; ring.
  Qed.

  Theorem heom_populations_constant prefs nsteps ado0 a : (a < dim)%nat ->
    Forall (fun ado => ado 0%nat a a = ado0 0%nat a a) (heom_traj dim nb H HH Vs ii lam gam kBT two prefs nsteps ado0).
  Proof.
    intros Ha. unfold heom_traj.
    apply (traj_functional R (nat -> @mat R) (ado_add) (fun c x => rhs c x) (fun x => x) R (fun ado => ado 0%nat a a) (radd R) 0).
    - intros x; ring.
    - intros x y. reflexivity.
    - intros c x. now apply rhs_root_population_zero.
  Qed.

  (* every matrix element of the whole propagation is the propagation of its own scalar hierarchy *)
  Definition scalar_traj (w : R) (da sa : nat -> R) (prefs : list R) (nsteps : nat) (x0 : nat -> R) : list (nat -> R) :=
    traj (fun x y n => x n + y n) (fun c x => scalar_rhs w da sa c x) (fun x => x) nsteps 1 prefs x0.

  Theorem heom_elementwise prefs nsteps ado0 a b : (a < dim)%nat -> (b < dim)%nat ->
    Forall2 (fun ado x => forall n, ado n a b = x n)
            (heom_traj dim nb H HH Vs ii lam gam kBT two prefs nsteps ado0)
            (scalar_traj (HH a a - HH b b) (fun k => Vs k a a - Vs k b b) (fun k => Vs k a a + Vs k b b) prefs nsteps (fun n => ado0 n a b)).
  Proof.
    intros Ha Hb. unfold heom_traj, scalar_traj.
    apply (traj_sim R (nat -> @mat R) (nat -> R) ado_add (fun c x => rhs c x) (fun x y n => x n + y n)
             (fun c x => scalar_rhs (HH a a - HH b b) (fun k => Vs k a a - Vs k b b) (fun k => Vs k a a + Vs k b b) c x)
             (fun ado x => forall n, ado n a b = x n)).
    - intros x y x' y' Hx Hy n. unfold ado_add, madd. now rewrite Hx, Hy.
    - intros c x x' Hx n. rewrite (rhs_elementwise c x n a b Ha Hb). unfold scalar_rhs. f_equal.
      + apply sum_ext. intros k Hk. unfold scalar_term. cbv zeta. unfold x_at.
        destruct (nm1 H n k); destruct (np1 H n k) as [[|j]|]; rewrite ?Hx; reflexivity.
      + now rewrite Hx.
    - intros n. reflexivity.
  Qed.
End Diag.
