(* Constructors of the relaxation tensors, for the static tie of C15 (harness/translate_c15ctor.py).

   The effect model (Model/C15.v) treats the construction of a tensor as one uninterpreted symbol applied to the fields it
   reads (KRedfield, KFoerster, KRedFoe, KLindblad, KRate); the only write to a shared object it attributes to a
   constructor is the cache of first integrals sbi.CC._hofts that the Foerster constructors fill (the statement
   (CCHofts, KC2H Sbi) of relt_body F / TDF).  [ctor_assumed] states this per constructor; the generated file compares
   it with what the analysis of the constructors' source finds written through the arguments. *)
From Coq Require Import List Bool Arith.
From QV Require Import Model.C15 Proofs.C15 Proofs.C15gen.
Import ListNotations.

Inductive ctor :=
  | CRedfield | CTDRedfield | CFoerster | CTDFoerster | CRedFoe | CTDRedFoe | CLindblad | CRateM.

Definition ctor_code (c : ctor) : nat :=
  match c with
  | CRedfield => 0 | CTDRedfield => 1 | CFoerster => 2 | CTDFoerster => 3 | CRedFoe => 4 | CTDRedFoe => 5
  | CLindblad => 6 | CRateM => 7
  end.
Definition ctor_eqb (a b : ctor) : bool := Nat.eqb (ctor_code a) (ctor_code b).
Definition all_ctors : list ctor :=
  [CRedfield; CTDRedfield; CFoerster; CTDFoerster; CRedFoe; CTDRedFoe; CLindblad; CRateM].

(* fields of the shared objects a constructor may write through its arguments (ham, sbi) *)
Definition ctor_assumed (c : ctor) : list field :=
  match c with CFoerster | CTDFoerster => [CCHofts] | _ => [] end.

(* the constructor behind a tensor kind, and behind a call of the property *)
Definition ctor_of_tk (k : tk) : ctor :=
  match k with
  | T | TS | O => CRedfield | TD | TDO => CTDRedfield | F => CFoerster | TDF => CTDFoerster | CRF => CRedFoe
  | LF => CLindblad
  end.
Definition ctor_of_shape (s : shape) : option ctor :=
  match s with
  | RelT k => Some (ctor_of_tk k)
  | RelTFail FailCRFTD => Some CTDRedFoe
  | RateM => Some CRateM
  | _ => None
  end.

(* no constructor is assumed to write an input field *)
Lemma ctor_assumed_no_input : forall c f, In f (ctor_assumed c) -> is_input f = false.
Proof.
  intros c f H. destruct c; cbn in H; try contradiction; destruct H as [H | []]; subst f; reflexivity.
Qed.

(* what a constructor is assumed to write is written by the model's program of every call that runs it *)
Lemma ctor_assumed_in_model : forall s c, ctor_of_shape s = Some c ->
  forallb (fun f => mem_field f (model_written s)) (ctor_assumed c) = true.
Proof.
  intros s c H. destruct s as [k|p| | | | | |e|k|w| |p big| | |rp fr|e]; try discriminate H.
  - injection H as <-. destruct k; vm_compute; reflexivity.
  - destruct w; try discriminate H. injection H as <-. vm_compute; reflexivity.
  - injection H as <-. vm_compute; reflexivity.
Qed.

(* every constructor listed is the constructor of a call of the property *)
Lemma all_ctors_used :
  forallb (fun c => existsb (fun s => api s && match ctor_of_shape s with Some c' => ctor_eqb c c' | None => false end)
                            (RelT LF :: api_shapes)) all_ctors = true.
Proof. vm_compute. reflexivity. Qed.

Lemma fl_eqb_eq : forall a b, fl_eqb a b = true -> a = b.
Proof.
  induction a as [|x a IH]; destruct b as [|y b]; cbn; intro H; try reflexivity; try discriminate H.
  apply andb_true_iff in H as [H1 H2]. apply field_eqb_eq in H1. subst y. f_equal. now apply IH.
Qed.
