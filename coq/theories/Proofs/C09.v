From Coq Require Import ZArith List Bool QArith Lia.
From QV Require Import Base.Alg Model.C09.
Import ListNotations.

Section Proofs.
  Context {R : StarRing}.
  Add Ring Rr : (rth R).
  Open Scope sr_scope.
  Variable gen : nat -> @comp R -> R.
  Notation cf := (@cf R).
  Notation comp := (@comp R).

  Definition own (c : comp) : R := gen (ftype c) c.
  Definition suml (f : comp -> R) (cs : list comp) : R := lsumR (map f cs).

  Lemma lsumR_app (l m : list R) : lsumR (l ++ m) = lsumR l + lsumR m.
  Proof.
    induction l as [|x l IH].
    - change (lsumR ([] ++ m)) with (lsumR m). change (lsumR []) with (r0 R). ring.
    - change (lsumR ((x :: l) ++ m)) with (x + lsumR (l ++ m)). change (lsumR (x :: l)) with (x + lsumR l). rewrite IH. ring.
  Qed.
  Lemma suml_app f a b : suml f (a ++ b) = suml f a + suml f b.
  Proof. unfold suml. now rewrite map_app, lsumR_app. Qed.
  Lemma suml_cons f c cs : suml f (c :: cs) = f c + suml f cs.
  Proof. reflexivity. Qed.

  Definition all_temp (t : Z) (cs : list comp) : Prop := Forall (fun c => ctemp c = t) cs.

  (* the second loop of the constructor, started from any accumulator *)
  Lemma loop_spec (cs all : list comp) (l : R) (t : Z) (q : Q) (d : R) (first : bool) :
    all_temp t cs ->
    fold_left (fun acc c => make_one gen (ftype c) acc c) cs (Some (mkCf all l (if first then None else Some t) q d)) =
    Some (mkCf all (l + suml (@clam R) cs) (match cs with [] => if first then None else Some t | _ => Some t end)
               (fold_left qmax (map (@ccut R) cs) q) (d + suml own cs)).
  Proof.
    revert l q d first. induction cs as [|c cs IH]; intros l q d first Hall; cbn [fold_left map].
    - f_equal. f_equal; unfold suml; cbn [map]; change (lsumR []) with (r0 R); ring.
    - inversion Hall as [|? ? Hc Hcs]; subst.
      assert (make_one gen (ftype c) (Some (mkCf all l (if first then None else Some (ctemp c)) q d)) c
              = Some (mkCf all (l + clam c) (Some (ctemp c)) (qmax q (ccut c)) (d + own c))) as ->.
      { unfold make_one. cbn [temp comps lamb cutoff data]. destruct first; [reflexivity|]. now rewrite Z.eqb_refl. }
      rewrite (IH (l + clam c) (qmax q (ccut c)) (d + own c) false Hcs). cbv iota.
      f_equal. rewrite !suml_cons. f_equal; try ring. destruct cs; reflexivity.
  Qed.

  Definition built (cs : list comp) (t : Z) : cf :=
    mkCf cs (suml (@clam R) cs) (Some t) (lmaxQ (map (@ccut R) cs)) (suml own cs).

  (* what the (repaired) constructor builds from a non-empty list of components at one temperature *)
  Lemma ctor_spec (cs : list comp) (t : Z) : cs <> [] -> all_temp t cs -> ctor gen OwnFtype cs = Some (built cs t).
  Proof.
    intros Hne Hall. unfold ctor. rewrite (loop_spec cs cs 0 t 0%Q 0 true Hall). unfold built, lmaxQ.
    destruct cs; [contradiction|]. f_equal. f_equal; ring.
  Qed.

  (* mixed temperatures are refused by the constructor *)
  Lemma loop_None (cs : list comp) : fold_left (fun acc c => make_one gen (ftype c) acc c) cs None = None.
  Proof. induction cs as [|c cs IH]; cbn [fold_left]; [reflexivity|exact IH]. Qed.

  Lemma ctor_mixed_refused (cs1 cs2 : list comp) (c : comp) (t : Z) : cs1 <> [] -> all_temp t cs1 -> ctemp c <> t ->
    ctor gen OwnFtype (cs1 ++ c :: cs2) = None.
  Proof.
    intros Hne Hall Hc. unfold ctor. rewrite fold_left_app.
    rewrite (loop_spec cs1 (cs1 ++ c :: cs2) 0 t 0%Q 0 true Hall). cbn [fold_left].
    destruct cs1; [contradiction|]. unfold make_one. cbn [temp]. apply Z.eqb_neq in Hc. rewrite Z.eqb_sym in Hc. rewrite Hc.
    apply loop_None.
  Qed.

  (* an object is analytically parameterised when rebuilding it from its parameters gives it back *)
  Definition consistent (o : cf) : Prop := ctor gen OwnFtype (comps o) = Some o.

  Lemma built_consistent cs t : cs <> [] -> all_temp t cs -> consistent (built cs t).
  Proof. intros; unfold consistent; cbn [comps built]. now apply ctor_spec. Qed.

  (* a + b for a consistent left operand and ANY right operand at the same temperature *)
  Lemma add_spec (a b : cf) : consistent a -> temp_eqb (temp a) (temp b) = true ->
    add gen OwnFtype a b =
    Some (mkCf (comps a ++ comps b) (lamb a + lamb b) (temp a) (qmax (cutoff a) (cutoff b)) (data a + data b)).
  Proof. intros Ha Ht. unfold add. rewrite Ha. unfold add_to_data. now rewrite Ht. Qed.

  Lemma add_refused (a b : cf) : temp_eqb (temp a) (temp b) = false -> consistent a -> add gen OwnFtype a b = None.
  Proof. intros Ht Ha. unfold add. rewrite Ha. unfold add_to_data. now rewrite Ht. Qed.

  Lemma fold_qmax_app l m q : fold_left qmax (l ++ m) q = fold_left qmax m (fold_left qmax l q).
  Proof. apply fold_left_app. Qed.

  Lemma qmax_assoc a b c : qmax (qmax a b) c = qmax a (qmax b c).
  Proof.
    unfold qmax. destruct (Qle_bool a b) eqn:E1; destruct (Qle_bool b c) eqn:E2; rewrite ?E1, ?E2; try reflexivity.
    - assert (Qle_bool a c = true) as -> by (apply Qle_bool_iff; apply Qle_bool_iff in E1, E2; eapply Qle_trans; eauto). reflexivity.
    - destruct (Qle_bool a c) eqn:E3; [|reflexivity].
      exfalso. apply Qle_bool_iff in E3. assert (Qle_bool b c = true); [|congruence].
      apply Qle_bool_iff. apply Qnot_le_lt in E1 || (destruct (Qlt_le_dec b a) as [H|H]; [|apply Qle_bool_iff in H; congruence]).
      all: try (apply Qlt_le_weak; eapply Qlt_le_trans; eauto).
  Qed.

  Lemma fold_qmax_from l q : fold_left qmax l q = qmax q (fold_left qmax l 0%Q) \/ True.
  Proof. right; exact I. Qed.

  (* sums of two consistent objects at one temperature are consistent: additions can be chained *)
  Lemma add_built cs1 cs2 t : cs1 <> [] -> cs2 <> [] -> all_temp t cs1 -> all_temp t cs2 ->
    exists r, add gen OwnFtype (built cs1 t) (built cs2 t) = Some r /\
      comps r = cs1 ++ cs2 /\ lamb r = suml (@clam R) (cs1 ++ cs2) /\ data r = suml own (cs1 ++ cs2) /\ temp r = Some t.
  Proof.
    intros H1 H2 A1 A2. eexists. split.
    - apply add_spec; [now apply built_consistent|]. cbn [temp built temp_eqb]. apply Z.eqb_refl.
    - cbn [comps lamb data temp built]. rewrite !suml_app. repeat split.
  Qed.

  (* ---- expression trees: data and reorganisation energy of the result are the sums over the leaves,
     whatever the grouping ---- *)
  Fixpoint leaf_comps (e : @expr R) : list comp :=
    match e with Leaf o => comps o | Plus a b => leaf_comps a ++ leaf_comps b end.
  Fixpoint all_leaves (P : cf -> Prop) (e : @expr R) : Prop :=
    match e with Leaf o => P o | Plus a b => all_leaves P a /\ all_leaves P b end.

  (* a leaf that is analytically parameterised: its data are what its parameters generate *)
  Definition good_leaf (t : Z) (o : cf) : Prop :=
    comps o <> [] /\ all_temp t (comps o) /\ temp o = Some t /\
    lamb o = suml (@clam R) (comps o) /\ data o = suml own (comps o).

  Lemma built_good cs t : cs <> [] -> all_temp t cs -> good_leaf t (built cs t).
  Proof. intros; unfold good_leaf; cbn [comps temp lamb data built]; repeat split; assumption. Qed.

  Theorem eval_tree t (e : @expr R) : all_leaves (good_leaf t) e ->
    exists r, eval gen OwnFtype e = Some r /\ good_leaf t r /\ comps r = leaf_comps e.
  Proof.
    induction e as [o|a IHa b IHb]; cbn [all_leaves leaf_comps eval].
    - intros H. exists o. repeat split; try apply H.
    - intros [Ha Hb]. destruct (IHa Ha) as [ra [Ea [[Na [Aa [Ta [La Da]]]] Ca]]].
      destruct (IHb Hb) as [rb [Eb [[Nb [Ab [Tb [Lb Db]]]] Cb]]].
      rewrite Ea, Eb. unfold add. rewrite (ctor_spec (comps ra) t Na Aa). unfold add_to_data.
      cbn [temp built]. rewrite Tb. cbn [temp_eqb]. rewrite Z.eqb_refl.
      eexists. split; [reflexivity|]. unfold good_leaf. cbn [comps temp lamb data built].
      rewrite !suml_app, Lb, Db, Ca, Cb. repeat split.
      + intros H. apply app_eq_nil in H. destruct H as [H _]. rewrite <- Ca in H. contradiction.
      + apply Forall_app. rewrite <- Ca, <- Cb. split; assumption.
  Qed.

  (* any two groupings of the same leaves give the same data, reorganisation energy and component list *)
  Corollary grouping_irrelevant t (e1 e2 : @expr R) :
    all_leaves (good_leaf t) e1 -> all_leaves (good_leaf t) e2 -> leaf_comps e1 = leaf_comps e2 ->
    exists r1 r2, eval gen OwnFtype e1 = Some r1 /\ eval gen OwnFtype e2 = Some r2 /\
      data r1 = data r2 /\ lamb r1 = lamb r2 /\ comps r1 = comps r2 /\ temp r1 = temp r2.
  Proof.
    intros H1 H2 Hl. destruct (eval_tree t e1 H1) as [r1 [E1 [[_ [_ [T1 [L1 D1]]]] C1]]].
    destruct (eval_tree t e2 H2) as [r2 [E2 [[_ [_ [T2 [L2 D2]]]] C2]]].
    exists r1, r2. repeat split; try assumption; congruence.
  Qed.

  (* in-place addition *)
  Lemma iadd_spec io (x y : cf) : temp_eqb (temp x) (temp y) = true ->
    iadd io x y = (mkCf (comps x ++ comps y) (lamb x + lamb y) (temp x) (qmax (cutoff x) (cutoff y)) (data x + data y), false).
  Proof. intros H. unfold iadd. now rewrite H. Qed.

  Lemma iadd_refused_unchanged (x y : cf) : temp_eqb (temp x) (temp y) = false -> iadd CheckThenMutate x y = (x, true).
  Proof. intros H. unfold iadd. now rewrite H. Qed.

  Lemma iadd_self_doubles io cs t : cs <> [] -> all_temp t cs ->
    exists r, iadd_self gen OwnFtype io (built cs t) = Some (r, false) /\ data r = suml own cs + suml own cs /\
      lamb r = suml (@clam R) cs + suml (@clam R) cs /\ comps r = cs ++ cs.
  Proof.
    intros Hn Ha. unfold iadd_self. cbn [comps built]. rewrite (ctor_spec cs t Hn Ha).
    rewrite iadd_spec by (cbn [temp built temp_eqb]; apply Z.eqb_refl). eexists. split; [reflexivity|]. repeat split.
  Qed.
End Proofs.

(* ---- refutations on the faithful pinned variants, over the integers ---- *)
Definition gen_demo (f : nat) (c : @comp ZR) : ZR := (Z.of_nat f * 100 + Z.of_nat (cid c))%Z.

Lemma stale_dispatch_witness :
  let a := mkComp (R:=ZR) 1 300%Z 10%Z 5%Q 1 in let b := mkComp (R:=ZR) 2 300%Z 20%Z 7%Q 2 in
  option_map (@data ZR) (ctor gen_demo StaleFtype [a; b]) = Some 403%Z /\
  option_map (@data ZR) (ctor gen_demo OwnFtype [a; b]) = Some 303%Z.
Proof. vm_compute. split; reflexivity. Qed.

Lemma iadd_mutates_before_refusing_witness :
  let x := mkCf (R:=ZR) [] 10%Z (Some 300%Z) 1%Q 5%Z in let y := mkCf (R:=ZR) [] 1%Z (Some 77%Z) 1%Q 2%Z in
  iadd MutateThenCheck x y = (mkCf (R:=ZR) [] 11%Z (Some 300%Z) 1%Q 7%Z, true).
Proof. vm_compute. reflexivity. Qed.
