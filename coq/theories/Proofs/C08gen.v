(* Statement skeletons of evolutionsuperoperator.py's time-independent path with the arithmetic content as parameters,
   and the lemmas that turn "the content is the expected one" into equality with Model/C08.v.
   harness/translate2.py instantiates the parameters from the current source on every run. *)
From Coq Require Import ZArith List Bool Arith Lia.
From QV Require Import Base.Alg Base.Sums Base.Mat Base.Tens Base.TensId Model.C08.
Import ListNotations.

Section Skel.
  Context {R : StarRing}.
  Variable n : nat.

  (* for ti in range(lo, hi): X = f(X) *)
  Definition loop_skel (lo hi : Z) (f : @tens R -> @tens R) (x : @tens R) : @tens R := iter (Z.to_nat (hi - lo)) f x.

  Lemma iter_shift {A} k (f : A -> A) x : iter k f (f x) = f (iter k f x).
  Proof. induction k as [|k IH]; cbn [iter]; [reflexivity|]. now rewrite IH. Qed.

  Lemma tpow_l_iter k (U1 X : @tens R) : tpow_l n k U1 X = iter k (fun Y => tab4 n (tcomp n U1 Y)) X.
  Proof.
    revert X; induction k as [|k IH]; intros X; cbn [tpow_l iter]; [reflexivity|].
    rewrite IH. apply (iter_shift k (fun Y => tab4 n (tcomp n U1 Y)) X).
  Qed.

  (* _one_step_with_dense_TimeIndep: dense_time.length = Ndense + 1 (set_dense_dt) *)
  Lemma dense_skel_is_model (Nd : nat) (U1 : @tens R) lo hi f :
    lo = 2%Z -> hi = (Z.of_nat Nd + 1)%Z -> (forall Y, f Y = tab4 n (tcomp n U1 Y)) ->
    loop_skel lo hi f U1 = one_step_dense n Nd U1.
  Proof.
    intros -> -> Hf. unfold loop_skel, one_step_dense. rewrite tpow_l_iter.
    replace (Z.to_nat (Z.of_nat Nd + 1 - 2)) with (Nd - 1)%nat by lia.
    induction (Nd - 1)%nat as [|k IH]; cbn [iter]; [reflexivity|]. now rewrite IH, Hf.
  Qed.

  (* _calculate_remainig_using_first_interval: for ti in range(lo, hi): data[ti] = f(data[idx ti]) on a table *)
  Definition updT (d : nat -> @tens R) (i : nat) (v : @tens R) : nat -> @tens R := fun j => if Nat.eqb j i then v else d j.
  Fixpoint rest_skel (k : nat) (ti : Z) (idx : Z -> Z) (f : @tens R -> @tens R) (d : nat -> @tens R) : nat -> @tens R :=
    match k with
    | O => d
    | S k' => rest_skel k' (ti + 1)%Z idx f (updT d (Z.to_nat ti) (f (d (Z.to_nat (idx ti)))))
    end.
  Definition remaining_skel (lo hi : Z) (idx : Z -> Z) (f : @tens R -> @tens R) (d : nat -> @tens R) : nat -> @tens R :=
    rest_skel (Z.to_nat (hi - lo)) lo idx f d.

  Lemma rest_skel_spec (Udt : @tens R) idx f : (forall ti, idx ti = (ti - 1)%Z) -> (forall Y, f Y = tab4 n (tcomp n Udt Y)) ->
    forall k (t : nat) d, (1 <= t)%nat ->
    let d' := rest_skel k (Z.of_nat t) idx f d in
    (forall j, (j < t)%nat -> d' j = d j) /\
    map d' (seq t k) = calc_rest n k Udt (d (t - 1)%nat).
  Proof.
    intros Hidx Hf. induction k as [|k IH]; intros t d Ht; cbn [rest_skel seq map calc_rest].
    - split; [reflexivity|reflexivity].
    - set (v := f (d (Z.to_nat (idx (Z.of_nat t))))).
      replace (Z.of_nat t + 1)%Z with (Z.of_nat (S t)) by lia.
      destruct (IH (S t) (updT d (Z.to_nat (Z.of_nat t)) v) ltac:(lia)) as [Hkeep Hmap].
      rewrite Nat2Z.id in *. split.
      + intros j Hj. rewrite Hkeep by lia. unfold updT. destruct (Nat.eqb_spec j t); [lia|reflexivity].
      + rewrite Hkeep by lia. unfold updT at 1. rewrite Nat.eqb_refl.
        assert (Hv : v = tab4 n (tcomp n Udt (d (t - 1)%nat))).
        { unfold v. rewrite Hidx, Hf. do 3 f_equal. lia. }
        rewrite Hmap. replace (S t - 1)%nat with t by lia. unfold updT at 1. rewrite Nat.eqb_refl.
        rewrite Hv. reflexivity.
  Qed.

  Lemma remaining_skel_is_model (Nt : nat) (Udt : @tens R) lo hi idx f d :
    lo = 2%Z -> hi = Z.of_nat Nt -> (forall ti, idx ti = (ti - 1)%Z) -> (forall Y, f Y = tab4 n (tcomp n Udt Y)) ->
    (2 <= Nt)%nat -> d 0%nat = tid -> d 1%nat = Udt ->
    map (remaining_skel lo hi idx f d) (seq 0 Nt) = calc_all n Nt Udt.
  Proof.
    intros -> -> Hidx Hf HNt H0 H1. unfold remaining_skel.
    destruct Nt as [|[|k]]; try lia. cbn [calc_all].
    replace (Z.to_nat (Z.of_nat (S (S k)) - 2)) with k by lia.
    pose proof (rest_skel_spec Udt idx f Hidx Hf k 2 d ltac:(lia)) as Hs.
    change (Z.of_nat 2) with 2%Z in Hs. cbv zeta in Hs. destruct Hs as [Hkeep Hmap].
    change (seq 0 (S (S k))) with (0%nat :: 1%nat :: seq 2 k). cbn [map].
    rewrite (Hkeep 0%nat) by lia. rewrite (Hkeep 1%nat) by lia. rewrite H0, H1. do 2 f_equal.
    rewrite Hmap. cbn [Nat.sub]. now rewrite H1.
  Qed.
End Skel.
