From Coq Require Import ZArith List Bool Arith Lia.
From QV Require Import Model.C16.
Import ListNotations.

Definition weight (m : mi) : nat := list_sum m.

Lemma mi_eqb_eq a b : mi_eqb a b = true <-> a = b.
Proof.
  revert b; induction a as [|x a IH]; intros [|y b]; cbn [mi_eqb]; split; try discriminate; try reflexivity.
  - intros H. apply andb_prop in H. destruct H as [H1 H2]. apply Nat.eqb_eq in H1. apply IH in H2. congruence.
  - intros [= -> ->]. rewrite Nat.eqb_refl. cbn. now apply IH.
Qed.

Lemma mem_In x l : mem x l = true <-> In x l.
Proof.
  unfold mem. rewrite existsb_exists. split.
  - intros [y [Hy He]]. apply mi_eqb_eq in He. now subst.
  - intros H. exists x. split; [exact H|]. now apply mi_eqb_eq.
Qed.

Lemma NoDup_app_intro {A} (l m : list A) : NoDup l -> NoDup m -> (forall x, In x l -> In x m -> False) -> NoDup (l ++ m).
Proof.
  intros Hl Hm Hd. induction l as [|a l IH]; [exact Hm|]. cbn [app]. inversion Hl as [|? ? Ha Hl']; subst.
  constructor.
  - rewrite in_app_iff. intros [H|H]; [contradiction|]. apply (Hd a); [now left|exact H].
  - apply IH; [exact Hl'|]. intros x Hx. apply Hd. now right.
Qed.

(* ---------- the duplicate filter ---------- *)
Lemma add_new_spec acc x : NoDup acc ->
  NoDup (add_new acc x) /\ (forall m, In m (add_new acc x) <-> In m acc \/ m = x).
Proof.
  intros Hnd. unfold add_new. destruct (mem x acc) eqn:E.
  - apply mem_In in E. split; [exact Hnd|]. intros m; split; [now left|]. intros [H| ->]; assumption.
  - assert (~ In x acc) as Hn by (intros H; apply mem_In in H; congruence).
    split.
    + apply NoDup_app_intro; [exact Hnd|constructor; [intros []|constructor]|].
      intros y Hy [<-|[]]. contradiction.
    + intros m. rewrite in_app_iff. cbn [In]. split; intros [H|H]; auto. destruct H as [H|[]]; auto.
Qed.

Lemma fold_add_new_spec xs acc : NoDup acc ->
  NoDup (fold_left add_new xs acc) /\ (forall m, In m (fold_left add_new xs acc) <-> In m acc \/ In m xs).
Proof.
  revert acc; induction xs as [|x xs IH]; intros acc Hnd; cbn [fold_left].
  - split; [exact Hnd|]. intros m; split; [now left|intros [H|[]]; exact H].
  - destruct (add_new_spec acc x Hnd) as [Hnd' Hin']. destruct (IH (add_new acc x) Hnd') as [Hnd'' Hin''].
    split; [exact Hnd''|]. intros m. rewrite Hin'', Hin'. cbn [In]. intuition.
Qed.

(* ---------- raising and lowering one entry ---------- *)
Lemma bump_length m k : length (bump m k) = length m.
Proof. revert k; induction m as [|x m IH]; intros [|k]; cbn [bump length]; auto. Qed.

Lemma bump_weight m k : (k < length m)%nat -> weight (bump m k) = S (weight m).
Proof.
  revert k; induction m as [|x m IH]; intros [|k] Hk; cbn [bump length] in *; try lia; unfold weight in *; simpl list_sum.
  - lia.
  - rewrite IH by lia. lia.
Qed.

Lemma lower_bump m k : (k < length m)%nat -> lower (bump m k) k = Some m.
Proof.
  revert k; induction m as [|x m IH]; intros [|k] Hk; cbn [bump lower length] in *; try lia; [reflexivity|].
  rewrite IH by lia. reflexivity.
Qed.

Lemma bump_lower m k x : (k < length m)%nat -> lower m k = Some x -> bump x k = m.
Proof.
  revert k x; induction m as [|y m IH]; intros [|k] x Hk; cbn [lower length] in *; try lia.
  - destruct y; [discriminate|]. intros [= <-]. reflexivity.
  - destruct (lower m k) as [z|] eqn:E; [|discriminate]. cbn [option_map]. intros [= <-]. cbn [bump]. f_equal. apply IH; [lia|exact E].
Qed.

Lemma lower_Some_iff m k : (k < length m)%nat -> (exists x, lower m k = Some x) <-> (1 <= nth k m 0)%nat.
Proof.
  revert k; induction m as [|y m IH]; intros [|k] Hk; cbn [lower length nth] in *; try lia.
  - destruct y; split; try lia; [intros [x H]; discriminate|intros _; eexists; reflexivity].
  - rewrite <- IH by lia. split; intros [x H].
    + destruct (lower m k) as [z|]; [now exists z|discriminate].
    + rewrite H. eexists; reflexivity.
Qed.

Lemma lower_length m k x : lower m k = Some x -> length x = length m.
Proof.
  revert k x; induction m as [|y m IH]; intros k x; destruct k as [|k]; cbn [lower].
  - intros [= <-]; reflexivity.
  - intros [= <-]; reflexivity.
  - destruct y; [discriminate|]. intros [= <-]. reflexivity.
  - destruct (lower m k) as [z|] eqn:E; [|discriminate]. cbn [option_map]. intros [= <-]. cbn [length]. f_equal. eapply IH; eauto.
Qed.

(* a multi-index of positive weight can be lowered somewhere *)
Lemma positive_weight_lowerable m : (1 <= weight m)%nat -> exists k x, (k < length m)%nat /\ lower m k = Some x.
Proof.
  induction m as [|y m IH]; unfold weight; simpl list_sum; [lia|]. intros H.
  destruct y as [|y].
  - destruct IH as [k [x [Hk Hx]]]; [unfold weight; lia|]. exists (S k), (0 :: x)%nat. cbn [length lower]. split; [lia|]. now rewrite Hx.
  - exists 0%nat, (y :: m). cbn [length lower]. split; [lia|reflexivity].
Qed.

(* ---------- levels ---------- *)
Definition is_level (N k : nat) (l : list mi) : Prop :=
  NoDup l /\ forall m, In m l <-> (length m = N /\ weight m = k).

Lemma candidates_spec N k prev : is_level N k prev ->
  forall m, In m (flat_map (fun old => map (bump old) (seq 0 N)) prev) <-> (length m = N /\ weight m = S k).
Proof.
  intros [_ Hin] m. rewrite in_flat_map. split.
  - intros [old [Ho Hm]]. apply in_map_iff in Hm. destruct Hm as [j [<- Hj]]. apply in_seq in Hj.
    apply Hin in Ho. destruct Ho as [Hl Hw]. rewrite bump_length, bump_weight by lia. split; congruence.
  - intros [Hl Hw]. destruct (positive_weight_lowerable m ltac:(lia)) as [j [x [Hj Hx]]].
    exists x. split.
    + apply Hin. split; [rewrite (lower_length m j x Hx); exact Hl|].
      pose proof (bump_lower m j x Hj Hx) as Hb. rewrite <- Hb in Hw. rewrite bump_weight in Hw; [lia|].
      rewrite (lower_length m j x Hx). exact Hj.
    + apply in_map_iff. exists j. split; [apply bump_lower; assumption|]. apply in_seq. lia.
Qed.

Lemma next_level_is_level N k prev : is_level N k prev -> is_level N (S k) (next_level N prev).
Proof.
  intros Hp. unfold next_level.
  destruct (fold_add_new_spec (flat_map (fun old => map (bump old) (seq 0 N)) prev) [] (NoDup_nil _)) as [Hnd Hin].
  split; [exact Hnd|]. intros m. rewrite Hin. rewrite (candidates_spec N k prev Hp). cbn [In]. tauto.
Qed.

Lemma repeat0_weight N : weight (repeat 0%nat N) = 0%nat.
Proof. induction N; unfold weight in *; cbn; auto. Qed.

Lemma weight0_repeat m : weight m = 0%nat -> m = repeat 0%nat (length m).
Proof.
  induction m as [|x m IH]; unfold weight in *; simpl list_sum; cbn [length repeat]; [reflexivity|]. intros H.
  assert (x = 0%nat) by lia. subst. f_equal. apply IH. lia.
Qed.

Lemma level0 N : is_level N 0 [repeat 0%nat N].
Proof.
  split; [constructor; [intros []|constructor]|]. intros m. cbn [In]. split.
  - intros [<-|[]]. split; [apply repeat_length|apply repeat0_weight].
  - intros [Hl Hw]. left. rewrite (weight0_repeat m Hw). now rewrite Hl.
Qed.

Lemma levels_from_spec N prev k0 d j : is_level N k0 prev -> (j < d)%nat ->
  is_level N (S (k0 + j)) (nth j (levels_from N prev d) []).
Proof.
  revert prev k0 j; induction d as [|d IH]; intros prev k0 j Hp Hj; [lia|]. cbn [levels_from].
  destruct j as [|j]; cbn [nth].
  - rewrite Nat.add_0_r. now apply next_level_is_level.
  - replace (S (k0 + S j)) with (S (S k0 + j)) by lia. apply IH; [now apply next_level_is_level|lia].
Qed.

Lemma levels_from_length N prev d : length (levels_from N prev d) = d.
Proof. revert prev; induction d as [|d IH]; intros prev; cbn [levels_from length]; auto. Qed.

(* every level of the hierarchy is complete and duplicate free, for every number of baths and depth *)
Theorem indices_complete_nodup N depth j : (j <= depth)%nat -> is_level N j (nth j (gen_indices N depth) []).
Proof.
  intros Hj. unfold gen_indices. destruct j as [|j]; cbn [nth]; [apply level0|].
  apply (levels_from_spec N [repeat 0%nat N] 0 depth j (level0 N)). lia.
Qed.

Lemma gen_indices_length N depth : length (gen_indices N depth) = S depth.
Proof. unfold gen_indices. cbn [length]. now rewrite levels_from_length. Qed.

(* ---------- the flattened table hinds ---------- *)
Definition levels_ok (N k0 : nat) (LL : list (list mi)) : Prop :=
  forall j, (j < length LL)%nat -> is_level N (k0 + j) (nth j LL []).

Lemma levels_ok_tail N k0 l LL : levels_ok N k0 (l :: LL) -> is_level N k0 l /\ levels_ok N (S k0) LL.
Proof.
  intros H. split.
  - specialize (H 0%nat ltac:(cbn; lia)). now rewrite Nat.add_0_r in H.
  - intros j Hj. specialize (H (S j) ltac:(cbn; lia)). cbn [nth] in H. now replace (S k0 + j)%nat with (k0 + S j)%nat by lia.
Qed.

Lemma concat_in N k0 LL : levels_ok N k0 LL ->
  forall m, In m (concat LL) <-> (length m = N /\ (k0 <= weight m < k0 + length LL)%nat).
Proof.
  revert k0; induction LL as [|l LL IH]; intros k0 Hok m; cbn [concat length].
  - split; [intros []|lia].
  - destruct (levels_ok_tail N k0 l LL Hok) as [[_ Hl] Hrest]. rewrite in_app_iff, Hl, (IH (S k0) Hrest). lia.
Qed.

Lemma concat_nodup N k0 LL : levels_ok N k0 LL -> NoDup (concat LL).
Proof.
  revert k0; induction LL as [|l LL IH]; intros k0 Hok; cbn [concat]; [constructor|].
  destruct (levels_ok_tail N k0 l LL Hok) as [[Hnd Hl] Hrest].
  apply NoDup_app_intro; [exact Hnd|exact (IH (S k0) Hrest)|].
  intros x Hx Hx'. apply Hl in Hx. apply (concat_in N (S k0) LL Hrest) in Hx'. lia.
Qed.

Definition sorted_w (l : list mi) : Prop :=
  forall a b, (a < b)%nat -> (b < length l)%nat -> (weight (nth a l []) <= weight (nth b l []))%nat.

Lemma concat_sorted N k0 LL : levels_ok N k0 LL -> sorted_w (concat LL).
Proof.
  revert k0; induction LL as [|l LL IH]; intros k0 Hok; cbn [concat]; [intros a b _ Hb; cbn in Hb; lia|].
  destruct (levels_ok_tail N k0 l LL Hok) as [[Hnd Hl] Hrest]. specialize (IH (S k0) Hrest).
  intros a b Hab Hb. rewrite app_length in Hb.
  destruct (Nat.lt_ge_cases b (length l)) as [Hbl|Hbl].
  - rewrite !app_nth1 by lia.
    assert (In (nth a l []) l) as Ia by (apply nth_In; lia). assert (In (nth b l []) l) as Ib by (apply nth_In; lia).
    apply Hl in Ia, Ib. lia.
  - rewrite (app_nth2 l _ [] Hbl).
    assert (In (nth (b - length l) (concat LL) []) (concat LL)) as Ib by (apply nth_In; lia).
    apply (concat_in N (S k0) LL Hrest) in Ib.
    destruct (Nat.lt_ge_cases a (length l)) as [Hal|Hal].
    + rewrite app_nth1 by lia. assert (In (nth a l []) l) as Ia by (apply nth_In; lia). apply Hl in Ia. lia.
    + rewrite (app_nth2 l _ [] Hal). apply IH; lia.
Qed.

Lemma gen_levels_ok N depth : levels_ok N 0 (gen_indices N depth).
Proof. intros j Hj. rewrite gen_indices_length in Hj. cbn [Nat.add]. apply indices_complete_nodup. lia. Qed.

(* the table contains every multi-index over N baths of total order <= depth, exactly once, by levels *)
Theorem hinds_complete N depth m : In m (hinds N depth) <-> (length m = N /\ (weight m <= depth)%nat).
Proof.
  unfold hinds. rewrite (concat_in N 0 _ (gen_levels_ok N depth)). rewrite gen_indices_length. lia.
Qed.
Theorem hinds_nodup N depth : NoDup (hinds N depth).
Proof. exact (concat_nodup N 0 _ (gen_levels_ok N depth)). Qed.
Theorem hinds_sorted N depth : sorted_w (hinds N depth).
Proof. exact (concat_sorted N 0 _ (gen_levels_ok N depth)). Qed.

(* offsets: level j starts where the previous levels end *)
Lemma offsets_from_spec start lens j : (j < length lens)%nat ->
  nth j (offsets_from start lens) 0%nat = (start + list_sum (firstn j lens))%nat.
Proof.
  revert start j; induction lens as [|l lens IH]; intros start j Hj; cbn [length] in Hj; [lia|].
  destruct j as [|j]; cbn [offsets_from nth firstn]; [simpl; lia|]. rewrite IH by lia. simpl list_sum. lia.
Qed.

(* ---------- neighbour search ---------- *)
Lemma find_last_notin x l i best : ~ In x l -> find_last x l i best = best.
Proof.
  revert i best; induction l as [|y l IH]; intros i best Hn; cbn [find_last]; [reflexivity|].
  rewrite IH by (intros H; apply Hn; now right).
  destruct (mi_eqb y x) eqn:E; [|reflexivity]. apply mi_eqb_eq in E. subst. exfalso. apply Hn. now left.
Qed.

Lemma find_last_found x l i best p : NoDup l -> (p < length l)%nat -> nth p l [] = x ->
  find_last x l i best = Some (i + p)%nat.
Proof.
  revert i best p; induction l as [|y l IH]; intros i best p Hnd Hp Hx; cbn [length] in Hp; [lia|].
  inversion Hnd as [|? ? Hy Hnd']; subst. cbn [find_last]. destruct p as [|p]; cbn [nth] in *.
  - assert (mi_eqb y y = true) as -> by now apply mi_eqb_eq. rewrite find_last_notin by exact Hy. f_equal. lia.
  - rewrite (IH (S i) _ p Hnd' ltac:(lia) eq_refl). f_equal. lia.
Qed.

Lemma find_last_Some x l best r : NoDup l -> find_last x l 0 best = Some r -> best = None ->
  (r < length l)%nat /\ nth r l [] = x.
Proof.
  intros Hnd H Hb. subst best. destruct (in_dec (list_eq_dec Nat.eq_dec) x l) as [Hin|Hn].
  - destruct (In_nth l x [] Hin) as [p [Hp Hx]]. rewrite (find_last_found x l 0 None p Hnd Hp Hx) in H.
    injection H as <-. cbn [Nat.add]. split; assumption.
  - rewrite find_last_notin in H by exact Hn. discriminate.
Qed.

Lemma NoDup_nth_inj (l : list mi) a b : NoDup l -> (a < length l)%nat -> (b < length l)%nat -> nth a l [] = nth b l [] -> a = b.
Proof. intros Hnd Ha Hb H. now apply (proj1 (NoDup_nth l []) Hnd a b Ha Hb). Qed.

Lemma In_firstn {A} n (l : list A) x : In x (firstn n l) -> In x l.
Proof.
  revert n; induction l as [|y l IH]; intros [|n]; cbn [firstn In]; try tauto. intros [H|H]; [now left|right; eauto].
Qed.

Lemma NoDup_firstn {A} n (l : list A) : NoDup l -> NoDup (firstn n l).
Proof.
  revert n; induction l as [|x l IH]; intros [|n] H; cbn [firstn]; try constructor.
  - inversion H as [|? ? Hx Hl]; subst. intros Hin. apply Hx. eapply In_firstn; eauto.
  - inversion H; subst. auto.
Qed.

Section Links.
  Variables N depth : nat.
  Let H := hinds N depth.
  Let Hnd : NoDup H := hinds_nodup N depth.
  Let Hsorted : sorted_w H := hinds_sorted N depth.

  Lemma entry_facts n : (n < length H)%nat -> length (nth n H []) = N /\ (weight (nth n H []) <= depth)%nat.
  Proof. intros Hn. apply (hinds_complete N depth). apply nth_In. exact Hn. Qed.

  Lemma nth_firstn_lt (m n : nat) : (m < n)%nat -> nth m (firstn n H) [] = nth m H [].
  Proof.
    intros Hmn. revert m n Hmn. generalize H as l. induction l as [|x l IH]; intros m n Hmn.
    - destruct n; destruct m; reflexivity.
    - destruct n as [|n]; [lia|]. destruct m as [|m]; cbn [firstn nth]; [reflexivity|]. apply IH. lia.
  Qed.

  Lemma nm1_spec n k m : (n < length H)%nat ->
    nm1 H n k = Some m <-> ((m < n)%nat /\ lower (nth n H []) k = Some (nth m H [])).
  Proof.
    intros Hn. unfold nm1. split.
    - destruct (lower (nth n H []) k) as [x|] eqn:El; [|discriminate]. intros Hf.
      destruct (find_last_Some x (firstn n H) None m (NoDup_firstn n H Hnd) Hf eq_refl) as [Hm Hx].
      rewrite firstn_length in Hm. assert (m < n)%nat as Hmn by lia.
      rewrite nth_firstn_lt in Hx by exact Hmn. split; [exact Hmn|now rewrite Hx].
    - intros [Hmn El]. rewrite El.
      rewrite (find_last_found (nth m H []) (firstn n H) 0 None m (NoDup_firstn n H Hnd)); [reflexivity| |].
      + rewrite firstn_length. lia.
      + now apply nth_firstn_lt.
  Qed.

  Lemma np1_spec n k m :
    np1 H n k = Some m <-> ((m < length H)%nat /\ nth m H [] = bump (nth n H []) k).
  Proof.
    unfold np1. split.
    - intros Hf. exact (find_last_Some _ H None m Hnd Hf eq_refl).
    - intros [Hm Hx]. now rewrite (find_last_found _ H 0 None m Hnd Hm Hx).
  Qed.

  (* lowering then raising comes back, and the other way round *)
  Theorem links_down_up n k m : (n < length H)%nat -> (k < N)%nat -> nm1 H n k = Some m -> np1 H m k = Some n.
  Proof.
    intros Hn Hk Hm. apply (nm1_spec n k m Hn) in Hm. destruct Hm as [Hmn El].
    apply np1_spec. split; [exact Hn|]. symmetry. apply bump_lower; [|exact El].
    destruct (entry_facts n Hn) as [Hl _]. lia.
  Qed.

  Theorem links_up_down n k m : (m < length H)%nat -> (k < N)%nat -> np1 H m k = Some n -> nm1 H n k = Some m.
  Proof.
    intros Hm Hk Hp. apply np1_spec in Hp. destruct Hp as [Hn Hx].
    destruct (entry_facts m Hm) as [Hl _].
    apply (nm1_spec n k m Hn). split.
    - assert (weight (nth n H []) = S (weight (nth m H []))) as Hw by (rewrite Hx; apply bump_weight; lia).
      destruct (Nat.lt_trichotomy m n) as [Hlt|[Heq|Hgt]]; [exact Hlt| |].
      + rewrite Heq in Hw. lia.
      + pose proof (Hsorted n m Hgt Hm). lia.
    - rewrite Hx. apply lower_bump. lia.
  Qed.

  (* links are absent exactly at the boundaries of the hierarchy *)
  Theorem no_lower_link_iff n k : (n < length H)%nat -> (k < N)%nat ->
    nm1 H n k = None <-> nth k (nth n H []) 0%nat = 0%nat.
  Proof.
    intros Hn Hk. destruct (entry_facts n Hn) as [Hl Hw]. split.
    - intros Hnone. destruct (Nat.eq_dec (nth k (nth n H []) 0%nat) 0) as [E|E]; [exact E|exfalso].
      destruct (proj2 (lower_Some_iff (nth n H []) k ltac:(lia)) ltac:(lia)) as [x Hx].
      pose proof (bump_lower (nth n H []) k x ltac:(lia) Hx) as Hb. pose proof (lower_length _ _ _ Hx) as Hlx.
      assert (weight (nth n H []) = S (weight x)) as Hwx by (rewrite <- Hb; apply bump_weight; lia).
      assert (In x H) as Hin by (apply (hinds_complete N depth); split; lia).
      destruct (In_nth H x [] Hin) as [p [Hp Hpx]].
      assert (p < n)%nat as Hpn.
      { destruct (Nat.lt_trichotomy p n) as [Hlt|[Heq|Hgt]]; [exact Hlt| |].
        - subst p. rewrite Hpx in Hwx. lia.
        - pose proof (Hsorted n p Hgt Hp). rewrite Hpx in *. lia. }
      assert (nm1 H n k = Some p) as Hs by (apply (nm1_spec n k p Hn); split; [exact Hpn|now rewrite Hpx]).
      congruence.
    - intros E. unfold nm1. destruct (lower (nth n H []) k) as [x|] eqn:El; [|reflexivity].
      assert (1 <= nth k (nth n H []) 0)%nat by (apply lower_Some_iff; [lia|now exists x]). lia.
  Qed.

  Theorem no_upper_link_iff n k : (n < length H)%nat -> (k < N)%nat ->
    np1 H n k = None <-> weight (nth n H []) = depth.
  Proof.
    intros Hn Hk. destruct (entry_facts n Hn) as [Hl Hw].
    assert (weight (bump (nth n H []) k) = S (weight (nth n H []))) as Hb by (apply bump_weight; lia).
    split.
    - intros Hnone. destruct (Nat.eq_dec (weight (nth n H [])) depth) as [E|E]; [exact E|exfalso].
      assert (In (bump (nth n H []) k) H) as Hin by (apply (hinds_complete N depth); rewrite bump_length; split; lia).
      destruct (In_nth H _ [] Hin) as [p [Hp Hpx]].
      assert (np1 H n k = Some p) by (apply np1_spec; split; assumption). congruence.
    - intros E. unfold np1. apply find_last_notin. intros Hin. apply (hinds_complete N depth) in Hin. lia.
  Qed.

  (* the root is the first entry and is never the target of a raising link *)
  Theorem root_first : nth 0 H [] = repeat 0%nat N.
  Proof. reflexivity. Qed.

  Theorem raise_never_hits_root n k : (n < length H)%nat -> (k < N)%nat -> np1 H n k <> Some 0%nat.
  Proof.
    intros Hn Hk Hp. apply np1_spec in Hp. destruct Hp as [_ Hx]. rewrite root_first in Hx.
    destruct (entry_facts n Hn) as [Hl _].
    assert (weight (bump (nth n H []) k) = S (weight (nth n H []))) as Hb by (apply bump_weight; lia).
    rewrite <- Hx, repeat0_weight in Hb. lia.
  Qed.
End Links.
