From Coq Require Import ZArith List Bool Lia.
From QV Require Import Model.C20regions.
Import ListNotations.
Open Scope Z_scope.

Lemma r_run_cons sh s o ops : r_run sh s (o :: ops) = r_run sh (fst (r_step sh s o)) ops.
Proof. reflexivity. Qed.

(* a well-nested sequence never raises, and level / region follow the nesting depth *)
Theorem nested_tracks_depth : forall ops (sh : bool) s d,
  nested d ops = true -> 0 <= d -> (if sh then d else 0) <= r_level s ->
  r_raised sh s ops = false /\
  r_run sh s ops = mkR (r_level s + (if sh then depth_after d ops - d else 0)) (r_region s + (depth_after d ops - d)).
Proof.
  induction ops as [|o ops IH]; intros sh s d Hn Hd Hl.
  - cbn. split; [reflexivity|]. destruct s as [l g]. cbn. f_equal; destruct sh; lia.
  - destruct o; cbn [nested] in Hn.
    + specialize (IH sh (fst (r_step sh s RStart)) (d + 1) Hn ltac:(lia)).
      assert (Hl' : (if sh then d + 1 else 0) <= r_level (fst (r_step sh s RStart))) by (cbn; destruct sh; lia).
      destruct (IH Hl') as [Hr Hrun]. split.
      * unfold r_raised in *. cbn [r_trace existsb]. cbn [r_step snd fst] in *. exact Hr.
      * rewrite r_run_cons, Hrun. cbn [depth_after r_step fst r_level r_region]. f_equal; destruct sh; lia.
    + apply andb_prop in Hn. destruct Hn as [Hd1 Hn]. apply Z.leb_le in Hd1.
      assert (Hlt : ((if sh then r_level s - 1 else r_level s) <? 0) = false) by (apply Z.ltb_ge; destruct sh; lia).
      assert (Hstep : r_step sh s RFinish = (mkR (if sh then r_level s - 1 else r_level s) (r_region s - 1), false)).
      { unfold r_step. rewrite Hlt. reflexivity. }
      specialize (IH sh (fst (r_step sh s RFinish)) (d - 1) Hn ltac:(lia)).
      rewrite Hstep in IH. cbn [fst r_level r_region] in IH.
      destruct (IH ltac:(destruct sh; lia)) as [Hr Hrun]. split.
      * unfold r_raised in *. cbn [r_trace existsb]. rewrite Hstep. cbn [snd fst orb]. exact Hr.
      * rewrite r_run_cons, Hstep. cbn [fst]. rewrite Hrun. cbn [depth_after r_level r_region]. f_equal; destruct sh; lia.
Qed.

(* a balanced well-nested block of regions restores the configuration exactly *)
Theorem balanced_restores : forall ops (sh : bool) s d,
  nested d ops = true -> depth_after d ops = d -> 0 <= d -> (if sh then d else 0) <= r_level s ->
  r_raised sh s ops = false /\ r_run sh s ops = s.
Proof.
  intros ops sh s d Hn Hb Hd Hl. destruct (nested_tracks_depth ops sh s d Hn Hd Hl) as [Hr Hrun].
  split; [exact Hr|]. rewrite Hrun, Hb. destruct s as [l g]. cbn. f_equal; destruct sh; lia.
Qed.

(* in a program opened from the idle configuration (level 0), work is shared (level = 1) exactly at nesting depth 1:
   in particular again after every nested region has been closed *)
Theorem shares_exactly_at_depth_one : forall ops g0,
  nested 0 ops = true ->
  r_level (r_run true (mkR 0 g0) ops) = depth_after 0 ops /\
  ((r_level (r_run true (mkR 0 g0) ops) =? 1) = (depth_after 0 ops =? 1)).
Proof.
  intros ops g0 Hn. destruct (nested_tracks_depth ops true (mkR 0 g0) 0 Hn ltac:(lia) ltac:(cbn; lia)) as [_ Hrun].
  rewrite Hrun. cbn [r_level]. split; [lia|]. f_equal. lia.
Qed.

(* closing more regions than were opened is refused, and the refusal leaves the region counter as it was
   (the level has already been lowered: stated as the code behaves) *)
Theorem unbalanced_finish_raises : forall s, r_level s = 0 ->
  r_step true s RFinish = (mkR (-1) (r_region s), true).
Proof. intros [l g] Hl. cbn in Hl. subst l. reflexivity. Qed.

Example regions_nonvacuous :
  nested 0 [RStart; RStart; RFinish; RStart; RStart; RFinish; RFinish; RFinish] = true /\
  map (fun p => r_level (fst p)) (r_trace true (mkR 0 0) [RStart; RStart; RFinish; RStart; RStart; RFinish; RFinish; RFinish])
  = [1; 2; 1; 2; 3; 2; 1; 0].
Proof. split; reflexivity. Qed.

(* the two halves together: at nesting depth 1 of a program opened from the idle configuration the helpers hand out
   the partition, at any other depth every process gets the whole range *)
From QV Require Import Model.C20 Proofs.C20.
Theorem regions_and_blocks : forall ops g0 size start stop, nested 0 ops = true -> 1 <= size -> start <= stop ->
  let level := r_level (r_run true (mkR 0 g0) ops) in
  (depth_after 0 ops = 1 ->
     flat_map (fun r => api_block level FromStart size start stop (Z.of_nat r)) (seq 0 (Z.to_nat size)) = zrange start stop) /\
  (depth_after 0 ops <> 1 -> forall r, api_block level FromStart size start stop r = zrange start stop).
Proof.
  intros ops g0 size start stop Hn Hs Hst level.
  destruct (shares_exactly_at_depth_one ops g0 Hn) as [Hl _]. subst level. rewrite Hl. split.
  - intros Hd. rewrite Hd. unfold api_block. cbn [Z.eqb Pos.eqb]. exact (blocks_concat_is_range size start stop Hs Hst).
  - intros Hd r. unfold api_block. destruct (Z.eqb_spec (depth_after 0 ops) 1) as [He|_]; [contradiction|reflexivity].
Qed.

(* ---- the helpers and the reductions as called (refusal outside declared regions) ---- *)
Lemma nested_depth_nonneg : forall ops d, nested d ops = true -> 0 <= d -> 0 <= depth_after d ops.
Proof.
  induction ops as [|o ops IH]; intros d Hn Hd; cbn [depth_after]; [exact Hd|].
  destruct o; cbn [nested] in Hn.
  - apply IH; [exact Hn|lia].
  - apply andb_prop in Hn. destruct Hn as [H1 Hn]. apply Z.leb_le in H1. apply IH; [exact Hn|lia].
Qed.

(* work is handed out in blocks exactly where the reductions sum, whole where they leave the data alone, and both
   refuse together *)
Theorem shared_exactly_where_summed : forall region level v size start stop rank,
  match reduce_mode region level with
  | RSummed => helper region level v size start stop rank = Handed (block v size start stop rank)
  | RUntouched => helper region level v size start stop rank = Handed (zrange start stop)
  | RRefused => helper region level v size start stop rank = Refused
  end.
Proof.
  intros. unfold reduce_mode, helper, api_block. destruct (region <? 1); [reflexivity|]. destruct (level =? 1); reflexivity.
Qed.

(* in a program of well-nested regions opened from a new configuration (both counters 0), the helpers and the reductions
   refuse exactly outside all regions *)
Theorem refused_exactly_outside_regions : forall ops (sh : bool) v size start stop rank, nested 0 ops = true ->
  let s := r_run sh (mkR 0 0) ops in
  (helper (r_region s) (r_level s) v size start stop rank = Refused <-> depth_after 0 ops = 0) /\
  (reduce_mode (r_region s) (r_level s) = RRefused <-> depth_after 0 ops = 0).
Proof.
  intros ops sh v size start stop rank Hn s.
  destruct (nested_tracks_depth ops sh (mkR 0 0) 0 Hn ltac:(lia) ltac:(destruct sh; cbn; lia)) as [_ Hrun].
  pose proof (nested_depth_nonneg ops 0 Hn ltac:(lia)) as Hd.
  subst s. rewrite Hrun. cbn [r_level r_region]. unfold helper, reduce_mode.
  destruct (Z.ltb_spec (0 + (depth_after 0 ops - 0)) 1) as [Hlt|Hge].
  - split; split; intros; try reflexivity; lia.
  - split; split; intros H; try lia; [discriminate H|].
    destruct ((0 + (if sh then depth_after 0 ops - 0 else 0)) =? 1); discriminate H.
Qed.

(* ---- one well-formed region (open, distributed loop, all-reduce, close) entered from any consistent configuration, at any
   nesting depth, with or without MPI: the helper answers, on every process the all-reduced value of the per-process partial
   sums is the serial sum, and closing restores the configuration without raising ---- *)
Theorem region_protocol_reduces_to_serial : forall (A : Type) (op : A -> A -> A) (e : A),
  (forall x y z, op x (op y z) = op (op x y) z) -> (forall x, op e x = x) ->
  forall (f : Z -> A) (sh : bool) s size start stop rank, 1 <= size -> start <= stop -> 0 <= r_region s -> 0 <= r_level s ->
  let s1 := fst (r_step sh s RStart) in
  helper (r_region s1) (r_level s1) FromStart size start stop (Z.of_nat rank)
    = Handed (api_block (r_level s1) FromStart size start stop (Z.of_nat rank)) /\
  reduce_mode (r_region s1) (r_level s1) <> RRefused /\
  after_allreduce op e (r_level s1) size
    (fun r => msum A op e (map f (api_block (r_level s1) FromStart size start stop (Z.of_nat r)))) rank
  = msum A op e (map f (zrange start stop)) /\
  r_step sh s1 RFinish = (s, false).
Proof.
  intros A op e Hassoc Hid f sh s size start stop rank Hs Hss Hg Hl s1.
  assert (Hreg : (r_region s1 <? 1) = false) by (subst s1; cbn; apply Z.ltb_ge; lia).
  split; [unfold helper; rewrite Hreg; reflexivity|].
  split; [unfold reduce_mode; rewrite Hreg; destruct (r_level s1 =? 1); discriminate|].
  split; [apply (allreduce_eq_serial A op e Hassoc Hid f (r_level s1) size start stop rank Hs Hss)|].
  subst s1. destruct s as [l g]. cbn [r_level r_region] in *. unfold r_step. cbn [fst r_level r_region].
  assert (Hlt : ((if sh then (if sh then l + 1 else l) - 1 else (if sh then l + 1 else l)) <? 0) = false) by (apply Z.ltb_ge; destruct sh; lia).
  rewrite Hlt. f_equal. f_equal; destruct sh; lia.
Qed.
