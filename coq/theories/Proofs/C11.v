(* Lemmas for C11: the index arithmetic of one_transition_spectrum, dipole strengths of exciton transitions,
   the frequency grid of the data against the returned axis. *)
From Coq Require Import ZArith List Bool Arith Lia ZifyNat Field Permutation.
From QV Require Import Base.Alg Base.Sums Base.Mat Base.Util Base.Dft Model.C13 Proofs.C13 Model.C11.
Import ListNotations.

(* ---------------------------------------------------------------------------------- *)
(*  the line: hfft, shift, reversal, cut                                              *)
(* ---------------------------------------------------------------------------------- *)
Section LineProofs.
  Context {R : StarRing}.
  Add Ring Rr11 : (rth R).
  Open Scope sr_scope.
  Variable nt : nat.                         (* points of the time axis *)
  Hypothesis nt3 : (3 <= nt)%nat.
  Local Notation n := (2 * nt - 2)%nat.      (* points returned by hfft *)
  Variable zeta : R.
  Hypothesis zeta_n : pow zeta n = 1.
  Local Notation zp := (zpow n zeta).

  Let npos : n <> 0%nat.
  Proof. lia. Qed.

  (* the half-sided Fourier sum of a(t_m), m < Nt, at the integer frequency w (in units of 2 pi / (n dt)),
     plus its complex conjugate; end points with weight 1, the others with weight 2 (trapezoid rule x 2) *)
  Definition fsum (a : list R) (w : Z) : R :=
    sum nt (fun m => trapw nt m * (nth m a 0 * zp (w * Z.of_nat m) + cj R (nth m a 0) * zp (- (w * Z.of_nat m)))).

  (* what is assumed of numpy.fft.hfft on nt points: 2 hfft(a)_k = half-sided sum at frequency -k + c.c. *)
  Definition hfft_spec (hfft : list R -> list R) : Prop :=
    forall a, length a = nt -> length (hfft a) = n /\
      forall k, (k < n)%nat -> (1 + 1) * nth k (hfft a) 0 = fsum a (- Z.of_nat k).

  Lemma one_transition_length hfft dd dt a : hfft_spec hfft -> length a = nt ->
    length (one_transition hfft dd dt a) = nt.
  Proof.
    intros H Ha. destruct (H a Ha) as [Hl _]. unfold one_transition, cut.
    rewrite firstn_length, skipn_length, rev_length, fftshift_length, map_length, Hl, Ha. lia.
  Qed.

  (* position p of the result is the hfft output of index  Nt - 2 - Nt//2 - p  (mod n) *)
  Lemma one_transition_index hfft dd dt a p : hfft_spec hfft -> length a = nt -> (p < nt)%nat ->
    nth p (one_transition hfft dd dt a) 0 =
    dd * nth ((n + nt - 2 - nt / 2 - p) mod n) (hfft a) 0 * dt.
  Proof.
    intros H Ha Hp. destruct (H a Ha) as [Hl _]. unfold one_transition, cut. rewrite Ha.
    set (X := map (fun z => dd * z * dt) (hfft a)).
    assert (length X = n) as HX by (unfold X; now rewrite map_length).
    rewrite nth_firstn_lt by exact Hp. rewrite nth_skipn_add.
    rewrite rev_nth by (rewrite fftshift_length, HX; lia). rewrite fftshift_length, HX.
    rewrite nth_fftshift by (rewrite HX; lia). rewrite HX.
    assert ((n - S (nt / 2 + p) + (n - n / 2)) mod n = (n + nt - 2 - nt / 2 - p) mod n)%nat as E.
    { f_equal. lia. }
    rewrite E. unfold X.
    rewrite (nth_indep _ 0 ((fun z => dd * z * dt) 0)) by (rewrite map_length, Hl; apply Nat.mod_upper_bound; exact npos).
    apply (map_nth (fun z => dd * z * dt)).
  Qed.

  (* ... hence twice the value at p is dd dt times the half-sided Fourier sum at the integer frequency
     p + Nt//2 - Nt + 2  of the hfft grid *)
  Lemma one_transition_sum hfft dd dt a p : hfft_spec hfft -> length a = nt -> (p < nt)%nat ->
    (1 + 1) * nth p (one_transition hfft dd dt a) 0 =
    dd * dt * fsum a (Z.of_nat p + Z.of_nat (nt / 2) - Z.of_nat nt + 2).
  Proof.
    intros H Ha Hp. rewrite one_transition_index by assumption.
    destruct (H a Ha) as [_ Hv].
    set (kk := ((n + nt - 2 - nt / 2 - p) mod n)%nat).
    assert (kk < n)%nat as Hk by (apply Nat.mod_upper_bound; exact npos).
    transitivity (dd * dt * ((1 + 1) * nth kk (hfft a) 0)); [ring|]. rewrite Hv by exact Hk. f_equal.
    unfold fsum. apply sum_ext. intros m Hm. f_equal.
    assert ((- Z.of_nat kk) mod Z.of_nat n = (Z.of_nat p + Z.of_nat (nt / 2) - Z.of_nat nt + 2) mod Z.of_nat n)%Z as E.
    { pose proof (Nat.div_mod (n + nt - 2 - nt / 2 - p) n npos) as D. fold kk in D.
      remember ((n + nt - 2 - nt / 2 - p) / n)%nat as q eqn:Eq. clear Eq.
      replace (- Z.of_nat kk)%Z
        with ((Z.of_nat p + Z.of_nat (nt / 2) - Z.of_nat nt + 2) + (Z.of_nat q - 1) * Z.of_nat n)%Z by lia.
      apply Z_mod_plus_full. }
    f_equal; [f_equal|f_equal].
    - replace (- Z.of_nat kk * Z.of_nat m)%Z with (Z.of_nat m * (- Z.of_nat kk))%Z by ring.
      rewrite (Z.mul_comm _ (Z.of_nat m)). apply zpow_mul_congr; [exact npos|exact E].
    - replace (- (- Z.of_nat kk * Z.of_nat m))%Z with ((- Z.of_nat m) * (- Z.of_nat kk))%Z by ring.
      rewrite <- Z.mul_opp_r, (Z.mul_comm _ (- Z.of_nat m)). apply zpow_mul_congr; [exact npos|exact E].
  Qed.

  (* adding lines *)
  Lemma ladd_length (l m : list R) : length (ladd l m) = Nat.min (length l) (length m).
  Proof. revert m. induction l as [|x l IH]; intros [|y m]; cbn [ladd length]; try reflexivity. now rewrite IH. Qed.
  Lemma ladd_nth (l m : list R) p : (p < length l)%nat -> (p < length m)%nat ->
    nth p (ladd l m) 0 = nth p l 0 + nth p m 0.
  Proof.
    revert m p. induction l as [|x l IH]; intros [|y m] p Hl Hm; cbn [length] in *; try lia.
    destruct p; cbn [ladd nth]; [reflexivity|]. apply IH; lia.
  Qed.

  Fixpoint lsum (l : list R) : R := match l with [] => 0 | x :: l' => x + lsum l' end.

  (* the spectrum at p is the sum over the transitions of the single lines at p *)
  Lemma spectrum_nth hfft dt lines p : hfft_spec hfft -> lines <> [] ->
    Forall (fun l => length (snd l) = nt) lines -> (p < nt)%nat ->
    nth p (spectrum hfft dt lines) 0 = lsum (map (fun l => nth p (one_transition hfft (fst l) dt (snd l)) 0) lines).
  Proof.
    intros H Hne Hall Hp. destruct lines as [|[dd a] rest]; [congruence|]. cbn [spectrum map lsum fst snd].
    inversion Hall as [|x l Ha Hrest]; subst. cbn [snd] in Ha.
    pose proof (one_transition_length hfft dd dt a H Ha) as Hlen.
    revert Hlen. generalize (one_transition hfft dd dt a) as acc. clear Ha Hall Hne.
    induction rest as [|[dd' a'] rest IH]; intros acc Hlen; cbn [fold_left map lsum fst snd]; [ring|].
    inversion Hrest as [|x l Ha' Hrest']; subst. cbn [snd] in Ha'.
    pose proof (one_transition_length hfft dd' dt a' H Ha') as Hlen'.
    rewrite IH by (try assumption; rewrite ladd_length, Hlen, Hlen'; apply Nat.min_id).
    rewrite ladd_nth by lia. ring.
  Qed.

  (* ---- sum rule: the sum over ALL points of the hfft grid only sees a(0) ---- *)
  Section Orth.
    Hypothesis orth : forall c : Z, (c mod Z.of_nat n <> 0)%Z -> sum n (fun k => zp (c * Z.of_nat k)) = 0.

    Lemma hfft_total hfft a : hfft_spec hfft -> length a = nt ->
      sum n (fun k => (1 + 1) * nth k (hfft a) 0) = natR n * (nth 0 a 0 + cj R (nth 0 a 0)).
    Proof.
      intros H Ha. destruct (H a Ha) as [_ Hv].
      rewrite (sum_ext n _ (fun k => fsum a (- Z.of_nat k))) by (intros k Hk; now apply Hv).
      unfold fsum. rewrite sum_swap.
      rewrite (sum_ext nt _ (fun m => trapw nt m * ((nth m a 0 + cj R (nth m a 0)) * (if Nat.eqb m 0 then natR n else 0)))).
      - assert (0 < nt)%nat as H0 by lia.
        rewrite (sum_single nt 0%nat) by (try exact H0; intros i Hi Hne; apply Nat.eqb_neq in Hne; rewrite Hne; ring).
        unfold trapw. cbn [Nat.eqb orb]. ring.
      - intros m Hm. rewrite sum_mul_l. f_equal. rewrite sum_add, !sum_mul_l.
        assert (forall s : Z, (s = 1 \/ s = -1)%Z ->
                  sum n (fun k => zp (s * (- Z.of_nat k * Z.of_nat m))) = if Nat.eqb m 0 then natR n else 0) as G.
        { intros s Hs.
          rewrite (sum_ext n _ (fun k => zp ((s * (Z.of_nat 0 - Z.of_nat m)) * Z.of_nat k)))
            by (intros k _; f_equal; cbn [Z.of_nat]; ring).
          rewrite (geom_sum n npos zeta orth s 0%nat m Hs) by lia.
          rewrite Nat.eqb_sym. reflexivity. }
        rewrite (sum_ext n (fun i => zp (- Z.of_nat i * Z.of_nat m)) (fun k => zp (1 * (- Z.of_nat k * Z.of_nat m))))
          by (intros k _; f_equal; ring).
        rewrite (sum_ext n (fun i => zp (- (- Z.of_nat i * Z.of_nat m))) (fun k => zp (-1 * (- Z.of_nat k * Z.of_nat m))))
          by (intros k _; f_equal; ring).
        rewrite !G by (auto). ring.
    Qed.
  End Orth.
End LineProofs.

(* ---------------------------------------------------------------------------------- *)
(*  dipole strengths of the exciton transitions                                       *)
(* ---------------------------------------------------------------------------------- *)
Section Dipoles.
  Context {R : StarRing}.
  Add Ring Rr11d : (rth R).
  Open Scope sr_scope.
  Variable n : nat.                                  (* number of states *)

  Lemma sum_delta_mid m k (f : nat -> R) : (k < m)%nat -> sum m (fun j => f j * delta k j) = f k.
  Proof.
    intros Hk. rewrite <- (sum_delta_l m k f Hk). apply sum_ext. intros j _. ring.
  Qed.

  Lemma dstr_ext (S S' d d' : nat -> nat -> R) a :
    (forall j, (j < n)%nat -> S j a = S' j a) -> (forall j k, (j < n)%nat -> (k < 3)%nat -> d j k = d' j k) ->
    dstr n S d a = dstr n S' d' a.
  Proof.
    intros HS Hd. unfold dstr. apply sum_ext. intros k Hk.
    assert (mu n S d a k = mu n S' d' a k) as E
      by (unfold mu; apply sum_ext; intros j Hj; now rewrite HS, Hd).
    now rewrite E.
  Qed.

  (* a common factor on all dipoles: the square on every dipole strength *)
  Lemma dstr_scale (S d : nat -> nat -> R) c a :
    dstr n S (fun j k => c * d j k) a = c * c * dstr n S d a.
  Proof.
    unfold dstr. rewrite <- sum_mul_l. apply sum_ext. intros k _.
    assert (mu n S (fun j k0 => c * d j k0) a k = c * mu n S d a k) as E.
    { unfold mu. rewrite <- sum_mul_l. apply sum_ext. intros j _. ring. }
    rewrite E. ring.
  Qed.

  (* a common rotation (any orthogonal 3x3 matrix) of all dipoles: no change *)
  Definition orthogonal3 (Q : nat -> nat -> R) : Prop :=
    forall i j, (i < 3)%nat -> (j < 3)%nat -> sum 3 (fun k => Q k i * Q k j) = delta i j.
  Definition rotate (Q d : nat -> nat -> R) : nat -> nat -> R := fun j k => sum 3 (fun i => Q k i * d j i).

  Lemma mu_rotate Q (S d : nat -> nat -> R) a k : mu n S (rotate Q d) a k = sum 3 (fun i => Q k i * mu n S d a i).
  Proof.
    unfold mu, rotate.
    rewrite (sum_ext n _ (fun j => sum 3 (fun i => Q k i * d j i * S j a)))
      by (intros j _; rewrite <- sum_mul_r; reflexivity).
    rewrite sum_swap. apply sum_ext. intros i _. rewrite <- sum_mul_l. apply sum_ext. intros j _. ring.
  Qed.

  Lemma dot_rotate Q (u v : nat -> R) : orthogonal3 Q ->
    sum 3 (fun k => sum 3 (fun i => Q k i * u i) * sum 3 (fun j => Q k j * v j)) = sum 3 (fun i => u i * v i).
  Proof.
    intros HQ.
    rewrite (sum_ext 3 _ (fun k => sum 3 (fun i => sum 3 (fun j => (u i * v j) * (Q k i * Q k j))))).
    - rewrite sum_swap.
      rewrite (sum_ext 3 _ (fun i => sum 3 (fun j => (u i * v j) * delta i j))).
      + apply sum_ext. intros i Hi. rewrite (sum_delta_mid _ i (fun j => _)) by exact Hi. reflexivity.
      + intros i Hi. rewrite sum_swap. apply sum_ext. intros j Hj. rewrite sum_mul_l. now rewrite HQ.
    - intros k _. rewrite <- sum_mul_r. apply sum_ext. intros i _. rewrite <- sum_mul_l.
      apply sum_ext. intros j _. ring.
  Qed.

  Lemma dstr_rotate Q (S d : nat -> nat -> R) a : orthogonal3 Q -> dstr n S (rotate Q d) a = dstr n S d a.
  Proof.
    intros HQ. unfold dstr.
    rewrite (sum_ext 3 _ (fun k => sum 3 (fun i => Q k i * mu n S d a i) * sum 3 (fun j => Q k j * mu n S d a j)))
      by (intros k _; now rewrite mu_rotate).
    now apply dot_rotate.
  Qed.

  (* relabelling the molecules: sites and eigenvector rows permuted together *)
  Fixpoint lsum' (l : list R) : R := match l with [] => 0 | x :: l' => x + lsum' l' end.
  Lemma lsum'_app l m : lsum' (l ++ m) = lsum' l + lsum' m.
  Proof. induction l as [|x l IH]; cbn [app lsum']; [ring|]. rewrite IH. ring. Qed.
  Lemma lsum'_perm l m : Permutation l m -> lsum' l = lsum' m.
  Proof. induction 1; cbn [lsum']; try congruence; try ring. Qed.
  Lemma sum_lsum' m (f : nat -> R) : sum m f = lsum' (map f (seq 0 m)).
  Proof.
    induction m as [|m IH]; [reflexivity|]. rewrite seq_S, map_app, lsum'_app. cbn [sum map lsum' Nat.add].
    rewrite IH. ring.
  Qed.
  Lemma sum_permuted sigma (f : nat -> R) : Permutation sigma (seq 0 n) ->
    sum n (fun j => f (nth j sigma 0%nat)) = sum n f.
  Proof.
    intros Hp. rewrite !sum_lsum'. pose proof (Permutation_length Hp) as Hl. rewrite seq_length in Hl.
    rewrite <- (map_map (fun j => nth j sigma 0%nat) f).
    assert (map (fun j => nth j sigma 0%nat) (seq 0 n) = sigma) as E.
    { rewrite <- Hl. apply (nth_ext _ _ 0%nat 0%nat); [now rewrite map_length, seq_length|].
      intros i Hi. rewrite map_length, seq_length in Hi.
      rewrite (nth_indep _ 0%nat (nth 0 sigma 0%nat)) by (now rewrite map_length, seq_length).
      rewrite (map_nth (fun j => nth j sigma 0%nat)), seq_nth by exact Hi. reflexivity. }
    rewrite E. apply lsum'_perm. now apply Permutation_map.
  Qed.

  Lemma dstr_relabel sigma (S d : nat -> nat -> R) a : Permutation sigma (seq 0 n) ->
    dstr n (fun j b => S (nth j sigma 0%nat) b) (fun j k => d (nth j sigma 0%nat) k) a = dstr n S d a.
  Proof.
    intros Hp. unfold dstr. apply sum_ext. intros k _.
    assert (mu n (fun j b => S (nth j sigma 0%nat) b) (fun j k0 => d (nth j sigma 0%nat) k0) a k = mu n S d a k) as E.
    { unfold mu. exact (sum_permuted sigma (fun j => d j k * S j a) Hp). }
    now rewrite E.
  Qed.

  (* sum rule: for an orthogonal eigenvector matrix the dipole strengths add up to the sum of squared
     site dipoles, whatever the Hamiltonian *)
  Lemma dstr_sum_rule (S d : nat -> nat -> R) :
    (forall i j, (i < n)%nat -> (j < n)%nat -> sum n (fun a => S i a * S j a) = delta i j) ->
    sum n (fun a => dstr n S d a) = sum n (fun j => sum 3 (fun k => d j k * d j k)).
  Proof.
    intros HS. unfold dstr. rewrite sum_swap.
    rewrite (sum_swap n 3 (fun j k => d j k * d j k)). apply sum_ext. intros k _. unfold mu.
    rewrite (sum_ext n _ (fun a => sum n (fun i => sum n (fun j => (d i k * d j k) * (S i a * S j a))))).
    - rewrite sum_swap.
      rewrite (sum_ext n _ (fun i => sum n (fun j => (d i k * d j k) * delta i j))).
      + apply sum_ext. intros i Hi. rewrite (sum_delta_mid _ i (fun j => _)) by exact Hi. reflexivity.
      + intros i Hi. rewrite sum_swap. apply sum_ext. intros j Hj. rewrite sum_mul_l. now rewrite HS.
    - intros a _. rewrite <- sum_mul_r. apply sum_ext. intros i _. rewrite <- sum_mul_l.
      apply sum_ext. intros j _. ring.
  Qed.

  (* purity: the calculation transforms H, D (and R) by S and at the end by inv(S): X -> S (S1 X S) S1 = X *)
  Lemma transform_back (S S1 A : @mat R) :
    meq n (mmul n S S1) mid -> meq n (mmul n S (mmul n (mmul n S1 (mmul n A S)) S1)) A.
  Proof.
    intros H1 i j Hi Hj.
    assert (meq n (mmul n (mmul n S1 (mmul n A S)) S1) (mmul n S1 (mmul n A (mmul n S S1)))) as E1.
    { intros i' j' Hi' Hj'. rewrite (mmul_assoc n S1 (mmul n A S) S1 i' j' Hi' Hj').
      apply mmul_ext; [intros ? ? ? ?; reflexivity| |assumption|assumption].
      intros a b Ha Hb. apply (mmul_assoc n A S S1 a b Ha Hb). }
    assert (meq n (mmul n A (mmul n S S1)) A) as E2.
    { intros a b Ha Hb. rewrite (mmul_ext n A A (mmul n S S1) mid) by (try assumption; intros ? ? ? ?; reflexivity).
      now apply mmul_id_r. }
    rewrite (mmul_ext n S S _ (mmul n S1 A)); try assumption.
    - rewrite <- (mmul_assoc n S S1 A i j Hi Hj).
      rewrite (mmul_ext n (mmul n S S1) mid A A) by (try assumption; intros ? ? ? ?; reflexivity).
      now apply mmul_id_l.
    - intros ? ? ? ?; reflexivity.
    - intros a b Ha Hb. rewrite (E1 a b Ha Hb). apply mmul_ext; try assumption. intros ? ? ? ?; reflexivity.
  Qed.
End Dipoles.

(* ---------------------------------------------------------------------------------- *)
(*  the frequency of the data against the returned axis                               *)
(* ---------------------------------------------------------------------------------- *)
Section GridProofs.
  Variable K : Fld.
  Add Field Kf11 : (fth K).
  Variable tp : K.
  Hypothesis tp_nz : tp <> f0 K.
  Hypothesis char0 : forall n, ofnat K (S n) <> f0 K.

  Lemma ofnat_add a b : ofnat K (a + b) = fadd K (ofnat K a) (ofnat K b).
  Proof. induction b as [|b IH]; [rewrite Nat.add_0_r; cbn; ring|]. rewrite Nat.add_succ_r. cbn [ofnat]. rewrite IH. ring. Qed.

  Lemma ofnat_dbl n : ofnat K (2 * n) = fmul K (fadd K (f1 K) (f1 K)) (ofnat K n).
  Proof. replace (2 * n)%nat with (n + n)%nat by lia. rewrite ofnat_add. ring. Qed.

  Ltac nz := repeat first [assumption | apply (one_nz K char0) | apply (two_nz K char0)
                           | apply (div_nz K) | apply (mul_nz K) | apply (ofnat_nz K char0); lia].

  (* the pinned axis: point p is  rwa + (p + Nt//2 - Nt) * 2 pi / (2 Nt dt) *)
  Lemma pinned_axis_point nt dt rwa p : (1 <= nt)%nat -> dt <> f0 K ->
    returned_axis_point K tp Pinned nt dt rwa p =
    Some (fadd K rwa (fmul K (fsub K (fadd K (ofnat K p) (ofnat K (nt / 2))) (ofnat K nt))
                            (fdiv K tp (fmul K (ofnat K (2 * nt)) dt)))).
  Proof.
    intros Hn Hd. unfold returned_axis_point, freq_axis_of. cbn [a_type a_len a_step a_start a_conj].
    destruct (Nat.ltb_spec (2 * nt) 2) as [Hlt|_]; [lia|]. cbn [a_len a_step a_start a_conj].
    assert (2 * nt / 2 / 2 = nt / 2)%nat as Hh by lia. rewrite Hh. f_equal.
    pose proof (ofnat_nz K char0 nt ltac:(lia)) as HN. pose proof (ofnat_nz K char0 (2 * nt) ltac:(lia)) as HN2.
    rewrite (ffs_step_tp K tp (2 * nt) dt HN2 Hd).
    unfold point, fftfreq_shifted. cbn [a_start a_step ofnat].
    assert (2 * nt / 2 = nt)%nat as Hh2 by lia. rewrite Hh2. rewrite !ofnat_dbl.
    field. repeat split; nz.
  Qed.

  (* both grids for Nt = m + 1 in terms of P = p, H = Nt//2, M = m *)
  Lemma data_frequency_S m dt rwa p : (1 <= m)%nat -> dt <> f0 K ->
    data_frequency K tp (S m) dt rwa p =
    fadd K rwa (fmul K (fadd K (fsub K (fadd K (ofnat K p) (ofnat K (S m / 2))) (fadd K (ofnat K m) (f1 K))) (fadd K (f1 K) (f1 K)))
                       (fdiv K tp (fmul K (fmul K (fadd K (f1 K) (f1 K)) (ofnat K m)) dt))).
  Proof.
    intros Hm Hd. unfold data_frequency. replace (2 * S m - 2)%nat with (2 * m)%nat by lia.
    rewrite ofnat_dbl. set (hh := (S m / 2)%nat). clearbody hh.
    change (ofnat K (S m)) with (fadd K (ofnat K m) (f1 K)).
    change (ofnat K 2) with (fadd K (fadd K (f0 K) (f1 K)) (f1 K)).
    pose proof (ofnat_nz K char0 m ltac:(lia)) as HM. field. repeat split; nz.
  Qed.

  Lemma pinned_axis_point_S m dt rwa p : (1 <= m)%nat -> dt <> f0 K ->
    returned_axis_point K tp Pinned (S m) dt rwa p =
    Some (fadd K rwa (fmul K (fsub K (fadd K (ofnat K p) (ofnat K (S m / 2))) (fadd K (ofnat K m) (f1 K)))
                       (fdiv K tp (fmul K (fmul K (fadd K (f1 K) (f1 K)) (fadd K (ofnat K m) (f1 K))) dt)))).
  Proof.
    intros Hm Hd. rewrite pinned_axis_point by (try assumption; lia). f_equal.
    rewrite ofnat_dbl. set (hh := (S m / 2)%nat). clearbody hh.
    change (ofnat K (S m)) with (fadd K (ofnat K m) (f1 K)). reflexivity.
  Qed.

  (* the algebra: equality of the two grid points forces p + Nt//2 + Nt = 0 *)
  Lemma misalign_alg (P H M rwa dt : K) : dt <> f0 K -> M <> f0 K -> fadd K M (f1 K) <> f0 K ->
    fadd K rwa (fmul K (fsub K (fadd K P H) (fadd K M (f1 K)))
                       (fdiv K tp (fmul K (fmul K (fadd K (f1 K) (f1 K)) (fadd K M (f1 K))) dt))) =
    fadd K rwa (fmul K (fadd K (fsub K (fadd K P H) (fadd K M (f1 K))) (fadd K (f1 K) (f1 K)))
                       (fdiv K tp (fmul K (fmul K (fadd K (f1 K) (f1 K)) M) dt))) ->
    fadd K (fadd K P H) (fadd K M (f1 K)) = f0 K.
  Proof.
    intros Hd HM HM1 E.
    set (lhs := fadd K rwa (fmul K (fsub K (fadd K P H) (fadd K M (f1 K)))
                       (fdiv K tp (fmul K (fmul K (fadd K (f1 K) (f1 K)) (fadd K M (f1 K))) dt)))) in *.
    set (rhs := fadd K rwa (fmul K (fadd K (fsub K (fadd K P H) (fadd K M (f1 K))) (fadd K (f1 K) (f1 K)))
                       (fdiv K tp (fmul K (fmul K (fadd K (f1 K) (f1 K)) M) dt)))) in *.
    transitivity (fmul K (fsub K rhs lhs)
                    (fdiv K (fmul K (fmul K dt (fmul K (fadd K (f1 K) (f1 K)) M)) (fadd K M (f1 K))) tp)).
    - unfold lhs, rhs. field. repeat split; nz.
    - rewrite E. field. nz.
  Qed.

  Lemma Some_inj {A} (a b : A) : Some a = Some b -> a = b.
  Proof. congruence. Qed.

  (* every data point belongs to a frequency different from its axis point *)
  Lemma pinned_misaligned nt dt rwa p y : (2 <= nt)%nat -> dt <> f0 K ->
    returned_axis_point K tp Pinned nt dt rwa p = Some y -> y <> data_frequency K tp nt dt rwa p.
  Proof.
    intros Hn Hd Hy. destruct nt as [|m]; [lia|]. assert (1 <= m)%nat as Hm by lia.
    rewrite pinned_axis_point_S in Hy by assumption. injection Hy as <-.
    rewrite data_frequency_S by assumption. intros E.
    pose proof (ofnat_nz K char0 m ltac:(lia)) as HM.
    apply misalign_alg in E; [|assumption|assumption|apply (char0 m)].
    apply (ofnat_nz K char0 (p + S m / 2 + S m)); [lia|].
    rewrite !ofnat_add. exact E.
  Qed.

  (* how far: data frequency = rwa + (axis point - rwa) * Nt / (Nt - 1) + 2 grid steps of the transform *)
  Lemma pinned_displacement nt dt rwa p y : (2 <= nt)%nat -> dt <> f0 K ->
    returned_axis_point K tp Pinned nt dt rwa p = Some y ->
    data_frequency K tp nt dt rwa p =
    fadd K (fadd K rwa (fmul K (fsub K y rwa) (fdiv K (ofnat K nt) (ofnat K (nt - 1)))))
           (fmul K (fadd K (f1 K) (f1 K)) (fdiv K tp (fmul K (ofnat K (2 * nt - 2)) dt))).
  Proof.
    intros Hn Hd Hy. destruct nt as [|m]; [lia|]. assert (1 <= m)%nat as Hm by lia.
    rewrite pinned_axis_point_S in Hy by assumption. apply Some_inj in Hy. rewrite <- Hy. clear Hy y.
    rewrite data_frequency_S by assumption.
    replace (2 * S m - 2)%nat with (2 * m)%nat by lia. replace (S m - 1)%nat with m by lia.
    rewrite ofnat_dbl. set (hh := (S m / 2)%nat). clearbody hh.
    change (ofnat K (S m)) with (fadd K (ofnat K m) (f1 K)).
    pose proof (ofnat_nz K char0 m ltac:(lia)) as HM.
    assert (fadd K (ofnat K m) (f1 K) <> f0 K) as HM1 by (apply (char0 m)).
    field. repeat split; nz.
  Qed.

  (* with the axis re-created on the grid of the transform every point is aligned *)
  Lemma repaired_aligned nt dt rwa p :
    returned_axis_point K tp Repaired nt dt rwa p = Some (data_frequency K tp nt dt rwa p).
  Proof. reflexivity. Qed.
End GridProofs.
