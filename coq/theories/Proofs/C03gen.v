(* Statement skeletons of quantarhei/builders/aggregate_base.py (state enumeration, decision trees, fill loops) over
   Python integers (Z) with the arithmetic content as parameters, and the lemmas that turn "the content is the
   expected one" into equality with the model of Model/C03.v.  harness/translate_c03.py instantiates the parameters
   from the current source on every run.  The skeletons read the statement structure faithfully on the region where
   the side conditions of the lemmas hold (indices in range, loops that terminate within the fuel given); outside it
   (IndexError, negative list positions, non-terminating while loops) they are total but arbitrary - no lemma applies there. *)
From Coq Require Import ZArith List Bool Arith Lia.
From QV Require Import Base.Alg Base.Sums Base.Mat Model.C03 Proofs.C03.
Import ListNotations.

(* x[i] on a list of non-negative Python ints *)
Definition pynth (l : list nat) (i : Z) : Z :=
  if (0 <=? i)%Z then Z.of_nat (nth (Z.to_nat i) l 0) else Z.of_nat (nth (Z.to_nat (Z.of_nat (length l) + i)) l 0).
Definition znth (l : list Z) (i : Z) : Z :=
  if (0 <=? i)%Z then nth (Z.to_nat i) l 0%Z else nth (Z.to_nat (Z.of_nat (length l) + i)) l 0%Z.
(* range(lo, hi) *)
Definition zrange (lo hi : Z) : list Z := map (fun j => (lo + Z.of_nat j)%Z) (seq 0 (Z.to_nat (hi - lo))).
Definition ozn (o : option nat) : Z := match o with Some i => Z.of_nat i | None => (-1)%Z end.

Lemma pynth_nat l j : pynth l (Z.of_nat j) = Z.of_nat (nth j l 0).
Proof. unfold pynth. replace (0 <=? Z.of_nat j)%Z with true by (symmetry; apply Z.leb_le; lia). now rewrite Nat2Z.id. Qed.
Lemma znth_nat l j : znth l (Z.of_nat j) = nth j l 0%Z.
Proof. unfold znth. replace (0 <=? Z.of_nat j)%Z with true by (symmetry; apply Z.leb_le; lia). now rewrite Nat2Z.id. Qed.
Lemma zrange_from a n s : map (fun j => (Z.of_nat a + Z.of_nat j)%Z) (seq s n) = map Z.of_nat (seq (a + s) n).
Proof.
  revert s; induction n as [|n IH]; intros s; cbn [seq map]; [reflexivity|]. f_equal; [lia|].
  rewrite IH. now rewrite Nat.add_succ_r.
Qed.
Lemma zrange_nat a b : zrange (Z.of_nat a) (Z.of_nat b) = map Z.of_nat (seq a (b - a)).
Proof.
  unfold zrange. replace (Z.to_nat (Z.of_nat b - Z.of_nat a)) with (b - a) by lia.
  rewrite zrange_from. now rewrite Nat.add_0_r.
Qed.

Lemma ltb_nat a b : (Z.of_nat a <? Z.of_nat b)%Z = Nat.ltb a b.
Proof. destruct (Nat.ltb_spec a b); [apply Z.ltb_lt|apply Z.ltb_ge]; lia. Qed.
Lemma eqb_nat a b : (Z.of_nat a =? Z.of_nat b)%Z = Nat.eqb a b.
Proof. destruct (Nat.eqb_spec a b); [apply Z.eqb_eq|apply Z.eqb_neq]; lia. Qed.

(* decides equalities between boolean combinations of integer comparisons *)
Ltac zbool :=
  intros; rewrite ?Z.geb_leb, ?Z.gtb_ltb;
  repeat match goal with
         | |- context [Z.eqb ?a ?b] => destruct (Z.eqb_spec a b)
         | |- context [Z.leb ?a ?b] => destruct (Z.leb_spec a b)
         | |- context [Z.ltb ?a ?b] => destruct (Z.ltb_spec a b)
         | b : bool |- _ => destruct b
         end; cbn [negb andb orb]; first [reflexivity | lia].

(* ------------------------------------------------------------------------------------------------------------
   _add_excitation(inlists, strt, omax):
     k = 0
     for inlist in inlists:
         l = len(inlist)
         for i in range(LO, HI):
             if COND:
                 out = inlist.copy(); out[POS] += INC; yield out, LAST
         k += KINC                                                                                               *)
Fixpoint addat (s : sig) (k : nat) (d : Z) : sig :=
  match s with
  | [] => []
  | x :: s' => match k with O => Z.to_nat (Z.of_nat x + d) :: s' | S k' => x :: addat s' k' d end
  end.
Definition bumpn (s : sig) (pos d : Z) : sig :=
  if ((0 <=? pos) && (pos <? Z.of_nat (length s)))%Z then addat s (Z.to_nat pos) d else s.

Lemma addat_raise s k : addat s k 1 = raise s k.
Proof. revert k; induction s as [|x s IH]; intros [|k]; cbn [addat raise]; try reflexivity; f_equal; [lia|apply IH]. Qed.
Lemma raise_ge s k : length s <= k -> raise s k = s.
Proof. revert k; induction s as [|x s IH]; intros [|k] H; cbn in *; try reflexivity; try lia. f_equal. apply IH. lia. Qed.
Lemma bumpn_raise s j : bumpn s (Z.of_nat j) 1 = raise s j.
Proof.
  unfold bumpn. destruct (Z.ltb_spec (Z.of_nat j) (Z.of_nat (length s))).
  - replace (0 <=? Z.of_nat j)%Z with true by (symmetry; apply Z.leb_le; lia). cbn [andb]. now rewrite Nat2Z.id, addat_raise.
  - rewrite andb_false_r. symmetry. apply raise_ge. lia.
Qed.

Section AddExc.
  Variables (lo hi kinc : sig -> list Z -> list nat -> Z -> Z -> Z).               (* inlist strt omax k l *)
  Variable (cond : sig -> list Z -> list nat -> Z -> Z -> Z -> bool).             (* inlist strt omax k l i *)
  Variables (pos inc last : sig -> list Z -> list nat -> Z -> Z -> Z -> Z).
  Definition add_one_skel (strt : list Z) (omax : list nat) (k : Z) (il : sig) : list (sig * Z) :=
    let l := Z.of_nat (length il) in
    flat_map (fun i => if cond il strt omax k l i
                       then [(bumpn il (pos il strt omax k l i) (inc il strt omax k l i), last il strt omax k l i)] else [])
             (zrange (lo il strt omax k l) (hi il strt omax k l)).
  Fixpoint add_exc_go (strt : list Z) (omax : list nat) (ins : list sig) (k : Z) : list (sig * Z) :=
    match ins with
    | [] => []
    | il :: r => add_one_skel strt omax k il ++ add_exc_go strt omax r (k + kinc il strt omax k (Z.of_nat (length il)))%Z
    end.
  Definition add_exc_skel (ins : list sig) (strt : list Z) (omax : list nat) : list (sig * Z) := add_exc_go strt omax ins 0%Z.

  Definition zp (p : sig * nat) : sig * Z := (fst p, Z.of_nat (snd p)).

  Hypothesis Hlo : forall il strt omax k l, lo il strt omax k l = znth strt k.
  Hypothesis Hhi : forall il strt omax k l, hi il strt omax k l = l.
  Hypothesis Hkinc : forall il strt omax k l, kinc il strt omax k l = 1%Z.
  Hypothesis Hcond : forall il strt omax k l i, cond il strt omax k l i = (pynth il i <? pynth omax i)%Z.
  Hypothesis Hpos : forall il strt omax k l i, pos il strt omax k l i = i.
  Hypothesis Hinc : forall il strt omax k l i, inc il strt omax k l i = 1%Z.
  Hypothesis Hlast : forall il strt omax k l i, last il strt omax k l i = i.

  Lemma add_one_skel_is_model strt omax k il st : znth strt k = Z.of_nat st ->
    add_one_skel strt omax k il = map zp (add_one omax il st).
  Proof.
    intros Hk. unfold add_one_skel, add_one. rewrite Hlo, Hhi, Hk, zrange_nat.
    generalize (seq st (length il - st)) as js. induction js as [|j js IH]; cbn [map flat_map]; [reflexivity|].
    rewrite map_app, IH. f_equal. rewrite Hcond, Hpos, Hinc, Hlast, !pynth_nat, bumpn_raise.
    rewrite ltb_nat. destruct (nth j il 0 <? nth j omax 0); reflexivity.
  Qed.

  Lemma add_exc_go_is_model omax (ins pre : list (sig * nat)) :
    add_exc_go (map (fun p => Z.of_nat (snd p)) (pre ++ ins)) omax (map fst ins) (Z.of_nat (length pre))
    = map zp (add_excitation omax ins).
  Proof.
    revert pre. induction ins as [|p ins IH]; intros pre; cbn [map add_exc_go]; [reflexivity|].
    unfold add_excitation. cbn [flat_map]. rewrite (map_app zp). f_equal.
    - apply add_one_skel_is_model. rewrite znth_nat, map_app, app_nth2 by (rewrite map_length; lia).
      rewrite map_length, Nat.sub_diag. reflexivity.
    - rewrite Hkinc. specialize (IH (pre ++ [p])). rewrite <- app_assoc in IH. cbn [app] in IH.
      rewrite app_length in IH. cbn [length] in IH. replace (Z.of_nat (length pre) + 1)%Z with (Z.of_nat (length pre + 1)) by lia.
      exact IH.
  Qed.

  Lemma add_exc_skel_is_model omax (ins : list (sig * nat)) :
    add_exc_skel (map fst ins) (map (fun p => Z.of_nat (snd p)) ins) omax = map zp (add_excitation omax ins).
  Proof. exact (add_exc_go_is_model omax ins []). Qed.
End AddExc.

(* ------------------------------------------------------------------------------------------------------------
   elsignatures(mult, mode, emax):
     mlt = MLT0
     while OUTER:
         out = [ZERO for k in range(l)]
         if GROUND: yield tuple(out)
         else:
             k = K0; ins = [out]; strt = [S0]
             while INNER:
                 nins = []; nstr = []
                 for out_added, last in self._add_excitation(ins, strt, omax):
                     if YIELD: yield tuple(out_added)
                     else: nins.append(out_added); nstr.append(last)
                 ins = nins; strt = nstr; k += KINC
         mlt += MLTINC
   YIELD mentions neither out_added nor last (checked by the translator), so it is constant over the for loop.
   lq stands for mode == "LQ"; the function refuses every mode other than "LQ" and "EQ".                         *)
Section ElSig.
  Variables (mlt0 k0 s0 zero kinc mltinc : Z).
  Variables (outer : Z -> Z -> bool) (ground : Z -> Z -> bool -> bool).                 (* mlt mult [lq] *)
  Variables (inner : Z -> Z -> Z -> bool) (yieldc : Z -> Z -> Z -> bool -> bool).       (* k mlt mult [lq] *)
  Variable addexc : list sig -> list Z -> list nat -> list (sig * Z).
  Fixpoint inner_loop (fuel : nat) (omax : list nat) (k mlt mult : Z) (lq : bool) (ins : list sig) (strt : list Z) : list sig :=
    match fuel with
    | O => []
    | S f => if inner k mlt mult then
               let prods := addexc ins strt omax in
               if yieldc k mlt mult lq then map fst prods ++ inner_loop f omax (k + kinc)%Z mlt mult lq [] []
               else inner_loop f omax (k + kinc)%Z mlt mult lq (map fst prods) (map snd prods)
             else []
    end.
  Fixpoint outer_loop (fuel : nat) (omax : list nat) (mlt mult : Z) (lq : bool) : list sig :=
    match fuel with
    | O => []
    | S f => if outer mlt mult then
               let out := repeat (Z.to_nat zero) (length omax) in
               (if ground mlt mult lq then [out] else inner_loop (Z.to_nat mlt + 2) omax k0 mlt mult lq [out] [s0])
               ++ outer_loop f omax (mlt + mltinc)%Z mult lq
             else []
    end.
  Definition elsig_skel (omax : list nat) (mult : Z) (lq : bool) : list sig := outer_loop (Z.to_nat mult + 2) omax mlt0 mult lq.

  Hypothesis Hmlt0 : mlt0 = 0%Z.
  Hypothesis Hk0 : k0 = 1%Z.
  Hypothesis Hs0 : s0 = 0%Z.
  Hypothesis Hzero : zero = 0%Z.
  Hypothesis Hkinc : kinc = 1%Z.
  Hypothesis Hmltinc : mltinc = 1%Z.
  Hypothesis Houter : forall mlt mult, outer mlt mult = (mlt <=? mult)%Z.
  Hypothesis Hground : forall mlt mult lq, ground mlt mult lq = (((mlt =? 0) && lq) || (mult =? 0))%Z.
  Hypothesis Hinner : forall k mlt mult, inner k mlt mult = (k <=? mlt)%Z.
  Hypothesis Hyield : forall k mlt mult lq, yieldc k mlt mult lq = (((k =? mlt) && lq) || ((mult =? k) && (mult =? mlt)))%Z.
  Hypothesis Haddexc : forall omax (ins : list (sig * nat)),
    addexc (map fst ins) (map (fun p => Z.of_nat (snd p)) ins) omax = map zp (add_excitation omax ins).

  Lemma map_fst_zp l : map fst (map zp l) = map fst l.
  Proof. rewrite map_map. reflexivity. Qed.
  Lemma map_snd_zp l : map snd (map zp l) = map (fun p => Z.of_nat (snd p)) l.
  Proof. rewrite map_map. reflexivity. Qed.

  Definition piece (omax : list nat) (mlt mult : nat) (lq : bool) : list sig :=
    if lq || Nat.eqb mlt mult then elsigs_eq omax mlt else [].

  Lemma inner_loop_done f omax k mlt mult lq ins strt : (mlt < k)%Z -> inner_loop f omax k mlt mult lq ins strt = [].
  Proof. intros H. destruct f; cbn [inner_loop]; [reflexivity|]. rewrite Hinner. now replace (k <=? mlt)%Z with false by (symmetry; apply Z.leb_gt; lia). Qed.

  Lemma inner_loop_run omax (mlt mult : nat) lq : forall d k fuel, k + d = mlt -> 1 <= k -> d + 2 <= fuel ->
    inner_loop fuel omax (Z.of_nat k) (Z.of_nat mlt) (Z.of_nat mult) lq
               (map fst (level omax (k - 1))) (map (fun p => Z.of_nat (snd p)) (level omax (k - 1)))
    = piece omax mlt mult lq.
  Proof.
    induction d as [|d IH]; intros k fuel Hk H1 Hf; (destruct fuel as [|fuel]; [lia|]); cbn [inner_loop];
      rewrite Hinner, Haddexc, Hyield, Hkinc; replace (Z.of_nat k <=? Z.of_nat mlt)%Z with true by (symmetry; apply Z.leb_le; lia);
      assert (HS : add_excitation omax (level omax (k - 1)) = level omax k)
        by (replace k with (S (k - 1)) at 2 by lia; symmetry; apply level_S); rewrite HS.
    - assert (k = mlt) by lia. subst k. rewrite Z.eqb_refl. cbn [andb]. rewrite (Z.eqb_sym (Z.of_nat mult)), eqb_nat, andb_diag.
      unfold piece. rewrite map_fst_zp, map_snd_zp. rewrite !(inner_loop_done fuel) by lia.
      destruct lq; cbn [orb]; [now rewrite app_nil_r|]. destruct (mlt =? mult); [now rewrite app_nil_r|reflexivity].
    - replace (Z.of_nat k =? Z.of_nat mlt)%Z with false by (symmetry; apply Z.eqb_neq; lia). cbn [andb orb].
      replace ((Z.of_nat mult =? Z.of_nat k) && (Z.of_nat mult =? Z.of_nat mlt))%Z with false
        by (symmetry; apply andb_false_iff; destruct (Z.eqb_spec (Z.of_nat mult) (Z.of_nat k)); [right; apply Z.eqb_neq; lia|now left]).
      rewrite map_fst_zp, map_snd_zp. replace (Z.of_nat k + 1)%Z with (Z.of_nat (S k)) by lia.
      specialize (IH (S k) fuel ltac:(lia) ltac:(lia) ltac:(lia)). replace (S k - 1) with k in IH by lia. exact IH.
  Qed.

  Lemma outer_body omax (mlt mult : nat) lq : mlt <= mult ->
    (if ground (Z.of_nat mlt) (Z.of_nat mult) lq then [repeat (Z.to_nat zero) (length omax)]
     else inner_loop (Z.to_nat (Z.of_nat mlt) + 2) omax k0 (Z.of_nat mlt) (Z.of_nat mult) lq [repeat (Z.to_nat zero) (length omax)] [s0])
    = piece omax mlt mult lq.
  Proof.
    intros Hle. rewrite Hground, Hzero, Hk0, Hs0, Nat2Z.id. change (Z.to_nat 0) with 0.
    assert (L0 : level omax 0 = [(repeat 0 (length omax), 0)]) by reflexivity.
    destruct mlt as [|m].
    - change (Z.of_nat 0 =? 0)%Z with true. cbn [andb]. unfold piece.
      destruct lq; cbn [orb].
      + unfold elsigs_eq. rewrite L0. reflexivity.
      + change 0%Z with (Z.of_nat 0) at 1. rewrite eqb_nat, Nat.eqb_sym. destruct (Nat.eqb_spec 0 mult) as [<-|Hne].
        * unfold elsigs_eq. rewrite L0. reflexivity.
        * apply inner_loop_done. lia.
    - replace (Z.of_nat (S m) =? 0)%Z with false by (symmetry; apply Z.eqb_neq; lia).
      replace (Z.of_nat mult =? 0)%Z with false by (symmetry; apply Z.eqb_neq; lia). cbn [andb orb].
      pose proof (inner_loop_run omax (S m) mult lq m 1 (S m + 2) ltac:(lia) ltac:(lia) ltac:(lia)) as H.
      change (1 - 1) with 0 in H. rewrite L0 in H. exact H.
  Qed.

  Lemma outer_loop_run omax (mult : nat) lq : forall d mlt fuel, mlt + d = S mult -> d + 1 <= fuel ->
    outer_loop fuel omax (Z.of_nat mlt) (Z.of_nat mult) lq = flat_map (fun m => piece omax m mult lq) (seq mlt d).
  Proof.
    induction d as [|d IH]; intros mlt fuel Hm Hf; (destruct fuel as [|fuel]; [lia|]); cbn [outer_loop seq flat_map]; rewrite Houter.
    - now replace (Z.of_nat mlt <=? Z.of_nat mult)%Z with false by (symmetry; apply Z.leb_gt; lia).
    - replace (Z.of_nat mlt <=? Z.of_nat mult)%Z with true by (symmetry; apply Z.leb_le; lia).
      rewrite outer_body by lia. f_equal. rewrite Hmltinc. replace (Z.of_nat mlt + 1)%Z with (Z.of_nat (S mlt)) by lia.
      apply IH; lia.
  Qed.

  Lemma pieces_eq omax mult n : n <= mult -> flat_map (fun m => piece omax m mult false) (seq 0 n) = [].
  Proof.
    intros Hn. apply flat_map_nil. intros m Hm. apply in_seq in Hm. unfold piece. cbn [orb].
    now replace (m =? mult) with false by (symmetry; apply Nat.eqb_neq; lia).
  Qed.

  Lemma elsig_skel_is_model omax (mult : nat) lq :
    elsig_skel omax (Z.of_nat mult) lq = if lq then elsigs omax mult else elsigs_eq omax mult.
  Proof.
    unfold elsig_skel. rewrite Hmlt0. change 0%Z with (Z.of_nat 0).
    rewrite (outer_loop_run omax mult lq (S mult) 0) by lia. destruct lq.
    - unfold elsigs. apply flat_map_ext_in'. intros m _. reflexivity.
    - rewrite seq_S, flat_map_app, pieces_eq by lia. cbn [flat_map app Nat.add]. unfold piece. cbn [orb].
      now rewrite Nat.eqb_refl, app_nil_r.
  Qed.
End ElSig.

(* ------------------------------------------------------------------------------------------------------------
   ElectronicState.__init__:   self.band = B0;  for k in self.elsignature: self.band = NEXT                      *)
Section Band.
  Variables (b0 : Z) (next : Z -> Z -> Z).                     (* band so far, k *)
  Definition band_skel (s : sig) : Z := fold_left (fun acc k => next acc (Z.of_nat k)) s b0.
  Hypothesis Hb0 : b0 = 0%Z.
  Hypothesis Hnext : forall acc k, next acc k = (acc + k)%Z.
  Lemma band_skel_is_model s : band_skel s = Z.of_nat (band s).
  Proof.
    unfold band_skel, band. rewrite Hb0.
    assert (G : forall acc, fold_left (fun acc k => next acc (Z.of_nat k)) s (Z.of_nat acc) = Z.of_nat (acc + list_sum s)).
    { induction s as [|x s' IH]; intros acc; cbn [fold_left list_sum fold_right]; [f_equal; lia|].
      rewrite Hnext. replace (Z.of_nat acc + Z.of_nat x)%Z with (Z.of_nat (acc + x)) by lia. rewrite IH. f_equal. fold (list_sum s'). lia. }
    exact (G 0).
  Qed.
End Band.

(* ------------------------------------------------------------------------------------------------------------
   positions where two signatures of the same length differ, as a filter over the index range                   *)
Definition dneq (a b : sig) (i : nat) : bool := negb (Nat.eqb (nth i a 0) (nth i b 0)).
Lemma filter_map_S (p : nat -> bool) l : filter p (map S l) = map S (filter (fun j => p (S j)) l).
Proof. induction l as [|x l IH]; cbn [map filter]; [reflexivity|]. destruct (p (S x)); cbn [map]; now rewrite IH. Qed.
Lemma diffs_filter a : forall b i, length a = length b ->
  diffs i a b = map (fun j => i + j) (filter (dneq a b) (seq 0 (length a))).
Proof.
  induction a as [|x a IH]; intros [|y b] i Hl; cbn in Hl; try lia; [reflexivity|].
  cbn [diffs length]. rewrite <- cons_seq, <- seq_shift. cbn [filter]. unfold dneq at 1. cbn [nth].
  rewrite filter_map_S. rewrite (IH b (S i)) by lia.
  assert (E : map (fun j => S i + j) (filter (dneq a b) (seq 0 (length a)))
              = map (fun j => i + j) (map S (filter (fun j => dneq (x :: a) (y :: b) (S j)) (seq 0 (length a))))).
  { rewrite map_map. apply map_ext. intros; lia. }
  destruct (Nat.eqb x y); cbn [negb map]; rewrite E; [reflexivity|]. f_equal. lia.
Qed.
Lemma diffs0_filter a b : length a = length b -> diffs 0 a b = filter (dneq a b) (seq 0 (length a)).
Proof. intros H. rewrite diffs_filter by exact H. rewrite map_id. reflexivity. Qed.

Lemma fold_filter {A} (step : A -> nat -> A) (p : nat -> bool) l : forall x,
  fold_left (fun x i => if p i then step x i else x) l x = fold_left step (filter p l) x.
Proof. induction l as [|i l IH]; intros x; cbn [fold_left filter]; [reflexivity|]. destruct (p i); cbn [fold_left]; apply IH. Qed.
Lemma fold_left_map {A B C} (f : A -> B -> A) (g : C -> B) l : forall x, fold_left f (map g l) x = fold_left (fun x c => f x (g c)) l x.
Proof. induction l as [|c l IH]; intros x; cbn [map fold_left]; [reflexivity|]. apply IH. Qed.
Lemma fold_left_ext' {A B} (f g : A -> B -> A) l : (forall x b, f x b = g x b) -> forall x, fold_left f l x = fold_left g l x.
Proof. intros H. induction l as [|b l IH]; intros x; cbn [fold_left]; [reflexivity|]. now rewrite H, IH. Qed.
Lemma neq_nat a b : negb (Z.of_nat a =? Z.of_nat b)%Z = negb (Nat.eqb a b).
Proof. now rewrite eqb_nat. Qed.

(* ------------------------------------------------------------------------------------------------------------
   _get_exindx(state1, state2):
     if GUARD: return ABSENT1
     l = L0; count = C0
     for kk in els1:
         if NEQ: count = CNEXT
         l = LNEXT
     if CNT: return ABSENT2
     exstate = None; l = L1
     for kk in els1:
         l = LNEXT2
         if NEQ2: (exstate = els1 or els2); exindx = IDX
     if exstate is None: raise Exception()
     return exindx                                                                                               *)
Section ExIdx.
  Variables (guard : Z -> Z -> bool) (absent1 absent2 l0 c0 l1 : Z).
  Variables (neq neq2 : Z -> sig -> Z -> bool).               (* kk els2 l *)
  Variables (cnext lnext lnext2 idx : Z -> Z).
  Variable (cnt : Z -> bool).
  Definition count_loop (s1 s2 : sig) : Z * Z :=
    fold_left (fun st kk => let '(l, count) := st in (lnext l, if neq (Z.of_nat kk) s2 l then cnext count else count)) s1 (l0, c0).
  Definition find_loop (s1 s2 : sig) : Z * option Z :=
    fold_left (fun st kk => let '(l, ex) := st in let l' := lnext2 l in (l', if neq2 (Z.of_nat kk) s2 l' then Some (idx l') else ex)) s1 (l1, None).
  Definition exindx_skel (b1 b2 : Z) (s1 s2 : sig) : Z :=
    if guard b1 b2 then absent1
    else if cnt (snd (count_loop s1 s2)) then absent2
         else match snd (find_loop s1 s2) with Some x => x | None => absent2 end.

  Hypothesis Hguard : forall b1 b2, guard b1 b2 = (negb (Z.abs (b1 - b2) =? 1) && negb (Z.abs (b1 - b2) =? 2))%Z.
  Hypothesis Habs1 : absent1 = (-1)%Z.
  Hypothesis Habs2 : absent2 = (-1)%Z.
  Hypothesis Hl0 : l0 = 0%Z.
  Hypothesis Hc0 : c0 = 0%Z.
  Hypothesis Hl1 : l1 = (-1)%Z.
  Hypothesis Hneq : forall kk s l, neq kk s l = negb (kk =? pynth s l)%Z.
  Hypothesis Hneq2 : forall kk s l, neq2 kk s l = negb (kk =? pynth s l)%Z.
  Hypothesis Hcnext : forall c, cnext c = (c + 1)%Z.
  Hypothesis Hlnext : forall l, lnext l = (l + 1)%Z.
  Hypothesis Hlnext2 : forall l, lnext2 l = (l + 1)%Z.
  Hypothesis Hidx : forall l, idx l = l.
  Hypothesis Hcnt : forall c, cnt c = negb (c =? 1)%Z.

  Lemma pynth_app pre y r : pynth (pre ++ y :: r) (Z.of_nat (length pre)) = Z.of_nat y.
  Proof. rewrite pynth_nat, app_nth2, Nat.sub_diag by lia. reflexivity. Qed.

  Lemma count_gen : forall s1 r pre c, length s1 = length r ->
    fold_left (fun st kk => let '(l, count) := st in (lnext l, if neq (Z.of_nat kk) (pre ++ r) l then cnext count else count)) s1
              (Z.of_nat (length pre), c)
    = (Z.of_nat (length pre + length s1), (c + Z.of_nat (length (diffs (length pre) s1 r)))%Z).
  Proof.
    induction s1 as [|x s1 IH]; intros [|y r] pre c Hl; cbn in Hl; try lia; cbn [fold_left length diffs].
    - f_equal; [f_equal|]; lia.
    - rewrite Hlnext, Hneq, Hcnext, pynth_app, neq_nat.
      specialize (IH r (pre ++ [y])). rewrite <- app_assoc, app_length in IH. cbn [app length] in IH.
      replace (Z.of_nat (length pre) + 1)%Z with (Z.of_nat (length pre + 1)) by lia. rewrite IH by lia.
      replace (length pre + 1) with (S (length pre)) by lia.
      destruct (Nat.eqb x y); cbn [negb length]; f_equal; lia.
  Qed.

  Definition lastz (d : list nat) (ex : option Z) : option Z := match d with [] => ex | _ => Some (Z.of_nat (List.last d 0)) end.
  Lemma find_gen : forall s1 r pre ex, length s1 = length r ->
    snd (fold_left (fun st kk => let '(l, ex) := st in let l' := lnext2 l in
                                (l', if neq2 (Z.of_nat kk) (pre ++ r) l' then Some (idx l') else ex)) s1
                   ((Z.of_nat (length pre) - 1)%Z, ex))
    = lastz (diffs (length pre) s1 r) ex.
  Proof.
    induction s1 as [|x s1 IH]; intros [|y r] pre ex Hl; cbn in Hl; try lia; cbn [fold_left diffs]; [reflexivity|].
    rewrite Hlnext2, Hidx. replace (Z.of_nat (length pre) - 1 + 1)%Z with (Z.of_nat (length pre)) by lia.
    rewrite Hneq2, pynth_app, neq_nat.
    specialize (IH r (pre ++ [y])). rewrite <- app_assoc, app_length in IH. cbn [app length] in IH.
    replace (Z.of_nat (length pre)) with (Z.of_nat (length pre + 1) - 1)%Z at 1 by lia. rewrite IH by lia.
    replace (length pre + 1) with (S (length pre)) by lia.
    destruct (Nat.eqb x y); cbn [negb]; [reflexivity|].
    destruct (diffs (S (length pre)) s1 r) as [|d ds]; reflexivity.
  Qed.

  Lemma exindx_skel_is_model s1 s2 : length s1 = length s2 ->
    exindx_skel (Z.of_nat (band s1)) (Z.of_nat (band s2)) s1 s2 = ozn (exindx s1 s2).
  Proof.
    intros Hl. unfold exindx_skel, exindx. rewrite Hguard, Habs1, Habs2.
    set (d := band s1 - band s2 + (band s2 - band s1)).
    assert (Hd : Z.abs (Z.of_nat (band s1) - Z.of_nat (band s2)) = Z.of_nat d) by (unfold d; lia). rewrite Hd.
    change 1%Z with (Z.of_nat 1). change 2%Z with (Z.of_nat 2). rewrite !eqb_nat.
    destruct (negb (d =? 1) && negb (d =? 2)); [reflexivity|].
    unfold count_loop, find_loop. rewrite Hl0, Hc0, Hl1.
    pose proof (count_gen s1 s2 [] 0%Z Hl) as Hc. cbn [app length] in Hc. change (Z.of_nat 0) with 0%Z in Hc. rewrite Hc.
    pose proof (find_gen s1 s2 [] None Hl) as Hf. cbn [app length] in Hf. change (Z.of_nat 0 - 1)%Z with (-1)%Z in Hf. rewrite Hf.
    cbn [snd]. rewrite Hcnt. change (Z.of_nat 1) with 1%Z. 
    destruct (diffs 0 s1 s2) as [|l [|l' ds]]; cbn [length lastz]; try reflexivity.
    replace (0 + Z.of_nat (S (S (length ds))) =? 1)%Z with false by (symmetry; apply Z.eqb_neq; lia). reflexivity.
  Qed.
End ExIdx.

(* ------------------------------------------------------------------------------------------------------------
   transition_dipole(state1, state2):
     exindx = self._get_exindx(state1, state2)
     if NEG: return ZERO
     eldip = self.get_dipole(MOL, FROM, TO); fcfac = self.fc_factor(state1, state2); return RET                 *)
Section TrDip.
  Context {R : StarRing}.
  Variables (neg : Z -> bool) (zero : R) (mol from to : Z -> Z) (ret : R -> R -> R).
  Definition trdip_skel (dipz : Z -> Z -> Z -> R) (ex : Z) (fc : R) : R :=
    if neg ex then zero else ret (dipz (mol ex) (from ex) (to ex)) fc.
  Hypothesis Hneg : forall ex, neg ex = (ex <? 0)%Z.
  Hypothesis Hzero : zero = r0 R.
  Hypothesis Hmol : forall ex, mol ex = ex.
  Hypothesis Hfrom : forall ex, from ex = 0%Z.
  Hypothesis Hto : forall ex, to ex = 1%Z.
  Hypothesis Hret : forall a b, ret a b = rmul R a b.
  Lemma trdip_skel_is_model (dip : nat -> nat -> R) (dipz : Z -> Z -> Z -> R) s1 s2 fc c :
    (forall k, dipz (Z.of_nat k) 0%Z 1%Z = dip k c) ->
    trdip_skel dipz (ozn (exindx s1 s2)) fc = trdip dip s1 s2 fc c.
  Proof.
    intros Hd. unfold trdip_skel, trdip. rewrite Hneg. destruct (exindx s1 s2) as [k|]; cbn [ozn].
    - replace (Z.of_nat k <? 0)%Z with false by (symmetry; apply Z.ltb_ge; lia). now rewrite Hret, Hmol, Hfrom, Hto, Hd.
    - exact Hzero.
  Qed.
End TrDip.

(* ------------------------------------------------------------------------------------------------------------
   AggregateBase.coupling, branch for two VibronicState arguments (the one _build takes), with full = False:
     if MULTI:
         if SAMEBAND:
             if SINGLE:
                 kk = KK1; ll = LL1
                 if VALID: coup = C1  else: coup = Z1
             else:
                 sites = [0,0]; k = K0
                 for i in range(Ns):
                     if NEQ:
                         if SLOT: sites[SIDX] = SVAL
                         k = KNEXT
                 if TWO:
                     kk = KK2; ll = LL2; sdf = numpy.sum(numpy.abs(ar1-ar2))
                     if SDF:
                         mx1 = numpy.max([M1A, M1B]); mx2 = numpy.max([M2A, M2B])
                         harm_fc = numpy.sqrt(numpy.real(mx1)); harm_fc = harm_fc*numpy.sqrt(numpy.real(mx2))
                         fc = fc*harm_fc; coup = C2
                     else: coup = Z2
                 else: coup = Z3
         elif (...) and full: ...            (not taken)
         else: coup = Z4
     else: coup = Z5                                                                                            *)
Definition setpair (p : Z * Z) (i v : Z) : Z * Z :=
  if ((i =? 0) || (i =? -2))%Z then (v, snd p) else if ((i =? 1) || (i =? -1))%Z then (fst p, v) else p.

Section Coupling.
  Context {R : StarRing}.
  Variable N : nat.
  Variable J : nat -> nat -> R.
  Variable sqrtf : nat -> R.
  Variables (multi : Z -> bool) (sameband single : Z -> Z -> bool) (kk1 ll1 : Z -> Z -> Z) (valid : Z -> Z -> bool).
  Variables (c1 c2 : (Z -> Z -> R) -> Z -> Z -> R -> R) (z1 z2 z3 z4 z5 : R).
  Variables (k0 : Z) (neq : sig -> sig -> Z -> bool) (slot : Z -> bool) (sidx sval : Z -> Z -> Z) (knext : Z -> Z).
  Variables (two : Z -> bool) (kk2 ll2 : Z -> Z -> Z) (sdfc : Z -> bool) (m1a m1b m2a m2b : sig -> sig -> Z -> Z -> Z).
  Definition Jz (kk ll : Z) : R := J (Z.to_nat kk) (Z.to_nat ll).
  Definition sites_step (s1 s2 : sig) (st : Z * (Z * Z)) (i : Z) : Z * (Z * Z) :=
    if neq s1 s2 i then (knext (fst st), if slot (fst st) then setpair (snd st) (sidx (fst st) i) (sval (fst st) i) else snd st) else st.
  Definition sites_loop (s1 s2 : sig) : Z * (Z * Z) :=
    fold_left (sites_step s1 s2) (zrange 0 (Z.of_nat (length s1))) (k0, (0, 0)%Z).
  Definition coupling_skel (s1 : sig) (i1 : Z) (s2 : sig) (i2 : Z) (fc : R) : R :=
    let b1 := Z.of_nat (band s1) in let b2 := Z.of_nat (band s2) in
    if multi (Z.of_nat N) then
      if sameband b1 b2 then
        if single b1 b2 then
          let kk := kk1 i1 i2 in let ll := ll1 i1 i2 in if valid kk ll then c1 Jz kk ll fc else z1
        else
          let st := sites_loop s1 s2 in
          if two (fst st) then
            let kk := kk2 (fst (snd st)) (snd (snd st)) in let ll := ll2 (fst (snd st)) (snd (snd st)) in
            if sdfc (Z.of_nat (absdiff s1 s2)) then
              let mx1 := Z.max (m1a s1 s2 kk ll) (m1b s1 s2 kk ll) in
              let mx2 := Z.max (m2a s1 s2 kk ll) (m2b s1 s2 kk ll) in
              c2 Jz kk ll (rmul R fc (rmul R (sqrtf (Z.to_nat mx1)) (sqrtf (Z.to_nat mx2))))
            else z2
          else z3
      else z4
    else z5.

  Hypothesis Hmulti : forall n, multi n = (n >? 1)%Z.
  Hypothesis Hsameband : forall b1 b2, sameband b1 b2 = (b1 =? b2)%Z.
  Hypothesis Hsingle : forall b1 b2, single b1 b2 = (b1 =? 1)%Z.
  Hypothesis Hkk1 : forall i1 i2, kk1 i1 i2 = (i1 - 1)%Z.
  Hypothesis Hll1 : forall i1 i2, ll1 i1 i2 = (i2 - 1)%Z.
  Hypothesis Hvalid : forall kk ll, valid kk ll = ((kk >=? 0) && (ll >=? 0))%Z.
  Hypothesis Hc1 : forall Jf kk ll fc, c1 Jf kk ll fc = rmul R (Jf kk ll) fc.
  Hypothesis Hc2 : forall Jf kk ll fc, c2 Jf kk ll fc = rmul R (Jf kk ll) fc.
  Hypothesis Hz1 : z1 = r0 R.
  Hypothesis Hz2 : z2 = r0 R.
  Hypothesis Hz3 : z3 = r0 R.
  Hypothesis Hz4 : z4 = r0 R.
  Hypothesis Hz5 : z5 = r0 R.
  Hypothesis Hk0 : k0 = 0%Z.
  Hypothesis Hneq : forall s1 s2 i, neq s1 s2 i = negb (pynth s1 i =? pynth s2 i)%Z.
  Hypothesis Hslot : forall k, slot k = ((k =? 0) || (k =? 1))%Z.
  Hypothesis Hsidx : forall k i, sidx k i = k.
  Hypothesis Hsval : forall k i, sval k i = i.
  Hypothesis Hknext : forall k, knext k = (k + 1)%Z.
  Hypothesis Htwo : forall k, two k = (k =? 2)%Z.
  Hypothesis Hkk2 : forall a b, kk2 a b = a.
  Hypothesis Hll2 : forall a b, ll2 a b = b.
  Hypothesis Hsdfc : forall x, sdfc x = (x =? 2)%Z.
  Hypothesis Hm1a : forall s1 s2 kk ll, m1a s1 s2 kk ll = pynth s1 kk.
  Hypothesis Hm1b : forall s1 s2 kk ll, m1b s1 s2 kk ll = pynth s2 kk.
  Hypothesis Hm2a : forall s1 s2 kk ll, m2a s1 s2 kk ll = pynth s1 ll.
  Hypothesis Hm2b : forall s1 s2 kk ll, m2b s1 s2 kk ll = pynth s2 ll.

  Lemma sites_tail : forall (D : list nat) k p, (2 <= k)%Z ->
    fold_left (fun st i => (knext (fst st), if slot (fst st) then setpair (snd st) (sidx (fst st) (Z.of_nat i)) (sval (fst st) (Z.of_nat i)) else snd st)) D (k, p)
    = ((k + Z.of_nat (length D))%Z, p).
  Proof.
    induction D as [|d D IH]; intros k p Hk; cbn [fold_left length fst snd]; [f_equal; lia|].
    rewrite Hknext, Hslot. replace ((k =? 0) || (k =? 1))%Z with false by (symmetry; apply orb_false_iff; split; apply Z.eqb_neq; lia).
    rewrite IH by lia. f_equal. lia.
  Qed.

  Lemma sites_loop_spec s1 s2 : length s1 = length s2 ->
    let D := diffs 0 s1 s2 in
    sites_loop s1 s2 = (Z.of_nat (length D), (Z.of_nat (nth 0 D 0), Z.of_nat (nth 1 D 0))).
  Proof.
    intros Hl D. unfold sites_loop. change 0%Z with (Z.of_nat 0) at 1. rewrite zrange_nat, Nat.sub_0_r, fold_left_map, Hk0.
    assert (E : forall st i, sites_step s1 s2 st (Z.of_nat i) =
              if dneq s1 s2 i then (knext (fst st), if slot (fst st) then setpair (snd st) (sidx (fst st) (Z.of_nat i)) (sval (fst st) (Z.of_nat i)) else snd st) else st).
    { intros st i. unfold sites_step. now rewrite Hneq, !pynth_nat, neq_nat. }
    rewrite (fold_left_ext' _ _ _ E).
    rewrite (fold_filter (fun st i => (knext (fst st), if slot (fst st) then setpair (snd st) (sidx (fst st) (Z.of_nat i)) (sval (fst st) (Z.of_nat i)) else snd st))).
    rewrite <- diffs0_filter by exact Hl. fold D.
    destruct D as [|a [|b D']]; cbn [fold_left length nth fst snd]; [reflexivity| |].
    - rewrite Hknext, Hslot, Hsidx, Hsval. reflexivity.
    - rewrite !Hknext, !Hslot, !Hsidx, !Hsval. cbn [Z.eqb orb Z.add setpair fst snd]. unfold setpair. cbn [Z.eqb orb fst snd].
      rewrite sites_tail by lia. f_equal. lia.
  Qed.

  Lemma coupling_skel_is_model s1 i1 s2 i2 fc : length s1 = length s2 ->
    coupling_skel s1 (Z.of_nat i1) s2 (Z.of_nat i2) fc = coupling N J sqrtf s1 i1 s2 i2 fc.
  Proof.
    intros Hl. unfold coupling_skel, coupling. cbv zeta.
    rewrite Hmulti, Hsameband, Hsingle, Hkk1, Hll1, Hvalid, Hc1, Hz1, Hz2, Hz3, Hz4, Hz5, Htwo, Hsdfc.
    rewrite Z.gtb_ltb. change 1%Z with (Z.of_nat 1). rewrite ltb_nat, !eqb_nat.
    destruct (1 <? N); [|reflexivity]. destruct (band s1 =? band s2); [|reflexivity].
    destruct (band s1 =? 1).
    - rewrite !Z.geb_leb. destruct i1 as [|k]; [reflexivity|]. destruct i2 as [|l].
      + replace (0 <=? Z.of_nat 0 - Z.of_nat 1)%Z with false by reflexivity. now rewrite andb_false_r.
      + replace (0 <=? Z.of_nat (S k) - Z.of_nat 1)%Z with true by (symmetry; apply Z.leb_le; lia).
        replace (0 <=? Z.of_nat (S l) - Z.of_nat 1)%Z with true by (symmetry; apply Z.leb_le; lia). cbn [andb]. unfold Jz.
        replace (Z.to_nat (Z.of_nat (S k) - Z.of_nat 1)) with k by lia. replace (Z.to_nat (Z.of_nat (S l) - Z.of_nat 1)) with l by lia. reflexivity.
    - rewrite (sites_loop_spec s1 s2 Hl). cbn [fst snd]. change 2%Z with (Z.of_nat 2). rewrite !eqb_nat.
      rewrite Hkk2, Hll2, Hc2, Hm1a, Hm1b, Hm2a, Hm2b, !pynth_nat.
      destruct (diffs 0 s1 s2) as [|a [|b [|c D]]]; cbn [length Nat.eqb nth]; try reflexivity.
      destruct (absdiff s1 s2 =? 2); [|reflexivity]. unfold Jz. rewrite !Nat2Z.id, <- !Nat2Z.inj_max, !Nat2Z.id. reflexivity.
  Qed.
End Coupling.

(* ------------------------------------------------------------------------------------------------------------
   ElectronicState.energy(vsig):
     en = EN0
     if vsig is not None:
         k = VK0
         for nn in self.vibmodes: en = VNEXT; k = VKNEXT
     k = K0
     for nn in self.elsignature: en = ENEXT; k = KNEXT
     return en
   (build runs inside energy_units("int"), where convert_energy_2_current_u is the identity: C05)               *)
Section Energy.
  Context {R : StarRing}.
  Add Ring Rr : (rth R).
  Variables (en0 : R) (vk0 k0 : Z) (vknext knext : Z -> Z).
  Variable vnext : R -> (Z -> R) -> R -> Z -> R.            (* en, vsig[.] as scalars, nn.omega, k *)
  Variable enext : R -> (Z -> Z -> R) -> Z -> Z -> R.       (* en, elenergies of monomer . in level ., k, nn *)
  Definition zinj (z : Z) : R := Nat.iter (Z.to_nat z) (fun x => radd R x (r1 R)) (r0 R).
  Definition vib_part (v : list nat) (omegas : list R) (en : R) : R :=
    snd (fold_left (fun st om => (vknext (fst st), vnext (snd st) (fun i => zinj (pynth v i)) om (fst st))) omegas (vk0, en)).
  Definition el_part (Ez : Z -> Z -> R) (s : sig) (en : R) : R :=
    snd (fold_left (fun st nn => (knext (fst st), enext (snd st) Ez (fst st) (Z.of_nat nn))) s (k0, en)).
  Definition energy_skel (vsig : option (list nat)) (omegas : list R) (Ez : Z -> Z -> R) (s : sig) : R :=
    el_part Ez s (match vsig with Some v => vib_part v omegas en0 | None => en0 end).

  Hypothesis Hk0 : k0 = 0%Z.
  Hypothesis Hknext : forall k, knext k = (k + 1)%Z.
  Hypothesis Henext : forall en Ez k nn, enext en Ez k nn = radd R en (Ez k nn).

  Lemma el_part_spec (E : nat -> nat -> R) Ez s en : (forall k n, Ez (Z.of_nat k) (Z.of_nat n) = E k n) ->
    el_part Ez s en = radd R en (sum (length s) (fun k => E k (nth k s 0))).
  Proof.
    intros HE. unfold el_part. rewrite Hk0.
    assert (G : fold_left (fun st nn => (knext (fst st), enext (snd st) Ez (fst st) (Z.of_nat nn))) s (0%Z, en)
                = (Z.of_nat (length s), radd R en (sum (length s) (fun k => E k (nth k s 0))))).
    { induction s as [|x s' IH] using rev_ind; cbn [fold_left length sum]; [f_equal; ring|].
      rewrite fold_left_app, IH. cbn [fold_left fst snd]. rewrite Hknext, Henext, HE, app_length. cbn [length].
      replace (length s' + 1) with (S (length s')) by lia. cbn [sum]. f_equal; [lia|].
      rewrite app_nth2, Nat.sub_diag by lia. cbn [nth].
      rewrite (sum_ext (length s') (fun k => E k (nth k (s' ++ [x]) 0)) (fun k => E k (nth k s' 0))) by (intros i Hi; now rewrite app_nth1 by lia).
      ring. }
    now rewrite G.
  Qed.

  Hypothesis Hen0 : en0 = r0 R.
  Lemma vib_part_nil v en : vib_part v [] en = en.
  Proof. reflexivity. Qed.
  (* molecules without vibrational modes: vsig is None or the empty tuple *)
  Lemma energy_skel_is_model N (E : nat -> nat -> R) Ez vsig s : (forall k n, Ez (Z.of_nat k) (Z.of_nat n) = E k n) -> length s = N ->
    energy_skel vsig [] Ez s = energy N E s.
  Proof.
    intros HE Hl. unfold energy_skel, energy. rewrite (el_part_spec E) by exact HE. rewrite Hl.
    destruct vsig; rewrite ?vib_part_nil, Hen0; ring.
  Qed.
End Energy.

(* ------------------------------------------------------------------------------------------------------------
   allstates(mult, mode, ...):
     ast = A0; ist = I0
     for ess1 in self.elsignatures(mult=mult, mode=mode):
         es1 = self.get_ElectronicState(ess1, IDX)
         for vsig1 in es1.vsignatures(...):
             s1 = VibronicState(es1, vsig1); [tables]; yield YA, s1; ast = ANEXT
         [tables]; ist = INEXT
   a state is (ElectronicState.index, elsignature, vsig)                                                         *)
Definition vst := (Z * sig * list nat)%type.
Definition nst := (nat * sig * list nat)%type.
Definition zst (p : nat * nst) : Z * vst := let '(a, (i, s, v)) := p in (Z.of_nat a, (Z.of_nat i, s, v)).
Definition gstates_from (vs : sig -> list (list nat)) (I : nat) (sigs : list sig) : list nst :=
  flat_map (fun p => map (fun v => (fst p, snd p, v)) (vs (snd p))) (combine (seq I (length sigs)) sigs).

Section AllStates.
  Variable vs : sig -> list (list nat).
  Variables (a0 i0 : Z) (idx : Z -> Z) (ya : Z -> Z -> Z) (anext inext : Z -> Z).
  Fixpoint inner_states (s : sig) (e : Z) (vl : list (list nat)) (ast ist : Z) : list (Z * vst) * Z :=
    match vl with
    | [] => ([], ast)
    | v :: r => let '(l, a') := inner_states s e r (anext ast) ist in ((ya ast ist, (e, s, v)) :: l, a')
    end.
  Fixpoint states_go (sigs : list sig) (ast ist : Z) : list (Z * vst) :=
    match sigs with
    | [] => []
    | s :: r => let '(l, a') := inner_states s (idx ist) (vs s) ast ist in l ++ states_go r a' (inext ist)
    end.
  Definition allstates_skel (sigs : list sig) : list (Z * vst) := states_go sigs a0 i0.

  Hypothesis Ha0 : a0 = 0%Z.
  Hypothesis Hi0 : i0 = 0%Z.
  Hypothesis Hidx : forall ist, idx ist = ist.
  Hypothesis Hya : forall ast ist, ya ast ist = ast.
  Hypothesis Hanext : forall ast, anext ast = (ast + 1)%Z.
  Hypothesis Hinext : forall ist, inext ist = (ist + 1)%Z.

  Lemma inner_states_spec s I : forall vl A,
    inner_states s (Z.of_nat I) vl (Z.of_nat A) (Z.of_nat I)
    = (map zst (combine (seq A (length vl)) (map (fun v => (I, s, v)) vl)), Z.of_nat (A + length vl)).
  Proof.
    induction vl as [|v vl IH]; intros A; cbn [inner_states length seq map combine]; [now rewrite Nat.add_0_r|].
    rewrite Hanext. replace (Z.of_nat A + 1)%Z with (Z.of_nat (S A)) by lia. rewrite IH, Hya. cbn [zst]. f_equal. f_equal. lia.
  Qed.

  Lemma combine_seq_app {A} (l1 l2 : list A) a : combine (seq a (length (l1 ++ l2))) (l1 ++ l2)
    = combine (seq a (length l1)) l1 ++ combine (seq (a + length l1) (length l2)) l2.
  Proof.
    revert a; induction l1 as [|x l1 IH]; intros a; cbn [app length seq combine]; [now rewrite Nat.add_0_r|].
    f_equal. rewrite IH. now replace (a + S (length l1)) with (S a + length l1) by lia.
  Qed.

  Lemma states_go_spec : forall sigs A I,
    states_go sigs (Z.of_nat A) (Z.of_nat I) = map zst (combine (seq A (length (gstates_from vs I sigs))) (gstates_from vs I sigs)).
  Proof.
    induction sigs as [|s sigs IH]; intros A I; [reflexivity|].
    cbn [states_go]. rewrite Hidx, inner_states_spec, Hinext. replace (Z.of_nat I + 1)%Z with (Z.of_nat (S I)) by lia. rewrite IH.
    unfold gstates_from at 3 4. cbn [length seq combine flat_map fst snd]. fold (gstates_from vs (S I) sigs).
    rewrite combine_seq_app, map_app, !map_length. reflexivity.
  Qed.

  Lemma allstates_skel_is_model sigs :
    allstates_skel sigs = map zst (combine (seq 0 (length (gstates_from vs 0 sigs))) (gstates_from vs 0 sigs)).
  Proof. unfold allstates_skel. rewrite Ha0, Hi0. exact (states_go_spec sigs 0 0). Qed.
End AllStates.

(* molecules without vibrational modes: one vibrational signature, the empty tuple, per electronic state *)
Lemma gstates_novib : forall sigs I, gstates_from (fun _ => [[]]) I sigs = map (fun p => (fst p, snd p, [])) (combine (seq I (length sigs)) sigs).
Proof. intros. unfold gstates_from. apply flat_map_single. intros x _. reflexivity. Qed.

(* ------------------------------------------------------------------------------------------------------------
   the statements of _build that touch HH and DD:
     HH = zeros; DD = zeros
     for a, s1 in self.all_states:
         HH[D1, D2] = s1.energy()
         for b, s2 in self.all_states:
             DD[RD, CD, :] = numpy.real(self.transition_dipole(T1, T2))
             if OFF: HH[R2, C2] = numpy.real(self.coupling(C1, C2, full=fem_full))
   arrays are functions updated at integer positions; the last write wins                                        *)
Lemma combine_seq_nth {A} (l : list A) d : forall s, combine (seq s (length l)) l = map (fun a => (a, nth (a - s) l d)) (seq s (length l)).
Proof.
  induction l as [|x l IH]; intros s; cbn [length seq combine map]; [reflexivity|].
  rewrite Nat.sub_diag. cbn [nth]. f_equal. rewrite IH. apply map_ext_in. intros a Ha. apply in_seq in Ha.
  replace (a - s) with (S (a - S s)) by lia. reflexivity.
Qed.

Section Fill.
  Context {R : StarRing}.
  Variable St : Type.
  Variables (en : St -> R) (coup trd : St -> St -> R).
  Variables (d1 d2 : Z -> Z) (off : Z -> Z -> bool) (r2 c2 rD cD : Z -> Z -> Z).
  Variables (sc1 sc2 st1 st2 : St -> St -> St).              (* which of (s1, s2) is handed over *)
  Definition updm (A : @mat R) (i j : Z) (v : R) : @mat R :=
    fun x y => if ((Z.of_nat x =? i) && (Z.of_nat y =? j))%Z then v else A x y.
  Definition fill_H (states : list (Z * St)) : @mat R :=
    fold_left (fun A p =>
      fold_left (fun A q => if off (fst p) (fst q) then updm A (r2 (fst p) (fst q)) (c2 (fst p) (fst q)) (coup (sc1 (snd p) (snd q)) (sc2 (snd p) (snd q))) else A)
                states (updm A (d1 (fst p)) (d2 (fst p)) (en (snd p)))) states (fun _ _ => r0 R).
  Definition fill_D (states : list (Z * St)) : @mat R :=
    fold_left (fun A p =>
      fold_left (fun A q => updm A (rD (fst p) (fst q)) (cD (fst p) (fst q)) (trd (st1 (snd p) (snd q)) (st2 (snd p) (snd q)))) states A)
              states (fun _ _ => r0 R).

  Hypothesis Hd1 : forall a, d1 a = a.
  Hypothesis Hd2 : forall a, d2 a = a.
  Hypothesis Hoff : forall a b, off a b = negb (a =? b)%Z.
  Hypothesis Hr2 : forall a b, r2 a b = a.
  Hypothesis Hc2 : forall a b, c2 a b = b.
  Hypothesis HrD : forall a b, rD a b = a.
  Hypothesis HcD : forall a b, cD a b = b.
  Hypothesis Hsc1 : forall s1 s2, sc1 s1 s2 = s1.
  Hypothesis Hsc2 : forall s1 s2, sc2 s1 s2 = s2.
  Hypothesis Hst1 : forall s1 s2, st1 s1 s2 = s1.
  Hypothesis Hst2 : forall s1 s2, st2 s1 s2 = s2.

  Variable d : St.
  Variable sts : list St.
  Let n := length sts.
  Let st (a : nat) : St := nth a sts d.
  Definition nstates : list (Z * St) := map (fun a => (Z.of_nat a, st a)) (seq 0 n).

  Lemma updm_nat A a b v x y : updm A (Z.of_nat a) (Z.of_nat b) v x y = if (x =? a) && (y =? b) then v else A x y.
  Proof. unfold updm. now rewrite !eqb_nat. Qed.

  Lemma innerH_spec a A0 x y : forall m,
    fold_left (fun A q => if off (Z.of_nat a) (fst q) then updm A (r2 (Z.of_nat a) (fst q)) (c2 (Z.of_nat a) (fst q)) (coup (sc1 (st a) (snd q)) (sc2 (st a) (snd q))) else A)
              (map (fun b => (Z.of_nat b, st b)) (seq 0 m)) A0 x y
    = if (x =? a) && (y <? m) && negb (y =? a) then coup (st a) (st y) else A0 x y.
  Proof.
    induction m as [|m IH]; [cbn [seq map fold_left]; replace (y <? 0) with false by (symmetry; apply Nat.ltb_ge; lia); now rewrite andb_false_r|].
    rewrite seq_S, map_app, fold_left_app. cbn [map fold_left fst snd Nat.add].
    rewrite Hoff, Hr2, Hc2, Hsc1, Hsc2, eqb_nat.
    destruct (Nat.eqb_spec a m) as [->|Hne]; cbn [negb].
    - rewrite IH. destruct (Nat.eqb_spec x m); cbn [andb]; [|reflexivity].
      destruct (Nat.eqb_spec y m) as [->|Hy]; cbn [negb]; [now rewrite !andb_false_r|]. rewrite !andb_true_r.
      destruct (Nat.ltb_spec y m), (Nat.ltb_spec y (S m)); try reflexivity; lia.
    - rewrite updm_nat, IH. destruct (Nat.eqb_spec x a) as [->|Hx]; cbn [andb]; [|reflexivity].
      destruct (Nat.eqb_spec y m) as [->|Hy].
      + replace (m <? S m) with true by (symmetry; apply Nat.ltb_lt; lia).
        replace (m =? a) with false by (symmetry; apply Nat.eqb_neq; lia). reflexivity.
      + destruct (Nat.ltb_spec y m), (Nat.ltb_spec y (S m)); try reflexivity; lia.
  Qed.

  Lemma fill_H_spec x y : x < n -> y < n ->
    fill_H nstates x y = if x =? y then en (st x) else coup (st x) (st y).
  Proof.
    intros Hx Hy. unfold fill_H, nstates.
    assert (G : forall m, m <= n ->
      fold_left (fun A p =>
        fold_left (fun A q => if off (fst p) (fst q) then updm A (r2 (fst p) (fst q)) (c2 (fst p) (fst q)) (coup (sc1 (snd p) (snd q)) (sc2 (snd p) (snd q))) else A)
                  (map (fun a => (Z.of_nat a, st a)) (seq 0 n)) (updm A (d1 (fst p)) (d2 (fst p)) (en (snd p))))
        (map (fun a => (Z.of_nat a, st a)) (seq 0 m)) (fun _ _ => r0 R) x y
      = if x <? m then (if x =? y then en (st x) else coup (st x) (st y)) else r0 R).
    { induction m as [|m IH]; intros Hm; [reflexivity|].
      rewrite seq_S, map_app, fold_left_app. cbn [map fold_left fst snd Nat.add].
      rewrite innerH_spec, Hd1, Hd2, updm_nat, IH by lia.
      destruct (Nat.eqb_spec x m) as [->|Hxm]; cbn [andb].
      - replace (m <? S m) with true by (symmetry; apply Nat.ltb_lt; lia). replace (y <? n) with true by (symmetry; apply Nat.ltb_lt; lia).
        rewrite Nat.ltb_irrefl, (Nat.eqb_sym y m). destruct (m =? y); reflexivity.
      - destruct (Nat.ltb_spec x m), (Nat.ltb_spec x (S m)); try reflexivity; lia. }
    rewrite (G n) by lia. now replace (x <? n) with true by (symmetry; apply Nat.ltb_lt; lia).
  Qed.

  Lemma innerD_spec a A0 x y : forall m,
    fold_left (fun A q => updm A (rD (Z.of_nat a) (fst q)) (cD (Z.of_nat a) (fst q)) (trd (st1 (st a) (snd q)) (st2 (st a) (snd q))))
              (map (fun b => (Z.of_nat b, st b)) (seq 0 m)) A0 x y
    = if (x =? a) && (y <? m) then trd (st a) (st y) else A0 x y.
  Proof.
    induction m as [|m IH]; [cbn [seq map fold_left]; replace (y <? 0) with false by (symmetry; apply Nat.ltb_ge; lia); now rewrite andb_false_r|].
    rewrite seq_S, map_app, fold_left_app. cbn [map fold_left fst snd Nat.add].
    rewrite HrD, HcD, Hst1, Hst2, updm_nat, IH. destruct (Nat.eqb_spec x a) as [->|Hx]; cbn [andb]; [|reflexivity].
    destruct (Nat.eqb_spec y m) as [->|Hy]; [now replace (m <? S m) with true by (symmetry; apply Nat.ltb_lt; lia)|].
    destruct (Nat.ltb_spec y m), (Nat.ltb_spec y (S m)); try reflexivity; lia.
  Qed.

  Lemma fill_D_spec x y : x < n -> y < n -> fill_D nstates x y = trd (st x) (st y).
  Proof.
    intros Hx Hy. unfold fill_D, nstates.
    assert (G : forall m, m <= n ->
      fold_left (fun A p =>
        fold_left (fun A q => updm A (rD (fst p) (fst q)) (cD (fst p) (fst q)) (trd (st1 (snd p) (snd q)) (st2 (snd p) (snd q))))
                  (map (fun a => (Z.of_nat a, st a)) (seq 0 n)) A)
        (map (fun a => (Z.of_nat a, st a)) (seq 0 m)) (fun _ _ => r0 R) x y
      = if x <? m then trd (st x) (st y) else r0 R).
    { induction m as [|m IH]; intros Hm; [reflexivity|].
      rewrite seq_S, map_app, fold_left_app. cbn [map fold_left fst snd Nat.add].
      rewrite innerD_spec, IH by lia. replace (y <? n) with true by (symmetry; apply Nat.ltb_lt; lia). rewrite andb_true_r.
      destruct (Nat.eqb_spec x m) as [->|Hxm]; [now replace (m <? S m) with true by (symmetry; apply Nat.ltb_lt; lia)|].
      destruct (Nat.ltb_spec x m), (Nat.ltb_spec x (S m)); try reflexivity; lia. }
    rewrite (G n) by lia. now replace (x <? n) with true by (symmetry; apply Nat.ltb_lt; lia).
  Qed.
End Fill.

(* ------------------------------------------------------------------------------------------------------------
   assembly: the generated pieces put together are build_H / build_D of Model/C03.v                              *)
Definition zs (x : nst) : vst := let '(i, s, v) := x in (Z.of_nat i, s, v).
Lemma states_as_nstates (G : list nst) (d : nst) :
  map zst (combine (seq 0 (length G)) G) = nstates vst (zs d) (map zs G).
Proof.
  unfold nstates. rewrite (combine_seq_nth G d 0), map_map, map_length. apply map_ext. intros a. rewrite Nat.sub_0_r.
  rewrite (map_nth zs G d a). cbn [zst]. destruct (nth a G d) as [[i s] v]. reflexivity.
Qed.

Section Assembly.
  Context {R : StarRing}.
  Variable N : nat.
  Variables (E J dip : nat -> nat -> R) (sqrtf : nat -> R).
  Variable sigs : list sig.
  Hypothesis Hlen : forall a, a < length sigs -> length (nth a sigs []) = N.
  Let G := gstates_from (fun _ => [[]]) 0 sigs.
  Let d0 : nst := (0, [], []).

  Lemma G_length : length G = length sigs.
  Proof. unfold G. rewrite gstates_novib, map_length, combine_length, seq_length. lia. Qed.
  Lemma G_nth a : a < length sigs -> nth a G d0 = (a, nth a sigs [], []).
  Proof.
    intros Ha. unfold G. rewrite gstates_novib, (combine_seq_nth sigs [] 0).
    rewrite map_map. cbn [fst snd].
    rewrite (nth_indep _ d0 ((fun x => (x, nth (x - 0) sigs [], @nil nat)) 0)) by (rewrite map_length, seq_length; lia).
    rewrite (map_nth (fun x => (x, nth (x - 0) sigs [], @nil nat))), seq_nth by lia. cbn [Nat.add]. now rewrite Nat.sub_0_r.
  Qed.

  Variables (enf : vst -> R) (coupf trdf : vst -> vst -> R).
  Variables (d1 d2 : Z -> Z) (off : Z -> Z -> bool) (r2 c2 rD cD : Z -> Z -> Z) (sc1 sc2 st1 st2 : vst -> vst -> vst).
  Hypothesis Hd1 : forall a, d1 a = a.
  Hypothesis Hd2 : forall a, d2 a = a.
  Hypothesis Hoff : forall a b, off a b = negb (a =? b)%Z.
  Hypothesis Hr2 : forall a b, r2 a b = a.
  Hypothesis Hc2 : forall a b, c2 a b = b.
  Hypothesis HrD : forall a b, rD a b = a.
  Hypothesis HcD : forall a b, cD a b = b.
  Hypothesis Hsc1 : forall s1 s2, sc1 s1 s2 = s1.
  Hypothesis Hsc2 : forall s1 s2, sc2 s1 s2 = s2.
  Hypothesis Hst1 : forall s1 s2, st1 s1 s2 = s1.
  Hypothesis Hst2 : forall s1 s2, st2 s1 s2 = s2.
  Variable states : list (Z * vst).
  Hypothesis Hstates : states = map zst (combine (seq 0 (length G)) G).
  Hypothesis Hen : forall i s v, length s = N -> enf (i, s, v) = energy N E s.
  Hypothesis Hcoup : forall i1 s1 v1 i2 s2 v2, length s1 = length s2 ->
    coupf (Z.of_nat i1, s1, v1) (Z.of_nat i2, s2, v2) = coupling N J sqrtf s1 i1 s2 i2 (r1 R).

  Lemma build_H_assembly a b : a < length sigs -> b < length sigs ->
    fill_H vst enf coupf d1 d2 off r2 c2 sc1 sc2 states a b = build_H N E J sqrtf sigs a b.
  Proof.
    intros Ha Hb. rewrite Hstates, (states_as_nstates G d0).
    rewrite (fill_H_spec vst enf coupf d1 d2 off r2 c2 sc1 sc2 Hd1 Hd2 Hoff Hr2 Hc2 Hsc1 Hsc2 (zs d0) (map zs G)) by (rewrite map_length, G_length; assumption).
    rewrite !(map_nth zs G d0), !G_nth by assumption. unfold build_H. cbn [zs].
    destruct (a =? b); [apply Hen; now apply Hlen|]. apply Hcoup. now rewrite !Hlen.
  Qed.

  Variable c : nat.
  Hypothesis Htrd : forall i1 s1 v1 i2 s2 v2, length s1 = length s2 ->
    trdf (i1, s1, v1) (i2, s2, v2) = trdip dip s1 s2 (r1 R) c.
  Lemma build_D_assembly a b : a < length sigs -> b < length sigs ->
    fill_D vst trdf rD cD st1 st2 states a b = build_D dip sigs c a b.
  Proof.
    intros Ha Hb. rewrite Hstates, (states_as_nstates G d0).
    rewrite (fill_D_spec vst trdf rD cD st1 st2 HrD HcD Hst1 Hst2 (zs d0) (map zs G)) by (rewrite map_length, G_length; assumption).
    rewrite !(map_nth zs G d0), !G_nth by assumption. unfold build_D. cbn [zs]. apply Htrd. now rewrite !Hlen.
  Qed.
End Assembly.

(* ------------------------------------------------------------------------------------------------------------
   set_coupling_by_dipole_dipole(epsr, delta):
     for kk in range(self.nmono):
         for ll in range(LO, self.nmono):
             try: cc = self.dipole_dipole_coupling(A1, A2, epsr=EPS, delta=DEL)   except: cc = 0.0
             c1 = self.convert_energy_2_internal_u(cc)
             self.resonance_coupling[R1, C1] = c1; self.resonance_coupling[R2, C2] = c1
   (dipole_dipole_coupling returns convert_energy_2_current_u(val); the two conversions are inverse: C05)         *)
Section SetDD.
  Variable F : Type.
  Variable v : Z -> Z -> F.                                   (* the value stored for the call arguments *)
  Variables (lo : Z -> Z) (a1 a2 r1 c1 r2 c2 : Z -> Z -> Z).
  Definition updf (A : nat -> nat -> F) (i j : Z) (x : F) : nat -> nat -> F :=
    fun a b => if ((Z.of_nat a =? i) && (Z.of_nat b =? j))%Z then x else A a b.
  Definition setdd_skel (n : nat) (J0 : nat -> nat -> F) : nat -> nat -> F :=
    fold_left (fun A kk =>
      fold_left (fun A ll => updf (updf A (r1 kk ll) (c1 kk ll) (v (a1 kk ll) (a2 kk ll))) (r2 kk ll) (c2 kk ll) (v (a1 kk ll) (a2 kk ll)))
                (zrange (lo kk) (Z.of_nat n)) A) (zrange 0 (Z.of_nat n)) J0.

  Hypothesis Hlo : forall kk, lo kk = (kk + 1)%Z.
  Hypothesis Ha1 : forall kk ll, a1 kk ll = kk.
  Hypothesis Ha2 : forall kk ll, a2 kk ll = ll.
  Hypothesis Hr1 : forall kk ll, r1 kk ll = kk.
  Hypothesis Hc1 : forall kk ll, c1 kk ll = ll.
  Hypothesis Hr2 : forall kk ll, r2 kk ll = ll.
  Hypothesis Hc2 : forall kk ll, c2 kk ll = kk.

  Lemma updf_nat A a b x p q : updf A (Z.of_nat a) (Z.of_nat b) x p q = if (p =? a) && (q =? b) then x else A p q.
  Proof. unfold updf. now rewrite !eqb_nat. Qed.

  Let vn (a b : nat) : F := v (Z.of_nat a) (Z.of_nat b).

  Lemma setdd_inner kk A0 p q : forall m,
    fold_left (fun A ll => updf (updf A (r1 (Z.of_nat kk) ll) (c1 (Z.of_nat kk) ll) (v (a1 (Z.of_nat kk) ll) (a2 (Z.of_nat kk) ll)))
                                (r2 (Z.of_nat kk) ll) (c2 (Z.of_nat kk) ll) (v (a1 (Z.of_nat kk) ll) (a2 (Z.of_nat kk) ll)))
              (map Z.of_nat (seq (S kk) m)) A0 p q
    = if (p =? kk) && (S kk <=? q) && (q <? S kk + m) then vn kk q
      else if (q =? kk) && (S kk <=? p) && (p <? S kk + m) then vn kk p else A0 p q.
  Proof.
    induction m as [|m IH].
    - cbn [seq map fold_left]. rewrite Nat.add_0_r.
      repeat match goal with
             | |- context [Nat.leb ?a ?b] => destruct (Nat.leb_spec a b)
             | |- context [Nat.ltb ?a ?b] => destruct (Nat.ltb_spec a b)
             end; rewrite ?andb_false_r, ?andb_true_r; cbn [andb]; try reflexivity; lia.
    - rewrite seq_S, map_app, fold_left_app. cbn [map fold_left].
      rewrite Ha1, Ha2, Hr1, Hc1, Hr2, Hc2, !updf_nat, IH. fold (vn kk (S kk + m)).
      repeat (match goal with
              | |- context [Nat.eqb ?a ?b] => destruct (Nat.eqb_spec a b)
              | |- context [Nat.leb ?a ?b] => destruct (Nat.leb_spec a b)
              | |- context [Nat.ltb ?a ?b] => destruct (Nat.ltb_spec a b)
              end; try (exfalso; lia); cbn [andb]); try reflexivity; subst; try reflexivity; lia.
  Qed.

  Lemma setdd_skel_spec n J0 p q : p < n -> q < n ->
    setdd_skel n J0 p q = if p <? q then vn p q else if q <? p then vn q p else J0 p q.
  Proof.
    intros Hp Hq. unfold setdd_skel. change 0%Z with (Z.of_nat 0). rewrite zrange_nat, Nat.sub_0_r.
    assert (G : forall m, m <= n ->
      fold_left (fun A kk =>
        fold_left (fun A ll => updf (updf A (r1 kk ll) (c1 kk ll) (v (a1 kk ll) (a2 kk ll))) (r2 kk ll) (c2 kk ll) (v (a1 kk ll) (a2 kk ll)))
                  (zrange (lo kk) (Z.of_nat n)) A) (map Z.of_nat (seq 0 m)) J0 p q
      = if (p <? q) && (p <? m) then vn p q else if (q <? p) && (q <? m) then vn q p else J0 p q).
    { induction m as [|m IH]; intros Hm.
      - cbn [seq map fold_left]. replace (p <? 0) with false by (symmetry; apply Nat.ltb_ge; lia).
        replace (q <? 0) with false by (symmetry; apply Nat.ltb_ge; lia). now rewrite !andb_false_r.
      - rewrite seq_S, map_app, fold_left_app. cbn [map fold_left Nat.add].
        rewrite Hlo. replace (Z.of_nat m + 1)%Z with (Z.of_nat (S m)) by lia. rewrite zrange_nat, setdd_inner, IH by lia.
        replace (S m + (n - S m)) with n by lia.
        repeat (match goal with
                | |- context [Nat.eqb ?a ?b] => destruct (Nat.eqb_spec a b)
                | |- context [Nat.leb ?a ?b] => destruct (Nat.leb_spec a b)
                | |- context [Nat.ltb ?a ?b] => destruct (Nat.ltb_spec a b)
                end; try (exfalso; lia); cbn [andb]); try reflexivity; subst; try reflexivity; lia. }
    rewrite (G n) by lia. replace (p <? n) with true by (symmetry; apply Nat.ltb_lt; lia).
    replace (q <? n) with true by (symmetry; apply Nat.ltb_lt; lia). now rewrite !andb_true_r.
  Qed.
End SetDD.

(* ------------------------------------------------------------------------------------------------------------
   number_of_states_in_band(band):  nret = N0; for state in self.allstates(mult=M, mode="EQ", ...): nret = NEXT; return nret
   _build:  for ii in range(HI): self.Nb[IPOS] = self.number_of_states_in_band(band=BPOS, ...)                    *)
Section NbSkel.
  Variables (n0 : Z) (next m hi ipos bpos : Z -> Z).
  Variable elsig : list nat -> Z -> bool -> list sig.
  Variable allst : list sig -> list (Z * vst).
  Definition count_skel {A} (l : list A) : Z := fold_left (fun nret _ => next nret) l n0.
  Definition nsib_skel (omax : list nat) (band : Z) : Z := count_skel (allst (elsig omax (m band) false)).
  Definition Nb_skel (omax : list nat) (mult : Z) : list (Z * Z) :=
    map (fun ii => (ipos ii, nsib_skel omax (bpos ii))) (zrange 0 (hi mult)).

  Hypothesis Hn0 : n0 = 0%Z.
  Hypothesis Hnext : forall n, next n = (n + 1)%Z.
  Hypothesis Hm : forall b, m b = b.
  Hypothesis Hhi : forall mult, hi mult = (mult + 1)%Z.
  Hypothesis Hipos : forall ii, ipos ii = ii.
  Hypothesis Hbpos : forall ii, bpos ii = ii.
  Hypothesis Helsig : forall omax (k : nat), elsig omax (Z.of_nat k) false = elsigs_eq omax k.
  Variable vs : sig -> list (list nat).
  Hypothesis Hallst : forall sigs, allst sigs = map zst (combine (seq 0 (length (gstates_from vs 0 sigs))) (gstates_from vs 0 sigs)).

  Lemma count_skel_length {A} (l : list A) : count_skel l = Z.of_nat (length l).
  Proof.
    unfold count_skel. rewrite Hn0. change 0%Z with (Z.of_nat 0). rewrite <- (Nat.add_0_l (length l)). generalize 0 as c.
    induction l as [|x l IH]; intros c; cbn [fold_left length]; [now rewrite Nat.add_0_r|].
    rewrite Hnext. replace (Z.of_nat c + 1)%Z with (Z.of_nat (S c)) by lia. rewrite IH. f_equal. lia.
  Qed.

  Lemma Nb_skel_spec omax (mult : nat) :
    Nb_skel omax (Z.of_nat mult) = map (fun ii => (Z.of_nat ii, Z.of_nat (length (gstates_from vs 0 (elsigs_eq omax ii))))) (seq 0 (S mult)).
  Proof.
    unfold Nb_skel. rewrite Hhi. replace (Z.of_nat mult + 1)%Z with (Z.of_nat (S mult)) by lia.
    change 0%Z with (Z.of_nat 0). rewrite zrange_nat, Nat.sub_0_r, map_map. apply map_ext. intros ii.
    rewrite Hipos. unfold nsib_skel. rewrite Hbpos, Hm, Helsig, Hallst, count_skel_length, map_length, combine_length, seq_length, Nat.min_id.
    reflexivity.
  Qed.
End NbSkel.

Lemma Nb_nth omax mult ii : ii <= mult -> nth ii (Nb omax mult) 0 = length (elsigs_eq omax ii).
Proof.
  intros H. unfold Nb. rewrite (nth_indep _ 0 ((fun k => length (elsigs_eq omax k)) 0)) by (rewrite map_length, seq_length; lia).
  rewrite (map_nth (fun k => length (elsigs_eq omax k))), seq_nth by lia. reflexivity.
Qed.
Lemma gstates_novib_length sigs : length (gstates_from (fun _ => [[]]) 0 sigs) = length sigs.
Proof. rewrite gstates_novib, map_length, combine_length, seq_length. lia. Qed.
