(* Statement skeletons of correlationfunctions.py / spectraldensities.py (constructor dispatch loop, the _make_xxx
   bookkeeping, _set_temperature_and_cutoff_time, __add__, add_to_data, add_to_data2) with their arithmetic / operand
   content as parameters, and the lemmas that turn "the content is the expected one" into equality with Model/C09.v.
   harness/translate_c09.py instantiates the parameters from the current source on every run. *)
From Coq Require Import ZArith List Bool QArith Lia String.
From QV Require Import Base.Alg Model.C09.
Import ListNotations.

(* which string selects which maker, and which makers take the component as submitted (sorted by the type string) *)
Definition expected_dispatch : list (string * string) :=
  [("B777", "_make_B777"); ("CP29", "_make_CP29_spectral_density"); ("OverdampedBrownian", "_make_overdamped_brownian");
   ("OverdampedBrownian-HighTemperature", "_make_overdamped_brownian_ht"); ("Underdamped", "_make_underdamped");
   ("UnderdampedBrownian", "_make_underdamped_brownian"); ("Value-defined", "_make_value_defined")]%string.
(* SpectralDensity.__init__: every maker but CP29's receives the parameter set converted to internal units *)
Definition expected_sd_raw_form : list (string * bool) :=
  [("B777", false); ("CP29", true); ("OverdampedBrownian", false); ("Underdamped", false); ("UnderdampedBrownian", false);
   ("Value-defined", false)]%string.
Definition expected_sd_dispatch : list (string * string) :=
  [("B777", "_make_B777"); ("CP29", "_make_CP29_spectral_density"); ("OverdampedBrownian", "_make_overdamped_brownian");
   ("Underdamped", "_make_underdamped"); ("UnderdampedBrownian", "_make_underdamped_brownian"); ("Value-defined", "_make_value_defined")]%string.
Definition expected_raw_form : list (string * bool) :=
  [("B777", true); ("CP29", true); ("OverdampedBrownian", false); ("OverdampedBrownian-HighTemperature", false);
   ("Underdamped", true); ("UnderdampedBrownian", false); ("Value-defined", false)]%string.

Section Skel.
  Context {R : StarRing}.
  Variable gen : nat -> @comp R -> R.
  Open Scope sr_scope.
  Notation cf := (@cf R).
  Notation comp := (@comp R).

  (* ---- _set_temperature_and_cutoff_time(temperature, ctime): temperature test, then the longer cut-off ---- *)
  (* [newT] is what is stored when no temperature was set, [cmpT] what a set temperature is compared with *)
  Definition settc_skel (o : cf) (newT cmpT : Z) (cut' : Q) : option cf :=
    match temp o with
    | None => Some (mkCf (comps o) (lamb o) (Some newT) cut' (data o))
    | Some t => if negb (Z.eqb t cmpT) then None else Some (mkCf (comps o) (lamb o) (Some t) cut' (data o))
    end.
  (* the model's step without the data / reorganisation-energy part *)
  Definition set_tc (o : cf) (t : Z) (q : Q) : option cf := settc_skel o t t (qmax (cutoff o) q).

  Lemma make_one_as_set_tc f (o : cf) (c : comp) :
    make_one gen f (Some o) c =
    set_tc (mkCf (comps o) (lamb o + clam c) (temp o) (cutoff o) (data o + gen f c)) (ctemp c) (ccut c).
  Proof.
    unfold make_one, set_tc, settc_skel. cbn [temp comps lamb cutoff data].
    destruct (temp o) as [t|]; [|reflexivity]. destruct (Z.eqb t (ctemp c)); reflexivity.
  Qed.

  (* ---- the constructor: initial fields, then one _make_xxx per stored component ----
     [fam own stale] is the family the dispatch uses for the component [own] when [stale] is the component left over
     from the previous loop; [arg f own stale] the component whose parameters the maker of family f receives *)
  Definition ctor_skel (lam0 : R) (t0 : option Z) (c0 : Q) (d0 : R)
             (fam : comp -> comp -> nat) (arg : nat -> comp -> comp -> comp) (mk : nat -> cf -> comp -> R -> option cf)
             (cs : list comp) : option cf :=
    let stale := last cs (mkComp 0 0%Z 0 0%Q 0) in
    fold_left (fun acc c => match acc with
                            | None => None
                            | Some o => let f := fam c stale in let a := arg f c stale in mk f o a (gen f a)
                            end) cs (Some (mkCf cs lam0 t0 c0 d0)).

  Definition known (n : nat) (cs : list comp) : Prop := Forall (fun c => (ftype c < n)%nat) cs.

  Lemma ctor_skel_is_model n lam0 t0 c0 d0 fam arg mk :
    lam0 = 0 -> t0 = None -> c0 = 0%Q -> d0 = 0 ->
    (forall own stale, fam own stale = ftype own) ->
    (forall f own stale, (f < n)%nat -> arg f own stale = own) ->
    (forall f o c d, (f < n)%nat ->
       mk f o c d = set_tc (mkCf (comps o) (lamb o + clam c) (temp o) (cutoff o) (data o + d)) (ctemp c) (ccut c)) ->
    forall cs, known n cs -> ctor_skel lam0 t0 c0 d0 fam arg mk cs = ctor gen OwnFtype cs.
  Proof.
    intros -> -> -> -> Hfam Harg Hmk cs Hk. unfold ctor_skel, ctor.
    generalize (Some (mkCf cs 0 None 0%Q 0)) as acc. generalize (last cs (mkComp 0 0%Z 0 0%Q 0)) as stale.
    induction Hk as [|c cs' Hc Hk IH]; intros stale acc; cbn [fold_left]; [reflexivity|].
    rewrite IH. f_equal. destruct acc as [o|]; [|reflexivity].
    rewrite Hfam, Harg by exact Hc. rewrite Hmk by exact Hc. symmetry. apply make_one_as_set_tc.
  Qed.

  (* ---- add_to_data: refusal, then the four updates ---- *)
  Definition atd_skel (x : cf) (ta tb : option Z) (d l : R) (cut' : Q) (ps : list comp) : option cf :=
    if negb (temp_eqb ta tb) then None
    else Some (mkCf (comps x ++ ps) (lamb x + l) (temp x) cut' (data x + d)).
  Lemma temp_eqb_sym a b : temp_eqb a b = temp_eqb b a.
  Proof. destruct a, b; cbn; try reflexivity. apply Z.eqb_sym. Qed.
  Lemma atd_skel_is_model (x y : cf) ta tb d l cut' ps :
    (ta = temp x /\ tb = temp y) \/ (ta = temp y /\ tb = temp x) ->
    d = data y -> l = lamb y -> cut' = qmax (cutoff x) (cutoff y) -> ps = comps y ->
    atd_skel x ta tb d l cut' ps = add_to_data x y.
  Proof.
    intros [[-> ->]|[-> ->]] -> -> -> ->; unfold atd_skel, add_to_data; [|rewrite temp_eqb_sym];
      destruct (temp_eqb (temp x) (temp y)); reflexivity.
  Qed.

  (* x += y with the refusal first: (new x, raised) *)
  Definition iadd_skel (x : cf) (ta tb : option Z) (d l : R) (cut' : Q) (ps : list comp) : cf * bool :=
    match atd_skel x ta tb d l cut' ps with Some r => (r, false) | None => (x, true) end.
  Lemma iadd_skel_is_model (x y : cf) ta tb d l cut' ps :
    (ta = temp x /\ tb = temp y) \/ (ta = temp y /\ tb = temp x) ->
    d = data y -> l = lamb y -> cut' = qmax (cutoff x) (cutoff y) -> ps = comps y ->
    iadd_skel x ta tb d l cut' ps = iadd CheckThenMutate x y.
  Proof.
    intros H1 H2 H3 H4 H5. unfold iadd_skel. rewrite (atd_skel_is_model x y) by assumption.
    unfold add_to_data, iadd. destruct (temp_eqb (temp x) (temp y)); reflexivity.
  Qed.

  (* ---- a + b: rebuild from [src], add [rhs] to the rebuilt object ---- *)
  Definition add_skel (ctor_ : list comp -> option cf) (atd : cf -> cf -> option cf) (src : list comp) (rhs : cf) : option cf :=
    match ctor_ src with Some f => atd f rhs | None => None end.
  Lemma add_skel_is_model ctor_ atd (a b : cf) src rhs :
    src = comps a -> rhs = b -> ctor_ (comps a) = ctor gen OwnFtype (comps a) -> (forall f, atd f b = add_to_data f b) ->
    add_skel ctor_ atd src rhs = add gen OwnFtype a b.
  Proof. intros -> -> Hc Ha. unfold add_skel, add. rewrite Hc. destruct (ctor gen OwnFtype (comps a)); [apply Ha|reflexivity]. Qed.

  (* x += x: the right operand is rebuilt from [src] *)
  Definition iadd_self_skel (ctor_ : list comp -> option cf) (ia : cf -> cf -> cf * bool) (x : cf) (src : list comp) : option (cf * bool) :=
    match ctor_ src with Some y => Some (ia x y) | None => None end.
  Lemma iadd_self_skel_is_model ctor_ ia (x : cf) src :
    src = comps x -> ctor_ (comps x) = ctor gen OwnFtype (comps x) -> (forall y, ia x y = iadd CheckThenMutate x y) ->
    iadd_self_skel ctor_ ia x src = iadd_self gen OwnFtype CheckThenMutate x.
  Proof. intros -> Hc Hi. unfold iadd_self_skel, iadd_self. rewrite Hc. destruct (ctor gen OwnFtype (comps x)); [now rewrite Hi|reflexivity]. Qed.

  (* ---- SpectralDensity: the same updates without temperature test and cut-off time ---- *)
  Definition sd_atd_skel (x : cf) (d l : R) (ps : list comp) : cf :=
    mkCf (comps x ++ ps) (lamb x + l) (temp x) (cutoff x) (data x + d).
  Lemma sd_atd_skel_is_model (x y : cf) d l ps : d = data y -> l = lamb y -> ps = comps y ->
    sd_atd_skel x d l ps = sd_add_to_data x y.
  Proof. intros -> -> ->. reflexivity. Qed.

  (* spectral densities add linearly: the rebuilt left operand [sdctor (comps a) = Some a] plus b *)
  Lemma sd_add_spec (sdctor : list comp -> option cf) (a b : cf) : sdctor (comps a) = Some a ->
    sd_add sdctor a b = Some (mkCf (comps a ++ comps b) (lamb a + lamb b) (temp a) (cutoff a) (data a + data b)).
  Proof. intros H. unfold sd_add. rewrite H. reflexivity. Qed.
  Lemma sd_iadd_self_spec (sdctor : list comp -> option cf) (x : cf) : sdctor (comps x) = Some x ->
    sd_iadd_self sdctor x = Some (mkCf (comps x ++ comps x) (lamb x + lamb x) (temp x) (cutoff x) (data x + data x)).
  Proof. intros H. unfold sd_iadd_self. rewrite H. reflexivity. Qed.

  (* ---- SpectralDensity.__init__: one loop; [step f o c d] is what one iteration does for a component of family f whose
     maker produced the data d (temperature, maker bookkeeping, append of the converted parameter set) ---- *)
  Definition sd_ctor_skel (lam0 d0 : R) (fam : comp -> nat) (step : nat -> cf -> comp -> R -> cf) (cs : list comp) : option cf :=
    Some (fold_left (fun o c => step (fam c) o c (gen (fam c) c)) cs (mkCf [] lam0 None 0%Q d0)).
  Definition tied (l : list nat) (cs : list comp) : Prop := Forall (fun c => In (ftype c) l) cs.
  Lemma sd_ctor_skel_is_model l lam0 d0 fam step :
    lam0 = 0 -> d0 = 0 -> (forall c, fam c = ftype c) ->
    (forall f o c d, In f l -> step f o c d = mkCf (comps o ++ [c]) (lamb o + clam c) (Some (ctemp c)) (cutoff o) (data o + d)) ->
    forall cs, tied l cs -> sd_ctor_skel lam0 d0 fam step cs = sd_ctor gen cs.
  Proof.
    intros -> -> Hfam Hstep cs Ht. unfold sd_ctor_skel, sd_ctor. f_equal.
    generalize (mkCf (R:=R) [] 0 None 0%Q 0) as o.
    induction Ht as [|c cs' Hc Ht IH]; intros o; cbn [fold_left]; [reflexivity|].
    rewrite Hfam, (Hstep _ _ _ _ Hc). apply IH.
  Qed.

  (* what the constructor of a spectral density builds: components in order, sums of reorganisation energies and data *)
  Definition sumf (f : comp -> R) (cs : list comp) : R := fold_right (fun c a => f c + a) 0 cs.
  Definition sdfold (cs : list comp) (o : cf) : cf := fold_left (fun o c => sd_make_one gen (ftype c) o c) cs o.
  Add Ring RrS : (rth R).
  Lemma sumf_cons f c cs : sumf f (c :: cs) = f c + sumf f cs.
  Proof. reflexivity. Qed.
  Lemma sd_loop_spec cs : forall o : cf,
    comps (sdfold cs o) = comps o ++ cs /\ lamb (sdfold cs o) = lamb o + sumf (@clam R) cs /\
    data (sdfold cs o) = data o + sumf (fun c => gen (ftype c) c) cs.
  Proof.
    induction cs as [|c cs IH]; intros o.
    - unfold sdfold, sumf; cbn [fold_left fold_right]. rewrite app_nil_r. split; [reflexivity|split; ring].
    - change (sdfold (c :: cs) o) with (sdfold cs (sd_make_one gen (ftype c) o c)).
      destruct (IH (sd_make_one gen (ftype c) o c)) as (Hc & Hl & Hd). rewrite Hc, Hl, Hd, !sumf_cons.
      unfold sd_make_one; cbn [comps lamb data]. rewrite <- app_assoc. split; [reflexivity|split; ring].
  Qed.
  Lemma sd_ctor_spec cs : exists r, sd_ctor gen cs = Some r /\
    comps r = cs /\ lamb r = sumf (@clam R) cs /\ data r = sumf (fun c => gen (ftype c) c) cs.
  Proof.
    exists (sdfold cs (mkCf [] 0 None 0%Q 0)). split; [reflexivity|].
    destruct (sd_loop_spec cs (mkCf [] 0 None 0%Q 0)) as (Hc & Hl & Hd).
    rewrite Hc, Hl, Hd. cbn [comps lamb data app]. split; [reflexivity|split; ring].
  Qed.
End Skel.
