(* C16: the number of entries of each hierarchy level (the binomial level count).
   comps N k enumerates the multi-indices over N baths of total order k; any duplicate-free list with exactly these
   members (is_level, which the generated levels satisfy) has cnt N k entries, and cnt obeys the boundary values and
   Pascal recursion that characterise the binomial coefficients C(N+k-1, k). *)
From Coq Require Import ZArith List Bool Arith Lia Permutation.
From QV Require Import Base.Alg Model.C16 Proofs.C16.
Import ListNotations.

Fixpoint cnt (N k : nat) : nat :=
  match N with
  | O => match k with O => 1 | S _ => 0 end
  | S N' => list_sum (map (fun j => cnt N' (k - j)) (seq 0 (S k)))
  end.

Fixpoint comps (N k : nat) : list mi :=
  match N with
  | O => match k with O => [[]] | S _ => [] end
  | S N' => flat_map (fun j => map (cons j) (comps N' (k - j))) (seq 0 (S k))
  end.

Lemma comps_spec N : forall k m, In m (comps N k) <-> (length m = N /\ weight m = k).
Proof.
  induction N as [|N IH]; intros k m.
  - destruct k; cbn [comps]; split.
    + intros [<-|[]]. split; reflexivity.
    + intros [Hl Hw]. destruct m; [now left|discriminate].
    + intros [].
    + intros [Hl Hw]. destruct m; [discriminate Hw|discriminate Hl].
  - cbn [comps]. rewrite in_flat_map. split.
    + intros [j [Hj Hm]]. apply in_seq in Hj. apply in_map_iff in Hm. destruct Hm as [m' [<- Hm']].
      apply IH in Hm'. destruct Hm' as [Hl Hw]. unfold weight in *. simpl. split; lia.
    + intros [Hl Hw]. destruct m as [|j m']; [discriminate|]. unfold weight in *. simpl in Hl, Hw.
      exists j. split; [apply in_seq; lia|]. apply in_map. apply IH. unfold weight. split; lia.
Qed.

Lemma NoDup_flat_map {A B} (f : A -> list B) (l : list A) :
  NoDup l -> (forall x, In x l -> NoDup (f x)) ->
  (forall x y b, In x l -> In y l -> x <> y -> In b (f x) -> In b (f y) -> False) -> NoDup (flat_map f l).
Proof.
  induction l as [|a l IH]; intros Hl Hf Hd; cbn [flat_map]; [constructor|].
  inversion Hl as [|? ? Ha Hl']; subst.
  apply NoDup_app_intro.
  - apply Hf. now left.
  - apply IH; [exact Hl'| |].
    + intros x Hx. apply Hf. now right.
    + intros x y b Hx Hy. apply Hd; now right.
  - intros b Hb1 Hb2. apply in_flat_map in Hb2. destruct Hb2 as [y [Hy Hb2]].
    apply (Hd a y b); [now left|now right| |exact Hb1|exact Hb2]. intros ->. contradiction.
Qed.

Lemma comps_nodup N : forall k, NoDup (comps N k).
Proof.
  induction N as [|N IH]; intros k.
  - destruct k; cbn [comps]; repeat constructor. intros [].
  - cbn [comps]. apply NoDup_flat_map.
    + apply seq_NoDup.
    + intros j _. apply FinFun.Injective_map_NoDup; [|apply IH]. intros a b H. now injection H.
    + intros x y b _ _ Hxy Hb1 Hb2. apply in_map_iff in Hb1. apply in_map_iff in Hb2.
      destruct Hb1 as [m1 [<- _]]. destruct Hb2 as [m2 [E _]]. injection E as E1 _. congruence.
Qed.

Lemma length_flat_map' {A B} (f : A -> list B) (l : list A) :
  length (flat_map f l) = list_sum (map (fun x => length (f x)) l).
Proof. induction l as [|a l IH]; cbn [flat_map map list_sum fold_right]; [reflexivity|]. now rewrite app_length, IH. Qed.

Lemma comps_length N : forall k, length (comps N k) = cnt N k.
Proof.
  induction N as [|N IH]; intros k.
  - destruct k; reflexivity.
  - cbn [comps cnt]. rewrite length_flat_map'. f_equal. apply map_ext. intros j. now rewrite map_length, IH.
Qed.

(* every level the code generates has exactly cnt N k entries *)
Theorem level_count N k (l : list mi) : is_level N k l -> length l = cnt N k.
Proof.
  intros [Hn Hm]. rewrite <- comps_length. apply Permutation_length.
  apply NoDup_Permutation; [exact Hn|apply comps_nodup|]. intros m. rewrite Hm. symmetry. apply comps_spec.
Qed.

(* cnt is the binomial coefficient C(N+k-1, k): boundary values and Pascal's rule *)
Lemma cnt_0 N : cnt (S N) 0 = 1.
Proof. induction N as [|N IH]; [reflexivity|]. cbn [cnt seq map list_sum fold_right Nat.sub] in *. rewrite IH. reflexivity. Qed.

Lemma list_sum_seq_split (f : nat -> nat) k :
  list_sum (map f (seq 0 (S k))) = list_sum (map f (seq 0 k)) + f k.
Proof. rewrite seq_S, map_app, list_sum_app. simpl. lia. Qed.

Lemma cnt_pascal N k : cnt (S N) (S k) = cnt (S N) k + cnt N (S k).
Proof.
  cbn [cnt].
  (* sum_{j<=k+1} cnt N (k+1-j): split off j = 0, shift the rest *)
  change (seq 0 (S (S k))) with (0 :: seq 1 (S k)). cbn [map list_sum fold_right]. rewrite Nat.sub_0_r.
  rewrite <- seq_shift, map_map.
  rewrite (map_ext (fun j => cnt N (S k - S j)) (fun j => cnt N (k - j))) by (intros; reflexivity).
  change (fold_right Init.Nat.add 0 (map (fun j : nat => cnt N (k - j)) (seq 0 (S k)))) with (list_sum (map (fun j : nat => cnt N (k - j)) (seq 0 (S k)))). lia.
Qed.

Example cnt_values : cnt 3 2 = 6 /\ cnt 4 3 = 20 /\ cnt 2 5 = 6 /\ cnt 1 7 = 1.
Proof. repeat split. Qed.
