(* Laws of the basis transformations of operators (S1 . A . S) and of four-index tensors (the two
   passes of SuperOperator/RelaxationTensor.transform): they compose, are undone by the inverse
   matrix, keep traces, and make the application of a tensor to an operator basis independent. *)
From Coq Require Import ZArith Arith List Lia.
From QV Require Import Base.Alg Base.Sums Base.Mat Base.Tens.
Import ListNotations.

Section Tensor.
  Context {R : StarRing}.
  Add Ring Rr : (rth R).
  Open Scope sr_scope.
  Variable n : nat.

  Lemma meq_refl (A : @mat R) : meq n A A.  Proof. intros i j _ _. reflexivity. Qed.
  Lemma meq_sym (A B : @mat R) : meq n A B -> meq n B A.  Proof. intros H i j Hi Hj. symmetry. now apply H. Qed.
  Lemma meq_trans (A B C : @mat R) : meq n A B -> meq n B C -> meq n A C.
  Proof. intros H1 H2 i j Hi Hj. rewrite H1, H2; auto. Qed.

  (* successive basis changes compose *)
  Lemma sim_comp (S1 S T1 T A : @mat R) :
    meq n (sim n T1 T (sim n S1 S A)) (sim n (mmul n T1 S1) (mmul n S T) A).
  Proof.
    unfold sim.
    (* T1 ((S1 (A S)) T)  =  (T1 S1) (A (S T)) *)
    eapply meq_trans; [apply mmul_ext; [apply meq_refl|apply mmul_assoc]|].        (* T1 (S1 ((A S) T)) *)
    eapply meq_trans; [apply meq_sym, mmul_assoc|].                                  (* (T1 S1) ((A S) T) *)
    apply mmul_ext; [apply meq_refl|apply mmul_assoc].
  Qed.

  Lemma sim_id (A : @mat R) : meq n (sim n (@mid R) (@mid R) A) A.
  Proof. unfold sim. eapply meq_trans; [apply mmul_id_l|apply mmul_id_r]. Qed.

  Lemma sim_ext (S1 S S1' S' A A' : @mat R) : meq n S1 S1' -> meq n S S' -> meq n A A' -> meq n (sim n S1 S A) (sim n S1' S' A').
  Proof. intros H1 H2 H3. unfold sim. apply mmul_ext; [exact H1|apply mmul_ext; assumption]. Qed.

  (* the inverse matrix undoes the change: "back in its original representation" *)
  Lemma sim_inverse (S1 S A : @mat R) : meq n (mmul n S S1) (@mid R) -> meq n (sim n S S1 (sim n S1 S A)) A.
  Proof.
    intros HI. eapply meq_trans; [apply sim_comp|]. eapply meq_trans; [|apply sim_id].
    apply sim_ext; [exact HI|exact HI|apply meq_refl].
  Qed.

  (* traces do not depend on the basis *)
  Lemma mtr_sim (S1 S A : @mat R) : meq n (mmul n S S1) (@mid R) -> mtr n (sim n S1 S A) = mtr n A.
  Proof.
    intros HI. unfold sim. rewrite mtr_mmul_comm.
    rewrite (mtr_ext n _ (mmul n A (mmul n S S1))) by apply mmul_assoc.
    rewrite (mtr_ext n _ (mmul n A (@mid R))) by (apply mmul_ext; [apply meq_refl|exact HI]).
    apply mtr_ext, mmul_id_r.
  Qed.

  Lemma mtr_prod_sim (S1 S A B : @mat R) : meq n (mmul n S S1) (@mid R) ->
    mtr n (mmul n (sim n S1 S A) (sim n S1 S B)) = mtr n (mmul n A B).
  Proof.
    intros HI.
    assert (meq n (mmul n (sim n S1 S A) (sim n S1 S B)) (sim n S1 S (mmul n A B))) as E.
    { unfold sim.
      (* (S1 (A S)) (S1 (B S)) = S1 ((A B) S) *)
      eapply meq_trans; [apply mmul_assoc|]. apply mmul_ext; [apply meq_refl|].
      eapply meq_trans; [apply mmul_assoc|].                                     (* A (S (S1 (B S))) *)
      eapply meq_trans; [|apply meq_sym, mmul_assoc]. apply mmul_ext; [apply meq_refl|].
      eapply meq_trans; [apply meq_sym, mmul_assoc|].                              (* (S S1) (B S) *)
      eapply meq_trans; [apply mmul_ext; [exact HI|apply meq_refl]|apply mmul_id_l]. }
    rewrite (mtr_ext n _ _ E). now apply mtr_sim.
  Qed.

  (* ---- four-index tensors ---- *)
  (* the pairing <M, A> = sum_kl M[k,l] A[k,l] underlying numpy.tensordot *)
  Definition pair (M A : @mat R) : R := sum n (fun k => sum n (fun l => M k l * A k l)).

  Lemma pair_as_trace (M A : @mat R) : pair M A = mtr n (mmul n (mT M) A).
  Proof. unfold pair, mtr, mmul, mT. rewrite sum_swap. reflexivity. Qed.

  Lemma mT_mmul (A B : @mat R) : meq n (mT (mmul n A B)) (mmul n (mT B) (mT A)).
  Proof. intros i j _ _. unfold mT, mmul. apply sum_ext. intros; ring. Qed.

  (* the second pass keeps the pairing with a transformed operator *)
  Lemma pair_invariant (S1 S M A : @mat R) : meq n (mmul n S S1) (@mid R) ->
    pair (mmul n (mT S) (mmul n M (mT S1))) (sim n S1 S A) = pair M A.
  Proof.
    intros HI. rewrite !pair_as_trace.
    (* (S^T M S1^T)^T = S1 M^T S *)
    assert (meq n (mT (mmul n (mT S) (mmul n M (mT S1)))) (mmul n S1 (mmul n (mT M) S))) as E1.
    { eapply meq_trans; [apply mT_mmul|]. eapply meq_trans; [apply mmul_ext; [apply mT_mmul|apply meq_refl]|].
      eapply meq_trans; [apply mmul_assoc|]. apply meq_refl. }
    rewrite (mtr_ext n _ (mmul n (mmul n S1 (mmul n (mT M) S)) (sim n S1 S A))) by (apply mmul_ext; [exact E1|apply meq_refl]).
    change (mmul n S1 (mmul n (mT M) S)) with (sim n S1 S (mT M)).
    now apply mtr_prod_sim.
  Qed.

  Lemma tpass2_as_matrix (S1 S : @mat R) (T : @tens R) a b c d :
    tpass2 n S1 S T a b c d = mmul n (mT S) (mmul n (fun k l => T a b k l) (mT S1)) c d.
  Proof.
    unfold tpass2, mmul, mT. apply sum_ext. intros k _. rewrite <- sum_mul_l. apply sum_ext. intros l _. ring.
  Qed.

  (* applying a transformed tensor to a transformed operator = transforming the result *)
  Theorem ttrans_covariant (S1 S : @mat R) (T : @tens R) (A : @mat R) : meq n (mmul n S S1) (@mid R) ->
    meq n (tapply n (ttrans n S1 S T) (sim n S1 S A)) (sim n S1 S (tapply n T A)).
  Proof.
    intros HI a b Ha Hb. unfold tapply at 1, ttrans.
    (* the inner double sum is the pairing of the second-pass matrix with the transformed operator *)
    transitivity (pair (mmul n (mT S) (mmul n (fun k l => tpass1 n S1 S T a b k l) (mT S1))) (sim n S1 S A)).
    { unfold pair. apply sum_ext. intros c _. apply sum_ext. intros d _. now rewrite tpass2_as_matrix. }
    rewrite (pair_invariant S1 S _ A HI). unfold pair, tpass1, sim, tapply, mmul.
    transitivity (sum n (fun k => sum n (fun l => sum n (fun i => sum n (fun j => S1 a i * T i j k l * S j b * A k l))))).
    { apply sum_ext. intros k _. apply sum_ext. intros l _. rewrite <- sum_mul_r. apply sum_ext. intros i _.
      rewrite <- sum_mul_r. reflexivity. }
    rewrite (sum4_rot n (fun i j k l => S1 a i * T i j k l * S j b * A k l)).
    apply sum_ext. intros i _. rewrite <- sum_mul_l. apply sum_ext. intros j _.
    rewrite <- sum_mul_r, <- sum_mul_l. apply sum_ext. intros k _. rewrite <- sum_mul_r, <- sum_mul_l.
    apply sum_ext. intros l _. ring.
  Qed.

  (* the transformation is undone by the inverse pair, so a tensor too is "back in its original
     representation" after a context: shown through its action on every operator *)
  Corollary ttrans_roundtrip_action (S1 S : @mat R) (T : @tens R) (A : @mat R) :
    meq n (mmul n S S1) (@mid R) -> meq n (mmul n S1 S) (@mid R) ->
    meq n (tapply n (ttrans n S S1 (ttrans n S1 S T)) A) (tapply n T A).
  Proof.
    intros H1 H2.
    (* A = sim S S1 (sim S1 S A) *)
    assert (meq n A (sim n S S1 (sim n S1 S A))) as EA by (apply meq_sym, sim_inverse; exact H1).
    assert (forall (U : @tens R) (B B' : @mat R), meq n B B' -> meq n (tapply n U B) (tapply n U B')) as text.
    { intros U B B' HB a b Ha Hb. unfold tapply. apply sum_ext. intros c Hc. apply sum_ext. intros d Hd. now rewrite HB. }
    eapply meq_trans; [apply text; exact EA|].
    eapply meq_trans; [apply (ttrans_covariant S S1 (ttrans n S1 S T) (sim n S1 S A) H2)|].
    eapply meq_trans; [apply sim_ext; [apply meq_refl|apply meq_refl|apply (ttrans_covariant S1 S T A H1)]|].
    apply sim_inverse. exact H1.
  Qed.

  (* for a real orthogonal S (inverse = transpose) the pinned second pass is the same transformation *)
  Lemma ttrans_pinned_eq_orthogonal (S1 S : @mat R) (T : @tens R) :
    (forall i j, (i < n)%nat -> (j < n)%nat -> S1 i j = S j i) -> teq n (ttrans_pinned n S1 S T) (ttrans n S1 S T).
  Proof.
    intros Ho a b c d Ha Hb Hc Hd. unfold ttrans_pinned, ttrans, tpass2_pinned, tpass2.
    apply sum_ext. intros k Hk. apply sum_ext. intros l Hl. rewrite (Ho c k Hc Hk), (Ho d l Hd Hl). reflexivity.
  Qed.
End Tensor.

(* a unitary, not orthogonal, basis change: the pinned transformation turns the identity superoperator
   into something else, so tensors were not basis independent in complex eigenbases *)
Definition U_demo : @mat GZ := mat_of (R:=GZ) [[(0,1); (0,0)]; [(0,0); (1,0)]]%Z.       (* diag(i, 1) *)
Definition U1_demo : @mat GZ := mat_of (R:=GZ) [[(0,-1); (0,0)]; [(0,0); (1,0)]]%Z.     (* its inverse = conjugate transpose *)
Definition Id_tens : @tens GZ := fun a b c d => if (Nat.eqb a c && Nat.eqb b d)%bool then (1,0)%Z else (0,0)%Z.
Definition A_demo : @mat GZ := mat_of (R:=GZ) [[(0,0); (1,0)]; [(0,0); (0,0)]]%Z.

Lemma pinned_unitary_witness :
  mmul 2 U_demo U1_demo 0%nat 0%nat = (1,0)%Z /\ mmul 2 U_demo U1_demo 1%nat 1%nat = (1,0)%Z /\
  tapply 2 (ttrans_pinned 2 U1_demo U_demo Id_tens) (sim 2 U1_demo U_demo A_demo) 0%nat 1%nat = (0,1)%Z /\
  sim 2 U1_demo U_demo (tapply 2 Id_tens A_demo) 0%nat 1%nat = (0,-1)%Z /\
  tapply 2 (ttrans 2 U1_demo U_demo Id_tens) (sim 2 U1_demo U_demo A_demo) 0%nat 1%nat = (0,-1)%Z.
Proof. vm_compute. repeat split. Qed.

