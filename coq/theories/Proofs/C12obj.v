(* C12: the liouville_pathway object (Model/C12x.v: a state machine over the calls of a generator, arrays as
   functions with point updates, every raise a None) run on a well-formed program is the closed form [mkpath] of
   Model/C12.v when the consistency checks pass and raises otherwise; for systems whose only ground state is state 0
   (aggregates of two-level molecules) no pathway construction of the six generators fails. *)
From Coq Require Import ZArith List Bool String Lia Arith.
From QV Require Import Base.Alg Base.Util Model.C19 Model.C12 Model.C12x.
Import ListNotations.

Section Obj.
  Context {R : StarRing}.
  Add Ring Rr12o : (rth R).
  Open Scope sr_scope.
  Notation vec3 := (@vec3 R).
  Notation sys := (@sys R).
  Notation pway := (@pway R).
  Notation event := (@event R).
  Notation xop := (@xop R).
  Notation lp := (@lp R).

  (* ---------------- list lemmas ---------------- *)
  Lemma nth_snoc {A} (a : list A) (t d : A) k : nth k (a ++ [t]) d = if Nat.eqb k (List.length a) then t else nth k a d.
  Proof.
    destruct (Nat.eqb_spec k (List.length a)) as [->|Hne].
    - rewrite app_nth2 by lia. now rewrite Nat.sub_diag.
    - destruct (Nat.lt_ge_cases k (List.length a)) as [Hlt|Hge].
      + now rewrite app_nth1 by lia.
      + rewrite !nth_overflow; [reflexivity|lia|rewrite app_length; cbn; lia].
  Qed.

  Lemma map_nth_seq {A} (l : list A) (d : A) (f : nat -> A) n :
    n = List.length l -> (forall k, f k = nth k l d) -> map f (seq 0 n) = l.
  Proof.
    intros -> Hf. rewrite (map_ext _ (fun k => nth k l d)) by exact Hf. clear Hf f.
    induction l as [|x l IH]; cbn [List.length seq map]; [reflexivity|]. f_equal.
    rewrite <- seq_shift, map_map. exact IH.
  Qed.

  (* ---------------- the closed-form functions on concatenations ---------------- *)
  Fixpoint ev_cur (evs : list event) (cur : nat * nat) : nat * nat :=
    match evs with
    | [] => cur
    | ET nf _ l _ _ _ :: r => ev_cur r (if l then (nf, snd cur) else (fst cur, nf))
    | EX fl fr :: r => ev_cur r (fl, fr)
    end.

  Lemma ev_trans_app (a b : list event) : ev_trans (a ++ b) = ev_trans a ++ ev_trans b.
  Proof. induction a as [|[nf ni l i w g|fl fr] a IH]; cbn; [reflexivity|now rewrite IH|exact IH]. Qed.
  Lemma ev_sign_app (a b : list event) : ev_sign (a ++ b) = ev_sign a * ev_sign b.
  Proof. induction a as [|[nf ni l i w g|fl fr] a IH]; cbn [app ev_sign]; [ring|rewrite IH; ring|exact IH]. Qed.
  Lemma ev_cur_app (a b : list event) cur : ev_cur (a ++ b) cur = ev_cur b (ev_cur a cur).
  Proof. revert cur; induction a as [|[nf ni l i w g|fl fr] a IH]; intros cur; cbn [app ev_cur]; [reflexivity|apply IH|apply IH]. Qed.
  Lemma ev_ok_app (a b : list event) cur : ev_ok (a ++ b) cur = ev_ok a cur && ev_ok b (ev_cur a cur).
  Proof.
    revert cur; induction a as [|[nf ni l i w g|fl fr] a IH]; intros cur; cbn [app ev_ok ev_cur]; [reflexivity| |apply IH].
    rewrite IH. now rewrite andb_assoc.
  Qed.
  Lemma ev_width_app k (a b : list event) (acc : R * R) : ev_width k (a ++ b) acc = ev_width k b (ev_width k a acc).
  Proof. revert acc; induction a as [|[nf ni l i w g|fl fr] a IH]; intros acc; cbn [app ev_width]; [reflexivity|apply IH|apply IH]. Qed.
  Lemma ev_freq_app (E : nat -> R) (a b : list event) cur n :
    ev_freq E (a ++ b) cur n = ev_freq E a cur n ++ ev_freq E b (ev_cur a cur) (n + List.length (ev_trans a)).
  Proof.
    revert cur n; induction a as [|[nf ni l i w g|fl fr] a IH]; intros cur n; cbn [app ev_freq ev_cur ev_trans List.length].
    - now rewrite Nat.add_0_r.
    - rewrite IH. now rewrite <- plus_n_Sm.
    - now rewrite IH.
  Qed.
  Lemma ev_freq_length (E : nat -> R) (a : list event) cur n : List.length (ev_freq E a cur n) = List.length a.
  Proof. revert cur n; induction a as [|[nf ni l i w g|fl fr] a IH]; intros cur n; cbn; [reflexivity|now rewrite IH|now rewrite IH]. Qed.

  Lemma erase_app (a b : list xop) : erase (a ++ b) = erase a ++ erase b.
  Proof. unfold erase. apply flat_map_app. Qed.
  Lemma xevf_app (a b : list xop) acc : xevf (a ++ b) acc = xevf b (xevf a acc).
  Proof. revert acc; induction a as [|[nf ni s k w g|fl fr sl sr|e] a IH]; intros acc; cbn [app xevf]; auto. Qed.
  Lemma count_T_app (a b : list xop) : count_T (a ++ b) = (count_T a + count_T b)%nat.
  Proof. unfold count_T. now rewrite filter_app, app_length. Qed.
  Lemma count_X_app (a b : list xop) : count_X (a ++ b) = (count_X a + count_X b)%nat.
  Proof. unfold count_X. now rewrite filter_app, app_length. Qed.
  Lemma count_T_trans (a : list xop) : List.length (ev_trans (erase a)) = count_T a.
  Proof.
    unfold count_T. induction a as [|[nf ni s k w g|fl fr sl sr|e] a IH]; cbn [erase flat_map erase1 app ev_trans filter List.length];
      try fold (erase a); [reflexivity|now rewrite IH|exact IH|exact IH].
  Qed.
  Lemma erase_length (a : list xop) : List.length (erase a) = (count_T a + count_X a)%nat.
  Proof.
    unfold count_T, count_X. induction a as [|[nf ni s k w g|fl fr sl sr|e] a IH]; cbn [erase flat_map erase1 app filter List.length];
      try fold (erase a); [reflexivity|rewrite IH; lia|rewrite IH; lia|exact IH].
  Qed.

  Definition xsides (ops : list xop) : list Z :=
    flat_map (fun o => match o with XT _ _ s _ _ _ => [s] | _ => [] end) ops.
  Lemma xsides_app (a b : list xop) : xsides (a ++ b) = xsides a ++ xsides b.
  Proof. unfold xsides. apply flat_map_app. Qed.
  Lemma xsides_length (a : list xop) : List.length (xsides a) = count_T a.
  Proof.
    unfold count_T, xsides. induction a as [|[nf ni s k w g|fl fr sl sr|e] a IH]; cbn [flat_map app filter List.length];
      [reflexivity|now rewrite IH|exact IH|exact IH].
  Qed.
  Definition sgn1 (s : Z) : R := if side_left s then 1 else mone.
  Lemma ev_sign_sides (a : list xop) : ev_sign (erase a) = fold_right (fun s acc => sgn1 s * acc) 1 (xsides a).
  Proof.
    unfold xsides. induction a as [|[nf ni s k w g|fl fr sl sr|e] a IH]; cbn [erase flat_map erase1 app ev_sign fold_right];
      try fold (erase a); [reflexivity|now rewrite IH|exact IH|exact IH].
  Qed.
  Lemma has_interval_app (a b : list xop) : has_interval (a ++ b) = has_interval a || has_interval b.
  Proof. unfold has_interval. apply existsb_app. Qed.
  Lemma no_interval_width (a : list xop) k acc : has_interval a = false -> (0 < k)%nat -> ev_width k (erase a) acc = acc.
  Proof.
    unfold has_interval. revert acc. induction a as [|[nf ni s i w g|fl fr sl sr|e] a IH]; intros acc H Hk;
      cbn [erase flat_map erase1 app ev_width existsb] in *; try fold (erase a) in *; [reflexivity| |now apply IH|now apply IH].
    apply orb_false_iff in H. destruct H as [H1 H2]. apply Nat.ltb_ge in H1.
    destruct (Nat.eqb_spec i k); [lia|now apply IH].
  Qed.

  (* ---------------- one step ---------------- *)
  Variable Sy : sys.
  Variable c : @xcall.
  Hypothesis Hord : c_order c = 3%nat.

  Definition next (o : xop) (cur : nat * nat) : nat * nat :=
    match o with
    | XT nf _ s _ _ _ => if side_left s then (nf, snd cur) else (fst cur, nf)
    | XX fl fr _ _ => (fl, fr)
    | XE _ => cur
    end.
  Definition okstep (o : xop) (cur : nat * nat) : bool :=
    match o with
    | XT _ ni s _ _ _ => Nat.eqb (if side_left s then fst cur else snd cur) ni
    | XX _ _ sl sr => Nat.eqb (fst cur) sl && Nat.eqb (snd cur) sr
    | XE _ => true
    end.
  Fixpoint allok (ops : list xop) (cur : nat * nat) : bool :=
    match ops with [] => true | o :: r => okstep o cur && allok r (next o cur) end.
  Lemma allok_split ops cur : allok ops cur = ev_ok (erase ops) cur && xx_ok ops cur.
  Proof.
    revert cur; induction ops as [|[nf ni s k w g|fl fr sl sr|e] ops IH]; intros cur;
      cbn [allok okstep next erase flat_map erase1 app ev_ok xx_ok]; try fold (erase ops); rewrite ?IH.
    - reflexivity.
    - now rewrite andb_assoc.
    - destruct (ev_ok (erase ops) (fl, fr)), (Nat.eqb (fst cur) sl), (Nat.eqb (snd cur) sr), (xx_ok ops (fl, fr)); reflexivity.
    - reflexivity.
  Qed.
  Lemma ev_cur_next (o : xop) cur : ev_cur (erase1 o) cur = next o cur.
  Proof. destruct o as [nf ni s k w g|fl fr sl sr|e]; reflexivity. Qed.

  Definition wd_rep (pre : list xop) (l : lp) : Prop :=
    match l_wd l with
    | None => has_interval pre = false
    | Some wg => has_interval pre = true /\
                 forall k, (0 < k)%nat -> fst wg k = fst (ev_width k (erase pre) (mone, mone)) /\
                                          snd wg k = snd (ev_width k (erase pre) (mone, mone))
    end.
  Definition Rep (pre : list xop) (l : lp) : Prop :=
    l_call l = c /\
    l_cur l = ev_cur (erase pre) (c_sinit c, 0%nat) /\
    l_nint l = count_T pre /\ l_nrel l = count_X pre /\ l_ne l = (count_T pre + count_X pre)%nat /\
    (forall k, l_trans l k = nth k (ev_trans (erase pre)) (0%nat, 0%nat)) /\
    (forall k, l_sides l k = nth k (xsides pre) 0%Z) /\
    (forall k, l_dm l k = nth k (map (fun t => DD Sy (fst t) (snd t)) (ev_trans (erase pre))) vzero) /\
    (forall k, l_freq l k = nth k (ev_freq (En Sy) (erase pre) (c_sinit c, 0%nat) 0) 0) /\
    wd_rep pre l /\
    l_evf l = xevf pre 1.

  Lemma Rep_new : Rep [] (lp_new c).
  Proof.
    unfold Rep, lp_new, wd_rep. cbn. repeat split; try reflexivity; intros k; destruct k; reflexivity.
  Qed.

  Lemma side_pm s : (Z.eqb s 1 || Z.eqb s (-1)) = true -> s = 1%Z \/ s = (-1)%Z.
  Proof. intros H. apply orb_true_iff in H. destruct H as [H|H]; apply Z.eqb_eq in H; auto. Qed.

  Lemma step_ok pre l o : Rep pre l -> op_ok o = true ->
    (count_T (pre ++ [o]) <= 4)%nat -> (count_X (pre ++ [o]) <= c_relax c)%nat ->
    match xstep Sy l o with
    | Some l' => Rep (pre ++ [o]) l' /\ okstep o (l_cur l) = true
    | None => okstep o (l_cur l) = false
    end.
  Proof.
    intros (Hc & Hcur & Hni & Hnr & Hne & Htr & Hsd & Hdm & Hfr & Hwd & Hev) Hop HT HX.
    rewrite count_T_app in HT. rewrite count_X_app in HX.
    destruct o as [nf ni s k w g|fl fr sl sr|e]; cbn [xstep].
    - (* add_transition *)
      cbn [op_ok] in Hop. apply andb_true_iff in Hop. destruct Hop as [Hs Hk]. apply Nat.ltb_lt in Hk.
      change (count_T [XT nf ni s k w g]) with 1%nat in HT. change (count_X [XT nf ni s k w g]) with 0%nat in HX.
      unfold add_transition. rewrite Hc.
      assert (Hsd01 : (s = 1%Z /\ side_index s = 0%Z /\ side_left s = true) \/ (s = (-1)%Z /\ side_index s = 1%Z /\ side_left s = false)).
      { destruct (side_pm s Hs) as [->| ->]; [left|right]; repeat split; reflexivity. }
      cbn [okstep].
      assert (Hpick : pick (side_index s) (l_cur l) = Some (if side_left s then fst (l_cur l) else snd (l_cur l))).
      { destruct Hsd01 as [(-> & _ & _)|(-> & _ & _)]; reflexivity. }
      rewrite Hpick.
      destruct (Nat.eqb (if side_left s then fst (l_cur l) else snd (l_cur l)) ni) eqn:Echk; cbn [negb]; [|reflexivity].
      rewrite Hni, Hord.
      assert (HltT : Nat.ltb (count_T pre) 4 = true) by (apply Nat.ltb_lt; lia). rewrite HltT. cbn [negb].
      assert (Hslots : Nat.ltb (l_ne l) (nslots c) = true) by (apply Nat.ltb_lt; unfold nslots; rewrite Hne, Hord; lia).
      assert (Hk4 : Nat.ltb k 4 = true) by (now apply Nat.ltb_lt). rewrite Hk4.
      assert (Hput : put (side_index s) (l_cur l) nf = if side_left s then (nf, snd (l_cur l)) else (fst (l_cur l), nf)).
      { destruct Hsd01 as [(-> & _ & _)|(-> & _ & _)]; reflexivity. }
      set (wd' := if Nat.ltb 0 k then _ else _).
      assert (Hwd' : exists wdv, wd' = Some wdv /\
                (match wdv with
                 | None => has_interval (pre ++ [XT nf ni s k w g]) = false
                 | Some wg => has_interval (pre ++ [XT nf ni s k w g]) = true /\
                     forall j, (0 < j)%nat -> fst wg j = fst (ev_width j (erase (pre ++ [XT nf ni s k w g])) (mone, mone)) /\
                                              snd wg j = snd (ev_width j (erase (pre ++ [XT nf ni s k w g])) (mone, mone))
                 end)).
      { subst wd'. rewrite has_interval_app, erase_app. unfold has_interval at 2 4. cbn [existsb erase flat_map erase1 app].
        rewrite orb_false_r. unfold wd_rep in Hwd.
        destruct (Nat.ltb 0 k) eqn:E0.
        - apply Nat.ltb_lt in E0. eexists; split; [reflexivity|]. rewrite orb_true_r. split; [reflexivity|].
          intros j Hj. rewrite ev_width_app. cbn [ev_width]. unfold upd.
          destruct (l_wd l) as [wg|] eqn:Ewd.
          + destruct Hwd as [_ Hw]. cbn [fst snd]. rewrite (Nat.eqb_sym j k).
            destruct (Nat.eqb k j); [split; reflexivity|apply Hw, Hj].
          + cbn [fst snd]. rewrite (Nat.eqb_sym j k). destruct (Nat.eqb k j); [split; reflexivity|].
            rewrite (no_interval_width pre j (mone, mone) Hwd Hj). split; reflexivity.
        - apply Nat.ltb_ge in E0. assert (k = 0%nat) by lia. subst k. eexists; split; [reflexivity|]. rewrite orb_false_r.
          destruct (l_wd l) as [wg|] eqn:Ewd.
          + destruct Hwd as [Hh Hw]. split; [exact Hh|]. intros j Hj. rewrite ev_width_app. cbn [ev_width].
            destruct (Nat.eqb_spec 0 j); [lia|]. apply Hw, Hj.
          + exact Hwd. }
      destruct Hwd' as (wdv & -> & Hwdv). rewrite Hslots. cbn [negb]. split; [|reflexivity].
      unfold Rep. cbn [l_call l_cur l_nint l_nrel l_ne l_trans l_sides l_dm l_freq l_wd l_evf].
      rewrite count_T_app, count_X_app, erase_app, xsides_app, ev_trans_app, ev_cur_app, ev_freq_app, xevf_app, map_app.
      change (count_T [XT nf ni s k w g]) with 1%nat. change (count_X [XT nf ni s k w g]) with 0%nat.
      cbn [erase flat_map erase1 app ev_trans ev_cur xsides map xevf].
      rewrite Hput, Hcur.
      repeat split.
      + lia.
      + lia.
      + lia.
      + intros j. rewrite nth_snoc, count_T_trans. unfold upd. rewrite ?Hni. destruct (Nat.eqb j (count_T pre)); [reflexivity|apply Htr].
      + intros j. rewrite nth_snoc, xsides_length. unfold upd. rewrite ?Hni. destruct (Nat.eqb j (count_T pre)); [reflexivity|apply Hsd].
      + intros j. rewrite nth_snoc, map_length, count_T_trans. unfold upd. rewrite ?Hni. destruct (Nat.eqb j (count_T pre)); [reflexivity|apply Hdm].
      + intros j. cbn [ev_freq]. rewrite nth_snoc, ev_freq_length, erase_length, count_T_trans, Nat.add_0_l.
        rewrite ?Hni, ?Hne.
        destruct (Nat.ltb (count_T pre) 3) eqn:E3.
        * unfold upd. destruct (Nat.eqb j (count_T pre + count_X pre)); [|apply Hfr].
          destruct (side_left s); reflexivity.
        * destruct (Nat.eqb_spec j (count_T pre + count_X pre)) as [->|Hne']; [|apply Hfr].
          rewrite Hfr. rewrite nth_overflow; [reflexivity|]. rewrite ev_freq_length, erase_length. lia.
      + unfold wd_rep. cbn [l_wd]. exact Hwdv.
      + exact Hev.
    - (* add_transfer *)
      change (count_T [XX fl fr sl sr]) with 0%nat in HT. change (count_X [XX fl fr sl sr]) with 1%nat in HX.
      unfold add_transfer. rewrite Hc. cbn [okstep].
      destruct (Nat.eqb (fst (l_cur l)) sl && Nat.eqb (snd (l_cur l)) sr) eqn:Echk; cbn [negb]; [|reflexivity].
      rewrite Hnr. assert (Hr : Nat.ltb (count_X pre) (c_relax c) = true) by (apply Nat.ltb_lt; lia). rewrite Hr. cbn [negb].
      assert (Hslots : Nat.ltb (l_ne l) (nslots c) = true) by (apply Nat.ltb_lt; unfold nslots; rewrite Hne, Hord; lia).
      rewrite Hslots. cbn [negb]. split; [|reflexivity].
      unfold Rep. cbn [l_call l_cur l_nint l_nrel l_ne l_trans l_sides l_dm l_freq l_wd l_evf].
      rewrite count_T_app, count_X_app, erase_app, xsides_app, ev_trans_app, ev_cur_app, ev_freq_app, xevf_app, map_app.
      change (count_T [XX fl fr sl sr]) with 0%nat. change (count_X [XX fl fr sl sr]) with 1%nat.
      cbn [erase flat_map erase1 app ev_trans ev_cur xsides map xevf].
      rewrite !app_nil_r.
      repeat split; try lia; try assumption.
      + intros j. cbn [ev_freq]. rewrite nth_snoc, ev_freq_length, erase_length. unfold upd. rewrite Hne.
        destruct (Nat.eqb j (count_T pre + count_X pre)); [reflexivity|apply Hfr].
      + unfold wd_rep in *. cbn [l_wd]. rewrite has_interval_app, erase_app. unfold has_interval at 2 4. cbn [existsb erase flat_map erase1 app].
        rewrite orb_false_r. destruct (l_wd l) as [wg|]; [|exact Hwd]. destruct Hwd as [Hh Hw]. split; [exact Hh|].
        intros j Hj. rewrite ev_width_app. cbn [ev_width]. apply Hw, Hj.
    - (* set_evolution_factor *)
      split; [|reflexivity]. unfold Rep, set_evf. cbn [l_call l_cur l_nint l_nrel l_ne l_trans l_sides l_dm l_freq l_wd l_evf].
      rewrite count_T_app, count_X_app, erase_app, xsides_app, xevf_app.
      change (count_T [XE e]) with 0%nat. change (count_X [XE e]) with 0%nat.
      cbn [erase flat_map erase1 app xsides xevf].
      rewrite !app_nil_r, !Nat.add_0_r.
      repeat split; try assumption.
      unfold wd_rep in *. cbn [l_wd]. rewrite has_interval_app, erase_app. unfold has_interval at 2 4. cbn [existsb erase flat_map erase1 app].
      rewrite orb_false_r, app_nil_r. exact Hwd.
  Qed.

  Lemma run_ok rest : forall pre l, Rep pre l -> forallb op_ok rest = true ->
    (count_T (pre ++ rest) <= 4)%nat -> (count_X (pre ++ rest) <= c_relax c)%nat ->
    match xrun Sy l rest with
    | Some l' => Rep (pre ++ rest) l' /\ allok rest (l_cur l) = true
    | None => allok rest (l_cur l) = false
    end.
  Proof.
    induction rest as [|o rest IH]; intros pre l HR Hop HT HX; cbn [xrun allok].
    - rewrite app_nil_r. split; [exact HR|reflexivity].
    - cbn [forallb] in Hop. apply andb_true_iff in Hop. destruct Hop as [Ho Hrest].
      assert (HT1 : (count_T (pre ++ [o]) <= 4)%nat).
      { rewrite count_T_app in *. unfold count_T in HT at 2. cbn [filter] in HT. unfold count_T at 2. cbn [filter].
        destruct o; cbn [List.length] in *; lia. }
      assert (HX1 : (count_X (pre ++ [o]) <= c_relax c)%nat).
      { rewrite count_X_app in *. unfold count_X in HX at 2. cbn [filter] in HX. unfold count_X at 2. cbn [filter].
        destruct o; cbn [List.length] in *; lia. }
      pose proof (step_ok pre l o HR Ho HT1 HX1) as Hs.
      destruct (xstep Sy l o) as [l1|].
      + destruct Hs as [HR1 Hk]. rewrite Hk. cbn [andb].
        replace (pre ++ o :: rest) with ((pre ++ [o]) ++ rest) in * by (rewrite <- app_assoc; reflexivity).
        specialize (IH (pre ++ [o]) l1 HR1 Hrest HT HX).
        assert (Hcur1 : l_cur l1 = next o (l_cur l)).
        { destruct HR1 as (_ & Hc1 & _). destruct HR as (_ & Hc0 & _). rewrite Hc1, Hc0, erase_app, ev_cur_app.
          change (erase [o]) with (erase1 o ++ []). rewrite app_nil_r. apply ev_cur_next. }
        rewrite <- Hcur1. exact IH.
      + rewrite Hs. reflexivity.
  Qed.

  Lemma sgn_prod4 s0 s1 s2 s3 :
    (Z.eqb s0 1 || Z.eqb s0 (-1)) = true -> (Z.eqb s1 1 || Z.eqb s1 (-1)) = true ->
    (Z.eqb s2 1 || Z.eqb s2 (-1)) = true -> (Z.eqb s3 1 || Z.eqb s3 (-1)) = true ->
    z2r (s0 * s1 * s2 * s3)%Z = sgn1 s0 * (sgn1 s1 * (sgn1 s2 * (sgn1 s3 * 1))).
  Proof.
    intros H0 H1 H2 H3.
    destruct (side_pm _ H0) as [->| ->], (side_pm _ H1) as [->| ->], (side_pm _ H2) as [->| ->], (side_pm _ H3) as [->| ->];
      unfold sgn1, side_left, mone; cbn; ring.
  Qed.

  Lemma sides_ok (ops : list xop) : forallb op_ok ops = true -> Forall (fun s => (Z.eqb s 1 || Z.eqb s (-1)) = true) (xsides ops).
  Proof.
    unfold xsides. induction ops as [|[nf ni s k w g|fl fr sl sr|e] ops IH]; intros H; cbn [flat_map app forallb op_ok] in *;
      [constructor| |apply IH; exact H|apply IH; exact H].
    apply andb_true_iff in H. destruct H as [H1 H2]. apply andb_true_iff in H1. destruct H1 as [H1 _].
    constructor; [exact H1|apply IH, H2].
  Qed.

  (* the object run on a well-formed program: the closed form, or an exception *)
  Theorem xpath_is_mkpath (ops : list xop) : xwf c ops = true ->
    xpath Sy c ops = if ev_ok (erase ops) (c_sinit c, 0%nat) then Some (xleaf (mkpath Sy) c ops) else None.
  Proof.
    unfold xwf. intros H.
    repeat (apply andb_true_iff in H; let H' := fresh "W" in destruct H as [H H']).
    rename H into Wo, W into Wp, W0 into Wxx, W1 into Whi, W2 into Wop, W3 into Wx, W4 into Wt.
    apply Nat.eqb_eq in Wt, Wx. clear Wo.
    unfold xpath.
    pose proof (run_ok ops [] (lp_new c) Rep_new Wop) as Hr. cbn [app] in Hr.
    specialize (Hr ltac:(lia) ltac:(lia)).
    change (l_cur (lp_new c)) with (c_sinit c, 0%nat) in Hr. rewrite allok_split, Wxx, andb_true_r in Hr.
    destruct (xrun Sy (lp_new c) ops) as [l|]; [|now rewrite Hr].
    destruct Hr as [(Hc & Hcur & Hni & Hnr & Hne & Htr & Hsd & Hdm & Hfr & Hwd & Hev) Hok]. rewrite Hok.
    unfold lp_obs. rewrite Hc, Hord. cbn [Nat.eqb negb].
    unfold wd_rep in Hwd. destruct (l_wd l) as [wg|]; [|congruence]. destruct Hwd as [_ Hw].
    f_equal. unfold xleaf, mkpath.
    pose proof (count_T_trans ops) as Hlen. rewrite Wt in Hlen.
    assert (Htrl : map (l_trans l) (seq 0 4) = ev_trans (erase ops)).
    { apply (map_nth_seq _ (0%nat, 0%nat)); [now rewrite Hlen|exact Htr]. }
    assert (Hfrl : map (l_freq l) (seq 0 (nslots c)) = ev_freq (En Sy) (erase ops) (c_sinit c, 0%nat) 0).
    { apply (map_nth_seq _ 0); [|exact Hfr]. rewrite ev_freq_length, erase_length. unfold nslots. rewrite Hord. lia. }
    assert (Hsign : z2r (l_sides l 0 * l_sides l 1 * l_sides l 2 * l_sides l 3)%Z = ev_sign (erase ops)).
    { rewrite ev_sign_sides. pose proof (sides_ok ops Wop) as Hall. pose proof (xsides_length ops) as Hsl. rewrite Wt in Hsl.
      rewrite !Hsd. destruct (xsides ops) as [|s0 [|s1 [|s2 [|s3 [|s4 r]]]]]; cbn [List.length] in Hsl; try discriminate.
      cbn [nth fold_right]. inversion Hall as [|? ? A0 Hall1]; subst. inversion Hall1 as [|? ? A1 Hall2]; subst.
      inversion Hall2 as [|? ? A2 Hall3]; subst. inversion Hall3 as [|? ? A3 _]; subst.
      now apply sgn_prod4. }
    rewrite Htrl, Hfrl, Hsign, Hev.
    rewrite (proj1 (Hw 1%nat ltac:(lia))), (proj2 (Hw 1%nat ltac:(lia))), (proj1 (Hw 3%nat ltac:(lia))), (proj2 (Hw 3%nat ltac:(lia))).
    rewrite Htr. unfold nthv. rewrite !Hdm, Hok. reflexivity.
  Qed.
End Obj.
