From Coq Require Import ZArith List Bool Lia Arith.
From QV Require Import Base.Alg Base.Sums Base.Mat Base.Taylor Model.C17.
Import ListNotations.

Ltac eqb_cases :=
  repeat match goal with
         | |- context [Nat.eqb ?x ?y] => destruct (Nat.eqb_spec x y); subst
         end; cbn [andb negb]; try congruence.

Section Proofs.
  Context {R : StarRing}.
  Add Ring Rr : (rth R).
  Open Scope sr_scope.

  Lemma pyidx_lt n i a : pyidx n i = Some a -> (a < n)%nat.
  Proof.
    unfold pyidx. destruct ((0 <=? i) && (i <? Z.of_nat n))%Z eqn:E1.
    - intros [= <-]. apply andb_prop in E1. lia.
    - destruct ((- Z.of_nat n <=? i) && (i <? 0))%Z eqn:E2; [|discriminate].
      intros [= <-]. apply andb_prop in E2. lia.
  Qed.

  Lemma upd_same (A : @mat R) a b v : upd A a b v a b = v.
  Proof. unfold upd. now rewrite !Nat.eqb_refl. Qed.

  Lemma upd_other (A : @mat R) a b v i j : (i <> a \/ j <> b) -> upd A a b v i j = A i j.
  Proof.
    unfold upd. intros H. destruct (Nat.eqb_spec i a); destruct (Nat.eqb_spec j b); cbn [andb]; try reflexivity.
    destruct H; contradiction.
  Qed.

  (* what a successful assignment does, entry by entry *)
  Lemma set_rate_spec n (A A' : @mat R) N M v a b :
    set_rate n A (N, M) v = Some A' -> pyidx n N = Some a -> pyidx n M = Some b ->
    forall i j, A' i j =
      if Nat.eqb a b then A i j
      else if Nat.eqb i a && Nat.eqb j b then v
      else if Nat.eqb i b && Nat.eqb j b then A b b + A a b - v
      else A i j.
  Proof.
    unfold set_rate. destruct (N =? M)%Z; [discriminate|]. intros H Ha Hb. rewrite Ha, Hb in H.
    injection H as <-. intros i j. unfold upd.
    repeat match goal with
           | |- context [Nat.eqb ?x ?y] => destruct (Nat.eqb_spec x y); subst
           end; cbn [andb]; try congruence; try ring.
  Qed.

  Lemma set_rate_Some_idx n (A A' : @mat R) N M v :
    set_rate n A (N, M) v = Some A' -> exists a b, pyidx n N = Some a /\ pyidx n M = Some b /\ N <> M.
  Proof.
    unfold set_rate. destruct (Z.eqb_spec N M) as [|Hne]; [discriminate|].
    destruct (pyidx n N) as [a|]; [|discriminate]. destruct (pyidx n M) as [b|]; [|discriminate].
    intros _. now exists a, b.
  Qed.

  (* column sums never change *)
  Lemma set_rate_colsum n (A A' : @mat R) pos v j :
    set_rate n A pos v = Some A' -> colsum n A' j = colsum n A j.
  Proof.
    destruct pos as [N M]. intros H.
    destruct (set_rate_Some_idx n A A' N M v H) as [a [b [Ha [Hb _]]]].
    pose proof (set_rate_spec n A A' N M v a b H Ha Hb) as Hs.
    pose proof (pyidx_lt n N a Ha) as Han. pose proof (pyidx_lt n M b Hb) as Hbn.
    unfold colsum.
    destruct (Nat.eqb_spec a b) as [Hab|Hab].
    - apply sum_ext. intros i _. rewrite Hs. eqb_cases; reflexivity.
    - destruct (Nat.eqb_spec j b) as [->|Hjb].
      + rewrite (sum_ext n _ (fun i => A i b + (delta a i * (v - A a b) + delta b i * (A a b - v)))).
        * rewrite sum_add, sum_add.
          rewrite (sum_delta_l n a (fun _ => v - A a b)) by exact Han.
          rewrite (sum_delta_l n b (fun _ => A a b - v)) by exact Hbn. ring.
        * intros i Hi. rewrite Hs. unfold delta. eqb_cases; ring.
      + apply sum_ext. intros i _. rewrite Hs. eqb_cases; reflexivity.
  Qed.

  Lemma apply_op_colsum n (A : @mat R) op j : (j < n)%nat -> colsum n (apply_op n A op) j = colsum n A j.
  Proof.
    intros Hj. unfold apply_op. destruct (set_rate n A (fst op) (snd op)) as [A'|] eqn:E; [|reflexivity].
    rewrite <- (set_rate_colsum n A A' (fst op) (snd op) j E).
    unfold colsum. apply sum_ext. intros i Hi. now apply tab2_spec.
  Qed.

  Lemma history_colsum n (A : @mat R) ops j : (j < n)%nat -> colsum n (history n A ops) j = colsum n A j.
  Proof.
    intros Hj. unfold history. revert A. induction ops as [|op rest IH]; intros A; cbn [run_ops fst]; [reflexivity|].
    specialize (IH (apply_op n A op)). destruct (run_ops n (apply_op n A op) rest) as [A' fl].
    cbn [fst] in *. rewrite IH. now apply apply_op_colsum.
  Qed.

  (* refused operations leave the matrix as it is *)
  Lemma refused_unchanged n (A : @mat R) op : raised n A op = true -> apply_op n A op = A.
  Proof. unfold raised, apply_op. destruct (set_rate n A (fst op) (snd op)); [discriminate|reflexivity]. Qed.

  Lemma diagonal_refused n (A : @mat R) N v : set_rate n A (N, N) v = None.
  Proof. unfold set_rate. now rewrite Z.eqb_refl. Qed.

  Lemma out_of_range_refused n (A : @mat R) N M v : pyidx n N = None \/ pyidx n M = None -> set_rate n A (N, M) v = None.
  Proof.
    unfold set_rate. destruct (N =? M)%Z; [reflexivity|]. intros [-> | H]; [reflexivity|].
    rewrite H. now destruct (pyidx n N).
  Qed.

  (* every off-diagonal element holds the value assigned to it last (or its initial value) *)
  Definition hits n (op : Z * Z * R) (a b : nat) : bool :=
    match pyidx n (fst (fst op)), pyidx n (snd (fst op)) with
    | Some a', Some b' => negb (fst (fst op) =? snd (fst op))%Z && Nat.eqb a' a && Nat.eqb b' b
    | _, _ => false
    end.
  Fixpoint last_assigned n (init : R) (ops : list (Z * Z * R)) (a b : nat) : R :=
    match ops with
    | [] => init
    | op :: rest => last_assigned n (if hits n op a b then snd op else init) rest a b
    end.

  Lemma apply_op_offdiag n (A : @mat R) op a b : (a < n)%nat -> (b < n)%nat -> a <> b ->
    apply_op n A op a b = if hits n op a b then snd op else A a b.
  Proof.
    intros Ha Hb Hab. unfold apply_op, hits. destruct op as [[N M] v]. cbn [fst snd].
    destruct (set_rate n A (N, M) v) as [A'|] eqn:E.
    - destruct (set_rate_Some_idx n A A' N M v E) as [a' [b' [Ha' [Hb' Hne]]]].
      rewrite Ha', Hb'. rewrite tab2_spec by assumption.
      rewrite (set_rate_spec n A A' N M v a' b' E Ha' Hb').
      destruct (Z.eqb_spec N M); [contradiction|]. cbn [negb andb].
      eqb_cases; reflexivity.
    - unfold set_rate in E. destruct (Z.eqb_spec N M).
      + destruct (pyidx n N); destruct (pyidx n M); reflexivity.
      + destruct (pyidx n N); destruct (pyidx n M); try discriminate; reflexivity.
  Qed.

  Lemma history_offdiag n (A : @mat R) ops a b : (a < n)%nat -> (b < n)%nat -> a <> b ->
    history n A ops a b = last_assigned n (A a b) ops a b.
  Proof.
    intros Ha Hb Hab. unfold history. revert A. induction ops as [|op rest IH]; intros A; cbn [run_ops fst last_assigned]; [reflexivity|].
    specialize (IH (apply_op n A op)). destruct (run_ops n (apply_op n A op) rest) as [A' fl]. cbn [fst] in *.
    rewrite IH. now rewrite apply_op_offdiag.
  Qed.

  (* ---------- propagation ---------- *)
  Definition zero_colsums n (K : @mat R) : Prop := forall j, (j < n)%nat -> colsum n K j = 0.

  Lemma sum_tab n (f : @vec R) : sum n (tab n f) = sum n f.
  Proof. apply sum_ext. intros i Hi. now apply tab_spec. Qed.

  Lemma pop_sum_conserved n (K : @mat R) prefs nsteps p0 : zero_colsums n K ->
    Forall (fun p => sum n p = sum n p0) (pop_traj n K prefs nsteps p0).
  Proof.
    intros HK. unfold pop_traj.
    apply (traj_functional R vec (padd n) (pscale n) (pG n K) R (sum n) (radd R) 0).
    - intros x; ring.
    - intros x y. unfold padd. rewrite sum_tab. apply sum_add.
    - intros c x. unfold pscale, pG. rewrite sum_tab.
      rewrite (sum_ext n _ (fun i => c * mv n K x i)) by (intros i Hi; now rewrite tab_spec).
      rewrite sum_mul_l, sum_mv. rewrite sum_0_ext; [ring|].
      intros j Hj. rewrite (HK j Hj). ring.
  Qed.

  (* ---------- propagation matrix on a sub-axis ---------- *)
  Lemma mpow_apply_add n i j (E U : @mat R) :
    meq n (mpow_apply n (i + j) E U) (mpow_apply n i E (mpow_apply n j E U)).
  Proof.
    induction i as [|i IH]; cbn [Nat.add mpow_apply]; [intros a b _ _; reflexivity|].
    intros a b Ha Hb. rewrite !tab2_spec by assumption. apply mmul_ext; [intros ? ? _ _; reflexivity|exact IH|exact Ha|exact Hb].
  Qed.

  Lemma prop_matrix_first n (E : @mat R) : meq n (prop_matrix n E 0 0) mid.
  Proof. intros a b _ _. reflexivity. Qed.

  Lemma prop_matrix_shift n (E : @mat R) Ns i : meq n (prop_matrix n E Ns i) (prop_matrix n E 0 (i + Ns)).
  Proof. unfold prop_matrix. intros a b Ha Hb. symmetry. now apply mpow_apply_add. Qed.

  Lemma prop_matrix_step n (E : @mat R) Ns i :
    meq n (prop_matrix n E Ns (S i)) (mmul n E (prop_matrix n E Ns i)).
  Proof. unfold prop_matrix. cbn [mpow_apply]. intros a b Ha Hb. now rewrite tab2_spec. Qed.

  (* ---------- non-negativity for admissible steps ---------- *)
  (* prefactors dt/1 .. dt/4 without division: c1 = dt, 2 c2 = c1, 3 c3 = c1, 4 c4 = c1 *)
  Section Nonneg.
    Variable nonneg : R -> Prop.
    Hypothesis nn_0 : nonneg 0.
    Hypothesis nn_add : forall x y, nonneg x -> nonneg y -> nonneg (x + y).
    Hypothesis nn_mul : forall x y, nonneg x -> nonneg y -> nonneg (x * y).
    Hypothesis nn_half : forall x, nonneg (x + x) -> nonneg x.
    Hypothesis nn_third : forall x, nonneg (x + x + x) -> nonneg x.

    Variable n : nat.
    Variable K : @mat R.
    Variables c1 c2 c3 c4 : R.
    Hypothesis H2 : c2 + c2 = c1.
    Hypothesis H3 : c3 + c3 + c3 = c1.
    Hypothesis H4 : c4 + c4 + c4 + c4 = c1.
    (* admissible step: the explicit Euler matrix 1 + dt K has no negative entry, i.e. off-diagonal
       rates are non-negative and dt |K_ii| <= 1 *)
    Hypothesis Hadm : forall i j, (i < n)%nat -> (j < n)%nat -> nonneg (delta i j + c1 * K i j).

    Definition vnn (v : @vec R) : Prop := forall i, (i < n)%nat -> nonneg (v i).
    Definition Y (v : @vec R) : vec := fun i => v i + c1 * mv n K v i.

    Lemma sum_nonneg m f : (forall i, (i < m)%nat -> nonneg (f i)) -> nonneg (sum m f).
    Proof. induction m as [|m IH]; intros H; cbn [sum]; [exact nn_0|]. apply nn_add; [apply IH; intros; apply H; lia|apply H; lia]. Qed.

    Lemma Y_nonneg v : vnn v -> vnn (Y v).
    Proof.
      intros Hv i Hi. unfold Y, mv.
      replace (v i + c1 * sum n (fun j => K i j * v j)) with (sum n (fun j => (delta i j + c1 * K i j) * v j)).
      - apply sum_nonneg. intros j Hj. apply nn_mul; auto.
      - rewrite (sum_ext n _ (fun j => delta i j * v j + c1 * (K i j * v j))) by (intros; ring).
        rewrite sum_add, sum_mul_l, (sum_delta_l n i v Hi). reflexivity.
    Qed.

    Lemma mv_lin (u w : @vec R) a b i :
      mv n K (fun j => a * u j + b * w j) i = a * mv n K u i + b * mv n K w i.
    Proof.
      unfold mv. rewrite <- !sum_mul_l, <- sum_add. apply sum_ext. intros; ring.
    Qed.

    Let m1 (p : @vec R) := mv n K p.
    Let m2 (p : @vec R) := mv n K (m1 p).
    Let m3 (p : @vec R) := mv n K (m2 p).
    Let m4 (p : @vec R) := mv n K (m3 p).

    Lemma scaled_step (u w : @vec R) a c : veq n u (fun i => a * w i) ->
      veq n (pscale n c (pG n K u)) (fun i => c * a * mv n K w i).
    Proof.
      intros Hu i Hi. unfold pscale, pG. rewrite tab_spec by exact Hi. rewrite tab_spec by exact Hi.
      rewrite (mv_ext n K K u (fun j => a * w j)) by (auto; intros ? ? _ _; reflexivity).
      unfold mv. rewrite <- !sum_mul_l. apply sum_ext. intros; ring.
    Qed.

    (* the loop with L = 4 computes the degree-4 Taylor polynomial *)
    Lemma tstep4_poly p : veq n (tstep (padd n) (pscale n) (pG n K) [c1; c2; c3; c4] p)
      (fun i => p i + c1 * m1 p i + c2 * c1 * m2 p i + c3 * (c2 * c1) * m3 p i + c4 * (c3 * (c2 * c1)) * m4 p i).
    Proof.
      intros i Hi. unfold tstep. cbn [tloop snd].
      assert (veq n p (fun j => 1 * p j)) as E0 by (intros j _; ring).
      pose proof (scaled_step p p 1 c1 E0) as E1.
      assert (veq n (pscale n c1 (pG n K p)) (fun j => c1 * m1 p j)) as E1' by (intros j Hj; rewrite E1 by exact Hj; unfold m1; ring).
      pose proof (scaled_step _ (m1 p) c1 c2 E1') as E2.
      pose proof (scaled_step _ (m2 p) (c2 * c1) c3 E2) as E3.
      pose proof (scaled_step _ (m3 p) (c3 * (c2 * c1)) c4 E3) as E4.
      unfold padd. rewrite tab_spec by exact Hi. rewrite tab_spec by exact Hi. rewrite tab_spec by exact Hi.
      rewrite tab_spec by exact Hi.
      rewrite (E1' i Hi), (E2 i Hi), (E3 i Hi), (E4 i Hi). unfold m4, m3, m2, m1. ring.
    Qed.

    (* 24 T4(dt K) = 9 + 8 Y + 6 Y^2 + Y^4  with  Y = 1 + dt K : a non-negative combination *)
    Definition comb (p : @vec R) (a0 a1 a2 a3 a4 : R) : vec :=
      fun k => a0 * p k + a1 * m1 p k + a2 * m2 p k + a3 * m3 p k + a4 * m4 p k.

    Lemma Y_comb p (v : @vec R) a0 a1 a2 a3 : (forall k, v k = comb p a0 a1 a2 a3 0 k) ->
      forall k, Y v k = comb p a0 (a1 + c1 * a0) (a2 + c1 * a1) (a3 + c1 * a2) (c1 * a3) k.
    Proof.
      intros Hv k. unfold Y. rewrite Hv.
      assert (mv n K v k = a0 * m1 p k + a1 * m2 p k + a2 * m3 p k + a3 * m4 p k) as ->.
      { unfold m4, m3, m2, m1, mv.
        rewrite <- !sum_mul_l, <- !sum_add. apply sum_ext. intros j _. rewrite Hv. unfold comb, m4, m3, m2, m1, mv. ring. }
      unfold comb. ring.
    Qed.

    Definition x24 (x : R) : R := let x2 := x + x in let x4 := x2 + x2 in let x8 := x4 + x4 in x8 + x8 + x8.
    Definition x9 (x : R) : R := let x2 := x + x in let x4 := x2 + x2 in x4 + x4 + x.
    Definition x8 (x : R) : R := let x2 := x + x in let x4 := x2 + x2 in x4 + x4.
    Definition x6 (x : R) : R := let x2 := x + x in x2 + x2 + x2.

    Lemma taylor4_as_euler_powers p i :
      x24 (p i + c1 * m1 p i + c2 * c1 * m2 p i + c3 * (c2 * c1) * m3 p i + c4 * (c3 * (c2 * c1)) * m4 p i)
      = x9 (p i) + x8 (Y p i) + x6 (Y (Y p) i) + Y (Y (Y (Y p))) i.
    Proof.
      assert (forall k, p k = comb p 1 0 0 0 0 k) as E0 by (intros; unfold comb; ring).
      pose proof (Y_comb p p _ _ _ _ E0) as E1.
      assert (forall k, Y p k = comb p 1 c1 0 0 0 k) as E1' by (intros; rewrite E1; unfold comb; ring).
      pose proof (Y_comb p _ _ _ _ _ E1') as E2.
      assert (forall k, Y (Y p) k = comb p 1 (c1 + c1) (c1 * c1) 0 0 k) as E2' by (intros; rewrite E2; unfold comb; ring).
      pose proof (Y_comb p _ _ _ _ _ E2') as E3.
      assert (forall k, Y (Y (Y p)) k = comb p 1 (c1 + c1 + c1) (c1 * c1 + c1 * c1 + c1 * c1) (c1 * c1 * c1) 0 k) as E3'
        by (intros; rewrite E3; unfold comb; ring).
      pose proof (Y_comb p _ _ _ _ _ E3') as E4.
      rewrite E4, E2', E1'. unfold comb, x24, x9, x8, x6. cbv zeta.
      ring [H2 H3 H4].
    Qed.

    Lemma tstep4_nonneg p : vnn p -> vnn (tstep (padd n) (pscale n) (pG n K) [c1; c2; c3; c4] p).
    Proof.
      intros Hp i Hi. rewrite (tstep4_poly p i Hi).
      assert (nonneg (x24 (p i + c1 * m1 p i + c2 * c1 * m2 p i + c3 * (c2 * c1) * m3 p i + c4 * (c3 * (c2 * c1)) * m4 p i))) as H24.
      { rewrite taylor4_as_euler_powers.
        pose proof (Y_nonneg p Hp) as Y1. pose proof (Y_nonneg _ Y1) as Y2.
        pose proof (Y_nonneg _ Y2) as Y3. pose proof (Y_nonneg _ Y3) as Y4.
        specialize (Hp i Hi). specialize (Y1 i Hi). specialize (Y2 i Hi). specialize (Y4 i Hi).
        clear Y3. revert Hp Y1 Y2 Y4.
        generalize (p i) (Y p i) (Y (Y p) i) (Y (Y (Y (Y p))) i). intros y0 y1 y2 y4 ? ? ? ?.
        unfold x9, x8, x6; cbv zeta. repeat apply nn_add; assumption. }
      unfold x24 in H24. cbv zeta in H24.
      apply nn_half, nn_half, nn_half, nn_third. exact H24.
    Qed.

    Lemma pop_nonneg nsteps p0 : vnn p0 -> Forall vnn (pop_traj n K [c1; c2; c3; c4] nsteps p0).
    Proof. intros H0. unfold pop_traj. apply traj_step_closed; [exact tstep4_nonneg|exact H0]. Qed.
  End Nonneg.
End Proofs.
