(* Statement skeletons of quantarhei/core/datasaveable.py (_data_with_axis, _extract_data_with_axis) and
   quantarhei/core/saveable.py (savedir) with the arithmetic content as parameters, and the lemmas that turn
   "the content is the expected one" into equality with the model of Model/C18.v.
   harness/translate_c18.py instantiates the parameters from the current source on every run.

   Arrays are Model.C18.arr (shape (), (N,) or (N,M) with the rows as lists).  The numpy operations the two
   functions use are given their meaning here: numpy.zeros, `D[:, k] = v`, `D[:, lo:] = X`, `D[:, k]`, `D[:, k:]`,
   Python indexing of a shape list (negative indices count from the end).  An assignment whose shapes do not
   agree exactly is an error (numpy's broadcasting of unequal shapes is not modelled); values stored into an
   array of dtype [dt] pass through [cast dt]. *)
From Coq Require Import String.
From Coq Require Import List Bool Arith ZArith Lia.
From QV Require Import Model.C18 Proofs.C18.
Import ListNotations.
Local Open Scope nat_scope.

(* Python index into a sequence of length len *)
Definition pyix (len : nat) (i : Z) : option nat :=
  if ((0 <=? i) && (i <? Z.of_nat len))%Z then Some (Z.to_nat i)
  else if ((- Z.of_nat len <=? i) && (i <? 0))%Z then Some (Z.to_nat (i + Z.of_nat len))
  else None.

Lemma pyix_nat (len k : nat) : k < len -> pyix len (Z.of_nat k) = Some k.
Proof.
  intro H. unfold pyix. replace (0 <=? Z.of_nat k)%Z with true by (symmetry; apply Z.leb_le; lia).
  replace (Z.of_nat k <? Z.of_nat len)%Z with true by (symmetry; apply Z.ltb_lt; lia). cbn [andb]. now rewrite Nat2Z.id.
Qed.

Lemma pyix_z (len k : nat) (z : Z) : z = Z.of_nat k -> k < len -> pyix len z = Some k.
Proof. intros -> H. now apply pyix_nat. Qed.

Section NP.
  Variable A : Type.
  Variable zero : A.
  Variable cast : dty -> A -> A.
  Notation arr := (arr A).

  Definition shape (d : arr) : list Z :=
    match d with A0 _ => [] | A1 l => [Z.of_nat (length l)] | A2 w rows => [Z.of_nat (length rows); Z.of_nat w] end.

  Fixpoint add_at (l : list Z) (k : nat) (x : Z) : list Z :=
    match l with [] => [] | y :: l' => match k with O => (y + x)%Z :: l' | S k' => y :: add_at l' k' x end end.
  (* shpl[i] += inc *)
  Definition list_add_at (l : list Z) (i inc : Z) : option (list Z) :=
    match pyix (length l) i with Some k => Some (add_at l k inc) | None => None end.

  Definition zeros2 (n w : nat) : list (list A) := repeat (repeat zero w) n.
  Definition set_nth (k : nat) (r : list A) (x : A) : list A := firstn k r ++ x :: skipn (S k) r.
  (* D[:, k] = v   for D of width w *)
  Definition set_col (k : Z) (w : nat) (D : list (list A)) (v : list A) : option (list (list A)) :=
    match pyix w k with
    | Some j => if Nat.eqb (length v) (length D) then Some (zip_with (set_nth j) D v) else None
    | None => None
    end.
  (* D[:, lo:] = X   for D of width w, X with declared width w0 *)
  Definition set_from (lo : Z) (w : nat) (D : list (list A)) (w0 : nat) (X : list (list A)) : option (list (list A)) :=
    if ((0 <=? lo) && (lo <=? Z.of_nat w))%Z then
      if Nat.eqb (length X) (length D) && Nat.eqb w0 (w - Z.to_nat lo)
      then Some (zip_with (fun dr xr => firstn (Z.to_nat lo) dr ++ xr) D X) else None
    else None.

  Definition as_vector (d : arr) : option (list A) := match d with A1 l => Some l | _ => None end.

  (* _data_with_axis *)
  Definition pack_skel (dt2 dt1 : dty) (c2 i inc lo axc2 c1 app dc1 axc1 : Z) (ax : list A) (d : arr) : option arr :=
    let shpl := shape d in
    let nd := Z.of_nat (length shpl) in
    if (nd =? c2)%Z then
      match list_add_at shpl i inc with
      | Some [n; w] =>
          let w := Z.to_nat w in
          let D0 := zeros2 (Z.to_nat n) w in
          match d with
          | A2 w0 rows =>
              match set_from lo w D0 w0 (map (map (cast dt2)) rows) with
              | Some D1 => match set_col axc2 w D1 (map (cast dt2) ax) with Some D2 => Some (A2 w D2) | None => None end
              | None => None
              end
          | _ => None
          end
      | _ => None
      end
    else if (nd =? c1)%Z then
      match shpl ++ [app] with
      | [n; w] =>
          let w := Z.to_nat w in
          let D0 := zeros2 (Z.to_nat n) w in
          match as_vector d with
          | Some l =>
              match set_col dc1 w D0 (map (cast dt1) l) with
              | Some D1 => match set_col axc1 w D1 (map (cast dt1) ax) with Some D2 => Some (A2 w D2) | None => None end
              | None => None
              end
          | None => None
          end
      | _ => None
      end
    else None.

  Lemma zip_set0_cons : forall (ax : list A) (rows : list (list A)),
    zip_with (set_nth 0) (map (fun xr => zero :: xr) rows) ax = zip_with cons ax rows.
  Proof.
    induction ax as [|a ax IH]; intros [|r rows]; cbn; try reflexivity. now rewrite IH.
  Qed.
  Lemma zip_zeros_rows : forall (w : nat) (rows : list (list A)),
    zip_with (fun dr xr => firstn 1 dr ++ xr) (zeros2 (length rows) (S w)) rows = map (fun xr => zero :: xr) rows.
  Proof.
    intros w rows. unfold zeros2. change (repeat zero (S w)) with (zero :: repeat zero w). generalize (repeat zero w) as r0. intro r0.
    induction rows as [|r rows IH]; cbn [length repeat zip_with map]; [reflexivity|]. rewrite IH. reflexivity.
  Qed.
  Lemma zip_zeros_col1 : forall (l : list A),
    zip_with (set_nth 1) (zeros2 (length l) 2) l = map (fun x => [zero; x]) l.
  Proof.
    intros l. unfold zeros2. change (repeat zero 2) with [zero; zero].
    induction l as [|x l IH]; cbn [length repeat zip_with map]; [reflexivity|]. rewrite IH. reflexivity.
  Qed.
  Lemma zip_set0_pair : forall (ax l : list A),
    zip_with (set_nth 0) (map (fun x => [zero; x]) l) ax = zip_with (fun a x => [a; x]) ax l.
  Proof. induction ax as [|a ax IH]; intros [|x l]; cbn; try reflexivity. now rewrite IH. Qed.
  Lemma zeros2_length n w : length (zeros2 n w) = n.
  Proof. apply repeat_length. Qed.

  Lemma set_col_zeros_1 k (l : list A) : pyix 2 k = Some 1 -> set_col k 2 (zeros2 (length l) 2) l = Some (map (fun x => [zero; x]) l).
  Proof. intro Hk. unfold set_col. rewrite Hk. rewrite zeros2_length, Nat.eqb_refl. now rewrite zip_zeros_col1. Qed.
  Lemma set_col_0_pair k (ax l : list A) : pyix 2 k = Some 0 ->
    set_col k 2 (map (fun x => [zero; x]) l) ax
    = if Nat.eqb (length ax) (length l) then Some (zip_with (fun a x => [a; x]) ax l) else None.
  Proof. intro Hk. unfold set_col. rewrite Hk. rewrite map_length. now rewrite zip_set0_pair. Qed.
  Lemma set_from_zeros_1 w (rows : list (list A)) :
    set_from 1 (S w) (zeros2 (length rows) (S w)) w rows = Some (map (fun xr => zero :: xr) rows).
  Proof.
    unfold set_from. change (0 <=? 1)%Z with true. replace (1 <=? Z.of_nat (S w))%Z with true by (symmetry; apply Z.leb_le; lia).
    cbn [andb]. rewrite zeros2_length, Nat.eqb_refl. change (Z.to_nat 1) with 1.
    replace (S w - 1) with w by lia. rewrite Nat.eqb_refl. cbn [andb]. now rewrite zip_zeros_rows.
  Qed.
  Lemma set_col_0_cons w (ax : list A) (rows : list (list A)) :
    set_col 0 (S w) (map (fun xr => zero :: xr) rows) ax
    = if Nat.eqb (length ax) (length rows) then Some (zip_with cons ax rows) else None.
  Proof. unfold set_col. rewrite (pyix_z (S w) 0 0%Z) by (reflexivity || lia). rewrite map_length. now rewrite zip_set0_cons. Qed.

  (* indices into the two-element shape list and into the two columns of packed one-index data may be written from either
     end (1 or -1, 0 or -2): the hypotheses say what they resolve to *)
  Lemma pack_skel_is_model dt dt2 dt1 c2 i inc lo axc2 c1 app dc1 axc1 :
    dt2 = dt -> dt1 = dt -> c2 = 2%Z -> pyix 2 i = Some 1 -> inc = 1%Z -> lo = 1%Z -> axc2 = 0%Z -> c1 = 1%Z -> app = 2%Z ->
    pyix 2 dc1 = Some 1 -> pyix 2 axc1 = Some 0 ->
    forall ax d, pack_skel dt2 dt1 c2 i inc lo axc2 c1 app dc1 axc1 ax d = pack_t A cast dt ax d.
  Proof.
    intros -> -> -> Hi -> -> -> -> -> Hdc1 Haxc1 ax d. unfold pack_skel, pack_t.
    destruct d as [x|l|w rows]; cbn [shape length amap pack].
    - reflexivity.
    - change (Z.of_nat 1 =? 2)%Z with false. change (Z.of_nat 1 =? 1)%Z with true. cbn iota. cbn [app as_vector].
      change (Z.to_nat 2) with 2. rewrite Nat2Z.id.
      rewrite <- (map_length (cast dt) l). rewrite (set_col_zeros_1 _ _ Hdc1), (set_col_0_pair _ _ _ Haxc1), !map_length.
      destruct (Nat.eqb (length ax) (length l)); reflexivity.
    - change (Z.of_nat 2 =? 2)%Z with true. cbn iota. unfold list_add_at. cbn [length].
      rewrite Hi. cbn [add_at].
      rewrite Nat2Z.id. replace (Z.to_nat (Z.of_nat w + 1)) with (S w) by lia.
      rewrite <- (map_length (map (cast dt)) rows). rewrite set_from_zeros_1, set_col_0_cons, !map_length.
      destruct (Nat.eqb (length ax) (length rows)); reflexivity.
  Qed.

  (* ---- _extract_data_with_axis (axis given) ---- *)
  Definition nthZ (l : list Z) (i : Z) : option Z := match pyix (length l) i with Some k => nth_error l k | None => None end.
  (* D[:, k] *)
  Definition col (k : Z) (w : nat) (rows : list (list A)) : option (list A) :=
    match pyix w k with Some j => Some (map (fun r => nth j r zero) rows) | None => None end.
  (* D[:, k:]  (a Python slice never fails: the start is clipped) *)
  Definition slice_start (w : nat) (k : Z) : nat :=
    if (0 <=? k)%Z then Nat.min (Z.to_nat k) w else Z.to_nat (Z.max 0 (k + Z.of_nat w)).
  Definition cols_from (k : Z) (w : nat) (rows : list (list A)) : nat * list (list A) :=
    let j := slice_start w k in (w - j, map (skipn j) rows).

  Definition extract_skel (nd i1 w2 a1 d1 i2 w3 a2 d2 : Z) (d : arr) : option (list A * arr) :=
    let shp := shape d in
    if (Z.of_nat (length shp) =? nd)%Z then
      match nthZ shp i1 with
      | None => None
      | Some s1 =>
          if (s1 =? w2)%Z then
            match d with
            | A2 w rows => match col a1 w rows, col d1 w rows with Some a, Some x => Some (a, A1 x) | _, _ => None end
            | _ => None
            end
          else match nthZ shp i2 with
               | None => None
               | Some s2 =>
                   if (s2 >? w3)%Z then
                     match d with
                     | A2 w rows => match col a2 w rows with
                                    | Some a => let '(w', r') := cols_from d2 w rows in Some (a, A2 w' r')
                                    | None => None
                                    end
                     | _ => None
                     end
                   else None
               end
      end
    else None.

  Lemma heads_col0 w rows : 1 <= w -> Forall (fun r => length r = w) rows -> map (fun r => nth 0 r zero) rows = heads A rows.
  Proof.
    intros Hw H. unfold heads. induction H as [|r rows Hr _ IH]; cbn; [reflexivity|].
    rewrite IH. destruct r as [|x r]; [cbn in Hr; lia | reflexivity].
  Qed.
  Lemma seconds_col1 rows : Forall (fun r => length r = 2) rows -> map (fun r => nth 1 r zero) rows = concat (map (skipn 1) rows).
  Proof.
    intros H. induction H as [|r rows Hr _ IH]; cbn; [reflexivity|].
    rewrite IH. destruct r as [|x [|y [|z r]]]; cbn in Hr; try lia. reflexivity.
  Qed.

  Lemma extract_skel_is_model nd i1 w2 a1 d1 i2 w3 a2 d2 :
    nd = 2%Z -> pyix 2 i1 = Some 1 -> w2 = 2%Z -> pyix 2 a1 = Some 0 -> pyix 2 d1 = Some 1 -> pyix 2 i2 = Some 1 -> w3 = 2%Z ->
    a2 = 0%Z -> d2 = 1%Z ->
    forall d, wf A d -> extract_skel nd i1 w2 a1 d1 i2 w3 a2 d2 d = extract A d.
  Proof.
    intros -> Hi1 -> Ha1 Hd1 Hi2 -> -> -> d Hwf. unfold extract_skel.
    destruct d as [x|l|w rows]; cbn [shape length]; try reflexivity.
    change (Z.of_nat 2 =? 2)%Z with true. cbn iota. unfold nthZ. cbn [length].
    rewrite Hi1, Hi2. cbn [nth_error].
    cbn in Hwf.
    destruct w as [|[|[|w]]].
    - reflexivity.
    - reflexivity.
    - change (Z.of_nat 2 =? 2)%Z with true. cbn iota. unfold col.
      rewrite Ha1, Hd1.
      rewrite (heads_col0 2 rows) by (try lia; exact Hwf). rewrite seconds_col1 by exact Hwf. reflexivity.
    - replace (Z.of_nat (S (S (S w))) =? 2)%Z with false by (symmetry; apply Z.eqb_neq; lia).
      replace (Z.of_nat (S (S (S w))) >? 2)%Z with true by (symmetry; apply Z.gtb_lt; lia).
      unfold col. rewrite (pyix_z (S (S (S w))) 0 0%Z) by (reflexivity || lia).
      unfold cols_from, slice_start. change (0 <=? 1)%Z with true. cbn iota. change (Z.to_nat 1) with 1.
      replace (Nat.min 1 (S (S (S w)))) with 1 by lia. replace (S (S (S w)) - 1) with (S (S w)) by lia.
      rewrite (heads_col0 (S (S (S w))) rows) by (try lia; exact Hwf). reflexivity.
  Qed.
End NP.

(* ---- savedir: the automatic tag ---- *)
Definition is_int (t : tagv) : bool := match t with TInt _ => true | TStr _ => false end.
(* tags of the model are integers or strings; Python's bool (a subclass of int) is not among them *)
Definition is_bool (t : tagv) : bool := false.

Section DirSkel.
  Variable O : Type.
  Fixpoint ints_of (l : list tagv) : option (list Z) :=
    match l with
    | [] => Some []
    | TInt z :: l' => match ints_of l' with Some zs => Some (z :: zs) | None => None end
    | TStr _ :: _ => None
    end.
  (* itags = [tg for tg in keys if keep tg]; last = max(itags) if len(itags) > bound else last0; tag = nxt last
     (max of strings / of a mixture, or a string + integer: TypeError; max of nothing: ValueError -> None) *)
  Definition auto_tag_skel (keep : tagv -> bool) (bound last0 : Z) (nxt : Z -> Z) (t : table O) : option tagv :=
    let itags := filter keep (map fst t) in
    if (Z.of_nat (length itags) >? bound)%Z then
      match ints_of itags with
      | Some (z :: zs) => Some (TInt (nxt (fold_left Z.max zs z)))
      | _ => None
      end
    else Some (TInt (nxt last0)).

  Definition savedir_skel (fresh : table O) (keep : tagv -> bool) (bound last0 : Z) (nxt : Z -> Z)
             (s : dirs O) (d : nat) (tag : option tagv) (x : O) : dirs O * dout O :=
    let t := match s d with Some t => t | None => fresh end in          (* makedirs succeeded: fresh; else the stored table *)
    match (match tag with Some k => Some k | None => auto_tag_skel keep bound last0 nxt t end) with
    | Some k => (fun d' => if Nat.eqb d' d then Some (tset O t k x) else s d', DSaved k)
    | None => (s, DErr)
    end.

  Lemma ints_of_filter (t : table O) : ints_of (filter is_int (map fst t)) = Some (int_keys O t).
  Proof.
    unfold int_keys. induction t as [|[k y] t IH]; cbn; [reflexivity|].
    destruct k as [z|n]; cbn; [now rewrite IH | exact IH].
  Qed.
  Lemma length_filter_int (t : table O) : length (filter is_int (map fst t)) = length (int_keys O t).
  Proof.
    unfold int_keys. induction t as [|[k y] t IH]; cbn; [reflexivity|].
    destruct k as [z|n]; cbn; [now rewrite IH | exact IH].
  Qed.

  Lemma auto_tag_skel_is_model keep bound last0 nxt :
    (forall tg, keep tg = is_int tg) -> bound = 0%Z -> last0 = 0%Z -> (forall l, nxt l = (l + 1)%Z) ->
    forall t, auto_tag_skel keep bound last0 nxt t = auto_tag O TagRepaired t.
  Proof.
    intros Hk -> -> Hn t. unfold auto_tag_skel, auto_tag.
    rewrite (filter_ext _ _ Hk). rewrite ints_of_filter, length_filter_int.
    destruct (int_keys O t) as [|z zs]; cbn [length Z.of_nat Z.gtb Z.compare]; rewrite Hn; reflexivity.
  Qed.

  Lemma savedir_skel_is_model fresh keep bound last0 nxt :
    fresh = [] -> (forall tg, keep tg = is_int tg) -> bound = 0%Z -> last0 = 0%Z -> (forall l, nxt l = (l + 1)%Z) ->
    forall s d tag x, savedir_skel fresh keep bound last0 nxt s d tag x = savedir O TagRepaired s d tag x.
  Proof.
    intros -> Hk Hb Hl Hi s d tag x. unfold savedir_skel, savedir.
    destruct tag as [k|]; [reflexivity|]. now rewrite (auto_tag_skel_is_model keep bound last0 nxt Hk Hb Hl Hi).
  Qed.
End DirSkel.

(* ---- save_data / load_data: dispatch, writer and reader methods composed ---- *)
Definition wkind_eqb (a b : wkind) : bool :=
  match a, b with KText, KText | KNpy, KNpy | KNpz, KNpz | KMat, KMat => true | _, _ => false end.

Section Compose.
  Variable A : Type.
  Notation arr := (arr A).
  (* what a file written by the writer of kind k gives back through the reader of the same kind; the text reader is
     called with ndmin (numpy.loadtxt: below 2 it drops the indices of length one) *)
  Definition file_roundtrip (k : wkind) (ndmin : Z) (d : arr) : option arr :=
    match k with
    | KText => match d with A0 _ => None | _ => Some (if (ndmin =? 2)%Z then d else squeeze A d) end
    | KNpy | KNpz => Some d
    | KMat => Some (atleast2d A d)
    end.
  (* save_data(name, with_axis) then load_data(name, with_axis):
       writer method:  data = pk(axis) if with_axis is not None else self.data;  write(data)
       reader method:  _data = read(file);  self.data = ex(_data, with_axis)
     ksave / kload: the kinds the two extension dispatches select; a file written by one kind and read by another is
     not modelled (None) *)
  Definition export_import_skel (pk : list A -> arr -> option arr) (ex : arr -> option (list A * arr))
             (ksave kload : fmt -> option wkind) (ndmin : bool -> Z)
             (f : fmt) (ax : option (list A)) (d : arr) : option (option (list A) * arr) :=
    match ksave f, kload f with
    | Some ks, Some kl =>
        if wkind_eqb ks kl then
          match (match ax with Some a => pk a d | None => Some d end) with
          | None => None
          | Some p =>
              match file_roundtrip ks (ndmin (match ax with Some _ => true | None => false end)) p with
              | None => None
              | Some p' =>
                  match ax with
                  | None => Some (None, p')
                  | Some _ => match ex p' with Some (a', d') => Some (Some a', d') | None => None end
                  end
              end
          end
        else None
    | _, _ => None
    end.

  Lemma wf_zip_cons w (ax : list A) rows : Forall (fun r => length r = w) rows -> Forall (fun r => length r = S w) (zip_with cons ax rows).
  Proof.
    intro H. revert ax. induction H as [|r rows Hr _ IH]; intros [|a ax]; cbn; constructor; [cbn; now rewrite Hr | apply IH].
  Qed.
  Lemma wf_zip_pair (ax l : list A) : Forall (fun r => length r = 2) (zip_with (fun a x => [a; x]) ax l).
  Proof. revert l. induction ax as [|a ax IH]; intros [|x l]; cbn; constructor; [reflexivity | apply IH]. Qed.
  Lemma wf_pack ax d p : wf A d -> pack A ax d = Some p -> wf A p.
  Proof.
    destruct d as [x|l|w rows]; cbn; [discriminate| |].
    - intros _. destruct (Nat.eqb _ _); [|discriminate]. intro H; injection H as <-. apply wf_zip_pair.
    - intros Hwf. destruct (Nat.eqb _ _); [|discriminate]. intro H; injection H as <-. now apply wf_zip_cons.
  Qed.
  Lemma wf_squeeze d : wf A d -> wf A (squeeze A d).
  Proof.
    destruct d as [x|l|w rows]; cbn; [trivial | destruct l as [|x [|y l]]; cbn; trivial |].
    intro H. destruct rows as [|r1 [|r2 rows]].
    - destruct w as [|[|w]]; cbn; trivial.
    - destruct r1 as [|x [|y r1]]; destruct w as [|[|w]]; cbn; trivial.
    - destruct w as [|[|w]]; cbn; trivial.
  Qed.
  Lemma wf_roundtrip k nd d d' : wf A d -> file_roundtrip k nd d = Some d' -> wf A d'.
  Proof.
    destruct k; cbn.
    - destruct d; [discriminate | |]; intros Hwf H; injection H as <-; (destruct (nd =? 2)%Z; [exact Hwf | exact (wf_squeeze _ Hwf)]).
    - intros Hwf H; injection H as <-; exact Hwf.
    - intros Hwf H; injection H as <-; exact Hwf.
    - intros Hwf H; injection H as <-. destruct d; cbn; [repeat constructor | repeat constructor | exact Hwf].
  Qed.

  Lemma export_import_skel_is_model pk ex ksave kload ndmin :
    (forall f, ksave f = Some (kind_of f)) -> (forall f, kload f = Some (kind_of f)) ->
    (forall wa, ndmin wa = text_ndmin drepaired wa) ->
    (forall d, wf A d -> ex d = extract A d) ->
    forall f ax d, wf A d -> (forall a, ax = Some a -> pk a d = pack A a d) ->
    export_import_skel pk ex ksave kload ndmin f ax d = export_import A drepaired f ax d.
  Proof.
    intros Hs Hl Hn Hex f ax d Hwf Hpk. unfold export_import_skel, export_import.
    rewrite Hs, Hl. replace (wkind_eqb (kind_of f) (kind_of f)) with true by (destruct f; reflexivity).
    assert (Hth : forall wa p, file_roundtrip (kind_of f) (ndmin wa) p = through A drepaired f wa p).
    { intros wa p. rewrite Hn, through_by_kind. destruct f; cbn; try reflexivity; rewrite andb_false_r; reflexivity. }
    destruct ax as [a|].
    - rewrite (Hpk a eq_refl). destruct (pack A a d) as [p|] eqn:Hp; [|reflexivity].
      rewrite Hth. destruct (through A drepaired f true p) as [p'|] eqn:Hp'; [|reflexivity].
      rewrite Hex; [reflexivity|]. rewrite <- Hth in Hp'. eapply wf_roundtrip; [|exact Hp']. eapply wf_pack; eauto.
    - rewrite Hth. reflexivity.
  Qed.
End Compose.
