(* C01: relaxation generators preserve trace and Hermiticity.  Lemmas about Model/C01.v over any
   commutative ring with conjugation and for every dimension n and number of bath components Nb. *)
From Coq Require Import ZArith List Bool Arith Lia QArith Qcanon.
From QV Require Import Base.Alg Base.Sums Base.Mat Base.Tens Model.C01 Proofs.Tensor.
Import ListNotations.

Section C01.
  Context {R : StarRing}.
  Add Ring Rr : (rth R).
  Open Scope sr_scope.
  Variable n : nat.

  Notation trace_pres := (@trace_pres R n).
  Notation herm_pres := (@herm_pres R n).

  (* ---------- sums with a Kronecker condition ---------- *)
  Lemma sum_if_eq (d : nat) (f : nat -> R) : (d < n)%nat ->
    sum n (fun a => if Nat.eqb a d then f a else 0) = f d.
  Proof.
    intros Hd. rewrite (sum_single n d) by (auto; intros i _ Hne; apply Nat.eqb_neq in Hne; now rewrite Hne).
    now rewrite Nat.eqb_refl.
  Qed.

  Lemma cj_if (b : bool) (x : R) : cj R (if b then x else 0) = if b then cj R x else 0.
  Proof. destruct b; [reflexivity|apply cj_0]. Qed.

  (* ---------- the Redfield assembly (_loopit) ---------- *)
  (* trace: NO hypothesis on K, Kd, L, Ld *)
  Lemma loopit_trace (K Kd L Ld : @mat R) c d : (c < n)%nat -> (d < n)%nat ->
    sum n (fun a => loopit_m n K Kd L Ld a a c d) = 0.
  Proof.
    intros Hc Hd. unfold loopit_m.
    rewrite !sum_sub, sum_add.
    rewrite (sum_if_eq d (fun a => mmul n Kd L a c) Hd).
    rewrite (sum_ext n (fun a => if Nat.eqb a c then mmul n Ld K d a else 0)
                       (fun a => if Nat.eqb a c then mmul n Ld K d c else 0)).
    2:{ intros a _. destruct (Nat.eqb_spec a c) as [->|]; reflexivity. }
    rewrite (sum_if_eq c (fun _ => mmul n Ld K d c) Hc).
    unfold mmul.
    rewrite (sum_ext n (fun a => K a c * Ld d a) (fun a => Ld d a * K a c)) by (intros; ring).
    rewrite (sum_ext n (fun a => L a c * Kd d a) (fun a => Kd d a * L a c)) by (intros; ring).
    ring.
  Qed.

  Lemma sum_sum_0 (Nb : nat) (f : nat -> nat -> R) : (forall m, (m < Nb)%nat -> sum n (fun a => f m a) = 0) ->
    sum n (fun a => sum Nb (fun m => f m a)) = 0.
  Proof. intros H. rewrite sum_swap. apply sum_0_ext. exact H. Qed.

  Lemma convert_trace Nb (Km Lm Ld : nat -> @mat R) : trace_pres (convert_ops n Nb Km Lm Ld).
  Proof. intros c d Hc Hd. unfold convert_ops. apply sum_sum_0. intros m _. now apply loopit_trace. Qed.

  Lemma td_loopit_trace (K L Ld : @mat R) c d : (c < n)%nat -> (d < n)%nat ->
    sum n (fun a => td_loopit_m n K L Ld a a c d) = 0.
  Proof.
    intros Hc Hd.
    rewrite (sum_ext n _ (fun a => loopit_m n K K L Ld a a c d)) by reflexivity.
    now apply loopit_trace.
  Qed.

  Lemma td_convert_trace Nb (Km Lm Ld : nat -> @mat R) : trace_pres (td_convert_ops n Nb Km Lm Ld).
  Proof. intros c d Hc Hd. unfold td_convert_ops. apply sum_sum_0. intros m _. now apply td_loopit_trace. Qed.

  (* Hermiticity: K real, Kd its transpose, Ld the Hermitian conjugate of L (all on indices below n) *)
  Definition real_mat (K : @mat R) : Prop := forall i j, (i < n)%nat -> (j < n)%nat -> cj R (K i j) = K i j.
  Definition transpose_of (Kd K : @mat R) : Prop := forall i j, (i < n)%nat -> (j < n)%nat -> Kd i j = K j i.
  Definition dagger_of (Ld L : @mat R) : Prop := forall i j, (i < n)%nat -> (j < n)%nat -> Ld i j = cj R (L j i).

  Lemma cj_KdL (K Kd L Ld : @mat R) a c : real_mat K -> transpose_of Kd K -> dagger_of Ld L ->
    (a < n)%nat -> (c < n)%nat -> cj R (mmul n Kd L a c) = mmul n Ld K c a.
  Proof.
    intros HK HKd HLd Ha Hc. unfold mmul. rewrite sum_cj. apply sum_ext. intros k Hk.
    rewrite cj_mul, (HKd a k Ha Hk), (HK k a Hk Ha), (HLd c k Hc Hk). ring.
  Qed.
  Lemma cj_LdK (K Kd L Ld : @mat R) d b : real_mat K -> transpose_of Kd K -> dagger_of Ld L ->
    (d < n)%nat -> (b < n)%nat -> cj R (mmul n Ld K d b) = mmul n Kd L b d.
  Proof.
    intros HK HKd HLd Hd Hb. unfold mmul. rewrite sum_cj. apply sum_ext. intros k Hk.
    rewrite cj_mul, (HLd d k Hd Hk), cj_cj, (HK k b Hk Hb), (HKd b k Hb Hk). ring.
  Qed.

  Lemma loopit_herm (K Kd L Ld : @mat R) : real_mat K -> transpose_of Kd K -> dagger_of Ld L ->
    herm_pres (loopit_m n K Kd L Ld).
  Proof.
    intros HK HKd HLd a b c d Ha Hb Hc Hd. unfold loopit_m.
    rewrite !cj_sub, cj_add, !cj_mul, !cj_if.
    rewrite (cj_KdL K Kd L Ld a c HK HKd HLd Ha Hc), (cj_LdK K Kd L Ld d b HK HKd HLd Hd Hb).
    rewrite (HK a c Ha Hc), (HLd d b Hd Hb), cj_cj, (HKd d b Hd Hb), (HK b d Hb Hd).
    rewrite (HLd c a Hc Ha), (HKd c a Hc Ha).
    rewrite (Nat.eqb_sym b d), (Nat.eqb_sym a c).
    destruct (Nat.eqb d b), (Nat.eqb c a); ring.
  Qed.

  Lemma herm_sum Nb (f : nat -> @tens R) : (forall m, (m < Nb)%nat -> herm_pres (f m)) ->
    herm_pres (fun a b c d => sum Nb (fun m => f m a b c d)).
  Proof.
    intros H a b c d Ha Hb Hc Hd. rewrite sum_cj. apply sum_ext. intros m Hm. now apply H.
  Qed.

  Lemma convert_herm Nb (Km Lm Ld : nat -> @mat R) :
    (forall m, (m < Nb)%nat -> real_mat (Km m)) -> (forall m, (m < Nb)%nat -> dagger_of (Ld m) (Lm m)) ->
    herm_pres (convert_ops n Nb Km Lm Ld).
  Proof.
    intros HK HL. unfold convert_ops. apply herm_sum. intros m Hm.
    apply loopit_herm; [now apply HK| |now apply HL]. intros i j _ _. reflexivity.
  Qed.

  Lemma redfield_trace Nb (Km Lm : nat -> @mat R) : trace_pres (redfield_tensor n Nb Km Lm).
  Proof. apply convert_trace. Qed.
  Lemma redfield_herm Nb (Km Lm : nat -> @mat R) : (forall m, (m < Nb)%nat -> real_mat (Km m)) ->
    herm_pres (redfield_tensor n Nb Km Lm).
  Proof. intros HK. apply convert_herm; [exact HK|]. intros m _ i j _ _. reflexivity. Qed.

  (* time-dependent tensor at one time index: K must also be symmetric *)
  Definition sym_mat (K : @mat R) : Prop := forall i j, (i < n)%nat -> (j < n)%nat -> K i j = K j i.

  Lemma td_convert_herm Nb (Km Lm Ld : nat -> @mat R) :
    (forall m, (m < Nb)%nat -> real_mat (Km m)) -> (forall m, (m < Nb)%nat -> sym_mat (Km m)) ->
    (forall m, (m < Nb)%nat -> dagger_of (Ld m) (Lm m)) ->
    herm_pres (td_convert_ops n Nb Km Lm Ld).
  Proof.
    intros HK HS HL. unfold td_convert_ops. apply herm_sum. intros m Hm.
    assert (herm_pres (loopit_m n (Km m) (Km m) (Lm m) (Ld m))) as H
      by (apply loopit_herm; [now apply HK|now apply HS|now apply HL]).
    exact H.
  Qed.
  Lemma td_redfield_trace Nb (Km Lm : nat -> @mat R) : trace_pres (td_redfield_tensor n Nb Km Lm).
  Proof. apply td_convert_trace. Qed.
  Lemma td_redfield_herm Nb (Km Lm : nat -> @mat R) :
    (forall m, (m < Nb)%nat -> real_mat (Km m)) -> (forall m, (m < Nb)%nat -> sym_mat (Km m)) ->
    herm_pres (td_redfield_tensor n Nb Km Lm).
  Proof. intros HK HS. apply td_convert_herm; [exact HK|exact HS|]. intros m _ i j _ _. reflexivity. Qed.

  (* for symmetric K the two assemblies coincide *)
  Lemma td_eq_ti Nb (Km Lm Ld : nat -> @mat R) : (forall m, (m < Nb)%nat -> sym_mat (Km m)) ->
    teq n (td_convert_ops n Nb Km Lm Ld) (convert_ops n Nb Km Lm Ld).
  Proof.
    intros HS a b c d Ha Hb Hc Hd. unfold td_convert_ops, convert_ops. apply sum_ext. intros m Hm.
    unfold td_loopit_m, loopit_m. unfold mT at 1. rewrite (HS m Hm d b Hd Hb).
    replace (mmul n (Km m) (Lm m) a c) with (mmul n (mT (Km m)) (Lm m) a c); [reflexivity|].
    unfold mmul, mT. apply sum_ext. intros k Hk. now rewrite (HS m Hm k a Hk Ha).
  Qed.

  (* Lindblad form: real operators, real rates *)
  Lemma lindblad_trace Nb hg (Km : nat -> @mat R) : trace_pres (lindblad_tensor n Nb hg Km).
  Proof. apply convert_trace. Qed.
  Lemma lindblad_herm Nb hg (Km : nat -> @mat R) :
    (forall m, (m < Nb)%nat -> real_mat (Km m)) -> (forall m, (m < Nb)%nat -> is_real R (hg m)) ->
    herm_pres (lindblad_tensor n Nb hg Km).
  Proof.
    intros HK Hg. apply convert_herm; [exact HK|]. intros m Hm i j Hi Hj.
    unfold lindblad_L, mT, mscale. rewrite cj_mul, (Hg m Hm), (HK m Hm j i Hj Hi). reflexivity.
  Qed.

  (* ---------- closure: sums, real multiples, secular part ---------- *)
  Lemma tadd_trace (T U : @tens R) : trace_pres T -> trace_pres U -> trace_pres (tadd T U).
  Proof. intros HT HU c d Hc Hd. unfold tadd. rewrite sum_add, HT, HU by assumption. ring. Qed.
  Lemma tadd_herm (T U : @tens R) : herm_pres T -> herm_pres U -> herm_pres (tadd T U).
  Proof. intros HT HU a b c d Ha Hb Hc Hd. unfold tadd. now rewrite cj_add, HT, HU. Qed.
  Lemma tscale_trace x (T : @tens R) : trace_pres T -> trace_pres (tscale x T).
  Proof. intros HT c d Hc Hd. unfold tscale. rewrite sum_mul_l, HT by assumption. ring. Qed.
  Lemma tscale_herm x (T : @tens R) : is_real R x -> herm_pres T -> herm_pres (tscale x T).
  Proof. intros Hx HT a b c d Ha Hb Hc Hd. unfold tscale. now rewrite cj_mul, Hx, HT. Qed.

  Lemma secular_keep_sym a b c d : secular_keep b a d c = secular_keep a b c d.
  Proof. unfold secular_keep. rewrite (Nat.eqb_sym b a), (Nat.eqb_sym d c). destruct (Nat.eqb a b && Nat.eqb c d); [reflexivity|]. cbn [orb]. apply andb_comm. Qed.

  (* kept: population transfer R[a,a,b,b] and coherence decay R[a,b,a,b], unchanged; every other element zero *)
  Lemma secularize_spec (T : @tens R) a b c d :
    ((a = b /\ c = d) \/ (a = c /\ b = d) -> secularize T a b c d = T a b c d) /\
    (~ ((a = b /\ c = d) \/ (a = c /\ b = d)) -> secularize T a b c d = 0).
  Proof.
    unfold secularize, secular_keep. split.
    - intros [[-> ->]|[-> ->]]; rewrite !Nat.eqb_refl; cbn [andb orb]; [reflexivity|]. now rewrite orb_true_r.
    - intros H. destruct (Nat.eqb_spec a b), (Nat.eqb_spec c d), (Nat.eqb_spec a c), (Nat.eqb_spec b d); cbn [andb orb]; try reflexivity; exfalso; apply H; auto.
  Qed.
  Lemma secularize_population_and_decay (T : @tens R) a b :
    secularize T a a b b = T a a b b /\ secularize T a b a b = T a b a b.
  Proof. split; apply secularize_spec; auto. Qed.

  Lemma secularize_trace (T : @tens R) : trace_pres T -> trace_pres (secularize T).
  Proof.
    intros HT c d Hc Hd. destruct (Nat.eq_dec c d) as [->|Hne].
    - rewrite <- (HT d d Hd Hd). apply sum_ext. intros a _. apply secularize_spec. auto.
    - apply sum_0_ext. intros a _. apply secularize_spec. intros [[_ E]|[E1 E2]]; [contradiction|]. apply Hne. congruence.
  Qed.
  Lemma secularize_herm (T : @tens R) : herm_pres T -> herm_pres (secularize T).
  Proof.
    intros HT a b c d Ha Hb Hc Hd. unfold secularize. rewrite (secular_keep_sym a b c d).
    destruct (secular_keep a b c d); [now apply HT|apply cj_0].
  Qed.

  (* ---------- rate-only tensors: updateStructure ---------- *)
  Lemma rates_tensor_offtrace (K : @mat R) c d : c <> d -> forall a, rates_to_tensor K a a c d = 0.
  Proof. intros Hne a. unfold rates_to_tensor. apply Nat.eqb_neq in Hne. rewrite Hne. now rewrite andb_false_r. Qed.
  Lemma rates_tensor_diag (K : @mat R) c : rates_to_tensor K c c c c = 0.
  Proof. unfold rates_to_tensor. rewrite !Nat.eqb_refl. reflexivity. Qed.

  Lemma update_structure_trace half (T : @tens R) :
    (forall c, (c < n)%nat -> T c c c c = 0) ->
    (forall c d, (c < n)%nat -> (d < n)%nat -> c <> d -> sum n (fun a => T a a c d) = 0) ->
    trace_pres (update_structure n half T).
  Proof.
    intros Hdiag Hoff c d Hc Hd. unfold update_structure.
    assert (forall a, upd_deph half (upd_depop n T) a a c d = upd_depop n T a a c d) as E.
    { intros a. unfold upd_deph. rewrite Nat.eqb_refl. now rewrite andb_false_r. }
    rewrite (sum_ext n _ (fun a => upd_depop n T a a c d)) by (intros; apply E). clear E.
    destruct (Nat.eq_dec c d) as [<-|Hne].
    - unfold upd_depop.
      rewrite (sum_ext n _ (fun a => T a a c c - (if Nat.eqb a c then sum n (fun i => T i i c c) - T c c c c else 0))).
      2:{ intros a _. rewrite !Nat.eqb_refl. cbn [andb]. destruct (Nat.eqb_spec a c) as [->|]; ring. }
      rewrite sum_sub. rewrite (sum_if_eq c (fun _ => sum n (fun i => T i i c c) - T c c c c) Hc).
      rewrite (Hdiag c Hc). ring.
    - rewrite <- (Hoff c d Hc Hd Hne). apply sum_ext. intros a _. unfold upd_depop.
      apply Nat.eqb_neq in Hne. rewrite Hne. now rewrite andb_false_r.
  Qed.

  Lemma update_structure_herm half (T : @tens R) : is_real R half -> herm_pres T -> herm_pres (update_structure n half T).
  Proof.
    intros Hh HT.
    assert (herm_pres (upd_depop n T)) as H1.
    { intros a b c d Ha Hb Hc Hd. unfold upd_depop. rewrite (Nat.eqb_sym b a), (Nat.eqb_sym d c).
      destruct (Nat.eqb_spec a b) as [<-|Hab]; cbn [andb]; [|now apply HT].
      destruct (Nat.eqb_spec c d) as [<-|Hcd]; cbn [andb]; [|now apply HT].
      destruct (Nat.eqb_spec a c) as [<-|Hac]; [|now apply HT].
      rewrite !cj_sub, sum_cj. rewrite (HT a a a a) by assumption.
      rewrite (sum_ext n (fun i => cj R (T i i a a)) (fun i => T i i a a)) by (intros i Hi; now apply HT). reflexivity. }
    intros a b c d Ha Hb Hc Hd. unfold update_structure, upd_deph.
    rewrite (Nat.eqb_sym b a). rewrite (andb_comm (Nat.eqb b d) (Nat.eqb a c)).
    destruct (Nat.eqb a c && Nat.eqb b d && negb (Nat.eqb a b)).
    - rewrite cj_mul, cj_add, Hh, (H1 a a a a), (H1 b b b b) by assumption. ring.
    - now apply H1.
  Qed.

  Lemma rates_tensor_herm (K : @mat R) : real_mat K -> herm_pres (rates_to_tensor K).
  Proof.
    intros HK a b c d Ha Hb Hc Hd. unfold rates_to_tensor. rewrite cj_if.
    rewrite (Nat.eqb_sym b a), (Nat.eqb_sym d c).
    destruct (Nat.eqb_spec a b) as [<-|]; [|reflexivity]. destruct (Nat.eqb_spec c d) as [<-|]; [|reflexivity].
    cbn [andb]. now rewrite (HK a c Ha Hc).
  Qed.

  Lemma foerster_trace half (K : @mat R) : trace_pres (foerster_tensor n half K).
  Proof.
    apply update_structure_trace.
    - intros c _. apply rates_tensor_diag.
    - intros c d _ _ Hne. apply sum_0_ext. intros a _. now apply rates_tensor_offtrace.
  Qed.
  Lemma foerster_herm half (K : @mat R) : is_real R half -> real_mat K -> herm_pres (foerster_tensor n half K).
  Proof. intros Hh HK. apply update_structure_herm; [exact Hh|now apply rates_tensor_herm]. Qed.

  (* ---------- pure dephasing added to the Foerster tensor ---------- *)
  Lemma add_dephasing_trace v h (T : @tens R) : trace_pres T -> trace_pres (add_dephasing v h T).
  Proof.
    intros HT c d Hc Hd. rewrite <- (HT c d Hc Hd). apply sum_ext. intros a _. unfold add_dephasing.
    destruct (Nat.eqb a c); cbn [andb]; [|reflexivity]. destruct (Nat.eqb_spec a d) as [->|]; cbn [andb negb]; [|reflexivity].
    rewrite Nat.eqb_refl. reflexivity.
  Qed.
  Lemma add_dephasing_repaired_herm h (T : @tens R) : herm_pres T -> herm_pres (add_dephasing DephRepaired h T).
  Proof.
    intros HT a b c d Ha Hb Hc Hd. unfold add_dephasing.
    rewrite (Nat.eqb_sym b a). rewrite (andb_comm (Nat.eqb b d) (Nat.eqb a c)).
    destruct (Nat.eqb a c && Nat.eqb b d && negb (Nat.eqb a b)); [|now apply HT].
    rewrite cj_sub, cj_add, cj_cj, (HT a b c d) by assumption. ring.
  Qed.

  (* ---------- Foerster rates added to a Redfield tensor ---------- *)
  Lemma rf_add_trace (KF : @mat R) (T : @tens R) : trace_pres T -> trace_pres (rf_add n KF T).
  Proof.
    intros HT c d Hc Hd. unfold rf_add. rewrite sum_sub, sum_add, (HT c d Hc Hd).
    destruct (Nat.eqb_spec c d) as [<-|Hne].
    - rewrite (sum_ext n (fun a => if Nat.eqb a a && true then KF a c else 0) (fun a => KF a c))
        by (intros a _; now rewrite Nat.eqb_refl).
      rewrite (sum_ext n (fun a => if Nat.eqb a a && true && Nat.eqb a c then colsum n KF c else 0)
                         (fun a => if Nat.eqb a c then colsum n KF c else 0))
        by (intros a _; now rewrite Nat.eqb_refl).
      rewrite (sum_if_eq c (fun _ => colsum n KF c) Hc). unfold colsum. ring.
    - rewrite (sum_0_ext n (fun a => if Nat.eqb a a && false then KF a c else 0)) by (intros a _; now rewrite andb_false_r).
      rewrite (sum_0_ext n (fun a => if Nat.eqb a a && false && Nat.eqb a c then colsum n KF c else 0))
        by (intros a _; now rewrite andb_false_r).
      ring.
  Qed.
  Lemma rf_add_herm (KF : @mat R) (T : @tens R) : real_mat KF -> herm_pres T -> herm_pres (rf_add n KF T).
  Proof.
    intros HK HT a b c d Ha Hb Hc Hd. unfold rf_add.
    rewrite cj_sub, cj_add, !cj_if, (HT a b c d) by assumption.
    rewrite (Nat.eqb_sym b a), (Nat.eqb_sym d c).
    destruct (Nat.eqb_spec a b) as [<-|]; cbn [andb]; [|reflexivity].
    destruct (Nat.eqb_spec c d) as [<-|]; cbn [andb]; [|reflexivity].
    rewrite (HK a c Ha Hc).
    assert (cj R (colsum n KF c) = colsum n KF c) as E.
    { unfold colsum. rewrite sum_cj. apply sum_ext. intros i Hi. now apply HK. }
    rewrite E. reflexivity.
  Qed.

  (* ---------- "in every basis": the basis transformation keeps both identities ---------- *)
  Lemma tpass1_as_sim (S1 S : @mat R) (T : @tens R) a b c d :
    tpass1 n S1 S T a b c d = sim n S1 S (fun i j => T i j c d) a b.
  Proof.
    unfold tpass1, sim, mmul. apply sum_ext. intros i _. rewrite <- sum_mul_l. apply sum_ext. intros j _. ring.
  Qed.

  Lemma ttrans_trace (S1 S : @mat R) (T : @tens R) : meq n (mmul n S S1) (@mid R) -> trace_pres T -> trace_pres (ttrans n S1 S T).
  Proof.
    intros HI HT c d Hc Hd. unfold ttrans, tpass2.
    (* sum_a sum_k sum_l  ->  sum_k sum_l sum_a *)
    rewrite sum_swap. apply sum_0_ext. intros k Hk. rewrite sum_swap. apply sum_0_ext. intros l Hl.
    rewrite (sum_ext n _ (fun a => S k c * S1 d l * tpass1 n S1 S T a a k l)) by (intros; ring).
    rewrite sum_mul_l.
    assert (sum n (fun a => tpass1 n S1 S T a a k l) = 0) as E.
    { rewrite (sum_ext n _ (fun a => sim n S1 S (fun i j => T i j k l) a a)) by (intros; apply tpass1_as_sim).
      change (mtr n (sim n S1 S (fun i j => T i j k l)) = 0). rewrite (mtr_sim n S1 S _ HI). now apply HT. }
    rewrite E. ring.
  Qed.

  Lemma ttrans_herm (S1 S : @mat R) (T : @tens R) : dagger_of S1 S -> herm_pres T -> herm_pres (ttrans n S1 S T).
  Proof.
    intros HS HT.
    assert (forall a b c d, (a < n)%nat -> (b < n)%nat -> (c < n)%nat -> (d < n)%nat ->
              cj R (tpass1 n S1 S T a b c d) = tpass1 n S1 S T b a d c) as H1.
    { intros a b c d Ha Hb Hc Hd. unfold tpass1. rewrite sum_cj.
      rewrite (sum_ext n _ (fun i => sum n (fun j => S1 b j * T j i d c * S i a))).
      2:{ intros i Hi. rewrite sum_cj. apply sum_ext. intros j Hj.
          rewrite !cj_mul, (HS a i Ha Hi), cj_cj, (HT i j c d Hi Hj Hc Hd), <- (HS b j Hb Hj). ring. }
      rewrite sum_swap. reflexivity. }
    intros a b c d Ha Hb Hc Hd. unfold ttrans, tpass2. rewrite sum_cj.
    rewrite (sum_ext n _ (fun k => sum n (fun l => S l d * tpass1 n S1 S T b a l k * S1 c k))).
    2:{ intros k Hk. rewrite sum_cj. apply sum_ext. intros l Hl.
        rewrite !cj_mul, (H1 a b k l Ha Hb Hk Hl), <- (HS c k Hc Hk), (HS d l Hd Hl), cj_cj. ring. }
    rewrite sum_swap. reflexivity.
  Qed.

  (* a real orthogonal S (eigh of a real symmetric Hamiltonian) is a special case *)
  Lemma orthogonal_is_dagger (S1 S : @mat R) : real_mat S -> transpose_of S1 S -> dagger_of S1 S.
  Proof. intros HR HT i j Hi Hj. now rewrite (HT i j Hi Hj), (HR j i Hj Hi). Qed.
  (* the operators K_m = S^T P_m S the code builds from site projectors stay real and symmetric: the hypotheses of
     the Hermiticity theorems are consequences of an orthogonal real S *)
  Lemma sim_sym (S1 S A : @mat R) : transpose_of S1 S -> sym_mat A -> sym_mat (sim n S1 S A).
  Proof.
    intros HT HA i j Hi Hj. unfold sim, mmul.
    rewrite (sum_ext n _ (fun k => sum n (fun l => S k i * A k l * S l j))).
    2:{ intros k Hk. rewrite <- sum_mul_l. apply sum_ext. intros l Hl. rewrite (HT i k Hi Hk). ring. }
    rewrite (sum_ext n (fun k => S1 j k * sum n (fun l => A k l * S l i)) (fun k => sum n (fun l => S k j * A k l * S l i))).
    2:{ intros k Hk. rewrite <- sum_mul_l. apply sum_ext. intros l Hl. rewrite (HT j k Hj Hk). ring. }
    rewrite sum_swap. apply sum_ext. intros l Hl. apply sum_ext. intros k Hk. rewrite (HA k l Hk Hl). ring.
  Qed.
  Lemma sim_real (S1 S A : @mat R) : real_mat S1 -> real_mat S -> real_mat A -> real_mat (sim n S1 S A).
  Proof.
    intros H1 H2 HA i j Hi Hj. unfold sim, mmul. rewrite sum_cj. apply sum_ext. intros k Hk.
    rewrite cj_mul, (H1 i k Hi Hk), sum_cj. f_equal. apply sum_ext. intros l Hl. now rewrite cj_mul, (HA k l Hk Hl), (H2 l j Hl Hj).
  Qed.
End C01.

(* ---------- the pinned pure dephasing breaks Hermiticity: a two-level witness over the Gaussian integers ---------- *)
Definition deph_h_demo : nat -> GZ := fun a => match a with O => (0, 0)%Z | _ => (1, 1)%Z end.   (* h_1 = 1 + i *)
Definition zero_tens : @tens GZ := fun _ _ _ _ => (0, 0)%Z.
Lemma add_dephasing_pinned_witness :
  cj GZ (add_dephasing DephPinned deph_h_demo zero_tens 0 1 0 1)%nat = (-1, 1)%Z /\
  add_dephasing DephPinned deph_h_demo zero_tens 1%nat 0%nat 1%nat 0%nat = (-1, -1)%Z /\
  cj GZ (add_dephasing DephRepaired deph_h_demo zero_tens 0 1 0 1)%nat = add_dephasing DephRepaired deph_h_demo zero_tens 1%nat 0%nat 1%nat 0%nat.
Proof. vm_compute. repeat split. Qed.
