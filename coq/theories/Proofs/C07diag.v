(* Uncoupled sites under the second-order (Redfield / Lindblad) generators: a diagonal Hamiltonian and diagonal operators K_m, L_m
   (site projectors and their bath-weighted partners, which commute with a diagonal Hamiltonian).  The generator then acts on every
   matrix element separately - multiplication by a number made of the diagonal entries - the populations do not move, and every
   stored element of a propagation (time-dependent operators, any expansion order, refinement, dephasing multiplier) is the
   propagation of a scalar.  This is the algebraic half of the "exact pure-dephasing limit" of C07 (and C02): what remains between the
   code's result and exp(-i w t - g(t)) is the error of a scalar truncated exponential and of the quadrature behind L_m(t). *)
From Coq Require Import ZArith List Bool Arith Lia.
From QV Require Import Base.Alg Base.Sums Base.Mat Base.Tens Base.Taylor Base.TaylorG Model.C01 Model.C02.
Import ListNotations.

Section Diag.
  Context {R : StarRing}.
  Add Ring Rrd07 : (rth R).
  Open Scope sr_scope.
  Variable im : R.
  Variable n : nat.

  Definition diagonal (A : @mat R) : Prop := forall i j, (i < n)%nat -> (j < n)%nat -> i <> j -> A i j = 0.

  Lemma mmul_diag_l A B a b : diagonal A -> (a < n)%nat -> (b < n)%nat -> mmul n A B a b = A a a * B a b.
  Proof.
    intros HA Ha Hb. unfold mmul. apply (sum_single n a (fun k => A a k * B k b) Ha).
    intros i Hi Hne. rewrite (HA a i Ha Hi); [ring|congruence].
  Qed.

  Lemma mmul_diag_r A B a b : diagonal A -> (a < n)%nat -> (b < n)%nat -> mmul n B A a b = B a b * A b b.
  Proof.
    intros HA Ha Hb. unfold mmul. apply (sum_single n b (fun k => B a k * A k b) Hb).
    intros i Hi Hne. rewrite (HA i b Hi Hb Hne). ring.
  Qed.

  Lemma diagonal_mT A : diagonal A -> diagonal (mT A).
  Proof. intros HA i j Hi Hj Hne. unfold mT. apply HA; auto. Qed.

  Lemma diagonal_mmul A B : diagonal A -> diagonal B -> diagonal (mmul n A B).
  Proof.
    intros HA HB i j Hi Hj Hne. rewrite (mmul_diag_l A B i j HA Hi Hj). rewrite (HB i j Hi Hj Hne). ring.
  Qed.

  Variable H : @mat R.
  Variable Nb : nat.
  Hypothesis H_diag : diagonal H.

  (* the number element (a,b) is multiplied by *)
  Definition coef (Km Lm Ld : nat -> @mat R) (a b : nat) : R :=
    (- im) * (H a a - H b b)
    + sum Nb (fun m => Km m a a * Ld m b b + Lm m a a * Km m b b - Km m a a * Lm m a a - Ld m b b * Km m b b).

  Theorem G_ops_elementwise Km Lm Ld rho a b :
    (forall m, diagonal (Km m)) -> (forall m, diagonal (Lm m)) -> (forall m, diagonal (Ld m)) ->
    (a < n)%nat -> (b < n)%nat ->
    G_ops im n H Nb Km Lm Ld rho a b = coef Km Lm Ld a b * rho a b.
  Proof.
    intros HK HL HLd Ha Hb. unfold G_ops, madd, coef.
    replace (((- im) * (H a a - H b b) +
              sum Nb (fun m => Km m a a * Ld m b b + Lm m a a * Km m b b - Km m a a * Lm m a a - Ld m b b * Km m b b)) * rho a b)
      with ((- im) * (H a a - H b b) * rho a b +
            sum Nb (fun m => Km m a a * Ld m b b + Lm m a a * Km m b b - Km m a a * Lm m a a - Ld m b b * Km m b b) * rho a b) by ring.
    f_equal.
    - unfold G_ham, mscale, comm, msub. rewrite (mmul_diag_l H rho a b H_diag Ha Hb), (mmul_diag_r H rho a b H_diag Ha Hb). ring.
    - unfold apply_ops. rewrite <- sum_mul_r. apply sum_ext. intros m Hm.
      rewrite (mmul_diag_l (Km m) (mmul n rho (Ld m)) a b (HK m) Ha Hb), (mmul_diag_r (Ld m) rho a b (HLd m) Ha Hb).
      rewrite (mmul_diag_l (Lm m) (mmul n rho (mT (Km m))) a b (HL m) Ha Hb),
              (mmul_diag_r (mT (Km m)) rho a b (diagonal_mT _ (HK m)) Ha Hb).
      rewrite (mmul_diag_l (mmul n (mT (Km m)) (Lm m)) rho a b (diagonal_mmul _ _ (diagonal_mT _ (HK m)) (HL m)) Ha Hb),
              (mmul_diag_l (mT (Km m)) (Lm m) a a (diagonal_mT _ (HK m)) Ha Ha).
      rewrite (mmul_diag_r (mmul n (Ld m) (Km m)) rho a b (diagonal_mmul _ _ (HLd m) (HK m)) Ha Hb),
              (mmul_diag_l (Ld m) (Km m) b b (HLd m) Hb Hb).
      unfold mT. ring.
  Qed.

  (* populations: the factor vanishes on the diagonal, whatever the operators' entries *)
  Lemma coef_diag_zero Km Lm Ld a : coef Km Lm Ld a a = 0.
  Proof. unfold coef. rewrite sum_0_ext; [ring|]. intros m _. ring. Qed.

  (* ---- whole propagations: operators that may change with the refined step (time-dependent tensors in operator form) ---- *)
  Variable Km : nat -> @mat R.
  Variable Lm Ld : nat -> nat -> @mat R.            (* refined step j |-> component m |-> operator *)
  Hypothesis K_diag : forall m, diagonal (Km m).
  Hypothesis L_diag : forall j m, diagonal (Lm j m).
  Hypothesis Ld_diag : forall j m, diagonal (Ld j m).

  Notation Gj := (fun j => G_ops im n H Nb Km (Lm j) (Ld j)).

  Theorem populations_constant (D : nat -> @mat R -> @mat R) prefs nsteps nref rho0 a : (a < n)%nat ->
    (forall j x, D j x a a = x a a) ->
    Forall (fun rho => rho a a = rho0 a a) (dm_traj n Gj D prefs nsteps nref rho0).
  Proof.
    intros Ha HD. unfold dm_traj.
    apply (gtraj_functional R (@mat R) (dm_add n) (dm_scale n) Gj D R (fun rho => rho a a) (radd R) 0).
    - intros x; ring.
    - intros x y. unfold dm_add. rewrite (tab2_spec n n _ a a Ha Ha). reflexivity.
    - intros j c x. unfold dm_scale. rewrite (tab2_spec n n _ a a Ha Ha). unfold mscale.
      rewrite (G_ops_elementwise Km (Lm j) (Ld j) x a a K_diag (L_diag j) (Ld_diag j) Ha Ha), coef_diag_zero. ring.
    - exact HD.
  Qed.

  (* every element follows its own scalar propagation: x |-> coef_j * x, then the element's own dephasing factor *)
  Definition scalar_traj (a b : nat) (d : nat -> R) (prefs : list R) (nsteps nref : nat) (x0 : R) : list R :=
    gtraj (radd R) (rmul R) (fun j x => coef Km (Lm j) (Ld j) a b * x) (fun j x => x * d j) nsteps nref prefs 0 x0.

  Theorem propagation_elementwise (D : nat -> @mat R -> @mat R) (d : nat -> R) prefs nsteps nref rho0 a b :
    (a < n)%nat -> (b < n)%nat -> (forall j x, D j x a b = x a b * d j) ->
    Forall2 (fun rho x => rho a b = x) (dm_traj n Gj D prefs nsteps nref rho0) (scalar_traj a b d prefs nsteps nref (rho0 a b)).
  Proof.
    intros Ha Hb HD. unfold dm_traj, scalar_traj.
    apply (gtraj_related R (@mat R) R (dm_add n) (dm_scale n) Gj D (radd R) (rmul R)
             (fun j x => coef Km (Lm j) (Ld j) a b * x) (fun j x => x * d j) (fun rho x => rho a b = x)).
    - intros x y x' y' Hx Hy. unfold dm_add. rewrite (tab2_spec n n _ a b Ha Hb). unfold madd. now rewrite Hx, Hy.
    - intros j c x x' Hx. unfold dm_scale. rewrite (tab2_spec n n _ a b Ha Hb). unfold mscale.
      rewrite (G_ops_elementwise Km (Lm j) (Ld j) x a b K_diag (L_diag j) (Ld_diag j) Ha Hb). now rewrite Hx.
    - intros j x x' Hx. rewrite HD. now rewrite Hx.
    - reflexivity.
  Qed.
End Diag.

(* ---- the scalar step in closed form: one refined step multiplies the element by the truncated exponential of dt * coef ---- *)
Section ScalarStep.
  Context {R : StarRing}.
  Add Ring Rrss07 : (rth R).
  Open Scope sr_scope.

  (* q [p1; ..; pL] c = p1 c + p1 p2 c^2 + .. + p1..pL c^L ;  with p_l = dt / l this is sum_{l=1..L} (dt c)^l / l! *)
  Fixpoint tq (prefs : list R) (c : R) : R :=
    match prefs with
    | [] => 0
    | p :: ps => p * c * (1 + tq ps c)
    end.
  Definition tfactor (prefs : list R) (c : R) : R := 1 + tq prefs c.

  Lemma scalar_tloop prefs c r1 r2 :
    snd (tloop (radd R) (rmul R) (fun x => c * x) prefs r1 r2) = r2 + r1 * tq prefs c.
  Proof.
    revert r1 r2; induction prefs as [|p ps IH]; intros r1 r2; cbn [tloop snd tq]; [ring|].
    rewrite IH. ring.
  Qed.

  Theorem scalar_tstep prefs c x : tstep (radd R) (rmul R) (fun x => c * x) prefs x = x * tfactor prefs c.
  Proof. unfold tstep, tfactor. rewrite scalar_tloop. ring. Qed.

  Lemma tfactor_order2 p1 p2 c : tfactor [p1; p2] c = 1 + p1 * c + p1 * p2 * (c * c).
  Proof. unfold tfactor. cbn [tq]. ring. Qed.

  (* one refined step of the scalar propagation of Section Diag: multiply by the truncated exponential, then by the dephasing factor *)
  Theorem scalar_gstep (cf d : nat -> R) prefs j x :
    gstep (radd R) (rmul R) (fun j x => cf j * x) (fun j x => x * d j) prefs j x = x * tfactor prefs (cf j) * d j.
  Proof. unfold gstep. now rewrite scalar_tstep. Qed.
End ScalarStep.
