(* The order-loop body of the short-exponential nests in the form the translator (harness/translate2.py) produces it:
   one pass maps (rho1, rho2) to (F c rho1, rho2 + F c rho1) where F c is the scaled generator of that pass.
   Folding it over the prefactors is the inner loop [tloop]/[tstep] of Base/Taylor.v. *)
From Coq Require Import List.
From QV Require Import Base.Taylor Base.TaylorG.
Import ListNotations.

Section TaylorGen.
  Variable S V : Type.
  Variable vadd : V -> V -> V.

  Definition taylor_body (F : S -> V -> V) (c : S) (st : V * V) : V * V :=
    let r1' := F c (fst st) in (r1', vadd (snd st) r1').

  Lemma fold_body_is_tloop (vscale : S -> V -> V) (G : V -> V) (body : S -> V * V -> V * V) :
    (forall c st, body c st = taylor_body (fun c x => vscale c (G x)) c st) ->
    forall prefs r1 r2, fold_left (fun st c => body c st) prefs (r1, r2) = tloop vadd vscale G prefs r1 r2.
  Proof.
    intros Hb prefs. induction prefs as [|c cs IH]; intros r1 r2; cbn [fold_left tloop]; [reflexivity|].
    rewrite Hb. unfold taylor_body. cbn [fst snd]. apply IH.
  Qed.

  Lemma fold_body_is_tstep (vscale : S -> V -> V) (G : V -> V) (body : S -> V * V -> V * V) :
    (forall c st, body c st = taylor_body (fun c x => vscale c (G x)) c st) ->
    forall prefs r, snd (fold_left (fun st c => body c st) prefs (r, r)) = tstep vadd vscale G prefs r.
  Proof. intros Hb prefs r. unfold tstep. now rewrite (fold_body_is_tloop vscale G body Hb). Qed.

  (* generators given as a sum of parts (commutator + relaxation increment): the fold only depends on the sum *)
  Lemma fold_body_ext (F F' : S -> V -> V) : (forall c x, F c x = F' c x) ->
    forall prefs st, fold_left (fun st c => taylor_body F c st) prefs st = fold_left (fun st c => taylor_body F' c st) prefs st.
  Proof.
    intros HF prefs. induction prefs as [|c cs IH]; intros st; cbn [fold_left]; [reflexivity|].
    unfold taylor_body at 2 4. rewrite HF. apply IH.
  Qed.
End TaylorGen.
Arguments taylor_body {S V} vadd F c st.
