From Coq Require Import ZArith List Bool Lia Arith.
From QV Require Import Base.Alg Model.C19.
Import ListNotations.

Section Proofs.
  Context {R : StarRing}.
  Add Ring Rr : (rth R).
  Open Scope sr_scope.
  Notation st := (@st R).

  Lemma oadd_oget (a : R) o : oadd a o = a + oget o.
  Proof. destruct o; cbn; ring. Qed.

  Lemma lsum_app (l m : list R) : lsum (l ++ m) = lsum l + lsum m.
  Proof.
    induction l as [|x l IH].
    - change (lsum ([] ++ m)) with (lsum m). change (lsum []) with (r0 R). ring.
    - change (lsum ((x :: l) ++ m)) with (x + lsum (l ++ m)). change (lsum (x :: l)) with (x + lsum l). rewrite IH. ring.
  Qed.

  Lemma lsum_nil : lsum (R:=R) [] = 0. Proof. reflexivity. Qed.
  Lemma lsum_cons (x : R) l : lsum (x :: l) = x + lsum l. Proof. reflexivity. Qed.
  Ltac lsimp := rewrite ?lsum_cons, ?lsum_nil.

  Lemma ptype_eqb_refl p : ptype_eqb p p = true.
  Proof. destruct p; reflexivity. Qed.
  Lemma ptype_eqb_eq p q : ptype_eqb p q = true -> p = q.
  Proof. destruct p, q; cbn; congruence. Qed.

  (* ---- membership of an added item in the views ---- *)
  Definition in_types (p : ptype) (l : list ptype) : bool := existsb (ptype_eqb p) l.
  Definition belongs_type (d : dtype) (p : ptype) : bool := match d with DP p' => ptype_eqb p' p | _ => false end.
  Definition belongs_process (d : dtype) (q : process) : bool :=
    match d with DP p => in_types p (types_of_process q) | DQ q' => process_eqb q' q | _ => false end.
  Definition belongs_signal (d : dtype) (g : signal) : bool :=
    match d with DP p => in_types p (types_of_signal g) | DS g' => signal_eqb g' g | _ => false end.
  Definition pick (b : bool) (v : R) : R := if b then v else 0.

  (* the state on which _add_data works after its initialisation prelude *)
  Definition base (s : st) (reso : option level) : st :=
    if init s then s
    else mkSt (match reso with Some r => r | None => res s end) true true (cur s) (ctag s) [] none_p none_q none_s None.

  Lemma view_type_set_flag (s : st) d t p : view_type (set_flag s d t) p = view_type s p.
  Proof. reflexivity. Qed.

  (* appending one pathway *)
  Lemma pw_of_app (s s' : st) p t v p' : pw s' = pw s ++ [(p, t, v)] ->
    pw_of s' p' = pw_of s p' ++ (if ptype_eqb p p' then [(t, v)] else []).
  Proof.
    intros H. unfold pw_of. rewrite H, filter_app, map_app. cbn [filter fst snd].
    destruct (ptype_eqb p p'); reflexivity.
  Qed.

  Lemma pw_type_sum_app (s s' : st) p t v p' : pw s' = pw s ++ [(p, t, v)] ->
    pw_type_sum s' p' = pw_type_sum s p' + pick (ptype_eqb p p') v.
  Proof.
    intros H. unfold pw_type_sum. rewrite (pw_of_app s s' p t v p' H), map_app, lsum_app.
    destruct (ptype_eqb p p'); cbn [map snd pick]; lsimp; ring.
  Qed.

  Lemma alookup_app t l m : alookup (R:=R) t (l ++ m) = match alookup t l with Some v => Some v | None => alookup t m end.
  Proof. induction l as [|[t' v] l IH]; cbn; [reflexivity|]. destruct (otag_eqb t t'); auto. Qed.

  (* ---------------- reading = views ---------------- *)
  Lemma fold_oadd {K} (f : K -> option R) ks a :
    fold_left (fun a k => oadd a (f k)) ks a = a + lsum (map (fun k => oget (f k)) ks).
  Proof.
    revert a; induction ks as [|k ks IH]; intros a; cbn [fold_left map]; [lsimp; ring|].
    rewrite IH, oadd_oget. lsimp. ring.
  Qed.

  Lemma types_sum_init (s : st) ps : init s = true ->
    types_sum s ps = Some (lsum (map (fun p => oget (ty s p)) ps)).
  Proof. intros H. unfold types_sum. rewrite H. rewrite fold_oadd. f_equal. ring. Qed.

  Lemma read_total (s : st) t : init s = true -> attr s = true ->
    read (set_flag s DTot t) = RVal (Some (view_total s)) \/ (res s = Off /\ read (set_flag s DTot t) = RVal (tot s)).
  Proof.
    intros Hi Ha. unfold read, view_total. cbn [attr set_flag res cur init ctag]. rewrite Ha, Hi. cbn [negb].
    destruct (res s) eqn:Er.
    - right. split; reflexivity.
    - left. unfold osum. rewrite fold_oadd. do 2 f_equal. cbn [sg set_flag]. ring.
    - left. unfold osum. rewrite fold_oadd. do 2 f_equal. cbn [pr set_flag]. ring.
    - left. do 2 f_equal. rewrite (fold_oadd (fun q => types_sum (set_flag s DTot t) (types_of_process q))).
      unfold view_type. rewrite Er.
      cbn [map all_processes]. rewrite !(types_sum_init (set_flag s DTot t)) by exact Hi.
      cbn [oget map types_of_process all_ptypes ty set_flag]. lsimp. ring.
    - left. do 2 f_equal. unfold view_type. rewrite Er.
      change (pw_type_sum (set_flag s DTot t)) with (pw_type_sum s).
      cbn [map all_signals all_ptypes types_of_signal]. lsimp. ring.
  Qed.

  Lemma read_signal_hi (s : st) g t : init s = true -> attr s = true -> (3 <= lnum (res s))%nat ->
    read (set_flag s (DS g) t) = RVal (Some (view_signal s g)).
  Proof.
    intros Hi Ha Hl. unfold read, view_signal. cbn [attr set_flag res cur init ctag]. rewrite Ha, Hi. cbn [negb].
    destruct (res s) eqn:Er; cbn in Hl; try lia.
    - rewrite (types_sum_init (set_flag s (DS g) t)) by exact Hi. unfold view_type. rewrite Er. reflexivity.
    - unfold view_type. rewrite Er. reflexivity.
  Qed.

  Lemma read_process_hi (s : st) q t : init s = true -> attr s = true -> (3 <= lnum (res s))%nat ->
    read (set_flag s (DQ q) t) = RVal (Some (view_process s q)).
  Proof.
    intros Hi Ha Hl. unfold read, view_process. cbn [attr set_flag res cur init ctag]. rewrite Ha, Hi. cbn [negb].
    destruct (res s) eqn:Er; cbn in Hl; try lia.
    - rewrite (types_sum_init (set_flag s (DQ q) t)) by exact Hi. unfold view_type. rewrite Er. reflexivity.
    - unfold view_type. rewrite Er. reflexivity.
  Qed.

  Lemma read_type_pathways (s : st) p : init s = true -> attr s = true -> res s = Pathways ->
    read (set_flag s (DP p) None) = RVal (Some (view_type s p)).
  Proof.
    intros Hi Ha Er. unfold read, view_type. cbn [attr set_flag res cur init ctag]. rewrite Ha, Hi, Er. cbn [negb].
    unfold pw_type_sum. change (pw_of (set_flag s (DP p) None) p) with (pw_of s p).
    destruct (pw_of s p); reflexivity.
  Qed.

  Lemma read_stored_level (s : st) t :
    attr s = true ->
    (forall p, res s = Types -> read (set_flag s (DP p) t) = RVal (ty s p)) /\
    (forall q, res s = Processes -> read (set_flag s (DQ q) t) = RVal (pr s q)) /\
    (forall g, res s = Signals -> read (set_flag s (DS g) t) = RVal (sg s g)).
  Proof.
    intros Ha. repeat split; intros x Er; unfold read; cbn [attr set_flag res cur init ctag]; rewrite Ha, Er; reflexivity.
  Qed.

  (* ---------------- an accepted addition ---------------- *)
  Definition same_flags_store_except_pw (u u' : st) :=
    res u' = res u /\ init u' = init u /\ attr u' = attr u /\ ty u' = ty u /\ pr u' = pr u /\ sg u' = sg u /\ tot u' = tot u.

  (* shape of the state after an accepted accumulate (repaired variant) *)
  Lemma accumulate_shape (u u' : st) data : init u = true -> attr u = true ->
    accumulate NoneTagRefused u data = (u', true) ->
    (res u = Pathways /\ exists p t v, cur u = DP p /\ ctag u = Some t /\ alookup (Some t) (pw_of u p) = None /\ v = data + 0 /\
        u' = mkSt (res u) (init u) (attr u) (cur u) (ctag u) (pw u ++ [(p, Some t, v)]) (ty u) (pr u) (sg u) (tot u)) \/
    (res u = Types /\ exists p, cur u = DP p /\
        u' = mkSt (res u) (init u) (attr u) (cur u) (ctag u) (pw u) (upd_p (ty u) p (oget (ty u p) + data)) (pr u) (sg u) (tot u)) \/
    (res u = Processes /\ exists q, cur u = DQ q /\
        u' = mkSt (res u) (init u) (attr u) (cur u) (ctag u) (pw u) (ty u) (upd_q (pr u) q (oget (pr u q) + data)) (sg u) (tot u)) \/
    (res u = Signals /\ exists g, cur u = DS g /\
        u' = mkSt (res u) (init u) (attr u) (cur u) (ctag u) (pw u) (ty u) (pr u) (upd_s (sg u) g (oget (sg u g) + data)) (tot u)) \/
    (res u = Off /\ cur u = DTot /\
        u' = mkSt (res u) (init u) (attr u) (cur u) (ctag u) (pw u) (ty u) (pr u) (sg u) (Some (oget (tot u) + data))).
  Proof.
    intros Hi Ha. unfold accumulate, write, ensure_init. rewrite Hi. cbv zeta. unfold read. rewrite Ha, ?Hi. cbn [negb].
    destruct (res u) eqn:Er.
    - (* Off *) destruct (cur u) eqn:Ec; try (intros [= _ E]; discriminate).
      intros [= <-]. right; right; right; right. split; [reflexivity|]. split; [reflexivity|].
      f_equal. destruct (tot u); cbn [oget]; f_equal; ring.
    - (* Signals *) destruct (cur u) eqn:Ec; try (intros [= _ E]; discriminate).
      intros [= <-]. right; right; right; left. split; [reflexivity|]. exists s. split; [reflexivity|].
      f_equal. destruct (sg u s); cbn [oget]; f_equal; ring.
    - (* Processes *) destruct (cur u) eqn:Ec; try (intros [= _ E]; discriminate).
      intros [= <-]. right; right; left. split; [reflexivity|]. exists q. split; [reflexivity|].
      f_equal. destruct (pr u q); cbn [oget]; f_equal; ring.
    - (* Types *) destruct (cur u) eqn:Ec; try (intros [= _ E]; discriminate).
      intros [= <-]. right; left. split; [reflexivity|]. exists p. split; [reflexivity|].
      f_equal. destruct (ty u p); cbn [oget]; f_equal; ring.
    - (* Pathways *) destruct (cur u) eqn:Ec; try (intros [= _ E]; discriminate).
      destruct (ctag u) as [t|] eqn:Et; [|intros [= _ E]; discriminate].
      destruct (pw_of u p) as [|e l] eqn:Ep.
      + cbn [alookup]. intros [= <-]. left. split; [reflexivity|].
        exists p, t, (0 + data). split; [reflexivity|]. split; [reflexivity|]. split; [rewrite Ep; reflexivity|]. split; [ring|reflexivity].
      + destruct (alookup (Some t) (e :: l)) eqn:El; [intros [= _ E]; discriminate|].
        intros [= <-]. left. split; [reflexivity|].
        exists p, t, data. split; [reflexivity|]. split; [reflexivity|]. split; [rewrite Ep; exact El|]. split; [ring|reflexivity].
  Qed.

  Definition deltas (b s' : st) (d : dtype) (data : R) : Prop :=
    init s' = true /\ attr s' = true /\ res s' = res b /\
    view_total s' = view_total b + data /\
    (forall g, view_signal s' g = view_signal b g + pick (belongs_signal d g) data) /\
    (forall q, view_process s' q = view_process b q + pick (belongs_process d q) data) /\
    (forall p, view_type s' p = view_type b p + pick (belongs_type d p) data).

  Lemma accumulate_deltas (u u' : st) data : init u = true -> attr u = true ->
    accumulate NoneTagRefused u data = (u', true) -> deltas u u' (cur u) data.
  Proof.
    intros Hi Ha H. destruct (accumulate_shape u u' data Hi Ha H) as [[Er [p [t [v [Ec [Et [El [Ev ->]]]]]]]]|[[Er [p [Ec ->]]]|[[Er [q [Ec ->]]]|[[Er [g [Ec ->]]]|[Er [Ec ->]]]]]].
    - (* pathways *)
      set (u' := mkSt (res u) (init u) (attr u) (cur u) (ctag u) (pw u ++ [(p, Some t, v)]) (ty u) (pr u) (sg u) (tot u)).
      assert (forall p', view_type u' p' = view_type u p' + pick (ptype_eqb p p') data) as Hvt.
      { intros p'. unfold view_type. cbn [res u']. rewrite Er.
        rewrite (pw_type_sum_app u u' p (Some t) v p' eq_refl). rewrite Ev. destruct (ptype_eqb p p'); cbn [pick]; ring. }
      unfold deltas. rewrite Ec. cbn [belongs_type belongs_signal belongs_process].
      split; [exact Hi|]. split; [exact Ha|]. split; [reflexivity|].
      unfold view_total, view_signal, view_process. cbn [res u']. rewrite Er.
      split; [|split; [|split]].
      + cbn [map all_ptypes]. lsimp. rewrite !Hvt. destruct p; cbn [pick ptype_eqb]; ring.
      + intros g. destruct g; cbn [map types_of_signal]; lsimp; rewrite !Hvt; destruct p; cbn [pick ptype_eqb in_types existsb orb types_of_signal]; ring.
      + intros q. destruct q; cbn [map types_of_process]; lsimp; rewrite !Hvt; destruct p; cbn [pick ptype_eqb in_types existsb orb types_of_process]; ring.
      + exact Hvt.
    - (* types *)
      set (u' := mkSt (res u) (init u) (attr u) (cur u) (ctag u) (pw u) (upd_p (ty u) p (oget (ty u p) + data)) (pr u) (sg u) (tot u)).
      assert (forall p', view_type u' p' = view_type u p' + pick (ptype_eqb p p') data) as Hvt.
      { intros p'. unfold view_type. cbn [res u' ty]. rewrite Er. unfold upd_p.
        destruct p, p'; cbn [ptype_eqb pick oget]; ring. }
      unfold deltas. rewrite Ec. cbn [belongs_type belongs_signal belongs_process].
      split; [exact Hi|]. split; [exact Ha|]. split; [reflexivity|].
      unfold view_total, view_signal, view_process. cbn [res u']. rewrite Er.
      split; [|split; [|split]].
      + cbn [map all_ptypes]. lsimp. rewrite !Hvt. destruct p; cbn [pick ptype_eqb]; ring.
      + intros g. destruct g; cbn [map types_of_signal]; lsimp; rewrite !Hvt; destruct p; cbn [pick ptype_eqb in_types existsb orb types_of_signal]; ring.
      + intros q. destruct q; cbn [map types_of_process]; lsimp; rewrite !Hvt; destruct p; cbn [pick ptype_eqb in_types existsb orb types_of_process]; ring.
      + exact Hvt.
    - (* processes *)
      unfold deltas. rewrite Ec. cbn [belongs_type belongs_signal belongs_process].
      split; [exact Hi|]. split; [exact Ha|]. split; [reflexivity|].
      unfold view_total, view_signal, view_process, view_type. cbn [res pr]. rewrite Er. unfold upd_q.
      split; [|split; [|split]].
      + cbn [map all_processes]. lsimp. destruct q; cbn [process_eqb oget]; ring.
      + intros g. cbn [pick]. ring.
      + intros q'. destruct q, q'; cbn [process_eqb oget pick]; ring.
      + intros p'. cbn [pick]. ring.
    - (* signals *)
      unfold deltas. rewrite Ec. cbn [belongs_type belongs_signal belongs_process].
      split; [exact Hi|]. split; [exact Ha|]. split; [reflexivity|].
      unfold view_total, view_signal, view_process, view_type. cbn [res sg]. rewrite Er. unfold upd_s.
      split; [|split; [|split]].
      + cbn [map all_signals]. lsimp. destruct g; cbn [signal_eqb oget]; ring.
      + intros g'. destruct g, g'; cbn [signal_eqb oget pick]; ring.
      + intros q'. cbn [pick]. ring.
      + intros p'. cbn [pick]. ring.
    - (* off *)
      unfold deltas. rewrite Ec. cbn [belongs_type belongs_signal belongs_process].
      split; [exact Hi|]. split; [exact Ha|]. split; [reflexivity|].
      unfold view_total, view_signal, view_process, view_type. cbn [res tot]. rewrite Er.
      split; [|split; [|split]]; intros; cbn [pick oget]; ring.
  Qed.

  (* well-formedness of reachable states: an initialised store exists *)
  Definition wf (s : st) : Prop := init s = true -> attr s = true.

  Lemma base_init (s : st) reso : init (base s reso) = true.
  Proof. unfold base. destruct (init s) eqn:E; [exact E|reflexivity]. Qed.
  Lemma base_attr (s : st) reso : wf s -> attr (base s reso) = true.
  Proof. unfold base, wf. destruct (init s) eqn:E; [auto|reflexivity]. Qed.

  Lemma deltas_set_flag (b s' : st) d0 t0 d data : deltas (set_flag b d0 t0) s' d data -> deltas b s' d data.
  Proof. intros H. exact H. Qed.

  Lemma add_deltas (s s' : st) data reso d t : wf s ->
    add_data NoneTagRefused s data reso d t = (s', true) -> deltas (base s reso) s' d data.
  Proof.
    intros Hwf. unfold add_data. fold (base s reso).
    pose proof (base_init s reso) as Hi. pose proof (base_attr s reso Hwf) as Ha.
    set (b := base s reso) in *.
    assert (forall t', accumulate NoneTagRefused (set_flag b d t') data = (s', true) -> deltas b s' d data) as Hacc.
    { intros t' H. apply (deltas_set_flag b s' d t' d data).
      exact (accumulate_deltas (set_flag b d t') s' data Hi Ha H). }
    destruct reso as [r|].
    - destruct (Nat.leb (lnum r) (lnum (res b))); [|intros [= _ E]; discriminate].
      destruct r; destruct d; destruct t; try (intros [= _ E]; discriminate); apply Hacc.
    - destruct (res b); destruct d; destruct t; try (intros [= _ E]; discriminate); apply Hacc.
  Qed.

  (* refused operations leave the stored data as they are *)
  Definition same_store (a b : st) : Prop :=
    res a = res b /\ init a = init b /\ attr a = attr b /\ pw a = pw b /\ ty a = ty b /\ pr a = pr b /\ sg a = sg b /\ tot a = tot b.

  Lemma same_store_refl a : same_store a a.
  Proof. repeat split. Qed.

  Lemma write_refused vr (u u' : st) v : init u = true -> write vr u v = (u', false) -> u' = u.
  Proof.
    intros Hi. unfold write, ensure_init. rewrite Hi. cbv zeta.
    destruct (res u); destruct (cur u); try (intros [= <-]; reflexivity); try (intros [= _ E]; discriminate).
    destruct vr; destruct (ctag u); try (intros [= <-]; reflexivity);
      destruct (alookup _ (pw_of u p)); try (intros [= <-]; reflexivity); intros [= _ E]; discriminate.
  Qed.

  Lemma add_refused vr (s s' : st) data reso d t :
    add_data vr s data reso d t = (s', false) -> same_store s' (base s reso).
  Proof.
    unfold add_data. fold (base s reso). pose proof (base_init s reso) as Hi. set (b := base s reso) in *.
    assert (forall t', accumulate vr (set_flag b d t') data = (s', false) -> same_store s' b) as Hacc.
    { intros t' H. unfold accumulate in H. apply write_refused in H; [|exact Hi]. subst s'. repeat split. }
    destruct reso as [r|].
    - destruct (Nat.leb (lnum r) (lnum (res b))); [|intros [= <-]; apply same_store_refl].
      destruct r; destruct d; destruct t; try (intros [= <-]; apply same_store_refl); apply Hacc.
    - destruct (res b); destruct d; destruct t; try (intros [= <-]; apply same_store_refl); apply Hacc.
  Qed.

  (* ---------------- reductions of the resolution ---------------- *)
  Definition hi (l : level) : Prop := l = Pathways \/ l = Types.
  (* what remains readable after a reduction has the same value as before *)
  Definition views_kept (s s' : st) : Prop :=
    view_total s' = view_total s /\
    (hi (res s') \/ res s' = Signals -> forall g, view_signal s' g = view_signal s g) /\
    (hi (res s') \/ res s' = Processes -> forall q, view_process s' q = view_process s q) /\
    (hi (res s') -> forall p, view_type s' p = view_type s p).

  Lemma conv_kept (s s' : st) new : init s = true -> attr s = true -> conv s new = Some s' ->
    views_kept s s' /\ res s' = new /\ init s' = true /\ attr s' = true /\ (lnum new < lnum (res s))%nat.
  Proof.
    intros Hi Ha. unfold conv. destruct (res s) eqn:Er; destruct new; try discriminate; intros [= <-];
      (split; [|cbn [res init attr with_store]; rewrite ?Hi; repeat split; cbn; lia]); unfold views_kept, hi;
      cbn [res with_store].
    - (* processes -> off *)
      unfold view_total, view_signal, view_process, view_type. cbn [res with_store tot]. rewrite Er, Hi.
      split; [|repeat split; intros [[H|H]|H]; discriminate || (intros; discriminate)].
      unfold osum. rewrite fold_oadd. cbn [oget]. ring.
    - (* signals -> off *)
      unfold view_total, view_signal, view_process, view_type. cbn [res with_store tot]. rewrite Er, Hi.
      split; [|repeat split; intros [[H|H]|H]; discriminate || (intros; discriminate)].
      unfold osum. rewrite fold_oadd. cbn [oget]. ring.
    - (* types -> signals *)
      unfold view_total, view_signal, view_process, view_type. cbn [res with_store sg]. rewrite Er.
      split; [|split; [|split]].
      + cbn [map all_signals all_ptypes]. rewrite !(types_sum_init s) by exact Hi. cbn [oget map types_of_signal]. lsimp. ring.
      + intros _ g. rewrite (types_sum_init s) by exact Hi. reflexivity.
      + intros [[H|H]|H]; discriminate.
      + intros [H|H]; discriminate.
    - (* types -> processes *)
      unfold view_total, view_signal, view_process, view_type. cbn [res with_store pr]. rewrite Er.
      split; [|split; [|split]].
      + cbn [map all_processes all_ptypes]. rewrite !(types_sum_init s) by exact Hi. cbn [oget map types_of_process]. lsimp. ring.
      + intros [[H|H]|H]; discriminate.
      + intros _ q. rewrite (types_sum_init s) by exact Hi. reflexivity.
      + intros [H|H]; discriminate.
    - (* pathways -> types *)
      assert (forall p, view_type (with_store s Types [] (fun p => Some (if attr s then pw_type_sum s p else 0)) none_q none_s None) p = view_type s p) as Hvt.
      { intros p. unfold view_type. cbn [res with_store ty oget]. rewrite Er, Ha. reflexivity. }
      unfold view_total, view_signal, view_process. cbn [res with_store]. rewrite Er.
      split; [|split; [|split]].
      + cbn [map all_ptypes]. rewrite !Hvt. reflexivity.
      + intros _ g. destruct g; cbn [map types_of_signal]; rewrite !Hvt; reflexivity.
      + intros _ q. destruct q; cbn [map types_of_process]; rewrite !Hvt; reflexivity.
      + intros _. exact Hvt.
  Qed.

  Lemma conv_init (s s' : st) new : conv s new = Some s' -> init s' = init s.
  Proof. unfold conv. destruct (res s); destruct new; try discriminate; intros [= <-]; reflexivity. Qed.

  Lemma conv_readable (s s' : st) new : conv s new = Some s' ->
    (hi (res s') \/ res s' = Signals -> hi (res s)) /\ (hi (res s') \/ res s' = Processes -> hi (res s)) /\ (hi (res s') -> hi (res s)).
  Proof.
    unfold conv, hi. destruct (res s); destruct new; try discriminate; intros [= <-]; cbn [res with_store];
      repeat split; intros H; try (now left); try (now right); repeat (destruct H as [H|H]; try discriminate).
  Qed.

  (* ---------------- histories ---------------- *)
  Notation entry := (dtype * car R)%type.
  Definition tsum (log : list entry) : R := lsum (map snd log).
  Definition ssum (g : signal) (log : list entry) : R := lsum (map (fun e => pick (belongs_signal (fst e) g) (snd e)) log).
  Definition qsum (q : process) (log : list entry) : R := lsum (map (fun e => pick (belongs_process (fst e) q) (snd e)) log).
  Definition psum (p : ptype) (log : list entry) : R := lsum (map (fun e => pick (belongs_type (fst e) p) (snd e)) log).

  (* the history together with the ghost log of accepted additions *)
  Fixpoint run_log (s : st) (ops : list op) (log : list entry) : st * list entry :=
    match ops with
    | [] => (s, log)
    | o :: rest =>
        let '(s', ok, _) := step NoneTagRefused s o in
        run_log s' rest (match o with OAdd data _ d _ => if ok then log ++ [(d, data)] else log | _ => log end)
    end.

  Lemma run_log_state s ops log : fst (run_log s ops log) = fst (run NoneTagRefused s ops).
  Proof.
    revert s log; induction ops as [|o rest IH]; intros s log; cbn [run_log run]; [reflexivity|].
    destruct (step NoneTagRefused s o) as [[s' ok] r]. rewrite IH.
    destruct (run NoneTagRefused s' rest). reflexivity.
  Qed.

  Definition Inv (s : st) (log : list entry) : Prop :=
    wf s /\ (init s = false -> log = []) /\
    (init s = true ->
       view_total s = tsum log /\
       (hi (res s) \/ res s = Signals -> forall g, view_signal s g = ssum g log) /\
       (hi (res s) \/ res s = Processes -> forall q, view_process s q = qsum q log) /\
       (hi (res s) -> forall p, view_type s p = psum p log)).

  Lemma empty_views (b : st) : pw b = [] -> ty b = none_p -> pr b = none_q -> sg b = none_s -> tot b = None ->
    view_total b = 0 /\ (forall g, view_signal b g = 0) /\ (forall q, view_process b q = 0) /\ (forall p, view_type b p = 0).
  Proof.
    intros Hp Ht Hq Hs Htot.
    assert (forall p, view_type b p = 0) as Hvt.
    { intros p. unfold view_type, pw_type_sum, pw_of. rewrite Hp, Ht. destruct (res b); reflexivity. }
    unfold view_total, view_signal, view_process. rewrite Hq, Hs, Htot.
    repeat split; try exact Hvt; intros; destruct (res b); try destruct g; try destruct q;
      cbn [map all_ptypes all_processes all_signals types_of_signal types_of_process oget none_q none_s]; lsimp; rewrite ?Hvt; ring.
  Qed.

  Lemma views_same_store (a b : st) : same_store a b ->
    view_total a = view_total b /\ (forall g, view_signal a g = view_signal b g) /\
    (forall q, view_process a q = view_process b q) /\ (forall p, view_type a p = view_type b p).
  Proof.
    intros [Hr [_ [_ [Hp [Ht [Hq [Hs Htot]]]]]]].
    assert (forall p, view_type a p = view_type b p) as Hvt.
    { intros p. unfold view_type, pw_type_sum, pw_of. now rewrite Hr, Hp, Ht. }
    unfold view_total, view_signal, view_process. rewrite Hr, Hq, Hs, Htot.
    repeat split; try exact Hvt; intros; destruct (res b); try reflexivity;
      repeat (f_equal; try apply map_ext; intros; try apply Hvt).
  Qed.

  Lemma sums_snoc log d data :
    tsum (log ++ [(d, data)]) = tsum log + data /\
    (forall g, ssum g (log ++ [(d, data)]) = ssum g log + pick (belongs_signal d g) data) /\
    (forall q, qsum q (log ++ [(d, data)]) = qsum q log + pick (belongs_process d q) data) /\
    (forall p, psum p (log ++ [(d, data)]) = psum p log + pick (belongs_type d p) data).
  Proof.
    unfold tsum, ssum, qsum, psum. repeat split; intros; rewrite map_app, lsum_app; cbn [map fst snd]; lsimp; ring.
  Qed.

  Lemma Inv_fresh : Inv fresh [].
  Proof. unfold Inv, wf. cbn [init fresh]. repeat split; intros; discriminate. Qed.

  Lemma Inv_step (s : st) log o : Inv s log ->
    let '(s', ok, _) := step NoneTagRefused s o in
    Inv s' (match o with OAdd data _ d _ => if ok then log ++ [(d, data)] else log | _ => log end).
  Proof.
    intros [Hwf [Hun Hin]]. destruct o as [data reso d t|new|d t al]; cbn [step].
    - (* add *)
      destruct (add_data NoneTagRefused s data reso d t) as [s' ok] eqn:E. destruct ok.
      + pose proof (add_deltas s s' data reso d t Hwf E) as [Hi' [Ha' [Hr' [Ht [Hs [Hq Hp]]]]]].
        destruct (sums_snoc log d data) as [St [Ss [Sq Sp]]].
        assert (view_total (base s reso) = tsum log /\
                (hi (res s') \/ res s' = Signals -> forall g, view_signal (base s reso) g = ssum g log) /\
                (hi (res s') \/ res s' = Processes -> forall q, view_process (base s reso) q = qsum q log) /\
                (hi (res s') -> forall p, view_type (base s reso) p = psum p log)) as [Bt [Bs [Bq Bp]]].
        { rewrite Hr'. unfold base. destruct (init s) eqn:Ei.
          - exact (Hin eq_refl).
          - rewrite (Hun eq_refl).
            destruct (empty_views (mkSt (match reso with Some r => r | None => res s end) true true (cur s) (ctag s) [] none_p none_q none_s None)
                        eq_refl eq_refl eq_refl eq_refl eq_refl) as [Et [Es [Eq Ep]]].
            repeat split; intros; rewrite ?Et, ?Es, ?Eq, ?Ep; reflexivity. }
        cbv beta iota. split; [intros _; exact Ha'|]. split; [intros H; rewrite Hi' in H; discriminate|]. intros _.
        split; [rewrite Ht, St, Bt; reflexivity|].
        split; [intros H g; rewrite Hs, Ss, (Bs H); reflexivity|].
        split; [intros H q; rewrite Hq, Sq, (Bq H); reflexivity|].
        intros H p. rewrite Hp, Sp, (Bp H). reflexivity.
      + pose proof (add_refused NoneTagRefused s s' data reso d t E) as Hss.
        destruct (views_same_store s' (base s reso) Hss) as [Vt [Vs [Vq Vp]]].
        destruct Hss as [Hr [Hi [Ha _]]]. rewrite base_init in Hi. rewrite (base_attr s reso Hwf) in Ha.
        cbv beta iota. split; [intros _; exact Ha|]. split; [intros H; rewrite Hi in H; discriminate|]. intros _.
        rewrite Vt, Hr. unfold base. destruct (init s) eqn:Ei.
        * destruct (Hin eq_refl) as [It [Is [Iq Ip]]].
          split; [exact It|]. split; [intros H g; rewrite Vs; unfold base; rewrite Ei; exact (Is H g)|].
          split; [intros H q; rewrite Vq; unfold base; rewrite Ei; exact (Iq H q)|].
          intros H p; rewrite Vp; unfold base; rewrite Ei; exact (Ip H p).
        * rewrite (Hun eq_refl).
          destruct (empty_views (mkSt (match reso with Some r => r | None => res s end) true true (cur s) (ctag s) [] none_p none_q none_s None)
                        eq_refl eq_refl eq_refl eq_refl eq_refl) as [Et [Es [Eq Ep]]].
          split; [exact Et|]. split; [intros _ g; rewrite Vs; unfold base; rewrite Ei; exact (Es g)|].
          split; [intros _ q; rewrite Vq; unfold base; rewrite Ei; exact (Eq q)|].
          intros _ p; rewrite Vp; unfold base; rewrite Ei; exact (Ep p).
    - (* set_resolution *)
      assert (forall path (u : st), Inv u log -> forall u', conv_along u path = Some u' -> Inv u' log) as Hpath.
      { induction path as [|l rest IH]; intros u Hu u'; cbn [conv_along]; [intros [= <-]; exact Hu|].
        destruct (conv u l) as [u1|] eqn:Ec; [|discriminate]. intros Hrest. apply (IH u1); [|exact Hrest].
        destruct Hu as [Uwf [Uun Uin]]. pose proof (conv_init u u1 l Ec) as Ci.
        destruct (init u) eqn:Ei.
        - pose proof (conv_kept u u1 l Ei (Uwf Ei) Ec) as [[Kt [Ks [Kq Kp]]] [Kr [Ki [Ka _]]]].
          destruct (conv_readable u u1 l Ec) as [Rs [Rq Rp]].
          destruct (Uin eq_refl) as [It [Is [Iq Ip]]].
          split; [intros _; exact Ka|]. split; [intros H; rewrite Ki in H; discriminate|]. intros _.
          split; [rewrite Kt; exact It|].
          split; [intros H g; rewrite (Ks H g); apply Is; left; exact (Rs H)|].
          split; [intros H q; rewrite (Kq H q); apply Iq; left; exact (Rq H)|].
          intros H p. rewrite (Kp H p). apply Ip. exact (Rp H).
        - split; [intros H; rewrite Ci in H; discriminate|]. split; [intros _; exact (Uun eq_refl)|].
          intros H; rewrite Ci in H; discriminate. }
      unfold set_resolution. destruct new as [n|]; [|exact (conj Hwf (conj Hun Hin))].
      destruct (Nat.ltb (lnum (res s)) (lnum n)); [exact (conj Hwf (conj Hun Hin))|].
      destruct (Nat.ltb (lnum n) (lnum (res s))); [|exact (conj Hwf (conj Hun Hin))].
      destruct (conv_path (res s) n) as [path|]; [|exact (conj Hwf (conj Hun Hin))].
      destruct (conv_along s path) as [s'|] eqn:Ec; [|exact (conj Hwf (conj Hun Hin))].
      exact (Hpath path s (conj Hwf (conj Hun Hin)) s' Ec).
    - (* read *)
      exact (conj Hwf (conj Hun Hin)).
  Qed.

  Lemma Inv_run (s : st) ops log : Inv s log -> Inv (fst (run_log s ops log)) (snd (run_log s ops log)).
  Proof.
    revert s log; induction ops as [|o rest IH]; intros s log H; cbn [run_log]; [exact H|].
    pose proof (Inv_step s log o H) as Hs. destruct (step NoneTagRefused s o) as [[s' ok] r]. apply IH. exact Hs.
  Qed.

  Lemma set_resolution_refused (s s' : st) new : set_resolution s new = (s', false) -> s' = s.
  Proof.
    unfold set_resolution. destruct new as [n|]; [|intros [= <-]; reflexivity].
    destruct (Nat.ltb (lnum (res s)) (lnum n)); [intros [= <-]; reflexivity|].
    destruct (Nat.ltb (lnum n) (lnum (res s))); [|intros [= _ E]; discriminate].
    destruct (conv_path (res s) n); [|intros [= <-]; reflexivity].
    destruct (conv_along s l); [intros [= _ E]; discriminate|intros [= <-]; reflexivity].
  Qed.

  (* what a reader of the final state of any history sees *)
  Lemma history_reads ops : let s := fst (run_log fresh ops []) in let log := snd (run_log fresh ops []) in
    init s = true ->
    (exists o, read (set_flag s DTot None) = RVal o /\ oget o = tsum log) /\
    (hi (res s) -> forall g, read (set_flag s (DS g) None) = RVal (Some (ssum g log))) /\
    (hi (res s) -> forall q, read (set_flag s (DQ q) None) = RVal (Some (qsum q log))) /\
    (res s = Signals -> forall g, exists o, read (set_flag s (DS g) None) = RVal o /\ oget o = ssum g log) /\
    (res s = Processes -> forall q, exists o, read (set_flag s (DQ q) None) = RVal o /\ oget o = qsum q log) /\
    (res s = Types -> forall p, exists o, read (set_flag s (DP p) None) = RVal o /\ oget o = psum p log) /\
    (res s = Pathways -> forall p, read (set_flag s (DP p) None) = RVal (Some (psum p log))).
  Proof.
    cbv zeta. pose proof (Inv_run fresh ops [] Inv_fresh) as [Hwf [_ Hin]].
    set (s := fst (run_log fresh ops [])) in *. set (log := snd (run_log fresh ops [])) in *.
    intros Hi. pose proof (Hwf Hi) as Ha. destruct (Hin Hi) as [It [Is [Iq Ip]]].
    assert (forall l, hi l -> (3 <= lnum l)%nat) as Hhi by (intros l [-> | ->]; cbn; lia).
    destruct (read_stored_level s None Ha) as [Sp [Sq Ss]].
    split; [|split; [|split; [|split; [|split; [|split]]]]].
    - destruct (read_total s None Hi Ha) as [H|[Er H]].
      + eexists; split; [exact H|]. cbn [oget]. exact It.
      + eexists; split; [exact H|]. rewrite <- It. unfold view_total. rewrite Er. reflexivity.
    - intros H g. rewrite (read_signal_hi s g None Hi Ha (Hhi _ H)). now rewrite (Is (or_introl H) g).
    - intros H q. rewrite (read_process_hi s q None Hi Ha (Hhi _ H)). now rewrite (Iq (or_introl H) q).
    - intros Er g. eexists; split; [exact (Ss g Er)|]. rewrite <- (Is (or_intror Er) g). unfold view_signal. now rewrite Er.
    - intros Er q. eexists; split; [exact (Sq q Er)|]. rewrite <- (Iq (or_intror Er) q). unfold view_process. now rewrite Er.
    - intros Er p. eexists; split; [exact (Sp p Er)|]. rewrite <- (Ip (or_intror Er) p). unfold view_type. now rewrite Er.
    - intros Er p. rewrite (read_type_pathways s p Hi Ha Er). now rewrite (Ip (or_introl Er) p).
  Qed.

  (* the double counting of the pinned variant *)
  Lemma none_tag_double_counts :
    forall a b : R, let '(s, _) := run NoneTagStored fresh [OAdd a None (DP R1g) (Some 1%Z); OAdd b (Some Types) (DP R1g) None] in
    view_total s = a + (a + b).
  Proof.
    intros a b. cbn. unfold view_total, view_type, pw_type_sum, pw_of. cbn. lsimp. ring.
  Qed.
End Proofs.
