(* Refinement: the storage code of twod2.py as transcribed in Model/C19code.v, run under the semantics of
   Model/C19py.v on the Python object [conc s] that represents a model state s, does what Model/C19.v says.
   harness/translate_c19.py re-transcribes the source on every run and proves gen_X = code_X, so that these
   lemmas, and through them the theorems of Props/C19.v, are about the current source. *)
From Coq Require Import ZArith List Bool String Lia.
From QV Require Import Base.Alg Model.C19 Model.C19py Model.C19code Proofs.C19.
Import ListNotations.
Open Scope string_scope.

Arguments pw_of : simpl never.
Arguments pw_type_sum : simpl never.
Arguments alookup : simpl never.
Arguments piece_tags : simpl never.
Arguments piece_set : simpl never.
Arguments lsum : simpl never.

Section Gen.
  Context {R : StarRing}.
  Add Ring Rr : (rth R).
  Open Scope sr_scope.
  Notation st := (@st R).
  Notation pv := (@pv R).
  Notation obj := (@obj R).

  Definition kp (p : ptype) : pv := VKey (DP p).
  Definition optv (o : option R) : pv := match o with Some x => VArr x | None => VNone end.

  (* ---------------- tables ---------------- *)
  Lemma c_ptypes_ok : code_c_ptypes = VList (map kp all_ptypes).
  Proof. reflexivity. Qed.
  Lemma c_processes_ok : code_c_processes = VDict (map (fun q => (VKey (DQ q), VList (map kp (types_of_process q)))) all_processes).
  Proof. reflexivity. Qed.
  Lemma c_signals_ok : code_c_signals = VDict (map (fun g => (VKey (DS g), VList (map kp (types_of_signal g)))) all_signals).
  Proof. reflexivity. Qed.
  Lemma c_total_ok : code_c_total = VKey (R:=R) DTot.
  Proof. reflexivity. Qed.
  Lemma c_resolutions_ok : code_c_resolutions = VList (map (@VLev R) [Off; Signals; Processes; Types; Pathways]).
  Proof. reflexivity. Qed.

  Lemma res2num_ok (o : obj) l : code__resolution2number o [VLev l] = EOk o (VInt (Z.of_nat (lnum l))).
  Proof. destruct l; reflexivity. Qed.
  Lemma res2num_other (o : obj) : code__resolution2number o [VOther] = EEx o EOther.
  Proof. reflexivity. Qed.

  Ltac dsome := match goal with
    | |- context [match option_map SArr ?x with _ => _ end] => destruct x; cbn
    end.
  Ltac py := cbn; repeat dsome.
  Ltac open_state s := destruct s as [r i a c t pw ty pr sg tot]; cbn [res attr init cur ctag] in *; subst.

  (* ---------------- reductions from the "types" level ---------------- *)
  Lemma types_to_processes_ok (s : st) q : res s = Types -> attr s = true ->
    code__types_to_processes (conc s) [VKey (DQ q)] = EOk (conc s) (optv (types_sum s (types_of_process q))).
  Proof. intros; open_state s. destruct q, i; py; reflexivity. Qed.

  Lemma types_to_signals_ok (s : st) g : res s = Types -> attr s = true ->
    code__types_to_signals (conc s) [VKey (DS g)] = EOk (conc s) (optv (types_sum s (types_of_signal g))).
  Proof. intros; open_state s. destruct g, i; py; reflexivity. Qed.

  Opaque code__types_to_processes code__types_to_signals.

  Lemma types_to_total_ok (s : st) : res s = Types -> attr s = true ->
    code__types_to_total (conc s) [] =
    EOk (conc s) (if init s then VArr (fold_left (fun a q => oadd a (types_sum s (types_of_process q))) all_processes 0) else VNone).
  Proof.
    intros; open_state s. destruct i; cbn; [|reflexivity].
    repeat (rewrite types_to_processes_ok by reflexivity; cbn). reflexivity.
  Qed.

  Lemma signals_to_total_ok (s : st) : res s = Signals -> attr s = true ->
    code__signals_to_total (conc s) [] = EOk (conc s) (if init s then VArr (osum (sg s) all_signals) else VNone).
  Proof. intros; open_state s. destruct i; py; reflexivity. Qed.

  Lemma processes_to_total_ok (s : st) : res s = Processes -> attr s = true ->
    code__processes_to_total (conc s) [] = EOk (conc s) (if init s then VArr (osum (pr s) all_processes) else VNone).
  Proof. intros; open_state s. destruct i; py; reflexivity. Qed.

  Opaque code__types_to_total code__signals_to_total code__processes_to_total.

  (* ---------------- tag dictionaries ---------------- *)
  Lemma vtag_tagv t : vtag (R:=R) (tagv t) = Some t.
  Proof. destruct t; reflexivity. Qed.
  Lemma otag_eqb_refl t : otag_eqb t t = true.
  Proof. destruct t; cbn; [apply Z.eqb_refl|reflexivity]. Qed.
  Lemma otag_eqb_eq t u : otag_eqb t u = true -> t = u.
  Proof. destruct t, u; cbn; try congruence. intros H; apply Z.eqb_eq in H; congruence. Qed.
  Lemma alookup_cons t t' (x : R) l : alookup t ((t', x) :: l) = if otag_eqb t t' then Some x else alookup t l.
  Proof. reflexivity. Qed.
  Lemma alookup_none_notin t (l : list (option Z * R)) : alookup t l = None -> ~ In t (map fst l).
  Proof.
    induction l as [|[t' x] l IH]; intros H; [intros []|]. rewrite alookup_cons in H.
    destruct (otag_eqb t t') eqn:E; [discriminate|]. intros [Hin|Hin]; [|exact (IH H Hin)].
    cbn in Hin; subst t'. rewrite otag_eqb_refl in E; discriminate.
  Qed.
  Lemma alookup_in t (x : R) l : NoDup (map fst l) -> In (t, x) l -> alookup t l = Some x.
  Proof.
    induction l as [|[t' y] l IH]; intros Hn Hin; [destruct Hin|]. rewrite alookup_cons.
    cbn [map fst] in Hn. inversion Hn as [|? ? Hnot Hn']; subst. destruct Hin as [Heq|Hin].
    - inversion Heq; subst. now rewrite otag_eqb_refl.
    - destruct (otag_eqb t t') eqn:E; [|now apply IH].
      apply otag_eqb_eq in E; subst t'. exfalso; apply Hnot. change t with (fst (t, x)). now apply in_map.
  Qed.

  Definition lastv (x : pv) (l : list pv) : pv := fold_left (fun _ y => y) l x.
  Definition suml (a : R) (l : list (option Z * R)) : R := fold_left (fun acc e => acc + snd e) l a.
  Arguments suml : simpl never.
  Lemma suml_lsum l a : suml a l = a + lsum (map snd l).
  Proof.
    revert a; induction l as [|e l IH]; intros a; unfold suml; cbn [fold_left map].
    - rewrite lsum_nil. ring.
    - fold (suml (a + snd e) l). rewrite IH, lsum_cons. ring.
  Qed.
  Lemma piece_tags_cons e (l : list (option Z * R)) : piece_tags (e :: l) = tagv (fst e) :: piece_tags l.
  Proof. reflexivity. Qed.
  Lemma piece_tags_nil : piece_tags (R:=R) [] = [].
  Proof. reflexivity. Qed.

  (* for tag in pways: data += pways[tag]   (_pathways_to_processes, _pathways_to_signals) *)
  Definition body_sum : @blk R :=
    s_assign "v1" (e_bin p_add (e_var "v1") (e_bino p_getitem (e_var "v4") (e_var "v5"))).
  Lemma sum_loop_gen (o : obj) d l : piece_of o d = Some l -> NoDup (map fst l) ->
    forall l' a x0 x2 x3 x5, incl l' l ->
    for_loop "v5" body_sum (piece_tags l') o [("v0", x0); ("v1", VArr a); ("v2", x2); ("v3", x3); ("v4", VPieceRef d); ("v5", x5)]
    = BNorm o [("v0", x0); ("v1", VArr (suml a l')); ("v2", x2); ("v3", x3); ("v4", VPieceRef d); ("v5", lastv x5 (piece_tags l'))].
  Proof.
    intros Hp Hn. induction l' as [|[t x] l' IH]; intros a x0 x2 x3 x5 Hin; [reflexivity|].
    rewrite piece_tags_cons. cbn [for_loop fst]. unfold body_sum at 1.
    assert (Hl : alookup t l = Some x) by (apply (alookup_in t x l Hn), Hin; left; reflexivity).
    destruct t as [z|]; cbn; rewrite Hp; cbn; rewrite Hl; cbn;
      (rewrite IH by (intros e He; apply Hin; right; exact He)); reflexivity.
  Qed.

  Lemma piece_of_conc (s : st) p e l : res s = Pathways -> attr s = true -> pw_of s p = e :: l ->
    piece_of (conc s) (DP p) = Some (e :: l).
  Proof. intros Hr Ha E. unfold piece_of, conc. rewrite Ha. cbn [o_data]. destruct p; cbn; unfold cstore; rewrite Hr, E; reflexivity. Qed.

  Ltac pw_step Hn :=
    match goal with
    | E : pw_of ?S ?p = _ |- context [match pw_of ?S ?p with _ => _ end] => rewrite E; cbn
    | |- context [match pw_of ?S ?p with _ => _ end] => let E := fresh "E" in destruct (pw_of S p) eqn:E; cbn
    | E : pw_of ?S ?p = ?e :: ?l |- context [for_loop "v5" _ (piece_tags (?e :: ?l)) (conc ?S) _] =>
        rewrite (sum_loop_gen (conc S) (DP p) (e :: l) (piece_of_conc S p e l eq_refl eq_refl E)
                   ltac:(rewrite <- E; apply Hn) (e :: l)) by apply incl_refl; cbn
    end.

  Ltac fin_sum :=
    do 2 f_equal; unfold pw_type_sum; repeat match goal with E : pw_of _ _ = _ |- _ => rewrite E; clear E end;
    rewrite ?suml_lsum; cbn [map]; rewrite ?lsum_cons, ?lsum_nil; ring.

  Lemma pathways_to_processes_ok (s : st) q : res s = Pathways -> attr s = true -> (forall p, NoDup (map fst (pw_of s p))) ->
    code__pathways_to_processes (conc s) [VKey (DQ q)] =
    EOk (conc s) (if init s then VArr (lsum (map (pw_type_sum s) (types_of_process q))) else VNone).
  Proof.
    intros Hr Ha Hn. open_state s. destruct q, i; cbn; try reflexivity.
    all: repeat pw_step Hn; fin_sum.
  Qed.

  (* not initialised: the result is None if nothing is stored; a stored pathway makes `None += array` raise *)
  Lemma pathways_to_signals_ok (s : st) g : res s = Pathways -> attr s = true -> init s = true -> (forall p, NoDup (map fst (pw_of s p))) ->
    code__pathways_to_signals (conc s) [VKey (DS g)] = EOk (conc s) (VArr (lsum (map (pw_type_sum s) (types_of_signal g)))).
  Proof.
    intros Hr Ha Hi Hn. open_state s. destruct g; cbn.
    all: repeat pw_step Hn; fin_sum.
  Qed.
  Opaque code__pathways_to_processes code__pathways_to_signals.

  Lemma pathways_to_total_ok (s : st) : res s = Pathways -> attr s = true -> init s = true -> (forall p, NoDup (map fst (pw_of s p))) ->
    code__pathways_to_total (conc s) [] =
    EOk (conc s) (VArr (lsum (map (fun g => lsum (map (pw_type_sum s) (types_of_signal g))) all_signals))).
  Proof.
    intros Hr Ha Hi Hn. open_state s. cbn.
    repeat (rewrite pathways_to_signals_ok by (try reflexivity; exact Hn); cbn).
    do 2 f_equal. rewrite ?lsum_cons, ?lsum_nil. ring.
  Qed.
  Opaque code__pathways_to_total.

  (* ---------------- the getter ---------------- *)
  Lemma getter_noattr (s : st) : attr s = false -> rd_of (code_getter (conc s) []) = Some (conc s, read s).
  Proof. intros; open_state s. reflexivity. Qed.

  Lemma getter_types (s : st) : res s = Types -> attr s = true -> rd_of (code_getter (conc s) []) = Some (conc s, read s).
  Proof.
    intros; open_state s. destruct c as [p|q|g| |]; cbn.
    - destruct p; py; reflexivity.
    - destruct q; cbn; rewrite types_to_processes_ok by reflexivity; cbn;
        match goal with |- context [types_sum ?S ?l] => destruct (types_sum S l) end; reflexivity.
    - destruct g; cbn; rewrite types_to_signals_ok by reflexivity; cbn;
        match goal with |- context [types_sum ?S ?l] => destruct (types_sum S l) end; reflexivity.
    - rewrite types_to_total_ok by reflexivity. cbn. destruct i; reflexivity.
    - reflexivity.
  Qed.

  Lemma getter_low (s : st) : res s = Processes \/ res s = Signals \/ res s = Off -> attr s = true ->
    rd_of (code_getter (conc s) []) = Some (conc s, read s).
  Proof.
    intros Hr Ha; open_state s. destruct Hr as [Hr|[Hr|Hr]]; subst r.
    - destruct c as [p|q|g| |]; cbn; try reflexivity.
      + destruct q; py; reflexivity.
      + rewrite processes_to_total_ok by reflexivity. cbn. destruct i; reflexivity.
    - destruct c as [p|q|g| |]; cbn; try reflexivity.
      + destruct g; py; reflexivity.
      + rewrite signals_to_total_ok by reflexivity. cbn. destruct i; reflexivity.
    - destruct c as [p|q|g| |]; cbn; try reflexivity. py; reflexivity.
  Qed.

  (* k_i = 0; for tag in piece: dat = piece[tag]; if k_i == 0: data = dat.copy() else: data += dat; k_i += 1 *)
  Definition body_ki : @blk R :=
    s_seq (s_assign "v4" (e_bino p_getitem (e_var "v1") (e_var "v3")))
      (s_seq (s_if (e_bin p_eq (e_const (VInt 0)) (e_var "v2"))
                (s_assign "v5" (e_un p_copy (e_var "v4")))
                (s_assign "v5" (e_bin p_add (e_var "v5") (e_var "v4"))))
             (s_assign "v2" (e_bin p_add (e_var "v2") (e_const (VInt 1))))).
  Lemma ki_loop_gen (o : obj) d l : piece_of o d = Some l -> NoDup (map fst l) ->
    forall l' k a x0 x3 x4 x6, incl l' l -> (0 < k)%Z -> exists y2 y3 y4,
    for_loop "v3" body_ki (piece_tags l') o
      [("v0", x0); ("v1", VPieceRef d); ("v2", VInt k); ("v3", x3); ("v4", x4); ("v5", VArr a); ("v6", x6)]
    = BNorm o [("v0", x0); ("v1", VPieceRef d); ("v2", VInt y2); ("v3", y3); ("v4", y4); ("v5", VArr (suml a l')); ("v6", x6)]
    /\ (0 < y2)%Z.
  Proof.
    intros Hp Hn. induction l' as [|[t x] l' IH]; intros k a x0 x3 x4 x6 Hin Hk.
    - exists k, x3, x4. split; [reflexivity|exact Hk].
    - rewrite piece_tags_cons. cbn [for_loop fst]. unfold body_ki at 1.
      assert (Hl : alookup t l = Some x) by (apply (alookup_in t x l Hn), Hin; left; reflexivity).
      destruct k as [|kp|kp]; try lia.
      destruct t as [z|]; cbn; rewrite Hp; cbn; rewrite Hl; cbn;
        match goal with |- context [for_loop "v3" body_ki (piece_tags l') o
              [("v0", ?a0); ("v1", _); ("v2", VInt ?k'); ("v3", ?a3); ("v4", ?a4); ("v5", VArr ?a5); ("v6", ?a6)]] =>
          destruct (IH k' a5 a0 a3 a4 a6) as (y2 & y3 & y4 & E & Hy); [intros e He; apply Hin; right; exact He|lia|];
          rewrite E; exists y2, y3, y4; split; [reflexivity|exact Hy]
        end.
  Qed.
  Lemma ki_loop (o : obj) d t x l x0 x6 : piece_of o d = Some ((t, x) :: l) -> NoDup (map fst ((t, x) :: l)) ->
    exists y2 y3 y4,
    for_loop "v3" body_ki (piece_tags ((t, x) :: l)) o
      [("v0", x0); ("v1", VPieceRef d); ("v2", VInt 0); ("v3", VUnbound); ("v4", VUnbound); ("v5", VUnbound); ("v6", x6)]
    = BNorm o [("v0", x0); ("v1", VPieceRef d); ("v2", y2); ("v3", y3); ("v4", y4); ("v5", VArr (suml x l)); ("v6", x6)].
  Proof.
    intros Hp Hn. rewrite piece_tags_cons. cbn [for_loop fst]. unfold body_ki at 1.
    assert (Hl : alookup t ((t, x) :: l) = Some x) by (apply (alookup_in t x _ Hn); left; reflexivity).
    destruct t as [z|]; cbn; rewrite Hp; cbn; rewrite Hl; cbn;
      match goal with |- context [for_loop "v3" body_ki (piece_tags l) o
              [("v0", ?a0); ("v1", _); ("v2", VInt ?k'); ("v3", ?a3); ("v4", ?a4); ("v5", VArr ?a5); ("v6", ?a6)]] =>
          destruct (ki_loop_gen o d _ Hp Hn l k' a5 a0 a3 a4 a6) as (y2 & y3 & y4 & E & Hy); [intros e He; right; exact He|lia|];
          rewrite E; eauto
      end.
  Qed.

  Definition wfp (s : st) : Prop := init s = false -> attr s = true -> res s <> Pathways.

  Lemma getter_pathways (s : st) : res s = Pathways -> attr s = true -> wfp s -> (forall p, NoDup (map fst (pw_of s p))) ->
    rd_of (code_getter (conc s) []) = Some (conc s, read s).
  Proof.
    intros Hr Ha Hw Hn; open_state s. destruct i; [|exfalso; now apply Hw].
    clear Hw. destruct c as [p|q|g| |]; cbn.
    - destruct p; cbn;
        (match goal with |- context [match pw_of ?S ?p with _ => _ end] => destruct (pw_of S p) as [|[t0 x0] l0] eqn:E; cbn end;
         [reflexivity|]);
        (destruct t as [z|]; cbn; rewrite ?E; cbn;
         [ match goal with |- context [alookup ?a ?b] => destruct (alookup a b) end; reflexivity
         | match goal with |- context [for_loop "v3" _ (piece_tags _) (conc ?S) [("v0", ?a0); _; _; _; _; _; ("v6", ?a6)]] =>
             match type of E with pw_of _ ?p = _ =>
             destruct (ki_loop (conc S) (DP p) t0 x0 l0 a0 a6 (piece_of_conc S p _ _ eq_refl eq_refl E) ltac:(rewrite <- E; apply Hn))
               as (y2 & y3 & y4 & E') end
           end;
           fold body_ki; rewrite E'; cbn; rewrite suml_lsum; cbn [map snd]; rewrite lsum_cons; reflexivity ]).
    - destruct q; cbn; rewrite pathways_to_processes_ok by (try reflexivity; exact Hn); reflexivity.
    - destruct g; cbn; rewrite pathways_to_signals_ok by (try reflexivity; exact Hn); reflexivity.
    - rewrite pathways_to_total_ok by (try reflexivity; exact Hn); reflexivity.
    - reflexivity.
  Qed.

  Definition nodup (s : st) : Prop := forall p, NoDup (map fst (pw_of s p)).
  Lemma getter_ok (s : st) : wfp s -> nodup s -> rd_of (code_getter (conc s) []) = Some (conc s, read s).
  Proof.
    intros Hw Hn. destruct (attr s) eqn:Ha; [|now apply getter_noattr].
    destruct (res s) eqn:Hr.
    - apply getter_low; auto.
    - apply getter_low; auto.
    - apply getter_low; auto.
    - now apply getter_types.
    - now apply getter_pathways.
  Qed.
  Opaque code_getter.

  (* ---------------- the setter ---------------- *)
  Lemma atom_in_tags t (l : list (option Z * R)) :
    atom_in (tagv t) (piece_tags l) = Some (match alookup t l with Some _ => true | None => false end).
  Proof.
    induction l as [|[t' x] l IH]; [reflexivity|]. rewrite piece_tags_cons, alookup_cons. cbn [atom_in fst].
    assert (E : atom_eqb (R:=R) (tagv t) (tagv t') = Some (otag_eqb t t')) by (destruct t, t'; reflexivity).
    rewrite E. destruct (otag_eqb t t'); [reflexivity|exact IH].
  Qed.
  Lemma alookup_nil t : alookup (R:=R) t [] = None.
  Proof. reflexivity. Qed.
  Lemma piece_set_nil t (x : R) : piece_set t x [] = [(t, x)].
  Proof. reflexivity. Qed.
  Lemma piece_set_new t (x : R) l : alookup t l = None -> piece_set t x l = (l ++ [(t, x)])%list.
  Proof.
    induction l as [|[t' y] l IH]; intros H; [reflexivity|]. rewrite alookup_cons in H. unfold piece_set; fold (piece_set t x l).
    destruct (otag_eqb t t'); [discriminate|]. cbn [app]. now rewrite IH.
  Qed.
  Lemma pw_of_snoc r i a c t pw ty pr sg tot p tg (v : R) p' :
    pw_of (mkSt r i a c t (pw ++ [(p, tg, v)])%list ty pr sg tot) p' =
    (pw_of (mkSt r i a c t pw ty pr sg tot) p' ++ (if ptype_eqb p p' then [(tg, v)] else []))%list.
  Proof. apply pw_of_app. reflexivity. Qed.

  Definition wfa (s : st) : Prop := init s = true -> attr s = true.

  Lemma setter_ok (s : st) v : wfa s ->
    ok_of (code_setter (conc s) [VArr v]) = Some (conc (fst (write NoneTagRefused s v)), snd (write NoneTagRefused s v)).
  Proof.
    intros Hw; open_state s. destruct i.
    - assert (a = true) by (apply Hw; reflexivity); subst a. clear Hw.
      destruct r; destruct c as [p|q|g| |]; try destruct p; try destruct q; try destruct g; try reflexivity.
      all: destruct t as [z|]; try reflexivity.
      all: cbn; match goal with |- context [match pw_of ?S ?p with _ => _ end] => destruct (pw_of S p) as [|e l0] eqn:E end; cbn.
      all: try (rewrite piece_tags_nil, alookup_nil; cbn; rewrite piece_set_nil; unfold conc; cbn;
                rewrite ?pw_of_snoc; cbn [ptype_eqb]; rewrite ?app_nil_r, ?E; reflexivity).
      all: rewrite E; cbn; change (VInt z) with (tagv (R:=R) (Some z)); rewrite atom_in_tags;
           destruct (alookup (Some z) (e :: l0)) eqn:EA; cbn; [reflexivity|].
      all: rewrite E; cbn; rewrite (piece_set_new _ _ _ EA); unfold conc; cbn;
           rewrite ?pw_of_snoc; cbn [ptype_eqb]; rewrite ?app_nil_r, ?E; reflexivity.
    - destruct r; destruct c as [p|q|g| |]; try destruct p; try destruct q; try destruct g; destruct t; reflexivity.
  Qed.
  Opaque code_setter.

  (* ---------------- set_data_flag ---------------- *)
  Lemma flag_ok (s : st) d : code_set_data_flag (conc s) [VKey d] = EOk (conc (set_flag s d None)) VNone.
  Proof. open_state s. destruct a; reflexivity. Qed.
  Lemma flag_list_ok (s : st) d tg : code_set_data_flag (conc s) [VList [VKey d; tagv tg]] = EOk (conc (set_flag s d tg)) VNone.
  Proof. open_state s. destruct a, tg; reflexivity. Qed.
  Opaque code_set_data_flag.

  (* ---------------- elementary reductions ---------------- *)
  (* the object between the replacement of the storage and the update of storage_resolution *)
  Definition robj (l : level) (s : st) : obj :=
    mkO l (init s) (if attr s then Some (map (cstore s) all_keys) else None) (cur s) (ctag s).
  Lemma conc_robj (s : st) : conc s = robj (res s) s.
  Proof. reflexivity. Qed.

  Lemma for_loop_cons x (body : @blk R) v l o en :
    for_loop x body (v :: l) o en = match body o (setv en x v) with BNorm o1 en1 => for_loop x body l o1 en1 | r => r end.
  Proof. reflexivity. Qed.
  Lemma zero_plus (x : R) : 0 + x = x.
  Proof. ring. Qed.

  (* for key in pdict.keys(): data += pdict[key] *)
  Definition body_c43 : @blk R :=
    s_assign "v6" (e_bin p_add (e_var "v6") (e_bino p_getitem (e_var "v5") (e_var "v7"))).
  Lemma c43_inner (o : obj) d l : piece_of o d = Some l -> NoDup (map fst l) ->
    forall l' a x0 x1 x2 x3 x4 x7 x8 x9, incl l' l -> exists y7,
    for_loop "v7" body_c43 (piece_tags l') o
      [("v0", x0); ("v1", x1); ("v2", x2); ("v3", x3); ("v4", x4); ("v5", VPieceRef d); ("v6", VArr a); ("v7", x7); ("v8", x8); ("v9", x9)]
    = BNorm o [("v0", x0); ("v1", x1); ("v2", x2); ("v3", x3); ("v4", x4); ("v5", VPieceRef d); ("v6", VArr (suml a l')); ("v7", y7); ("v8", x8); ("v9", x9)].
  Proof.
    intros Hp Hn. induction l' as [|[t x] l' IH]; intros a x0 x1 x2 x3 x4 x7 x8 x9 Hin; [eexists; reflexivity|].
    rewrite piece_tags_cons. cbn [for_loop fst]. unfold body_c43 at 1.
    assert (Hl : alookup t l = Some x) by (apply (alookup_in t x l Hn), Hin; left; reflexivity).
    destruct t as [z|]; cbn; rewrite Hp; cbn; rewrite Hl; cbn;
      match goal with |- context [for_loop "v7" body_c43 (piece_tags l') o
            [_; _; _; _; _; _; ("v6", VArr ?a6); ("v7", ?a7); _; _]] =>
        destruct (IH a6 x0 x1 x2 x3 x4 a7 x8 x9) as (y7 & E); [intros e He; apply Hin; right; exact He|];
        rewrite E; eexists; reflexivity
      end.
  Qed.

  Definition body_c43_outer : @blk R :=
    (s_seq (s_try (s_assign "v5" (e_bino p_getitem (e_attr "_d__data") (e_var "v4")))
       [(HKey, (s_assign "v5" (e_dict []))); (HAttr, (s_seq (s_assign "v5" (e_dict []))
       (s_assign "v3" (e_const (VBool false)))))])
     (s_seq (s_if (e_var "v3")
       (s_assign "v6" e_zeros)
       (s_assign "v6" e_zeros))
     (s_seq (s_for "v7" (e_uno p_keys (e_var "v5"))
       (s_assign "v6" (e_bin p_add (e_var "v6") (e_bino p_getitem (e_var "v5") (e_var "v7")))))
     (s_setitem "v2" (e_var "v4") (e_var "v6"))))).

  Lemma c43_iter (S : st) p : res S = Pathways -> attr S = true -> nodup S ->
    forall D D' x0 x1 x4 x5 x6 x7 x8 x9, assoc_set (kp p) (VArr (pw_type_sum S p)) D = Some D' ->
    exists y5 y6 y7,
    body_c43_outer (conc S) (setv [("v0", x0); ("v1", x1); ("v2", VDict D); ("v3", VBool true); ("v4", x4); ("v5", x5); ("v6", x6);
                              ("v7", x7); ("v8", x8); ("v9", x9)] "v4" (kp p))
    = BNorm (conc S) [("v0", x0); ("v1", x1); ("v2", VDict D'); ("v3", VBool true); ("v4", kp p); ("v5", y5); ("v6", y6);
                      ("v7", y7); ("v8", x8); ("v9", x9)].
  Proof.
    intros Hr Ha Hn D D' x0 x1 x4 x5 x6 x7 x8 x9 HD. open_state S. unfold pw_type_sum in HD.
    destruct p; unfold body_c43_outer; cbn;
      match goal with |- context [match pw_of ?S ?p with _ => _ end] => destruct (pw_of S p) as [|e l0] eqn:E end; cbn.
    all: try (cbn [map] in HD; rewrite lsum_nil in HD; unfold kp in HD; rewrite HD; do 3 eexists; reflexivity).
    all: rewrite E; cbn;
      match goal with E' : pw_of ?S ?p = ?e :: ?l0 |- context [for_loop "v7" _ (piece_tags (?e :: ?l0)) (conc ?S)
            [("v0", ?a0); ("v1", ?a1); ("v2", ?a2); ("v3", ?a3); ("v4", ?a4); ("v5", VPieceRef (DP ?p)); ("v6", VArr ?a6); ("v7", ?a7); ("v8", ?a8); ("v9", ?a9)]] =>
        destruct (c43_inner (conc S) (DP p) (e :: l0) (piece_of_conc S p e l0 eq_refl eq_refl E') ltac:(rewrite <- E'; apply Hn)
                    (e :: l0) a6 a0 a1 a2 a3 a4 a7 a8 a9 (incl_refl _)) as (y7 & EL)
      end; fold body_c43; rewrite EL; cbn; rewrite suml_lsum, zero_plus; unfold kp in HD; rewrite HD; do 3 eexists; reflexivity.
  Qed.

  Lemma atom_eqb_kp p q : atom_eqb (R:=R) (kp p) (kp q) = Some (ptype_eqb p q).
  Proof. reflexivity. Qed.
  Lemma assoc_set_kp (f : ptype -> pv) ps0 p v : ~ In p ps0 ->
    assoc_set (kp p) v (map (fun q => (kp q, f q)) ps0) = Some (map (fun q => (kp q, f q)) ps0 ++ [(kp p, v)])%list.
  Proof.
    induction ps0 as [|q ps0 IH]; intros Hnot; [reflexivity|].
    cbn [map assoc_set]. rewrite atom_eqb_kp. destruct (ptype_eqb p q) eqn:E.
    - exfalso; apply Hnot; left. symmetry. now apply ptype_eqb_eq.
    - rewrite IH by (intros H; apply Hnot; right; exact H). reflexivity.
  Qed.

  Definition g43 (S : st) (p : ptype) : pv * pv := (kp p, VArr (pw_type_sum S p)).
  Lemma c43_outer (S : st) : res S = Pathways -> attr S = true -> nodup S ->
    forall ps ps0 x0 x1 x4 x5 x6 x7 x8 x9, NoDup (ps0 ++ ps) -> exists y4 y5 y6 y7,
    for_loop "v4" body_c43_outer (map kp ps) (conc S)
      [("v0", x0); ("v1", x1); ("v2", VDict (map (g43 S) ps0)); ("v3", VBool true); ("v4", x4); ("v5", x5); ("v6", x6);
       ("v7", x7); ("v8", x8); ("v9", x9)]
    = BNorm (conc S) [("v0", x0); ("v1", x1); ("v2", VDict (map (g43 S) (ps0 ++ ps))); ("v3", VBool true); ("v4", y4); ("v5", y5);
                      ("v6", y6); ("v7", y7); ("v8", x8); ("v9", x9)].
  Proof.
    intros Hr Ha Hn. induction ps as [|p ps IH]; intros ps0 x0 x1 x4 x5 x6 x7 x8 x9 Hnd.
    - rewrite app_nil_r. do 4 eexists. reflexivity.
    - cbn [map]. rewrite for_loop_cons.
      assert (Hnot : ~ In p ps0).
      { intros Hin. apply NoDup_remove_2 in Hnd. apply Hnd. apply in_or_app. now left. }
      assert (HD : assoc_set (kp p) (VArr (pw_type_sum S p)) (map (g43 S) ps0) = Some (map (g43 S) (ps0 ++ [p])%list)).
      { rewrite map_app. exact (assoc_set_kp (fun q => VArr (pw_type_sum S q)) ps0 p _ Hnot). }
      destruct (c43_iter S p Hr Ha Hn _ _ x0 x1 x4 x5 x6 x7 x8 x9 HD) as (y5 & y6 & y7 & E).
      rewrite E.
      destruct (IH (ps0 ++ [p])%list x0 x1 (kp p) y5 y6 y7 x8 x9) as (z4 & z5 & z6 & z7 & E2).
      { rewrite <- app_assoc. exact Hnd. }
      rewrite E2. rewrite <- app_assoc. do 4 eexists. reflexivity.
  Qed.
End Gen.
