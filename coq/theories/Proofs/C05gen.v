(* Library for the model GENERATED from quantarhei/core/units.py, core/managers.py and utils/types.py by
   harness/translate_c05.py: facts about non-zero rationals (for the conversion tables), the Python `with` statement as a
   skeleton over an arbitrary pair of __enter__/__exit__ functions, and the lemmas that turn "the generated __enter__ and
   __exit__ are the model's enter_e / exit_e (set_l)" into equality with the programs [exec] of Model/C05.v that the theorems
   of Props/C05.v are about.  Nothing here mentions the content of the code. *)
From Coq Require Import ZArith List Bool QArith Qfield Lia.
From QV Require Import Model.C05 Proofs.C05.
Import ListNotations.

Lemma Qmult_nz a b : ~ a == 0 -> ~ b == 0 -> ~ a * b == 0.
Proof. intros Ha Hb H. apply Qmult_integral in H. tauto. Qed.
Lemma Qinv_nz a : ~ a == 0 -> ~ / a == 0.
Proof. intros Ha H. apply Ha. rewrite <- (Qinv_involutive a), H. reflexivity. Qed.
Lemma Qdiv_nz a b : ~ a == 0 -> ~ b == 0 -> ~ a / b == 0.
Proof. intros Ha Hb. unfold Qdiv. apply Qmult_nz; [assumption|apply Qinv_nz; assumption]. Qed.
Lemma Qlit_nz (n : positive) (d : positive) : ~ (Zpos n # d) == 0.
Proof. unfold Qeq. cbn. lia. Qed.
(* a product / quotient of non-zero constants and positive literals is non-zero *)
Ltac qnz := repeat first [assumption | apply Qlit_nz | apply Qmult_nz | apply Qdiv_nz | apply Qinv_nz].

(* ---- manager state as the translated methods see it: the six fields as separate values ---- *)
Definition st (ce : eunit) (cl : lunit) (se : option eunit) (sl : option lunit) (n : Z) (f : bool) : ust := mkU ce cl se sl n f.

(* ---- with ctx: body   (ctx.__enter__(); body; ctx.__exit__(exception info); an exception of the body propagates unless
   __exit__ returns a true value; an exception of __enter__ / __exit__ itself propagates).  The context object is its
   requested units [u] and the backup slot; the body does not touch the object (it is not re-entered while active). ---- *)
Section With.
  Variable U : Type.
  Variable enter : ust -> U -> option U -> option (ust * option U).
  Variable exit_ : bool -> ust -> U -> option U -> option (ust * option U * bool).
  Definition with_skel (u : U) (b0 : option U) (body : ust -> ust * bool * list (eunit * lunit)) (s : ust)
    : ust * bool * list (eunit * lunit) :=
    match enter s u b0 with
    | None => (s, true, [])
    | Some (s1, b1) =>
        let '(s2, r, o) := body s1 in
        match exit_ r s2 u b1 with
        | None => (s2, true, o)
        | Some (s3, _, suppress) => (s3, r && negb suppress, o)
        end
    end.
End With.

Lemma with_e_is_model enter exit_ :
  (forall s u b0, enter s u b0 = Some (enter_e s u, Some (cur_e s))) ->
  (forall exc s u b, exit_ exc s u (Some b) = Some (exit_e s b, Some b, false)) ->
  forall u b0 body s, with_skel eunit enter exit_ u b0 (exec body) s = exec (PWithE u body) s.
Proof.
  intros He Hx u b0 body s. unfold with_skel. cbn [exec]. rewrite He.
  destruct (exec body (enter_e s u)) as [[s2 r] o]. rewrite Hx. rewrite andb_true_r. reflexivity.
Qed.

Lemma with_l_is_model enter exit_ :
  (forall s u b0, enter s u b0 = Some (set_l s u, Some (cur_l s))) ->
  (forall exc s u b, exit_ exc s u (Some b) = Some (set_l s b, Some b, false)) ->
  forall u b0 body s, with_skel lunit enter exit_ u b0 (exec body) s = exec (PWithL u body) s.
Proof.
  intros He Hx u b0 body s. unfold with_skel. cbn [exec]. rewrite He.
  destruct (exec body (set_l s u)) as [[s2 r] o]. rewrite Hx. rewrite andb_true_r. reflexivity.
Qed.

(* membership in the lists of supported units *)
Definition emem (u : eunit) (l : list eunit) : bool := existsb (eunit_eqb u) l.
Definition lmem (u : lunit) (l : list lunit) : bool := existsb (lunit_eqb u) l.
Definition is_none {A} (o : option A) : bool := match o with None => true | Some _ => false end.

(* deciding a generated state function: open the record, enumerate the units that are tested for membership, split the
   remaining conditions *)
Ltac split_ifs_z :=
  repeat match goal with
         | |- context [if ?c then _ else _] => let E := fresh "E" in destruct c eqn:E; try (exfalso; lia)
         end.

(* a units-managed attribute read while the units [u] are current yields to_cur u (stored), written it stores to_int u (value):
   when every such access of a library function happens under internal units (factor one), the function sees and stores the
   stored values themselves, whatever units its caller has *)
Lemma accesses_internal (fac : eunit -> Q) (l : list eunit) (x : Q) : fac E_int == 1 -> (forall u, In u l -> u = E_int) ->
  Forall (fun u => to_cur fac u x == x /\ to_int fac u x == x) l.
Proof.
  intros Hf Hl. apply Forall_forall. intros u Hin. rewrite (Hl u Hin). unfold to_cur, to_int. cbn [is_nm]. rewrite Hf. split; field.
Qed.
