(* C12: library for the static tie (harness/translate_c12.py).  The generated file instantiates the combinators below
   with the code's own expressions; the lemmas turn "the content is the expected one" into statements about the
   definitions of Model/C12.v that the theorems of Props/C12.v are about. *)
From Coq Require Import ZArith List Bool String Lia Arith Btauto.
From QV Require Import Base.Alg Base.Util Model.C19 Model.C12 Model.C12x Proofs.C12 Proofs.C12obj.
Import ListNotations.

(* ---------------- list combinators of the generators ---------------- *)
Lemma flat_map_ext_all {A B} (f g : A -> list B) l : (forall x, f x = g x) -> flat_map f l = flat_map g l.
Proof. intros H. induction l as [|x l IH]; cbn [flat_map]; [reflexivity|]. now rewrite H, IH. Qed.
Lemma flat_map_ext_in {A B} (f g : A -> list B) l : (forall x, In x l -> f x = g x) -> flat_map f l = flat_map g l.
Proof.
  intros H. induction l as [|x l IH]; cbn [flat_map]; [reflexivity|].
  rewrite H by (left; reflexivity). rewrite IH; [reflexivity|]. intros y Hy. apply H. now right.
Qed.
Lemma when_cong {A} (b b' : bool) (l l' : list A) : b = b' -> l = l' -> when b l = when b' l'.
Proof. now intros -> ->. Qed.
Lemma when_when {A} (a b : bool) (l : list A) : when a (when b l) = when (a && b) l.
Proof. destruct a, b; reflexivity. Qed.
Lemma Forall_flat_map_all {A B} (P : B -> Prop) (f : A -> list B) l : (forall x, Forall P (f x)) -> Forall P (flat_map f l).
Proof. intros H. induction l as [|x l IH]; cbn [flat_map]; [constructor|]. apply Forall_app; split; [apply H|exact IH]. Qed.
Lemma Forall_flat_map_in {A B} (P : B -> Prop) (f : A -> list B) l : (forall x, In x l -> Forall P (f x)) -> Forall P (flat_map f l).
Proof.
  intros H. induction l as [|x l IH]; cbn [flat_map]; [constructor|]. apply Forall_app; split; [apply H; now left|].
  apply IH. intros y Hy. apply H. now right.
Qed.
Lemma Forall_when {A} (P : A -> Prop) (b : bool) l : Forall P l -> Forall P (when b l).
Proof. intros H. destruct b; [exact H|constructor]. Qed.

Definition olist {A} (o : option A) : list A := match o with Some x => [x] | None => [] end.

(* liouville_pathways_3T: for ptp in ptype_tuple: <dispatch on the string, the generator appends to lst> *)
Fixpoint run3T {A} (disp : string -> option (list A)) (tuple : list string) : option (list A) :=
  match tuple with
  | [] => Some []
  | p :: r => match disp p with
              | Some a => match run3T disp r with Some b => Some (a ++ b) | None => None end
              | None => None
              end
  end.

(* equality of two generator nests up to the order of the operands of `and` and nesting of tests *)
Ltac gen_eq :=
  cbv zeta;
  repeat first [ reflexivity
               | apply flat_map_ext_all; intro
               | rewrite !when_when
               | apply when_cong; [ first [reflexivity | btauto] | ] ].

Section Gen.
  Context {R : StarRing}.
  Add Ring Rr12g : (rth R).
  Open Scope sr_scope.
  Notation vec3 := (@vec3 R).
  Notation sys := (@sys R).
  Notation pway := (@pway R).

  (* ---------------- small vector helpers of the generated orientational factor ---------------- *)
  Lemma vec3_eq (a b c a' b' c' : R) : a = a' -> b = b' -> c = c' -> (a, b, c) = (a', b', c').
  Proof. now intros -> -> ->. Qed.
  (* numpy.dot(vector, matrix) and numpy.dot(matrix, vector) for a 3 x 3 matrix given by its entries *)
  Definition vecmat (f : vec3) (M : nat -> nat -> R) : vec3 :=
    (vx f * M 0%nat 0%nat + vy f * M 1%nat 0%nat + vz f * M 2%nat 0%nat,
     vx f * M 0%nat 1%nat + vy f * M 1%nat 1%nat + vz f * M 2%nat 1%nat,
     vx f * M 0%nat 2%nat + vy f * M 1%nat 2%nat + vz f * M 2%nat 2%nat).
  Definition matvec (M : nat -> nat -> R) (f : vec3) : vec3 :=
    (M 0%nat 0%nat * vx f + M 0%nat 1%nat * vy f + M 0%nat 2%nat * vz f,
     M 1%nat 0%nat * vx f + M 1%nat 1%nat * vy f + M 1%nat 2%nat * vz f,
     M 2%nat 0%nat * vx f + M 2%nat 1%nat * vy f + M 2%nat 2%nat * vz f).

  (* ---------------- no construction fails when the only ground state is state 0 ---------------- *)
  Definition ground0 (Sy : sys) : Prop := forall g, In g (ngs Sy) -> g = 0%nat.

  Ltac all_ok H :=
    cbv zeta;
    repeat first [ apply Forall_flat_map_in; let Hn := fresh "Hin" in (intros ? Hn; try (apply H in Hn; subst))
                 | apply Forall_when ];
    (constructor; [|constructor]); cbn; rewrite ?Nat.eqb_refl; reflexivity.

  Lemma gen6_all_ok (Sy : sys) : ground0 Sy -> Forall (fun p => pw_ok p = true) (gen6 Sy).
  Proof.
    intros H. unfold gen6, gen6_with, gen4_with. repeat (apply Forall_app; split).
    - unfold gen_R1g_with. all_ok H.
    - unfold gen_R2g_with. all_ok H.
    - unfold gen_R3g_with. all_ok H.
    - unfold gen_R4g_with. all_ok H.
    - unfold gen_R1f_with. all_ok H.
    - unfold gen_R2f_with. all_ok H.
  Qed.
  Lemma gen4_all_ok (Sy : sys) : ground0 Sy -> Forall (fun p => pw_ok p = true) (gen4 Sy).
  Proof.
    intros H. pose proof (gen6_all_ok Sy H) as H6. unfold gen6, gen6_with in H6. apply Forall_app in H6. exact (proj1 H6).
  Qed.

  (* ---------------- the calculator's four defaults against the single default of Model/C12.v ---------------- *)
  Lemma contrib4_same L neg (d : R) gauss (FM : vec3) (p : pway) : contrib4 L neg d d d d gauss FM p = contrib L neg d gauss FM p.
  Proof. unfold contrib4, calc_args4, contrib, sel4, sel. destruct gauss; reflexivity. Qed.
  Lemma contrib4_no_default L neg (a b c d dflt : R) gauss (FM : vec3) (p : pway) :
    neg (pw_w1 p) = false -> neg (pw_w3 p) = false -> neg (pw_g1 p) = false ->
    contrib4 L neg a b c d gauss FM p = contrib L neg dflt gauss FM p.
  Proof. intros H1 H3 G1. unfold contrib4, calc_args4, contrib, sel4, sel. rewrite H1, H3, G1. destruct gauss; reflexivity. Qed.

  (* a leaf of a generator, run by the object machine *)
  Definition xobj (Sy : sys) (c : @xcall) (ops : list (@xop R)) : list pway := olist (xpath Sy c ops).
  Lemma xobj_leaf (Sy : sys) c ops : c_order c = 3%nat -> xwf c ops = true -> ev_ok (erase ops) (c_sinit c, 0%nat) = true ->
    xobj Sy c ops = [xleaf (mkpath Sy) c ops].
  Proof. intros Ho Hw Hk. unfold xobj. rewrite (xpath_is_mkpath Sy c Ho ops Hw), Hk. reflexivity. Qed.

  (* ---------------- the machine with other (generated) steps and observation pieces ---------------- *)
  Notation lp := (@lp R).
  Notation xop := (@xop R).
  Fixpoint run_with (step : lp -> xop -> option lp) (l : lp) (ops : list xop) : option lp :=
    match ops with
    | [] => Some l
    | o :: r => match step l o with Some l' => run_with step l' r | None => None end
    end.
  Lemma run_with_is_xrun (Sy : sys) (step : lp -> xop -> option lp) : (forall l o, step l o = xstep Sy l o) ->
    forall ops l, run_with step l ops = xrun Sy l ops.
  Proof.
    intros H ops. induction ops as [|o r IH]; intros l; cbn [run_with xrun]; [reflexivity|].
    rewrite H. destruct (xstep Sy l o); [apply IH|reflexivity].
  Qed.
  (* build() and orientational_averaging() with F4n, the sign and the state whose population weights the pathway as parameters *)
  Definition obs_with (fF4n : (nat -> vec3) -> vec3) (fsign : xcall -> (nat -> Z) -> Z) (fn0 : (nat -> nat * nat) -> nat)
             (Sy : sys) (l : lp) : option pway :=
    let c := l_call l in
    if negb (Nat.eqb (c_order c) 3) then None
    else match l_wd l with
         | None => None
         | Some wg =>
           Some (mkPw (pname_of (c_pname c)) (reph_of (c_ptype c)) (map (l_trans l) (seq 0 (S (c_order c))))
                      (z2r (fsign c (l_sides l))) (fF4n (l_dm l)) (map (l_freq l) (seq 0 (nslots c)))
                      (fst wg 1%nat) (fst wg 3%nat) (snd wg 1%nat) (snd wg 3%nat)
                      (l_evf l) (rho Sy (fn0 (l_trans l))) true)
         end.
  Lemma obs_with_is_lp_obs fF4n fsign fn0 (Sy : sys) (l : lp) :
    (forall d, fF4n d = F4 (d 0%nat) (d 1%nat) (d 2%nat) (d 3%nat)) ->
    (forall c s, c_order c = 3%nat -> fsign c s = (s 0%nat * s 1%nat * s 2%nat * s 3%nat)%Z) ->
    (forall tr, fn0 tr = snd (tr 0%nat)) ->
    obs_with fF4n fsign fn0 Sy l = lp_obs Sy l.
  Proof.
    intros HF Hs Hn. unfold obs_with, lp_obs. destruct (Nat.eqb_spec (c_order (l_call l)) 3) as [Ho|Ho]; cbn [negb]; [|reflexivity].
    destruct (l_wd l) as [wg|]; [|reflexivity]. now rewrite HF, (Hs _ _ Ho), Hn.
  Qed.
End Gen.

(* the generated nest run by the object machine equals the nest with the closed-form leaves, for systems whose only
   ground state is state 0: at every leaf the program is well formed and its consistency checks pass *)
Ltac gen_runs H :=
  cbv zeta;
  repeat first [ apply flat_map_ext_in; let Hn := fresh "Hin" in (intros ? Hn; try (apply H in Hn; subst))
               | apply when_cong; [reflexivity|] ];
  apply xobj_leaf; cbv -[Nat.eqb]; rewrite ?Nat.eqb_refl; reflexivity.
