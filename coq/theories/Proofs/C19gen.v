(* Refinement, third part: the invariant of reachable model states and whole histories. *)
From Coq Require Import ZArith List Bool String Lia.
From QV Require Import Base.Alg Model.C19 Model.C19py Model.C19code Proofs.C19 Proofs.C19genA Proofs.C19genB.
Import ListNotations.
Open Scope string_scope.

Section Gen.
  Context {R : StarRing}.
  Add Ring Rr3 : (rth R).
  Open Scope sr_scope.
  Notation st := (@st R).
  Notation pv := (@pv R).
  Notation obj := (@obj R).

  (* ---------------- the invariant of reachable model states ---------------- *)
  Definition Inv (S : st) : Prop :=
    wfa S /\ wfp S /\ nodup S /\ (res S <> Pathways -> attr S = true) /\ (res S = Types -> tysome S).

  Lemma Inv_fresh : Inv fresh.
  Proof.
    unfold Inv, wfa, wfp, nodup, tysome; cbn.
    split; [discriminate|]. split; [intros _ H; discriminate|]. split; [intros p; unfold pw_of; cbn; constructor|].
    split; [intros H; now destruct H|discriminate].
  Qed.
  Lemma Inv_set_flag (S : st) d tg : Inv S -> Inv (set_flag S d tg).
  Proof. intros H. exact H. Qed.

  Lemma nodup_nil (S : st) : pw S = [] -> nodup S.
  Proof. intros H p. unfold pw_of. rewrite H. constructor. Qed.

  Lemma Inv_conv (S S' : st) new : conv S new = Some S' -> Inv S'.
  Proof.
    unfold conv. destruct (res S), new; try discriminate; intros [= <-]; unfold Inv, wfa, wfp, tysome; cbn;
      (repeat split; try discriminate; try reflexivity; try (apply nodup_nil; reflexivity); try (intros; discriminate)).
  Qed.
  Lemma Inv_conv_along path : forall (S S' : st), Inv S -> conv_along S path = Some S' -> Inv S'.
  Proof.
    induction path as [|l path IH]; intros S S' HI; cbn [conv_along].
    - intros [= <-]; exact HI.
    - destruct (conv S l) as [S1|] eqn:E; [|discriminate]. apply IH. exact (Inv_conv _ _ _ E).
  Qed.
  Lemma Inv_set_resolution (S : st) new : Inv S -> Inv (fst (set_resolution S new)).
  Proof.
    intros HI. unfold set_resolution. destruct new as [n|]; [|exact HI].
    destruct (Nat.ltb (lnum (res S)) (lnum n)); [exact HI|].
    destruct (Nat.ltb (lnum n) (lnum (res S))); [|exact HI].
    destruct (conv_path (res S) n) as [path|]; [|exact HI].
    destruct (conv_along S path) as [S'|] eqn:E; [|exact HI]. exact (Inv_conv_along _ _ _ HI E).
  Qed.

  Lemma Inv_base (S : st) reso : Inv S -> Inv (base S reso) /\ init (base S reso) = true.
  Proof.
    intros (Hwa & Hwp & Hn & Ha & Ht). unfold base. destruct (init S) eqn:Hi.
    - split; [|exact Hi]. repeat split; auto.
    - split; [|reflexivity]. unfold Inv, wfa, wfp, tysome; cbn.
      repeat split; try reflexivity; try discriminate; try (apply nodup_nil; reflexivity); intros; discriminate.
  Qed.

  Lemma NoDup_snoc (l : list (option Z * R)) tg v : NoDup (map fst l) -> alookup tg l = None -> NoDup (map fst (l ++ [(tg, v)])%list).
  Proof.
    intros Hn Ha. rewrite map_app. cbn [map fst]. apply alookup_none_notin in Ha.
    induction (map fst l) as [|x m IH]; cbn [app].
    - constructor; [intros []|constructor].
    - inversion Hn; subst. constructor.
      + intros Hin. apply in_app_or in Hin. destruct Hin as [Hin|[Hin|[]]]; [contradiction|]. subst. apply Ha. now left.
      + apply IH; [assumption|]. intros Hin. apply Ha. now right.
  Qed.

  Lemma Inv_write (u : st) v : init u = true -> Inv u -> Inv (fst (write NoneTagRefused u v)).
  Proof.
    intros Hi HI. unfold write, ensure_init. rewrite Hi. cbv zeta.
    destruct HI as (Hwa & Hwp & Hn & Ha & Ht).
    assert (HI : Inv u) by (repeat split; assumption).
    destruct (res u) eqn:Er; destruct (cur u) eqn:Ec; try exact HI.
    1-4: (unfold Inv, wfa, wfp, tysome, nodup in *; cbn [fst res init attr pw Model.C19.ty]; rewrite ?Er, ?Hi in *;
          repeat split; auto; try discriminate; intros; discriminate).
    destruct (ctag u) as [tg|] eqn:Et; [|exact HI].
    destruct (alookup (Some tg) (pw_of u p)) eqn:El; [exact HI|].
    cbn [fst]. unfold Inv, wfa, wfp, tysome in *; cbn [res init attr]. rewrite Er, Hi in *.
    repeat split; auto; try discriminate.
    intros p'. destruct u as [r i a c t0 pwl ty pr sg tot]; cbn [res init attr cur ctag pw] in *.
    rewrite pw_of_snoc. destruct (ptype_eqb p p') eqn:Ep.
    - apply ptype_eqb_eq in Ep. subst p'. apply NoDup_snoc; [apply Hn|exact El].
    - rewrite app_nil_r. apply Hn.
  Qed.

  Lemma Inv_add_data (S : st) data reso d tg : Inv S -> Inv (fst (add_data NoneTagRefused S data reso d tg)).
  Proof.
    intros HI. destruct (Inv_base S reso HI) as [HB Hib]. unfold add_data. fold (base S reso). set (b := base S reso) in *.
    assert (Hacc : forall t', Inv (fst (accumulate NoneTagRefused (set_flag b d t') data))).
    { intros t'. unfold accumulate. apply Inv_write; [exact Hib|exact HB]. }
    destruct reso as [r|].
    - destruct (Nat.leb (lnum r) (lnum (res b))); [|exact HB].
      destruct r; destruct d; destruct tg; try exact HB; apply Hacc.
    - destruct (res b); destruct d; destruct tg; try exact HB; apply Hacc.
  Qed.

  Lemma Inv_cinv (S : st) : Inv S -> cinv S.
  Proof. intros (Hwa & Hwp & Hn & Ha & Ht). repeat split; auto. Qed.

  (* ---------------- one call, whole histories ---------------- *)
  Lemma add_data_ok (S : st) data reso d tg : Inv S ->
    ok_of (code__add_data (conc S) [VArr data; resov reso; VKey d; tagv tg]) =
    Some (conc (fst (add_data NoneTagRefused S data reso d tg)), snd (add_data NoneTagRefused S data reso d tg)).
  Proof.
    intros HI. destruct (Inv_base S reso HI) as [(Hwa & Hwp & Hn & _) Hib].
    assert (E : add_data NoneTagRefused S data reso d tg = add_data NoneTagRefused (base S reso) data reso d tg).
    { unfold add_data. fold (base S reso). rewrite Hib. reflexivity. }
    rewrite E. destruct (init S) eqn:Hi.
    - unfold base in *. rewrite Hi in *. now apply add_data_init_ok.
    - rewrite (add_prelude S data reso d tg Hi). now apply add_data_init_ok.
  Qed.

  Definition code_step := prun_step (R:=R) code__add_data code_set_resolution code_set_data_flag code_getter.
  Definition code_run := prun (R:=R) code__add_data code_set_resolution code_set_data_flag code_getter.

  Lemma step_refines (S : st) (x : @op R) : Inv S ->
    code_step (conc S) x =
    Some (conc (fst (fst (step NoneTagRefused S x))), (snd (fst (step NoneTagRefused S x)), snd (step NoneTagRefused S x)))
    /\ Inv (fst (fst (step NoneTagRefused S x))).
  Proof.
    intros HI. destruct x as [data reso d tg|new|d tg as_list]; unfold code_step, prun_step, step.
    - pose proof (add_data_ok S data reso d tg HI) as H. unfold resov in H. rewrite H.
      pose proof (Inv_add_data S data reso d tg HI) as H2.
      destruct (add_data NoneTagRefused S data reso d tg) as [s' ok]. split; [reflexivity|exact H2].
    - rewrite (set_resolution_ok S new (Inv_cinv S HI)).
      pose proof (Inv_set_resolution S new HI) as H2.
      destruct (set_resolution S new) as [s' ok]. split; [reflexivity|exact H2].
    - cbn [fst snd]. destruct HI as (Hwa & Hwp & Hn & Ha & Ht).
      destruct as_list.
      + rewrite flag_list_ok. rewrite (getter_ok (set_flag S d tg) Hwp Hn). split; [reflexivity|repeat split; assumption].
      + rewrite flag_ok. rewrite (getter_ok (set_flag S d None) Hwp Hn). split; [reflexivity|repeat split; assumption].
  Qed.

  Lemma run_refines ops : forall (S : st), Inv S ->
    code_run (conc S) ops = Some (conc (fst (run NoneTagRefused S ops)), snd (run NoneTagRefused S ops)).
  Proof.
    induction ops as [|x ops IH]; intros S HI; [reflexivity|].
    unfold code_run in *. cbn [prun run]. destruct (step_refines S x HI) as [E HI']. unfold code_step in E. rewrite E.
    destruct (step NoneTagRefused S x) as [[s' ok] r]. cbn [fst snd] in *. rewrite (IH s' HI').
    destruct (run NoneTagRefused s' ops) as [s'' outs]. reflexivity.
  Qed.

  Lemma new_object_is_fresh : new_obj (R:=R) code_new_fields dummy = Some (conc fresh).
  Proof. reflexivity. Qed.

  (* every history of _add_data / set_resolution / set_data_flag + read on a new object, executed by the transcribed
     code, shows exactly what Model/C19.v's [run] shows, and ends in the object that represents the model's state *)
  Theorem code_refines_model (ops : list (@op R)) :
    match new_obj code_new_fields dummy with
    | Some o => code_run o ops
    | None => None
    end = Some (conc (fst (run NoneTagRefused fresh ops)), snd (run NoneTagRefused fresh ops)).
  Proof. rewrite new_object_is_fresh. apply run_refines. exact Inv_fresh. Qed.

  (* reachable model states satisfy the invariant (used above; also: a store that was never initialised holds no data) *)
  Lemma Inv_run ops : forall (S : st), Inv S -> Inv (fst (run NoneTagRefused S ops)).
  Proof.
    induction ops as [|x ops IH]; intros S HI; [exact HI|].
    cbn [run]. destruct (step_refines S x HI) as [_ HI']. destruct (step NoneTagRefused S x) as [[s' ok] r]. cbn [fst] in HI'.
    specialize (IH s' HI'). destruct (run NoneTagRefused s' ops) as [s'' outs]. exact IH.
  Qed.

  (* ---------------- a store that was never initialised holds only zero arrays ---------------- *)
  (* (this is what makes the in-place accumulation of _types_to_processes / _types_to_signals harmless where it
     works on a stored array: see ALIAS_IDIOM in harness/translate_c19.py) *)
  Definition Zst (s : st) : Prop :=
    init s = false ->
    pw s = [] /\ (forall p v, ty s p = Some v -> v = 0) /\ (forall q v, pr s q = Some v -> v = 0) /\
    (forall g v, sg s g = Some v -> v = 0) /\ (forall v, tot s = Some v -> v = 0).

  Lemma Zst_fresh : Zst fresh.
  Proof. intros _. repeat split; intros; discriminate. Qed.

  Lemma types_sum_zero (s : st) ps : init s = false -> (forall p v, ty s p = Some v -> v = 0) ->
    forall v, types_sum s ps = Some v -> v = 0.
  Proof.
    intros Hi Hz. unfold types_sum. rewrite Hi.
    assert (G : forall a, (forall v, a = Some v -> v = 0) ->
              forall v, fold_left (fun a p => match ty s p with
                                              | Some v => match a with Some x => Some (x + v) | None => Some v end
                                              | None => a end) ps a = Some v -> v = 0).
    { induction ps as [|p ps IH]; intros a Ha v; cbn [fold_left]; [apply Ha|].
      apply IH. destruct (ty s p) as [y|] eqn:E; [|exact Ha].
      pose proof (Hz p y E) as Hy. destruct a as [x|]; intros w [= <-]; [rewrite (Ha x eq_refl), Hy; ring|exact Hy]. }
    apply G. intros; discriminate.
  Qed.

  Lemma Zst_conv (s s' : st) new : Zst s -> conv s new = Some s' -> Zst s'.
  Proof.
    intros HZ. unfold conv.
    destruct (res s), new; try discriminate; intros [= <-]; intros Hi; cbn [init with_store] in Hi;
      destruct (HZ Hi) as (Hpw & Hty & Hpr & Hsg & Htot); cbn [pw Model.C19.ty pr sg tot with_store].
    - (* signals -> off *) rewrite Hi. repeat split; intros; discriminate.
    - (* processes -> off *) rewrite Hi. repeat split; intros; discriminate.
    - (* types -> signals *) repeat split; try (intros; discriminate).
      intros g v [= <-]. destruct (types_sum s (types_of_signal g)) as [y|] eqn:E; [|reflexivity].
      exact (types_sum_zero s _ Hi Hty y E).
    - (* types -> processes *) repeat split; try (intros; discriminate).
      intros q v [= <-]. destruct (types_sum s (types_of_process q)) as [y|] eqn:E; [|reflexivity].
      exact (types_sum_zero s _ Hi Hty y E).
    - (* pathways -> types *) repeat split; try (intros; discriminate).
      intros p v [= <-]. destruct (attr s); [|reflexivity]. unfold pw_type_sum, pw_of. rewrite Hpw. reflexivity.
  Qed.
  Lemma Zst_conv_along path : forall (s s' : st), Zst s -> conv_along s path = Some s' -> Zst s'.
  Proof.
    induction path as [|l path IH]; intros s s' HZ; cbn [conv_along]; [intros [= <-]; exact HZ|].
    destruct (conv s l) as [s1|] eqn:E; [|discriminate]. apply IH. exact (Zst_conv _ _ _ HZ E).
  Qed.
  Lemma Zst_set_resolution (s : st) new : Zst s -> Zst (fst (set_resolution s new)).
  Proof.
    intros HZ. unfold set_resolution. destruct new as [n|]; [|exact HZ].
    destruct (Nat.ltb (lnum (res s)) (lnum n)); [exact HZ|].
    destruct (Nat.ltb (lnum n) (lnum (res s))); [|exact HZ].
    destruct (conv_path (res s) n) as [path|]; [|exact HZ].
    destruct (conv_along s path) as [s'|] eqn:E; [|exact HZ]. exact (Zst_conv_along _ _ _ HZ E).
  Qed.
  Lemma write_init (u : st) v : init (fst (write NoneTagRefused u v)) = true.
  Proof.
    unfold write. assert (Hi : init (ensure_init u) = true) by (unfold ensure_init; destruct (init u) eqn:E; [exact E|reflexivity]).
    destruct (res (ensure_init u)); destruct (cur (ensure_init u)); try exact Hi;
      try (destruct (ctag (ensure_init u)); try exact Hi; destruct (alookup _ _); exact Hi).
  Qed.
  Lemma add_data_init (s : st) data reso d tg : init (fst (add_data NoneTagRefused s data reso d tg)) = true.
  Proof.
    unfold add_data. fold (base s reso). pose proof (base_init s reso) as Hb. set (b := base s reso) in *.
    assert (Hacc : forall t', init (fst (accumulate NoneTagRefused (set_flag b d t') data)) = true) by (intros; apply write_init).
    destruct reso as [r|].
    - destruct (Nat.leb (lnum r) (lnum (res b))); [|exact Hb]. destruct r; destruct d; destruct tg; try exact Hb; apply Hacc.
    - destruct (res b); destruct d; destruct tg; try exact Hb; apply Hacc.
  Qed.
  Lemma Zst_run ops : forall (s : st), Zst s -> Zst (fst (run NoneTagRefused s ops)).
  Proof.
    induction ops as [|x ops IH]; intros s HZ; [exact HZ|]. cbn [run].
    assert (HZ' : Zst (fst (fst (step NoneTagRefused s x)))).
    { destruct x as [data reso d tg|new|d tg as_list]; unfold step.
      - pose proof (add_data_init s data reso d tg) as Hi. destruct (add_data NoneTagRefused s data reso d tg) as [s' ok].
        cbn [fst] in *. intros H; rewrite Hi in H; discriminate.
      - pose proof (Zst_set_resolution s new HZ) as H. destruct (set_resolution s new) as [s' ok]. exact H.
      - exact HZ. }
    destruct (step NoneTagRefused s x) as [[s' ok] r]. cbn [fst] in HZ'. specialize (IH s' HZ').
    destruct (run NoneTagRefused s' ops) as [s'' outs]. exact IH.
  Qed.
  Theorem uninitialised_store_is_zero (ops : list (@op R)) : Zst (fst (run NoneTagRefused fresh ops)).
  Proof. apply Zst_run, Zst_fresh. Qed.
End Gen.
