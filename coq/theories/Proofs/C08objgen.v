(* Statement skeletons of the bookkeeping of evolutionsuperoperator.py (initialisation of the data, calculate(), the
   incremental state machine, apply over an axis, TimeAxis.locate, set_dense_dt) with the arithmetic content as parameters,
   the lemmas that turn "the content is the expected one" into equality with Model/C08.v / Model/C08obj.v, and the facts
   about those model definitions that Props/C08.v states.  harness/translate_c08.py instantiates the parameters from the
   current source on every run. *)
From Coq Require Import ZArith List Bool Arith Lia QArith Qround Qfield.
From QV Require Import Base.Alg Base.Sums Base.Mat Base.Tens Base.TensId Model.C08 Model.C08obj Proofs.C08gen.
Import ListNotations.

Section Skel.
  Context {R : StarRing}.
  Variable n : nat.

  (* ---- for i in range(n): for j in range(n): data[pos i j] = v   on top of `base` ---- *)
  Definition eq4 (p q : nat * nat * nat * nat) : bool :=
    let '(a, b, c, d) := p in let '(a', b', c', d') := q in Nat.eqb a a' && Nat.eqb b b' && Nat.eqb c c' && Nat.eqb d d'.
  Definition writes_skel (pos : nat -> nat -> nat * nat * nat * nat) (v : R) (base : @tens R) : @tens R :=
    fun a b c d => if existsb (fun i => existsb (fun j => eq4 (pos i j) (a, b, c, d)) (seq 0 n)) (seq 0 n) then v else base a b c d.

  Lemma writes_skel_id pos v base : (forall i j, pos i j = (i, j, i, j)) -> v = r1 R ->
    (teq n base tzero \/ teq n base tid) -> teq n (writes_skel pos v base) tid.
  Proof.
    intros Hpos -> Hb a b c d Ha Hb' Hc Hd. unfold writes_skel, tid.
    destruct (Nat.eqb_spec a c) as [->|Hac]; [destruct (Nat.eqb_spec b d) as [->|Hbd]|]; cbn [andb].
    - replace (existsb _ _) with true; [reflexivity|]. symmetry. apply existsb_exists. exists c. split; [apply in_seq; lia|].
      apply existsb_exists. exists d. split; [apply in_seq; lia|]. rewrite Hpos. cbn. now rewrite !Nat.eqb_refl.
    - replace (existsb _ _) with false.
      + destruct Hb as [Hb|Hb]; rewrite (Hb c b c d) by assumption; unfold tzero, tid; [reflexivity|].
        rewrite Nat.eqb_refl. cbn [andb]. destruct (Nat.eqb_spec b d); [contradiction|reflexivity].
      + symmetry. apply not_true_is_false. intros He. apply existsb_exists in He. destruct He as [i [_ He]].
        apply existsb_exists in He. destruct He as [j [_ He]]. rewrite Hpos in He. cbn in He.
        apply andb_true_iff in He. destruct He as [He Hd']. apply andb_true_iff in He. destruct He as [He Hc'].
        apply andb_true_iff in He. destruct He as [Ha' Hb'']. apply Nat.eqb_eq in Ha', Hb'', Hc', Hd'. subst. contradiction.
    - replace (existsb _ _) with false.
      + destruct Hb as [Hb|Hb]; rewrite (Hb a b c d) by assumption; unfold tzero, tid; [reflexivity|].
        destruct (Nat.eqb_spec a c); [contradiction|reflexivity].
      + symmetry. apply not_true_is_false. intros He. apply existsb_exists in He. destruct He as [i [_ He]].
        apply existsb_exists in He. destruct He as [j [_ He]]. rewrite Hpos in He. cbn in He.
        apply andb_true_iff in He. destruct He as [He Hd']. apply andb_true_iff in He. destruct He as [He Hc'].
        apply andb_true_iff in He. destruct He as [Ha' Hb'']. apply Nat.eqb_eq in Ha', Hb'', Hc', Hd'. subst. contradiction.
  Qed.

  (* data = zeros((Nt, ...)); the identity written at time index t0 *)
  Definition init_skel (t0 : Z) (pos : nat -> nat -> nat * nat * nat * nat) (v : R) : nat -> @tens R :=
    tupd (fun _ => tzero) (Z.to_nat t0) (writes_skel pos v tzero).
  Lemma init_skel_is_model t0 pos v : t0 = 0%Z -> (forall i j, pos i j = (i, j, i, j)) -> v = r1 R ->
    forall t, teq n (init_skel t0 pos v t) (init_table t).
  Proof.
    intros -> Hpos Hv t. unfold init_skel, tupd. change (Z.to_nat 0) with 0%nat. destruct t as [|t]; cbn [Nat.eqb init_table].
    - apply writes_skel_id; auto. left. intros a b c d _ _ _ _. reflexivity.
    - intros a b c d _ _ _ _. reflexivity.
  Qed.

  (* ---- calculate(): [initialise]; data[store] = Udt; remaining steps ---- *)
  Lemma remaining_skel_list (k : nat) (Udt : @tens R) lo hi idx f d :
    lo = 2%Z -> hi = Z.of_nat (S (S k)) -> (forall ti, idx ti = (ti - 1)%Z) -> (forall Y, f Y = tab4 n (tcomp n Udt Y)) -> d 1%nat = Udt ->
    map (remaining_skel lo hi idx f d) (seq 0 (S (S k))) = d 0%nat :: Udt :: calc_rest n k Udt Udt.
  Proof.
    intros -> -> Hidx Hf H1. unfold remaining_skel.
    replace (Z.to_nat (Z.of_nat (S (S k)) - 2)) with k by lia.
    pose proof (rest_skel_spec n Udt idx f Hidx Hf k 2 d ltac:(lia)) as Hs.
    change (Z.of_nat 2) with 2%Z in Hs. cbv zeta in Hs. destruct Hs as [Hkeep Hmap].
    change (seq 0 (S (S k))) with (0%nat :: 1%nat :: seq 2 k). cbn [map].
    rewrite (Hkeep 0%nat) by lia. rewrite (Hkeep 1%nat) by lia. rewrite H1. do 2 f_equal.
    rewrite Hmap. cbn [Nat.sub]. now rewrite H1.
  Qed.

  Lemma Forall2_teq_refl (l : list (@tens R)) : Forall2 (teq n) l l.
  Proof. induction l; constructor; [intros a' b c d _ _ _ _; reflexivity|assumption]. Qed.

  Definition calculate_skel (store : Z) (lo hi : Z) (idx : Z -> Z) (fof : @tens R -> @tens R -> @tens R) (first : Z)
             (d0 : nat -> @tens R) (Udt : @tens R) (Nt : nat) : list (@tens R) :=
    let d1 := updT d0 (Z.to_nat store) Udt in
    map (remaining_skel lo hi idx (fof (d1 (Z.to_nat first))) d1) (seq 0 Nt).

  Lemma calculate_skel_is_model store lo hi idx fof first d0 Udt Nt :
    store = 1%Z -> first = 1%Z -> lo = 2%Z -> hi = Z.of_nat Nt -> (forall ti, idx ti = (ti - 1)%Z) ->
    (forall U Y, fof U Y = tab4 n (tcomp n U Y)) -> (2 <= Nt)%nat -> teq n (d0 0%nat) tid ->
    Forall2 (teq n) (calculate_skel store lo hi idx fof first d0 Udt Nt) (calc_all n Nt Udt).
  Proof.
    intros -> -> Hlo Hhi Hidx Hf HNt H0. unfold calculate_skel. change (Z.to_nat 1) with 1%nat.
    destruct Nt as [|[|k]]; try lia.
    rewrite (remaining_skel_list k Udt lo hi idx (fof (updT d0 1 Udt 1%nat)) (updT d0 1 Udt) Hlo Hhi Hidx).
    - cbn [calc_all]. constructor; [exact H0|]. apply Forall2_teq_refl.
    - intros Y. rewrite Hf. reflexivity.
    - reflexivity.
  Qed.
End Skel.

Section Jit.
  Context {R : StarRing}.
  Variable n : nat.

  (* ---- calculate_next(save=False): (now, current tensor) ---- *)
  Definition next_skel (first : Z -> bool) (inc0 inc1 : Z) (f : @tens R -> @tens R -> @tens R) (Udt : @tens R)
             (s : Z * @tens R) : Z * @tens R :=
    if first (fst s) then ((fst s + inc0)%Z, Udt) else ((fst s + inc1)%Z, f Udt (snd s)).
  Lemma next_skel_is_model first inc0 inc1 f Udt :
    (forall z, (0 <= z)%Z -> (first z = true <-> z = 0%Z)) -> inc0 = 1%Z -> inc1 = 1%Z ->
    (forall U Y, f U Y = tab4 n (tcomp n U Y)) ->
    forall k X, next_skel first inc0 inc1 f Udt (Z.of_nat k, X) =
                (Z.of_nat (fst (jit_next n Udt (k, X))), snd (jit_next n Udt (k, X))).
  Proof.
    intros Hfirst -> -> Hf k X. unfold next_skel, jit_next. cbn [fst snd].
    destruct k as [|k].
    - replace (first (Z.of_nat 0)) with true by (symmetry; apply Hfirst; lia). reflexivity.
    - replace (first (Z.of_nat (S k))) with false.
      + rewrite Hf. cbn [fst snd]. f_equal. lia.
      + symmetry. apply not_true_is_false. intros He. apply Hfirst in He; lia.
  Qed.

  (* ---- calculate_next(save=True): (now, table) ---- *)
  Definition next_skel_save (first : Z -> bool) (inc0 inc1 : Z) (s1 : Z) (tiof : Z -> Z) (w r : Z -> Z -> Z)
             (f : @tens R -> @tens R -> @tens R) (Udt : @tens R) (s : Z * (nat -> @tens R)) : Z * (nat -> @tens R) :=
    let now := fst s in let d := snd s in
    if first now then ((now + inc0)%Z, updT d (Z.to_nat s1) Udt)
    else let ti := tiof now in ((now + inc1)%Z, updT d (Z.to_nat (w now ti)) (f Udt (d (Z.to_nat (r now ti))))).
  Lemma next_skel_save_is_model first inc0 inc1 s1 tiof w r f Udt :
    (forall z, (0 <= z)%Z -> (first z = true <-> z = 0%Z)) -> inc0 = 1%Z -> inc1 = 1%Z -> s1 = 1%Z ->
    (forall now, w now (tiof now) = (now + 1)%Z) -> (forall now, r now (tiof now) = now) ->
    (forall U Y, f U Y = tab4 n (tcomp n U Y)) ->
    forall k d, next_skel_save first inc0 inc1 s1 tiof w r f Udt (Z.of_nat k, d) =
                (Z.of_nat (fst (jit_next_save n Udt (k, d))), snd (jit_next_save n Udt (k, d))).
  Proof.
    intros Hfirst -> -> -> Hw Hr Hf k d. unfold next_skel_save, jit_next_save. cbn [fst snd].
    destruct k as [|k].
    - replace (first (Z.of_nat 0)) with true by (symmetry; apply Hfirst; lia). reflexivity.
    - replace (first (Z.of_nat (S k))) with false.
      + rewrite Hw, Hr, Hf. rewrite Nat2Z.id. replace (Z.to_nat (Z.of_nat (S k) + 1)) with (S (S k)) by lia.
        replace (Z.of_nat (S k) + 1)%Z with (Z.of_nat (S (S k))) by lia. reflexivity.
      + symmetry. apply not_true_is_false. intros He. apply Hfirst in He; lia.
  Qed.

  Lemma jit_run_fst (Udt : @tens R) k : fst (jit_run n k Udt) = k.
  Proof.
    unfold jit_run. induction k as [|k IH]; cbn [iter]; [reflexivity|]. unfold jit_next at 1. rewrite IH.
    destruct k; reflexivity.
  Qed.

  (* the table filled by k incremental calls holds, at every index up to k, the value of the in-place mode after that many calls *)
  Lemma jit_run_save_spec (Udt : @tens R) k :
    fst (jit_run_save n k Udt) = k /\
    (forall j, (1 <= j <= k)%nat -> snd (jit_run_save n k Udt) j = snd (jit_run n j Udt)) /\
    snd (jit_run_save n k Udt) 0%nat = tid /\
    (forall j, (k < j)%nat -> snd (jit_run_save n k Udt) j = init_table j).
  Proof.
    induction k as [|k IH].
    - cbn. split; [reflexivity|]. split; [intros j Hj; lia|]. split; [reflexivity|]. intros j _. reflexivity.
    - unfold jit_run_save in *. cbn [iter]. destruct IH as [Hn [Hv [H0 Hrest]]].
      set (s := iter k (jit_next_save n Udt) (0%nat, init_table)) in *.
      assert (Hstep : jit_next_save n Udt s =
                      match k with
                      | O => (1%nat, tupd (snd s) 1 Udt)
                      | S k' => (S (S k'), tupd (snd s) (S (S k')) (tab4 n (tcomp n Udt (snd s (S k')))))
                      end) by (unfold jit_next_save; rewrite Hn; reflexivity).
      assert (Htstep : snd (jit_run n (S k) Udt) =
                       match k with O => Udt | S k' => tab4 n (tcomp n Udt (snd (jit_run n k Udt))) end).
      { change (jit_run n (S k) Udt) with (jit_next n Udt (jit_run n k Udt)). unfold jit_next. rewrite (jit_run_fst Udt k).
        destruct k; reflexivity. }
      rewrite Hstep. destruct k as [|k]; cbn [fst snd].
      + split; [reflexivity|]. split.
        * intros j Hj. assert (j = 1%nat) by lia. subst j. unfold tupd. cbn [Nat.eqb]. now rewrite Htstep.
        * split; [unfold tupd; cbn [Nat.eqb]; exact H0|]. intros j Hj. unfold tupd.
          destruct (Nat.eqb_spec j 1); [lia|]. apply Hrest. lia.
      + split; [reflexivity|]. split.
        * intros j Hj. unfold tupd. destruct (Nat.eqb_spec j (S (S k))) as [->|Hne].
          -- rewrite Htstep. rewrite (Hv (S k)) by lia. reflexivity.
          -- rewrite Hv by lia. reflexivity.
        * split; [unfold tupd; cbn [Nat.eqb]; exact H0|]. intros j Hj. unfold tupd.
          destruct (Nat.eqb_spec j (S (S k))); [lia|]. apply Hrest. lia.
  Qed.

  (* ---- apply over an axis:  k_i = k0; for tt in axis (p-th point): out[o k_i] = f p k_i; k_i += inc ---- *)
  Definition updM (r : nat -> @mat R) (i : nat) (v : @mat R) : nat -> @mat R := fun j => if Nat.eqb j i then v else r j.
  Fixpoint axis_skel (len p : nat) (k inc : Z) (o : Z -> Z) (f : nat -> Z -> @mat R) (r : nat -> @mat R) : nat -> @mat R :=
    match len with
    | O => r
    | S l => axis_skel l (S p) (k + inc)%Z inc o f (updM r (Z.to_nat (o k)) (f p k))
    end.
  Lemma axis_skel_spec inc o f : inc = 1%Z -> (forall k, o k = k) ->
    forall len (k : nat) r, (forall j, (j < k)%nat -> axis_skel len k (Z.of_nat k) inc o f r j = r j) /\
                            (forall j, (k <= j < k + len)%nat -> axis_skel len k (Z.of_nat k) inc o f r j = f j (Z.of_nat j)).
  Proof.
    intros -> Ho. induction len as [|len IH]; intros k r; cbn [axis_skel].
    - split; [reflexivity|intros; lia].
    - replace (Z.of_nat k + 1)%Z with (Z.of_nat (S k)) by lia. rewrite Ho, Nat2Z.id.
      destruct (IH (S k) (updM r k (f k (Z.of_nat k)))) as [Hkeep Hset]. split.
      + intros j Hj. rewrite Hkeep by lia. unfold updM. destruct (Nat.eqb_spec j k); [lia|reflexivity].
      + intros j Hj. destruct (Nat.eq_dec j k) as [->|Hne].
        * rewrite Hkeep by lia. unfold updM. now rewrite Nat.eqb_refl.
        * apply Hset. lia.
  Qed.
  Lemma axis_skel_is_model k0 inc o f r len : k0 = 0%Z -> inc = 1%Z -> (forall k, o k = k) ->
    forall j, (j < len)%nat -> axis_skel len 0 k0 inc o f r j = f j (Z.of_nat j).
  Proof.
    intros -> Hinc Ho j Hj. destruct (axis_skel_spec inc o f Hinc Ho len 0 r) as [_ H]. apply H. lia.
  Qed.

  Lemma apply_axis_nth (data : nat -> @tens R) len rho j : (j < len)%nat ->
    nth j (apply_axis n data len rho) (fun _ _ => r0 R) = tapply n (data j) rho.
  Proof.
    enough (forall st len j, (j < len)%nat -> nth j (map (fun k => apply_at n data k rho) (seq st len)) (fun _ _ => r0 R) = tapply n (data (st + j)%nat) rho) as H by (intros Hj; apply (H 0%nat len j Hj)).
    intros st len0; revert st; induction len0 as [|len0 IH]; intros st j0 Hj; [lia|].
    cbn [seq map]. destruct j0 as [|j0]; cbn [nth]; [unfold apply_at; now rewrite Nat.add_0_r|].
    rewrite IH by lia. do 2 f_equal. lia.
  Qed.
End Jit.

(* ---- TimeAxis.locate and set_dense_dt over Q ---- *)
Definition locate_skel (q : Q) (c : Z -> bool) : option nat := let k := Qfloor q in if c k then Some (Z.to_nat k) else None.
Lemma locate_skel_is_model q c start step length val : q == (val - start) / step ->
  (forall k, c k = true <-> (0 <= k < Z.of_nat length)%Z) -> locate_skel q c = locate start step length val.
Proof.
  intros Hq Hc. unfold locate_skel, locate. rewrite (Qfloor_comp _ _ Hq). cbv zeta.
  set (k := Qfloor _). destruct (c k) eqn:E.
  - apply Hc in E. replace (0 <=? k)%Z with true by (symmetry; apply Z.leb_le; lia).
    replace (k <? Z.of_nat length)%Z with true by (symmetry; apply Z.ltb_lt; lia). reflexivity.
  - destruct ((0 <=? k)%Z && (k <? Z.of_nat length)%Z) eqn:E2; [|reflexivity].
    apply andb_true_iff in E2. destruct E2 as [E2 E3]. apply Z.leb_le in E2. apply Z.ltb_lt in E3.
    assert (c k = true) by (apply Hc; lia). congruence.
Qed.

(* a grid time is located at its own index (exact arithmetic) *)
Lemma locate_grid start step length i : 0 < step -> (i < length)%nat ->
  locate start step length (start + inject_Z (Z.of_nat i) * step) = Some i.
Proof.
  intros Hs Hi. unfold locate.
  assert (Hq : (start + inject_Z (Z.of_nat i) * step - start) / step == inject_Z (Z.of_nat i)).
  { field. intros H0. rewrite H0 in Hs. now apply Qlt_irrefl in Hs. }
  rewrite (Qfloor_comp _ _ Hq), Qfloor_Z. cbv zeta.
  replace (0 <=? Z.of_nat i)%Z with true by (symmetry; apply Z.leb_le; lia).
  replace (Z.of_nat i <? Z.of_nat length)%Z with true by (symmetry; apply Z.ltb_lt; lia).
  cbn [andb]. now rewrite Nat2Z.id.
Qed.
(* a time inside the i-th interval is located at i as well *)
Lemma locate_interval start step length i (x : Q) : 0 < step -> (i < length)%nat -> 0 <= x -> x < step ->
  locate start step length (start + inject_Z (Z.of_nat i) * step + x) = Some i.
Proof.
  intros Hs Hi Hx0 Hx1. unfold locate.
  assert (Hne : ~ step == 0) by (intros H0; rewrite H0 in Hs; now apply Qlt_irrefl in Hs).
  assert (Hq : (start + inject_Z (Z.of_nat i) * step + x - start) / step == inject_Z (Z.of_nat i) + x / step) by (field; exact Hne).
  rewrite (Qfloor_comp _ _ Hq). cbv zeta.
  assert (Hf : Qfloor (inject_Z (Z.of_nat i) + x / step) = Z.of_nat i).
  { assert (H0 : 0 <= x / step) by (apply Qle_shift_div_l; [exact Hs|]; setoid_replace (0 * step) with 0 by ring; exact Hx0).
    assert (H1 : x / step < 1) by (apply Qlt_shift_div_r; [exact Hs|]; setoid_replace (1 * step) with step by ring; exact Hx1).
    apply Z.le_antisymm.
    - apply Z.lt_succ_r. rewrite Zlt_Qlt. eapply Qle_lt_trans; [apply Qfloor_le|].
      unfold Z.succ. rewrite inject_Z_plus. apply Qplus_lt_r. exact H1.
    - rewrite <- (Qfloor_Z (Z.of_nat i)) at 1. apply Qfloor_resp_le.
      setoid_replace (inject_Z (Z.of_nat i)) with (inject_Z (Z.of_nat i) + 0) at 1 by ring. apply Qplus_le_r. exact H0. }
  rewrite Hf.
  replace (0 <=? Z.of_nat i)%Z with true by (symmetry; apply Z.leb_le; lia).
  replace (Z.of_nat i <? Z.of_nat length)%Z with true by (symmetry; apply Z.ltb_lt; lia).
  cbn [andb]. now rewrite Nat2Z.id.
Qed.

Lemma dense_axis_covers step N : (1 <= N)%nat ->
  fst (dense_axis step N) = S N /\ snd (dense_axis step N) * inject_Z (Z.of_nat N) == step.
Proof.
  intros HN. unfold dense_axis. cbn [fst snd]. split; [reflexivity|]. field.
  intros H0. assert (Z.of_nat N = 0%Z) as H1 by (apply inject_Z_injective; exact H0). lia.
Qed.

(* ---- the object as a store: re-use of one object gives what a fresh object with the same settings gives ---- *)
Section FrameFacts.
  Variable V : Type.
  Variable sem : op -> ostate V -> ostate V.
  Hypothesis sem_respects : forall o, respects V (sem o) (op_reads o) (op_writes o).

  Lemma run_keeps (fs : list field) h : (forall o, In o h -> forall f, In f fs -> ~ In f (op_writes o)) ->
    forall s, agree V fs (run V sem h s) s.
  Proof.
    unfold run. induction h as [|o h IH]; intros Hh s; cbn [fold_left]; [intros f _; reflexivity|].
    intros f Hf. rewrite (IH (fun o' Ho' => Hh o' (or_intror Ho')) (sem o s) f Hf).
    apply (proj1 (sem_respects o)). apply (Hh o (or_introl eq_refl) f Hf).
  Qed.

  Definition settings : list field := [FMode; FTime; FDim; FPdeph; FRelt; FHam].

  Theorem reuse_equals_fresh (h : list op) (N : nat) (s : ostate V) :
    agree V [FData; FInRwa] (sem OCalculate (sem (OSetDense N) (run V sem h s))) (sem OCalculate (sem (OSetDense N) s)).
  Proof.
    apply (proj2 (sem_respects OCalculate)).
    assert (Hk : agree V settings (run V sem h s) s).
    { apply run_keeps. intros o _ f Hf. destruct o; cbn in *; intuition congruence. }
    intros f Hf. destruct (field_eqb f FDenseTime) eqn:E.
    - destruct f; try discriminate E.
      apply (proj2 (sem_respects (OSetDense N))); [|cbn; auto].
      intros g Hg. cbn in Hg. destruct Hg as [<-|[]]. apply Hk. cbn; auto.
    - rewrite !(proj1 (sem_respects (OSetDense N))) by (cbn; intros [<-|[]]; cbn in E; discriminate E).
      apply Hk. cbn in Hf. cbn. destruct Hf as [<-|[<-|[<-|[<-|[<-|[<-|[<-|[]]]]]]]]; try tauto; cbn in E; discriminate E.
  Qed.
End FrameFacts.
