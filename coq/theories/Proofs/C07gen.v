(* Lemmas for the static tie of the C07 glue (harness/translate_c07.py) and the facts about Model/C07glue.v stated in Props/C07.v *)
From Coq Require Import ZArith List Bool Arith Lia.
From QV Require Import Base.Alg Base.Sums Base.Mat Base.Tens Model.C01 Model.C02 Model.C07glue Proofs.C01 Proofs.C07 Proofs.C02.
Import ListNotations.

Section GlueFacts.
  Context {R : StarRing}.
  Add Ring Rr : (rth R).
  Open Scope sr_scope.
  Variable n : nat.

  (* both representations act identically, before and after convert_2_tensor *)
  Lemma rt_apply_forms Nb (Km Lm Ld : nat -> @mat R) (T rho : _) :
    meq n (rt_apply n false Nb Km Lm Ld (convert_ops n Nb Km Lm Ld) rho) (rt_apply n true Nb Km Lm Ld T rho).
  Proof. unfold rt_apply. apply op_eq_tensor. Qed.
  Lemma convert_2_tensor_spec Nb (Km Lm Ld : nat -> @mat R) (T : @tens R) (rho : @mat R) :
    fst (convert_2_tensor n true Nb Km Lm Ld T) = false /\
    meq n (rt_apply n (fst (convert_2_tensor n true Nb Km Lm Ld T)) Nb Km Lm Ld (snd (convert_2_tensor n true Nb Km Lm Ld T)) rho)
          (rt_apply n true Nb Km Lm Ld T rho) /\
    convert_2_tensor n false Nb Km Lm Ld T = (false, T).
  Proof. split; [reflexivity|]. split; [apply rt_apply_forms|reflexivity]. Qed.

  (* the time-dependent Lambda at the last index of the axis is the time-independent Lambda, hence (Proofs.C07.td_last_eq_ti) so are the tensors *)
  Lemma lam_td_last_is_ti im sr si (Km : nat -> @mat R) length ms a b :
    lam_td im sr si Km (length - 1) ms a b = lam_ti im sr si Km length ms a b.
  Proof. reflexivity. Qed.
  Lemma td_last_tensor_is_ti_tensor im sr si Nb (Km : nat -> @mat R) length :
    (forall m, (m < Nb)%nat -> sym_mat n (Km m)) ->
    teq n (td_redfield_tensor n Nb Km (lam_td im sr si Km (length - 1))) (redfield_tensor n Nb Km (lam_ti im sr si Km length)).
  Proof. intros HK. apply td_last_eq_ti; [exact HK|]. intros m i j _ _ _. apply lam_td_last_is_ti. Qed.
  (* at the first index the running integral is zero (oracle fact: an antiderivative vanishes at its lower limit) and so is the tensor *)
  Lemma td_first_tensor_is_zero im sr si Nb (Km : nat -> @mat R) :
    (forall ms a b, sr ms a b 0%nat = 0) -> (forall ms a b, si ms a b 0%nat = 0) ->
    teq n (td_redfield_tensor n Nb Km (lam_td im sr si Km 0)) (fun _ _ _ _ => 0).
  Proof.
    intros Hr Hi. apply td_zero_at_zero. intros m i j _ _ _. unfold lam_td. rewrite Hr, Hi. ring.
  Qed.
End GlueFacts.

(* ---- the operator-form time-dependent nest ---- *)
Lemma ops_walk_pinned_eq_tensor_walk_on_equal_axes nsteps cutoff : forall indxR, (indxR <= cutoff - 1)%nat ->
  ops_walk_pinned nsteps 1 indxR cutoff = td_walk WalkRepaired nsteps indxR 1 cutoff.
Proof.
  induction nsteps as [|k IH]; intros indxR Hi; cbn [ops_walk_pinned td_walk repeat app]; [reflexivity|].
  f_equal.
  assert (Hn : ops_next_pinned indxR cutoff = walk_next WalkRepaired indxR 1 cutoff)
    by (unfold ops_next_pinned, walk_next; destruct (Nat.ltb_spec indxR (cutoff - 1)); lia).
  rewrite <- Hn. apply IH. unfold ops_next_pinned. destruct (Nat.ltb_spec indxR (cutoff - 1)); lia.
Qed.
Lemma ops_td_walk_spec :
  (forall nsteps nref stride cutoff, ops_td_walk OpsWalkRepaired nsteps nref stride cutoff = td_walk WalkRepaired (nsteps * nref) 1 stride cutoff) /\
  (forall nsteps cutoff, (2 <= cutoff)%nat -> ops_td_walk OpsWalkPinned nsteps 1 1 cutoff = td_walk WalkRepaired (nsteps * 1) 1 1 cutoff) /\
  (ops_td_walk OpsWalkPinned 3 1 2 10 = [1; 2; 3]%nat /\ td_walk WalkRepaired 3 1 2 10 = [1; 3; 5]%nat) /\
  (ops_td_walk OpsWalkPinned 2 2 1 10 = [1; 1; 2; 2]%nat /\ td_walk WalkRepaired 4 1 1 10 = [1; 2; 3; 4]%nat).
Proof.
  split; [reflexivity|]. split; [intros nsteps cutoff Hc; unfold ops_td_walk; rewrite Nat.mul_1_r; apply ops_walk_pinned_eq_tensor_walk_on_equal_axes; lia|].
  split; split; reflexivity.
Qed.
