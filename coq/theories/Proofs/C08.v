(* C08: the evolution superoperator of a time-independent generator is an identity-started semigroup,
   preserves trace and Hermiticity, reproduces direct propagation, and is the same step by step. *)
From Coq Require Import ZArith List Bool Arith Lia.
From QV Require Import Base.Alg Base.Sums Base.Mat Base.Tens Base.TensId Base.Taylor Base.TaylorG Model.C01 Model.C02 Model.C08
     Proofs.Tensor Proofs.TensAlg Proofs.C01 Proofs.C07 Proofs.C02.
Import ListNotations.

Section C08.
  Context {R : StarRing}.
  Add Ring Rr : (rth R).
  Open Scope sr_scope.
  Variable n : nat.
  Notation tid := (@tid R).
  Notation basis_el := (@basis_el R).

  (* ---------- powers ---------- *)
  Lemma tpower_comm k (U : @tens R) : teq n (tcomp n (tpower n k U) U) (tcomp n U (tpower n k U)).
  Proof.
    induction k as [|k IH]; cbn [tpower].
    - eapply teq_trans; [apply tcomp_id_l|apply teq_sym, tcomp_id_r].
    - eapply teq_trans; [apply tcomp_assoc|]. apply tcomp_ext; [apply teq_refl|exact IH].
  Qed.

  (* the semigroup law on the time grid: U(t_i + t_j) = U(t_i) U(t_j) *)
  Theorem tpower_add i j (U : @tens R) : teq n (tpower n (i + j) U) (tcomp n (tpower n i U) (tpower n j U)).
  Proof.
    induction i as [|i IH]; cbn [tpower Nat.add].
    - apply teq_sym, tcomp_id_l.
    - eapply teq_trans; [apply tcomp_ext; [apply teq_refl|exact IH]|]. apply teq_sym, tcomp_assoc.
  Qed.

  Lemma tpower_ext k (U U' : @tens R) : teq n U U' -> teq n (tpower n k U) (tpower n k U').
  Proof. intros H. induction k as [|k IH]; cbn [tpower]; [apply teq_refl|now apply tcomp_ext]. Qed.

  Lemma tpow_l_spec k (U1 Udt : @tens R) : teq n (tpow_l n k U1 Udt) (tcomp n (tpower n k U1) Udt).
  Proof.
    revert Udt; induction k as [|k IH]; intros Udt; cbn [tpow_l tpower].
    - apply teq_sym, tcomp_id_l.
    - eapply teq_trans; [apply IH|]. eapply teq_trans; [apply tcomp_ext; [apply teq_refl|apply teq_tab4]|].
      eapply teq_trans; [apply teq_sym, tcomp_assoc|]. apply tcomp_ext; [apply tpower_comm|apply teq_refl].
  Qed.

  (* Udt is the Ndense-th power of the elementary step *)
  Lemma one_step_dense_spec Ndense (U1 : @tens R) : (1 <= Ndense)%nat -> teq n (one_step_dense n Ndense U1) (tpower n Ndense U1).
  Proof.
    intros Hn. unfold one_step_dense. destruct Ndense as [|k]; [lia|]. cbn [Nat.sub]. rewrite Nat.sub_0_r.
    eapply teq_trans; [apply tpow_l_spec|]. cbn [tpower]. apply tpower_comm.
  Qed.

  (* mode "all": data[i] = Udt^i (identity at time zero) *)
  Lemma calc_rest_nth k Udt (prev : @tens R) p i : teq n prev (tpower n p Udt) -> (i < k)%nat ->
    teq n (nth i (calc_rest n k Udt prev) tid) (tpower n (S p + i) Udt).
  Proof.
    revert prev p i; induction k as [|k IH]; intros prev p i Hp Hi; [lia|]. cbn [calc_rest].
    assert (teq n (tab4 n (tcomp n Udt prev)) (tpower n (S p) Udt)) as H1.
    { eapply teq_trans; [apply teq_tab4|]. cbn [tpower]. apply tcomp_ext; [apply teq_refl|exact Hp]. }
    destruct i as [|i]; cbn [nth].
    - rewrite Nat.add_0_r. exact H1.
    - replace (S p + S i)%nat with (S (S p) + i)%nat by lia. apply IH; [exact H1|lia].
  Qed.

  Theorem calc_all_nth Nt (Udt : @tens R) i : (i < Nt)%nat -> teq n (nth i (calc_all n Nt Udt) tid) (tpower n i Udt).
  Proof.
    intros Hi. destruct Nt as [|[|k]]; [lia| |].
    - assert (i = 0)%nat as -> by lia. apply teq_refl.
    - cbn [calc_all]. destruct i as [|[|i]]; cbn [nth].
      + apply teq_refl.
      + cbn [tpower]. apply teq_sym, tcomp_id_r.
      + replace (S (S i)) with (S 1 + i)%nat by lia. apply calc_rest_nth; [|lia]. cbn [tpower]. apply teq_sym, tcomp_id_r.
  Qed.

  Lemma calc_all_length Nt (Udt : @tens R) : length (calc_all n Nt Udt) = Nt.
  Proof.
    destruct Nt as [|[|k]]; try reflexivity. cbn [calc_all length]. do 2 f_equal.
    generalize Udt at 2. induction k as [|k IH]; intros prev; cbn [calc_rest length]; [reflexivity|]. now rewrite IH.
  Qed.

  (* mode "jit": after k calls the counter is k and the tensor is Udt^k - the same values as mode "all" *)
  Theorem jit_run_spec k (Udt : @tens R) : fst (jit_run n k Udt) = k /\ teq n (snd (jit_run n k Udt)) (tpower n k Udt).
  Proof.
    induction k as [|k [IH1 IH2]]; [split; [reflexivity|apply teq_refl]|].
    unfold jit_run in *. cbn [iter]. set (s := iter k (jit_next n Udt) (0%nat, tid)) in *.
    unfold jit_next. rewrite IH1. destruct k as [|k]; cbn [fst snd].
    - split; [reflexivity|]. cbn [tpower]. apply teq_sym, tcomp_id_r.
    - split; [reflexivity|]. eapply teq_trans; [apply teq_tab4|]. cbn [tpower]. apply tcomp_ext; [apply teq_refl|exact IH2].
  Qed.

  (* ---------- the elementary step: a state propagated one step is a tensor applied to it ---------- *)
  Section Step.
    Variable G : @mat R -> @mat R.          (* generator *)
    Variable Lg : @tens R.                  (* ... as a four-index tensor *)
    Variable Dm : @mat R -> @mat R.         (* map applied after the step (pure dephasing) *)
    Variable Dt : @tens R.
    Hypothesis G_ext : forall x x', meq n x x' -> meq n (G x) (G x').
    Hypothesis G_tens : forall x, meq n (G x) (tapply n Lg x).
    Hypothesis D_ext : forall x x', meq n x x' -> meq n (Dm x) (Dm x').
    Hypothesis D_tens : forall x, meq n (Dm x) (tapply n Dt x).
    Variable prefs : list R.

    Definition step (rho : @mat R) : @mat R := gstep (dm_add n) (dm_scale n) (fun _ => G) (fun _ => Dm) prefs 0 rho.
    (* the same loop run on tensors: the "Taylor polynomial of the generator tensor" *)
    Definition tstep_tens (X : @tens R) : @tens R :=
      gstep (@tadd R) (@tscale R) (fun _ T => tcomp n Lg T) (fun _ T => tcomp n Dt T) prefs 0 X.
    Definition S1 : @tens R := tstep_tens tid.

    Lemma step_is_tensor (rho0 rho : @mat R) (T : @tens R) : meq n rho (tapply n T rho0) ->
      meq n (step rho) (tapply n (tstep_tens T) rho0).
    Proof.
      intros H. unfold step, tstep_tens.
      apply (gstep_related R (@mat R) (@tens R) (dm_add n) (dm_scale n) (fun _ => G) (fun _ => Dm)
               (@tadd R) (@tscale R) (fun _ T => tcomp n Lg T) (fun _ T => tcomp n Dt T)
               (fun x T => meq n x (tapply n T rho0))).
      - intros x y T1 T2 Hx Hy. eapply meq_trans; [apply dm_add_ext; eassumption|].
        eapply meq_trans; [apply meq_tab2|]. apply meq_sym, tapply_tadd.
      - intros _ c x T1 Hx. eapply meq_trans; [apply meq_tab2|].
        eapply meq_trans; [|apply meq_sym, tapply_tscale]. intros a b Ha Hb. unfold mscale. f_equal.
        rewrite (G_tens x a b Ha Hb). rewrite (TensAlg.tapply_ext n Lg Lg x (tapply n T1 rho0) (teq_refl n Lg) Hx a b Ha Hb).
        symmetry. now apply tapply_tcomp.
      - intros _ x T1 Hx. eapply meq_trans; [apply D_tens|].
        eapply meq_trans; [apply (TensAlg.tapply_ext n Dt Dt x (tapply n T1 rho0) (teq_refl n Dt) Hx)|]. apply meq_sym, tapply_tcomp.
      - exact H.
    Qed.

    (* propagating any state one step = applying S1 *)
    Lemma step_apply (rho : @mat R) : meq n (step rho) (tapply n S1 rho).
    Proof. apply step_is_tensor. apply meq_sym, tapply_id. Qed.

    Lemma step_ext (x x' : @mat R) : meq n x x' -> meq n (step x) (step x').
    Proof.
      intros H. unfold step.
      apply (gstep_related R (@mat R) (@mat R) (dm_add n) (dm_scale n) (fun _ => G) (fun _ => Dm)
               (dm_add n) (dm_scale n) (fun _ => G) (fun _ => Dm) (meq n)).
      - intros; now apply dm_add_ext.
      - intros _ c y y' Hy. apply dm_scale_ext. now apply G_ext.
      - intros _ y y' Hy. now apply D_ext.
      - exact H.
    Qed.

    Lemma iter_step_ext k (x x' : @mat R) : meq n x x' -> meq n (iter k step x) (iter k step x').
    Proof. intros H. induction k as [|k IHk]; cbn [iter]; [exact H|]. now apply step_ext. Qed.

    (* the code builds the elementary tensor column by column from propagated basis matrices: that is S1 *)
    Theorem elemental_is_S1 : teq n (elemental n step) S1.
    Proof.
      eapply teq_trans; [apply teq_tab4|]. intros a b p q Ha Hb Hp Hq.
      rewrite (step_apply (basis_el p q) a b Ha Hb). now apply tapply_basis.
    Qed.

    (* k steps of direct propagation = the k-th power applied *)
    Theorem power_is_propagation k (rho : @mat R) : meq n (tapply n (tpower n k S1) rho) (iter k step rho).
    Proof.
      induction k as [|k IH]; cbn [tpower iter].
      - apply tapply_id.
      - eapply meq_trans; [apply tapply_tcomp|]. eapply meq_trans; [|apply meq_sym, step_apply].
        apply TensAlg.tapply_ext; [apply teq_refl|exact IH].
    Qed.

    (* the whole superoperator applied to a state reproduces direct propagation of that state *)
    Theorem superoperator_reproduces_propagation Ndense Nt i (rho : @mat R) : (1 <= Ndense)%nat -> (i < Nt)%nat ->
      meq n (tapply n (nth i (calc_all n Nt (one_step_dense n Ndense (elemental n step))) tid) rho)
            (iter i (iter Ndense step) rho).
    Proof.
      intros Hd Hi.
      assert (teq n (one_step_dense n Ndense (elemental n step)) (tpower n Ndense S1)) as HU.
      { eapply teq_trans; [now apply one_step_dense_spec|]. apply tpower_ext, elemental_is_S1. }
      eapply meq_trans.
      { apply TensAlg.tapply_ext; [|apply meq_refl]. eapply teq_trans; [now apply calc_all_nth|]. apply tpower_ext. exact HU. }
      clear Hi. induction i as [|i IH]; cbn [tpower iter].
      - apply tapply_id.
      - eapply meq_trans; [apply tapply_tcomp|].
        eapply meq_trans; [apply power_is_propagation|].
        now apply iter_step_ext.
    Qed.

    (* ---------- trace and Hermiticity of the superoperator ---------- *)
    Hypothesis G_trace : forall c x, mtr n (dm_scale n c (G x)) = 0.
    Hypothesis D_trace : forall x, mtr n (Dm x) = mtr n x.

    Lemma step_trace rho : mtr n (step rho) = mtr n rho.
    Proof.
      unfold step.
      apply (gstep_functional R (@mat R) (dm_add n) (dm_scale n) (fun _ => G) (fun _ => Dm) R (mtr n) (radd R) 0).
      - intros x. ring.
      - apply mtr_dm_add.
      - intros _. apply G_trace.
      - intros _. apply D_trace.
    Qed.

    Lemma mtr_basis_el c d : (c < n)%nat -> (d < n)%nat -> mtr n (basis_el c d) = if Nat.eqb c d then 1 else 0.
    Proof.
      intros Hc Hd. unfold mtr, TensId.basis_el. destruct (Nat.eqb_spec c d) as [<-|Hne].
      - rewrite (sum_single n c) by (auto; intros i _ Hi; apply Nat.eqb_neq in Hi; now rewrite Hi). now rewrite Nat.eqb_refl.
      - apply sum_0_ext. intros i _. destruct (Nat.eqb_spec i c) as [->|]; [|reflexivity]. cbn [andb].
        apply Nat.eqb_neq in Hne. now rewrite Hne.
    Qed.

    Lemma S1_trace_keep : trace_keep n S1.
    Proof.
      intros c d Hc Hd. rewrite <- (mtr_basis_el c d Hc Hd), <- (step_trace (basis_el c d)).
      unfold mtr. apply sum_ext. intros a Ha. rewrite (step_apply (basis_el c d) a a Ha Ha). symmetry. now apply tapply_basis.
    Qed.

    Hypothesis G_dag : forall x, meq n (G (mdag x)) (mdag (G x)).
    Hypothesis D_dag : forall x, meq n (Dm (mdag x)) (mdag (Dm x)).
    Hypothesis prefs_real : Forall (is_real R) prefs.

    Lemma mdag_ext (x x' : @mat R) : meq n x x' -> meq n (mdag x) (mdag x').
    Proof. intros H i j Hi Hj. unfold mdag. now rewrite H. Qed.

    Lemma step_dag (x : @mat R) : meq n (step (mdag x)) (mdag (step x)).
    Proof.
      apply meq_sym. unfold step.
      apply (gstep_relatedQ R (@mat R) (@mat R) (dm_add n) (dm_scale n) (fun _ => G) (fun _ => Dm)
               (dm_add n) (dm_scale n) (fun _ => G) (fun _ => Dm) (fun a b => meq n (mdag a) b) (is_real R)).
      - intros a b a' b' Ha Hb. eapply meq_trans; [|apply dm_add_ext; eassumption].
        eapply meq_trans; [apply mdag_ext, meq_tab2|]. eapply meq_trans; [|apply meq_sym, meq_tab2].
        intros i j _ _. unfold mdag, madd. apply cj_add.
      - intros _ c a a' Hc Ha.
        eapply meq_trans; [apply mdag_ext, meq_tab2|]. eapply meq_trans; [|apply meq_sym, meq_tab2].
        intros i j Hi Hj. unfold mdag at 1. unfold mscale. rewrite cj_mul, Hc. f_equal.
        change (mdag (G a) i j = G a' i j). rewrite <- (G_dag a i j Hi Hj). now apply G_ext.
      - intros _ a a' Ha. eapply meq_trans; [apply meq_sym, D_dag|]. now apply D_ext.
      - exact prefs_real.
      - apply meq_refl.
    Qed.

    Lemma mdag_basis_el c d : meq n (mdag (basis_el c d)) (basis_el d c).
    Proof.
      intros i j _ _. unfold mdag, TensId.basis_el. rewrite (andb_comm (Nat.eqb j c)).
      destruct (Nat.eqb i d && Nat.eqb j c); [apply cj_1|apply cj_0].
    Qed.

    Lemma S1_herm_pres : herm_pres n S1.
    Proof.
      intros a b c d Ha Hb Hc Hd.
      rewrite <- (tapply_basis n S1 c d a b Hc Hd), <- (tapply_basis n S1 d c b a Hd Hc).
      rewrite <- (step_apply (basis_el c d) a b Ha Hb), <- (step_apply (basis_el d c) b a Hb Ha).
      change (mdag (step (basis_el c d)) b a = step (basis_el d c) b a).
      rewrite <- (step_dag (basis_el c d) b a Hb Ha). apply step_ext; [apply mdag_basis_el|exact Hb|exact Ha].
    Qed.

    (* at every grid time, in both calculation modes, the superoperator keeps traces and Hermiticity *)
    Lemma tpower_trace_keep k (U : @tens R) : trace_keep n U -> trace_keep n (tpower n k U).
    Proof. intros H. induction k as [|k IH]; cbn [tpower]; [apply trace_keep_id|now apply trace_keep_tcomp]. Qed.
    Lemma tpower_herm_pres k (U : @tens R) : herm_pres n U -> herm_pres n (tpower n k U).
    Proof. intros H. induction k as [|k IH]; cbn [tpower]; [apply herm_pres_id|now apply herm_pres_tcomp]. Qed.

    Theorem superoperator_trace_herm Ndense Nt i : (1 <= Ndense)%nat -> (i < Nt)%nat ->
      let U := nth i (calc_all n Nt (one_step_dense n Ndense (elemental n step))) tid in
      trace_keep n U /\ herm_pres n U.
    Proof.
      intros Hd Hi U.
      assert (teq n U (tpower n i (tpower n Ndense S1))) as HU.
      { unfold U. eapply teq_trans; [now apply calc_all_nth|]. apply tpower_ext.
        eapply teq_trans; [now apply one_step_dense_spec|]. apply tpower_ext, elemental_is_S1. }
      split.
      - apply (trace_keep_ext n _ _ HU). apply tpower_trace_keep, tpower_trace_keep, S1_trace_keep.
      - apply (herm_pres_ext n _ _ HU). apply tpower_herm_pres, tpower_herm_pres, S1_herm_pres.
    Qed.
  End Step.

  (* ---------- the concrete generator  -i[H,.] + R  and pure dephasing are of this kind ---------- *)
  Variable im : R.
  Hypothesis cj_im : cj R im = - im.

  Definition ham_tens (H : @mat R) : @tens R :=
    fun a b c d => - im * (H a c * (if Nat.eqb b d then 1 else 0) - (if Nat.eqb a c then 1 else 0) * H d b).
  Definition deph_tens (E : @mat R) : @tens R := fun a b c d => if Nat.eqb a c && Nat.eqb b d then E a b else 0.

  Lemma ham_tens_spec (H rho : @mat R) : meq n (G_ham im n H rho) (tapply n (ham_tens H) rho).
  Proof.
    intros a b Ha Hb. unfold G_ham, comm, mscale, msub, tapply, ham_tens, mmul.
    rewrite (sum_ext n (fun c => sum n (fun d => - im * (H a c * (if Nat.eqb b d then 1 else 0) - (if Nat.eqb a c then 1 else 0) * H d b) * rho c d))
                       (fun c => - im * (H a c * rho c b) - - im * ((if Nat.eqb a c then 1 else 0) * sum n (fun d => rho c d * H d b)))).
    2:{ intros c _.
        rewrite (sum_ext n _ (fun d => - im * H a c * ((if Nat.eqb b d then 1 else 0) * rho c d)
                                       - - im * (if Nat.eqb a c then 1 else 0) * (rho c d * H d b))) by (intros; ring).
        rewrite sum_sub, !sum_mul_l. rewrite (sum_if_eq' n b (fun d => rho c d) Hb). ring. }
    rewrite sum_sub, !sum_mul_l. rewrite (sum_if_eq' n a (fun c => sum n (fun d => rho c d * H d b)) Ha). ring.
  Qed.

  Lemma deph_tens_spec (E rho : @mat R) : meq n (dephase n E rho) (tapply n (deph_tens E) rho).
  Proof.
    intros a b Ha Hb. unfold dephase. rewrite tab2_spec by assumption. unfold tapply, deph_tens.
    rewrite (sum_ext n _ (fun c => sum n (fun d => (if Nat.eqb c a && Nat.eqb d b then 1 else 0) * (E a b * rho c d)))).
    - rewrite (sum2_delta n a b (fun c d => E a b * rho c d) Ha Hb). ring.
    - intros c _. apply sum_ext. intros d _. rewrite (Nat.eqb_sym a c), (Nat.eqb_sym b d).
      destruct (Nat.eqb c a && Nat.eqb d b); ring.
  Qed.

  Lemma G_tensor_spec (H : @mat R) (Rt : @tens R) rho : meq n (G_tensor im n H Rt rho) (tapply n (tadd (ham_tens H) Rt) rho).
  Proof.
    eapply meq_trans; [|apply meq_sym, tapply_tadd]. intros a b Ha Hb. unfold G_tensor, madd. f_equal. now apply ham_tens_spec.
  Qed.
  Lemma G_tensor_ext (H : @mat R) (Rt : @tens R) x x' : meq n x x' -> meq n (G_tensor im n H Rt x) (G_tensor im n H Rt x').
  Proof.
    intros Hx a b Ha Hb. unfold G_tensor, madd. f_equal; [now apply G_ham_ext|now apply C02.tapply_ext].
  Qed.
  Lemma dephase_ext (E x x' : @mat R) : meq n x x' -> meq n (dephase n E x) (dephase n E x').
  Proof. intros Hx a b Ha Hb. unfold dephase. rewrite !tab2_spec by assumption. now rewrite Hx. Qed.

  Lemma G_ham_dag (H x : @mat R) : herm n H -> meq n (G_ham im n H (mdag x)) (mdag (G_ham im n H x)).
  Proof.
    intros HH i j Hi Hj. unfold G_ham, comm. unfold mdag at 3. unfold mscale, msub.
    rewrite cj_mul, cj_opp, cj_im, cj_sub.
    change (cj R (mmul n H x j i)) with (mdag (mmul n H x) i j). change (cj R (mmul n x H j i)) with (mdag (mmul n x H) i j).
    rewrite !mdag_mmul.
    assert (forall A : @mat R, mmul n A (mdag H) i j = mmul n A H i j) as E1.
    { intros A. unfold mmul. apply sum_ext. intros k Hk. unfold mdag. now rewrite (HH k j Hk Hj). }
    assert (forall A : @mat R, mmul n (mdag H) A i j = mmul n H A i j) as E2.
    { intros A. unfold mmul. apply sum_ext. intros k Hk. unfold mdag. now rewrite (HH i k Hi Hk). }
    rewrite E1, E2. ring.
  Qed.
  Lemma tapply_dag (Rt : @tens R) (x : @mat R) : herm_pres n Rt -> meq n (tapply n Rt (mdag x)) (mdag (tapply n Rt x)).
  Proof.
    intros HT a b Ha Hb. unfold mdag at 2. unfold tapply. rewrite sum_cj.
    rewrite (sum_ext n (fun c => cj R (sum n (fun d => Rt b a c d * x c d))) (fun c => sum n (fun d => Rt a b d c * mdag x d c))).
    2:{ intros c Hc. rewrite sum_cj. apply sum_ext. intros d Hd. rewrite cj_mul, (HT b a c d Hb Ha Hc Hd). reflexivity. }
    apply sum_swap.
  Qed.
  Lemma G_tensor_dag (H : @mat R) (Rt : @tens R) x : herm n H -> herm_pres n Rt ->
    meq n (G_tensor im n H Rt (mdag x)) (mdag (G_tensor im n H Rt x)).
  Proof.
    intros HH HT a b Ha Hb. unfold G_tensor. unfold mdag at 3. unfold madd. rewrite cj_add.
    rewrite (G_ham_dag H x HH a b Ha Hb), (tapply_dag Rt x HT a b Ha Hb). reflexivity.
  Qed.
  Lemma dephase_dag (E x : @mat R) : herm n E -> meq n (dephase n E (mdag x)) (mdag (dephase n E x)).
  Proof.
    intros HE a b Ha Hb. unfold mdag at 2. unfold dephase. rewrite !tab2_spec by assumption. unfold mdag.
    now rewrite cj_mul, (HE a b Ha Hb).
  Qed.
End C08.
