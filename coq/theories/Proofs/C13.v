(* Lemmas for C13: conjugate axes (field identities) and Fourier transforms of values (list programs
   over Base/Dft.v). *)
From Coq Require Import ZArith List Bool Arith Lia ZifyNat Field.
From QV Require Import Base.Alg Base.Sums Base.Util Base.Dft Model.C13.
Import ListNotations.

(* ---------------------------------------------------------------------------------- *)
(*  axes                                                                              *)
(* ---------------------------------------------------------------------------------- *)
Section AxisProofs.
  Variable K : Fld.
  Add Field Kf : (fth K).
  Variable tp : K.
  Hypothesis tp_nz : tp <> f0 K.
  (* characteristic 0: the positive integers are invertible *)
  Hypothesis char0 : forall n, ofnat K (S n) <> f0 K.

  Lemma ofnat_nz n : (n <> 0)%nat -> ofnat K n <> f0 K.
  Proof. destruct n; [congruence|intros _; apply char0]. Qed.

  Lemma ofnat_double n : ofnat K (2 * n) = fmul K (fadd K (f1 K) (f1 K)) (ofnat K n).
  Proof.
    induction n as [|n IH]; [cbn; field|].
    replace (2 * S n)%nat with (S (S (2 * n))) by lia. cbn [ofnat]. rewrite IH. field.
  Qed.

  Lemma two_nz : fadd K (f1 K) (f1 K) <> f0 K.
  Proof.
    intros E. apply (char0 1). cbn [ofnat]. transitivity (fadd K (f1 K) (f1 K)); [ring|exact E].
  Qed.
  Lemma one_nz : f1 K <> f0 K.
  Proof. intros E. apply (char0 0). cbn [ofnat]. rewrite E. ring. Qed.
  Lemma div_nz a b : a <> f0 K -> b <> f0 K -> fdiv K a b <> f0 K.
  Proof.
    intros Ha Hb E. apply Ha. transitivity (fmul K (fdiv K a b) b); [field; assumption|rewrite E; ring].
  Qed.
  Lemma mul_nz a b : a <> f0 K -> b <> f0 K -> fmul K a b <> f0 K.
  Proof.
    intros Ha Hb E. apply Hb. transitivity (fdiv K (fmul K a b) a); [field; assumption|rewrite E; field; assumption].
  Qed.
  Ltac nz := repeat first [assumption | apply one_nz | apply two_nz | apply div_nz | apply mul_nz].

  (* grid step of the shifted fftfreq array, with and without the factor 2 pi *)
  Lemma ffs_step n d : ofnat K n <> f0 K -> d <> f0 K ->
    fsub K (fftfreq_shifted K n d 1) (fftfreq_shifted K n d 0) = fdiv K (f1 K) (fmul K (ofnat K n) d).
  Proof. intros Hn Hd. unfold fftfreq_shifted. cbn [ofnat]. field. split; assumption. Qed.
  Lemma ffs_step_tp n d : ofnat K n <> f0 K -> d <> f0 K ->
    fsub K (fmul K tp (fftfreq_shifted K n d 1)) (fmul K tp (fftfreq_shifted K n d 0)) = fdiv K tp (fmul K (ofnat K n) d).
  Proof. intros Hn Hd. unfold fftfreq_shifted. cbn [ofnat]. field. split; assumption. Qed.

  Ltac axis_field_with tac :=
    repeat match goal with
      | |- context [fsub K (fmul K tp (fftfreq_shifted K ?n ?d 1)) (fmul K tp (fftfreq_shifted K ?n ?d 0))] =>
          rewrite (ffs_step_tp n d) by nz
      | |- context [fsub K (fftfreq_shifted K ?n ?d 1) (fftfreq_shifted K ?n ?d 0)] =>
          rewrite (ffs_step n d) by nz
      end;
    unfold point, fftfreq_shifted; cbn [a_start a_step ofnat];
    tac; field; repeat split; nz.
  Ltac axis_field := axis_field_with idtac.

  Definition valid_axis (a : axis K) : Prop :=
    a_step a <> f0 K /\ match a_type a with Complete => (2 <= a_len a)%nat | UpperHalf => (1 <= a_len a)%nat end.
  Definition valid_freq_axis (a : axis K) : Prop :=
    a_step a <> f0 K /\ (2 <= a_len a)%nat /\ match a_type a with Complete => True | UpperHalf => Nat.even (a_len a) = true end.

  Lemma axis_eq (s s' : K) n n' d d' ty ty' c c' :
    s = s' -> n = n' -> d = d' -> ty = ty' -> c = c' -> mkAxis s n d ty c = mkAxis s' n' d' ty' c'.
  Proof. now intros -> -> -> -> ->. Qed.

  (* time axis -> frequency axis -> time axis *)
  Lemma time_freq_time (t : axis K) : valid_axis t ->
    exists w, freq_axis_of K tp t = Some w /\ time_axis_of K tp w = Some t.
  Proof.
    destruct t as [s n d ty c]. unfold valid_axis. cbn [a_step a_len a_type]. intros [Hd Hn].
    destruct ty; unfold freq_axis_of; cbn [a_type a_len a_step a_start a_conj].
    - destruct (Nat.ltb_spec n 2) as [Hlt|_]; [lia|].
      eexists; split; [reflexivity|].
      unfold time_axis_of; cbn [a_type a_len a_step a_start a_conj].
      destruct (Nat.ltb_spec n 2) as [Hlt|_]; [lia|].
      f_equal. pose proof (ofnat_nz n ltac:(lia)) as HN.
      apply axis_eq; try reflexivity; axis_field.
    - destruct (Nat.ltb_spec (2 * n) 2) as [Hlt|_]; [lia|].
      eexists; split; [reflexivity|].
      unfold time_axis_of; cbn [a_type a_len a_step a_start a_conj].
      assert (Nat.even (2 * n) = true) as He by (apply Nat.even_spec; now exists n).
      rewrite He. cbn [negb].
      destruct (Nat.ltb_spec (2 * n) 2) as [Hlt|_]; [lia|].
      assert ((2 * n) / 2 = n)%nat as Hh by lia.
      f_equal. pose proof (ofnat_nz n ltac:(lia)) as HN. pose proof (ofnat_nz (2 * n) ltac:(lia)) as HN2.
      apply axis_eq; try reflexivity; try exact Hh; axis_field_with ltac:(rewrite ?Hh, ?ofnat_double).
  Qed.

  (* frequency axis -> time axis -> frequency axis *)
  Lemma freq_time_freq (w : axis K) : valid_freq_axis w ->
    exists t, time_axis_of K tp w = Some t /\ freq_axis_of K tp t = Some w.
  Proof.
    destruct w as [s n d ty c]. unfold valid_freq_axis. cbn [a_step a_len a_type]. intros [Hd [Hn He]].
    destruct ty; unfold time_axis_of; cbn [a_type a_len a_step a_start a_conj].
    - destruct (Nat.ltb_spec n 2) as [Hlt|_]; [lia|].
      eexists; split; [reflexivity|].
      unfold freq_axis_of; cbn [a_type a_len a_step a_start a_conj].
      destruct (Nat.ltb_spec n 2) as [Hlt|_]; [lia|].
      f_equal. pose proof (ofnat_nz n ltac:(lia)) as HN.
      apply axis_eq; try reflexivity; axis_field.
    - rewrite He. cbn [negb].
      destruct (Nat.ltb_spec n 2) as [Hlt|_]; [lia|].
      eexists; split; [reflexivity|].
      unfold freq_axis_of; cbn [a_type a_len a_step a_start a_conj].
      apply Nat.even_spec in He. destruct He as [m Hm].
      subst n. assert (2 * m / 2 = m)%nat as Hh by lia.
      rewrite Hh.
      destruct (Nat.ltb_spec (2 * m) 2) as [Hlt|_]; [lia|].
      f_equal. pose proof (ofnat_nz m ltac:(lia)) as HM. pose proof (ofnat_nz (2 * m) ltac:(lia)) as HM2.
      apply axis_eq; try reflexivity; axis_field_with ltac:(rewrite ?Hh, ?ofnat_double).
  Qed.

  (* an upper-half frequency axis with an odd number of points is refused *)
  Lemma odd_upper_refused (w : axis K) : a_type w = UpperHalf -> Nat.even (a_len w) = false ->
    time_axis_of K tp w = None.
  Proof. intros Ht Ho. unfold time_axis_of. now rewrite Ht, Ho. Qed.

  (* steps of conjugate axes: d * (dw / 2 pi) * N = 1 -- the scale relation that makes the transforms inverse *)
  Lemma conj_steps (t w : axis K) : valid_axis t -> freq_axis_of K tp t = Some w ->
    fmul K (fmul K (a_step t) (fdiv K (a_step w) tp)) (ofnat K (a_len w)) = f1 K.
  Proof.
    destruct t as [s n d ty c]. unfold valid_axis. cbn [a_step a_len a_type]. intros [Hd Hn].
    destruct ty; unfold freq_axis_of; cbn [a_type a_len a_step a_start a_conj].
    - destruct (Nat.ltb_spec n 2) as [Hlt|_]; [lia|]. intros [= <-]. cbn [a_step a_len].
      pose proof (ofnat_nz n ltac:(lia)) as HN. axis_field.
    - destruct (Nat.ltb_spec (2 * n) 2) as [Hlt|_]; [lia|]. intros [= <-]. cbn [a_step a_len].
      pose proof (ofnat_nz n ltac:(lia)) as HN. pose proof (ofnat_nz (2 * n) ltac:(lia)) as HN2.
      axis_field_with ltac:(rewrite ?ofnat_double).
  Qed.
End AxisProofs.

(* ---------------------------------------------------------------------------------- *)
(*  small list facts                                                                  *)
(* ---------------------------------------------------------------------------------- *)
Lemma nth_firstn_lt {A} (l : list A) n i d : (i < n)%nat -> nth i (firstn n l) d = nth i l d.
Proof.
  revert n i. induction l as [|x l IH]; intros n i Hi.
  - rewrite firstn_nil. reflexivity.
  - destruct n; [lia|]. destruct i; [reflexivity|]. cbn [firstn nth]. apply IH. lia.
Qed.

Lemma nth_skipn_add {A} (l : list A) n i d : nth i (skipn n l) d = nth (n + i) l d.
Proof.
  revert n. induction l as [|x l IH]; intros n.
  - rewrite skipn_nil. now destruct i, (n + 0)%nat, n.
  - destruct n; [reflexivity|]. cbn [skipn Nat.add nth]. apply IH.
Qed.

(* ---------------------------------------------------------------------------------- *)
(*  transforms of the values                                                          *)
(* ---------------------------------------------------------------------------------- *)
Section TransformProofs.
  Context {R : StarRing}.
  Add Ring Rr13 : (rth R).
  Open Scope sr_scope.
  Variable L : nat.                         (* length of the transformed array *)
  Hypothesis Lpos : L <> 0%nat.
  Variable zeta : R.
  Hypothesis zeta_L : pow zeta L = 1.
  Local Notation zp := (zpow L zeta).
  Local Notation h := (Z.of_nat (L / 2)).

  (* what is assumed of numpy.fft.fft and numpy.fft.ifft on arrays of length L *)
  Definition fft_spec (fft : list R -> list R) : Prop := is_dft L zeta (-1) fft.
  Definition ifft_spec (ifft : list R -> list R) : Prop :=
    forall x, length x = L -> length (ifft x) = L /\
      forall k, (k < L)%nat -> natR L * nth k (ifft x) 0 = dsum L zeta 1 x k.

  Definition Lifft (ifft : list R -> list R) (x : list R) : list R := map (rmul R (natR L)) (ifft x).

  Lemma Lifft_is_dft ifft : ifft_spec ifft -> is_dft L zeta 1 (Lifft ifft).
  Proof.
    intros H x Hx. destruct (H x Hx) as [Hl Hv]. unfold Lifft. split; [now rewrite map_length|].
    intros k Hk. rewrite nth_map_scale by (now rewrite Hl). now apply Hv.
  Qed.

  (* the common shape of all eight branches *)
  Definition xform (O : list R -> list R) (v : variant) (c : R) (y : list R) : list R :=
    map (rmul R c) (fftshift (O (inner v y))).

  Lemma ft_time_complete_xform ifft v d y : length y = L ->
    ft_time ifft v Complete d y = xform (Lifft ifft) v d y.
  Proof.
    intros Hy. unfold ft_time, xform, Lifft. rewrite Hy, fftshift_map, map_map.
    apply map_ext. intros z. ring.
  Qed.
  Lemma ift_freq_complete_xform fft v dw itp y :
    ift_freq fft v Complete dw itp y = xform fft v (dw * itp) y.
  Proof. unfold ift_freq, xform. apply map_ext. intros z. ring. Qed.
  Lemma ift_time_complete_xform fft v d y : ift_time fft v Complete d y = xform fft v d y.
  Proof. unfold ift_time, xform. apply map_ext. intros z. ring. Qed.
  Lemma ft_freq_complete_xform ifft v dw itp y : length y = L ->
    ft_freq ifft v Complete dw itp y = xform (Lifft ifft) v (dw * itp) y.
  Proof.
    intros Hy. unfold ft_freq, xform, Lifft. rewrite Hy, fftshift_map, map_map.
    apply map_ext. intros z. ring.
  Qed.

  Lemma inner_length v (y : list R) : length (inner v y) = length y.
  Proof. destruct v; [apply fftshift_length|apply ifftshift_length]. Qed.

  (* for even lengths the pinned inner shift is the right one *)
  Lemma inner_pinned_even (y : list R) : Nat.even (length y) = true -> inner Pinned y = inner Repaired y.
  Proof. apply fftshift_even. Qed.

  (* the direct Fourier sum on the centred grids: index n stands for the time (n - L/2) dt, index j for
     the frequency (j - L/2) dw, and  dt dw = 2 pi / L,  so  exp(i s w_j t_n) = zeta^(s (n - L/2)(j - L/2)) *)
  Definition csum (s : Z) (y : list R) (j : nat) : R :=
    sum L (fun n => nth n y 0 * zp (s * (Z.of_nat n - h) * (Z.of_nat j - h))).

  Lemma xform_repaired_sum s O c y j : is_dft L zeta s O -> length y = L -> (j < L)%nat ->
    nth j (xform O Repaired c y) 0 = c * csum s y j.
  Proof.
    intros HO Hy Hj. unfold xform. cbn [inner].
    assert (length (ifftshift y) = L) as Hy' by (now rewrite ifftshift_length).
    destruct (HO _ Hy') as [Hl _].
    rewrite nth_map_scale by (now rewrite fftshift_length, Hl). f_equal.
    rewrite (nth_fftshift_dft L Lpos zeta s O _ j HO Hy' Hj).
    unfold csum.
    rewrite <- (sum_rot_reindex L (L / 2) (fun n => nth n y 0 * zp (s * (Z.of_nat n - h) * (Z.of_nat j - h))))
      by (apply half_le).
    apply sum_ext. intros m Hm.
    rewrite nth_ifftshift by (now rewrite Hy). rewrite Hy. f_equal.
    replace (s * Z.of_nat m * (Z.of_nat j - h))%Z with ((s * (Z.of_nat j - h)) * Z.of_nat m)%Z by ring.
    replace (s * (Z.of_nat ((m + L / 2) mod L) - h) * (Z.of_nat j - h))%Z
      with ((s * (Z.of_nat j - h)) * (Z.of_nat ((m + L / 2) mod L) - h))%Z by ring.
    apply zpow_mul_congr; [exact Lpos|].
    rewrite Nat2Z.inj_mod. rewrite Zminus_mod_idemp_l. f_equal. lia.
  Qed.

  Lemma xform_pinned_even_sum s O c y j : Nat.even L = true -> is_dft L zeta s O -> length y = L -> (j < L)%nat ->
    nth j (xform O Pinned c y) 0 = c * csum s y j.
  Proof.
    intros He HO Hy Hj. unfold xform. rewrite inner_pinned_even by (now rewrite Hy).
    now apply xform_repaired_sum.
  Qed.

  (* ---- inversion ---- *)
  Section Orth.
    Hypothesis orth : forall a : Z, (a mod Z.of_nat L <> 0)%Z -> sum L (fun k => zp (a * Z.of_nat k)) = 0.

    Lemma dft_pair_list s c O1 O2 x : (s = 1 \/ s = -1)%Z -> is_dft L zeta s O1 -> is_dft L zeta (- s) O2 ->
      length x = L -> O2 (map (rmul R c) (O1 x)) = map (rmul R (c * natR L)) x.
    Proof.
      intros Hs H1 H2 Hx. destruct (H1 x Hx) as [Hl1 _].
      assert (length (map (rmul R c) (O1 x)) = L) as Hm by (now rewrite map_length).
      destruct (H2 _ Hm) as [Hl2 _].
      apply list_ext_nth; [now rewrite Hl2, map_length|].
      intros i d Hi. rewrite Hl2 in Hi.
      rewrite (nth_indep _ d 0) by (now rewrite Hl2).
      rewrite (nth_indep (map _ x) d 0) by (now rewrite map_length, Hx).
      rewrite nth_map_scale by (now rewrite Hx).
      now apply (dft_inverse L Lpos zeta zeta_L orth s c O1 O2 x i).
    Qed.

    Lemma xform_roundtrip s O1 O2 c1 c2 y : (s = 1 \/ s = -1)%Z -> is_dft L zeta s O1 -> is_dft L zeta (- s) O2 ->
      c1 * c2 * natR L = 1 -> length y = L ->
      xform O2 Repaired c2 (xform O1 Repaired c1 y) = y.
    Proof.
      intros Hs H1 H2 Hc Hy. unfold xform. cbn [inner].
      rewrite ifftshift_map, ifftshift_fftshift.
      rewrite (dft_pair_list s c1 O1 O2) by (try assumption; now rewrite ifftshift_length).
      rewrite fftshift_map, fftshift_ifftshift, map_map.
      rewrite <- (map_id y) at 2. apply map_ext. intros z.
      transitivity ((c1 * c2 * natR L) * z); [ring|rewrite Hc; ring].
    Qed.

    (* the pinned variant has the same round trip for even lengths *)
    Lemma xform_roundtrip_pinned_even s O1 O2 c1 c2 y : Nat.even L = true ->
      (s = 1 \/ s = -1)%Z -> is_dft L zeta s O1 -> is_dft L zeta (- s) O2 ->
      c1 * c2 * natR L = 1 -> length y = L ->
      xform O2 Pinned c2 (xform O1 Pinned c1 y) = y.
    Proof.
      intros He Hs H1 H2 Hc Hy.
      assert (forall O c (x : list R), length x = L -> xform O Pinned c x = xform O Repaired c x) as E.
      { intros O c x Hx. unfold xform. now rewrite inner_pinned_even by (now rewrite Hx). }
      rewrite (E O1 c1 y Hy).
      rewrite E; [now apply (xform_roundtrip s)|].
      unfold xform. rewrite map_length, fftshift_length. cbn [inner].
      destruct (H1 (ifftshift y)) as [Hl _]; [now rewrite ifftshift_length|exact Hl].
    Qed.
  End Orth.
End TransformProofs.

(* ---------------------------------------------------------------------------------- *)
(*  upper-half time axes: N values, transforms of length 2 N                          *)
(* ---------------------------------------------------------------------------------- *)
Section UpperProofs.
  Context {R : StarRing}.
  Add Ring Rr13u : (rth R).
  Open Scope sr_scope.
  Variable N : nat.
  Hypothesis Npos : N <> 0%nat.
  Variable zeta : R.
  Hypothesis zeta_L : pow zeta (2 * N) = 1.
  Local Notation zp := (zpow (2 * N) zeta).
  Local Notation NZ := (Z.of_nat N).

  Let L2pos : (2 * N)%nat <> 0%nat.
  Proof. lia. Qed.

  Lemma natR_double n : (@two R) * natR n = natR (2 * n).
  Proof.
    unfold two. induction n as [|n IH]; [cbn [natR Nat.mul Nat.add]; ring|].
    replace (2 * S n)%nat with (S (S (2 * n))) by lia. cbn [natR]. rewrite <- IH. ring.
  Qed.

  Lemma sum_drop_first n (f : nat -> R) : n <> 0%nat -> sum n f = f 0%nat + sum (n - 1) (fun i => f (S i)).
  Proof.
    destruct n; [congruence|]. intros _. rewrite sum_S_first. now replace (S n - 1)%nat with n by lia.
  Qed.

  Lemma herm_length (y : list R) : length y = N -> length (herm y) = (2 * N)%nat.
  Proof.
    intros Hy. unfold herm. rewrite !app_length, rev_length, map_length. cbn [length].
    destruct y as [|x y']; cbn [tl length] in *; lia.
  Qed.

  Lemma nth_tl (y : list R) k : nth k (tl y) 0 = nth (S k) y 0.
  Proof. destruct y; [now destruct k|reflexivity]. Qed.

  Lemma ft_time_upper_xform ifft v d (y : list R) : length y = N ->
    ft_time ifft v UpperHalf d y = map (rmul R d) (fftshift (Lifft (2 * N) ifft (herm y))).
  Proof.
    intros Hy. unfold ft_time, Lifft. rewrite Hy, fftshift_map, map_map.
    apply map_ext. intros z. rewrite natR_double. ring.
  Qed.

  (* values of the filled array *)
  Lemma herm_low (y : list R) n : length y = N -> (n < N)%nat -> nth n (herm y) 0 = nth n y 0.
  Proof. intros Hy Hn. unfold herm. apply app_nth1. lia. Qed.
  Lemma herm_mid (y : list R) : length y = N -> nth N (herm y) 0 = 0.
  Proof. intros Hy. unfold herm. rewrite app_nth2 by lia. rewrite Hy, Nat.sub_diag. reflexivity. Qed.
  Lemma herm_high (y : list R) i : length y = N -> (S i < N)%nat ->
    nth (N + S i) (herm y) 0 = cj R (nth (N - S i) y 0).
  Proof.
    intros Hy Hi. unfold herm. rewrite app_nth2 by lia. rewrite Hy.
    replace (N + S i - N)%nat with (S i) by lia. cbn [app nth].
    assert (length (map (cj R) (tl y)) = N - 1)%nat as Hl.
    { rewrite map_length. destruct y; cbn [tl length] in *; lia. }
    rewrite rev_nth by lia. rewrite Hl.
    rewrite (nth_indep _ 0 (cj R 0)) by lia.
    rewrite (map_nth (cj R)). rewrite nth_tl. f_equal. f_equal. lia.
  Qed.

  (* the transform of an upper-half function is the direct Fourier sum of its Hermitian extension
     f(-t_n) = conj f(t_n):  index n is the time n dt, index j the frequency (j - N) dw, dt dw = 2 pi / (2N) *)
  Definition hsum (y : list R) (j : nat) : R :=
    sum N (fun n => nth n y 0 * zp (Z.of_nat n * (Z.of_nat j - NZ))) +
    sum (N - 1) (fun n => cj R (nth (S n) y 0) * zp (- Z.of_nat (S n) * (Z.of_nat j - NZ))).

  Lemma ft_time_upper_sum ifft v d (y : list R) j : ifft_spec (2 * N) zeta ifft -> length y = N -> (j < 2 * N)%nat ->
    nth j (ft_time ifft v UpperHalf d y) 0 = d * hsum y j.
  Proof.
    intros Hi Hy Hj. rewrite ft_time_upper_xform by exact Hy.
    pose proof (Lifft_is_dft (2 * N) zeta ifft Hi) as HO.
    pose proof (herm_length y Hy) as Hh.
    destruct (HO _ Hh) as [Hl _].
    rewrite nth_map_scale by (now rewrite fftshift_length, Hl). f_equal.
    rewrite (nth_fftshift_dft (2 * N) L2pos zeta 1 _ _ j HO Hh Hj).
    assert ((2 * N) / 2 = N)%nat as Hhalf by lia. rewrite Hhalf.
    replace (2 * N)%nat with (N + N)%nat at 1 by lia. rewrite sum_split. unfold hsum. f_equal.
    - apply sum_ext. intros n Hn. rewrite herm_low by assumption. f_equal. f_equal. ring.
    - rewrite sum_drop_first by exact Npos. rewrite Nat.add_0_r, herm_mid by exact Hy.
      rewrite (sum_rev (N - 1) (fun n => cj R (nth (S n) y 0) * zp (- Z.of_nat (S n) * (Z.of_nat j - NZ)))).
      transitivity (sum (N - 1) (fun i => nth (N + S i) (herm y) 0 * zp (1 * Z.of_nat (N + S i) * (Z.of_nat j - NZ)))); [ring|].
      apply sum_ext. intros i Hi'. rewrite herm_high by (try exact Hy; lia).
      replace (S (N - 1 - 1 - i)) with (N - S i)%nat by lia. f_equal.
      replace (1 * Z.of_nat (N + S i) * (Z.of_nat j - NZ))%Z with ((Z.of_nat j - NZ) * Z.of_nat (N + S i))%Z by ring.
      replace (- Z.of_nat (N - S i) * (Z.of_nat j - NZ))%Z with ((Z.of_nat j - NZ) * (- Z.of_nat (N - S i)))%Z by ring.
      apply zpow_mul_congr; [exact L2pos|].
      replace (Z.of_nat (N + S i)) with (- Z.of_nat (N - S i) + 1 * Z.of_nat (2 * N))%Z by lia.
      apply Z_mod_plus_full.
  Qed.

  (* Y[N:2N] of the shifted filled array is the original array *)
  Lemma upper_part_fftshift_herm (y : list R) : length y = N -> upper_part N (fftshift (herm y)) = y.
  Proof.
    intros Hy. pose proof (herm_length y Hy) as Hh. unfold upper_part.
    apply list_ext_nth.
    - rewrite firstn_length, skipn_length, fftshift_length, Hh. lia.
    - intros i d Hi. rewrite firstn_length, skipn_length, fftshift_length, Hh in Hi.
      rewrite nth_firstn_lt by lia. rewrite nth_skipn_add.
      rewrite nth_fftshift by (rewrite Hh; lia). rewrite Hh.
      replace (N + i + (2 * N - 2 * N / 2))%nat with (i + 1 * (2 * N))%nat by lia.
      rewrite Nat.mod_add by exact L2pos. rewrite Nat.mod_small by lia.
      unfold herm. apply app_nth1. lia.
  Qed.

  Section Orth.
    Hypothesis orth : forall a : Z, (a mod Z.of_nat (2 * N) <> 0)%Z -> sum (2 * N) (fun k => zp (a * Z.of_nat k)) = 0.

    (* transform of an upper-half function, then the inverse transform on the returned (upper-half) frequency
       axis: the original values, for ALL complex values and for either variant of the inner shift *)
    Lemma upper_roundtrip fft ifft v1 v2 d dw itp (y : list R) :
      fft_spec (2 * N) zeta fft -> ifft_spec (2 * N) zeta ifft ->
      d * (dw * itp) * natR (2 * N) = 1 -> length y = N ->
      ift_freq fft v2 UpperHalf dw itp (ft_time ifft v1 UpperHalf d y) = y.
    Proof.
      intros Hf Hi Hc Hy. rewrite ft_time_upper_xform by exact Hy.
      pose proof (Lifft_is_dft (2 * N) zeta ifft Hi) as HO.
      pose proof (herm_length y Hy) as Hh.
      destruct (HO _ Hh) as [Hl _].
      set (Y := map (rmul R d) (fftshift (Lifft (2 * N) ifft (herm y)))).
      assert (length Y = (2 * N)%nat) as HY by (unfold Y; now rewrite map_length, fftshift_length).
      unfold ift_freq. rewrite HY.
      assert ((2 * N) / 2 = N)%nat as Hhalf by lia. rewrite Hhalf.
      assert (inner v2 Y = ifftshift Y) as Ein.
      { destruct v2; [|reflexivity]. apply (inner_pinned_even Y). rewrite HY.
        apply Nat.even_spec. now exists N. }
      rewrite Ein. unfold Y. rewrite ifftshift_map, ifftshift_fftshift.
      rewrite (dft_pair_list (2 * N) L2pos zeta zeta_L orth 1 d (Lifft (2 * N) ifft) fft)
        by (try assumption; now left).
      rewrite fftshift_map, map_map.
      rewrite (map_ext _ (fun z => z)), map_id; [now apply upper_part_fftshift_herm|].
      intros z. transitivity ((d * (dw * itp) * natR (2 * N)) * z); [ring|rewrite Hc; ring].
    Qed.
  End Orth.
End UpperProofs.

(* ---------------------------------------------------------------------------------- *)
(*  the pinned code at length 3: a concrete ring with a primitive cube root of unity   *)
(* ---------------------------------------------------------------------------------- *)
From Coq Require Import QArith Qcanon.

Definition w3 : EQ := e_w QR.
Definition third : EQ := (Q2Qc (1 # 3), Q2Qc 0).
Definition fft3 : list EQ -> list EQ := dft_list 3 w3 (-1).
Definition ifft3 : list EQ -> list EQ := fun x => map (rmul EQ third) (dft_list 3 w3 1 x).
Definition eq_eqb (x y : EQ) : bool :=
  Qeq_bool (this (fst x)) (this (fst y)) && Qeq_bool (this (snd x)) (this (snd y)).
Definition y3 : list EQ := [r1 EQ; r0 EQ; r0 EQ].

Lemma eq_eqb_refl x y : x = y -> eq_eqb x y = true.
Proof. intros ->. unfold eq_eqb. apply andb_true_intro. split; apply Qeq_bool_iff; reflexivity. Qed.

Ltac eq_pair := apply injective_projections; cbn [fst snd]; apply Qc_is_canon; vm_compute; reflexivity.

Lemma w3_cubed : pow w3 3 = r1 EQ.
Proof. eq_pair. Qed.

Lemma three_third : rmul EQ (natR 3) third = r1 EQ.
Proof. eq_pair. Qed.

Lemma orth3 : forall a : Z, (a mod Z.of_nat 3 <> 0)%Z -> sum 3 (fun k => zpow 3 w3 (a * Z.of_nat k)) = r0 EQ.
Proof.
  intros a Ha.
  rewrite (sum_ext 3 _ (fun k => zpow 3 w3 ((a mod Z.of_nat 3) * Z.of_nat k))).
  - pose proof (Z.mod_pos_bound a (Z.of_nat 3) ltac:(lia)) as Hb.
    assert (a mod Z.of_nat 3 = 1 \/ a mod Z.of_nat 3 = 2)%Z as [-> | ->] by lia; eq_pair.
  - intros k _. apply zpow_congr. rewrite Z.mul_mod_idemp_l by lia. reflexivity.
Qed.

Lemma fft3_spec : fft_spec 3 w3 fft3.
Proof. apply dft_list_is_dft. Qed.

Lemma ifft3_spec : ifft_spec 3 w3 ifft3.
Proof.
  intros x Hx. destruct (dft_list_is_dft 3 w3 1 x Hx) as [Hl Hv]. unfold ifft3.
  split; [now rewrite map_length|]. intros k Hk.
  rewrite nth_map_scale by (now rewrite Hl). rewrite Hv by exact Hk.
  pose proof three_third as H3. pose proof (rth EQ) as Hr.
  rewrite (ARmul_assoc (Rth_ARth (Eqsth _) (Eq_ext _ _ _) Hr)). rewrite H3.
  apply (Rmul_1_l Hr).
Qed.

(* entry 0 of the transform of (1, 0, 0) is not the direct Fourier sum ... *)
Lemma pinned3_not_sum :
  nth 0 (ft_time ifft3 Pinned Complete (r1 EQ) y3) (r0 EQ) <> rmul EQ (r1 EQ) (csum 3 w3 1 y3 0).
Proof. intros H. apply eq_eqb_refl in H. vm_compute in H. discriminate. Qed.

(* ... and transforming back does not return (1, 0, 0), although the scale factors are the right ones *)
Lemma pinned3_no_roundtrip :
  ift_freq fft3 Pinned Complete (r1 EQ) third (ft_time ifft3 Pinned Complete (r1 EQ) y3) <> y3.
Proof.
  intros H. apply (f_equal (fun l => nth 0 l (r0 EQ))) in H. apply eq_eqb_refl in H.
  vm_compute in H. discriminate.
Qed.

Lemma scale3 : rmul EQ (rmul EQ (r1 EQ) (rmul EQ (r1 EQ) third)) (natR 3) = r1 EQ.
Proof. eq_pair. Qed.

(* the repaired variant on the same input, for comparison (non-vacuity of the positive theorems) *)
Lemma repaired3_roundtrip :
  map (fun z => eq_eqb (fst z) (snd z))
      (combine (ift_freq fft3 Repaired Complete (r1 EQ) third (ft_time ifft3 Repaired Complete (r1 EQ) y3)) y3)
  = [true; true; true].
Proof. vm_compute. reflexivity. Qed.
