(* C10: vibrational signatures (numpy.ndindex) are complete, duplicate free, in row-major order and
   counted by the product of the level counts; the vibronic state list is the concatenation of the blocks
   of the electronic states; Hamiltonian and dipole elements factorise into the electronic element times
   the product of Franck-Condon table entries. *)
From Coq Require Import ZArith List Bool Arith Lia.
From QV Require Import Base.Alg Base.Sums Base.Mat Model.C03 Proofs.C03 Model.C10.
Import ListNotations.

(* ---------- generic ---------- *)
Lemma list_sum_const {A} (l : list A) c : list_sum (map (fun _ => c) l) = length l * c.
Proof. induction l as [|a l IH]; [reflexivity|]. cbn [map length]. simpl list_sum. rewrite IH. lia. Qed.

Lemma flat_map_seq_S {A} (g : nat -> list A) n : flat_map g (seq 0 (S n)) = flat_map g (seq 0 n) ++ g n.
Proof. rewrite seq_S, flat_map_app. cbn [flat_map Nat.add]. now rewrite app_nil_r. Qed.

(* blocks of equal length *)
Lemma nth_flat_map_const {A} (g : nat -> list A) (P : nat) (d : A) n :
  (forall j, length (g j) = P) -> forall i r, i < n -> r < P ->
  nth (i * P + r) (flat_map g (seq 0 n)) d = nth r (g i) d.
Proof.
  intros HP. induction n as [|n IH]; intros i r Hi Hr; [lia|]. rewrite flat_map_seq_S.
  assert (length (flat_map g (seq 0 n)) = n * P) as HL.
  { rewrite flat_map_length. rewrite (map_ext _ (fun _ => P)) by (intros; apply HP).
    now rewrite list_sum_const, seq_length. }
  destruct (Nat.eq_dec i n) as [->|Hne].
  - rewrite app_nth2 by (rewrite HL; lia). rewrite HL. f_equal. lia.
  - rewrite app_nth1 by (rewrite HL; nia). apply IH; lia.
Qed.

(* ---------- numpy.ndindex ---------- *)
Lemma ndindex_length shape : length (ndindex shape) = prod shape.
Proof.
  induction shape as [|n rest IH]; [reflexivity|]. cbn [ndindex prod]. rewrite flat_map_length.
  rewrite (map_ext _ (fun _ => prod rest)) by (intros; now rewrite map_length).
  now rewrite list_sum_const, seq_length.
Qed.

Lemma ndindex_In shape : forall v, In v (ndindex shape) <-> Forall2 lt v shape.
Proof.
  induction shape as [|n rest IH]; intros v; cbn [ndindex].
  - split; [intros [<-|[]]; constructor|]. intros H. inversion H. now left.
  - rewrite in_flat_map. split.
    + intros [i [Hi Hv]]. apply in_seq in Hi. apply in_map_iff in Hv. destruct Hv as [w [<- Hw]].
      constructor; [lia|]. now apply IH.
    + intros H. inversion H as [|i ? w ? Hi Hw]; subst. exists i. split; [apply in_seq; lia|].
      apply in_map. now apply IH.
Qed.

Lemma ndindex_nodup shape : NoDup (ndindex shape).
Proof.
  induction shape as [|n rest IH]; cbn [ndindex]; [constructor; [intros []|constructor]|].
  apply NoDup_flat_map.
  - apply seq_NoDup.
  - intros i _. apply FinFun.Injective_map_NoDup; [|exact IH]. intros x y H. now inversion H.
  - intros i j z _ _ Hi Hj. apply in_map_iff in Hi, Hj. destruct Hi as [w [<- _]]. destruct Hj as [w' [E _]].
    now inversion E.
Qed.

Lemma ndindex_rank shape : forall v, Forall2 lt v shape ->
  rank shape v < prod shape /\ nth (rank shape v) (ndindex shape) [] = v.
Proof.
  induction shape as [|n rest IH]; intros v H; inversion H as [|i ? w ? Hi Hw]; subst; cbn [rank prod ndindex].
  - split; [lia|reflexivity].
  - destruct (IH w Hw) as [Hr Hn]. split; [nia|].
    rewrite (nth_flat_map_const (fun i => map (cons i) (ndindex rest)) (prod rest) [] n).
    + rewrite (nth_indep _ [] (i :: [])) by (rewrite map_length, ndindex_length; exact Hr).
      rewrite (map_nth (cons i)). now rewrite Hn.
    + intros j. now rewrite map_length, ndindex_length.
    + exact Hi.
    + exact Hr.
Qed.

Lemma Forall2_lt_nth v shape : Forall2 lt v shape <->
  (length v = length shape /\ forall i, i < length shape -> nth i v 0 < nth i shape 0).
Proof.
  split.
  - induction 1 as [|x y v shape Hxy H IH]; [split; [reflexivity|cbn; lia]|]. destruct IH as [IL IH].
    split; [cbn [length]; lia|]. intros [|i] Hi; cbn [nth length] in *; [exact Hxy|apply IH; lia].
  - revert shape. induction v as [|x v IH]; intros [|y shape] [Hl H]; cbn [length] in *; try lia; constructor.
    + exact (H 0 ltac:(lia)).
    + apply IH. split; [lia|]. intros i Hi. exact (H (S i) ltac:(lia)).
Qed.

(* ---------- the vibronic state list ---------- *)
Section Vib.
  Context {R : StarRing}.
  Add Ring Rr : (rth R).
  Variable N : nat.
  Variable E : nat -> nat -> R.
  Variable J : nat -> nat -> R.
  Variable dip : nat -> nat -> R.
  Variable sqrtf : nat -> R.
  Variable Sh K : Type.
  Variable shiftdiff : Sh -> Sh -> K.
  Variable FCtab : K -> nat -> nat -> R.
  Variable vm : sig -> list (@submode R Sh).

  Local Notation block := (fun p : nat * sig => map (fun v => (fst p, snd p, v)) (ndindex (nmaxes Sh vm (snd p)))).
  Definition vstates_from (k : nat) (sigs : list sig) : list vstate :=
    flat_map block (combine (seq k (length sigs)) sigs).

  Lemma vstates_is_from sigs : vstates Sh vm sigs = vstates_from 0 sigs.
  Proof. reflexivity. Qed.

  Definition weights (sigs : list sig) : list nat := map (fun s => prod (nmaxes Sh vm s)) sigs.

  Lemma vstates_from_length k sigs : length (vstates_from k sigs) = list_sum (weights sigs).
  Proof.
    revert k; induction sigs as [|s sigs IH]; intros k; [reflexivity|].
    unfold vstates_from in *. cbn [length seq combine flat_map weights map]. simpl list_sum.
    rewrite app_length, map_length, ndindex_length. cbn [snd]. f_equal. apply IH.
  Qed.

  (* state number offset(ist) + r is the r-th vibrational signature of electronic state ist *)
  Lemma vstates_from_block k sigs : forall ist r, ist < length sigs ->
    r < prod (nmaxes Sh vm (nth ist sigs [])) ->
    nth (list_sum (weights (firstn ist sigs)) + r) (vstates_from k sigs) (0, [], []) =
    (k + ist, nth ist sigs [], nth r (ndindex (nmaxes Sh vm (nth ist sigs []))) []).
  Proof.
    revert k; induction sigs as [|s sigs IH]; intros k ist r Hi Hr; [cbn in Hi; lia|].
    unfold vstates_from in *. cbn [length seq combine flat_map]. cbn [fst snd].
    destruct ist as [|ist].
    - cbn [firstn weights map nth] in *. simpl list_sum. cbn [Nat.add].
      rewrite app_nth1 by (rewrite map_length, ndindex_length; exact Hr).
      rewrite (nth_indep _ (0, [], []) ((fun v => (k, s, v)) [])) by (rewrite map_length, ndindex_length; exact Hr).
      rewrite (map_nth (fun v => (k, s, v))). now rewrite Nat.add_0_r.
    - cbn [firstn weights map nth length] in *. simpl list_sum.
      rewrite app_nth2 by (rewrite map_length, ndindex_length; lia).
      rewrite map_length, ndindex_length.
      replace (prod (nmaxes Sh vm s) + list_sum (map (fun s0 => prod (nmaxes Sh vm s0)) (firstn ist sigs)) + r - prod (nmaxes Sh vm s))
        with (list_sum (weights (firstn ist sigs)) + r) by (unfold weights; lia).
      etransitivity; [exact (IH (S k) ist r ltac:(lia) Hr)|]. f_equal. f_equal. lia.
  Qed.

  Lemma vstates_from_In k sigs i s v : In (i, s, v) (vstates_from k sigs) ->
    k <= i < k + length sigs /\ nth (i - k) sigs [] = s /\ In v (ndindex (nmaxes Sh vm s)).
  Proof.
    revert k; induction sigs as [|s0 sigs IH]; intros k H; [destruct H|].
    unfold vstates_from in *. cbn [length seq combine flat_map] in H. apply in_app_or in H. destruct H as [H|H].
    - apply in_map_iff in H. destruct H as [w [Hw Hin]]. cbn [fst snd] in Hw. inversion Hw; subst.
      rewrite Nat.sub_diag. cbn [length nth]. split; [lia|]. split; [reflexivity|exact Hin].
    - destruct (IH (S k) H) as [H1 [H2 H3]]. cbn [length]. split; [lia|]. split; [|exact H3].
      replace (i - k) with (S (i - S k)) by lia. exact H2.
  Qed.

  Variable sigs : list sig.
  Local Notation vst := (vst Sh vm sigs).
  Local Notation states := (vstates Sh vm sigs).

  Lemma vst_consistent a : a < length states ->
    let '(i, s, v) := vst a in i < length sigs /\ nth i sigs [] = s /\ Forall2 lt v (nmaxes Sh vm s).
  Proof.
    intros Ha. unfold Model.C10.vst. pose proof (nth_In states (0, [], []) Ha) as Hin.
    destruct (nth a states (0, [], [])) as [[i s] v]. rewrite vstates_is_from in Hin.
    destruct (vstates_from_In 0 sigs i s v Hin) as [H1 [H2 H3]]. rewrite Nat.sub_0_r in H2.
    split; [lia|]. split; [exact H2|]. now apply ndindex_In.
  Qed.

  (* ---------- factorisation ---------- *)
  Lemma coupling_fc s1 i1 s2 i2 fc :
    coupling N J sqrtf s1 i1 s2 i2 fc = rmul R (coupling N J sqrtf s1 i1 s2 i2 (r1 R)) fc.
  Proof.
    unfold coupling. destruct (Nat.ltb 1 N); [|ring]. destruct (Nat.eqb (band s1) (band s2)); [|ring].
    destruct (Nat.eqb (band s1) 1).
    - destruct i1; [ring|]. destruct i2; ring.
    - destruct (diffs 0 s1 s2) as [|kk [|ll [|? ?]]]; try ring. destruct (Nat.eqb (absdiff s1 s2) 2); ring.
  Qed.

  Lemma trdip_fc s1 s2 fc c : trdip dip s1 s2 fc c = rmul R (trdip dip s1 s2 (r1 R) c) fc.
  Proof. unfold trdip. destruct (exindx s1 s2); ring. Qed.

  Local Notation vH := (vH N E J sqrtf Sh K shiftdiff FCtab vm sigs).
  Local Notation vD := (vD dip Sh K shiftdiff FCtab vm sigs).
  Local Notation vFC := (vFC Sh K shiftdiff FCtab vm sigs).
  Definition el_index (x : vstate) : nat := fst (fst x).
  Definition el_sig (x : vstate) : sig := snd (fst x).
  Definition vib_sig (x : vstate) : list nat := snd x.

  Lemma H_factor a b : a <> b ->
    vH a b = rmul R (coupling N J sqrtf (el_sig (vst a)) (el_index (vst a)) (el_sig (vst b)) (el_index (vst b)) (r1 R))
                    (vFC a b).
  Proof.
    intros Hab. unfold Model.C10.vH, Model.C10.vFC. apply Nat.eqb_neq in Hab. rewrite Hab.
    destruct (vst a) as [[i1 s1] v1]. destruct (vst b) as [[i2 s2] v2]. cbn [el_sig el_index fst snd].
    apply coupling_fc.
  Qed.

  Lemma H_factor_el a b : a < length states -> b < length states -> el_index (vst a) <> el_index (vst b) ->
    vH a b = rmul R (build_H N E J sqrtf sigs (el_index (vst a)) (el_index (vst b))) (vFC a b).
  Proof.
    intros Ha Hb Hne. assert (a <> b) as Hab by (intros ->; now apply Hne).
    rewrite (H_factor a b Hab). pose proof (vst_consistent a Ha) as Ca. pose proof (vst_consistent b Hb) as Cb.
    destruct (vst a) as [[i1 s1] v1]. destruct (vst b) as [[i2 s2] v2]. cbn [el_sig el_index fst snd] in *.
    destruct Ca as [_ [Ea _]]. destruct Cb as [_ [Eb _]]. unfold build_H.
    apply Nat.eqb_neq in Hne. rewrite Hne, Ea, Eb. reflexivity.
  Qed.

  Lemma H_same_el a b : a <> b -> el_index (vst a) = el_index (vst b) -> el_sig (vst a) = el_sig (vst b) ->
    (forall k, J k k = r0 R) -> vH a b = r0 R.
  Proof.
    intros Hab Hi Hs HJ. rewrite (H_factor a b Hab). rewrite <- Hi, <- Hs. unfold coupling.
    destruct (Nat.ltb 1 N); [|ring]. rewrite Nat.eqb_refl. destruct (Nat.eqb (band (el_sig (vst a))) 1).
    - destruct (el_index (vst a)); [ring|]. rewrite HJ. ring.
    - assert (forall s i, diffs i s s = []) as Hd.
      { induction s as [|x s IH]; intros i; [reflexivity|]. cbn [diffs]. now rewrite Nat.eqb_refl. }
      rewrite Hd. ring.
  Qed.

  Lemma D_factor a b c : a < length states -> b < length states ->
    vD c a b = rmul R (build_D dip sigs c (el_index (vst a)) (el_index (vst b))) (vFC a b).
  Proof.
    intros Ha Hb. unfold Model.C10.vD, Model.C10.vFC.
    pose proof (vst_consistent a Ha) as Ca. pose proof (vst_consistent b Hb) as Cb.
    destruct (vst a) as [[i1 s1] v1]. destruct (vst b) as [[i2 s2] v2]. cbn [el_index fst snd] in *.
    destruct Ca as [_ [Ea _]]. destruct Cb as [_ [Eb _]]. unfold build_D. rewrite Ea, Eb. apply trdip_fc.
  Qed.

  Lemma H_diagonal a : vH a a = venergy N E Sh vm (vst a).
  Proof. unfold Model.C10.vH. now rewrite Nat.eqb_refl. Qed.

  (* the vibrational energy is the sum of quanta times frequencies *)
  Lemma vib_energy_acc m : forall v acc, vib_energy Sh m v acc = radd R acc (vib_energy Sh m v (r0 R)).
  Proof.
    induction m as [|a m IH]; intros [|q v] acc; cbn [vib_energy]; try ring.
    rewrite (IH v (radd R acc _)), (IH v (radd R (r0 R) _)). ring.
  Qed.

  (* ---------- the FC product ---------- *)
  Lemma fc_prod_res m1 : forall m2 v1 v2 res,
    fc_prod Sh K shiftdiff FCtab m1 m2 v1 v2 res = rmul R res (fc_prod Sh K shiftdiff FCtab m1 m2 v1 v2 (r1 R)).
  Proof.
    induction m1 as [|a m1 IH]; intros [|b m2] [|q1 v1] [|q2 v2] res; cbn [fc_prod]; try ring.
    rewrite (IH m2 v1 v2 (rmul R res _)), (IH m2 v1 v2 (rmul R (r1 R) _)). ring.
  Qed.

  (* with a table that is the identity at zero displacement, two vibrational states of the same
     electronic state overlap iff they are equal *)
  Hypothesis FC_zero : forall sh q q', FCtab (shiftdiff sh sh) q q' = if Nat.eqb q q' then r1 R else r0 R.

  Lemma fc_same_state m : forall v1 v2, length v1 = length m -> length v2 = length m ->
    fc_prod Sh K shiftdiff FCtab m m v1 v2 (r1 R) = if list_eq_dec Nat.eq_dec v1 v2 then r1 R else r0 R.
  Proof.
    induction m as [|a m IH]; intros [|q1 v1] [|q2 v2] H1 H2; cbn [length] in *; try discriminate.
    - cbn [fc_prod]. destruct (list_eq_dec Nat.eq_dec [] []); [reflexivity|contradiction].
    - cbn [fc_prod]. rewrite fc_prod_res, FC_zero, (IH v1 v2) by lia.
      destruct (Nat.eqb q1 q2) eqn:Eq.
      + apply Nat.eqb_eq in Eq. subst q2. destruct (list_eq_dec Nat.eq_dec v1 v2) as [->|Hne];
          destruct (list_eq_dec Nat.eq_dec _ _) as [H|H]; try ring; try congruence;
          try (exfalso; apply Hne; now inversion H).
      + apply Nat.eqb_neq in Eq. destruct (list_eq_dec Nat.eq_dec (q1 :: v1) (q2 :: v2)) as [H|H]; [inversion H; contradiction|].
        destruct (list_eq_dec Nat.eq_dec v1 v2); ring.
  Qed.

  Lemma FC_same_el a b : a < length states -> b < length states -> el_sig (vst a) = el_sig (vst b) ->
    vFC a b = if list_eq_dec Nat.eq_dec (vib_sig (vst a)) (vib_sig (vst b)) then r1 R else r0 R.
  Proof.
    intros Ha Hb Hs. unfold Model.C10.vFC. pose proof (vst_consistent a Ha) as Ca. pose proof (vst_consistent b Hb) as Cb.
    destruct (vst a) as [[i1 s1] v1]. destruct (vst b) as [[i2 s2] v2]. cbn [el_sig vib_sig fst snd] in *. subst s2.
    destruct Ca as [_ [_ Fa]]. destruct Cb as [_ [_ Fb]]. apply Forall2_lt_nth in Fa, Fb. destruct Fa as [Fa _]. destruct Fb as [Fb _].
    unfold nmaxes in Fa, Fb. rewrite map_length in Fa, Fb. unfold fc_factor. now apply fc_same_state.
  Qed.
End Vib.
