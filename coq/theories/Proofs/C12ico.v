(* Lemmas for C12, third part: for aggregates of two and three uncoupled two-level molecules the response
   is the sum of the responses of the molecules: excited-state absorption cancels every cross peak. *)
From Coq Require Import ZArith List Bool Lia.
From QV Require Import Base.Alg Base.Util Model.C19 Model.C12 Proofs.C12.
Import ListNotations.

Section Cancel.
  Context {R : StarRing}.
  Add Ring Rr3 : (rth R).
  Open Scope sr_scope.
  Variable L : bool -> bool -> R -> R -> R -> R -> R.
  Variable neg : R -> bool.
  Variable dflt : R.
  Variable om : nat -> R.
  Variable dip : nat -> @vec3 R.
  Variable wd ga : nat -> R.
  Variable coh : nat -> nat -> R.
  Variable bigd : nat -> bool.
  Variable FM : @vec3 R.

  (* normalise the arguments of the line-shape function *)
  Ltac norm_args :=
    repeat match goal with
           | |- context [L _ _ ?a _ ?b _] =>
               first [ progress ring_simplify a | progress ring_simplify b ]
           end.

  Ltac cancel_tac :=
    cbv -[radd rmul rsub ropp r0 r1 car];
    destruct FM as [[m0 m1] m2];
    repeat match goal with |- context [dip ?k] => is_ground k; let a := fresh "a" in let b := fresh "b" in let c := fresh "c" in
                                                 destruct (dip k) as [[a b] c] end;
    repeat match goal with |- context [bigd ?k] => destruct (bigd k) end;
    cbv -[radd rmul rsub ropp r0 r1 car]; norm_args; ring.

  Lemma cancel2_gauss :
    response L neg dflt true FM (gen6 (usys 2 om dip wd ga coh bigd)) =
    response L neg dflt true FM (gen4 (monomer om dip wd ga bigd 0)) + response L neg dflt true FM (gen4 (monomer om dip wd ga bigd 1)).
  Proof. cancel_tac. Qed.

  Lemma cancel3_gauss :
    response L neg dflt true FM (gen6 (usys 3 om dip wd ga coh bigd)) =
    response L neg dflt true FM (gen4 (monomer om dip wd ga bigd 0)) + response L neg dflt true FM (gen4 (monomer om dip wd ga bigd 1))
    + response L neg dflt true FM (gen4 (monomer om dip wd ga bigd 2)).
  Proof. cancel_tac. Qed.

  (* Lorentzian lines: the pinned dephasing table gives a 1<->2 transition the dephasing of its one-exciton
     state, so the cancellation needs equal dephasings *)
  Lemma cancel2_lorentz : ga 1%nat = ga 0%nat ->
    response L neg dflt false FM (gen6 (usys 2 om dip wd ga coh bigd)) =
    response L neg dflt false FM (gen4 (monomer om dip wd ga bigd 0)) + response L neg dflt false FM (gen4 (monomer om dip wd ga bigd 1)).
  Proof. intros H1. cbv -[radd rmul rsub ropp r0 r1 car]. rewrite !H1. cancel_tac. Qed.

  Lemma cancel3_lorentz : ga 1%nat = ga 0%nat -> ga 2%nat = ga 0%nat ->
    response L neg dflt false FM (gen6 (usys 3 om dip wd ga coh bigd)) =
    response L neg dflt false FM (gen4 (monomer om dip wd ga bigd 0)) + response L neg dflt false FM (gen4 (monomer om dip wd ga bigd 1))
    + response L neg dflt false FM (gen4 (monomer om dip wd ga bigd 2)).
  Proof. intros H1 H2. cbv -[radd rmul rsub ropp r0 r1 car]. rewrite !H1, !H2. cancel_tac. Qed.
End Cancel.

