(* Refinement, second part: reductions of the storage resolution, set_resolution, _add_data. *)
From Coq Require Import ZArith List Bool String Lia.
From QV Require Import Base.Alg Model.C19 Model.C19py Model.C19code Proofs.C19 Proofs.C19genA.
Import ListNotations.
Open Scope string_scope.

Section Gen.
  Context {R : StarRing}.
  Add Ring Rr2 : (rth R).
  Open Scope sr_scope.
  Notation st := (@st R).
  Notation pv := (@pv R).
  Notation obj := (@obj R).
  Ltac open_state s := destruct s as [r i a c t pw ty pr sg tot]; cbn [res attr init cur ctag] in *; subst.

  Opaque code__types_to_processes code__types_to_signals code__types_to_total code__signals_to_total code__processes_to_total
         code__pathways_to_processes code__pathways_to_signals code__pathways_to_total code_getter code_setter code_set_data_flag.

  Lemma conv43_ok (S S' : st) : res S = Pathways -> (attr S = true -> nodup S) -> conv S Types = Some S' ->
    code__convert_res_elementary (conc S) [VInt 4; VInt 3] = EOk (robj Pathways S') VNone.
  Proof.
    intros Hr Hn Hc. open_state S. cbn in Hc. injection Hc as <-. destruct a.
    - specialize (Hn eq_refl). Opaque for_loop. cbn. Transparent for_loop.
      match goal with |- context [for_loop "v4" _ _ (conc ?S) [("v0", ?x0); ("v1", ?x1); _; _; ("v4", ?x4); ("v5", ?x5); ("v6", ?x6); ("v7", ?x7); ("v8", ?x8); ("v9", ?x9)]] =>
        destruct (c43_outer S eq_refl eq_refl Hn all_ptypes [] x0 x1 x4 x5 x6 x7 x8 x9) as (y4 & y5 & y6 & y7 & E)
      end.
      { repeat constructor; cbn; intuition discriminate. }
      cbn [map app all_ptypes] in E. fold (@body_c43_outer R). unfold kp in E. rewrite E. reflexivity.
    - reflexivity.
  Qed.

  Definition tysome (S : st) : Prop := init S = false -> forall p, ty S p <> None.

  Lemma conv32_ok (S S' : st) : res S = Types -> attr S = true -> tysome S -> conv S Processes = Some S' ->
    code__convert_res_elementary (conc S) [VInt 3; VInt 2] = EOk (robj Types S') VNone.
  Proof.
    intros Hr Ha Ht Hc. open_state S. cbn in Hc. injection Hc as <-. destruct i.
    - cbn. repeat (rewrite types_to_processes_ok by reflexivity; cbn). reflexivity.
    - specialize (Ht eq_refl).
      assert (H8 : forall p, exists y, ty p = Some y) by (intros p; destruct (ty p) eqn:E; [eauto|exfalso; exact (Ht p E)]).
      destruct (H8 R1g) as [y1 E1], (H8 R2g) as [y2 E2], (H8 R3g) as [y3 E3], (H8 R4g) as [y4 E4],
               (H8 R1fs) as [y5 E5], (H8 R2fs) as [y6 E6], (H8 R3fs) as [y7 E7], (H8 R4fs) as [y8 E8].
      cbn. repeat (rewrite types_to_processes_ok by reflexivity; unfold types_sum; cbn; rewrite ?E1, ?E2, ?E3, ?E4, ?E5, ?E6, ?E7, ?E8; cbn).
      unfold robj; cbn; rewrite ?E1, ?E2, ?E3, ?E4, ?E5, ?E6, ?E7, ?E8; reflexivity.
  Qed.
  Lemma conv31_ok (S S' : st) : res S = Types -> attr S = true -> tysome S -> conv S Signals = Some S' ->
    code__convert_res_elementary (conc S) [VInt 3; VInt 1] = EOk (robj Types S') VNone.
  Proof.
    intros Hr Ha Ht Hc. open_state S. cbn in Hc. injection Hc as <-. destruct i.
    - cbn. repeat (rewrite types_to_signals_ok by reflexivity; cbn). reflexivity.
    - specialize (Ht eq_refl).
      assert (H8 : forall p, exists y, ty p = Some y) by (intros p; destruct (ty p) eqn:E; [eauto|exfalso; exact (Ht p E)]).
      destruct (H8 R1g) as [y1 E1], (H8 R2g) as [y2 E2], (H8 R3g) as [y3 E3], (H8 R4g) as [y4 E4],
               (H8 R1fs) as [y5 E5], (H8 R2fs) as [y6 E6], (H8 R3fs) as [y7 E7], (H8 R4fs) as [y8 E8].
      cbn. repeat (rewrite types_to_signals_ok by reflexivity; unfold types_sum; cbn; rewrite ?E1, ?E2, ?E3, ?E4, ?E5, ?E6, ?E7, ?E8; cbn).
      unfold robj; cbn; rewrite ?E1, ?E2, ?E3, ?E4, ?E5, ?E6, ?E7, ?E8; reflexivity.
  Qed.
  Lemma conv10_ok (S S' : st) : res S = Signals -> attr S = true -> conv S Off = Some S' ->
    code__convert_res_elementary (conc S) [VInt 1; VInt 0] = EOk (robj Signals S') VNone.
  Proof.
    intros Hr Ha Hc. open_state S. cbn in Hc. injection Hc as <-. cbn.
    rewrite signals_to_total_ok by reflexivity. destruct i; reflexivity.
  Qed.
  Lemma conv20_ok (S S' : st) : res S = Processes -> attr S = true -> conv S Off = Some S' ->
    code__convert_res_elementary (conc S) [VInt 2; VInt 0] = EOk (robj Processes S') VNone.
  Proof.
    intros Hr Ha Hc. open_state S. cbn in Hc. injection Hc as <-. cbn.
    rewrite processes_to_total_ok by reflexivity. destruct i; reflexivity.
  Qed.

  (* ---------------- _convert_resolution, set_resolution ---------------- *)
  Lemma set_res_robj l (S : st) : set_attr (robj l S) "storage_resolution" (VLev (res S)) = Some (conc S).
  Proof. reflexivity. Qed.
  Opaque code__convert_res_elementary.

  Definition cinv (S : st) : Prop :=
    (attr S = true -> nodup S) /\ (res S <> Pathways -> attr S = true) /\ (res S = Types -> tysome S).

  Ltac conv_step HN HT :=
    match goal with
    | |- context [code__convert_res_elementary (conc ?S) [VInt 4; VInt 3]] => rewrite (conv43_ok S _ eq_refl HN eq_refl)
    | |- context [code__convert_res_elementary (conc ?S) [VInt 3; VInt 2]] =>
        rewrite (conv32_ok S _ eq_refl eq_refl ltac:(first [exact HT | intros ? ?; cbn; discriminate]) eq_refl)
    | |- context [code__convert_res_elementary (conc ?S) [VInt 3; VInt 1]] =>
        rewrite (conv31_ok S _ eq_refl eq_refl ltac:(first [exact HT | intros ? ?; cbn; discriminate]) eq_refl)
    | |- context [code__convert_res_elementary (conc ?S) [VInt 1; VInt 0]] => rewrite (conv10_ok S _ eq_refl eq_refl eq_refl)
    | |- context [code__convert_res_elementary (conc ?S) [VInt 2; VInt 0]] => rewrite (conv20_ok S _ eq_refl eq_refl eq_refl)
    end.

  Lemma convert_resolution_ok (S : st) n : cinv S -> (lnum n < lnum (res S))%nat ->
    ok_of (code__convert_resolution (conc S) [VInt (Z.of_nat (lnum (res S))); VInt (Z.of_nat (lnum n))]) =
    Some (conc (fst (set_resolution S (Some n))), snd (set_resolution S (Some n))).
  Proof.
    intros (HN & HA & HT) Hlt. open_state S.
    destruct r, n; cbn in Hlt; try lia.
    all: try (assert (a = true) by (apply HA; discriminate); subst a).
    all: try specialize (HT eq_refl).
    Opaque set_attr. all: cbn.
    all: repeat (conv_step HN HT; cbn; change (Pos.to_nat 1) with 1%nat; change (Pos.to_nat 2) with 2%nat; change (Pos.to_nat 3) with 3%nat;
                 cbn; rewrite ?set_res_robj; cbn).
    all: reflexivity.
  Qed.
  Transparent set_attr.
  Opaque code__convert_resolution code__resolution2number.

  Lemma set_resolution_ok (S : st) new : cinv S ->
    ok_of (code_set_resolution (conc S) [oplev new]) = Some (conc (fst (set_resolution S new)), snd (set_resolution S new)).
  Proof.
    intros Hinv. destruct new as [n|]; [|reflexivity].
    pose proof (convert_resolution_ok S n Hinv) as H.
    remember (set_resolution S (Some n)) as RHS eqn:ER.
    cbn. destruct n; cbn; destruct (res S) eqn:Hr; repeat (rewrite res2num_ok; cbn; rewrite ?Hr; cbn).
    all: try (subst RHS; unfold set_resolution; rewrite Hr; reflexivity).
    all: cbn in H; specialize (H ltac:(lia));
         destruct (code__convert_resolution (conc S) _) as [o1 v|o1 e]; cbn in H |- *;
         [exact H | destruct e; cbn in H |- *; first [exact H | discriminate]].
  Qed.

  (* ---------------- _add_data ---------------- *)
  Definition resov (reso : option level) : pv := match reso with Some l => VLev l | None => VNone end.
  Opaque code_set_resolution.

  (* the initialisation prelude: on an uninitialised object the call continues as on the initialised empty one *)
  Lemma add_prelude (S : st) data reso d tg : init S = false ->
    code__add_data (conc S) [VArr data; resov reso; VKey d; tagv tg] =
    code__add_data (conc (base S reso)) [VArr data; resov reso; VKey d; tagv tg].
  Proof.
    intros Hi. open_state S. destruct reso as [l|], a; try destruct l; destruct r; reflexivity.
  Qed.

  Lemma rd_of_shape (x : @eres R) o r : rd_of x = Some (o, r) ->
    match r with
    | RVal None => x = EOk o VNone
    | RVal (Some v) => x = EOk o (VArr v)
    | RErr => exists e, x = EEx o e /\ e <> EStuck
    end.
  Proof.
    destruct x as [o1 v|o1 e]; cbn.
    - destruct v; intros H; inversion H; subst; reflexivity.
    - destruct e; intros H; inversion H; subst; eexists; split; try reflexivity; discriminate.
  Qed.
  Lemma ok_of_shape (x : @eres R) o b : ok_of x = Some (o, b) ->
    if b then exists v, x = EOk o v else exists e, x = EEx o e /\ e <> EStuck.
  Proof.
    destruct x as [o1 v|o1 e]; cbn.
    - intros H; inversion H; subst. eauto.
    - destruct e; intros H; inversion H; subst; eexists; split; try reflexivity; discriminate.
  Qed.
  Lemma ok_of_ex (o : obj) e : e <> EStuck -> ok_of (EEx o e) = Some (o, false).
  Proof. destruct e; intros H; try reflexivity. now destruct H. Qed.
  Lemma catches_all e : e <> EStuck -> catches HAll e = true.
  Proof. destruct e; intros H; try reflexivity. now destruct H. Qed.

  Definition is_dp (d : dtype) : bool := match d with DP _ => true | _ => false end.
  Definition is_dq (d : dtype) : bool := match d with DQ _ => true | _ => false end.
  Definition is_ds (d : dtype) : bool := match d with DS _ => true | _ => false end.
  Lemma in_ptypes (o : obj) d : p_in o (VKey d) code_c_ptypes = inr (VBool (is_dp d)).
  Proof. destruct d as [[]|[]|[]| |]; reflexivity. Qed.
  Lemma in_processes (o : obj) d : p_in o (VKey d) code_c_processes = inr (VBool (is_dq d)).
  Proof. destruct d as [[]|[]|[]| |]; reflexivity. Qed.
  Lemma in_signals (o : obj) d : p_in o (VKey d) code_c_signals = inr (VBool (is_ds d)).
  Proof. destruct d as [[]|[]|[]| |]; reflexivity. Qed.

  (* odata = try self.d__data except None; self.d__data = data | odata + data   on the flagged object *)
  Definition blk_acc : @blk R :=
    s_seq (s_try (s_assign "v6" (e_call code_getter [])) [(HAll, s_assign "v6" (e_const VNone))])
          (s_if (e_un p_isnone (e_var "v6"))
             (s_expr (e_call code_setter [e_var "v0"]))
             (s_expr (e_call code_setter [e_bin p_add (e_var "v6") (e_var "v0")]))).
  Definition bres_ok (r : @bres R) (o : obj) (b : bool) : Prop :=
    if b then exists en', r = BNorm o en' else exists en' e, r = BExc o en' e /\ e <> EStuck.

  Lemma acc_block (S : st) data x1 x2 x3 x4 x5 x6 : wfa S -> wfp S -> nodup S ->
    bres_ok (blk_acc (conc S) [("v0", VArr data); ("v1", x1); ("v2", x2); ("v3", x3); ("v4", x4); ("v5", x5); ("v6", x6)])
            (conc (fst (accumulate NoneTagRefused S data))) (snd (accumulate NoneTagRefused S data)).
  Proof.
    intros Hwa Hwp Hn. unfold blk_acc, accumulate.
    pose proof (rd_of_shape _ _ _ (getter_ok S Hwp Hn)) as HG.
    destruct (read S) as [[x|]|].
    - cbn. rewrite HG. cbn.
      pose proof (ok_of_shape _ _ _ (setter_ok S (x + data) Hwa)) as HS.
      destruct (write NoneTagRefused S (x + data)) as [S' b]. cbn [fst snd] in *. destruct b.
      + destruct HS as [v HS]. rewrite HS. cbn. eexists. reflexivity.
      + destruct HS as (e & HS & He). rewrite HS. cbn. do 2 eexists. split; [reflexivity|exact He].
    - cbn. rewrite HG. cbn.
      pose proof (ok_of_shape _ _ _ (setter_ok S data Hwa)) as HS.
      destruct (write NoneTagRefused S data) as [S' b]. cbn [fst snd] in *. destruct b.
      + destruct HS as [v HS]. rewrite HS. cbn. eexists. reflexivity.
      + destruct HS as (e & HS & He). rewrite HS. cbn. do 2 eexists. split; [reflexivity|exact He].
    - destruct HG as (e & HG & He). cbn. rewrite HG. cbn. rewrite (catches_all e He). cbn.
      pose proof (ok_of_shape _ _ _ (setter_ok S data Hwa)) as HS.
      destruct (write NoneTagRefused S data) as [S' b]. cbn [fst snd] in *. destruct b.
      + destruct HS as [v HS]. rewrite HS. cbn. eexists. reflexivity.
      + destruct HS as (e' & HS & He'). rewrite HS. cbn. do 2 eexists. split; [reflexivity|exact He'].
  Qed.

  Arguments blk_acc : simpl never.
  Opaque code_c_ptypes code_c_processes code_c_signals.

  Lemma add_data_init_ok (S : st) data reso d tg : init S = true -> wfa S -> wfp S -> nodup S ->
    ok_of (code__add_data (conc S) [VArr data; resov reso; VKey d; tagv tg]) =
    Some (conc (fst (add_data NoneTagRefused S data reso d tg)), snd (add_data NoneTagRefused S data reso d tg)).
  Proof.
    intros Hi Hwa Hwp Hn. unfold add_data. rewrite Hi.
    unfold code__add_data. fold blk_acc.
    destruct reso as [l|]; [destruct l|]; destruct (res S) eqn:Hr; cbn; rewrite ?Hi, ?Hr; cbn;
      repeat (rewrite res2num_ok; cbn; rewrite ?Hr; cbn); try (match goal with |- Some _ = Some _ => reflexivity end).
    all: destruct d as [p|q|g| |], tg as [z|]; cbn; rewrite ?Hr; cbn; rewrite ?in_ptypes, ?in_processes, ?in_signals; cbn;
         try (match goal with |- Some _ = Some _ => reflexivity end).
    all: try rewrite (flag_list_ok S _ (Some z)); try rewrite flag_ok; cbn.
    all: match goal with |- context [blk_acc (conc ?S2) [("v0", _); ("v1", ?x1); ("v2", ?x2); ("v3", ?x3); ("v4", ?x4); ("v5", ?x5); ("v6", ?x6)]] =>
           pose proof (acc_block S2 data x1 x2 x3 x4 x5 x6 Hwa Hwp Hn) as HB;
           destruct (accumulate NoneTagRefused S2 data) as [S' b]; cbn [fst snd] in *; destruct b;
           [destruct HB as [en' HB] | destruct HB as (en' & e & HB & He)]; rewrite HB; cbn;
           [reflexivity | apply ok_of_ex; exact He]
         end.
  Qed.

End Gen.
