(* Statement skeletons of the rate kernels with their arithmetic content as arguments, and the lemmas that turn
   "the content is the expected one" into equality with Model/C06.v.  harness/translate_c06.py instantiates the
   arguments from the current source on every run.
     ssRedfieldRateMatrix (implementations/python/redfieldrates.py): both loop nests, the clamp, the two flags
     _reference_implementation (foersterrates.py): the transfer loop nest and the depopulation loop
     get_FTCorrelationFunction (spectraldensities.py): the slice assignments around the zero-frequency point *)
From Coq Require Import ZArith List Bool Arith Lia QArith Lqa.
From QV Require Import Base.Alg Base.Sums Base.Mat Model.C06.
Import ListNotations.

(* ---------- for v in range(lo, hi): st = body v st ---------- *)
Definition range_list (lo hi : Z) : list nat :=
  map (fun t => Z.to_nat (lo + Z.of_nat t)) (seq 0 (Z.to_nat (hi - lo))).
Definition for_in {St} (l : list nat) (body : nat -> St -> St) (st : St) : St := fold_left (fun s v => body v s) l st.
Definition for_range {St} (lo hi : Z) (body : nat -> St -> St) (st : St) : St := for_in (range_list lo hi) body st.

Lemma range_list_0 n : range_list 0 (Z.of_nat n) = seq 0 n.
Proof.
  unfold range_list. rewrite Z.sub_0_r, Nat2Z.id. rewrite <- (map_id (seq 0 n)) at 2.
  apply map_ext. intros t. lia.
Qed.

Lemma for_seq_ind {St} (P : nat -> St -> Prop) n (body : nat -> St -> St) st :
  P 0%nat st -> (forall v s, (v < n)%nat -> P v s -> P (S v) (body v s)) -> P n (for_in (seq 0 n) body st).
Proof.
  intros H0 Hs. induction n as [|n IH].
  - exact H0.
  - rewrite seq_S. unfold for_in. rewrite fold_left_app. cbn [fold_left Nat.add]. apply Hs; [lia|].
    apply IH. intros v s Hv. apply Hs. lia.
Qed.

Lemma for_range_ind {St} (P : nat -> St -> Prop) lo hi n (body : nat -> St -> St) st : lo = 0%Z -> hi = Z.of_nat n ->
  P 0%nat st -> (forall v s, (v < n)%nat -> P v s -> P (S v) (body v s)) -> P n (for_range lo hi body st).
Proof. intros -> ->. unfold for_range. rewrite range_list_0. apply for_seq_ind. Qed.

Lemma existsb_seq_S (f : nat -> bool) n : existsb f (seq 0 (S n)) = existsb f (seq 0 n) || f n.
Proof. rewrite seq_S, existsb_app. cbn [existsb Nat.add]. now rewrite orb_false_r. Qed.

Lemma ltb_S a j : (a <? S j)%nat = (a <? j)%nat || Nat.eqb a j.
Proof. destruct (Nat.ltb_spec a j), (Nat.eqb_spec a j), (Nat.ltb_spec a (S j)); cbn [orb]; try reflexivity; lia. Qed.

Lemma existsb_ext_in {A} (f g : A -> bool) l : (forall x, In x l -> f x = g x) -> existsb f l = existsb g l.
Proof.
  induction l as [|x l IH]; intros H; cbn [existsb]; [reflexivity|].
  rewrite (H x (or_introl eq_refl)), IH; [reflexivity|]. intros y Hy. apply H. now right.
Qed.


Ltac bsolve :=
  repeat match goal with
         | |- context [Nat.eqb ?x ?y] => destruct (Nat.eqb_spec x y)
         | |- context [Nat.ltb ?x ?y] => destruct (Nat.ltb_spec x y)
         end; subst; cbn [andb orb negb]; try reflexivity; try lia.


(* discharging the side conditions in the generated files *)
Ltac guard_tac :=
  intros;
  repeat match goal with |- context [Nat.eqb ?x ?y] => destruct (Nat.eqb_spec x y) end;
  subst; cbn [negb andb orb]; first [reflexivity | lia | congruence].
Ltac tree_tac :=
  cbv zeta;
  repeat match goal with |- context [Nat.eqb ?x ?y] => destruct (Nat.eqb_spec x y) end;
  subst; cbn [negb andb orb];
  repeat match goal with |- context [if ?c then _ else _] => destruct c eqn:? end;
  first [reflexivity | ring | lia | congruence].

Section Ss.
  Context {R : StarRing}.
  Add Ring Rr : (rth R).
  Open Scope sr_scope.
  Variable ltz small : R -> bool.

  Definition upd (A : @mat R) (a b : nat) (v : R) : @mat R := fun i j => if Nat.eqb i a && Nat.eqb j b then v else A i j.
  Definition rd (A : @mat R) (p : nat * nat) : R := A (fst p) (snd p).
  Definition wr (A : @mat R) (p : nat * nat) (v : R) : @mat R := upd A (fst p) (snd p) v.

  Lemma upd_same A a b v : upd A a b v a b = v.
  Proof. unfold upd. now rewrite !Nat.eqb_refl. Qed.
  Lemma upd_other A a b v i j : (i <> a \/ j <> b) -> upd A a b v i j = A i j.
  Proof.
    intros H. unfold upd. destruct (Nat.eqb_spec i a), (Nat.eqb_spec j b); cbn [andb]; try reflexivity. lia.
  Qed.

  Section Holes.
    Variables (klo khi ilo1 ihi1 jlo1 jhi1 ilo2 ihi2 jlo2 jhi2 : Z).
    Variables (g1 g2 g3 : nat -> nat -> bool).
    Variable term : nat -> nat -> nat -> R.
    Variables (t1 r1 r2 r3 r4 r5 : nat -> nat -> nat * nat).
    Variable zero : R.

    (* for k: for i: for j: if g1: RR[t1] += term *)
    Definition nest1 (RR : @mat R) : @mat R :=
      for_range klo khi (fun k => for_range ilo1 ihi1 (fun i => for_range jlo1 jhi1 (fun j RR =>
        if g1 i j then wr RR (t1 i j) (rd RR (t1 i j) + term k i j) else RR))) RR.

    (* for i: for j: if g2: (if RR[r1] < 0: w0 = set; if |RR[r2]| < rtol: RR[r3] = zero else: w1 = set); if g3: RR[r4] -= RR[r5] *)
    Definition step2 (i j : nat) (st : @mat R * bool * bool) : @mat R * bool * bool :=
      let '(RR, w0, w1) := st in
      let '(RR, w0, w1) :=
        if g2 i j then
          if ltz (rd RR (r1 i j)) then
            if small (rd RR (r2 i j)) then (wr RR (r3 i j) zero, true, w1) else (RR, true, true)
          else (RR, w0, w1)
        else (RR, w0, w1) in
      if g3 i j then (wr RR (r4 i j) (rd RR (r4 i j) - rd RR (r5 i j)), w0, w1) else (RR, w0, w1).
    Definition nest2 (st : @mat R * bool * bool) : @mat R * bool * bool :=
      for_range ilo2 ihi2 (fun i => for_range jlo2 jhi2 (fun j => step2 i j)) st.
    Definition ss_skel (RR0 : @mat R) : @mat R * bool * bool := nest2 (nest1 RR0, false, false).

    Variables (Na Nk : nat) (KI cc : nat -> @mat R).
    Hypothesis Hklo : klo = 0%Z.
    Hypothesis Hkhi : khi = Z.of_nat Nk.
    Hypothesis Hilo1 : ilo1 = 0%Z.
    Hypothesis Hihi1 : ihi1 = Z.of_nat Na.
    Hypothesis Hjlo1 : jlo1 = 0%Z.
    Hypothesis Hjhi1 : jhi1 = Z.of_nat Na.
    Hypothesis Hilo2 : ilo2 = 0%Z.
    Hypothesis Hihi2 : ihi2 = Z.of_nat Na.
    Hypothesis Hjlo2 : jlo2 = 0%Z.
    Hypothesis Hjhi2 : jhi2 = Z.of_nat Na.
    Hypothesis Hg1 : forall i j, g1 i j = negb (Nat.eqb i j).
    Hypothesis Hg2 : forall i j, g2 i j = negb (Nat.eqb i j).
    Hypothesis Hg3 : forall i j, g3 i j = negb (Nat.eqb i j).
    Hypothesis Hterm : forall k i j, term k i j = cc k i j * KI k i j * KI k j i.
    Hypothesis Ht1 : forall i j, t1 i j = (i, j).
    Hypothesis Hr1 : forall i j, r1 i j = (i, j).
    Hypothesis Hr2 : forall i j, r2 i j = (i, j).
    Hypothesis Hr3 : forall i j, r3 i j = (i, j).
    Hypothesis Hr4 : forall i j, r4 i j = (j, j).
    Hypothesis Hr5 : forall i j, r5 i j = (i, j).
    Hypothesis Hzero : zero = 0.

    (* first nest: every off-diagonal element collects its terms, the diagonal is untouched *)
    Lemma nest1_spec RR0 a b : (a < Na)%nat -> (b < Na)%nat ->
      nest1 RR0 a b = if Nat.eqb a b then RR0 a b else raw Nk KI cc RR0 a b.
    Proof.
      intros Ha Hb. unfold nest1.
      pose (P := fun (k : nat) (RR : @mat R) => forall a b, (a < Na)%nat -> (b < Na)%nat ->
                   RR a b = if Nat.eqb a b then RR0 a b else RR0 a b + sum k (fun k' => cc k' a b * KI k' a b * KI k' b a)).
      cut (P Nk (for_range klo khi (fun k => for_range ilo1 ihi1 (fun i => for_range jlo1 jhi1 (fun j RR =>
        if g1 i j then wr RR (t1 i j) (rd RR (t1 i j) + term k i j) else RR))) RR0)).
      { intros HP. apply HP; assumption. }
      apply (for_range_ind P klo khi Nk); [exact Hklo|exact Hkhi| |].
      - intros a' b' _ _. cbn [sum]. destruct (Nat.eqb a' b'); [reflexivity|ring].
      - intros k s Hk Hs.
        pose (Q := fun (i : nat) (RR : @mat R) => forall a b, (a < Na)%nat -> (b < Na)%nat ->
                     RR a b = if (a <? i)%nat && negb (Nat.eqb a b) then s a b + term k a b else s a b).
        cut (Q Na (for_range ilo1 ihi1 (fun i => for_range jlo1 jhi1 (fun j RR =>
               if g1 i j then wr RR (t1 i j) (rd RR (t1 i j) + term k i j) else RR)) s)).
        { intros HQ a' b' Ha' Hb'. rewrite (HQ a' b' Ha' Hb'), (Hs a' b' Ha' Hb'), Hterm.
          apply Nat.ltb_lt in Ha'. rewrite Ha'. cbn [andb sum]. destruct (Nat.eqb a' b'); cbn [negb]; [reflexivity|ring]. }
        apply (for_range_ind Q ilo1 ihi1 Na); [exact Hilo1|exact Hihi1| |].
        + intros a' b' _ _. reflexivity.
        + intros i s1 Hi Hs1.
          pose (T := fun (j : nat) (RR : @mat R) => forall a b, (a < Na)%nat -> (b < Na)%nat ->
                       RR a b = if ((a <? i)%nat || (Nat.eqb a i && (b <? j)%nat)) && negb (Nat.eqb a b) then s a b + term k a b else s a b).
          cut (T Na (for_range jlo1 jhi1 (fun j RR => if g1 i j then wr RR (t1 i j) (rd RR (t1 i j) + term k i j) else RR) s1)).
          { intros HT a' b' Ha' Hb'. rewrite (HT a' b' Ha' Hb').
            replace ((a' <? S i)%nat) with ((a' <? i)%nat || (Nat.eqb a' i && (b' <? Na)%nat)); [reflexivity|].
            apply Nat.ltb_lt in Hb'. rewrite Hb', andb_true_r.
            destruct (Nat.ltb_spec a' i), (Nat.eqb_spec a' i), (Nat.ltb_spec a' (S i)); cbn [orb]; try reflexivity; lia. }
          apply (for_range_ind T jlo1 jhi1 Na); [exact Hjlo1|exact Hjhi1| |].
          * intros a' b' Ha' Hb'. rewrite (Hs1 a' b' Ha' Hb'). cbn [Nat.ltb Nat.leb]. now rewrite andb_false_r, orb_false_r.
          * intros j s2 Hj Hs2 a' b' Ha' Hb'. rewrite Hg1, Ht1. unfold wr, rd. cbn [fst snd].
            destruct (Nat.eqb_spec i j) as [Hij|Hij]; cbn [negb].
            -- rewrite (Hs2 a' b' Ha' Hb').
               replace ((b' <? S j)%nat) with ((b' <? j)%nat || Nat.eqb b' j)
                 by (destruct (Nat.ltb_spec b' j), (Nat.eqb_spec b' j), (Nat.ltb_spec b' (S j)); cbn [orb]; try reflexivity; lia).
               destruct (Nat.eqb_spec a' i), (Nat.eqb_spec b' j), (Nat.eqb_spec a' b'); subst; cbn [andb orb negb];
                 rewrite ?andb_false_r, ?orb_false_r, ?andb_true_r, ?orb_true_r; try reflexivity; try lia.
            -- destruct (Nat.eq_dec a' i) as [->|Hai]; [destruct (Nat.eq_dec b' j) as [->|Hbj]|].
               ++ rewrite upd_same, (Hs2 i j Hi Hj). rewrite Nat.ltb_irrefl, Nat.eqb_refl.
                  assert (Hjj : (j <? j)%nat = false) by apply Nat.ltb_irrefl. rewrite Hjj.
                  assert (Hjs : (j <? S j)%nat = true) by (apply Nat.ltb_lt; lia). rewrite Hjs.
                  apply Nat.eqb_neq in Hij. rewrite Hij. cbn [andb orb negb]. reflexivity.
               ++ rewrite upd_other by (right; exact Hbj). rewrite (Hs2 i b' Hi Hb').
                  replace ((b' <? S j)%nat) with ((b' <? j)%nat)
                    by (destruct (Nat.ltb_spec b' j), (Nat.ltb_spec b' (S j)); try reflexivity; lia).
                  reflexivity.
               ++ rewrite upd_other by (left; exact Hai). rewrite (Hs2 a' b' Ha' Hb').
                  apply Nat.eqb_neq in Hai. rewrite Hai. cbn [andb]. reflexivity.
    Qed.

    (* second nest *)
    Definition cl (A : @mat R) (a b : nat) : R := if Nat.eqb a b then 0 else clamp ltz small (A a b).
    Definition ex2 (A : @mat R) (f : R -> bool) (i : nat) : bool :=
      existsb (fun a => existsb (fun b => negb (Nat.eqb a b) && f (A a b)) (seq 0 Na)) (seq 0 i).
    Definition neg_big (x : R) : bool := ltz x && negb (small x).

    Definition clamped (RR : @mat R) (i j : nat) : @mat R :=
      if ltz (RR i j) then if small (RR i j) then upd RR i j 0 else RR else RR.

    Lemma clamped_spec RR i j a b : clamped RR i j a b = if Nat.eqb a i && Nat.eqb b j then clamp ltz small (RR i j) else RR a b.
    Proof.
      unfold clamped, clamp, upd.
      destruct (Nat.eqb_spec a i), (Nat.eqb_spec b j); subst; cbn [andb]; destruct (ltz (RR i j)); try destruct (small (RR i j));
        cbn [andb]; rewrite ?Nat.eqb_refl; cbn [andb]; try reflexivity;
        repeat match goal with |- context [Nat.eqb ?x ?y] => destruct (Nat.eqb_spec x y); try lia end; cbn [andb]; reflexivity.
    Qed.

    Lemma step2_canon i j RR w0 w1 :
      step2 i j (RR, w0, w1) =
      if Nat.eqb i j then (RR, w0, w1)
      else (upd (clamped RR i j) j j (clamped RR i j j j - clamped RR i j i j), w0 || ltz (RR i j), w1 || neg_big (RR i j)).
    Proof.
      unfold step2, clamped, neg_big, wr, rd. rewrite Hg2, Hg3, Hr1, Hr2, Hr3, Hr4, Hr5, Hzero. cbn [fst snd].
      destruct (Nat.eqb i j); cbn [negb]; [reflexivity|].
      destruct (ltz (RR i j)); [destruct (small (RR i j))|]; cbn [negb andb]; rewrite ?orb_true_r, ?orb_false_r; reflexivity.
    Qed.

    Definition P2 (A : @mat R) (w0i w1i : bool) (i : nat) (st : @mat R * bool * bool) : Prop :=
      (forall a b, (a < Na)%nat -> (b < Na)%nat -> a <> b ->
         fst (fst st) a b = if (a <? i)%nat then clamp ltz small (A a b) else A a b) /\
      (forall b, (b < Na)%nat -> fst (fst st) b b = A b b - sum i (fun a => cl A a b)) /\
      snd (fst st) = w0i || ex2 A ltz i /\ snd st = w1i || ex2 A neg_big i.

    Definition Q2 (A : @mat R) (w0r w1r : bool) (i j : nat) (st : @mat R * bool * bool) : Prop :=
      (forall a b, (a < Na)%nat -> (b < Na)%nat -> a <> b ->
         fst (fst st) a b = if (a <? i)%nat || (Nat.eqb a i && (b <? j)%nat) then clamp ltz small (A a b) else A a b) /\
      (forall b, (b < Na)%nat -> fst (fst st) b b = A b b - sum i (fun a => cl A a b) - (if (b <? j)%nat then cl A i b else 0)) /\
      snd (fst st) = w0r || existsb (fun b => negb (Nat.eqb i b) && ltz (A i b)) (seq 0 j) /\
      snd st = w1r || existsb (fun b => negb (Nat.eqb i b) && neg_big (A i b)) (seq 0 j).

    Lemma inner2 A w0r w1r i st : (i < Na)%nat -> Q2 A w0r w1r i 0 st ->
      Q2 A w0r w1r i Na (for_range jlo2 jhi2 (fun j => step2 i j) st).
    Proof.
      intros Hi H0. apply (for_range_ind (Q2 A w0r w1r i) jlo2 jhi2 Na); [exact Hjlo2|exact Hjhi2|exact H0|].
      intros j [[RR w0] w1] Hj (Hoff & Hdiag & Hw0 & Hw1). cbn [fst snd] in *. rewrite step2_canon.
      destruct (Nat.eqb_spec i j) as [Hij|Hij].
      - subst j. unfold Q2. cbn [fst snd]. repeat split.
        + intros a b Ha Hb Hab. rewrite (Hoff a b Ha Hb Hab), ltb_S.
          destruct (Nat.eqb_spec a i), (Nat.eqb_spec b i); subst; cbn [andb orb]; rewrite ?orb_false_r, ?andb_true_r; try reflexivity. lia.
        + intros b Hb. rewrite (Hdiag b Hb), ltb_S.
          destruct (Nat.eqb_spec b i) as [->|Hbi]; rewrite ?orb_false_r; [|reflexivity].
          rewrite Nat.ltb_irrefl. cbn [orb]. unfold cl. rewrite Nat.eqb_refl. reflexivity.
        + rewrite Hw0, existsb_seq_S, Nat.eqb_refl. cbn [negb andb]. now rewrite orb_false_r.
        + rewrite Hw1, existsb_seq_S, Nat.eqb_refl. cbn [negb andb]. now rewrite orb_false_r.
      - assert (Hx : RR i j = A i j).
        { rewrite (Hoff i j Hi Hj Hij), Nat.ltb_irrefl, Nat.eqb_refl, Nat.ltb_irrefl. reflexivity. }
        unfold Q2. cbn [fst snd]. repeat split.
        + intros a b Ha Hb Hab. rewrite upd_other by lia. rewrite clamped_spec, Hx, (Hoff a b Ha Hb Hab). bsolve.
        + intros b Hb. destruct (Nat.eq_dec b j) as [->|Hbj].
          * rewrite upd_same. rewrite !clamped_spec, Hx, !Nat.eqb_refl. cbn [andb].
            apply Nat.eqb_neq in Hij. rewrite (Nat.eqb_sym j i), Hij. cbn [andb]. rewrite (Hdiag j Hj).
            rewrite Nat.ltb_irrefl. assert (Hjs : (j <? S j)%nat = true) by (apply Nat.ltb_lt; lia). rewrite Hjs.
            unfold cl at 3. rewrite Hij. ring.
          * rewrite upd_other by lia. rewrite clamped_spec.
            replace (Nat.eqb b i && Nat.eqb b j) with false by (apply Nat.eqb_neq in Hbj; rewrite Hbj; now rewrite andb_false_r).
            rewrite (Hdiag b Hb), ltb_S. apply Nat.eqb_neq in Hbj. rewrite Hbj, orb_false_r. reflexivity.
        + rewrite Hw0, existsb_seq_S, Hx. apply Nat.eqb_neq in Hij. rewrite Hij. cbn [negb andb]. now rewrite orb_assoc.
        + rewrite Hw1, existsb_seq_S, Hx. apply Nat.eqb_neq in Hij. rewrite Hij. cbn [negb andb]. now rewrite orb_assoc.
    Qed.

    Lemma nest2_spec A w0i w1i : P2 A w0i w1i Na (nest2 (A, w0i, w1i)).
    Proof.
      unfold nest2. apply (for_range_ind (P2 A w0i w1i) ilo2 ihi2 Na); [exact Hilo2|exact Hihi2| |].
      - unfold P2, ex2. cbn [fst snd sum existsb seq]. repeat split; intros; rewrite ?orb_false_r; try reflexivity. ring.
      - intros i st Hi (Hoff & Hdiag & Hw0 & Hw1).
        assert (HQ0 : Q2 A (w0i || ex2 A ltz i) (w1i || ex2 A neg_big i) i 0 st).
        { unfold Q2. cbn [existsb seq]. repeat split.
          - intros a b Ha Hb Hab. rewrite (Hoff a b Ha Hb Hab). cbn [Nat.ltb Nat.leb]. now rewrite andb_false_r, orb_false_r.
          - intros b Hb. rewrite (Hdiag b Hb). cbn [Nat.ltb Nat.leb]. ring.
          - now rewrite orb_false_r.
          - now rewrite orb_false_r. }
        destruct (inner2 A _ _ i st Hi HQ0) as (Hoff' & Hdiag' & Hw0' & Hw1').
        unfold P2. repeat split.
        + intros a b Ha Hb Hab. rewrite (Hoff' a b Ha Hb Hab), ltb_S. apply Nat.ltb_lt in Hb. now rewrite Hb, andb_true_r.
        + intros b Hb. rewrite (Hdiag' b Hb). cbn [sum]. apply Nat.ltb_lt in Hb. rewrite Hb. ring.
        + rewrite Hw0'. unfold ex2 at 2. rewrite existsb_seq_S. fold (ex2 A ltz i). now rewrite orb_assoc.
        + rewrite Hw1'. unfold ex2 at 2. rewrite existsb_seq_S. fold (ex2 A neg_big i). now rewrite orb_assoc.
    Qed.

    (* the whole function: matrix and both flags *)
    Theorem ss_skel_is_model RR0 :
      (forall i j, (i < Na)%nat -> (j < Na)%nat -> fst (fst (ss_skel RR0)) i j = ss_rate ltz small Na Nk KI cc RR0 i j) /\
      snd (fst (ss_skel RR0)) = werror0 ltz Na Nk KI cc RR0 /\
      snd (ss_skel RR0) = werror1 ltz small Na Nk KI cc RR0.
    Proof.
      unfold ss_skel. destruct (nest2_spec (nest1 RR0) false false) as (Hoff & Hdiag & Hw0 & Hw1).
      assert (Hex : forall f, ex2 (nest1 RR0) f Na = any2 Na (fun i j => f (raw Nk KI cc RR0 i j))).
      { intros f. unfold ex2, any2. apply existsb_ext_in. intros a Ha. apply existsb_ext_in. intros b Hb.
        apply in_seq in Ha. apply in_seq in Hb. destruct (Nat.eqb_spec a b) as [|Hab]; [reflexivity|]. cbn [negb andb].
        rewrite nest1_spec by lia. apply Nat.eqb_neq in Hab. now rewrite Hab. }
      repeat split.
      - intros i j Hi Hj. unfold ss_rate. destruct (Nat.eqb_spec i j) as [->|Hij].
        + rewrite (Hdiag j Hj), nest1_spec, Nat.eqb_refl by assumption. f_equal. apply sum_ext. intros a Ha.
          unfold cl, offd. destruct (Nat.eqb_spec a j) as [|Haj]; [reflexivity|]. rewrite nest1_spec by assumption.
          apply Nat.eqb_neq in Haj. now rewrite Haj.
        + rewrite (Hoff i j Hi Hj Hij). apply Nat.ltb_lt in Hi. rewrite Hi. unfold offd.
          apply Nat.ltb_lt in Hi. rewrite nest1_spec by assumption. apply Nat.eqb_neq in Hij. now rewrite Hij.
      - rewrite Hw0. cbn [orb]. unfold werror0. apply Hex.
      - rewrite Hw1. cbn [orb]. unfold werror1. apply (Hex neg_big).
    Qed.
  End Holes.

  (* the rate matrix only reads the operators and bath values below the dimensions *)
  Lemma raw_ext Na Nk (KI KI' cc cc' : nat -> @mat R) RR0 i j : (i < Na)%nat -> (j < Na)%nat ->
    (forall k a b, (k < Nk)%nat -> (a < Na)%nat -> (b < Na)%nat -> KI k a b = KI' k a b /\ cc k a b = cc' k a b) ->
    raw Nk KI cc RR0 i j = raw Nk KI' cc' RR0 i j.
  Proof.
    intros Hi Hj H. unfold raw. f_equal. apply sum_ext. intros k Hk.
    destruct (H k i j Hk Hi Hj) as [-> ->]. destruct (H k j i Hk Hj Hi) as [-> _]. reflexivity.
  Qed.

  Lemma ss_rate_ext Na Nk (KI KI' cc cc' : nat -> @mat R) RR0 i j : (i < Na)%nat -> (j < Na)%nat ->
    (forall k a b, (k < Nk)%nat -> (a < Na)%nat -> (b < Na)%nat -> KI k a b = KI' k a b /\ cc k a b = cc' k a b) ->
    ss_rate ltz small Na Nk KI cc RR0 i j = ss_rate ltz small Na Nk KI' cc' RR0 i j.
  Proof.
    intros Hi Hj H. unfold ss_rate, offd. destruct (Nat.eqb i j).
    - f_equal. apply sum_ext. intros a Ha. destruct (Nat.eqb a j); [reflexivity|]. now rewrite (raw_ext Na Nk KI KI' cc cc' RR0 a j Ha Hj H).
    - now rewrite (raw_ext Na Nk KI KI' cc cc' RR0 i j Hi Hj H).
  Qed.

  (* _set_rates hands the transformed operators and the table of bath values to ssRedfieldRateMatrix *)
  Lemma set_rates_compose (gt_cut : R -> bool) (cw : nat -> R -> R) (boltz : R -> R) Na Nk (S1 S : @mat R) (K : nat -> @mat R) (hD : nat -> R)
    (KIg ccg : nat -> @mat R) i j : (i < Na)%nat -> (j < Na)%nat ->
    (forall k a b, (k < Nk)%nat -> (a < Na)%nat -> (b < Na)%nat ->
       KIg k a b = KI_of Na S1 S K k a b /\ ccg k a b = cc_table ltz gt_cut cw boltz hD k a b) ->
    ss_rate ltz small Na Nk KIg ccg (fun _ _ => 0) i j = redfield_rates ltz small gt_cut cw boltz Na Nk S1 S K hD i j.
  Proof.
    intros Hi Hj H. unfold redfield_rates. apply ss_rate_ext; [exact Hi|exact Hj|].
    intros k a b Hk Ha Hb. rewrite !tab2_spec by assumption. now apply H.
  Qed.
End Ss.

(* ---------- for a: for b: if g: M[t] = val   (every cell written at most once, from values that do not depend on M) ---------- *)
Section AssignNest.
  Context {R : StarRing}.
  Variables (alo ahi blo bhi : Z).
  Variable g : nat -> nat -> bool.
  Variable t : nat -> nat -> nat * nat.
  Variable val : nat -> nat -> R.
  Definition assign_nest (M : @mat R) : @mat R :=
    for_range alo ahi (fun a => for_range blo bhi (fun b M => if g a b then wr M (t a b) (val a b) else M)) M.

  Variable Na : nat.
  Hypothesis Halo : alo = 0%Z.
  Hypothesis Hahi : ahi = Z.of_nat Na.
  Hypothesis Hblo : blo = 0%Z.
  Hypothesis Hbhi : bhi = Z.of_nat Na.
  Hypothesis Ht : forall a b, t a b = (a, b).

  Lemma assign_nest_spec s a b : (a < Na)%nat -> (b < Na)%nat -> assign_nest s a b = if g a b then val a b else s a b.
  Proof.
    intros Ha Hb. unfold assign_nest.
    pose (P := fun (i : nat) (KK : @mat R) => forall a b, (a < Na)%nat -> (b < Na)%nat ->
                 KK a b = if (a <? i)%nat && g a b then val a b else s a b).
    cut (P Na (for_range alo ahi (fun a => for_range blo bhi (fun b KK => if g a b then wr KK (t a b) (val a b) else KK)) s)).
    { intros HP. rewrite (HP a b Ha Hb). apply Nat.ltb_lt in Ha. rewrite Ha. cbn [andb]. reflexivity. }
    apply (for_range_ind P alo ahi Na); [exact Halo|exact Hahi| |].
    - intros a' b' _ _. reflexivity.
    - intros i s1 Hi Hs1.
      pose (T := fun (j : nat) (KK : @mat R) => forall a b, (a < Na)%nat -> (b < Na)%nat ->
                   KK a b = if ((a <? i)%nat || (Nat.eqb a i && (b <? j)%nat)) && g a b then val a b else s a b).
      cut (T Na (for_range blo bhi (fun b KK => if g i b then wr KK (t i b) (val i b) else KK) s1)).
      { intros HT a' b' Ha' Hb'. rewrite (HT a' b' Ha' Hb'). rewrite ltb_S. apply Nat.ltb_lt in Hb'. now rewrite Hb', andb_true_r. }
      apply (for_range_ind T blo bhi Na); [exact Hblo|exact Hbhi| |].
      + intros a' b' Ha' Hb'. rewrite (Hs1 a' b' Ha' Hb'). cbn [Nat.ltb Nat.leb]. now rewrite andb_false_r, orb_false_r.
      + intros j s2 Hj Hs2 a' b' Ha' Hb'. rewrite Ht. unfold wr. cbn [fst snd].
        destruct (g i j) eqn:Hgij.
        * destruct (Nat.eq_dec a' i) as [->|Hai]; [destruct (Nat.eq_dec b' j) as [->|Hbj]|].
          -- rewrite upd_same, Hgij. bsolve.
          -- rewrite upd_other by (right; exact Hbj). rewrite (Hs2 i b' Hi Hb'), ltb_S. bsolve.
          -- rewrite upd_other by (left; exact Hai). rewrite (Hs2 a' b' Ha' Hb'), ltb_S. bsolve.
        * rewrite (Hs2 a' b' Ha' Hb'), ltb_S.
          destruct (Nat.eq_dec a' i) as [->|Hai]; [destruct (Nat.eq_dec b' j) as [->|Hbj]|].
          -- rewrite Hgij, !andb_false_r. reflexivity.
          -- bsolve.
          -- bsolve.
  Qed.
End AssignNest.

(* ---------- Foerster: _reference_implementation ---------- *)
Section Foerster.
  Context {R : StarRing}.
  Add Ring Rr2 : (rth R).
  Open Scope sr_scope.

  Section Holes.
    Variables (alo ahi blo bhi clo chi : Z) (n1 : nat).
    Variable g : nat -> nat -> bool.
    Variable t : nat -> nat -> nat * nat.
    Variable val : nat -> nat -> R.
    Variable col : nat -> nat.
    Variable d : nat -> nat * nat.
    Variable neg : R -> R.

    (* KK = zeros((n1,n1)); for a: for b: if g: KK[t] = val *)
    Definition fo_nest (KK : @mat R) : @mat R := assign_nest alo ahi blo bhi g t val KK.
    (* for a: Kaa = numpy.sum(KK[:, col]); KK[d] = neg Kaa *)
    Definition fo_depop (KK : @mat R) : @mat R :=
      for_range clo chi (fun a KK => wr KK (d a) (neg (sum n1 (fun i => KK i (col a))))) KK.
    Definition fo_skel : @mat R := fo_depop (fo_nest (fun _ _ => 0)).

    Variables (Na : nat) (HH F : @mat R).
    Hypothesis Hn1 : n1 = Na.
    Hypothesis Halo : alo = 0%Z.
    Hypothesis Hahi : ahi = Z.of_nat Na.
    Hypothesis Hblo : blo = 0%Z.
    Hypothesis Hbhi : bhi = Z.of_nat Na.
    Hypothesis Hclo : clo = 0%Z.
    Hypothesis Hchi : chi = Z.of_nat Na.
    Hypothesis Hg : forall a b, g a b = negb (Nat.eqb a b).
    Hypothesis Ht : forall a b, t a b = (a, b).
    Hypothesis Hval : forall a b, val a b = HH a b * HH a b * F a b.
    Hypothesis Hcol : forall a, col a = a.
    Hypothesis Hd : forall a, d a = (a, a).
    Hypothesis Hneg : forall x, neg x = 0 - x.

    Lemma fo_nest_spec s a b : (a < Na)%nat -> (b < Na)%nat ->
      fo_nest s a b = if negb (Nat.eqb a b) then val a b else s a b.
    Proof. intros Ha Hb. unfold fo_nest. rewrite (assign_nest_spec alo ahi blo bhi g t val Na Halo Hahi Hblo Hbhi Ht s a b Ha Hb), Hg. reflexivity. Qed.

    Theorem fo_skel_is_model a b : (a < Na)%nat -> (b < Na)%nat -> fo_skel a b = foerster_rates Na HH F a b.
    Proof.
      intros Ha Hb. unfold fo_skel, fo_depop.
      set (K1 := fo_nest (fun _ _ => 0)).
      pose (P := fun (i : nat) (KK : @mat R) => forall a b, (a < Na)%nat -> (b < Na)%nat ->
                   KK a b = if Nat.eqb a b && (a <? i)%nat then 0 - sum Na (fun i' => K1 i' b) else K1 a b).
      cut (P Na (for_range clo chi (fun a KK => wr KK (d a) (neg (sum n1 (fun i => KK i (col a))))) K1)).
      { intros HP. rewrite (HP a b Ha Hb). unfold foerster_rates.
        assert (HK1 : forall i j, (i < Na)%nat -> (j < Na)%nat -> K1 i j = foerster_offd HH F i j).
        { intros i j Hi Hj. unfold K1. rewrite (fo_nest_spec _ i j Hi Hj), Hval. unfold foerster_offd. destruct (Nat.eqb i j); reflexivity. }
        destruct (Nat.eqb_spec a b) as [->|Hab]; cbn [andb].
        - apply Nat.ltb_lt in Hb. rewrite Hb. apply Nat.ltb_lt in Hb. f_equal. apply sum_ext. intros i Hi. now apply HK1.
        - now apply HK1. }
      apply (for_range_ind P clo chi Na); [exact Hclo|exact Hchi| |].
      - intros a' b' _ _. cbn [Nat.ltb Nat.leb]. now rewrite andb_false_r.
      - intros i s Hi Hs a' b' Ha' Hb'. rewrite Hd, Hcol, Hneg, Hn1. unfold wr. cbn [fst snd].
        assert (Hcol_i : sum Na (fun i' => s i' i) = sum Na (fun i' => K1 i' i)).
        { apply sum_ext. intros i' Hi'. rewrite (Hs i' i Hi' Hi). destruct (Nat.eqb_spec i' i) as [->|]; cbn [andb]; [|reflexivity].
          now rewrite Nat.ltb_irrefl. }
        destruct (Nat.eq_dec a' i) as [->|Hai]; [destruct (Nat.eq_dec b' i) as [->|Hbi]|].
        + rewrite upd_same, Hcol_i, Nat.eqb_refl. assert (Hs' : (i <? S i)%nat = true) by (apply Nat.ltb_lt; lia). now rewrite Hs'.
        + rewrite upd_other by (right; exact Hbi). rewrite (Hs i b' Hi Hb'). apply Nat.eqb_neq in Hbi. rewrite (Nat.eqb_sym i b'), Hbi. reflexivity.
        + rewrite upd_other by (left; exact Hai). rewrite (Hs a' b' Ha' Hb'), ltb_S. apply Nat.eqb_neq in Hai. rewrite Hai, orb_false_r. reflexivity.
    Qed.
  End Holes.
End Foerster.

(* ---------- analytic spectral densities: equality of two rational expressions whose denominators do not vanish ---------- *)
Ltac sd_tac := field; repeat split; try assumption; try lra; try nra.

(* ---------- get_FTCorrelationFunction ---------- *)
Section Ftcf.
  Local Open Scope Q_scope.

  (* the loop over self.params:
       for prms in self.params:
           if c_set: prms["T"] = v_set
           if c_first: temp = prms["T"]  elif temp != prms["T"]: raise
           k = k_next
     state: k, temp (None before the first pass), failed (an exception was raised: KeyError for a missing "T", or the mismatch) *)
  Section Temp.
    Variable c_set : option Q -> option Q -> bool.        (* of the argument and the stored value *)
    Variable v_set : option Q -> option Q -> option Q.
    Variable c_first : Z -> bool.
    Variable k_next : Z -> Z.
    Variable k_init : Z.
    Variable arg : option Q.

    Definition temp_body (st : Z * option Q * bool) (p : option Q) : Z * option Q * bool :=
      let '(k, temp, failed) := st in
      if failed then st else
      let p' := if c_set arg p then v_set arg p else p in
      match p' with
      | None => (k, temp, true)
      | Some t =>
          if c_first k then (k_next k, Some t, false)
          else match temp with
               | Some t0 => if negb (Qeq_bool t0 t) then (k, temp, true) else (k_next k, temp, false)
               | None => (k, temp, true)
               end
      end.
    Definition temp_skel (ps : list (option Q)) : ft_temp :=
      match fold_left temp_body ps (k_init, None, false) with
      | (_, Some t, false) => FtOk t
      | _ => FtErr
      end.

    Hypothesis Hset : forall a p, c_set a p = match a with Some _ => true | None => false end.
    Hypothesis Hval : forall a p, v_set a p = a.
    Hypothesis Hfirst : forall k, c_first k = (k =? 0)%Z.
    Hypothesis Hnext : forall k, k_next k = (k + 1)%Z.
    Hypothesis Hinit : k_init = 0%Z.

    Lemma temp_failed ps k temp : fold_left temp_body ps (k, temp, true) = (k, temp, true).
    Proof. induction ps as [|p ps IH]; cbn [fold_left temp_body]; [reflexivity|exact IH]. Qed.

    Lemma temp_prm a p : (if c_set a p then v_set a p else p) = ft_prm_T a p.
    Proof. rewrite Hset, Hval. destruct a; reflexivity. Qed.

    Lemma temp_rest ps : forall k t, (0 < k)%Z ->
      match fold_left temp_body ps (k, Some t, false) with (_, Some t', false) => FtOk t' | _ => FtErr end = ft_temp_from arg t ps.
    Proof.
      induction ps as [|p ps IH]; intros k t Hk; cbn [fold_left ft_temp_from]; [reflexivity|].
      cbn [temp_body]. rewrite temp_prm. destruct (ft_prm_T arg p) as [tp|].
      - rewrite Hfirst. replace (k =? 0)%Z with false by (symmetry; apply Z.eqb_neq; lia).
        destruct (Qeq_bool t tp); cbn [negb].
        + rewrite Hnext. apply IH. lia.
        + now rewrite temp_failed.
      - now rewrite temp_failed.
    Qed.

    Theorem temp_skel_is_model ps : temp_skel ps = ft_temperature arg ps.
    Proof.
      unfold temp_skel, ft_temperature. rewrite Hinit. destruct ps as [|p ps]; cbn [fold_left]; [reflexivity|].
      cbn [temp_body]. rewrite temp_prm. destruct (ft_prm_T arg p) as [tp|].
      - rewrite Hfirst. cbn [Z.eqb]. rewrite Hnext. apply temp_rest. lia.
      - now rewrite temp_failed.
    Qed.
  End Temp.

  (* the values: vals = zeros; vals[lo1:hi1] = F1(axis[lo1:hi1], data[lo1:hi1]); vals[lo2:hi2] = F2(...); vals[iz] = LH(data[ip], data[im])
     or, if zero is not a grid point, vals = Fd(axis, data) *)
  Definition slice_assign (v : nat -> Q) (lo hi : Z) (f : nat -> Q) : nat -> Q :=
    fun i => if (lo <=? Z.of_nat i)%Z && (Z.of_nat i <? hi)%Z then f i else v i.
  Definition point_assign (v : nat -> Q) (iz : Z) (x : Q) : nat -> Q := fun i => if (Z.of_nat i =? iz)%Z then x else v i.

  Section Grid.
    Variables (Fd F1 F2 : Q -> Q -> Q) (zero_val : (nat -> Q) -> Q).
    Variables (lo1 hi1 lo2 hi2 iz : Z).
    Definition grid_skel (direct : bool) (axis data : nat -> Q) : nat -> Q :=
      if direct then (fun i => Fd (axis i) (data i))
      else point_assign
             (slice_assign (slice_assign (fun _ => 0) lo1 hi1 (fun i => F1 (axis i) (data i))) lo2 hi2 (fun i => F2 (axis i) (data i)))
             iz (zero_val data).

    Variables (th : Q -> Q) (twokbt step : Q) (i0 n : nat).
    Hypothesis Hlo1 : lo1 = 0%Z.
    Hypothesis Hhi1 : hi1 = Z.of_nat i0.
    Hypothesis Hlo2 : lo2 = (Z.of_nat i0 + 1)%Z.
    Hypothesis Hhi2 : hi2 = Z.of_nat n.
    Hypothesis Hiz : iz = Z.of_nat i0.
    Hypothesis HFd : forall w J, Fd w J == ftcf_point th twokbt w J.
    Hypothesis HF1 : forall w J, F1 w J == ftcf_point th twokbt w J.
    Hypothesis HF2 : forall w J, F2 w J == ftcf_point th twokbt w J.
    Hypothesis HLH : forall data, zero_val data == ftcf_zero twokbt (data (S i0)) (data (pred i0)) step.

    Theorem grid_skel_is_model direct axis data i : (i < n)%nat ->
      grid_skel direct axis data i == ftcf_grid th twokbt step i0 direct axis data i.
    Proof.
      intros Hi. unfold grid_skel, ftcf_grid. destruct direct; [apply HFd|].
      unfold point_assign, slice_assign. rewrite Hiz, Hlo1, Hhi1, Hlo2, Hhi2.
      destruct (Nat.eqb_spec i i0) as [->|Hne].
      - rewrite Z.eqb_refl. apply HLH.
      - replace (Z.of_nat i =? Z.of_nat i0)%Z with false by (symmetry; apply Z.eqb_neq; lia).
        destruct (Z.leb_spec (Z.of_nat i0 + 1) (Z.of_nat i)), (Z.ltb_spec (Z.of_nat i) (Z.of_nat n)); cbn [andb]; try lia.
        + apply HF2.
        + destruct (Z.leb_spec 0 (Z.of_nat i)), (Z.ltb_spec (Z.of_nat i) (Z.of_nat i0)); cbn [andb]; try lia. apply HF1.
    Qed.
  End Grid.
End Ftcf.
