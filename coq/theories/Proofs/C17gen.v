(* Skeletons and lemmas for the static tie of the C17 glue (harness/translate_c17.py instantiates them from the current source on
   every run) and the facts about Model/C17axis.v that Props/C17.v states. *)
From Coq Require Import ZArith List Bool Arith Lia QArith Qcanon Qfield Lqa.
From QV Require Import Base.Alg Base.Sums Base.Mat Base.Util Model.C17 Model.C17axis Proofs.C17.
Import ListNotations.

Section PMGen.
  Context {R : StarRing}.
  Variable n : nat.

  Lemma mpow_apply_ext k (E U U' : @mat R) : meq n U U' -> meq n (mpow_apply n k E U) (mpow_apply n k E U').
  Proof.
    intros HU. induction k as [|k IH]; cbn [mpow_apply]; [exact HU|].
    intros a b Ha Hb. rewrite !tab2_spec by assumption. apply mmul_ext; [intros ? ? _ _; reflexivity|exact IH|exact Ha|exact Hb].
  Qed.

  Lemma mpow_apply_push k (E X : @mat R) : meq n (mpow_apply n k E (mmul n E X)) (mpow_apply n (S k) E X).
  Proof.
    induction k as [|k IH].
    - cbn [mpow_apply]. intros a b Ha Hb. rewrite tab2_spec by assumption. reflexivity.
    - intros a b Ha Hb. change (mpow_apply n (S k) E (mmul n E X)) with (tab2 n n (mmul n E (mpow_apply n k E (mmul n E X)))).
      change (mpow_apply n (S (S k)) E X) with (tab2 n n (mmul n E (mpow_apply n (S k) E X))).
      rewrite !tab2_spec by assumption. apply mmul_ext; [intros ? ? _ _; reflexivity|exact IH|exact Ha|exact Hb].
  Qed.

  (* for i in range(cnt): U0 = f U0 *)
  Fixpoint miter (k : nat) (f : @mat R -> @mat R) (U : @mat R) : @mat R := match k with O => U | S k' => f (miter k' f U) end.
  Lemma miter_is_mpow k (E : @mat R) f U : (forall X, f X = mmul n E X) -> meq n (miter k f U) (mpow_apply n k E U).
  Proof.
    intros Hf. induction k as [|k IH]; cbn [miter mpow_apply]; [intros a b _ _; reflexivity|].
    intros a b Ha Hb. rewrite Hf, tab2_spec by assumption. apply mmul_ext; [intros ? ? _ _; reflexivity|exact IH|exact Ha|exact Hb].
  Qed.

  (* the initial matrix: U0 = eye; if shifted: (if whole: Ns times U0 = f0 U0  else: U0 = f1 U0) *)
  Definition u0_skel (shifted whole : bool) (cnt : Z) (f0 f1 : @mat R -> @mat R) : @mat R :=
    if shifted then (if whole then miter (Z.to_nat cnt) f0 mid else f1 mid) else mid.
  Lemma u0_skel_is_model (E Edt : @mat R) shifted whole (Ns : nat) cnt f0 f1 :
    cnt = Z.of_nat Ns -> (forall X, f0 X = mmul n E X) -> (forall X, f1 X = mmul n Edt X) ->
    meq n (u0_skel shifted whole cnt f0 f1) (prop_U0 n E Edt shifted whole Ns).
  Proof.
    intros -> H0 H1. unfold u0_skel, prop_U0. rewrite Nat2Z.id. destruct shifted; [|intros a b _ _; reflexivity].
    destruct whole; [apply miter_is_mpow; exact H0|]. intros a b Ha Hb. rewrite H1, tab2_spec by assumption. reflexivity.
  Qed.

  (* U[:,:,first] = U0; for i in range(lo, hi): U[:,:,w i] = f (U[:,:,r i]) *)
  Definition updM (d : nat -> @mat R) (i : nat) (v : @mat R) : nat -> @mat R := fun j => if Nat.eqb j i then v else d j.
  Fixpoint pm_rest (k : nat) (i : Z) (w r : Z -> Z) (f : @mat R -> @mat R) (d : nat -> @mat R) : nat -> @mat R :=
    match k with
    | O => d
    | S k' => pm_rest k' (i + 1)%Z w r f (updM d (Z.to_nat (w i)) (f (d (Z.to_nat (r i)))))
    end.
  Definition pm_table (first lo hi : Z) (w r : Z -> Z) (f : @mat R -> @mat R) (U0 : @mat R) : nat -> @mat R :=
    pm_rest (Z.to_nat (hi - lo)) lo w r f (updM (fun _ => zero_mat) (Z.to_nat first) U0).

  Lemma pm_rest_spec (E : @mat R) w r f : (forall i, w i = i) -> (forall i, r i = (i - 1)%Z) -> (forall X, f X = mmul n E X) ->
    forall k (t : nat) d, (1 <= t)%nat ->
    let d' := pm_rest k (Z.of_nat t) w r f d in
    (forall j, (j < t)%nat -> d' j = d j) /\
    (forall j, (t <= j < t + k)%nat -> meq n (d' j) (mpow_apply n (j - (t - 1)) E (d (t - 1)%nat))).
  Proof.
    intros Hw Hr Hf. induction k as [|k IH]; intros t d Ht; cbn [pm_rest].
    - split; [reflexivity|intros; lia].
    - rewrite Hw, Hr, Hf. replace (Z.of_nat t + 1)%Z with (Z.of_nat (S t)) by lia.
      replace (Z.to_nat (Z.of_nat t - 1)) with (t - 1)%nat by lia. rewrite Nat2Z.id.
      destruct (IH (S t) (updM d t (mmul n E (d (t - 1)%nat))) ltac:(lia)) as [Hkeep Hset]. split.
      + intros j Hj. rewrite Hkeep by lia. unfold updM. destruct (Nat.eqb_spec j t); [lia|reflexivity].
      + intros j Hj. destruct (Nat.eq_dec j t) as [->|Hne].
        * rewrite Hkeep by lia. unfold updM at 1. rewrite Nat.eqb_refl. replace (t - (t - 1))%nat with 1%nat by lia.
          cbn [mpow_apply]. intros a b Ha Hb. rewrite tab2_spec by assumption. reflexivity.
        * intros a b Ha Hb. rewrite (proj1 (conj (Hset j ltac:(lia)) I) a b Ha Hb).
          replace (S t - 1)%nat with t by lia. unfold updM at 1. rewrite Nat.eqb_refl.
          replace (j - (t - 1))%nat with (S (j - t)) by lia.
          rewrite (mpow_apply_push (j - t) E (d (t - 1)%nat) a b Ha Hb). cbn [mpow_apply]. rewrite tab2_spec by assumption. reflexivity.
  Qed.

  Lemma pm_table_is_model (E U0 : @mat R) first lo hi w r f (len : nat) :
    first = 0%Z -> lo = 1%Z -> hi = Z.of_nat len -> (forall i, w i = i) -> (forall i, r i = (i - 1)%Z) -> (forall X, f X = mmul n E X) ->
    forall j, (j < len)%nat -> meq n (pm_table first lo hi w r f U0 j) (mpow_apply n j E U0).
  Proof.
    intros -> -> -> Hw Hr Hf j Hj. unfold pm_table. change (Z.to_nat 0) with 0%nat.
    destruct (pm_rest_spec E w r f Hw Hr Hf (Z.to_nat (Z.of_nat len - 1)) 1 (updM (fun _ => zero_mat) 0 U0) ltac:(lia)) as [Hkeep Hset].
    change (Z.of_nat 1) with 1%Z in *. destruct j as [|j].
    - rewrite Hkeep by lia. cbn. intros a b _ _. reflexivity.
    - intros a b Ha Hb. rewrite (Hset (S j) ltac:(lia) a b Ha Hb). cbn [Nat.sub]. replace (S j - 0)%nat with (S j) by lia. reflexivity.
  Qed.
End PMGen.

(* ---- what the three branches compute, for an oracle exponential that is a one-parameter semigroup ---- *)
Section Semigroup.
  Context {R : StarRing}.
  Variable n : nat.
  Variable ex : Q -> @mat R.
  Hypothesis ex_ext : forall s t, s == t -> meq n (ex s) (ex t).
  Hypothesis ex_add : forall s t, meq n (ex (s + t)) (mmul n (ex s) (ex t)).
  Hypothesis ex_0 : meq n (ex 0) mid.

  Lemma mpow_ex k d t0 (U : @mat R) : meq n U (ex t0) -> meq n (mpow_apply n k (ex d) U) (ex (inject_Z (Z.of_nat k) * d + t0)).
  Proof.
    intros HU. induction k as [|k IH]; cbn [mpow_apply].
    - intros a b Ha Hb. rewrite (HU a b Ha Hb). apply ex_ext; [|exact Ha|exact Hb]. cbn. ring.
    - intros a b Ha Hb. rewrite tab2_spec by assumption.
      transitivity (mmul n (ex d) (ex (inject_Z (Z.of_nat k) * d + t0)) a b).
      + apply mmul_ext; [intros ? ? _ _; reflexivity|exact IH|exact Ha|exact Hb].
      + rewrite <- (ex_add d (inject_Z (Z.of_nat k) * d + t0) a b Ha Hb). apply ex_ext; [|exact Ha|exact Hb].
        rewrite Nat2Z.inj_succ. unfold Z.succ. rewrite inject_Z_plus. ring.
  Qed.

  Theorem prop_matrix_is_exponential (start sub_start sub_step : Q) (Ns : Z) (i : nat) : 0 < sub_step -> start <= sub_start ->
    meq n (prop_matrix_gen n (ex sub_step) (ex (pm_dt start sub_start)) (pm_shifted start sub_start)
                           (pm_whole start sub_start sub_step Ns) (Z.to_nat Ns) i)
          (ex (inject_Z (Z.of_nat i) * sub_step + (sub_start - start))).
  Proof.
    intros Hstep Hle. unfold prop_matrix_gen. apply mpow_ex. unfold prop_U0, pm_shifted, pm_whole, pm_dt.
    destruct (Qeq_bool start sub_start) eqn:Es; cbn [negb].
    - apply Qeq_bool_iff in Es. intros a b Ha Hb. rewrite <- (ex_0 a b Ha Hb). apply ex_ext; [|exact Ha|exact Hb]. rewrite Es. ring.
    - destruct (Qeq_bool sub_start (start + inject_Z Ns * sub_step)) eqn:Ew.
      + apply Qeq_bool_iff in Ew.
        assert (HNs : (0 <= Ns)%Z).
        { destruct (Z_lt_le_dec Ns 0) as [Hneg|]; [|assumption]. exfalso.
          assert (Hq : inject_Z Ns <= -1) by (change (-1) with (inject_Z (-1)); rewrite <- Zle_Qle; lia).
          rewrite Ew in Hle. set (x := inject_Z Ns) in *. nra. }
        intros a b Ha Hb. rewrite (mpow_ex (Z.to_nat Ns) sub_step 0 mid (fun a b Ha Hb => eq_sym (ex_0 a b Ha Hb)) a b Ha Hb).
        apply ex_ext; [|exact Ha|exact Hb]. rewrite Z2Nat.id by exact HNs. rewrite Ew. ring.
      + intros a b Ha Hb. rewrite tab2_spec by assumption.
        transitivity (mmul n (ex (sub_start - start)) (ex 0) a b).
        * apply mmul_ext; [intros ? ? _ _; reflexivity|intros ? ? Hc Hd; symmetry; apply ex_0; assumption|exact Ha|exact Hb].
        * rewrite <- (ex_add (sub_start - start) 0 a b Ha Hb). apply ex_ext; [ring|exact Ha|exact Hb].
  Qed.
End Semigroup.

(* the grid numpy.linspace(start, stop, length) with stop = start + (length-1)*step: its k-th point, and max = the last point *)
Lemma linspace_point_is_model (start step : Q) (length k : nat) (stop : Q) : (2 <= length)%nat ->
  stop == start + (inject_Z (Z.of_nat length) - 1) * step ->
  start + inject_Z (Z.of_nat k) * ((stop - start) / (inject_Z (Z.of_nat length) - 1)) == ax_point (start, length, step) k.
Proof.
  intros Hl Hs. unfold ax_point. rewrite Hs. field.
  intros H0. assert (inject_Z (Z.of_nat length) == inject_Z 1) as H1 by (change (inject_Z 1) with 1; lra).
  assert (Z.of_nat length = 1%Z) as H2 by (apply inject_Z_injective; exact H1). lia.
Qed.
Lemma ax_max_is_last_point (a : axis) : ax_max a = ax_point a (let '(_, len, _) := a in (len - 1)%nat).
Proof. destruct a as [[s len] d]. reflexivity. Qed.

Lemma Qeq_bool_comm a b : Qeq_bool a b = Qeq_bool b a.
Proof. apply Bool.eq_iff_eq_true. rewrite !Qeq_bool_iff. split; intros H; symmetry; exact H. Qed.
Lemma Qeq_bool_ext a b b' : b == b' -> Qeq_bool a b = Qeq_bool a b'.
Proof. intros H. apply Bool.eq_iff_eq_true. rewrite !Qeq_bool_iff, H. tauto. Qed.

(* RateMatrix.__init__ *)
Lemma rm_ctor_spec :
  (forall N, N <> 0%Z -> rm_ctor (Some N) None = CtorZeros N) /\ rm_ctor None None = CtorRaise /\ rm_ctor (Some 0%Z) None = CtorRaise /\
  (forall dim r c, r <> c -> rm_ctor dim (Some (r, c)) = CtorRaise) /\ (forall r, rm_ctor None (Some (r, r)) = CtorData r) /\
  (forall N r, N <> 0%Z -> N <> r -> rm_ctor (Some N) (Some (r, r)) = CtorRaise).
Proof.
  split; [intros N HN; unfold rm_ctor; destruct (Z.eqb_spec N 0); [contradiction|reflexivity]|].
  split; [reflexivity|]. split; [reflexivity|].
  split; [intros dim r c Hrc; unfold rm_ctor; destruct (Z.eqb_spec r c); [contradiction|reflexivity]|].
  split; [intros r; unfold rm_ctor; rewrite Z.eqb_refl; reflexivity|].
  intros N r HN HNr. unfold rm_ctor. rewrite Z.eqb_refl. cbn [negb].
  destruct (Z.eqb_spec N 0); [contradiction|]. destruct (Z.eqb_spec N r); [contradiction|reflexivity].
Qed.
Lemma zero_mat_colsums {R : StarRing} n : zero_colsums n (@zero_mat R).
Proof. intros j Hj. unfold colsum, zero_mat. apply sum_0. Qed.

(* ---- is_subset_of ---- *)
Lemma ax_mem_iff (x : Q) (a : axis) :
  ax_mem x a = true <-> exists k, (k < (let '(_, len, _) := a in len))%nat /\ x == ax_point a k.
Proof.
  destruct a as [[s len] d]. unfold ax_mem. rewrite existsb_exists. split.
  - intros [k [Hin Hk]]. apply in_seq in Hin. apply Qeq_bool_iff in Hk. exists k. split; [lia|exact Hk].
  - intros [k [Hlt Hk]]. exists k. split; [apply in_seq; lia|apply Qeq_bool_iff; exact Hk].
Qed.

(* if is_subset_of accepts (exact arithmetic), every point of the sub-axis is a point of the axis *)
Theorem subset_points (rnd : Z) (sub ax : axis) : is_subset_of rnd sub ax = true ->
  forall k, (k < (let '(_, l1, _) := sub in l1))%nat -> ax_mem (ax_point sub k) ax = true.
Proof.
  destruct sub as [[s1 l1] d1], ax as [[s l] d]. unfold is_subset_of. intros H k Hk.
  apply andb_true_iff in H. destruct H as [H Hmax]. apply andb_true_iff in H. destruct H as [Hstep H].
  apply andb_true_iff in H. destruct H as [Hstart _].
  apply Qeq_bool_iff in Hstep. apply ax_mem_iff in Hstart. apply ax_mem_iff in Hmax.
  destruct Hstart as [a [Ha Hsa]]. destruct Hmax as [b [Hb Hsb]]. unfold ax_max, ax_point in *.
  apply ax_mem_iff. unfold ax_point.
  destruct (Qeq_dec d 0) as [Hd0|Hd0].
  - exists a. split; [exact Ha|]. rewrite <- Hstep, Hsa, Hd0. ring.
  - (* a + (l1-1) rnd = b *)
    assert (Hab : (Z.of_nat a + Z.of_nat (l1 - 1) * rnd = Z.of_nat b)%Z).
    { assert (Hq : (inject_Z (Z.of_nat a + Z.of_nat (l1 - 1) * rnd) - inject_Z (Z.of_nat b)) * d == 0).
      { rewrite inject_Z_plus, inject_Z_mult. rewrite <- Hstep, Hsa in Hsb. lra. }
      apply Qmult_integral in Hq. destruct Hq as [Hq|Hq]; [|contradiction].
      apply inject_Z_injective. lra. }
    set (c := (Z.of_nat a + Z.of_nat k * rnd)%Z).
    assert (Hc : (0 <= c < Z.of_nat l)%Z).
    { unfold c. destruct (Z_le_gt_dec 0 rnd) as [Hr|Hr].
      - split; [nia|]. assert (Z.of_nat k * rnd <= Z.of_nat (l1 - 1) * rnd)%Z by (apply Z.mul_le_mono_nonneg_r; lia). lia.
      - split; [|nia]. assert (Z.of_nat (l1 - 1) * rnd <= Z.of_nat k * rnd)%Z by (apply Z.mul_le_mono_nonpos_r; lia). lia. }
    exists (Z.to_nat c). split; [lia|]. rewrite Z2Nat.id by lia. unfold c. rewrite inject_Z_plus, inject_Z_mult.
    rewrite <- Hstep, Hsa. ring.
Qed.
