(* Lemmas for C06: probability conservation, positivity, detailed balance and golden-rule form of the rate
   matrices; oddness of the spectral densities and detailed balance of the Fourier-transformed correlation function. *)
From Coq Require Import ZArith List Bool Arith Lia QArith Lqa.
From QV Require Import Base.Alg Base.Sums Base.Mat Model.C06.
Import ListNotations.

Section RateLemmas.
  Context {R : StarRing}.
  Add Ring Rr : (rth R).
  Open Scope sr_scope.
  Variable ltz : R -> bool.
  Variable small : R -> bool.

  Lemma clamp_0 : clamp ltz small 0 = 0.
  Proof. unfold clamp. destruct (ltz 0); [destruct (small 0)|]; reflexivity. Qed.

  Lemma offd_diag Nk KI cc RR0 j : offd ltz small Nk KI cc RR0 j j = 0.
  Proof. unfold offd. now rewrite Nat.eqb_refl. Qed.

  (* a column whose diagonal entry is D minus the sum of the others sums to D *)
  Lemma colsum_with_diag n (f : nat -> R) (D : R) j : (j < n)%nat -> f j = 0 ->
    sum n (fun i => if Nat.eqb i j then D - sum n f else f i) = D.
  Proof.
    intros Hj Hf.
    rewrite (sum_ext n _ (fun i => f i + delta j i * (D - sum n f))).
    - rewrite sum_add, (sum_delta_l n j (fun _ => D - sum n f)) by exact Hj. ring.
    - intros i Hi. unfold delta. rewrite (Nat.eqb_sym j i). destruct (Nat.eqb_spec i j) as [->|Hne]; [rewrite Hf|]; ring.
  Qed.

  (* probability conservation: every column sums to what the diagonal held before the call (zero) -
     for all inputs, clamped or not *)
  Lemma ss_colsum Na Nk KI cc RR0 j : (j < Na)%nat ->
    colsum Na (ss_rate ltz small Na Nk KI cc RR0) j = RR0 j j.
  Proof.
    intros Hj. unfold colsum, ss_rate.
    apply (colsum_with_diag Na (fun i => offd ltz small Nk KI cc RR0 i j) (RR0 j j) j Hj). apply offd_diag.
  Qed.

  (* positivity *)
  Section Nonneg.
    Variable nonneg : R -> Prop.
    Hypothesis nn0 : nonneg 0.
    Hypothesis nnadd : forall x y, nonneg x -> nonneg y -> nonneg (x + y).
    Hypothesis nnmul : forall x y, nonneg x -> nonneg y -> nonneg (x * y).
    Hypothesis nnsq : forall x, nonneg (x * x).
    Hypothesis ltz_nonneg : forall x, nonneg x -> ltz x = false.

    Lemma sum_nonneg n f : (forall i, (i < n)%nat -> nonneg (f i)) -> nonneg (sum n f).
    Proof. induction n as [|n IH]; intros H; cbn [sum]; [exact nn0|]. apply nnadd; [apply IH; intros; apply H; lia|apply H; lia]. Qed.

    Lemma raw_nonneg Na Nk (KI cc : nat -> @mat R) RR0 i j : (i < Na)%nat -> (j < Na)%nat ->
      (forall k a b, (k < Nk)%nat -> (a < Na)%nat -> (b < Na)%nat -> nonneg (cc k a b) /\ KI k a b = KI k b a) ->
      nonneg (RR0 i j) -> nonneg (raw Nk KI cc RR0 i j).
    Proof.
      intros Hi Hj H H0. unfold raw. apply nnadd; [exact H0|]. apply sum_nonneg. intros k Hk.
      destruct (H k i j Hk Hi Hj) as [Hc Hs]. rewrite <- Hs.
      replace (cc k i j * KI k i j * KI k i j) with (cc k i j * (KI k i j * KI k i j)) by ring.
      apply nnmul; [exact Hc|apply nnsq].
    Qed.

    Lemma ss_offdiag_nonneg Na Nk (KI cc : nat -> @mat R) RR0 i j : (i < Na)%nat -> (j < Na)%nat -> i <> j ->
      (forall k a b, (k < Nk)%nat -> (a < Na)%nat -> (b < Na)%nat -> nonneg (cc k a b) /\ KI k a b = KI k b a) ->
      nonneg (RR0 i j) ->
      nonneg (ss_rate ltz small Na Nk KI cc RR0 i j) /\
      ss_rate ltz small Na Nk KI cc RR0 i j = raw Nk KI cc RR0 i j.
    Proof.
      intros Hi Hj Hne H H0. pose proof (raw_nonneg Na Nk KI cc RR0 i j Hi Hj H H0) as Hr.
      unfold ss_rate, offd. apply Nat.eqb_neq in Hne. rewrite Hne. unfold clamp. rewrite (ltz_nonneg _ Hr). split; [exact Hr|reflexivity].
    Qed.
  End Nonneg.

  (* no transfer to or from a state on which every interaction operator vanishes (the ground state) *)
  Lemma ss_no_transfer Na Nk (KI cc : nat -> @mat R) g j : g <> j ->
    (forall k, (k < Nk)%nat -> KI k g j = 0 /\ KI k j g = 0) ->
    ss_rate ltz small Na Nk KI cc (fun _ _ => 0) g j = 0 /\ ss_rate ltz small Na Nk KI cc (fun _ _ => 0) j g = 0.
  Proof.
    intros Hne H.
    assert (raw Nk KI cc (fun _ _ => 0) g j = 0 /\ raw Nk KI cc (fun _ _ => 0) j g = 0) as [H1 H2].
    { unfold raw. split; (rewrite sum_0_ext; [ring|]); intros k Hk; destruct (H k Hk) as [Ha Hb]; rewrite Ha, Hb; ring. }
    unfold ss_rate, offd. rewrite (proj2 (Nat.eqb_neq g j) Hne), (proj2 (Nat.eqb_neq j g) (not_eq_sym Hne)), H1, H2.
    split; apply clamp_0.
  Qed.

  (* detailed balance is transferred from the bath values to the rates *)
  Lemma raw_detailed_balance Nk (KI cc : nat -> @mat R) a b beta :
    (forall k, (k < Nk)%nat -> cc k a b = beta * cc k b a) ->
    raw Nk KI cc (fun _ _ => 0) a b = beta * raw Nk KI cc (fun _ _ => 0) b a.
  Proof.
    intros H. unfold raw.
    assert (sum Nk (fun k => cc k a b * KI k a b * KI k b a) = beta * sum Nk (fun k => cc k b a * KI k b a * KI k a b)) as E.
    { rewrite <- sum_mul_l. apply sum_ext. intros k Hk. rewrite (H k Hk). ring. }
    rewrite E. ring.
  Qed.

  Lemma ss_detailed_balance Na Nk (KI cc : nat -> @mat R) a b beta : a <> b ->
    (forall k, (k < Nk)%nat -> cc k a b = beta * cc k b a) ->
    ltz (raw Nk KI cc (fun _ _ => 0) a b) = false -> ltz (raw Nk KI cc (fun _ _ => 0) b a) = false ->
    ss_rate ltz small Na Nk KI cc (fun _ _ => 0) a b = beta * ss_rate ltz small Na Nk KI cc (fun _ _ => 0) b a.
  Proof.
    intros Hne H Hab Hba. unfold ss_rate, offd.
    rewrite (proj2 (Nat.eqb_neq a b) Hne), (proj2 (Nat.eqb_neq b a) (not_eq_sym Hne)).
    unfold clamp. rewrite Hab, Hba. now apply raw_detailed_balance.
  Qed.

  (* _set_rates: the uphill value is the downhill value times the Boltzmann factor *)
  Section Table.
    Variable gt_cut : R -> bool.
    Variable cw : nat -> R -> R.
    Variable boltz : R -> R.
    Hypothesis gt_cut_even : forall x, gt_cut (- x) = gt_cut x.

    Lemma Om_antisym (hD : nat -> R) a b : Om hD b a = - Om hD a b.
    Proof. unfold Om. ring. Qed.

    Lemma cc_table_detailed_balance (hD : nat -> R) k a b : a <> b ->
      ltz (Om hD b a) = true -> ltz (Om hD a b) = false ->
      cc_table ltz gt_cut cw boltz hD k a b = boltz (Om hD a b) * cc_table ltz gt_cut cw boltz hD k b a.
    Proof.
      intros Hne Hup Hdown. unfold cc_table.
      rewrite (proj2 (Nat.eqb_neq a b) Hne), (proj2 (Nat.eqb_neq b a) (not_eq_sym Hne)).
      rewrite (Om_antisym hD a b), gt_cut_even. destruct (gt_cut (Om hD a b)); [ring|].
      rewrite <- (Om_antisym hD a b), Hup, Hdown. ring.
    Qed.

    (* degenerate pair: both directions read the same bath value *)
    Lemma cc_table_degenerate (hD : nat -> R) k a b : hD a = hD b -> cc_table ltz gt_cut cw boltz hD k a b = cc_table ltz gt_cut cw boltz hD k b a.
    Proof.
      intros Hd. unfold cc_table. rewrite (Nat.eqb_sym b a).
      assert (Om hD a b = Om hD b a) as -> by (unfold Om; rewrite Hd; ring). reflexivity.
    Qed.
  End Table.

  (* golden-rule form: site projectors transformed by an orthogonal S *)
  Lemma proj_sandwich Na (S1 S : @mat R) p a b : (p < Na)%nat ->
    mmul Na S1 (mmul Na (proj p) S) a b = S1 a p * S p b.
  Proof.
    intros Hp. unfold mmul, proj.
    rewrite (sum_ext Na _ (fun i => delta p i * (S1 a i * S p b))).
    - now rewrite (sum_delta_l Na p (fun i => S1 a i * S p b)).
    - intros i Hi.
      rewrite (sum_ext Na _ (fun j => delta p j * (delta i p * S j b))) by (intros j _; rewrite (delta_sym j p); ring).
      rewrite (sum_delta_l Na p (fun j => delta i p * S j b)) by exact Hp. rewrite (delta_sym i p). ring.
  Qed.

  Lemma raw_golden_rule_form Na Nk (S : @mat R) (site : nat -> nat) cc a b :
    (forall k, (k < Nk)%nat -> (site k < Na)%nat) ->
    raw Nk (fun k => KI_of Na (mT S) S (fun k' => proj (site k')) k) cc (fun _ _ => 0) a b =
    sum Nk (fun k => cc k a b * ((S (site k) a * S (site k) a) * (S (site k) b * S (site k) b))).
  Proof.
    intros Hs. unfold raw, KI_of.
    replace (0 + sum Nk (fun k => cc k a b * mmul Na (mT S) (mmul Na (proj (site k)) S) a b * mmul Na (mT S) (mmul Na (proj (site k)) S) b a))
      with (sum Nk (fun k => cc k a b * mmul Na (mT S) (mmul Na (proj (site k)) S) a b * mmul Na (mT S) (mmul Na (proj (site k)) S) b a)) by ring.
    apply sum_ext. intros k Hk. rewrite !proj_sandwich by (now apply Hs). unfold mT. ring.
  Qed.

  (* Foerster: zero column sums *)
  Lemma foerster_colsum Na (HH F : @mat R) j : (j < Na)%nat -> colsum Na (foerster_rates Na HH F) j = 0.
  Proof.
    intros Hj. unfold colsum, foerster_rates.
    apply (colsum_with_diag Na (fun i => foerster_offd HH F i j) 0 j Hj). unfold foerster_offd. now rewrite Nat.eqb_refl.
  Qed.

  Lemma foerster_offdiag Na (HH F : @mat R) a b : a <> b -> foerster_rates Na HH F a b = HH a b * HH a b * F a b.
  Proof. intros Hne. unfold foerster_rates, foerster_offd. now rewrite (proj2 (Nat.eqb_neq a b) Hne). Qed.

  (* Redfield tensor: R[a,a,b,b] = sum_m K_ab (L_ab + conj L_ab); with L_ab = lam_m K_ab (the half-Fourier transform
     of the correlation function at the transition frequency) and K real this is the golden-rule form
     sum_m (lam_m + conj lam_m) K_ab^2 = sum_m 2 Re(lam_m) K_ab^2 *)
  Lemma tensor_aabb_form Nk (K L : nat -> @mat R) a b :
    tensor_aabb Nk K L a b = sum Nk (fun m => K m a b * (L m a b + cj R (L m a b))).
  Proof. unfold tensor_aabb. apply sum_ext. intros m _. ring. Qed.

  Lemma tensor_aabb_golden_rule Nk (K L : nat -> @mat R) (lam : nat -> R) a b :
    (forall m, (m < Nk)%nat -> L m a b = lam m * K m a b /\ is_real R (K m a b)) ->
    tensor_aabb Nk K L a b = sum Nk (fun m => (lam m + cj R (lam m)) * (K m a b * K m a b)).
  Proof.
    intros H. rewrite tensor_aabb_form. apply sum_ext. intros m Hm. destruct (H m Hm) as [HL HK].
    rewrite HL, cj_mul, HK. ring.
  Qed.
End RateLemmas.

(* ---------- bath functions over the rationals ---------- *)
Local Open Scope Q_scope.

Lemma sq_pos x : ~ x == 0 -> 0 < x * x.
Proof. intros H. destruct (Q_dec x 0) as [[Hl|Hg]|He]; [nra|nra|contradiction]. Qed.

Lemma sq_nonneg x : 0 <= x * x.
Proof. destruct (Q_dec x 0) as [[Hl|Hg]|He]; [nra|nra|rewrite He; lra]. Qed.

Lemma sd_overdamped_odd lamb ctime w : ~ ctime == 0 -> sd_overdamped lamb ctime (- w) == - sd_overdamped lamb ctime w.
Proof.
  intros Hc. unfold sd_overdamped.
  assert (0 < (1 / ctime) * (1 / ctime)) as Hpos.
  { apply sq_pos. intros H. assert (ctime * (1 / ctime) == 1) as H1 by (field; exact Hc). rewrite H in H1. lra. }
  pose proof (sq_nonneg w). pose proof (sq_nonneg ctime).
  assert (0 <= w * w * (ctime * ctime)) by (apply Qmult_le_0_compat; assumption).
  field. repeat split; try assumption; lra.
Qed.

Lemma denominators_positive w w0 g : ~ w0 == 0 -> ~ g == 0 -> 0 < (w * w - w0 * w0) * (w * w - w0 * w0) + (w * w) * (g * g).
Proof.
  intros H0 Hg. pose proof (sq_pos w0 H0). pose proof (sq_pos g Hg).
  pose proof (sq_nonneg (w * w - w0 * w0)). pose proof (sq_nonneg w).
  assert (0 <= (w * w) * (g * g)) by (apply Qmult_le_0_compat; lra).
  destruct (Qeq_dec (w * w) 0) as [Hw|Hw].
  - assert ((w * w - w0 * w0) * (w * w - w0 * w0) == (w0 * w0) * (w0 * w0)) as Hr by (rewrite Hw; ring).
    assert (0 < (w0 * w0) * (w0 * w0)) by (apply Qmult_lt_0_compat; assumption). lra.
  - assert (0 < w * w) by lra. assert (0 < (w * w) * (g * g)) by (apply Qmult_lt_0_compat; assumption). lra.
Qed.

Lemma sd_underdamped_brownian_odd lamb g w0 w : ~ w0 == 0 -> ~ g == 0 ->
  sd_underdamped_brownian lamb g w0 (- w) == - sd_underdamped_brownian lamb g w0 w.
Proof.
  intros H0 Hg. unfold sd_underdamped_brownian. pose proof (denominators_positive w w0 g H0 Hg).
  field. lra.
Qed.

Lemma sd_underdamped_odd lamb g w0 w : ~ w0 == 0 -> ~ g == 0 ->
  sd_underdamped lamb g w0 (- w) == - sd_underdamped lamb g w0 w.
Proof.
  intros H0 Hg. unfold sd_underdamped. pose proof (denominators_positive w w0 g H0 Hg).
  field. lra.
Qed.

(* detailed balance of (1 + coth(w/2kT)) J(w):  with e = exp(-w/kT) one has tanh(w/2kT) = (1-e)/(1+e); tanh and J odd *)
Lemma ftcf_detailed_balance e J : ~ e == 1 -> ~ e == - (1) ->
  let th := (1 - e) / (1 + e) in
  ftcf_value (- th) (- J) == e * ftcf_value th J.
Proof. intros H1 H2. cbv zeta. unfold ftcf_value. field. split; lra. Qed.

(* the same as the coth identity (coth x - 1)/(coth x + 1) = exp(-2x), with coth x = (1+e)/(1-e), e = exp(-2x) *)
Lemma coth_ratio e : ~ e == 1 -> let coth := (1 + e) / (1 - e) in (coth - 1) / (coth + 1) == e.
Proof. intros H1. cbv zeta. field. split; lra. Qed.

Lemma ftcf_zero_symmetric twokbt Jp Jm step : Jm == - Jp -> ~ step == 0 ->
  ftcf_zero twokbt Jp Jm step == twokbt * Jp / step.
Proof. intros H Hs. unfold ftcf_zero. rewrite H. field. exact Hs. Qed.


(* ---------- Foerster: roles of the two indices; the two directions of a pair ---------- *)
Section FoersterRoles.
  Context {R : StarRing}.
  Add Ring Rr3 : (rth R).
  Open Scope sr_scope.

  Lemma foerster_transfer_uses_donor_column {G : Type} Na (fint : G -> G -> R -> R -> R -> R) (gt : nat -> G) (HH : @mat R) (ll : nat -> R) a b :
    a <> b ->
    foerster_rates Na HH (foerster_F fint gt HH ll) a b = HH a b * HH a b * fint (gt a) (gt b) (HH b b) (HH a a) (ll b).
  Proof. intros Hab. rewrite foerster_offdiag by exact Hab. reflexivity. Qed.

  (* with the relaxed gap D = (ed - ld) - (ea - la) and L = ld + la the transfer d -> a oscillates with D - L and the transfer
     a -> d with -D - L: the two integrands are mirror images about -L, which is what detailed balance w.r.t. E - lambda rests on *)
  Lemma foerster_phase_relaxed_gap (two ed ea ld la : R) : two = 1 + 1 ->
    foerster_phase two ed ea ld = ((ed - ld) - (ea - la)) - (ld + la) /\
    foerster_phase two ea ed la = 0 - ((ed - ld) - (ea - la)) - (ld + la).
  Proof. intros ->. unfold foerster_phase. split; ring. Qed.
End FoersterRoles.

Local Open Scope Q_scope.

(* ---------- temperature selection ---------- *)
Lemma ft_temp_from_arg t ps : ft_temp_from (Some t) t ps = FtOk t.
Proof.
  induction ps as [|p ps IH]; cbn [ft_temp_from ft_prm_T]; [reflexivity|].
  assert (H : Qeq_bool t t = true) by (apply Qeq_bool_iff; reflexivity). now rewrite H.
Qed.

(* a temperature given by the caller is the one that is used, whatever the components store *)
Lemma ft_temperature_argument_wins t p ps : ft_temperature (Some t) (p :: ps) = FtOk t.
Proof. cbn [ft_temperature ft_prm_T]. apply ft_temp_from_arg. Qed.

Lemma ft_temp_from_stored temp ps t : ft_temp_from None temp ps = FtOk t ->
  t = temp /\ forall p, In p ps -> exists t', p = Some t' /\ t' == t.
Proof.
  induction ps as [|p ps IH]; cbn [ft_temp_from ft_prm_T]; intros H.
  - injection H as <-. split; [reflexivity|]. intros p [].
  - destruct p as [tp|]; [|discriminate]. destruct (Qeq_bool temp tp) eqn:E; [|discriminate].
    destruct (IH H) as [-> Hall]. split; [reflexivity|]. intros p [<-|Hin].
    + exists tp. split; [reflexivity|]. apply Qeq_bool_iff in E. symmetry. exact E.
    + now apply Hall.
Qed.

(* without the argument the result is the common stored temperature of all components *)
Lemma ft_temperature_stored ps t : ft_temperature None ps = FtOk t ->
  forall p, In p ps -> exists t', p = Some t' /\ t' == t.
Proof.
  destruct ps as [|p ps]; cbn [ft_temperature ft_prm_T]; [discriminate|]. destruct p as [tp|]; [|discriminate].
  intros H. destruct (ft_temp_from_stored tp ps t H) as [-> Hall]. intros p [<-|Hin].
  - exists tp. split; reflexivity.
  - now apply Hall.
Qed.

(* ---------- values on the grid ---------- *)
(* the argument of tanh is half of w/kT *)
Lemma ftcf_argument_is_half kB T w : ~ kB * T == 0 -> 2 * (w / ftcf_twokbt kB T) == w / (kB * T).
Proof. intros H. unfold ftcf_twokbt. field. repeat split; try lra; intros H0; apply H; rewrite H0; ring. Qed.

(* detailed balance at a pair of mirror points of the grid: e stands for exp(-2x), x = w/twokbt, i.e. for exp(-w/kT) *)
Lemma ftcf_point_detailed_balance (th : Q -> Q) twokbt w J e : ~ e == 1 -> ~ e == - (1) ->
  th (w / twokbt) == (1 - e) / (1 + e) -> th (- w / twokbt) == - th (w / twokbt) ->
  ftcf_point th twokbt (- w) (- J) == e * ftcf_point th twokbt w J.
Proof.
  intros H1 H2 Hth Hodd. unfold ftcf_point, ftcf_value. rewrite Hodd, Hth. field. split; lra.
Qed.

(* the same for two points i, i' of the grid that are mirror images, neither being the zero point *)
Lemma ftcf_grid_detailed_balance (th : Q -> Q) twokbt step i0 direct omega data i i' e : ~ e == 1 -> ~ e == - (1) ->
  i <> i0 -> i' <> i0 -> omega i' = - omega i -> data i' == - data i ->
  th (omega i / twokbt) == (1 - e) / (1 + e) -> th (- omega i / twokbt) == - th (omega i / twokbt) ->
  ftcf_grid th twokbt step i0 direct omega data i' == e * ftcf_grid th twokbt step i0 direct omega data i.
Proof.
  intros H1 H2 Hi Hi' Hw HJ Hth Hodd. unfold ftcf_grid.
  apply Nat.eqb_neq in Hi. apply Nat.eqb_neq in Hi'. rewrite Hi, Hi', Hw.
  assert (E : ftcf_point th twokbt (- omega i) (data i') == ftcf_point th twokbt (- omega i) (- data i)).
  { unfold ftcf_point, ftcf_value. rewrite HJ. reflexivity. }
  destruct direct; rewrite E; now apply ftcf_point_detailed_balance.
Qed.

(* at the zero point an odd spectral density gives the symmetric-difference limit 2kT J'(0) *)
Lemma ftcf_grid_zero_point (th : Q -> Q) twokbt step i0 omega data : ~ step == 0 -> data (pred i0) == - data (S i0) ->
  ftcf_grid th twokbt step i0 false omega data i0 == twokbt * data (S i0) / step.
Proof. intros Hs Hodd. unfold ftcf_grid. rewrite Nat.eqb_refl. now apply ftcf_zero_symmetric. Qed.
