From Coq Require Import List Bool Arith Lia.
From QV Require Import Base.Group Model.C04.
Import ListNotations.

Section Proofs.
  Variables G X : Type.
  Variable gid : G.
  Variable gmul : G -> G -> G.
  Variable ginv : G -> G.
  Variable act : G -> X -> X.
  Variable app : X -> X -> X.
  Hypothesis gmul_assoc : forall a b c, gmul a (gmul b c) = gmul (gmul a b) c.
  Hypothesis gid_l : forall a, gmul gid a = a.
  Hypothesis gid_r : forall a, gmul a gid = a.
  Hypothesis ginv_r : forall a, gmul a (ginv a) = gid.
  Hypothesis ginv_l : forall a, gmul (ginv a) a = gid.
  Hypothesis act_id : forall x, act gid x = x.
  Hypothesis act_mul : forall g h x, act (gmul g h) x = act h (act g x).

  Notation mst := (mst G X).
  Notation obj := (obj X).
  Notation depth := (depth G X).
  Notation heap := (heap G X).
  Notation trans := (trans G X).
  Notation reg := (reg G X).
  Notation tag := (tag X).
  Notation dat := (dat X).
  Notation prot := (prot X).

  (* ---------- products of transformations ---------- *)
  Definition Pr (ts : list G) : G := fold_right (fun t acc => gmul acc t) gid ts.
  Definition prefix (ts : list G) (j : nat) : list G := skipn (length ts - j) ts.

  Lemma fold_acc acc l : fold_right (fun t a => gmul a t) acc l = gmul acc (Pr l).
  Proof.
    unfold Pr. induction l as [|t l IH]; cbn [fold_right]; [now rewrite gid_r|]. now rewrite IH, gmul_assoc.
  Qed.

  Lemma Pr_app a b : Pr (a ++ b) = gmul (Pr b) (Pr a).
  Proof. unfold Pr at 1. rewrite fold_right_app. fold (Pr b). apply fold_acc. Qed.

  Lemma path_split ts from : from <= length ts -> Pr ts = gmul (Pr (prefix ts from)) (path G gid gmul ts from).
  Proof.
    intros H. unfold prefix, path. fold (Pr (firstn (length ts - from) ts)).
    rewrite <- Pr_app. now rewrite firstn_skipn.
  Qed.

  Lemma prefix_full ts : prefix ts (length ts) = ts.
  Proof. unfold prefix. now rewrite Nat.sub_diag. Qed.

  Lemma prefix_cons T ts j : j <= length ts -> prefix (T :: ts) j = prefix ts j.
  Proof.
    intros H. unfold prefix. cbn [length]. replace (S (length ts) - j) with (S (length ts - j)) by lia. reflexivity.
  Qed.

  (* the representation of an object in the basis outside all contexts *)
  Definition site (ts : list G) (o : obj) : X := act (ginv (Pr (prefix ts (tag o)))) (dat o).

  Lemma site_cons T ts o : tag o <= length ts -> site (T :: ts) o = site ts o.
  Proof. intros H. unfold site. now rewrite prefix_cons. Qed.

  (* transforming from the object's basis to the innermost one does not change the site value *)
  Lemma site_to_current ts o : tag o <= length ts ->
    site ts (mkObj X (length ts) (prot o) (act (path G gid gmul ts (tag o)) (dat o))) = site ts o.
  Proof.
    intros H. unfold site. cbn [C04.tag C04.dat]. rewrite prefix_full.
    rewrite (path_split ts (tag o) H).
    apply (act_back G X gid gmul ginv act gmul_assoc gid_l gid_r ginv_r ginv_l act_id act_mul).
  Qed.

  (* leaving the innermost context (T) does not change it either *)
  Lemma site_exit T ts o : tag o = S (length ts) ->
    site ts (mkObj X (length ts) (prot o) (act (ginv T) (dat o))) = site (T :: ts) o.
  Proof.
    intros H. unfold site. cbn [C04.tag C04.dat]. rewrite H, prefix_full.
    replace (prefix (T :: ts) (S (length ts))) with (T :: ts) by (symmetry; apply (prefix_full (T :: ts))).
    change (Pr (T :: ts)) with (gmul (Pr ts) T).
    rewrite (ginv_mul G gid gmul ginv gmul_assoc gid_l gid_r ginv_r ginv_l), act_mul. reflexivity.
  Qed.

  (* ---------- registration lists ---------- *)
  Lemma reg_at_cons l r L : reg_at (l :: r) L = if Nat.eqb (S (length r)) L then l else reg_at r L.
  Proof. reflexivity. Qed.

  Lemma reg_at_big r L : length r < L -> reg_at r L = [].
  Proof.
    induction r as [|l r IH]; intros H; [reflexivity|]. rewrite reg_at_cons. cbn [length] in H.
    destruct (Nat.eqb_spec (S (length r)) L); [lia|]. apply IH. lia.
  Qed.

  Lemma reg_at_zero r : reg_at r 0 = [].
  Proof. induction r as [|l r IH]; [reflexivity|]. rewrite reg_at_cons. cbn. exact IH. Qed.

  Lemma reg_add_length r L i : length (reg_add r L i) = length r.
  Proof.
    induction r as [|l r IH]; [reflexivity|]. cbn [reg_add]. destruct (Nat.eqb (length (l :: r)) L); cbn [length]; auto.
  Qed.

  Lemma reg_at_add r L i L' : 1 <= L <= length r ->
    reg_at (reg_add r L i) L' = if Nat.eqb L' L then reg_at r L ++ [i] else reg_at r L'.
  Proof.
    revert L'. induction r as [|l r IH]; intros L' HL; cbn [length] in HL; [lia|].
    cbn [reg_add]. cbn [length]. destruct (Nat.eqb_spec (S (length r)) L) as [E|E].
    - rewrite !reg_at_cons. destruct (Nat.eqb_spec L' L) as [E2|N].
      + rewrite E2, E, Nat.eqb_refl. reflexivity.
      + destruct (Nat.eqb_spec (S (length r)) L'); [lia|reflexivity].
    - rewrite !reg_at_cons, reg_add_length. rewrite IH by lia.
      destruct (Nat.eqb_spec (S (length r)) L') as [E'|E']; destruct (Nat.eqb_spec L' L) as [E2|N]; try reflexivity; try lia.
      destruct (Nat.eqb_spec (S (length r)) L); [lia|reflexivity].
  Qed.

  Lemma reg_at_filter f r L : reg_at (map (filter f) r) L = filter f (reg_at r L).
  Proof.
    induction r as [|l r IH]; [reflexivity|]. cbn [map]. rewrite !reg_at_cons, map_length.
    destruct (Nat.eqb (S (length r)) L); [reflexivity|exact IH].
  Qed.

  Lemma NoDup_app_intro {A} (l m : list A) : NoDup l -> NoDup m -> (forall x, In x l -> In x m -> False) -> NoDup (l ++ m).
  Proof.
    intros Hl Hm Hd. induction l as [|a l IH]; [exact Hm|]. change ((a :: l) ++ m) with (a :: (l ++ m)). inversion Hl as [|? ? Ha Hl']; subst.
    constructor.
    - rewrite in_app_iff. intros [H|H]; [contradiction|]. apply (Hd a); [now left|exact H].
    - apply IH; [exact Hl'|]. intros x Hx. apply Hd. now right.
  Qed.

  (* ---------- the invariant of reachable states ---------- *)
  Record Inv (s : mst) : Prop := mkInv {
    I_len : length (reg s) = length (trans s);
    I_tag : forall i o, heap s i = Some o -> tag o <= depth s;
    I_reg : forall i o, heap s i = Some o -> 1 <= tag o -> In i (reg_at (reg s) (tag o));
    I_own : forall L i, In i (reg_at (reg s) L) -> exists o, heap s i = Some o /\ L <= tag o;
    I_nodup : forall L, NoDup (reg_at (reg s) L)
  }.

  Lemma Inv_fresh : Inv (mkM G X [] [] (fun _ => None)).
  Proof. constructor; cbn; try discriminate; try tauto; intros; constructor. Qed.

  (* what every operation guarantees about the objects it does not overwrite *)
  Definition keeps (s s' : mst) : Prop :=
    forall j o, heap s j = Some o -> exists o', heap s' j = Some o' /\ prot o' = prot o /\
      (prot o = false -> site (trans s') o' = site (trans s) o).

  Lemma keeps_refl s : keeps s s.
  Proof. intros j o H. exists o. auto. Qed.
  Lemma keeps_trans s1 s2 s3 : keeps s1 s2 -> keeps s2 s3 -> keeps s1 s3.
  Proof.
    intros H12 H23 j o H. destruct (H12 j o H) as [o2 [H2 [P2 S2]]]. destruct (H23 j o2 H2) as [o3 [H3 [P3 S3]]].
    exists o3. split; [exact H3|]. split; [congruence|]. intros Hp. rewrite S3, S2; auto. congruence.
  Qed.

  (* ---------- transform_to_current_basis ---------- *)
  Lemma to_current_spec s i s' : Inv s -> to_current G X gid gmul act s i = Some s' ->
    Inv s' /\ trans s' = trans s /\ keeps s s' /\
    (forall o, heap s i = Some o -> prot o = false -> exists o', heap s' i = Some o' /\ tag o' = depth s) /\
    (forall j, heap s j = None -> heap s' j = None).
  Proof.
    intros HI. unfold to_current. destruct (heap s i) as [o|] eqn:Ho.
    2:{ intros [= <-]. split; [exact HI|split; [reflexivity|split; [apply keeps_refl|split; [intros o H; congruence|auto]]]]. }
    destruct (prot o) eqn:Hp.
    { intros [= <-]. split; [exact HI|split; [reflexivity|split; [apply keeps_refl|split; [intros o0 H Hq; congruence|auto]]]]. }
    destruct (Nat.eqb_spec (tag o) (depth s)) as [Et|Et].
    { intros [= <-]. split; [exact HI|split; [reflexivity|split; [apply keeps_refl|split; [intros o0 H _; exists o; split; congruence|auto]]]]. }
    destruct (Nat.leb_spec (tag o) (depth s)) as [Hle|Hgt]; [|discriminate].
    intros [= <-].
    set (o' := mkObj X (depth s) false (act (path G gid gmul (trans s) (tag o)) (dat o))).
    assert (1 <= depth s <= length (reg s)) as Hd by (rewrite (I_len s HI); unfold C04.depth in *; lia).
    assert (forall j, heap (register G X (set_obj G X s i o') (depth s) i) j = if Nat.eqb j i then Some o' else heap s j) as Hh by reflexivity.
    assert (forall L, reg_at (reg (register G X (set_obj G X s i o') (depth s) i)) L =
                      if Nat.eqb L (depth s) then reg_at (reg s) (depth s) ++ [i] else reg_at (reg s) L) as Hr
      by (intros L; cbn [C04.reg register set_obj]; now apply reg_at_add).
    assert (~ In i (reg_at (reg s) (depth s))) as Hni.
    { intros Hin. destruct (I_own s HI _ _ Hin) as [o1 [H1 H2]]. rewrite Ho in H1. injection H1 as <-. lia. }
    split; [|split; [reflexivity|split; [|split]]].
    - constructor.
      + cbn [C04.reg C04.trans register set_obj]. rewrite reg_add_length. apply (I_len s HI).
      + intros j oj. rewrite Hh. destruct (Nat.eqb_spec j i) as [->|Nj].
        * intros [= <-]. cbn. unfold C04.depth. cbn. lia.
        * intros H. apply (I_tag s HI j oj H).
      + intros j oj. rewrite Hh, Hr. destruct (Nat.eqb_spec j i) as [->|Nj].
        * intros [= <-] _. cbn [C04.tag o']. rewrite Nat.eqb_refl. apply in_or_app. right. now left.
        * intros H H1. pose proof (I_reg s HI j oj H H1) as Hin.
          destruct (Nat.eqb_spec (tag oj) (depth s)) as [E|E]; [rewrite E in Hin; apply in_or_app; now left|exact Hin].
      + intros L j. rewrite Hr, Hh. destruct (Nat.eqb_spec L (depth s)) as [->|NL].
        * intros Hin. apply in_app_or in Hin. destruct Hin as [Hin|[<-|[]]].
          -- destruct (Nat.eqb_spec j i) as [->|Nj]; [contradiction|]. exact (I_own s HI _ _ Hin).
          -- rewrite Nat.eqb_refl. exists o'. split; [reflexivity|cbn; lia].
        * intros Hin. destruct (I_own s HI _ _ Hin) as [oj [H1 H2]].
          destruct (Nat.eqb_spec j i) as [->|Nj]; [|exists oj; auto].
          exists o'. split; [reflexivity|]. rewrite Ho in H1. injection H1 as <-. cbn. lia.
      + intros L. rewrite Hr. destruct (Nat.eqb_spec L (depth s)) as [->|NL]; [|apply (I_nodup s HI)].
        apply NoDup_app_intro; [apply (I_nodup s HI)|constructor; [intros []|constructor]|].
        intros x Hx [<-|[]]. contradiction.
    - intros j oj H. rewrite Hh. destruct (Nat.eqb_spec j i) as [->|Nj].
      + rewrite Ho in H. injection H as <-. exists o'. split; [reflexivity|]. split; [cbn; congruence|]. intros _.
        unfold o'. rewrite <- Hp. apply site_to_current. exact Hle.
      + exists oj. auto.
    - intros o0 H _. rewrite Hh, Nat.eqb_refl. exists o'. split; reflexivity.
    - intros j H. rewrite Hh. destruct (Nat.eqb_spec j i) as [->|Nj]; [congruence|exact H].
  Qed.

  Definition keeps_except (i : nat) (s s' : mst) : Prop :=
    forall j o, j <> i -> heap s j = Some o -> exists o', heap s' j = Some o' /\ prot o' = prot o /\
      (prot o = false -> site (trans s') o' = site (trans s) o).

  Lemma keeps_weaken i s s' : keeps s s' -> keeps_except i s s'.
  Proof. intros H j o _. apply H. Qed.
  Lemma keeps_except_trans i s1 s2 s3 : keeps_except i s1 s2 -> keeps_except i s2 s3 -> keeps_except i s1 s3.
  Proof.
    intros H12 H23 j o Hj H. destruct (H12 j o Hj H) as [o2 [H2 [P2 S2]]]. destruct (H23 j o2 Hj H2) as [o3 [H3 [P3 S3]]].
    exists o3. split; [exact H3|]. split; [congruence|]. intros Hp. rewrite S3, S2; auto. congruence.
  Qed.

  (* changing data or protection of one object keeps the invariant *)
  Lemma Inv_set_same s i o o' : Inv s -> heap s i = Some o -> tag o' = tag o -> Inv (set_obj G X s i o').
  Proof.
    intros HI Ho Ht.
    assert (forall j, heap (set_obj G X s i o') j = if Nat.eqb j i then Some o' else heap s j) as Hh by reflexivity.
    constructor.
    - apply (I_len s HI).
    - intros j oj. rewrite Hh. destruct (Nat.eqb_spec j i) as [->|N]; [intros [= <-]; rewrite Ht; apply (I_tag s HI i o Ho)|apply (I_tag s HI)].
    - intros j oj. rewrite Hh. destruct (Nat.eqb_spec j i) as [->|N]; [intros [= <-]; rewrite Ht; apply (I_reg s HI i o Ho)|apply (I_reg s HI)].
    - intros L j Hin. destruct (I_own s HI L j Hin) as [oj [H1 H2]]. rewrite Hh.
      destruct (Nat.eqb_spec j i) as [->|N]; [|exists oj; auto]. exists o'. split; [reflexivity|]. rewrite Ho in H1. injection H1 as <-. lia.
    - apply (I_nodup s HI).
  Qed.

  Lemma write_spec s i x s' : Inv s -> write G X gid gmul act s i x = Some s' ->
    Inv s' /\ trans s' = trans s /\ keeps_except i s s' /\ (forall j, heap s j = None -> heap s' j = None).
  Proof.
    intros HI. unfold write. destruct (to_current G X gid gmul act s i) as [s1|] eqn:E; [|discriminate].
    destruct (to_current_spec s i s1 HI E) as [HI1 [Ht1 [K1 [_ N1]]]].
    destruct (heap s1 i) as [o|] eqn:Ho; intros [= <-].
    - split; [apply (Inv_set_same s1 i o (mkObj X (tag o) (prot o) x) HI1 Ho eq_refl)|]. split; [exact Ht1|]. split.
      + intros j oj Hj H. destruct (K1 j oj H) as [o1 [H1 [P1 S1]]]. exists o1. split; [|split; assumption].
        cbn [C04.heap set_obj]. destruct (Nat.eqb_spec j i); [contradiction|exact H1].
      + intros j H. cbn [C04.heap set_obj]. destruct (Nat.eqb_spec j i) as [->|]; [rewrite (N1 i H) in Ho; discriminate|apply N1; exact H].
    - split; [exact HI1|]. split; [exact Ht1|]. split; [apply keeps_weaken; exact K1|exact N1].
  Qed.

  Lemma set_prot_spec s i b : Inv s -> Inv (set_prot G X s i b) /\ trans (set_prot G X s i b) = trans s /\
    keeps_except i s (set_prot G X s i b).
  Proof.
    intros HI. unfold set_prot. destruct (heap s i) as [o|] eqn:Ho.
    - split; [apply (Inv_set_same s i o (mkObj X (tag o) b (dat o)) HI Ho eq_refl)|]. split; [reflexivity|].
      intros j oj Hj H. exists oj. cbn [C04.heap set_obj]. destruct (Nat.eqb_spec j i); [contradiction|]. auto.
    - split; [exact HI|]. split; [reflexivity|apply keeps_weaken, keeps_refl].
  Qed.

  (* ---------- a new object ---------- *)
  Lemma Inv_set_new s i o : Inv s -> tag o <= depth s ->
    let s1 := set_new G X s i o in
    length (reg s1) = length (trans s1) /\
    (forall j, heap s1 j = if Nat.eqb j i then Some o else heap s j) /\
    (forall L, reg_at (reg s1) L = filter (fun j => negb (Nat.eqb j i)) (reg_at (reg s) L)).
  Proof.
    intros HI Ht. cbv zeta. split; [cbn [C04.reg C04.trans set_new]; rewrite map_length; apply (I_len s HI)|].
    split; [reflexivity|]. intros L. cbn [C04.reg set_new]. apply reg_at_filter.
  Qed.

  Lemma in_filter_ne i j l : In j (filter (fun k => negb (Nat.eqb k i)) l) <-> (In j l /\ j <> i).
  Proof.
    rewrite filter_In. split; intros [H1 H2]; split; auto.
    - destruct (Nat.eqb_spec j i); [discriminate|assumption].
    - destruct (Nat.eqb_spec j i); [contradiction|reflexivity].
  Qed.

  (* registering a fresh label at the level of its tag *)
  Lemma Inv_new_registered s i o (regd : bool) : Inv s -> tag o <= depth s -> (regd = false -> tag o = 0) ->
    let s1 := set_new G X s i o in
    let s2 := if regd then (if Nat.eqb (tag o) 0 then s1 else register G X s1 (tag o) i) else s1 in
    Inv s2 /\ trans s2 = trans s /\ keeps_except i s s2 /\ heap s2 i = Some o /\
    (forall j, j <> i -> heap s2 j = heap s j).
  Proof.
    intros HI Ht Hz. cbv zeta. destruct (Inv_set_new s i o HI Ht) as [L1 [H1 R1]].
    set (s1 := set_new G X s i o) in *.
    assert (forall L, NoDup (reg_at (reg s1) L)) as ND1 by (intros L; rewrite R1; apply NoDup_filter, (I_nodup s HI)).
    assert (forall L j, In j (reg_at (reg s1) L) -> exists oj, heap s1 j = Some oj /\ L <= tag oj) as OW1.
    { intros L j. rewrite R1, in_filter_ne, H1. intros [Hin Hne]. destruct (Nat.eqb_spec j i); [contradiction|]. apply (I_own s HI _ _ Hin). }
    assert (forall j oj, j <> i -> heap s1 j = Some oj -> 1 <= tag oj -> In j (reg_at (reg s1) (tag oj))) as RG1.
    { intros j oj Hne. rewrite H1, R1, in_filter_ne. destruct (Nat.eqb_spec j i); [contradiction|]. intros H Hp. split; [apply (I_reg s HI j oj H Hp)|exact Hne]. }
    assert (keeps_except i s s1) as K1.
    { intros j oj Hne H. exists oj. rewrite H1. destruct (Nat.eqb_spec j i); [contradiction|]. auto. }
    assert (tag o = 0 -> Inv s1) as Z1.
    { intros Hz0. constructor; auto.
      - intros j oj. rewrite H1. destruct (Nat.eqb_spec j i) as [->|N]; [intros [= <-]; exact Ht|apply (I_tag s HI)].
      - intros j oj Hh Hp. destruct (Nat.eqb_spec j i) as [->|N]; [|now apply RG1].
        rewrite H1, Nat.eqb_refl in Hh. injection Hh as <-. lia. }
    destruct regd; [destruct (Nat.eqb_spec (tag o) 0) as [E0|E0]|].
    - split; [now apply Z1|]. split; [reflexivity|]. split; [exact K1|]. split; [rewrite H1; now rewrite Nat.eqb_refl|].
      intros j Hne. rewrite H1. destruct (Nat.eqb_spec j i); [contradiction|reflexivity].
    - assert (1 <= tag o <= length (reg s1)) as Hd by (rewrite L1; unfold C04.depth in Ht; cbn [C04.trans set_new s1]; lia).
      assert (forall L, reg_at (reg (register G X s1 (tag o) i)) L = if Nat.eqb L (tag o) then reg_at (reg s1) (tag o) ++ [i] else reg_at (reg s1) L) as R2
        by (intros L; cbn [C04.reg register]; now apply reg_at_add).
      assert (~ In i (reg_at (reg s1) (tag o))) as Hni by (rewrite R1, in_filter_ne; tauto).
      split; [|split; [reflexivity|split; [exact K1|split]]].
      + constructor.
        * cbn [C04.reg C04.trans register]. rewrite reg_add_length. exact L1.
        * intros j oj. change (heap (register G X s1 (tag o) i) j) with (heap s1 j). rewrite H1.
          destruct (Nat.eqb_spec j i) as [->|N]; [intros [= <-]; exact Ht|apply (I_tag s HI)].
        * intros j oj. change (heap (register G X s1 (tag o) i) j) with (heap s1 j). rewrite R2. intros Hh Hp.
          destruct (Nat.eqb_spec j i) as [->|N].
          -- rewrite H1, Nat.eqb_refl in Hh. injection Hh as <-. rewrite Nat.eqb_refl. apply in_or_app. right. now left.
          -- pose proof (RG1 j oj N Hh Hp) as Hin. destruct (Nat.eqb_spec (tag oj) (tag o)) as [E|E]; [rewrite E in Hin; apply in_or_app; now left|exact Hin].
        * intros L j. rewrite R2. change (heap (register G X s1 (tag o) i) j) with (heap s1 j).
          destruct (Nat.eqb_spec L (tag o)) as [->|NL]; [|apply OW1].
          intros Hin. apply in_app_or in Hin. destruct Hin as [Hin|[<-|[]]]; [now apply OW1|].
          exists o. rewrite H1, Nat.eqb_refl. split; [reflexivity|lia].
        * intros L. rewrite R2. destruct (Nat.eqb_spec L (tag o)) as [->|NL]; [|apply ND1].
          apply NoDup_app_intro; [apply ND1|constructor; [intros []|constructor]|]. intros x Hx [<-|[]]. contradiction.
      + change (heap (register G X s1 (tag o) i) i) with (heap s1 i). rewrite H1. now rewrite Nat.eqb_refl.
      + intros j Hne. change (heap (register G X s1 (tag o) i) j) with (heap s1 j). rewrite H1. destruct (Nat.eqb_spec j i); [contradiction|reflexivity].
    - split; [apply Z1; now apply Hz|]. split; [reflexivity|]. split; [exact K1|]. split; [rewrite H1; now rewrite Nat.eqb_refl|].
      intros j Hne. rewrite H1. destruct (Nat.eqb_spec j i); [contradiction|reflexivity].
  Qed.

  Lemma reg_at_in_range r L j : In j (reg_at r L) -> 1 <= L <= length r.
  Proof.
    intros H. destruct (Nat.le_gt_cases L (length r)) as [Hle|Hgt]; [|rewrite reg_at_big in H by exact Hgt; destruct H].
    destruct L; [rewrite reg_at_zero in H; destruct H|lia].
  Qed.

  (* ---------- entering a context ---------- *)
  Lemma enter_spec s T : Inv s -> Inv (enter G X s T) /\ keeps s (enter G X s T) /\
    (forall j, heap (enter G X s T) j = heap s j).
  Proof.
    intros HI.
    assert (forall L, reg_at (reg (enter G X s T)) L = if Nat.eqb (S (length (reg s))) L then [] else reg_at (reg s) L) as Hr by reflexivity.
    split; [|split; [|reflexivity]].
    - constructor.
      + cbn [C04.reg C04.trans enter length]. f_equal. apply (I_len s HI).
      + intros j o H. pose proof (I_tag s HI j o H). unfold C04.depth in *. cbn [C04.trans enter length]. lia.
      + intros j o H H1. rewrite Hr. pose proof (I_tag s HI j o H) as Ht. unfold C04.depth in Ht. rewrite <- (I_len s HI) in Ht.
        destruct (Nat.eqb_spec (S (length (reg s))) (tag o)); [lia|]. apply (I_reg s HI j o H H1).
      + intros L j. rewrite Hr. destruct (Nat.eqb_spec (S (length (reg s))) L); [intros []|]. apply (I_own s HI).
      + intros L. rewrite Hr. destruct (Nat.eqb_spec (S (length (reg s))) L); [constructor|apply (I_nodup s HI)].
    - intros j o H. exists o. split; [exact H|]. split; [reflexivity|]. intros _. cbn [C04.trans enter].
      apply site_cons. apply (I_tag s HI j o H).
  Qed.

  (* ---------- leaving a context ---------- *)
  Section Leave.
    Variable T : G.
    Variable nb : nat.

    Definition left_obj (o : obj) : obj := mkObj X nb (prot o) (if prot o then dat o else act (ginv T) (dat o)).

    Record Pre (u : mst) (l : list nat) : Prop := mkPre {
      A_len : length (reg u) = nb;
      A_trans : length (trans u) = nb;
      A_nd : NoDup l;
      A_todo : forall j, In j l -> exists o, heap u j = Some o /\ tag o = S nb;
      A_tag : forall j o, heap u j = Some o -> ~ In j l -> tag o <= nb;
      A_reg : forall j o, heap u j = Some o -> ~ In j l -> 1 <= tag o -> In j (reg_at (reg u) (tag o));
      A_own : forall L j, In j (reg_at (reg u) L) -> exists o, heap u j = Some o /\ L <= tag o;
      A_nodup : forall L, NoDup (reg_at (reg u) L)
    }.

    Lemma exit_one_spec u i l : Pre u (i :: l) ->
      exists o, heap u i = Some o /\ tag o = S nb /\
        let u1 := exit_one G X ginv act T nb u i in
        Pre u1 l /\ trans u1 = trans u /\ heap u1 i = Some (left_obj o) /\ (forall j, j <> i -> heap u1 j = heap u j).
    Proof.
      intros HP. destruct (A_todo u _ HP i (or_introl eq_refl)) as [o [Ho Ht]]. exists o. split; [exact Ho|]. split; [exact Ht|].
      cbv zeta. unfold exit_one. rewrite Ho. fold (left_obj o).
      set (u0 := set_obj G X u i (left_obj o)).
      assert (forall j, heap u0 j = if Nat.eqb j i then Some (left_obj o) else heap u j) as Hh by reflexivity.
      pose proof (A_nd u _ HP) as Hnd0. inversion Hnd0 as [|? ? Hni Hnd]; subst.
      (* properties shared by both registration outcomes *)
      assert (forall (u1 : mst), (forall j, heap u1 j = heap u0 j) -> trans u1 = trans u -> length (reg u1) = nb ->
                (forall L, NoDup (reg_at (reg u1) L)) ->
                (forall L j, In j (reg_at (reg u1) L) -> (In j (reg_at (reg u) L) \/ (j = i /\ L = nb))) ->
                (forall L j, In j (reg_at (reg u) L) -> In j (reg_at (reg u1) L)) ->
                (1 <= nb -> In i (reg_at (reg u1) nb)) ->
                Pre u1 l /\ trans u1 = trans u /\ heap u1 i = Some (left_obj o) /\ (forall j, j <> i -> heap u1 j = heap u j)) as Common.
      { intros u1 Hu1 Htr Hlen Hnd1 Hsub Hsup Hreg.
        split; [|split; [exact Htr|split; [rewrite Hu1, Hh; now rewrite Nat.eqb_refl|]]].
        - constructor; auto.
          + rewrite Htr. apply (A_trans u _ HP).
          + intros j Hj. rewrite Hu1, Hh. destruct (Nat.eqb_spec j i) as [->|N]; [contradiction|]. apply (A_todo u _ HP). now right.
          + intros j oj. rewrite Hu1, Hh. destruct (Nat.eqb_spec j i) as [->|N].
            * intros [= <-] _. cbn. lia.
            * intros H Hn. apply (A_tag u _ HP j oj H). intros [E|E]; [congruence|contradiction].
          + intros j oj. rewrite Hu1, Hh. destruct (Nat.eqb_spec j i) as [->|N].
            * intros [= <-] _ H1. cbn [C04.tag left_obj] in *. now apply Hreg.
            * intros H Hn H1. apply Hsup. apply (A_reg u _ HP j oj H); [intros [E|E]; [congruence|contradiction]|exact H1].
          + intros L j Hin. rewrite Hu1, Hh. destruct (Hsub L j Hin) as [Hold|[-> ->]].
            * destruct (A_own u _ HP L j Hold) as [oj [H1 H2]]. destruct (Nat.eqb_spec j i) as [->|N]; [|exists oj; auto].
              exists (left_obj o). split; [reflexivity|]. cbn. pose proof (reg_at_in_range _ _ _ Hold). rewrite (A_len u _ HP) in *. lia.
            * rewrite Nat.eqb_refl. exists (left_obj o). split; [reflexivity|cbn; lia].
        - intros j N. rewrite Hu1, Hh. destruct (Nat.eqb_spec j i); [contradiction|reflexivity]. }
      destruct (Nat.eqb_spec nb 0) as [E0|E0].
      - apply (Common u0); auto; try (intros; reflexivity).
        + apply (A_len u _ HP).
        + apply (A_nodup u _ HP).
        + intros; lia.
      - destruct (existsb (Nat.eqb i) (reg_at (reg u0) nb)) eqn:Ex.
        + apply (Common u0); auto; try (intros; reflexivity).
          * apply (A_len u _ HP).
          * apply (A_nodup u _ HP).
          * intros _. apply existsb_exists in Ex. destruct Ex as [x [Hx Hxe]]. apply Nat.eqb_eq in Hxe. subst x. exact Hx.
        + assert (~ In i (reg_at (reg u) nb)) as Hnotin.
          { intros Hin. assert (existsb (Nat.eqb i) (reg_at (reg u0) nb) = true); [|congruence].
            apply existsb_exists. exists i. split; [exact Hin|apply Nat.eqb_refl]. }
          assert (1 <= nb <= length (reg u0)) as Hd by (change (reg u0) with (reg u); rewrite (A_len u _ HP); lia).
          assert (forall L, reg_at (reg (register G X u0 nb i)) L = if Nat.eqb L nb then reg_at (reg u) nb ++ [i] else reg_at (reg u) L) as R2
            by (intros L; cbn [C04.reg register]; now apply reg_at_add).
          apply (Common (register G X u0 nb i)); auto.
          * cbn [C04.reg register]. rewrite reg_add_length. apply (A_len u _ HP).
          * intros L. rewrite R2. destruct (Nat.eqb_spec L nb) as [->|NL]; [|apply (A_nodup u _ HP)].
            apply NoDup_app_intro; [apply (A_nodup u _ HP)|constructor; [intros []|constructor]|]. intros x Hx [<-|[]]. contradiction.
          * intros L j. rewrite R2. destruct (Nat.eqb_spec L nb) as [->|NL]; [|now left].
            intros Hin. apply in_app_or in Hin. destruct Hin as [Hin|[<-|[]]]; [now left|right; auto].
          * intros L j Hin. rewrite R2. destruct (Nat.eqb_spec L nb) as [->|NL]; [apply in_or_app; now left|exact Hin].
          * intros _. rewrite R2, Nat.eqb_refl. apply in_or_app. right. now left.
    Qed.

    Lemma leave_fold l : forall u, Pre u l ->
      let u' := fold_left (exit_one G X ginv act T nb) l u in
      Pre u' [] /\ trans u' = trans u /\
      (forall j, In j l -> exists o, heap u j = Some o /\ tag o = S nb /\ heap u' j = Some (left_obj o)) /\
      (forall j, ~ In j l -> heap u' j = heap u j).
    Proof.
      induction l as [|i l IH]; intros u HP; cbn [fold_left].
      - split; [exact HP|]. split; [reflexivity|]. split; [intros j []|reflexivity].
      - destruct (exit_one_spec u i l HP) as [o [Ho [Ht [HP1 [Htr1 [Hi1 Hoth1]]]]]].
        set (u1 := exit_one G X ginv act T nb u i) in *.
        destruct (IH u1 HP1) as [HP' [Htr' [Hin' Hout']]].
        pose proof (A_nd u _ HP) as Hnd0. inversion Hnd0 as [|? ? Hni Hnd]; subst.
        split; [exact HP'|]. split; [congruence|]. split.
        + intros j [<-|Hj].
          * exists o. split; [exact Ho|]. split; [exact Ht|]. rewrite (Hout' i Hni). exact Hi1.
          * destruct (Hin' j Hj) as [oj [H1 [H2 H3]]]. exists oj. rewrite <- (Hoth1 j) by (intros ->; contradiction). auto.
        + intros j Hn. rewrite Hout' by (intros H; apply Hn; now right). apply Hoth1. intros ->. apply Hn. now left.
    Qed.
  End Leave.

  Lemma leave_spec s T ts : Inv s -> trans s = T :: ts ->
    Inv (leave G X ginv act s) /\ trans (leave G X ginv act s) = ts /\
    (forall j o, heap s j = Some o -> exists o', heap (leave G X ginv act s) j = Some o' /\ prot o' = prot o /\
       (prot o = false -> site ts o' = site (T :: ts) o)) /\
    (forall j, heap s j = None -> heap (leave G X ginv act s) j = None).
  Proof.
    intros HI Ht. pose proof (I_len s HI) as Hlen. rewrite Ht in Hlen.
    destruct (reg s) as [|l rs] eqn:Er; [discriminate|]. cbn [length] in Hlen. injection Hlen as Hlen.
    unfold leave. rewrite Ht, Er.
    set (nb := length ts). set (u0 := mkM G X ts rs (heap s)).
    assert (depth s = S nb) as Hd by (unfold C04.depth; now rewrite Ht).
    assert (forall L, L <= nb -> reg_at (reg s) L = reg_at rs L) as Hlow.
    { intros L HL. rewrite Er, reg_at_cons. destruct (Nat.eqb_spec (S (length rs)) L); [lia|reflexivity]. }
    assert (reg_at (reg s) (S nb) = l) as Htop by (rewrite Er, reg_at_cons, Hlen; unfold nb; now rewrite Nat.eqb_refl).
    assert (Pre nb u0 l) as HP.
    { constructor.
      - exact Hlen.
      - reflexivity.
      - rewrite <- Htop. apply (I_nodup s HI).
      - intros j Hj. rewrite <- Htop in Hj. destruct (I_own s HI _ _ Hj) as [o [H1 H2]]. exists o. split; [exact H1|].
        pose proof (I_tag s HI j o H1). lia.
      - intros j o H Hn. pose proof (I_tag s HI j o H) as Hle. rewrite Hd in Hle.
        destruct (Nat.eq_dec (tag o) (S nb)) as [E|E]; [|lia]. exfalso. apply Hn. rewrite <- Htop, <- E. apply (I_reg s HI j o H). lia.
      - intros j o H Hn H1. change (reg u0) with rs.
        assert (tag o <= nb) as Hle.
        { pose proof (I_tag s HI j o H) as Hle. rewrite Hd in Hle.
          destruct (Nat.eq_dec (tag o) (S nb)) as [E|E]; [|lia]. exfalso. apply Hn. rewrite <- Htop, <- E. apply (I_reg s HI j o H). lia. }
        rewrite <- (Hlow _ Hle). apply (I_reg s HI j o H H1).
      - intros L j Hin. change (reg u0) with rs in Hin. pose proof (reg_at_in_range _ _ _ Hin) as Hr. rewrite Hlen in Hr.
        rewrite <- (Hlow L) in Hin by lia. apply (I_own s HI _ _ Hin).
      - intros L. change (reg u0) with rs. destruct (Nat.le_gt_cases L nb) as [HL|HL].
        + rewrite <- (Hlow L HL). apply (I_nodup s HI).
        + rewrite reg_at_big by (rewrite Hlen; exact HL). constructor. }
    destruct (leave_fold T nb l u0 HP) as [HP' [Htr' [Hin' Hout']]].
    set (u' := fold_left (exit_one G X ginv act T nb) l u0) in *.
    split; [|split; [exact Htr'|split]].
    - constructor.
      + rewrite (A_len nb u' [] HP'), (A_trans nb u' [] HP'). reflexivity.
      + intros j o H. unfold C04.depth. rewrite (A_trans nb u' [] HP'). apply (A_tag nb u' [] HP' j o H). intros [].
      + intros j o H. apply (A_reg nb u' [] HP' j o H). intros [].
      + apply (A_own nb u' [] HP').
      + apply (A_nodup nb u' [] HP').
    - intros j o H. destruct (in_dec Nat.eq_dec j l) as [Hj|Hj].
      + destruct (Hin' j Hj) as [o1 [H1 [H2 H3]]]. change (heap u0 j) with (heap s j) in H1. rewrite H in H1. injection H1 as <-.
        exists (left_obj T nb o). split; [exact H3|]. split; [reflexivity|]. intros Hp.
        unfold left_obj. rewrite Hp. rewrite <- Hp at 1. apply site_exit. exact H2.
      + exists o. rewrite (Hout' j Hj). split; [exact H|]. split; [reflexivity|]. intros _. symmetry. apply site_cons.
        apply (A_tag nb u0 l HP j o H Hj).
    - intros j H. destruct (in_dec Nat.eq_dec j l) as [Hj|Hj].
      + destruct (Hin' j Hj) as [o1 [H1 _]]. change (heap u0 j) with (heap s j) in H1. congruence.
      + rewrite (Hout' j Hj). exact H.
  Qed.

  (* ---------- whole programs ---------- *)
  Notation prog := (prog G X).
  Notation exec := (exec G X gid gmul ginv act app).

  (* labels whose object a program overwrites, protects or creates *)
  Fixpoint writes (p : prog) : list nat :=
    match p with
    | PSeq _ _ a b => writes a ++ writes b
    | PNew _ _ i _ | PWrite _ _ i _ | PProtect _ _ i _ => [i]
    | PApply _ _ _ _ _ dst => [dst]
    | PWith _ _ _ _ body | PTry _ _ body => writes body
    | _ => []
    end.
  (* programs in which apply() registers its copies (the repaired code) *)
  Fixpoint repaired (p : prog) : bool :=
    match p with
    | PSeq _ _ a b => repaired a && repaired b
    | PApply _ _ CopyUnregistered _ _ _ => false
    | PWith _ _ _ _ body | PTry _ _ body => repaired body
    | _ => true
    end.

  Definition keeps_out (W : list nat) (s s' : mst) : Prop :=
    forall j o, ~ In j W -> heap s j = Some o -> exists o', heap s' j = Some o' /\ prot o' = prot o /\
      (prot o = false -> site (trans s') o' = site (trans s) o).

  Lemma keeps_out_of_keeps W s s' : keeps s s' -> keeps_out W s s'.
  Proof. intros H j o _. apply H. Qed.
  Lemma keeps_out_of_except i s s' : keeps_except i s s' -> keeps_out [i] s s'.
  Proof. intros H j o Hn. apply H. intros ->. apply Hn. now left. Qed.
  Lemma keeps_out_trans W1 W2 s1 s2 s3 : keeps_out W1 s1 s2 -> keeps_out W2 s2 s3 -> keeps_out (W1 ++ W2) s1 s3.
  Proof.
    intros H12 H23 j o Hn H.
    destruct (H12 j o (fun Hi => Hn (in_or_app _ _ _ (or_introl Hi))) H) as [o2 [H2 [P2 S2]]].
    destruct (H23 j o2 (fun Hi => Hn (in_or_app _ _ _ (or_intror Hi))) H2) as [o3 [H3 [P3 S3]]].
    exists o3. split; [exact H3|]. split; [congruence|]. intros Hp. rewrite S3, S2; auto. congruence.
  Qed.
  Lemma keeps_out_refl W s : keeps_out W s s.
  Proof. apply keeps_out_of_keeps, keeps_refl. Qed.
  Lemma keeps_out_mono W W' s s' : (forall j, In j W -> In j W') -> keeps_out W s s' -> keeps_out W' s s'.
  Proof. intros Hs H j o Hn. apply H. intros Hi. apply Hn, Hs, Hi. Qed.

  Lemma read_spec s i s' v : Inv s -> read G X gid gmul act s i = Some (s', v) ->
    Inv s' /\ trans s' = trans s /\ keeps s s'.
  Proof.
    intros HI. unfold read. destruct (to_current G X gid gmul act s i) as [s1|] eqn:E; [|discriminate].
    intros [= <- _]. destruct (to_current_spec s i s1 HI E) as [H1 [H2 [H3 _]]]. auto.
  Qed.

  Theorem exec_spec p : forall s, repaired p = true -> Inv s ->
    let '(s', r, obs) := exec p s in Inv s' /\ trans s' = trans s /\ keeps_out (writes p) s s'.
  Proof.
    induction p as [|a IHa b IHb|i x|i|i x|i b|v sup src dst|opi T body IH| |body IH]; intros s Hrep HI; cbn [C04.exec writes repaired] in *.
    - split; [exact HI|]. split; [reflexivity|apply keeps_out_refl].
    - apply andb_prop in Hrep. destruct Hrep as [Ra Rb]. specialize (IHa s Ra HI).
      destruct (exec a s) as [[s1 r1] o1]. destruct IHa as [I1 [T1 K1]]. destruct r1.
      + split; [exact I1|]. split; [exact T1|]. eapply keeps_out_mono; [|exact K1]. intros j Hj. apply in_or_app. now left.
      + specialize (IHb s1 Rb I1). destruct (exec b s1) as [[s2 r2] o2]. destruct IHb as [I2 [T2 K2]].
        split; [exact I2|]. split; [congruence|]. eapply keeps_out_trans; eassumption.
    - (* new *)
      unfold create.
      destruct (Inv_new_registered s i (mkObj X (depth s) false x) (negb (Nat.eqb (depth s) 0)) HI (le_n _)) as [H1 [H2 [H3 _]]].
      { cbn [C04.tag]. destruct (Nat.eqb_spec (depth s) 0); [auto|discriminate]. }
      cbn [C04.tag] in *. destruct (Nat.eqb_spec (depth s) 0) as [E|E]; cbn [negb] in *.
      + split; [exact H1|]. split; [exact H2|apply keeps_out_of_except; exact H3].
      + split; [exact H1|]. split; [exact H2|apply keeps_out_of_except; exact H3].
    - (* read *)
      destruct (heap s i) as [o|]; [|split; [exact HI|split; [reflexivity|apply keeps_out_refl]]].
      destruct (read G X gid gmul act s i) as [[s1 v]|] eqn:E; [|split; [exact HI|split; [reflexivity|apply keeps_out_refl]]].
      destruct (read_spec s i s1 v HI E) as [H1 [H2 H3]]. split; [exact H1|]. split; [exact H2|apply keeps_out_of_keeps; exact H3].
    - (* write *)
      destruct (heap s i) as [o|]; [|split; [exact HI|split; [reflexivity|apply keeps_out_refl]]].
      destruct (write G X gid gmul act s i x) as [s1|] eqn:E; [|split; [exact HI|split; [reflexivity|apply keeps_out_refl]]].
      destruct (write_spec s i x s1 HI E) as [H1 [H2 [H3 _]]]. split; [exact H1|]. split; [exact H2|apply keeps_out_of_except; exact H3].
    - (* protect *)
      destruct (heap s i) as [o|]; [|split; [exact HI|split; [reflexivity|apply keeps_out_refl]]].
      destruct (set_prot_spec s i b HI) as [H1 [H2 H3]]. split; [exact H1|]. split; [exact H2|apply keeps_out_of_except; exact H3].
    - (* apply *)
      destruct v; [discriminate|].
      destruct (heap s sup) as [osup|] eqn:Hsup; [|split; [exact HI|split; [reflexivity|apply keeps_out_refl]]].
      destruct (heap s src) as [o|] eqn:Hsrc; [|split; [exact HI|split; [reflexivity|apply keeps_out_refl]]].
      destruct (Inv_new_registered s dst o true HI (I_tag s HI src o Hsrc) ltac:(discriminate)) as [I1 [T1 [K1 _]]].
      cbv zeta in I1, T1, K1.
      set (s1 := if Nat.eqb (tag o) 0 then set_new G X s dst o else register G X (set_new G X s dst o) (tag o) dst) in *.
      pose proof (keeps_out_of_except dst s s1 K1) as KO1.
      destruct (read G X gid gmul act s1 sup) as [[s2 r]|] eqn:E2; [|split; [exact I1|split; [exact T1|exact KO1]]].
      destruct (read_spec s1 sup s2 r I1 E2) as [I2 [T2 K2]].
      assert (keeps_out [dst] s s2) as KO2 by (apply (keeps_out_trans [dst] [] s s1 s2 KO1 (keeps_out_of_keeps [] s1 s2 K2))).
      destruct (read G X gid gmul act s2 src) as [[s3 xv]|] eqn:E3; [|split; [exact I2|split; [congruence|exact KO2]]].
      destruct (read_spec s2 src s3 xv I2 E3) as [I3 [T3 K3]].
      assert (keeps_out [dst] s s3) as KO3 by (apply (keeps_out_trans [dst] [] s s2 s3 KO2 (keeps_out_of_keeps [] s2 s3 K3))).
      destruct r as [rv|]; [|split; [exact I3|split; [congruence|exact KO3]]].
      destruct xv as [xv|]; [|split; [exact I3|split; [congruence|exact KO3]]].
      destruct (write G X gid gmul act s3 dst (app rv xv)) as [s4|] eqn:E4; [|split; [exact I3|split; [congruence|exact KO3]]].
      destruct (write_spec s3 dst (app rv xv) s4 I3 E4) as [I4 [T4 [K4 _]]].
      split; [exact I4|]. split; [congruence|].
      apply (keeps_out_mono ([dst] ++ [dst])); [intros j [<-|[<-|[]]]; now left|].
      apply (keeps_out_trans [dst] [dst] s s3 s4 KO3 (keeps_out_of_except dst s3 s4 K4)).
    - (* with *)
      destruct (heap s opi) as [oo|]; [|split; [exact HI|split; [reflexivity|apply keeps_out_refl]]].
      unfold enter_prepare.
      destruct (to_current G X gid gmul act s opi) as [s0|] eqn:E0; [|split; [exact HI|split; [reflexivity|apply keeps_out_refl]]].
      destruct (to_current_spec s opi s0 HI E0) as [I0 [T0 [K0 _]]].
      destruct (enter_spec s0 T I0) as [Ie [Ke _]].
      specialize (IH (enter G X s0 T) Hrep Ie). destruct (exec body (enter G X s0 T)) as [[s1 r] o]. destruct IH as [I1 [T1 K1]].
      assert (trans s1 = T :: trans s0) as Ht1 by (rewrite T1; reflexivity).
      destruct (leave_spec s1 T (trans s0) I1 Ht1) as [Il [Tl [Kl _]]].
      split; [exact Il|]. split; [congruence|].
      intros j o0 Hn H. destruct (K0 j o0 H) as [o1 [H1 [P1 S1]]]. destruct (Ke j o1 H1) as [o2 [H2 [P2 S2]]].
      destruct (K1 j o2 Hn H2) as [o3 [H3 [P3 S3]]]. destruct (Kl j o3 H3) as [o4 [H4 [P4 S4]]].
      exists o4. split; [exact H4|]. split; [congruence|]. intros Hp.
      rewrite Tl. rewrite S4 by congruence. rewrite <- Ht1. rewrite S3 by congruence. rewrite S2 by congruence.
      rewrite S1 by congruence. reflexivity.
    - split; [exact HI|]. split; [reflexivity|apply keeps_out_refl].
    - specialize (IH s Hrep HI). destruct (exec body s) as [[s1 r] o]. exact IH.
  Qed.

  (* ---------- corollaries ---------- *)
  Lemma ginv_gid : ginv gid = gid.
  Proof. rewrite <- (gid_l (ginv gid)). apply ginv_r. Qed.

  Lemma site_outside o : site [] o = dat o.
  Proof. unfold site, prefix. cbn [length skipn Nat.sub Pr fold_right]. rewrite ginv_gid. apply act_id. Qed.

  (* a program run outside every context: bookkeeping restored, no stale tag, untouched data back exactly *)
  Theorem top_level_restores p s : repaired p = true -> Inv s -> trans s = [] ->
    let '(s', r, obs) := exec p s in
    trans s' = [] /\ reg s' = [] /\
    (forall j o', heap s' j = Some o' -> tag o' = 0) /\
    (forall j o, ~ In j (writes p) -> heap s j = Some o -> prot o = false ->
       exists o', heap s' j = Some o' /\ dat o' = dat o /\ tag o' = 0 /\ prot o' = false).
  Proof.
    intros Hrep HI Ht. pose proof (exec_spec p s Hrep HI) as H. destruct (exec p s) as [[s' r] obs].
    destruct H as [I' [T' K']]. rewrite Ht in T'.
    assert (reg s' = []) as Hr by (pose proof (I_len s' I') as Hl; rewrite T' in Hl; destruct (reg s'); [reflexivity|discriminate]).
    assert (forall j o', heap s' j = Some o' -> tag o' = 0) as Htag.
    { intros j o' Hh. pose proof (I_tag s' I' j o' Hh) as Hle. unfold C04.depth in Hle. rewrite T' in Hle. cbn in Hle. lia. }
    split; [exact T'|]. split; [exact Hr|]. split; [exact Htag|].
    intros j o Hn Hh Hp. destruct (K' j o Hn Hh) as [o' [H1 [H2 H3]]]. exists o'. split; [exact H1|].
    specialize (H3 Hp). rewrite T', Ht, !site_outside in H3. split; [exact H3|]. split; [exact (Htag j o' H1)|congruence].
  Qed.

  (* inside a context a (not protected) object is presented in the current basis: what is read is the
     site representation carried through all transformations on the stack *)
  Theorem read_presents_current s i s' x o : Inv s -> heap s i = Some o -> prot o = false ->
    read G X gid gmul act s i = Some (s', Some x) -> x = act (Pr (trans s)) (site (trans s) o).
  Proof.
    intros HI Ho Hp. unfold read. destruct (to_current G X gid gmul act s i) as [s1|] eqn:E; [|discriminate].
    destruct (to_current_spec s i s1 HI E) as [I1 [T1 [K1 [Hc _]]]].
    destruct (Hc o Ho Hp) as [o1 [H1 Ht1]]. rewrite H1. cbn [option_map]. intros [= _ <-].
    destruct (K1 i o Ho) as [o2 [H2 [_ S2]]]. rewrite H1 in H2. injection H2 as <-.
    rewrite <- (S2 Hp), T1. unfold site. rewrite Ht1. unfold C04.depth. rewrite prefix_full.
    symmetry. apply (act_inv_r G X gid gmul ginv act ginv_l act_id act_mul).
  Qed.
End Proofs.

(* the pinned apply(): its copy is left with a stale tag; reading it outside raises *)
Definition stale_prog (v : copy_variant) : prog unit nat :=
  PSeq _ _ (PNew _ _ 0 7) (PSeq _ _ (PNew _ _ 1 5) (PSeq _ _ (PNew _ _ 2 3)
    (PSeq _ _ (PWith _ _ 0 tt (PSeq _ _ (PRead _ _ 1) (PApply _ _ v 2 1 3))) (PRead _ _ 3)))).
Definition trivial_exec := exec unit nat tt (fun _ _ => tt) (fun _ => tt) (fun _ x => x) (fun r x => r + x).

Lemma stale_copy_witness :
  snd (fst (trivial_exec (stale_prog CopyUnregistered) (mkM unit nat [] [] (fun _ => None)))) = true /\
  snd (fst (trivial_exec (stale_prog CopyRegistered) (mkM unit nat [] [] (fun _ => None)))) = false.
Proof. vm_compute. split; reflexivity. Qed.

