(* Statement skeletons of heom.py's index code over Python integers (Z), with the arithmetic content as parameters,
   and the lemmas that turn "the content is the expected one" into equality with the model of Model/C16.v.
   harness/translate2.py instantiates the parameters from the current source on every run. *)
From Coq Require Import ZArith List Bool Arith Lia.
From QV Require Import Base.Alg Base.Sums Base.Mat Model.C16 Proofs.C16.
Import ListNotations.

Fixpoint leqZ (a b : list Z) : bool :=
  match a, b with
  | [], [] => true
  | x :: a', y :: b' => Z.eqb x y && leqZ a' b'
  | _, _ => false
  end.
Definition memZ (x : list Z) (l : list (list Z)) : bool := existsb (leqZ x) l.

Fixpoint updZ (m : list Z) (k : nat) (d : Z) : list Z :=
  match m with
  | [] => []
  | x :: m' => match k with O => (x + d)%Z :: m' | S k' => x :: updZ m' k' d end
  end.
(* nlist[pos] += d with Python indexing (negative positions count from the end; outside: IndexError, list kept) *)
Definition bump_skel (m : list Z) (pos d : Z) : list Z :=
  let len := Z.of_nat (length m) in
  if ((0 <=? pos) && (pos <? len))%Z then updZ m (Z.to_nat pos) d
  else if ((- len <=? pos) && (pos <? 0))%Z then updZ m (Z.to_nat (pos + len)) d
  else m.

Definition add_newZ (acc : list (list Z)) (x : list Z) : list (list Z) := if memZ x acc then acc else acc ++ [x].

Section Generate.
  Variables (init width levels inner : Z) (pos inc : Z -> Z -> Z).
  Definition cand_skel (kk : Z) (prev : list (list Z)) : list (list Z) :=
    flat_map (fun old => map (fun nn => bump_skel old (pos kk (Z.of_nat nn)) (inc kk (Z.of_nat nn))) (seq 0 (Z.to_nat inner))) prev.
  Fixpoint levels_skel (prev : list (list Z)) (kk : Z) (k : nat) : list (list (list Z)) :=
    match k with
    | O => []
    | S k' => let nl := fold_left add_newZ (cand_skel kk prev) [] in nl :: levels_skel nl (kk + 1)%Z k'
    end.
  Definition generate_skel : list (list (list Z)) :=
    let l0 := [repeat init (Z.to_nat width)] in l0 :: levels_skel l0 0%Z (Z.to_nat levels).
End Generate.

(* last match below the bound:  ven = absent; for ll in range(bound): if equal(hinds[ll], target): ven = ll *)
Definition search_skel (H : list (list Z)) (target : list Z) (bound absent : Z) : Z :=
  fold_left (fun ven ll => if leqZ (nth ll H []) target then Z.of_nat ll else ven) (seq 0 (Z.to_nat bound)) absent.

(* ---------------- transport along Z.of_nat ---------------- *)
Definition zl (m : mi) : list Z := map Z.of_nat m.

Lemma leqZ_zl a b : leqZ (zl a) (zl b) = mi_eqb a b.
Proof.
  revert b; induction a as [|x a IH]; intros [|y b]; cbn; try reflexivity.
  rewrite IH. f_equal. destruct (Nat.eqb_spec x y) as [->|Hn]; [apply Z.eqb_refl|]. apply Z.eqb_neq; lia.
Qed.

Lemma memZ_zl x l : memZ (zl x) (map zl l) = mem x l.
Proof. unfold memZ, mem. induction l as [|y l IH]; cbn; [reflexivity|]. now rewrite leqZ_zl, IH. Qed.

Lemma add_newZ_zl acc x : add_newZ (map zl acc) (zl x) = map zl (add_new acc x).
Proof. unfold add_newZ, add_new. rewrite memZ_zl. destruct (mem x acc); [reflexivity|]. now rewrite map_app. Qed.

Lemma fold_add_newZ_zl xs acc : fold_left add_newZ (map zl xs) (map zl acc) = map zl (fold_left add_new xs acc).
Proof. revert acc; induction xs as [|x xs IH]; intros acc; cbn [fold_left map]; [reflexivity|]. now rewrite add_newZ_zl, IH. Qed.

Lemma updZ_zl m k : (k < length m)%nat -> updZ (zl m) k 1 = zl (bump m k).
Proof.
  revert k; induction m as [|x m IH]; intros k Hk; [cbn in Hk; lia|].
  destruct k as [|k]; cbn [zl map updZ bump].
  - f_equal. lia.
  - f_equal. apply IH. cbn in Hk. lia.
Qed.
Lemma bump_ge m k : (length m <= k)%nat -> bump m k = m.
Proof. revert k; induction m as [|x m IH]; intros k Hk; [reflexivity|]. destruct k as [|k]; cbn in *; [lia|]. f_equal. apply IH. lia. Qed.

Lemma bump_skel_zl m k : bump_skel (zl m) (Z.of_nat k) 1 = zl (bump m k).
Proof.
  unfold bump_skel. unfold zl at 1 2. rewrite map_length. fold (zl m).
  destruct (Z.ltb_spec (Z.of_nat k) (Z.of_nat (length m))) as [Hlt|Hge].
  - replace (0 <=? Z.of_nat k)%Z with true by (symmetry; apply Z.leb_le; lia). cbn [andb].
    rewrite Nat2Z.id. apply updZ_zl. lia.
  - rewrite andb_false_r. replace (Z.of_nat k <? 0)%Z with false by (symmetry; apply Z.ltb_ge; lia).
    rewrite andb_false_r. rewrite bump_ge by lia. reflexivity.
Qed.

Lemma generate_skel_is_model : forall (N depth : nat) init width levels inner pos inc,
  init = 0%Z -> width = Z.of_nat N -> levels = Z.of_nat depth -> inner = Z.of_nat N ->
  (forall kk nn, pos kk nn = nn) -> (forall kk nn, inc kk nn = 1%Z) ->
  generate_skel init width levels inner pos inc = map (map zl) (gen_indices N depth).
Proof.
  intros N depth init width levels inner pos inc -> -> -> -> Hpos Hinc.
  unfold generate_skel, gen_indices. rewrite !Nat2Z.id.
  assert (Hrep : [repeat 0%Z N] = map zl [repeat 0%nat N]).
  { cbn. f_equal. unfold zl. induction N as [|N IH]; cbn; [reflexivity|]. f_equal. exact IH. }
  rewrite Hrep. cbn [map]. f_equal. change [zl (repeat 0%nat N)] with (map zl [repeat 0%nat N]).
  generalize [repeat 0%nat N] as prev. generalize 0%Z as kk.
  induction depth as [|d IH]; intros kk prev; cbn [levels_skel levels_from map]; [reflexivity|].
  assert (Hc : cand_skel (Z.of_nat N) pos inc kk (map zl prev) = map zl (flat_map (fun old => map (bump old) (seq 0 N)) prev)).
  { unfold cand_skel. rewrite Nat2Z.id. induction prev as [|old prev IHp]; cbn [flat_map map]; [reflexivity|].
    rewrite map_app, IHp. f_equal. rewrite map_map. apply map_ext. intros nn. rewrite Hpos, Hinc. apply bump_skel_zl. }
  rewrite Hc. change (@nil (list Z)) with (map zl []) at 1.
  rewrite fold_add_newZ_zl. change (@nil (list Z)) with (map zl []).
  rewrite fold_add_newZ_zl. unfold next_level. f_equal. apply IH.
Qed.

(* ---------------- neighbour search ---------------- *)
Lemma search_gen (L : list mi) (x : list Z) (f : mi -> bool) :
  (forall y, leqZ (zl y) x = f y) ->
  forall (l pre post : list mi) best, L = pre ++ l ++ post ->
  fold_left (fun ven ll => if leqZ (nth ll (map zl L) []) x then Z.of_nat ll else ven) (seq (length pre) (length l)) (oz best)
  = oz (fold_left (fun b p => if f (snd p) then Some (fst p) else b) (combine (seq (length pre) (length l)) l) best).
Proof.
  intros Hf l. induction l as [|y l IH]; intros pre post best HL; cbn [length seq fold_left combine]; [reflexivity|].
  assert (Hn : nth (length pre) (map zl L) [] = zl y).
  { change (@nil Z) with (zl []). rewrite map_nth. rewrite HL, app_nth2 by lia. now rewrite Nat.sub_diag. }
  rewrite Hn, Hf. cbn [fst snd].
  specialize (IH (pre ++ [y]) post (if f y then Some (length pre) else best)).
  rewrite app_length in IH. cbn [length] in IH. replace (length pre + 1)%nat with (S (length pre)) in IH by lia.
  rewrite <- IH by (rewrite <- app_assoc; exact HL). destruct (f y); reflexivity.
Qed.

Lemma find_last_fold x : forall l i best,
  find_last x l i best = fold_left (fun b p => if mi_eqb (snd p) x then Some (fst p) else b) (combine (seq i (length l)) l) best.
Proof. induction l as [|y l IH]; intros i best; cbn [find_last length seq combine fold_left fst snd]; [reflexivity|]. apply IH. Qed.

Lemma search_zl (L : list mi) (x : mi) (b : nat) : (b <= length L)%nat ->
  search_skel (map zl L) (zl x) (Z.of_nat b) (-1) = oz (find_last x (firstn b L) 0 None).
Proof.
  intros Hb. unfold search_skel. rewrite Nat2Z.id, find_last_fold, firstn_length_le by exact Hb.
  pose proof (search_gen L (zl x) (fun y => mi_eqb y x) (fun y => leqZ_zl y x) (firstn b L) [] (skipn b L) None) as Hg.
  cbn [length app] in Hg. rewrite firstn_length_le in Hg by exact Hb. apply Hg. symmetry. apply firstn_skipn.
Qed.

Lemma search_nomatch (L : list mi) (t : list Z) (b : nat) : (b <= length L)%nat -> (forall y, leqZ (zl y) t = false) ->
  search_skel (map zl L) t (Z.of_nat b) (-1) = (-1)%Z.
Proof.
  intros Hb Hno. unfold search_skel. rewrite Nat2Z.id.
  pose proof (search_gen L t (fun _ => false) Hno (firstn b L) [] (skipn b L) None) as Hg.
  cbn [length app] in Hg. rewrite firstn_length_le in Hg by exact Hb.
  etransitivity; [apply Hg; symmetry; apply firstn_skipn|].
  generalize (combine (seq 0 b) (firstn b L)) as c. induction c as [|p c IH]; cbn [fold_left]; [reflexivity|exact IH].
Qed.

Lemma updZ_lower m k : (k < length m)%nat ->
  match lower m k with
  | Some x => updZ (zl m) k (-1) = zl x
  | None => forall y, leqZ (zl y) (updZ (zl m) k (-1)) = false
  end.
Proof.
  revert k; induction m as [|a m IH]; intros k Hk; [cbn in Hk; lia|].
  destruct k as [|k]; cbn [lower zl map updZ].
  - destruct a as [|a'].
    + intros [|b y]; cbn [zl map leqZ Z.of_nat Z.add]; [reflexivity|].
      replace (Z.of_nat b =? -1)%Z with false; [reflexivity|]. symmetry. apply Z.eqb_neq. lia.
    + cbn [zl map]. f_equal. lia.
  - assert (Hk' : (k < length m)%nat) by (cbn in Hk; lia). specialize (IH k Hk').
    destruct (lower m k) as [x|]; cbn [option_map].
    + cbn [zl map]. f_equal. exact IH.
    + intros [|b y]; cbn [zl map leqZ]; [reflexivity|]. fold (zl y). fold (zl m). rewrite IH. apply andb_false_r.
Qed.

Lemma bump_skel_lower m k : (k < length m)%nat -> bump_skel (zl m) (Z.of_nat k) (-1) = updZ (zl m) k (-1).
Proof.
  intros Hk. unfold bump_skel. unfold zl at 1. rewrite map_length.
  replace (0 <=? Z.of_nat k)%Z with true by (symmetry; apply Z.leb_le; lia).
  replace (Z.of_nat k <? Z.of_nat (length m))%Z with true by (symmetry; apply Z.ltb_lt; lia).
  cbn [andb]. now rewrite Nat2Z.id.
Qed.

Lemma nth_zl (L : list mi) n : nth n (map zl L) [] = zl (nth n L []).
Proof. change (@nil Z) with (zl []). apply map_nth. Qed.

Lemma search_lower_is_model (N depth n k : nat) : (n < length (hinds N depth))%nat -> (k < N)%nat ->
  forall pos delta bound absent, pos = Z.of_nat k -> delta = (-1)%Z -> bound = Z.of_nat n -> absent = (-1)%Z ->
  search_skel (map zl (hinds N depth)) (bump_skel (nth (Z.to_nat (Z.of_nat n)) (map zl (hinds N depth)) []) pos delta) bound absent
  = oz (nm1 (hinds N depth) n k).
Proof.
  intros Hn Hk pos delta bound absent -> -> -> ->. rewrite Nat2Z.id, nth_zl.
  destruct (entry_facts N depth n Hn) as [Hlen _].
  rewrite bump_skel_lower by lia. unfold nm1.
  pose proof (updZ_lower (nth n (hinds N depth) []) k ltac:(lia)) as Hl.
  destruct (lower (nth n (hinds N depth) []) k) as [x|].
  - rewrite Hl. apply search_zl. lia.
  - apply search_nomatch; [lia|exact Hl].
Qed.

Lemma search_raise_is_model (N depth n k : nat) : (n < length (hinds N depth))%nat -> (k < N)%nat ->
  forall pos delta bound absent, pos = Z.of_nat k -> delta = 1%Z -> bound = Z.of_nat (length (hinds N depth)) -> absent = (-1)%Z ->
  search_skel (map zl (hinds N depth)) (bump_skel (nth (Z.to_nat (Z.of_nat n)) (map zl (hinds N depth)) []) pos delta) bound absent
  = oz (np1 (hinds N depth) n k).
Proof.
  intros Hn Hk pos delta bound absent -> -> -> ->. rewrite Nat2Z.id, nth_zl, bump_skel_zl. unfold np1.
  rewrite search_zl by lia. now rewrite firstn_all.
Qed.
