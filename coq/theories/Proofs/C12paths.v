(* Lemmas for C12, second part: pathway lists under rotation / scaling of all dipoles, signal bookkeeping
   of the calculator through the C19 storage model. *)
From Coq Require Import ZArith List Bool Lia.
From QV Require Import Base.Alg Base.Util Model.C19 Model.C12 Proofs.C12.
Import ListNotations.

(* ------------------------------------------------------------------------------------------ *)
(*  pathway lists                                                                              *)
(* ------------------------------------------------------------------------------------------ *)
Section Paths.
  Context {R : StarRing}.
  Add Ring Rr2 : (rth R).
  Open Scope sr_scope.
  Notation vec3 := (@vec3 R).
  Notation mat3 := (@mat3 R).
  Notation sys := (@sys R).
  Notation pway := (@pway R).

  Lemma Forall2_flat_map {A B C} (P : B -> C -> Prop) (f : A -> list B) (g : A -> list C) l :
    (forall x, Forall2 P (f x) (g x)) -> Forall2 P (flat_map f l) (flat_map g l).
  Proof. intros H. induction l as [|x l IH]; cbn [flat_map]; [constructor|]. apply Forall2_app; [apply H|exact IH]. Qed.

  Lemma Forall2_when {B C} (P : B -> C -> Prop) b l m : Forall2 P l m -> Forall2 P (when b l) (when b m).
  Proof. intros H. destruct b; cbn [when]; [exact H|constructor]. Qed.

  Lemma Forall2_eq {A} (l m : list A) : Forall2 eq l m -> l = m.
  Proof. induction 1; [reflexivity|congruence]. Qed.

  Ltac rel H :=
    repeat first [ apply Forall2_app | apply Forall2_flat_map; intros ? | apply Forall2_when
                 | (constructor; [apply H | constructor]) ].

  Lemma gen6_with_rel (P : pway -> pway -> Prop) (mk1 mk2 : @maker R) (S : sys) :
    (forall n r i e evs, P (mk1 n r i e evs) (mk2 n r i e evs)) -> Forall2 P (gen6_with mk1 S) (gen6_with mk2 S).
  Proof.
    intros H. unfold gen6_with, gen4_with, gen_R1g_with, gen_R2g_with, gen_R3g_with, gen_R4g_with, gen_R1f_with, gen_R2f_with.
    cbv zeta. rel H.
  Qed.
  Lemma gen4_with_rel (P : pway -> pway -> Prop) (mk1 mk2 : @maker R) (S : sys) :
    (forall n r i e evs, P (mk1 n r i e evs) (mk2 n r i e evs)) -> Forall2 P (gen4_with mk1 S) (gen4_with mk2 S).
  Proof.
    intros H. unfold gen4_with, gen_R1g_with, gen_R2g_with, gen_R3g_with, gen_R4g_with. cbv zeta. rel H.
  Qed.

  Lemma nthv_map {A} (f : vec3 -> vec3) (g : A -> vec3) (l : list A) k : f vzero = vzero ->
    nthv (map (fun t => f (g t)) l) k = f (nthv (map g l) k).
  Proof.
    intros H0. unfold nthv. revert k; induction l as [|x l IH]; intros k; destruct k; cbn [map nth]; auto.
  Qed.

  (* a common orthogonal transformation of all transition dipoles leaves every pathway as it is *)
  Lemma mkpath_rot (Q : mat3) (S : sys) n r i e evs : orthogonal Q -> mkpath (map_dip (mv3 Q) S) n r i e evs = mkpath S n r i e evs.
  Proof.
    intros H. unfold mkpath. cbn [map_dip DD En rho]. rewrite !(nthv_map (mv3 Q)) by apply mv3_zero.
    rewrite F4_rot by exact H. reflexivity.
  Qed.

  Lemma gen6_rot (Q : mat3) (S : sys) : orthogonal Q -> gen6 (map_dip (mv3 Q) S) = gen6 S.
  Proof.
    intros H. unfold gen6. change (gen6_with (mkpath (map_dip (mv3 Q) S)) (map_dip (mv3 Q) S))
      with (gen6_with (mkpath (map_dip (mv3 Q) S)) S).
    apply Forall2_eq, gen6_with_rel. intros. now apply mkpath_rot.
  Qed.
  Lemma gen4_rot (Q : mat3) (S : sys) : orthogonal Q -> gen4 (map_dip (mv3 Q) S) = gen4 S.
  Proof.
    intros H. unfold gen4. change (gen4_with (mkpath (map_dip (mv3 Q) S)) (map_dip (mv3 Q) S))
      with (gen4_with (mkpath (map_dip (mv3 Q) S)) S).
    apply Forall2_eq, gen4_with_rel. intros. now apply mkpath_rot.
  Qed.
  (* the selection flags are functions of D2 = |d|^2, which a rotation keeps *)
  Lemma D2_rot (Q : mat3) (d : vec3) : orthogonal Q -> dot (mv3 Q d) (mv3 Q d) = dot d d.
  Proof. apply dot_mv3_orth. Qed.

  Section Resp.
    Variable L : bool -> bool -> R -> R -> R -> R -> R.
    Variable neg : R -> bool.
    Variable dflt : R.

    Lemma response_rel k gauss FM (l m : list pway) :
      Forall2 (fun p q => contrib L neg dflt gauss FM p = k * contrib L neg dflt gauss FM q) l m ->
      response L neg dflt gauss FM l = k * response L neg dflt gauss FM m.
    Proof.
      unfold response. induction 1 as [|p q l m Hpq _ IH]; cbn [map lsumR fold_right]; [ring|].
      change (fold_right (fun v a => v + a) 0 (map (contrib L neg dflt gauss FM) l)) with (lsumR (map (contrib L neg dflt gauss FM) l)).
      change (fold_right (fun v a => v + a) 0 (map (contrib L neg dflt gauss FM) m)) with (lsumR (map (contrib L neg dflt gauss FM) m)).
      rewrite Hpq, IH. ring.
    Qed.

    Lemma contrib_scale (s : R) (S : sys) gauss FM n r i e evs :
      contrib L neg dflt gauss FM (mkpath (map_dip (vscale s) S) n r i e evs)
      = s * s * s * s * contrib L neg dflt gauss FM (mkpath S n r i e evs).
    Proof.
      unfold contrib, pref, mkpath. cbn [map_dip DD En rho pw_freq pw_w1 pw_w3 pw_g1 pw_g3 pw_reph pw_sign pw_F4n pw_rho pw_evf].
      rewrite !(nthv_map (vscale s)).
      2-5: unfold vscale, vzero, vx, vy, vz; cbn [fst snd]; (apply (f_equal2 pair); [apply (f_equal2 pair)|]); ring.
      rewrite F4_scale.
      match goal with |- context [dot FM (vscale ?k ?f)] =>
        replace (dot FM (vscale k f)) with (k * dot FM f)
          by (generalize f; intros [[f0 f1] f2]; destruct FM as [[m0 m1] m2]; unfold dot, vscale, vx, vy, vz; cbn [fst snd]; ring) end.
      ring.
    Qed.

    (* quartic scaling of the whole response, the selection of pathways being the same *)
    Lemma response_scale6 (s : R) (S : sys) gauss FM :
      response L neg dflt gauss FM (gen6 (map_dip (vscale s) S)) = s * s * s * s * response L neg dflt gauss FM (gen6 S).
    Proof.
      apply response_rel. unfold gen6.
      change (gen6_with (mkpath (map_dip (vscale s) S)) (map_dip (vscale s) S)) with (gen6_with (mkpath (map_dip (vscale s) S)) S).
      apply gen6_with_rel. intros. apply contrib_scale.
    Qed.
    Lemma response_scale4 (s : R) (S : sys) gauss FM :
      response L neg dflt gauss FM (gen4 (map_dip (vscale s) S)) = s * s * s * s * response L neg dflt gauss FM (gen4 S).
    Proof.
      apply response_rel. unfold gen4.
      change (gen4_with (mkpath (map_dip (vscale s) S)) (map_dip (vscale s) S)) with (gen4_with (mkpath (map_dip (vscale s) S)) S).
      apply gen4_with_rel. intros. apply contrib_scale.
    Qed.

    (* ---- bookkeeping of calculate_one through the storage model of C19 ---- *)
    Definition part (reph : bool) (ps : list pway) : list pway := filter (fun p => Bool.eqb (pw_reph p) reph) ps.

    Definition InvS (s : @st R) (a b : R) : Prop :=
      res s = Signals /\ init s = true /\ attr s = true /\ sg s REPH = Some a /\ sg s NONR = Some b /\ sg s DCs = None.

    Lemma add_step s a b (c : R) (reph : bool) : InvS s a b ->
      InvS (fst (add_data NoneTagRefused s c None (DS (if reph then REPH else NONR)) None))
           (if reph then a + c else a) (if reph then b else b + c).
    Proof.
      destruct s as [rs ini att cu ct pws tys prs sgs tt]. unfold InvS. cbn [res init attr sg].
      intros (-> & -> & -> & Hr & Hn & Hd).
      destruct reph; unfold add_data, accumulate, set_flag, read, write, ensure_init;
        cbn [res init attr sg cur ctag pw ty pr tot lnum negb fst snd];
        rewrite ?Hr, ?Hn; cbn [fst res init attr sg upd_s signal_eqb]; rewrite ?Hr, ?Hn, ?Hd; repeat split; reflexivity.
    Qed.

    Lemma InvS_eq s a b a' b' : InvS s a b -> a = a' -> b = b' -> InvS s a' b'.
    Proof. intros H -> ->. exact H. Qed.

    Lemma run_adds gauss FM (ps : list pway) : forall s a b, InvS s a b ->
      InvS (fst (run NoneTagRefused s
                  (map (fun p => OAdd (contrib L neg dflt gauss FM p) None (DS (if pw_reph p then REPH else NONR)) None) ps)))
           (a + response L neg dflt gauss FM (part true ps)) (b + response L neg dflt gauss FM (part false ps)).
    Proof.
      induction ps as [|p ps IH]; intros s a b H; cbn [map run fst].
      - unfold response, part; cbn [filter map lsumR fold_right]. eapply InvS_eq; [exact H| |]; ring.
      - unfold step. pose proof (add_step s a b (contrib L neg dflt gauss FM p) (pw_reph p) H) as H1.
        destruct (add_data NoneTagRefused s (contrib L neg dflt gauss FM p) None (DS (if pw_reph p then REPH else NONR)) None) as [s1 ok].
        cbn [fst] in H1. specialize (IH s1 _ _ H1).
        destruct (run NoneTagRefused s1 _) as [s2 outs] eqn:E. cbn [fst] in *.
        eapply InvS_eq; [exact IH| |]; unfold response, part; cbn [filter]; destruct (pw_reph p); cbn [Bool.eqb map lsumR fold_right]; unfold lsumR; ring.
    Qed.

    Lemma response_parts gauss FM (ps : list pway) :
      response L neg dflt gauss FM ps = response L neg dflt gauss FM (part true ps) + response L neg dflt gauss FM (part false ps).
    Proof.
      unfold response, part. induction ps as [|p ps IH]; cbn [filter map lsumR fold_right]; [ring|].
      fold (lsumR (map (contrib L neg dflt gauss FM) ps)). unfold lsumR in *. rewrite IH.
      destruct (pw_reph p); cbn [Bool.eqb map fold_right]; ring.
    Qed.

    Lemma run_app_fst vr (l1 l2 : list (@op R)) : forall s, fst (run vr s (l1 ++ l2)) = fst (run vr (fst (run vr s l1)) l2).
    Proof.
      induction l1 as [|o l1 IH]; intros s; cbn [app run fst]; [reflexivity|].
      destruct (step vr s o) as [[s' ok] r]. specialize (IH s').
      destruct (run vr s' (l1 ++ l2)) as [s2 o2]. destruct (run vr s' l1) as [s3 o3]. cbn [fst] in *. exact IH.
    Qed.

    (* what the calculator's TwoDResponse shows under the three flags *)
    Lemma calc_reads gauss FM (ps : list pway) :
      let s := calc_store L neg dflt gauss FM ps in
      exists r n t, read (set_flag s (DS REPH) None) = RVal (Some r) /\ read (set_flag s (DS NONR) None) = RVal (Some n) /\
                    read (set_flag s DTot None) = RVal (Some t) /\
                    r = response L neg dflt gauss FM (part true ps) /\ n = response L neg dflt gauss FM (part false ps) /\
                    t = r + n /\ t = response L neg dflt gauss FM ps.
    Proof.
      cbv zeta. unfold calc_store, calc_ops.
      set (adds := map _ ps).
      assert (H0 : exists s0, fst (run NoneTagRefused fresh ([OSetRes (Some Signals); OAdd 0 None (DS REPH) None; OAdd 0 None (DS NONR) None] ++ adds))
                              = fst (run NoneTagRefused s0 adds) /\ InvS s0 0 0).
      { exists (fst (run NoneTagRefused fresh [OSetRes (Some Signals); OAdd 0 None (DS REPH) None; OAdd 0 None (DS NONR) None])).
        split; [apply run_app_fst|]. unfold InvS. cbv. repeat split; reflexivity. }
      change (OSetRes (Some Signals) :: OAdd 0 None (DS REPH) None :: OAdd 0 None (DS NONR) None :: adds)
        with ([OSetRes (Some Signals); OAdd 0 None (DS REPH) None; OAdd 0 None (DS NONR) None] ++ adds).
      destruct H0 as (s0 & -> & Hinv).
      pose proof (run_adds gauss FM ps s0 0 0 Hinv) as H. fold adds in H.
      destruct (fst (run NoneTagRefused s0 adds)) as [rs ini att cu ct pws tys prs sgs tt].
      destruct H as (Hres & Hini & Hatt & Hr & Hn & Hd). cbn [res init attr sg] in *. subst rs ini att.
      exists (0 + response L neg dflt gauss FM (part true ps)), (0 + response L neg dflt gauss FM (part false ps)),
             (0 + (0 + response L neg dflt gauss FM (part true ps)) + (0 + response L neg dflt gauss FM (part false ps))).
      unfold read, set_flag. cbn [res init attr sg cur negb osum all_signals fold_left]. rewrite Hr, Hn, Hd. cbn [oadd].
      repeat split; try reflexivity; try ring.
      rewrite (response_parts gauss FM ps). ring.
    Qed.
  End Resp.
End Paths.
