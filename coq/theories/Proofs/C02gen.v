(* Lemmas for the static tie of the glue around the C02 kernels (harness/translate_c02.py instantiates the definitions from the
   current source on every run) and the facts about Model/C02glue.v that Props/C02.v states. *)
From Coq Require Import ZArith List Bool Arith Lia.
From QV Require Import Base.Alg Base.Sums Base.Mat Base.Tens Model.C01 Model.C02 Model.C02glue Proofs.C02.
Import ListNotations.

Section GlueGen.
  Context {R : StarRing}.
  Add Ring Rr : (rth R).
  Open Scope sr_scope.
  Variable n : nat.

  (* ---- products with numpy.diag(v) ---- *)
  Lemma mmul_mdiag_l (u : @vec R) (A : @mat R) i j : (i < n)%nat -> mmul n (mdiag u) A i j = u i * A i j.
  Proof.
    intros Hi. unfold mmul, mdiag. rewrite (sum_single n i); [now rewrite Nat.eqb_refl|exact Hi|].
    intros k _ Hk. destruct (Nat.eqb_spec i k); [congruence|ring].
  Qed.
  Lemma mmul_mdiag_r (v : @vec R) (A : @mat R) i j : (j < n)%nat -> mmul n A (mdiag v) i j = A i j * v j.
  Proof.
    intros Hj. unfold mmul, mdiag. rewrite (sum_single n j); [now rewrite Nat.eqb_refl|exact Hj|].
    intros k _ Hk. destruct (Nat.eqb_spec k j); [congruence|ring].
  Qed.
  Lemma mconj_mdiag (u : @vec R) i j : mconj (mdiag u) i j = mdiag (fun k => cj R (u k)) i j.
  Proof. unfold mconj, mdiag. destruct (Nat.eqb i j); [reflexivity|apply cj_0]. Qed.

  (* dot(Ut, dot(rho, conj(Ut))) and dot(dot(Ut, rho), conj(Ut)) with Ut = diag(u) *)
  Lemma dm_convert_is_model (u : @vec R) (rho : @mat R) : meq n (mmul n (mdiag u) (mmul n rho (mconj (mdiag u)))) (rwa_dm u rho).
  Proof.
    intros i j Hi Hj. rewrite mmul_mdiag_l by exact Hi. unfold rwa_dm.
    assert (H : mmul n rho (mconj (mdiag u)) i j = rho i j * cj R (u j)).
    { unfold mmul. rewrite (sum_single n j); [rewrite mconj_mdiag; unfold mdiag; now rewrite Nat.eqb_refl|exact Hj|].
      intros k _ Hk. rewrite mconj_mdiag. unfold mdiag. destruct (Nat.eqb_spec k j); [congruence|ring]. }
    rewrite H. ring.
  Qed.
  Lemma dm_convert_is_model' (u : @vec R) (rho : @mat R) : meq n (mmul n (mmul n (mdiag u) rho) (mconj (mdiag u))) (rwa_dm u rho).
  Proof.
    intros i j Hi Hj. unfold rwa_dm.
    transitivity (mmul n (mdiag u) rho i j * cj R (u j)).
    - unfold mmul at 1. rewrite (sum_single n j); [rewrite mconj_mdiag; unfold mdiag; now rewrite Nat.eqb_refl|exact Hj|].
      intros k _ Hk. rewrite mconj_mdiag. unfold mdiag. destruct (Nat.eqb_spec k j); [congruence|ring].
    - rewrite mmul_mdiag_l by exact Hi. ring.
  Qed.

  (* ---- the conversion machine ---- *)
  Lemma conv_from_idle (u : @vec R) (rho : @mat R) : conv_from_dm false 1 u rho = (false, rho).
  Proof. reflexivity. Qed.
  Lemma conv_to_idle (um : @vec R) (rho : @mat R) : conv_to_dm true um rho = (true, rho).
  Proof. reflexivity. Qed.
  Lemma conv_from_twice (u : @vec R) (rho : @mat R) f :
    conv_from_dm (fst (conv_from_dm f 1 u rho)) 1 u (snd (conv_from_dm f 1 u rho)) = (false, snd (conv_from_dm f 1 u rho)).
  Proof. reflexivity. Qed.
  (* to the rotating frame with the conjugate phases and back: the stored state and the flag are restored *)
  Lemma conv_roundtrip_dm (u : @vec R) (rho : @mat R) : (forall i, (i < n)%nat -> u i * cj R (u i) = 1) ->
    let s := conv_to_dm false (fun k => cj R (u k)) rho in
    fst s = true /\ fst (conv_from_dm (fst s) 1 u (snd s)) = false /\ meq n (snd (conv_from_dm (fst s) 1 u (snd s))) rho.
  Proof.
    intros Hu. cbn. split; [reflexivity|]. split; [reflexivity|].
    intros i j Hi Hj. unfold rwa_dm. rewrite cj_cj.
    transitivity ((u i * cj R (u i)) * rho i j * (u j * cj R (u j))); [ring|]. rewrite (Hu i Hi), (Hu j Hj). ring.
  Qed.
  Lemma conv_roundtrip_sv (u psi : @vec R) : (forall i, (i < n)%nat -> u i * cj R (u i) = 1) ->
    let s := conv_to_sv n false (fun k => cj R (u k)) psi in
    fst s = true /\ fst (conv_from_sv n (fst s) 1 u (snd s)) = false /\ veq n (snd (conv_from_sv n (fst s) 1 u (snd s))) psi.
  Proof.
    intros Hu. cbn. split; [reflexivity|]. split; [reflexivity|].
    intros i Hi. transitivity ((u i * cj R (u i)) * psi i); [ring|]. rewrite (Hu i Hi). ring.
  Qed.

  (* ---- pure dephasing ---- *)
  Section Deph.
    Variable ex : R -> R.
    Variable half : R.
    Hypothesis ex_add : forall a b, ex (a + b) = ex a * ex b.
    Hypothesis ex_0 : ex 0 = 1.
    Hypothesis half_half : half + half = 1.

    Lemma deph_mult_lorentzian gam dt tt i j : deph_mult ex half Lorentzian gam dt tt i j = ex (- (gam i j * dt)).
    Proof.
      unfold deph_mult, deph_expo, deph_t0. replace (- 0 * tt) with (0 : R) by ring. rewrite ex_0.
      replace (- gam i j * dt) with (- (gam i j * dt)) by ring. ring.
    Qed.
    Definition gsq (g t : R) : R := g * (t * t) * half.
    Lemma deph_mult_gaussian gam dt tt i j :
      deph_mult ex half Gaussian gam dt tt i j = ex (- (gsq (gam i j) (tt + dt) - gsq (gam i j) tt)).
    Proof.
      unfold deph_mult, deph_expo, deph_t0, gsq. rewrite <- ex_add. f_equal.
      set (g := gam i j).
      replace (- (g * dt) * tt) with (- ((half + half) * (g * dt * tt))) by (rewrite half_half; ring). ring.
    Qed.
    (* over k refined steps starting at t 0, t 1 = t 0 + dt, ...: the exact decay factor between t 0 and t k *)
    Lemma deph_acc_lorentzian gam dt (t : nat -> R) k i j : (forall m, t (S m) = t m + dt) ->
      deph_acc ex half Lorentzian gam dt t k i j = ex (- (gam i j * (t k - t 0%nat))).
    Proof.
      intros Ht. induction k as [|k IH]; cbn [deph_acc].
      - replace (- (gam i j * (t 0%nat - t 0%nat))) with (0 : R) by ring. now rewrite ex_0.
      - rewrite IH, deph_mult_lorentzian, <- ex_add. f_equal. rewrite (Ht k). ring.
    Qed.
    Lemma deph_acc_gaussian gam dt (t : nat -> R) k i j : (forall m, t (S m) = t m + dt) ->
      deph_acc ex half Gaussian gam dt t k i j = ex (- (gsq (gam i j) (t k) - gsq (gam i j) (t 0%nat))).
    Proof.
      intros Ht. induction k as [|k IH]; cbn [deph_acc].
      - replace (- (gsq (gam i j) (t 0%nat) - gsq (gam i j) (t 0%nat))) with (0 : R) by ring. now rewrite ex_0.
      - rewrite IH, deph_mult_gaussian, <- ex_add. f_equal. rewrite (Ht k). ring.
    Qed.
  End Deph.
  (* rho2 * expo * exp(-t0*tt), elementwise, is Model.C02.dephase with the product matrix *)
  Lemma apply_deph_is_model (E1 E2 rho : @mat R) i j : (i < n)%nat -> (j < n)%nat ->
    rho i j * E1 i j * E2 i j = dephase n (fun a b => E1 a b * E2 a b) rho i j.
  Proof. intros Hi Hj. unfold dephase. rewrite tab2_spec by assumption. ring. Qed.
End GlueGen.

(* ---- Hamiltonian.set_rwa ---- *)
Section SetRwa.
  Context {R : StarRing}.
  Add Ring Rr2 : (rth R).
  Open Scope sr_scope.
  Variable inv : nat -> R.
  Variable diag : @vec R.

  (* one pass of the loop over blocks: accumulate `term` over range(lo1, hi1) counting from k0 in steps of kinc, divide,
     assign over range(lo2, hi2) *)
  Definition set_rwa_step (lo1 hi1 lo2 hi2 k0 kinc : nat) (term : nat -> R) (acc : @vec R) : @vec R :=
    let en := sum (hi1 - lo1) (fun k => term (lo1 + k)%nat) in
    let m := en * inv (k0 + kinc * (hi1 - lo1))%nat in
    fun ii => if Nat.leb lo2 ii && Nat.ltb ii hi2 then m else acc ii.
  Fixpoint set_rwa_skel (up : nat -> nat) (lo1 hi1 lo2 hi2 : nat -> nat -> nat) (k0 kinc : nat) (term : nat -> R)
           (k b : nat) (acc : @vec R) : @vec R :=
    match k with
    | O => acc
    | S k' => let u := up b in
              set_rwa_skel up lo1 hi1 lo2 hi2 k0 kinc term k' (S b) (set_rwa_step (lo1 b u) (hi1 b u) (lo2 b u) (hi2 b u) k0 kinc term acc)
    end.
  Lemma set_rwa_skel_is_model idx nblocks dim up lo1 hi1 lo2 hi2 k0 kinc term :
    (forall b, up b = block_upper idx nblocks dim b) -> (forall b u, lo1 b u = idx b) -> (forall b u, hi1 b u = u) ->
    (forall b u, lo2 b u = idx b) -> (forall b u, hi2 b u = u) -> k0 = 0%nat -> kinc = 1%nat -> (forall ii, term ii = diag ii) ->
    forall k b acc, set_rwa_skel up lo1 hi1 lo2 hi2 k0 kinc term k b acc = rwa_energies_from inv diag idx nblocks dim k b acc.
  Proof.
    intros Hup Hl1 Hh1 Hl2 Hh2 -> -> Ht. induction k as [|k IH]; intros b acc; cbn [set_rwa_skel rwa_energies_from]; [reflexivity|].
    rewrite IH. f_equal. unfold set_rwa_step, block_mean. rewrite Hup, Hl1, Hh1, Hl2, Hh2.
    rewrite (sum_ext (block_upper idx nblocks dim b - idx b) (fun k0 => term (idx b + k0)%nat) (fun k0 => diag (idx b + k0)%nat)) by (intros; apply Ht).
    replace (0 + 1 * (block_upper idx nblocks dim b - idx b))%nat with (block_upper idx nblocks dim b - idx b)%nat by lia.
    reflexivity.
  Qed.

  (* with increasing block starts, every state of block b gets the mean of the diagonal over that block *)
  Definition in_block (idx : nat -> nat) (nblocks dim b ii : nat) : Prop := (idx b <= ii < block_upper idx nblocks dim b)%nat.
  Lemma in_block_dec idx nblocks dim b ii :
    Nat.leb (idx b) ii && Nat.ltb ii (block_upper idx nblocks dim b) = true <-> in_block idx nblocks dim b ii.
  Proof. unfold in_block. rewrite andb_true_iff, Nat.leb_le, Nat.ltb_lt. tauto. Qed.

  Lemma rwa_energies_from_spec idx nblocks dim : (forall b, (S b < nblocks)%nat -> (idx b <= idx (S b))%nat) ->
    forall k b0 acc, (b0 + k = nblocks)%nat ->
    forall ii, (forall b, (b0 <= b < nblocks)%nat -> in_block idx nblocks dim b ii ->
                 rwa_energies_from inv diag idx nblocks dim k b0 acc ii = block_mean inv diag (idx b) (block_upper idx nblocks dim b)) /\
               ((forall b, (b0 <= b < nblocks)%nat -> ~ in_block idx nblocks dim b ii) ->
                 rwa_energies_from inv diag idx nblocks dim k b0 acc ii = acc ii).
  Proof.
    intros Hmono.
    assert (Hm : forall b b', (b <= b')%nat -> (b' < nblocks)%nat -> (idx b <= idx b')%nat).
    { intros b b' Hle. induction Hle as [|b' Hle IH]; intros Hb'; [lia|]. specialize (Hmono b' Hb'). specialize (IH ltac:(lia)). lia. }
    induction k as [|k IH]; intros b0 acc Hk ii; cbn [rwa_energies_from].
    - split; [intros b Hb; lia|reflexivity].
    - cbv zeta.
      set (acc' := fun ii0 : nat => if Nat.leb (idx b0) ii0 && Nat.ltb ii0 (block_upper idx nblocks dim b0)
                                    then block_mean inv diag (idx b0) (block_upper idx nblocks dim b0) else acc ii0).
      destruct (IH (S b0) acc' ltac:(lia) ii) as [IH1 IH2]. split.
      + intros b Hb Hin. destruct (Nat.eq_dec b b0) as [->|Hne]; [|apply IH1; [lia|exact Hin]].
        rewrite IH2.
        * unfold acc'. replace (Nat.leb (idx b0) ii && Nat.ltb ii (block_upper idx nblocks dim b0)) with true; [reflexivity|].
          symmetry. now apply in_block_dec.
        * intros b' Hb' Hin'. unfold in_block, block_upper in Hin, Hin'.
          destruct (Nat.ltb_spec b0 (nblocks - 1)) as [Hlt|Hge]; [|lia].
          pose proof (Hm (S b0) b' ltac:(lia) ltac:(lia)). lia.
      + intros Hnot. rewrite IH2 by (intros b' Hb'; apply Hnot; lia).
        unfold acc'. replace (Nat.leb (idx b0) ii && Nat.ltb ii (block_upper idx nblocks dim b0)) with false; [reflexivity|].
        symmetry. apply not_true_is_false. intros He. apply in_block_dec in He. apply (Hnot b0); [lia|exact He].
  Qed.
  Lemma rwa_energies_block idx nblocks dim b ii : (forall b, (S b < nblocks)%nat -> (idx b <= idx (S b))%nat) ->
    (b < nblocks)%nat -> in_block idx nblocks dim b ii ->
    rwa_energies inv diag idx nblocks dim ii = block_mean inv diag (idx b) (block_upper idx nblocks dim b).
  Proof.
    intros Hmono Hb Hin. unfold rwa_energies.
    apply (proj1 (rwa_energies_from_spec idx nblocks dim Hmono nblocks 0 (fun _ => 0) ltac:(lia) ii) b ltac:(lia) Hin).
  Qed.
End SetRwa.

(* ---- propagate: the method string selects the order only, the options select the loop nest only; per-call refinement ---- *)
Lemma dispatch_spec a b c d e :
  dispatch a b c d e MShort = Some (target_of a b c d e, 4%Z) /\ dispatch a b c d e MShort2 = Some (target_of a b c d e, 2%Z) /\
  dispatch a b c d e MShort4 = Some (target_of a b c d e, 4%Z) /\ dispatch a b c d e MShort6 = Some (target_of a b c d e, 6%Z) /\
  dispatch a b c d e MOther = None /\
  target_of false b false false false = THam /\ target_of true false false false false = TRelax /\ target_of true true false false false = TTDRelax.
Proof. repeat split; destruct b; reflexivity. Qed.

Lemma percall_spec {R : StarRing} (st : Z * R) (Odt : R) (inv : Z -> R) (k : Z) :
  snd (percall st Odt inv k) = st /\
  ((1 < k)%Z -> fst (percall st Odt inv k) = (k, rmul R Odt (inv k))) /\ ((k <= 1)%Z -> fst (percall st Odt inv k) = st).
Proof.
  unfold percall, refine. destruct (Z.ltb_spec 1 k); cbn [fst snd]; (split; [reflexivity|]); split; intros; first [reflexivity | lia].
Qed.
