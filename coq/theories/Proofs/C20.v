From Coq Require Import ZArith List Bool Lia ZifyBool FinFun.
From QV Require Import Model.C20.
Import ListNotations.
Open Scope Z_scope.
Ltac Zify.zify_post_hook ::= Z.to_euclidean_division_equations.

(* ---------- closed forms of the two ends of a block ---------- *)
Definition per (size start stop : Z) := (stop - start) / size.
Definition rem (size start stop : Z) := (stop - start) mod size.

Lemma range_of_fst size start stop r :
  fst (range_of FromStart size start stop r) =
  start + r * per size start stop +
    (if r <=? rem size start stop then (if r =? 0 then 0 else r - 1) else rem size start stop).
Proof.
  unfold range_of, per, rem.
  destruct (r <=? (stop - start) mod size) eqn:E1; destruct (r =? 0) eqn:E2; cbn [fst]; ring.
Qed.

Lemma range_of_snd size start stop r :
  snd (range_of FromStart size start stop r) =
  start + (r + 1) * per size start stop +
    (if r <=? rem size start stop then (if r =? 0 then 0 else r) else rem size start stop).
Proof.
  unfold range_of, per, rem.
  destruct (r <=? (stop - start) mod size) eqn:E1; destruct (r =? 0) eqn:E2; cbn [snd]; ring.
Qed.

Lemma rem_bounds size start stop : 1 <= size -> 0 <= rem size start stop < size.
Proof. intros H; unfold rem; apply Z.mod_pos_bound; lia. Qed.

Lemma per_rem size start stop : 1 <= size ->
  stop - start = size * per size start stop + rem size start stop.
Proof. intros H; unfold per, rem; apply Z.div_mod; lia. Qed.

Lemma first_block_starts size start stop : 1 <= size ->
  fst (range_of FromStart size start stop 0) = start.
Proof.
  intros Hs. rewrite range_of_fst. pose proof (rem_bounds size start stop Hs).
  destruct (0 <=? rem size start stop) eqn:E; change (0 =? 0) with true; cbv iota; lia.
Qed.

Lemma blocks_abut size start stop r : 1 <= size -> 0 <= r -> r + 1 < size ->
  snd (range_of FromStart size start stop r) = fst (range_of FromStart size start stop (r + 1)).
Proof.
  intros Hs Hr Hr1. rewrite range_of_fst, range_of_snd.
  pose proof (rem_bounds size start stop Hs) as Hb.
  set (p := per size start stop). set (m := rem size start stop) in *.
  destruct (r <=? m) eqn:E1; destruct (r =? 0) eqn:E2; destruct (r + 1 <=? m) eqn:E3;
    destruct (r + 1 =? 0) eqn:E4; try lia.
Qed.

Lemma last_block_stops size start stop : 1 <= size ->
  snd (range_of FromStart size start stop (size - 1)) = stop.
Proof.
  intros Hs. rewrite range_of_snd.
  pose proof (rem_bounds size start stop Hs) as Hb.
  pose proof (per_rem size start stop Hs) as Hd.
  set (p := per size start stop) in *. set (m := rem size start stop) in *.
  destruct (size - 1 <=? m) eqn:E1; destruct (size - 1 =? 0) eqn:E2; try nia.
Qed.

Lemma block_length size start stop r : 1 <= size -> 0 <= r < size ->
  snd (range_of FromStart size start stop r) - fst (range_of FromStart size start stop r) =
  per size start stop + (if (1 <=? r) && (r <=? rem size start stop) then 1 else 0).
Proof.
  intros Hs Hr. rewrite range_of_fst, range_of_snd.
  set (p := per size start stop). set (m := rem size start stop).
  destruct (r <=? m) eqn:E1; destruct (r =? 0) eqn:E2; destruct (1 <=? r) eqn:E3; cbn [andb]; lia.
Qed.

Lemma per_nonneg size start stop : 1 <= size -> start <= stop -> 0 <= per size start stop.
Proof. intros; unfold per; apply Z.div_pos; lia. Qed.

Lemma per_neg size start stop : 1 <= size -> stop < start -> per size start stop <= -1.
Proof. intros; unfold per. assert ((stop - start) / size < 0) by (apply Z.div_lt_upper_bound; lia). lia. Qed.

Lemma block_nonneg size start stop r : 1 <= size -> start <= stop -> 0 <= r < size ->
  fst (range_of FromStart size start stop r) <= snd (range_of FromStart size start stop r).
Proof.
  intros Hs Hss Hr. pose proof (block_length size start stop r Hs Hr) as Hl.
  pose proof (per_nonneg size start stop Hs Hss).
  destruct ((1 <=? r) && (r <=? rem size start stop)); lia.
Qed.

Lemma lengths_differ_by_at_most_one size start stop r r' : 1 <= size -> 0 <= r < size -> 0 <= r' < size ->
  let len x := snd (range_of FromStart size start stop x) - fst (range_of FromStart size start stop x) in
  -1 <= len r - len r' <= 1.
Proof.
  intros Hs Hr Hr'. cbv beta zeta.
  rewrite (block_length size start stop r Hs Hr), (block_length size start stop r' Hs Hr').
  destruct ((1 <=? r) && (r <=? rem size start stop)); destruct ((1 <=? r') && (r' <=? rem size start stop)); lia.
Qed.

Lemma block_empty_when_reversed size start stop r : 1 <= size -> stop < start -> 0 <= r < size ->
  block FromStart size start stop r = [].
Proof.
  intros Hs Hss Hr. unfold block.
  pose proof (block_length size start stop r Hs Hr) as Hl.
  pose proof (per_neg size start stop Hs Hss).
  destruct (range_of FromStart size start stop r) as [a b]; cbn [fst snd] in *.
  unfold zrange. replace (Z.to_nat (b - a)) with 0%nat; [reflexivity|].
  destruct ((1 <=? r) && (r <=? rem size start stop)); lia.
Qed.

Lemma short_range_blocks size start stop r : 1 <= size -> 0 <= stop - start < size -> 0 <= r < size ->
  let len := snd (range_of FromStart size start stop r) - fst (range_of FromStart size start stop r) in
  len = 0 \/ len = 1.
Proof.
  intros Hs Hw Hr. cbv beta zeta. rewrite (block_length size start stop r Hs Hr).
  assert (per size start stop = 0) as -> by (unfold per; apply Z.div_small; lia).
  destruct ((1 <=? r) && (r <=? rem size start stop)); lia.
Qed.

(* ---------- ranges as Python lists ---------- *)
Lemma zrange_nil a b : b <= a -> zrange a b = [].
Proof. intros H; unfold zrange. replace (Z.to_nat (b - a)) with 0%nat by lia. reflexivity. Qed.

Lemma map_seq_shift a (m : nat) n s :
  map (fun k => a + Z.of_nat m + Z.of_nat k) (seq s n) = map (fun k => a + Z.of_nat k) (seq (m + s) n).
Proof.
  revert s; induction n as [|n IH]; intros s; cbn [seq map]; [reflexivity|].
  f_equal; [lia|]. rewrite IH. now rewrite Nat.add_succ_r.
Qed.

Lemma zrange_app a b c : a <= b -> b <= c -> zrange a b ++ zrange b c = zrange a c.
Proof.
  intros H1 H2. unfold zrange.
  replace (Z.to_nat (c - a)) with (Z.to_nat (b - a) + Z.to_nat (c - b))%nat by lia.
  rewrite seq_app, map_app. f_equal.
  cbn [Nat.add].
  transitivity (map (fun k => a + Z.of_nat (Z.to_nat (b - a)) + Z.of_nat k) (seq 0 (Z.to_nat (c - b)))).
  - apply map_ext. intros k. lia.
  - rewrite map_seq_shift. now rewrite Nat.add_0_r.
Qed.

Lemma in_zrange a b i : In i (zrange a b) <-> a <= i < b.
Proof.
  unfold zrange; rewrite in_map_iff; split.
  - intros [k [Hk Hin]]. apply in_seq in Hin. lia.
  - intros H. exists (Z.to_nat (i - a)). split; [lia|]. apply in_seq. lia.
Qed.

Lemma NoDup_zrange a b : NoDup (zrange a b).
Proof.
  unfold zrange. apply FinFun.Injective_map_NoDup; [|apply seq_NoDup].
  intros x y Hxy; lia.
Qed.

(* concatenation of the first k blocks *)
Lemma first_blocks size start stop (k : nat) : 1 <= size -> start <= stop -> (1 <= k)%nat -> Z.of_nat k <= size ->
  flat_map (fun r => block FromStart size start stop (Z.of_nat r)) (seq 0 k) =
  zrange start (snd (range_of FromStart size start stop (Z.of_nat k - 1))).
Proof.
  intros Hs Hss. induction k as [|k IH]; intros Hk Hks; [lia|].
  destruct k as [|k].
  - cbn [seq flat_map]. rewrite app_nil_r. unfold block.
    pose proof (first_block_starts size start stop Hs) as H0.
    change (Z.of_nat 0) with 0. change (Z.of_nat 1 - 1) with 0.
    destruct (range_of FromStart size start stop 0) as [a b]; cbn [fst snd] in *. now subst.
  - rewrite seq_S, flat_map_app. cbn [flat_map Nat.add]. rewrite app_nil_r.
    rewrite IH by lia.
    unfold block at 1.
    pose proof (blocks_abut size start stop (Z.of_nat (S k) - 1) Hs ltac:(lia) ltac:(lia)) as Hab.
    replace (Z.of_nat (S k) - 1 + 1) with (Z.of_nat (S k)) in Hab by lia.
    replace (Z.of_nat (S (S k)) - 1) with (Z.of_nat (S k)) by lia.
    pose proof (block_nonneg size start stop (Z.of_nat (S k)) Hs Hss ltac:(lia)) as Hnn.
    assert (start <= snd (range_of FromStart size start stop (Z.of_nat (S k) - 1))) as Hge.
    { clear IH Hab Hnn. induction k as [|k IHk].
      - change (Z.of_nat 1 - 1) with 0.
        pose proof (block_nonneg size start stop 0 Hs Hss ltac:(lia)).
        pose proof (first_block_starts size start stop Hs). lia.
      - pose proof (blocks_abut size start stop (Z.of_nat (S k) - 1) Hs ltac:(lia) ltac:(lia)) as Hab.
        replace (Z.of_nat (S k) - 1 + 1) with (Z.of_nat (S (S k)) - 1) in Hab by lia.
        pose proof (block_nonneg size start stop (Z.of_nat (S (S k)) - 1) Hs Hss ltac:(lia)).
        specialize (IHk ltac:(lia) ltac:(lia)). lia. }
    destruct (range_of FromStart size start stop (Z.of_nat (S k))) as [a b]; cbn [fst snd] in *.
    rewrite Hab. apply zrange_app; lia.
Qed.

Lemma blocks_concat_is_range size start stop : 1 <= size -> start <= stop ->
  all_blocks FromStart size start stop = zrange start stop.
Proof.
  intros Hs Hss. unfold all_blocks.
  rewrite (first_blocks size start stop (Z.to_nat size) Hs Hss) by lia.
  rewrite Z2Nat.id by lia. now rewrite last_block_stops.
Qed.

Lemma blocks_concat_reversed size start stop : 1 <= size -> stop < start ->
  all_blocks FromStart size start stop = [].
Proof.
  intros Hs Hss. unfold all_blocks.
  assert (forall l, (forall r, In r l -> (r < Z.to_nat size)%nat) ->
     flat_map (fun r => block FromStart size start stop (Z.of_nat r)) l = []) as H.
  { induction l as [|x l IH]; intros Hl; [reflexivity|]. cbn [flat_map].
    rewrite block_empty_when_reversed; try lia.
    - apply IH. intros r Hr; apply Hl; now right.
    - specialize (Hl x (or_introl eq_refl)). lia. }
  apply H. intros r Hr. apply in_seq in Hr. lia.
Qed.

(* monotonicity: an earlier block ends no later than a later block starts *)
Lemma blocks_ordered size start stop (r d : nat) : 1 <= size -> start <= stop ->
  Z.of_nat r + 1 + Z.of_nat d < size ->
  snd (range_of FromStart size start stop (Z.of_nat r)) <=
  fst (range_of FromStart size start stop (Z.of_nat r + 1 + Z.of_nat d)).
Proof.
  intros Hs Hss. induction d as [|d IH]; intros Hd.
  - rewrite (blocks_abut size start stop (Z.of_nat r)) by lia.
    replace (Z.of_nat r + 1 + Z.of_nat 0) with (Z.of_nat r + 1) by lia. lia.
  - specialize (IH ltac:(lia)).
    pose proof (blocks_abut size start stop (Z.of_nat r + 1 + Z.of_nat d) Hs ltac:(lia) ltac:(lia)) as Hab.
    pose proof (block_nonneg size start stop (Z.of_nat r + 1 + Z.of_nat d) Hs Hss ltac:(lia)).
    replace (Z.of_nat r + 1 + Z.of_nat (S d)) with (Z.of_nat r + 1 + Z.of_nat d + 1) by lia. lia.
Qed.

Lemma exactly_one_block size start stop i : 1 <= size -> start <= i < stop ->
  exists r, (0 <= r < size /\ In i (block FromStart size start stop r)) /\
    forall r', 0 <= r' < size -> In i (block FromStart size start stop r') -> r' = r.
Proof.
  intros Hs Hi.
  assert (In i (all_blocks FromStart size start stop)) as Hin
    by (rewrite blocks_concat_is_range by lia; apply in_zrange; lia).
  unfold all_blocks in Hin. apply in_flat_map in Hin. destruct Hin as [r [Hr Hin]].
  apply in_seq in Hr. exists (Z.of_nat r). split; [split; [lia|exact Hin]|].
  intros r' Hr' Hin'.
  unfold block in Hin, Hin'.
  destruct (range_of FromStart size start stop (Z.of_nat r)) as [a b] eqn:Er.
  destruct (range_of FromStart size start stop r') as [a' b'] eqn:Er'.
  apply in_zrange in Hin. apply in_zrange in Hin'.
  destruct (Z.lt_trichotomy r' (Z.of_nat r)) as [Hlt|[Heq|Hgt]]; [|exact Heq|].
  - pose proof (blocks_ordered size start stop (Z.to_nat r') (Z.to_nat (Z.of_nat r - r' - 1)) Hs ltac:(lia) ltac:(lia)) as Ho.
    rewrite !Z2Nat.id in Ho by lia. replace (r' + 1 + (Z.of_nat r - r' - 1)) with (Z.of_nat r) in Ho by lia.
    rewrite Er, Er' in Ho. cbn [fst snd] in Ho. lia.
  - pose proof (blocks_ordered size start stop r (Z.to_nat (r' - Z.of_nat r - 1)) Hs ltac:(lia) ltac:(lia)) as Ho.
    rewrite !Z2Nat.id in Ho by lia. replace (Z.of_nat r + 1 + (r' - Z.of_nat r - 1)) with r' in Ho by lia.
    rewrite Er, Er' in Ho. cbn [fst snd] in Ho. lia.
Qed.

(* ---------- sum reduction in any monoid ---------- *)
Section Reduce.
  Variable A : Type.
  Variable op : A -> A -> A.
  Variable e : A.
  Hypothesis op_assoc : forall x y z, op x (op y z) = op (op x y) z.
  Hypothesis op_e_l : forall x, op e x = x.

  Definition msum (l : list A) : A := fold_right op e l.

  Lemma msum_app l m : msum (l ++ m) = op (msum l) (msum m).
  Proof. unfold msum. induction l as [|x l IH]; cbn [app fold_right]; [now rewrite op_e_l|]. now rewrite IH, op_assoc. Qed.

  Lemma msum_flat_map {B} (g : B -> list A) (l : list B) :
    msum (flat_map g l) = msum (map (fun b => msum (g b)) l).
  Proof. induction l as [|b l IH]; cbn [flat_map map]; [reflexivity|]. rewrite msum_app, IH. reflexivity. Qed.

  (* each rank sums f over its block; the partial results are reduced over ranks *)
  Lemma reduce_eq_serial (f : Z -> A) size start stop : 1 <= size -> start <= stop ->
    msum (map (fun r => msum (map f (block FromStart size start stop (Z.of_nat r)))) (seq 0 (Z.to_nat size)))
    = msum (map f (zrange start stop)).
  Proof.
    intros Hs Hss. rewrite <- (blocks_concat_is_range size start stop Hs Hss).
    unfold all_blocks. rewrite <- (msum_flat_map (fun r => map f (block FromStart size start stop (Z.of_nat r)))).
    f_equal. induction (seq 0 (Z.to_nat size)) as [|x l IH]; cbn; [reflexivity|].
    now rewrite map_app, IH.
  Qed.
End Reduce.

(* at every nesting level the all-reduced result on every process equals the serial result *)
Lemma allreduce_eq_serial (A : Type) (op : A -> A -> A) (e : A)
  (op_assoc : forall x y z, op x (op y z) = op (op x y) z) (op_e_l : forall x, op e x = x)
  (f : Z -> A) level size start stop rank : 1 <= size -> start <= stop ->
  after_allreduce op e level size
    (fun r => msum A op e (map f (api_block level FromStart size start stop (Z.of_nat r)))) rank
  = msum A op e (map f (zrange start stop)).
Proof.
  intros Hs Hss. unfold after_allreduce, api_block. destruct (level =? 1).
  - exact (reduce_eq_serial A op e op_assoc op_e_l f size start stop Hs Hss).
  - reflexivity.
Qed.

(* list / array helpers are the range helper on [0, len) *)
Lemma list_blocks_partition size len : 1 <= size -> 0 <= len ->
  flat_map (fun r => list_block FromStart size len (Z.of_nat r)) (seq 0 (Z.to_nat size)) = zrange 0 len.
Proof. intros; apply (blocks_concat_is_range size 0 len); lia. Qed.

Lemma array_blocks_partition size len : 1 <= size -> 0 <= len ->
  flat_map (fun r => array_block true FromStart size len (Z.of_nat r)) (seq 0 (Z.to_nat size)) = zrange 0 len.
Proof. intros; apply (blocks_concat_is_range size 0 len); lia. Qed.

(* the pinned variant coincides with the repaired one exactly when start = 0 *)
Lemma fromzero_ok_at_zero size stop r :
  range_of FromZero size 0 stop r = range_of FromStart size 0 stop r.
Proof.
  unfold range_of. destruct (r <=? (stop - 0) mod size); destruct (r =? 0); f_equal; ring.
Qed.

Lemma fromzero_shifted size start stop r :
  range_of FromStart size start stop r =
  (start + fst (range_of FromZero size start stop r), start + snd (range_of FromZero size start stop r)).
Proof.
  unfold range_of. destruct (r <=? (stop - start) mod size); destruct (r =? 0); reflexivity.
Qed.

Lemma start_ignored_witness :
  all_blocks FromZero 3 5 12 = [0;1;2;3;4;5;6] /\ zrange 5 12 = [5;6;7;8;9;10;11].
Proof. split; vm_compute; reflexivity. Qed.

Lemma array_index_witness :
  flat_map (fun r => array_block false FromStart 2 3 (Z.of_nat r)) (seq 0 2) = [0;1;2;0;1;2].
Proof. vm_compute; reflexivity. Qed.
