(* Model for C18 (executable definitions only).

   Part A - exported data (quantarhei/core/datasaveable.py): _data_with_axis / _extract_data_with_axis
   as functions on arrays given as lists, the dispatch by format, and the shape behaviour of the file
   readers (numpy.loadtxt drops dimensions of length one, scipy.io.loadmat returns at least two
   dimensions).  The writers/readers themselves are oracles: identities on the VALUES.

   Part B - saved objects (core/parcel.py, core/saveable.py): the whole object is pickled, i.e. the raw
   (basis tag, protection, data) triple of a basis-managed object is stored and a NEW, unregistered
   object with that triple is created by load.  Runs on the basis-management machine of Model/C04.v.

   Part C - units: an energy-units-managed quantity is stored in internal units (Model/C05.v
   conversions); the parcel copies the stored value.

   Part D - savedir / loaddir sessions (core/saveable.py).

   Part E - what the static tie (harness/translate_c18.py, Proofs/C18gen.v) reads off the code in addition: the dtype of
   the packed array (values stored into it are cast), the kind of writer/reader pair an extension dispatches to, and
   the `ndmin` the text reader passes to numpy.loadtxt. *)
From Coq Require Import String.
From Coq Require Import List Bool Arith QArith.
From Coq Require Import ZArith.
From QV Require Import Base.Alg Base.Sums Base.Mat Base.Tens Base.Util Model.C04 Model.C04x Model.C05.
Import ListNotations.
Local Open Scope nat_scope.

(* ---------------------------------------------------------------------------------------------- *)
(*  Part A                                                                                        *)
(* ---------------------------------------------------------------------------------------------- *)
Section Data.
  Variable A : Type.

  (* shapes (), (N,), (N,M): a 2-index array carries its width so that N = 0 keeps a shape *)
  Inductive arr := A0 (x : A) | A1 (l : list A) | A2 (w : nat) (rows : list (list A)).

  Fixpoint zip_with {B C D} (f : B -> C -> D) (l : list B) (m : list C) : list D :=
    match l, m with
    | x :: l', y :: m' => f x y :: zip_with f l' m'
    | _, _ => []
    end.

  Definition flat (d : arr) : list A :=
    match d with A0 x => [x] | A1 l => l | A2 _ rows => concat rows end.
  Definition wf (d : arr) : Prop :=
    match d with A2 w rows => Forall (fun r => length r = w) rows | _ => True end.
  Definition nrows (d : arr) : nat :=
    match d with A0 _ => 0 | A1 l => length l | A2 _ rows => length rows end.

  (* _data_with_axis: None = exception (shape () / more than two indices, or lengths that do not fit) *)
  Definition pack (ax : list A) (d : arr) : option arr :=
    match d with
    | A1 l => if Nat.eqb (length ax) (length l) then Some (A2 2 (zip_with (fun a x => [a; x]) ax l)) else None
    | A2 w rows => if Nat.eqb (length ax) (length rows) then Some (A2 (S w) (zip_with cons ax rows)) else None
    | A0 _ => None
    end.

  Definition heads (rows : list (list A)) : list A := concat (map (firstn 1) rows).
  (* _extract_data_with_axis (axis given): (axis data, data) *)
  Definition extract (d : arr) : option (list A * arr) :=
    match d with
    | A2 2 rows => Some (heads rows, A1 (concat (map (skipn 1) rows)))
    | A2 (S (S (S w))) rows => Some (heads rows, A2 (S (S w)) (map (skipn 1) rows))
    | _ => None
    end.

  Inductive fmt := Dat | Txt | Npy | Npz | Mat.
  (* the pinned _saveBinaryData_compressed calls the non-existent numpy.save_compressed when an axis
     is given; the pinned text import lets loadtxt drop a leading dimension of length one *)
  Record dvariant := mkDV { npz_axis_saves : bool; text_axis_ndmin2 : bool }.
  Definition dpinned := mkDV false false.
  Definition drepaired := mkDV true true.

  (* what comes back from the file: the reader's shape conventions *)
  Definition squeeze (d : arr) : arr :=
    match d with
    | A2 w [row] => match row with [x] => A0 x | _ => A1 row end        (* (1,M) -> (M,), (1,1) -> () *)
    | A2 1 rows => A1 (concat rows)                                     (* (N,1) -> (N,) *)
    | A1 [x] => A0 x                                                    (* (1,) -> () *)
    | _ => d
    end.
  Definition atleast2d (d : arr) : arr :=
    match d with A0 x => A2 1 [[x]] | A1 l => A2 (length l) [l] | _ => d end.
  Definition through (v : dvariant) (f : fmt) (with_axis : bool) (d : arr) : option arr :=
    match f with
    | Dat | Txt => match d with
                   | A0 _ => None                       (* savetxt refuses an array without indices *)
                   | _ => Some (if with_axis && text_axis_ndmin2 v then d else squeeze d)
                   end
    | Npy => Some d
    | Npz => if with_axis && negb (npz_axis_saves v) then None else Some d
    | Mat => Some (atleast2d d)
    end.

  (* save_data(name, with_axis) followed by load_data(name, with_axis) *)
  Definition export_import (v : dvariant) (f : fmt) (ax : option (list A)) (d : arr)
    : option (option (list A) * arr) :=
    match ax with
    | None => match through v f false d with Some d' => Some (None, d') | None => None end
    | Some a =>
        match pack a d with
        | None => None
        | Some p => match through v f true p with
                    | None => None
                    | Some p' => match extract p' with Some (a', d') => Some (Some a', d') | None => None end
                    end
        end
    end.

  (* shapes for which the file formats have a faithful representation *)
  Definition regular (d : arr) : Prop :=
    match d with
    | A0 _ => False
    | A1 l => 2 <= length l
    | A2 w rows => 2 <= w /\ 2 <= length rows /\ Forall (fun r => length r = w) rows
    end.
End Data.
Arguments A0 {A}. Arguments A1 {A}. Arguments A2 {A}.

(* executable equality for the correspondence (integers: real and imaginary parts) *)
Section DataEq.
  Variable A : Type.
  Variable eqb : A -> A -> bool.
  Fixpoint l_eqb (a b : list A) : bool :=
    match a, b with [], [] => true | x :: a', y :: b' => eqb x y && l_eqb a' b' | _, _ => false end.
  Fixpoint ll_eqb (a b : list (list A)) : bool :=
    match a, b with [], [] => true | x :: a', y :: b' => l_eqb x y && ll_eqb a' b' | _, _ => false end.
  Definition arr_eqb (a b : arr A) : bool :=
    match a, b with
    | A0 x, A0 y => eqb x y
    | A1 l, A1 m => l_eqb l m
    | A2 w r, A2 w' r' => Nat.eqb w w' && ll_eqb r r'
    | _, _ => false
    end.
  Definition res_eqb (a b : option (option (list A) * arr A)) : bool :=
    match a, b with
    | None, None => true
    | Some (None, d), Some (None, d') => arr_eqb d d'
    | Some (Some x, d), Some (Some x', d') => l_eqb x x' && arr_eqb d d'
    | _, _ => false
    end.
End DataEq.

(* ---------------------------------------------------------------------------------------------- *)
(*  Part B                                                                                        *)
(* ---------------------------------------------------------------------------------------------- *)
Section Parcel.
  Variables G X : Type.
  Variable gid : G.
  Variable gmul : G -> G -> G.
  Variable ginv : G -> G.
  Variable act : G -> X -> X.

  (* Parcel.save: pickles __dict__ : the raw triple, no transformation, no bookkeeping *)
  Definition save (s : mst G X) (i : nat) : option (obj X) := heap G X s i.
  (* load_parcel: a new object (label j) with the stored triple, registered with no basis *)
  Definition load (s : mst G X) (j : nat) (o : obj X) : mst G X := set_new G X s j o.

  Inductive op18 :=
  | ONew (i : nat) (x : X)
  | ORead (i : nat)
  | OEnter (opi : nat) (T : G)       (* __enter__ of eigenbasis_of(object opi), T its diagonaliser *)
  | OLeave                           (* __exit__ *)
  | OSave (i k : nat)                (* object i -> file k *)
  | OLoad (k j : nat).               (* file k -> new object j *)

  Inductive out18 := Val (i : nat) (x : X) | Err (i : nat).   (* Err: "Basis of the object is not on stack." *)

  Definition files := nat -> option (obj X).
  Definition step18 (st : mst G X * files) (o : op18) : (mst G X * files) * list out18 :=
    let '(s, fs) := st in
    match o with
    | ONew i x => ((create G X s i x, fs), [])
    | ORead i =>
        match heap G X s i, read G X gid gmul act s i with
        | Some _, Some (s', Some x) => ((s', fs), [Val i x])
        | _, _ => ((s, fs), [Err i])
        end
    | OEnter opi T =>
        match heap G X s opi, enter_prepare G X gid gmul act s opi with
        | Some _, Some s0 => ((enter G X s0 T, fs), [])
        | _, _ => ((s, fs), [Err opi])
        end
    | OLeave => ((leave G X ginv act s, fs), [])
    | OSave i k => ((s, fun k' => if Nat.eqb k' k then save s i else fs k'), [])
    | OLoad k j => match fs k with Some ob => ((load s j ob, fs), []) | None => ((s, fs), [Err j]) end
    end.
  Fixpoint run18 (st : mst G X * files) (p : list op18) : (mst G X * files) * list out18 :=
    match p with
    | [] => (st, [])
    | o :: p' => let '(st1, o1) := step18 st o in let '(st2, o2) := run18 st1 p' in (st2, o1 ++ o2)
    end.
End Parcel.

(* ---------------------------------------------------------------------------------------------- *)
(*  Part C                                                                                        *)
(* ---------------------------------------------------------------------------------------------- *)
Section Units.
  Variable fac : eunit -> Q.
  (* an energy-valued quantity given as x in units u0, saved while units us are current, loaded while
     units ul are current, read while units v are current *)
  Definition stored (u0 : eunit) (x : Q) : Q := to_int fac u0 x.            (* the setter converts once *)
  Definition parcel_copy (us ul : eunit) (y : Q) : Q := y.                  (* pickling copies _data *)
  Definition read_units (v : eunit) (y : Q) : Q := to_cur fac v y.
End Units.

(* ---------------------------------------------------------------------------------------------- *)
(*  executable instances for the correspondence check                                             *)
(* ---------------------------------------------------------------------------------------------- *)
(* Part A on Gaussian integers (re, im) *)
Definition zz_eqb (a b : Z * Z) : bool := Z.eqb (fst a) (fst b) && Z.eqb (snd a) (snd b).
Definition fcase := (bool * fmt * option (list (Z * Z)) * arr (Z * Z) * option (option (list (Z * Z)) * arr (Z * Z)))%type.
(* (repaired variant?, format, axis, data, what load_data(save_data(.)) produced; None = an exception) *)
Definition fcase_agrees (c : fcase) : bool :=
  let '(rep, f, ax, d, obs) := c in
  res_eqb _ zz_eqb (export_import _ (if rep then drepaired else dpinned) f ax d) obs.
Definition fcase_pinned_agrees (c : fcase) : bool :=
  let '(rep, f, ax, d, obs) := c in res_eqb _ zz_eqb (export_import _ dpinned f ax d) obs.

(* Part B on integer matrices with signed-permutation basis changes (Model/C04x.v) *)
Inductive xout := XVal (i : nat) (m : list (list Z)) | XErr (i : nat).
Definition pcase := (nat * list (op18 gmat xdata) * list xout)%type.
Definition xout_eqb (n : nat) (a : out18 xdata) (b : xout) : bool :=
  match a, b with
  | Val _ i x, XVal j m => Nat.eqb i j && x_eqb n (Some x) (OM m)
  | Err _ i, XErr j => Nat.eqb i j
  | _, _ => false
  end.
Definition pcase_agrees (c : pcase) : bool :=
  let '(n, p, obs) := c in
  let '(_, outs) := run18 gmat xdata x_gid (x_gmul n) (x_ginv n) (x_act n) (fresh_mst, fun _ => None) p in
  all2 (xout_eqb n) outs obs.

(* ---------------------------------------------------------------------------------------------- *)
(*  Part D - savedir / loaddir sessions (core/saveable.py)                                         *)
(* ---------------------------------------------------------------------------------------------- *)
(* A directory holds one parcel per savedir call (unique file name) and the table _hashes_.qrp
   tag -> file, a Python dict: insertion ordered, assignment to an existing key keeps its position.
   Abstracting the file names, a directory is the ordered table tag -> saved object.  savedir into a
   directory that does not exist starts from the empty table (self.hashes = {}), into an existing one
   from the table read from the directory. *)
Inductive tagv := TInt (z : Z) | TStr (n : nat).
Definition tag_eqb (a b : tagv) : bool :=
  match a, b with TInt x, TInt y => Z.eqb x y | TStr x, TStr y => Nat.eqb x y | _, _ => false end.
(* the tag savedir chooses when none is given: the pinned code takes the LAST key of the table + 1
   (TypeError when that key is a string); the repaired code 1 + the largest integer key, 1 if none *)
Inductive tvariant := TagPinned | TagRepaired.

Section Dir.
  Variable O : Type.                       (* what a parcel holds *)
  Definition table := list (tagv * O).
  Fixpoint tset (t : table) (k : tagv) (x : O) : table :=
    match t with
    | [] => [(k, x)]
    | (k', y) :: t' => if tag_eqb k' k then (k', x) :: t' else (k', y) :: tset t' k x
    end.
  Fixpoint tget (t : table) (k : tagv) : option O :=
    match t with [] => None | (k', y) :: t' => if tag_eqb k' k then Some y else tget t' k end.
  Definition int_keys (t : table) : list Z :=
    concat (map (fun e => match fst e with TInt z => [z] | TStr _ => [] end) t).
  (* None: TypeError *)
  Definition auto_tag (v : tvariant) (t : table) : option tagv :=
    match v with
    | TagPinned =>        (* list(self.hashes.keys())[-1] + 1, or 1 for an empty table *)
        match last (map (fun e => Some (fst e)) t) None with
        | None => Some (TInt 1)
        | Some (TInt z) => Some (TInt (z + 1))
        | Some (TStr _) => None
        end
    | TagRepaired =>      (* max(integer keys) + 1, or 1 if there is none *)
        Some (TInt (match int_keys t with [] => 1 | z :: zs => fold_left Z.max zs z + 1 end))
    end.

  Definition dirs := nat -> option table.
  Inductive dop := SaveDir (d : nat) (tag : option tagv) (x : O) | LoadDir (d : nat).
  Inductive dout := DSaved (k : tagv) | DLoaded (t : table) | DErr.

  Definition savedir (v : tvariant) (s : dirs) (d : nat) (tag : option tagv) (x : O) : dirs * dout :=
    let t := match s d with Some t => t | None => [] end in
    match (match tag with Some k => Some k | None => auto_tag v t end) with
    | Some k => (fun d' => if Nat.eqb d' d then Some (tset t k x) else s d', DSaved k)
    | None => (s, DErr)          (* raised before anything was written (the directory existed) *)
    end.
  Definition dstep (v : tvariant) (s : dirs) (o : dop) : dirs * dout :=
    match o with
    | SaveDir d tag x => savedir v s d tag x
    | LoadDir d => (s, match s d with Some t => DLoaded t | None => DErr end)
    end.
  Fixpoint drun (v : tvariant) (s : dirs) (h : list dop) : dirs * list dout :=
    match h with
    | [] => (s, [])
    | o :: h' => let '(s1, r) := dstep v s o in let '(s2, rs) := drun v s1 h' in (s2, r :: rs)
    end.
  Definition target (o : dop) : nat := match o with SaveDir d _ _ => d | LoadDir d => d end.
  Definition no_dirs : dirs := fun _ => None.
End Dir.
Arguments SaveDir {O}. Arguments LoadDir {O}. Arguments DSaved {O}. Arguments DLoaded {O}. Arguments DErr {O}.

(* correspondence: objects are identified by a number *)
Definition tab_eqb (a b : table nat) : bool :=
  (fix go (a b : table nat) : bool :=
     match a, b with
     | [], [] => true
     | (k, x) :: a', (k', y) :: b' => tag_eqb k k' && Nat.eqb x y && go a' b'
     | _, _ => false
     end) a b.
Definition dout_eqb (a b : dout nat) : bool :=
  match a, b with
  | DSaved k, DSaved k' => tag_eqb k k'
  | DLoaded t, DLoaded t' => tab_eqb t t'
  | DErr, DErr => true
  | _, _ => false
  end.
Definition dcase := (list (dop nat) * list (dout nat))%type.
Definition dcase_agrees (c : dcase) : bool := all2 dout_eqb (snd (drun nat TagRepaired (no_dirs nat) (fst c))) (snd c).
Definition dcase_pinned_agrees (c : dcase) : bool := all2 dout_eqb (snd (drun nat TagPinned (no_dirs nat) (fst c))) (snd c).

(* ---------------------------------------------------------------------------------------------- *)
(*  Part E - dtype of the packed array, dispatch by extension, ndmin of the text reader            *)
(* ---------------------------------------------------------------------------------------------- *)
(* numpy's numeric tower as far as the packed array is concerned: integer (and bool) < float < complex;
   numpy.result_type of two of them is the larger one *)
Inductive dty := DInt | DReal | DCplx.
Definition dt_le (a b : dty) : bool :=
  match a, b with DInt, _ => true | DReal, DInt => false | DReal, _ => true | DCplx, DCplx => true | DCplx, _ => false end.
Definition dt_join (a b : dty) : dty := if dt_le a b then b else a.

Section Typed.
  Variable A : Type.
  Variable cast : dty -> A -> A.          (* what storing a value into an array of that dtype keeps of it *)
  Definition amap (f : A -> A) (d : arr A) : arr A :=
    match d with A0 x => A0 (f x) | A1 l => A1 (map f l) | A2 w rows => A2 w (map (map f) rows) end.
  (* _data_with_axis with the packed array allocated as dtype dt *)
  Definition pack_t (dt : dty) (ax : list A) (d : arr A) : option (arr A) := pack A (map (cast dt) ax) (amap (cast dt) d).
  Definition fits (t : dty) (x : A) : Prop := cast t x = x.
End Typed.

(* the writer/reader pairs: savetxt/loadtxt, save/load, savez_compressed/load[key], savemat/loadmat[key] *)
Inductive wkind := KText | KNpy | KNpz | KMat.
Definition kind_of (f : fmt) : wkind := match f with Dat | Txt => KText | Npy => KNpy | Npz => KNpz | Mat => KMat end.
Definition ext_of (f : fmt) : string := match f with Dat => ".dat" | Txt => ".txt" | Npy => ".npy" | Npz => ".npz" | Mat => ".mat" end%string.
Definition text_ndmin (v : dvariant) (with_axis : bool) : Z := if with_axis && text_axis_ndmin2 v then 2%Z else 0%Z.
Definition through_k (A : Type) (v : dvariant) (k : wkind) (with_axis : bool) (d : arr A) : option (arr A) :=
  match k with
  | KText => match d with
             | A0 _ => None
             | _ => Some (if (text_ndmin v with_axis =? 2)%Z then d else squeeze A d)
             end
  | KNpy => Some d
  | KNpz => if with_axis && negb (npz_axis_saves v) then None else Some d
  | KMat => Some (atleast2d A d)
  end.

(* the cast of the correspondence instance (Gaussian integers): a real or integer array keeps the real part *)
Definition zcast (t : dty) (x : Z * Z) : Z * Z := match t with DCplx => x | _ => (fst x, 0%Z) end.
