(* Model of quantarhei/builders/aggregate_base.py: elsignatures/_add_excitation (state enumeration by
   excitation signature), allstates (indices, bands), _get_exindx, transition_dipole, the decision tree
   of AggregateBase.coupling (branch taken by build(): vibronic states, full=False), of
   aggregate_states.py: ElectronicState.band/energy, the loops of AggregateBase._build that fill HH and
   DD, and of quantarhei/builders/interactions.py: dipole_dipole_interaction.
   Executable definitions only. *)
From Coq Require Import ZArith List Bool Arith.
From QV Require Import Base.Alg Base.Sums Base.Mat.
Import ListNotations.

Definition sig := list nat.     (* electronic signature: state of every molecule *)

Fixpoint sig_eqb (a b : sig) : bool :=
  match a, b with
  | [], [] => true
  | x :: a', y :: b' => Nat.eqb x y && sig_eqb a' b'
  | _, _ => false
  end.

(* out = inlist.copy(); out[i] += 1 *)
Fixpoint raise (s : sig) (i : nat) : sig :=
  match s with
  | [] => []
  | x :: s' => match i with O => S x :: s' | S i' => x :: raise s' i' end
  end.

(* _add_excitation for one signature: "for i in range(strt, l): if inlist[i] < omax[i]: yield out, i" *)
Definition add_one (omax : list nat) (inl : sig) (strt : nat) : list (sig * nat) :=
  flat_map (fun i => if Nat.ltb (nth i inl 0) (nth i omax 0) then [(raise inl i, i)] else [])
           (seq strt (length inl - strt)).

(* _add_excitation(inlists, strt, omax); the two parallel lists are kept zipped *)
Definition add_excitation (omax : list nat) (ins : list (sig * nat)) : list (sig * nat) :=
  flat_map (fun p => add_one omax (fst p) (snd p)) ins.

(* the inner "while k <= mlt" loop of elsignatures: mlt excitations added to the ground state *)
Definition level (omax : list nat) (mlt : nat) : list (sig * nat) :=
  Nat.iter mlt (add_excitation omax) [(repeat 0 (length omax), 0)].

(* elsignatures(mult, mode="EQ") and elsignatures(mult, mode="LQ") *)
Definition elsigs_eq (omax : list nat) (mult : nat) : list sig := map fst (level omax mult).
Definition elsigs (omax : list nat) (mult : nat) : list sig :=
  flat_map (elsigs_eq omax) (seq 0 (S mult)).

(* ElectronicState.band; which_band[ist] = numpy.sum(ess1) *)
Definition band (s : sig) : nat := list_sum s.
Definition which_band (omax : list nat) (mult : nat) : list nat := map band (elsigs omax mult).
(* Nb[ii] = number_of_states_in_band(ii) (molecules without vibrational modes) *)
Definition Nb (omax : list nat) (mult : nat) : list nat :=
  map (fun ii => length (elsigs_eq omax ii)) (seq 0 (S mult)).

(* the loop "for i in range(Ns): if els1[i] != els2[i]: ..." : positions where two signatures differ *)
Fixpoint diffs (i : nat) (a b : sig) : list nat :=
  match a, b with
  | x :: a', y :: b' => if Nat.eqb x y then diffs (S i) a' b' else i :: diffs (S i) a' b'
  | _, _ => []
  end.

(* numpy.sum(numpy.abs(ar1-ar2)) *)
Fixpoint absdiff (a b : sig) : nat :=
  match a, b with
  | x :: a', y :: b' => (x - y) + (y - x) + absdiff a' b'
  | _, _ => 0
  end.

Section Build.
  Context {R : StarRing}.
  Open Scope sr_scope.
  Variable N : nat.                   (* nmono *)
  Variable E : nat -> nat -> R.       (* monomers[k].elenergies[n] *)
  Variable J : nat -> nat -> R.       (* resonance_coupling[k,l] *)
  Variable dip : nat -> nat -> R.     (* monomers[k].dmoments[0,1,c] *)
  Variable sqrtf : nat -> R.          (* numpy.sqrt on a small integer: oracle *)

  (* ElectronicState.energy (no vibrational part): en = 0.0; for k: en += elenergies[k][sig[k]] *)
  Definition energy (s : sig) : R := sum N (fun k => E k (nth k s 0%nat)).

  (* AggregateBase.coupling, branch for two VibronicState arguments with full=False;
     i1, i2 = ElectronicState.index of the two states, fc = fc_factor(state1, state2) *)
  Definition coupling (s1 : sig) (i1 : nat) (s2 : sig) (i2 : nat) (fc : R) : R :=
    if Nat.ltb 1 N then
      if Nat.eqb (band s1) (band s2) then
        if Nat.eqb (band s1) 1 then
          match i1, i2 with
          | S kk, S ll => J kk ll * fc
          | _, _ => 0
          end
        else
          match diffs 0 s1 s2 with
          | [kk; ll] =>
              if Nat.eqb (absdiff s1 s2) 2
              then J kk ll * (fc * (sqrtf (Nat.max (nth kk s1 0%nat) (nth kk s2 0%nat)) *
                                    sqrtf (Nat.max (nth ll s1 0%nat) (nth ll s2 0%nat))))
              else 0
          | _ => 0
          end
      else 0
    else 0.

  (* _get_exindx: None stands for -1 *)
  Definition exindx (s1 s2 : sig) : option nat :=
    let d := ((band s1 - band s2) + (band s2 - band s1))%nat in
    if negb (Nat.eqb d 1) && negb (Nat.eqb d 2) then None
    else match diffs 0 s1 s2 with
         | [l] => Some l
         | _ => None
         end.

  (* transition_dipole, component c *)
  Definition trdip (s1 s2 : sig) (fc : R) (c : nat) : R :=
    match exindx s1 s2 with
    | Some k => dip k c * fc
    | None => 0
    end.

  (* the double loop of _build over all_states (one vibrational signature () per electronic state, so
     the state index equals the electronic index and fc_factor is the empty product 1.0) *)
  Variable sigs : list sig.
  Definition build_H : @mat R := fun a b =>
    if Nat.eqb a b then energy (nth a sigs [])
    else coupling (nth a sigs []) a (nth b sigs []) b 1.
  Definition build_D (c : nat) : @mat R := fun a b => trdip (nth a sigs []) (nth b sigs []) 1 c.
End Build.

(* ---- relabelling of the molecules: new molecule i is old molecule sigma(i) ---- *)
Definition pfun (sigma : list nat) (i : nat) : nat := nth i sigma 0.
Definition relabel_sig (sigma : list nat) (s : sig) : sig := map (fun k => nth k s 0) sigma.
Fixpoint pos_of (s : sig) (l : list sig) : nat :=
  match l with
  | [] => 0
  | x :: l' => if sig_eqb x s then 0 else S (pos_of s l')
  end.

(* ---- dipole-dipole interaction (interactions.py) over any field; RR = numpy.sqrt(dot(R,R)) is an
        oracle value handed in ---- *)
Section Dipole.
  Variable F : Type.
  Variables (f0 f1 : F) (fadd fmul fsub fdiv : F -> F -> F).
  Local Notation "x +' y" := (fadd x y) (at level 50, left associativity).
  Local Notation "x *' y" := (fmul x y) (at level 40, left associativity).
  Definition fdot3 (u v : nat -> F) : F := u 0%nat *' v 0%nat +' u 1%nat *' v 1%nat +' u 2%nat *' v 2%nat.
  Definition f3 : F := f1 +' f1 +' f1.
  Definition f4 : F := f1 +' f1 +' f1 +' f1.
  (* R = r1 - r2; prf = 1.0/(4.0*pi*eps0_int);
     cc = dot(d1,d2)/(RR**3) - 3.0*dot(d1,R)*dot(d2,R)/(RR**5); return prf*cc/epsr *)
  Definition dipole_dipole (r1 r2 d1 d2 : nat -> F) (RR pi eps0 epsr : F) : F :=
    let Rv := fun c => fsub (r1 c) (r2 c) in
    let prf := fdiv f1 (f4 *' pi *' eps0) in
    let cc := fsub (fdiv (fdot3 d1 d2) (RR *' RR *' RR))
                   (fdiv (f3 *' fdot3 d1 Rv *' fdot3 d2 Rv) (RR *' RR *' RR *' RR *' RR)) in
    fdiv (prf *' cc) epsr.
  (* core/units.py: eps0_int = 1.0e19/(4.0*pi*J2int) *)
  Definition eps0_int (e19 pi J2int : F) : F := fdiv e19 (f4 *' pi *' J2int).
End Dipole.

(* ---- executable instances for the correspondence check ---- *)
Definition zvec (l : list Z) : nat -> ZR := fun i => nth i l 0%Z.
Definition zmat (l : list (list Z)) : nat -> nat -> ZR := fun i j => nth j (nth i l []) 0%Z.
(* numpy.sqrt restricted to what two-level molecules need; other arguments never occur there *)
Definition zsqrt (n : nat) : ZR := match n with 1%nat => 1%Z | _ => 0%Z end.
