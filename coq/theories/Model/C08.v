(* Model of quantarhei/qm/liouvillespace/evolutionsuperoperator.py for time-independent generators:
     _elemental_step_TimeIndep     U1[:,:,n,m] = one dense step of the propagator applied to the basis matrix E_nm
     _one_step_with_dense_TimeIndep  Udt = U1 ; repeat (Ndense-1) times: Udt = tensordot(U1, Udt)
     calculate / _calculate_remainig_using_first_interval   data[0] = 1, data[1] = Udt, data[ti] = tensordot(Udt, data[ti-1])
     calculate_next (mode "jit", with and without save)      state machine over `now`
     apply(t_i, rho) = tensordot(data[i], rho)
   Executable definitions only. *)
From Coq Require Import ZArith List Bool Arith QArith Qcanon.
From QV Require Import Base.Alg Base.Sums Base.Mat Base.Tens Base.Taylor Base.TaylorG Base.TensId Base.Util Model.C01 Model.C02.
Import ListNotations.

Fixpoint iter {A : Type} (k : nat) (f : A -> A) (x : A) : A := match k with O => x | S k' => f (iter k' f x) end.

Section Model.
  Context {R : StarRing}.
  Open Scope sr_scope.
  Variable n : nat.

  (* columns of the elementary step: propagate every basis matrix over one dense step *)
  Definition elemental (step : @mat R -> @mat R) : @tens R := tab4 n (fun a b p q => step (basis_el p q) a b).

  Fixpoint tpow_l (k : nat) (U1 Udt : @tens R) : @tens R :=
    match k with
    | O => Udt
    | S k' => tpow_l k' U1 (tab4 n (tcomp n U1 Udt))
    end.
  Definition one_step_dense (Ndense : nat) (U1 : @tens R) : @tens R := tpow_l (Ndense - 1) U1 U1.

  (* mode "all": the list data[0], ..., data[Nt-1] *)
  Fixpoint calc_rest (k : nat) (Udt prev : @tens R) : list (@tens R) :=
    match k with
    | O => []
    | S k' => let nxt := tab4 n (tcomp n Udt prev) in nxt :: calc_rest k' Udt nxt
    end.
  Definition calc_all (Nt : nat) (Udt : @tens R) : list (@tens R) :=
    match Nt with
    | O => []
    | S O => [tid]
    | S (S k) => tid :: Udt :: calc_rest k Udt Udt
    end.

  (* mode "jit": (now, current tensor); the first call installs Udt, later ones contract with it *)
  Definition jit_next (Udt : @tens R) (s : nat * @tens R) : nat * @tens R :=
    match fst s with
    | O => (1%nat, Udt)
    | S _ => (S (fst s), tab4 n (tcomp n Udt (snd s)))
    end.
  Definition jit_run (k : nat) (Udt : @tens R) : nat * @tens R := iter k (jit_next Udt) (0%nat, tid).

  (* the mathematical power: k-fold composition of Udt *)
  Fixpoint tpower (k : nat) (U : @tens R) : @tens R :=
    match k with O => tid | S k' => tcomp n U (tpower k' U) end.
End Model.

(* ---------------- executable instance: generator = -i[H,.] + R (tensor form), order 4, Lorentzian dephasing optional ---- *)
Record case08 := mkCase08 {
  e_n : nat; e_H : list (list (Q * Q)); e_R : list (list (list (list (Q * Q))));
  e_dt : Q;             (* dense time step *)
  e_ndense : nat; e_nt : nat;
  e_rho : list (list (Q * Q));                          (* a state to apply to *)
  e_data : list (list (list (list (list (Q * Q)))));    (* implementation: data[0..Nt-1] *)
  e_jit : list (list (list (list (list (Q * Q)))));     (* implementation: jit tensors after 1,2,.. calls *)
  e_applied : list (list (list (Q * Q)));               (* implementation: apply(t_i, rho) for every i *)
  e_tol : Q
}.
Definition case08_step (c : case08) : @mat GQ -> @mat GQ :=
  let n := e_n c in
  let G := G_tensor gq_i n (gq_mat (e_H c)) (tab4 n (gq_tens (e_R c))) in
  fun rho => gstep (dm_add n) (dm_scale n) (fun _ => G) no_deph (qprefs (e_dt c) 4) 0 rho.
Definition case08_Udt (c : case08) : @tens GQ := one_step_dense (e_n c) (e_ndense c) (elemental (e_n c) (case08_step c)).
Definition agrees08 (c : case08) : bool :=
  let n := e_n c in let Udt := case08_Udt c in
  all2 (fun T l => gq_tens_close (e_tol c) n T (gq_tens l)) (calc_all n (e_nt c) Udt) (e_data c) &&
  all2 (fun k l => gq_tens_close (e_tol c) n (snd (jit_run n k Udt)) (gq_tens l)) (seq 1 (length (e_jit c))) (e_jit c) &&
  all2 (fun T l => gq_mat_close (e_tol c) n (tapply n T (gq_mat (e_rho c))) (gq_mat l)) (calc_all n (e_nt c) Udt) (e_applied c).
