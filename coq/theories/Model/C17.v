(* Model of quantarhei/qm/liouvillespace/rates/ratematrix.py (RateMatrix.set_rate),
   quantarhei/qm/propagators/poppropagator.py (_propagate_short_exp, get_PropagationMatrix's
   recursion) and quantarhei/core/valueaxis.py (is_subset_of).  Executable definitions only. *)
From Coq Require Import ZArith List Bool QArith Qcanon.
From QV Require Import Base.Alg Base.Sums Base.Mat Base.Taylor Base.Util.
Import ListNotations.

Section Model.
  Context {R : StarRing}.
  Open Scope sr_scope.

  Definition upd (A : @mat R) (a b : nat) (v : R) : mat :=
    fun i j => if Nat.eqb i a && Nat.eqb j b then v else A i j.

  (* numpy index: non-negative below n, or negative down to -n (wraps), else IndexError *)
  Definition pyidx (n : nat) (i : Z) : option nat :=
    if ((0 <=? i) && (i <? Z.of_nat n))%Z then Some (Z.to_nat i)
    else if ((- Z.of_nat n <=? i) && (i <? 0))%Z then Some (Z.to_nat (i + Z.of_nat n))
    else None.

  (* RateMatrix.set_rate((N,M), value): None = an exception was raised (before any write) *)
  Definition set_rate (n : nat) (A : @mat R) (pos : Z * Z) (v : R) : option mat :=
    let '(N, M) := pos in
    if (N =? M)%Z then None
    else match pyidx n N, pyidx n M with
         | Some a, Some b =>
             let orig := A a b in
             let A1 := upd A a b v in
             let A2 := upd A1 b b (A1 b b + orig) in
             Some (upd A2 b b (A2 b b - v))
         | _, _ => None
         end.

  (* a history of assignments; the matrix is kept when a call raises *)
  Definition apply_op (n : nat) (A : @mat R) (op : Z * Z * R) : mat :=
    match set_rate n A (fst op) (snd op) with Some A' => tab2 n n A' | None => A end.
  Definition raised (n : nat) (A : @mat R) (op : Z * Z * R) : bool :=
    match set_rate n A (fst op) (snd op) with Some _ => false | None => true end.
  Fixpoint run_ops (n : nat) (A : @mat R) (ops : list (Z * Z * R)) : mat * list bool :=
    match ops with
    | [] => (A, [])
    | op :: rest => let '(A', fl) := run_ops n (apply_op n A op) rest in (A', raised n A op :: fl)
    end.
  Definition history (n : nat) (A : @mat R) (ops : list (Z * Z * R)) : mat := fst (run_ops n A ops).

  (* population propagation, L = length prefs, Nref = 1 *)
  Definition padd (n : nat) (p q : @vec R) : vec := tab n (fun i => p i + q i).
  Definition pscale (n : nat) (c : R) (p : @vec R) : vec := tab n (fun i => c * p i).
  Definition pG (n : nat) (K : @mat R) (p : @vec R) : vec := tab n (mv n K p).
  Definition pop_traj (n : nat) (K : @mat R) (prefs : list R) (nsteps : nat) (p0 : @vec R) : list vec :=
    traj (padd n) (pscale n) (pG n K) nsteps 1 prefs p0.

  (* get_PropagationMatrix: U[:,:,0] = U0, U[:,:,i] = E . U[:,:,i-1] with E the (oracle) exponential
     of one sub-axis step; U0 = E^Ns for a start shifted by Ns sub-axis steps *)
  Fixpoint mpow_apply (n k : nat) (E U : @mat R) : mat :=
    match k with O => U | S k' => tab2 n n (mmul n E (mpow_apply n k' E U)) end.
  Definition prop_matrix (n : nat) (E : @mat R) (Ns : nat) (i : nat) : mat :=
    mpow_apply n i E (mpow_apply n Ns E mid).
End Model.

(* ---- executable instances used by the correspondence check ---- *)
Definition list_of_mat {R : StarRing} (n : nat) (A : @mat R) : list (list R) :=
  map (fun i => map (A i) (seq 0 n)) (seq 0 n).
Definition list_of_vec {R : StarRing} (n : nat) (v : @vec R) : list R := map v (seq 0 n).

(* set_rate histories on integer matrices: (n, initial, ops, final as returned, raised flags) *)
Definition case_hist := (nat * list (list Z) * list (Z * Z * Z) * list (list Z) * list bool)%type.
Definition hist_agrees (c : case_hist) : bool :=
  let '(n, init, ops, fin, flags) := c in
  let '(A, fl) := run_ops (R:=ZR) n (mat_of (R:=ZR) init) ops in
  all2 (all2 Z.eqb) (list_of_mat n A) fin && all2 Bool.eqb fl flags.

(* propagation over the rationals: K, dt, p0 exact; result compared within tol *)
Definition q2c (q : Q) : QR := Q2Qc q.
Definition prefs_of (dt : Q) (L : nat) : list QR := map (fun l => q2c (dt / inject_Z (Z.of_nat l))) (seq 1 L).
Definition case_prop := (nat * list (list Q) * Q * nat * list Q * list (list Q))%type.
Definition prop_agrees (tol : Q) (c : case_prop) : bool :=
  let '(n, K, dt, nsteps, p0, pops) := c in
  let tr := pop_traj (R:=QR) n (mat_of (R:=QR) (map (map q2c) K)) (prefs_of dt 4) nsteps (vec_of (R:=QR) (map q2c p0)) in
  all2 (fun v row => all2 (fun x y => qr_close tol x (q2c y)) (list_of_vec n v) row) tr pops.
(* the model's own verdict on conservation for the same run (exact) *)
Definition prop_conserves (c : case_prop) : bool :=
  let '(n, K, dt, nsteps, p0, pops) := c in
  let tr := pop_traj (R:=QR) n (mat_of (R:=QR) (map (map q2c) K)) (prefs_of dt 4) nsteps (vec_of (R:=QR) (map q2c p0)) in
  forallb (fun v => qr_eqb (sum n v) (sum n (vec_of (R:=QR) (map q2c p0)))) tr.

(* is_subset_of on exact rationals: axis = (start, length, step); [rnd] is Python's round() applied by
   the caller to step_sub/step (an oracle integer handed over by the harness) *)
Definition axis := (Q * nat * Q)%type.
Definition ax_point (a : axis) (k : nat) : Q := let '(s, _, d) := a in s + inject_Z (Z.of_nat k) * d.
Definition ax_max (a : axis) : Q := let '(s, len, d) := a in s + inject_Z (Z.of_nat (len - 1)) * d.
Definition ax_mem (x : Q) (a : axis) : bool :=
  let '(_, len, _) := a in existsb (fun k => Qeq_bool x (ax_point a k)) (seq 0 len).
Definition is_subset_of (rnd : Z) (sub ax : axis) : bool :=
  let '(s1, _, d1) := sub in let '(_, _, d) := ax in
  Qeq_bool (inject_Z rnd * d) d1 && (ax_mem s1 ax && negb (Qle_bool (ax_max ax) s1)) && ax_mem (ax_max sub) ax.

