(* The storage code of quantarhei/spectroscopy/twod2.py as transcribed by harness/translate_c19.py (`--emit-code`) into
   the combinators of Model/C19py.v at the time the refinement proofs of Proofs/C19gen.v were made.  On every run the
   check transcribes the current source again (definitions gen_X) and proves gen_X = code_X.  Do not edit by hand. *)
From Coq Require Import ZArith List Bool String.
From QV Require Import Base.Alg Model.C19 Model.C19py.
Import ListNotations.
Open Scope string_scope.
Section Code.
Context {R : StarRing}.
Notation pv := (@pv R).
Notation fn := (@fn R).
Notation expr := (@expr R).

Definition code_c_ptypes : pv := Eval vm_compute in (eval_const (e_list [(e_const (VKey (DP R1g))); (e_const (VKey (DP R2g))); (e_const (VKey (DP R3g))); (e_const (VKey (DP R4g))); (e_const (VKey (DP R1fs))); (e_const (VKey (DP R2fs))); (e_const (VKey (DP R3fs))); (e_const (VKey (DP R4fs)))])).

Definition code_c_processes : pv := Eval vm_compute in (eval_const (e_dict [(e_const (VKey (DQ GSB)), (e_list [(e_bino p_getitem (e_const code_c_ptypes) (e_const (VInt (0)))); (e_bino p_getitem (e_const code_c_ptypes) (e_const (VInt (1))))])); (e_const (VKey (DQ SE)), (e_list [(e_bino p_getitem (e_const code_c_ptypes) (e_const (VInt (2)))); (e_bino p_getitem (e_const code_c_ptypes) (e_const (VInt (3))))])); (e_const (VKey (DQ ESA)), (e_list [(e_bino p_getitem (e_const code_c_ptypes) (e_const (VInt (4)))); (e_bino p_getitem (e_const code_c_ptypes) (e_const (VInt (5))))])); (e_const (VKey (DQ DCp)), (e_list [(e_bino p_getitem (e_const code_c_ptypes) (e_const (VInt (6)))); (e_bino p_getitem (e_const code_c_ptypes) (e_const (VInt (7))))]))])).

Definition code_c_signals : pv := Eval vm_compute in (eval_const (e_dict [((e_const (VKey (DS REPH))), (e_list [(e_bino p_getitem (e_const code_c_ptypes) (e_const (VInt (1)))); (e_bino p_getitem (e_const code_c_ptypes) (e_const (VInt (2)))); (e_bino p_getitem (e_const code_c_ptypes) (e_const (VInt (4))))])); ((e_const (VKey (DS NONR))), (e_list [(e_bino p_getitem (e_const code_c_ptypes) (e_const (VInt (0)))); (e_bino p_getitem (e_const code_c_ptypes) (e_const (VInt (3)))); (e_bino p_getitem (e_const code_c_ptypes) (e_const (VInt (5))))])); ((e_const (VKey (DS DCs))), (e_list [(e_bino p_getitem (e_const code_c_ptypes) (e_const (VInt (6)))); (e_bino p_getitem (e_const code_c_ptypes) (e_const (VInt (7))))]))])).

Definition code_c_total : pv := Eval vm_compute in (eval_const (e_const (VKey DTot))).

Definition code_c_resolutions : pv := Eval vm_compute in (eval_const (e_list [(e_const (VLev Off)); (e_const (VLev Signals)); (e_const (VLev Processes)); (e_const (VLev Types)); (e_const (VLev Pathways))])).

Definition code__resolution2number : fn :=
 def_fun ["v0"] []
 (s_if (e_bino p_in (e_var "v0") (e_const code_c_resolutions))
 (s_return (e_bin p_index (e_const code_c_resolutions) (e_var "v0")))
 (s_raise EOther)).

Definition code__types_to_processes : fn :=
 def_fun ["v0"] ["v1"; "v2"; "v3"; "v4"]
 (s_seq (s_if (e_attr "storage_initialized")
 (s_assign "v1" e_zeros)
 (s_assign "v1" (e_const VNone)))
 (s_seq (s_assign "v2" (e_bino p_getitem (e_const code_c_processes) (e_var "v0")))
 (s_seq (s_for "v3" (e_var "v2")
 (s_seq (s_try (s_assign "v4" (e_bino p_getitem (e_attr "_d__data") (e_var "v3")))
 [(HKey, (s_assign "v4" (e_const VNone))); (HAttr, (s_assign "v4" (e_const VNone)))])
 (s_if (e_un p_not (e_un p_isnone (e_var "v4")))
 (s_if (e_un p_not (e_un p_isnone (e_var "v1")))
 (s_assign "v1" (e_bin p_add (e_var "v1") (e_var "v4")))
 (s_assign "v1" (e_var "v4")))
 s_skip)))
 (s_return (e_var "v1"))))).

Definition code__types_to_signals : fn :=
 def_fun ["v0"] ["v1"; "v2"; "v3"; "v4"]
 (s_seq (s_if (e_attr "storage_initialized")
 (s_assign "v1" e_zeros)
 (s_assign "v1" (e_const VNone)))
 (s_seq (s_assign "v2" (e_bino p_getitem (e_const code_c_signals) (e_var "v0")))
 (s_seq (s_for "v3" (e_var "v2")
 (s_seq (s_try (s_assign "v4" (e_bino p_getitem (e_attr "_d__data") (e_var "v3")))
 [(HKey, (s_assign "v4" (e_const VNone))); (HAttr, (s_assign "v4" (e_const VNone)))])
 (s_if (e_un p_not (e_un p_isnone (e_var "v4")))
 (s_if (e_un p_not (e_un p_isnone (e_var "v1")))
 (s_assign "v1" (e_bin p_add (e_var "v1") (e_var "v4")))
 (s_assign "v1" (e_var "v4")))
 s_skip)))
 (s_return (e_var "v1"))))).

Definition code__types_to_total : fn :=
 def_fun [] ["v0"; "v1"]
 (s_seq (s_if (e_attr "storage_initialized")
 (s_seq (s_assign "v0" e_zeros)
 (s_for "v1" (e_const code_c_processes)
 (s_assign "v0" (e_bin p_add (e_var "v0") (e_call code__types_to_processes [(e_var "v1")])))))
 (s_assign "v0" (e_const VNone)))
 (s_return (e_var "v0"))).

Definition code__signals_to_total : fn :=
 def_fun [] ["v0"; "v1"]
 (s_seq (s_if (e_attr "storage_initialized")
 (s_seq (s_assign "v0" e_zeros)
 (s_for "v1" (e_const code_c_signals)
 (s_try (s_assign "v0" (e_bin p_add (e_var "v0") (e_bino p_getitem (e_attr "_d__data") (e_var "v1"))))
 [(HKey, s_skip)])))
 (s_assign "v0" (e_const VNone)))
 (s_return (e_var "v0"))).

Definition code__processes_to_total : fn :=
 def_fun [] ["v0"; "v1"]
 (s_seq (s_if (e_attr "storage_initialized")
 (s_seq (s_assign "v0" e_zeros)
 (s_for "v1" (e_const code_c_processes)
 (s_try (s_assign "v0" (e_bin p_add (e_var "v0") (e_bino p_getitem (e_attr "_d__data") (e_var "v1"))))
 [(HKey, s_skip)])))
 (s_assign "v0" (e_const VNone)))
 (s_return (e_var "v0"))).

Definition code__pathways_to_processes : fn :=
 def_fun ["v0"] ["v1"; "v2"; "v3"; "v4"; "v5"]
 (s_seq (s_if (e_attr "storage_initialized")
 (s_assign "v1" e_zeros)
 (s_return (e_const VNone)))
 (s_seq (s_if (e_un p_not (e_bino p_in (e_var "v0") (e_const code_c_processes)))
 (s_raise EOther)
 (s_seq (s_assign "v2" (e_bino p_getitem (e_const code_c_processes) (e_var "v0")))
 (s_for "v3" (e_var "v2")
 (s_seq (s_try (s_assign "v4" (e_bino p_getitem (e_attr "_d__data") (e_var "v3")))
 [(HAll, (s_assign "v4" (e_list [])))])
 (s_for "v5" (e_var "v4")
 (s_assign "v1" (e_bin p_add (e_var "v1") (e_bino p_getitem (e_var "v4") (e_var "v5")))))))))
 (s_return (e_var "v1")))).

Definition code__pathways_to_signals : fn :=
 def_fun ["v0"] ["v1"; "v2"; "v3"; "v4"; "v5"]
 (s_seq (s_if (e_attr "storage_initialized")
 (s_assign "v1" e_zeros)
 (s_assign "v1" (e_const VNone)))
 (s_seq (s_if (e_un p_not (e_bino p_in (e_var "v0") (e_const code_c_signals)))
 (s_raise EOther)
 (s_seq (s_assign "v2" (e_bino p_getitem (e_const code_c_signals) (e_var "v0")))
 (s_for "v3" (e_var "v2")
 (s_seq (s_try (s_assign "v4" (e_bino p_getitem (e_attr "_d__data") (e_var "v3")))
 [(HAll, (s_assign "v4" (e_list [])))])
 (s_for "v5" (e_var "v4")
 (s_assign "v1" (e_bin p_add (e_var "v1") (e_bino p_getitem (e_var "v4") (e_var "v5")))))))))
 (s_return (e_var "v1")))).

Definition code__pathways_to_total : fn :=
 def_fun [] ["v0"; "v1"]
 (s_seq (s_if (e_attr "storage_initialized")
 (s_assign "v0" e_zeros)
 (s_assign "v0" (e_const VNone)))
 (s_seq (s_for "v1" (e_const code_c_signals)
 (s_assign "v0" (e_bin p_add (e_var "v0") (e_call code__pathways_to_signals [(e_var "v1")]))))
 (s_return (e_var "v0")))).

Definition code_getter : fn :=
 def_fun [] ["v0"; "v1"; "v2"; "v3"; "v4"; "v5"; "v6"]
 (s_seq (s_assign "v0" (e_attr "_d__data"))
 (s_if (e_bin p_eq (e_attr "storage_resolution") (e_const (VLev Pathways)))
 (s_if (e_bino p_in (e_attr "current_dtype") (e_const code_c_ptypes))
 (s_seq (s_if (e_attr "storage_initialized")
 (s_try (s_assign "v1" (e_bino p_getitem (e_var "v0") (e_attr "current_dtype")))
 [(HAll, (s_return e_zeros))])
 (s_return (e_const VNone)))
 (s_if (e_un p_not (e_un p_isnone (e_attr "current_tag")))
 (s_return (e_bino p_getitem (e_var "v1") (e_attr "current_tag")))
 (s_seq (s_assign "v2" (e_const (VInt (0))))
 (s_seq (s_for "v3" (e_var "v1")
 (s_seq (s_assign "v4" (e_bino p_getitem (e_var "v1") (e_var "v3")))
 (s_seq (s_if (e_bin p_eq (e_const (VInt (0))) (e_var "v2"))
 (s_assign "v5" (e_un p_copy (e_var "v4")))
 (s_assign "v5" (e_bin p_add (e_var "v5") (e_var "v4"))))
 (s_assign "v2" (e_bin p_add (e_var "v2") (e_const (VInt (1))))))))
 (s_return (e_var "v5"))))))
 (s_if (e_bino p_in (e_attr "current_dtype") (e_const code_c_processes))
 (s_return (e_call code__pathways_to_processes [(e_attr "current_dtype")]))
 (s_if (e_bino p_in (e_attr "current_dtype") (e_const code_c_signals))
 (s_return (e_call code__pathways_to_signals [(e_attr "current_dtype")]))
 (s_if (e_bin p_eq (e_attr "current_dtype") (e_const code_c_total))
 (s_return (e_call code__pathways_to_total []))
 (s_raise EOther)))))
 (s_if (e_bin p_eq (e_attr "storage_resolution") (e_const (VLev Types)))
 (s_if (e_bino p_in (e_attr "current_dtype") (e_const code_c_ptypes))
 (s_seq (s_try (s_assign "v6" (e_bino p_getitem (e_var "v0") (e_attr "current_dtype")))
 [(HKey, (s_assign "v6" (e_const VNone)))])
 (s_return (e_var "v6")))
 (s_if (e_bino p_in (e_attr "current_dtype") (e_const code_c_processes))
 (s_return (e_call code__types_to_processes [(e_attr "current_dtype")]))
 (s_if (e_bino p_in (e_attr "current_dtype") (e_const code_c_signals))
 (s_return (e_call code__types_to_signals [(e_attr "current_dtype")]))
 (s_if (e_bin p_eq (e_attr "current_dtype") (e_const code_c_total))
 (s_return (e_call code__types_to_total []))
 (s_raise EOther)))))
 (s_if (e_bin p_eq (e_attr "storage_resolution") (e_const (VLev Processes)))
 (s_if (e_bino p_in (e_attr "current_dtype") (e_const code_c_processes))
 (s_seq (s_try (s_assign "v6" (e_bino p_getitem (e_var "v0") (e_attr "current_dtype")))
 [(HKey, (s_assign "v6" (e_const VNone)))])
 (s_return (e_var "v6")))
 (s_if (e_bin p_eq (e_attr "current_dtype") (e_const code_c_total))
 (s_return (e_call code__processes_to_total []))
 (s_raise EOther)))
 (s_if (e_bin p_eq (e_attr "storage_resolution") (e_const (VLev Signals)))
 (s_if (e_bino p_in (e_attr "current_dtype") (e_const code_c_signals))
 (s_seq (s_try (s_assign "v6" (e_bino p_getitem (e_var "v0") (e_attr "current_dtype")))
 [(HKey, (s_assign "v6" (e_const VNone)))])
 (s_return (e_var "v6")))
 (s_if (e_bin p_eq (e_attr "current_dtype") (e_const code_c_total))
 (s_return (e_call code__signals_to_total []))
 (s_raise EOther)))
 (s_if (e_bin p_eq (e_attr "storage_resolution") (e_const (VLev Off)))
 (s_if (e_bin p_eq (e_attr "current_dtype") (e_const code_c_total))
 (s_seq (s_try (s_assign "v6" (e_bino p_getitem (e_var "v0") (e_const code_c_total)))
 [(HKey, (s_assign "v6" (e_const VNone)))])
 (s_return (e_var "v6")))
 (s_raise EOther))
 (s_raise EOther))))))).

Definition code_setter : fn :=
 def_fun ["v0"] ["v1"; "v2"; "v3"]
 (s_seq (s_assign "v1" (e_attr "storage_initialized"))
 (s_seq (s_if (e_un p_not (e_var "v1"))
 (s_seq (s_setattr "_d__data" (e_dict []))
 (s_setattr "storage_initialized" (e_const (VBool true))))
 s_skip)
 (s_if (e_un p_isarr (e_var "v0"))
 (s_seq (s_assign "v2" (e_attr "_d__data"))
 (s_if (e_bin p_eq (e_attr "storage_resolution") (e_const (VLev Pathways)))
 (s_seq (s_if (e_un p_not (e_bino p_in (e_attr "current_dtype") (e_const code_c_ptypes)))
 (s_raise EOther)
 s_skip)
 (s_seq (s_if (e_un p_isnone (e_attr "current_tag"))
 (s_raise EOther)
 s_skip)
 (s_seq (s_try (s_assign "v3" (e_bino p_getitem (e_var "v2") (e_attr "current_dtype")))
 [(HKey, (s_seq (s_setitem "v2" (e_attr "current_dtype") (e_dict []))
 (s_assign "v3" (e_bino p_getitem (e_var "v2") (e_attr "current_dtype")))))])
 (s_seq (s_if (e_bino p_in (e_attr "current_tag") (e_uno p_keys (e_var "v3")))
 (s_raise EOther)
 s_skip)
 (s_setitem "v3" (e_attr "current_tag") (e_var "v0"))))))
 (s_if (e_bin p_eq (e_attr "storage_resolution") (e_const (VLev Types)))
 (s_seq (s_if (e_un p_not (e_bino p_in (e_attr "current_dtype") (e_const code_c_ptypes)))
 (s_raise EOther)
 s_skip)
 (s_setitem "v2" (e_attr "current_dtype") (e_var "v0")))
 (s_if (e_bin p_eq (e_attr "storage_resolution") (e_const (VLev Signals)))
 (s_seq (s_if (e_un p_not (e_bino p_in (e_attr "current_dtype") (e_const code_c_signals)))
 (s_raise EOther)
 s_skip)
 (s_setitem "v2" (e_attr "current_dtype") (e_var "v0")))
 (s_if (e_bin p_eq (e_attr "storage_resolution") (e_const (VLev Processes)))
 (s_seq (s_if (e_un p_not (e_bino p_in (e_attr "current_dtype") (e_const code_c_processes)))
 (s_raise EOther)
 s_skip)
 (s_setitem "v2" (e_attr "current_dtype") (e_var "v0")))
 (s_if (e_bin p_eq (e_attr "storage_resolution") (e_const (VLev Off)))
 (s_seq (s_if (e_un p_not (e_bin p_eq (e_attr "current_dtype") (e_const code_c_total)))
 (s_raise EOther)
 s_skip)
 (s_setitem "v2" (e_const code_c_total) (e_var "v0")))
 s_skip))))))
 (s_raise EType)))).

Definition code_set_data_flag : fn :=
 def_fun ["v0"] []
 (s_if (e_un p_islist (e_var "v0"))
 (s_seq (s_setattr "current_dtype" (e_bino p_getitem (e_var "v0") (e_const (VInt (0)))))
 (s_seq (s_try (s_setattr "current_tag" (e_bino p_getitem (e_var "v0") (e_const (VInt (1)))))
 [(HIndex, (s_raise EOther))])
 (s_setattr "address_length" (e_const (VInt (2))))))
 (s_seq (s_setattr "current_dtype" (e_var "v0"))
 (s_seq (s_setattr "current_tag" (e_const VNone))
 (s_setattr "address_length" (e_const (VInt (1))))))).

Definition code__convert_res_elementary : fn :=
 def_fun ["v0"; "v1"] ["v2"; "v3"; "v4"; "v5"; "v6"; "v7"; "v8"; "v9"]
 (s_if (e_and (e_bin p_eq (e_const (VInt (4))) (e_var "v0")) (e_bin p_eq (e_const (VInt (3))) (e_var "v1")))
 (s_seq (s_assign "v2" (e_dict []))
 (s_seq (s_assign "v3" (e_const (VBool true)))
 (s_seq (s_for "v4" (e_const code_c_ptypes)
 (s_seq (s_try (s_assign "v5" (e_bino p_getitem (e_attr "_d__data") (e_var "v4")))
 [(HKey, (s_assign "v5" (e_dict []))); (HAttr, (s_seq (s_assign "v5" (e_dict []))
 (s_assign "v3" (e_const (VBool false)))))])
 (s_seq (s_if (e_var "v3")
 (s_assign "v6" e_zeros)
 (s_assign "v6" e_zeros))
 (s_seq (s_for "v7" (e_uno p_keys (e_var "v5"))
 (s_assign "v6" (e_bin p_add (e_var "v6") (e_bino p_getitem (e_var "v5") (e_var "v7")))))
 (s_setitem "v2" (e_var "v4") (e_var "v6"))))))
 (s_setattr "_d__data" (e_var "v2")))))
 (s_if (e_and (e_bin p_eq (e_const (VInt (3))) (e_var "v0")) (e_bin p_eq (e_const (VInt (2))) (e_var "v1")))
 (s_seq (s_assign "v2" (e_dict []))
 (s_seq (s_for "v8" (e_uno p_keys (e_const code_c_processes))
 (s_seq (s_assign "v6" (e_call code__types_to_processes [(e_var "v8")]))
 (s_setitem "v2" (e_var "v8") (e_var "v6"))))
 (s_setattr "_d__data" (e_var "v2"))))
 (s_if (e_and (e_bin p_eq (e_const (VInt (3))) (e_var "v0")) (e_bin p_eq (e_const (VInt (1))) (e_var "v1")))
 (s_seq (s_assign "v2" (e_dict []))
 (s_seq (s_for "v9" (e_uno p_keys (e_const code_c_signals))
 (s_seq (s_assign "v6" (e_call code__types_to_signals [(e_var "v9")]))
 (s_setitem "v2" (e_var "v9") (e_var "v6"))))
 (s_setattr "_d__data" (e_var "v2"))))
 (s_if (e_and (e_bin p_eq (e_const (VInt (1))) (e_var "v0")) (e_bin p_eq (e_const (VInt (0))) (e_var "v1")))
 (s_seq (s_assign "v2" (e_dict []))
 (s_seq (s_assign "v6" (e_call code__signals_to_total []))
 (s_seq (s_setitem "v2" (e_const code_c_total) (e_var "v6"))
 (s_setattr "_d__data" (e_var "v2")))))
 (s_if (e_and (e_bin p_eq (e_const (VInt (2))) (e_var "v0")) (e_bin p_eq (e_const (VInt (0))) (e_var "v1")))
 (s_seq (s_assign "v2" (e_dict []))
 (s_seq (s_assign "v6" (e_call code__processes_to_total []))
 (s_seq (s_setitem "v2" (e_const code_c_total) (e_var "v6"))
 (s_setattr "_d__data" (e_var "v2")))))
 (s_raise EOther)))))).

Definition code__convert_resolution : fn :=
 def_fun ["v0"; "v1"] ["v2"; "v3"; "v4"; "v5"; "v6"]
 (s_seq (s_assign "v2" (e_dict [((e_const (VInt (4))), (e_dict [((e_const (VInt (3))), (e_list [(e_const (VInt (4))); (e_const (VInt (3)))])); ((e_const (VInt (2))), (e_list [(e_const (VInt (4))); (e_const (VInt (3))); (e_const (VInt (2)))])); ((e_const (VInt (1))), (e_list [(e_const (VInt (4))); (e_const (VInt (3))); (e_const (VInt (1)))])); ((e_const (VInt (0))), (e_list [(e_const (VInt (4))); (e_const (VInt (3))); (e_const (VInt (2))); (e_const (VInt (0)))]))])); ((e_const (VInt (3))), (e_dict [((e_const (VInt (2))), (e_list [(e_const (VInt (3))); (e_const (VInt (2)))])); ((e_const (VInt (1))), (e_list [(e_const (VInt (3))); (e_const (VInt (1)))])); ((e_const (VInt (0))), (e_list [(e_const (VInt (3))); (e_const (VInt (2))); (e_const (VInt (0)))]))])); ((e_const (VInt (2))), (e_dict [((e_const (VInt (0))), (e_list [(e_const (VInt (2))); (e_const (VInt (0)))]))])); ((e_const (VInt (1))), (e_dict [((e_const (VInt (0))), (e_list [(e_const (VInt (1))); (e_const (VInt (0)))]))]))]))
 (s_seq (s_try (s_assign "v3" (e_bino p_getitem (e_bino p_getitem (e_var "v2") (e_var "v0")) (e_var "v1")))
 [(HKey, (s_raise EOther))])
 (s_for "v4" (e_var "v3")
 (s_if (e_bin p_eq (e_var "v0") (e_var "v4"))
 (s_assign "v5" (e_var "v0"))
 (s_seq (s_assign "v6" (e_var "v4"))
 (s_seq (s_expr (e_call code__convert_res_elementary [(e_var "v5"); (e_var "v6")]))
 (s_seq (s_setattr "storage_resolution" (e_bino p_getitem (e_const code_c_resolutions) (e_var "v6")))
 (s_assign "v5" (e_var "v6"))))))))).

Definition code_set_resolution : fn :=
 def_fun ["v0"] ["v1"; "v2"]
 (s_if (e_bino p_in (e_var "v0") (e_const code_c_resolutions))
 (s_seq (s_assign "v1" (e_call code__resolution2number [(e_attr "storage_resolution")]))
 (s_seq (s_assign "v2" (e_call code__resolution2number [(e_var "v0")]))
 (s_if (e_bin (p_cmp Z.ltb) (e_var "v1") (e_var "v2"))
 (s_raise EOther)
 (s_if (e_bin (p_cmp Z.ltb) (e_var "v2") (e_var "v1"))
 (s_expr (e_call code__convert_resolution [(e_var "v1"); (e_var "v2")]))
 s_skip))))
 (s_raise EOther)).

Definition code__add_data : fn :=
 def_fun ["v0"; "v1"; "v2"; "v3"] ["v4"; "v5"; "v6"]
 (s_seq (s_if (e_un p_not (e_attr "storage_initialized"))
 (s_seq (s_setattr "_d__data" (e_dict []))
 (s_seq (s_setattr "storage_initialized" (e_const (VBool true)))
 (s_if (e_un p_not (e_un p_isnone (e_var "v1")))
 (s_setattr "storage_resolution" (e_var "v1"))
 s_skip)))
 s_skip)
 (s_seq (s_if (e_un p_isnone (e_var "v1"))
 (s_assign "v1" (e_attr "storage_resolution"))
 (s_seq (s_assign "v4" (e_call code__resolution2number [(e_var "v1")]))
 (s_seq (s_assign "v5" (e_call code__resolution2number [(e_attr "storage_resolution")]))
 (s_if (e_bin (p_cmp Z.leb) (e_var "v4") (e_var "v5"))
 s_skip
 (s_raise EOther)))))
 (s_if (e_bin p_eq (e_const (VLev Pathways)) (e_var "v1"))
 (s_if (e_bino p_in (e_var "v2") (e_const code_c_ptypes))
 (s_if (e_un p_not (e_un p_isnone (e_var "v3")))
 (s_seq (s_expr (e_call code_set_data_flag [(e_list [(e_var "v2"); (e_var "v3")])]))
 (s_seq (s_try (s_assign "v6" (e_call code_getter []))
 [(HAll, (s_assign "v6" (e_const VNone)))])
 (s_if (e_un p_isnone (e_var "v6"))
 (s_expr (e_call code_setter [(e_var "v0")]))
 (s_expr (e_call code_setter [(e_bin p_add (e_var "v6") (e_var "v0"))])))))
 (s_raise EOther))
 (s_raise EOther))
 (s_if (e_bin p_eq (e_const (VLev Types)) (e_var "v1"))
 (s_if (e_bino p_in (e_var "v2") (e_const code_c_ptypes))
 (s_seq (s_if (e_un p_not (e_un p_isnone (e_var "v3")))
 (s_raise EOther)
 s_skip)
 (s_seq (s_expr (e_call code_set_data_flag [(e_var "v2")]))
 (s_seq (s_try (s_assign "v6" (e_call code_getter []))
 [(HAll, (s_assign "v6" (e_const VNone)))])
 (s_if (e_un p_isnone (e_var "v6"))
 (s_expr (e_call code_setter [(e_var "v0")]))
 (s_expr (e_call code_setter [(e_bin p_add (e_var "v6") (e_var "v0"))]))))))
 (s_raise EOther))
 (s_if (e_bin p_eq (e_const (VLev Processes)) (e_var "v1"))
 (s_if (e_bino p_in (e_var "v2") (e_const code_c_processes))
 (s_seq (s_if (e_un p_not (e_un p_isnone (e_var "v3")))
 (s_raise EOther)
 s_skip)
 (s_seq (s_expr (e_call code_set_data_flag [(e_var "v2")]))
 (s_seq (s_try (s_assign "v6" (e_call code_getter []))
 [(HAll, (s_assign "v6" (e_const VNone)))])
 (s_if (e_un p_isnone (e_var "v6"))
 (s_expr (e_call code_setter [(e_var "v0")]))
 (s_expr (e_call code_setter [(e_bin p_add (e_var "v6") (e_var "v0"))]))))))
 (s_raise EOther))
 (s_if (e_bin p_eq (e_const (VLev Signals)) (e_var "v1"))
 (s_if (e_bino p_in (e_var "v2") (e_const code_c_signals))
 (s_seq (s_if (e_un p_not (e_un p_isnone (e_var "v3")))
 (s_raise EOther)
 s_skip)
 (s_seq (s_expr (e_call code_set_data_flag [(e_var "v2")]))
 (s_seq (s_try (s_assign "v6" (e_call code_getter []))
 [(HAll, (s_assign "v6" (e_const VNone)))])
 (s_if (e_un p_isnone (e_var "v6"))
 (s_expr (e_call code_setter [(e_var "v0")]))
 (s_expr (e_call code_setter [(e_bin p_add (e_var "v6") (e_var "v0"))]))))))
 (s_raise EOther))
 (s_if (e_bin p_eq (e_const (VLev Off)) (e_var "v1"))
 (s_if (e_bin p_eq (e_const code_c_total) (e_var "v2"))
 (s_seq (s_if (e_un p_not (e_un p_isnone (e_var "v3")))
 (s_raise EOther)
 s_skip)
 (s_seq (s_expr (e_call code_set_data_flag [(e_var "v2")]))
 (s_seq (s_try (s_assign "v6" (e_call code_getter []))
 [(HAll, (s_assign "v6" (e_const VNone)))])
 (s_if (e_un p_isnone (e_var "v6"))
 (s_expr (e_call code_setter [(e_var "v0")]))
 (s_expr (e_call code_setter [(e_bin p_add (e_var "v6") (e_var "v0"))]))))))
 (s_raise EOther))
 s_skip))))))).

Definition code_new_fields : list (string * expr) := [("current_dtype", (e_const (VKey DTot))); ("current_tag", (e_const VNone)); ("storage_initialized", (e_const (VBool false))); ("storage_resolution", (e_const (VLev Pathways)))].
End Code.
