(* Model of the parallel-region bookkeeping of quantarhei/core/parallel.py:
   DistributedConfiguration.start_parallel_region / finish_parallel_region.
   [sh] = have_mpi and size > 1 (only then the level moves); the region counter always moves.
   finish lowers the level first and raises when it became negative (the region counter is then not lowered). *)
From Coq Require Import ZArith List Bool.
Import ListNotations.
Open Scope Z_scope.

Inductive rop := RStart | RFinish.
Record rstate := mkR { r_level : Z; r_region : Z }.

Definition r_step (sh : bool) (s : rstate) (o : rop) : rstate * bool :=
  match o with
  | RStart => (mkR (if sh then r_level s + 1 else r_level s) (r_region s + 1), false)
  | RFinish =>
      let l := if sh then r_level s - 1 else r_level s in
      if l <? 0 then (mkR l (r_region s), true) else (mkR l (r_region s - 1), false)
  end.

(* states after each operation, with the raised flag of that operation *)
Fixpoint r_trace (sh : bool) (s : rstate) (ops : list rop) : list (rstate * bool) :=
  match ops with
  | [] => []
  | o :: rest => let r := r_step sh s o in r :: r_trace sh (fst r) rest
  end.
Definition r_run (sh : bool) (s : rstate) (ops : list rop) : rstate := fold_left (fun st o => fst (r_step sh st o)) ops s.
Definition r_raised (sh : bool) (s : rstate) (ops : list rop) : bool := existsb snd (r_trace sh s ops).

(* nesting depth after the operations, and well-nestedness from depth d (no finish below depth 1) *)
Fixpoint depth_after (d : Z) (ops : list rop) : Z :=
  match ops with
  | [] => d
  | RStart :: r => depth_after (d + 1) r
  | RFinish :: r => depth_after (d - 1) r
  end.
Fixpoint nested (d : Z) (ops : list rop) : bool :=
  match ops with
  | [] => true
  | RStart :: r => nested (d + 1) r
  | RFinish :: r => (1 <=? d) && nested (d - 1) r
  end.

(* correspondence cases: (sh, level0, region0, ops as booleans (true = start), observed (level, region, raised) after each op) *)
Definition rcase := (bool * Z * Z * list bool * list (Z * Z * bool))%type.
Definition rop_of (b : bool) : rop := if b then RStart else RFinish.
Fixpoint all2r (l : list (rstate * bool)) (o : list (Z * Z * bool)) : bool :=
  match l, o with
  | [], [] => true
  | (s, r) :: l', (lv, rg, rr) :: o' => (r_level s =? lv) && (r_region s =? rg) && Bool.eqb r rr && all2r l' o'
  | _, _ => false
  end.
Definition rcase_agrees (c : rcase) : bool :=
  let '(sh, l0, g0, ops, obs) := c in all2r (r_trace sh (mkR l0 g0) (map rop_of ops)) obs.

(* ---- what a library routine that distributes a loop does with the parallel machinery, in source order:
   PS = start_parallel_region(), PQ lo = a loop over block_distributed_range(lo, .) (or _list / _array),
   PA covers = allreduce(X, "sum") where covers says that X is touched inside the preceding distributed loop,
   PF = close_parallel_region(), PRet = a return statement, POther = any other use of the machinery (reduce, bcast, ...).
   Well formed: a sequence of regions, each opening, one distributed loop, the all-reduction of what the loop wrote, closing. ---- *)
Inductive pev := PS | PQ (lo : Z) | PA (covers : bool) | PF | PRet | POther.
Fixpoint well_formed (l : list pev) : bool :=
  match l with
  | [] => true
  | PS :: PQ _ :: PA true :: PF :: rest => well_formed rest
  | PRet :: rest => well_formed rest          (* returning outside every region *)
  | _ => false
  end.
