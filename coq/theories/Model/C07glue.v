(* Model of the glue of the C07 code paths:
     redfieldtensor.py    RedfieldRelaxationTensor.apply (which representation acts), convert_2_tensor (flag and data afterwards),
                          _implementation / _guts_Cmplx_Splines: K in the eigenbasis, Lambda_m from the value of the running
                          integral at the last index of the (cut) time axis
     tdredfieldtensor.py  TDRedfieldRelaxationTensor._implementation: Lambda_m(t) from the running integral at every index
     superoperator.py     SuperOperator.apply (tensordot)
     rdmpropagator.py     __propagate_short_exp_with_TDrel_operators: which stored operator family each refined step uses
   Executable definitions only. *)
From Coq Require Import ZArith List Bool Arith.
From QV Require Import Base.Alg Base.Sums Base.Mat Base.Tens Model.C01 Model.C02.
Import ListNotations.

Section Glue.
  Context {R : StarRing}.
  Open Scope sr_scope.
  Variable n : nat.

  Definition rt_apply (as_ops : bool) (Nb : nat) (Km Lm Ld : nat -> @mat R) (T : @tens R) (rho : @mat R) : @mat R :=
    if as_ops then apply_ops n Nb Km Lm Ld rho else tapply n T rho.
  Definition convert_2_tensor (as_ops : bool) (Nb : nat) (Km Lm Ld : nat -> @mat R) (T : @tens R) : bool * @tens R :=
    if as_ops then (false, convert_ops n Nb Km Lm Ld) else (as_ops, T).
  (* what _post_implementation / the end of the time-dependent _implementation leaves on the object *)
  Inductive stored := StoredOps (Km Lm Ld : nat -> @mat R) | StoredTensor (T : @tens R).
  Definition hand_over (as_ops : bool) (Nb : nat) (Km Lm Ld : nat -> @mat R) : stored :=
    if as_ops then StoredOps Km Lm Ld else StoredTensor (convert_ops n Nb Km Lm Ld).

  (* c(t) = sr(t) + i si(t): running integral (antiderivative on the axis, an oracle) of C_ms(t) exp(-i Om_ab t) *)
  Definition lam_ti (im : R) (sr si : nat -> nat -> nat -> nat -> R) (Km : nat -> @mat R) (length ms : nat) : @mat R :=
    fun a b => (sr ms a b (length - 1)%nat + im * si ms a b (length - 1)%nat) * Km ms a b.
  Definition lam_td (im : R) (sr si : nat -> nat -> nat -> nat -> R) (Km : nat -> @mat R) (tt ms : nat) : @mat R :=
    fun a b => (sr ms a b tt + im * si ms a b tt) * Km ms a b.
  Definition k_eig (S1 S : @mat R) (KK : nat -> @mat R) (ns : nat) : @mat R := sim n S1 S (KK ns).
  Definition om_of (hD : @vec R) : @mat R := fun a b => hD a - hD b.
End Glue.

(* the operator-form time-dependent nest: index of the operator family used in each refined step.
   pinned:   the index advances by one after every OUTER step (below the cut-off), whatever the stride, and is the same for all
             refined steps of one outer step
   repaired: the walk of the tensor-form nest, Model.C02.td_walk WalkRepaired *)
Inductive ops_walk_variant := OpsWalkPinned | OpsWalkRepaired.
Definition ops_next_pinned (indxR cutoff : nat) : nat := if Nat.ltb indxR (cutoff - 1) then S indxR else indxR.
Fixpoint ops_walk_pinned (nsteps nref indxR cutoff : nat) : list nat :=
  match nsteps with
  | O => []
  | S k => repeat indxR nref ++ ops_walk_pinned k nref (ops_next_pinned indxR cutoff) cutoff
  end.
Definition ops_td_walk (v : ops_walk_variant) (nsteps nref stride cutoff : nat) : list nat :=
  match v with
  | OpsWalkPinned => ops_walk_pinned nsteps nref 1 cutoff
  | OpsWalkRepaired => td_walk WalkRepaired (nsteps * nref) 1 stride cutoff
  end.
