(* Model of density-matrix and state-vector propagation:
     quantarhei/qm/propagators/rdmpropagator.py  __propagate_short_exp, ..._with_relaxation (tensor, _TTI),
         ..._with_rel_operators (_OTI), ..._with_TD_relaxation (index walk indxR/stride/cutoff), _COM,
         _BOOT_DEPH/_APPLY_DEPH (pure dephasing multiplier after each refined step), _INIT_RWA
     quantarhei/qm/propagators/svpropagator.py   _propagate_short_exp
     quantarhei/qm/hilbertspace/hamiltonian.py   get_RWA_data
     dmevolution.py / statevectorevolution.py    convert_from_RWA (phases are an oracle vector u)
   over a commutative ring with conjugation and an imaginary unit [im].  Executable definitions only. *)
From Coq Require Import ZArith List Bool Arith QArith Qcanon.
From QV Require Import Base.Alg Base.Sums Base.Mat Base.Tens Base.Taylor Base.TaylorG Base.Util Model.C01.
Import ListNotations.

Inductive sv_variant := SvPinned | SvRepaired.
Inductive walk_variant := WalkPinned | WalkRepaired.

Section Model.
  Context {R : StarRing}.
  Open Scope sr_scope.
  Variable im : R.
  Variable n : nat.

  Definition dm_add (A B : @mat R) : @mat R := tab2 n n (madd A B).
  Definition dm_scale (c : R) (A : @mat R) : @mat R := tab2 n n (mscale c A).

  Definition comm (H rho : @mat R) : @mat R := msub (mmul n H rho) (mmul n rho H).
  (* -_COM(HH, ll, dt, rho1) / (dt/ll)  =  -i (H rho - rho H) *)
  Definition G_ham (H rho : @mat R) : @mat R := mscale (- im) (comm H rho).
  (* ... + _TTI: tensordot(RR, rho1) *)
  Definition G_tensor (H : @mat R) (Rt : @tens R) (rho : @mat R) : @mat R := madd (G_ham H rho) (tapply n Rt rho).
  (* ... + _OTI: operator form *)
  Definition G_ops (H : @mat R) (Nb : nat) (Km Lm Ld : nat -> @mat R) (rho : @mat R) : @mat R :=
    madd (G_ham H rho) (apply_ops n Nb Km Lm Ld rho).

  (* pure dephasing: elementwise multiplication by the (oracle) matrix expo*exp(-t0*tt) *)
  Definition dephase (E : @mat R) (rho : @mat R) : @mat R := tab2 n n (fun i j => rho i j * E i j).
  Definition no_deph (j : nat) (rho : @mat R) : @mat R := rho.

  (* stored density matrices: G j is the generator of refined step j, D j the map applied after it *)
  Definition dm_traj (G : nat -> @mat R -> @mat R) (D : nat -> @mat R -> @mat R) (prefs : list R) (nsteps nref : nat)
             (rho0 : @mat R) : list (@mat R) :=
    gtraj dm_add dm_scale G D nsteps nref prefs 0 rho0.

  (* index walk of __propagate_short_exp_with_TD_relaxation: the tensor index used in refined step j.
     pinned:   if indxR < cutoff_indx - 1: indxR += stride  else: indxR = cutoff_indx      (runs off the end)
     repaired: indxR = min(indxR + stride, cutoff_indx - 1) *)
  Definition walk_next (v : walk_variant) (indxR stride cutoff : nat) : nat :=
    match v with
    | WalkPinned => if Nat.ltb indxR (cutoff - 1) then indxR + stride else cutoff
    | WalkRepaired => Nat.min (indxR + stride) (cutoff - 1)
    end.
  Fixpoint td_walk (v : walk_variant) (k : nat) (indxR stride cutoff : nat) : list nat :=
    match k with
    | O => []
    | S k' => indxR :: td_walk v k' (walk_next v indxR stride cutoff) stride cutoff
    end.
  Definition td_index (stride cutoff : nat) (j : nat) : nat := nth j (td_walk WalkRepaired (S j) 1 stride cutoff) 0%nat.

  (* state vectors: psi1 = -1j*pref*dot(HH,psi1) *)
  Definition sv_add (u v : @vec R) : @vec R := tab n (fun i => u i + v i).
  Definition sv_scale (c : R) (v : @vec R) : @vec R := tab n (fun i => c * v i).
  Definition G_sv (H : @mat R) (psi : @vec R) : @vec R := fun i => - im * mv n H psi i.
  Definition sv_traj (H : @mat R) (prefs : list R) (nsteps nref : nat) (psi0 : @vec R) : list (@vec R) :=
    traj sv_add sv_scale (G_sv H) nsteps nref prefs psi0.

  (* rotating-wave frame *)
  Definition rwa_ham (H : @mat R) (Om : @vec R) : @mat R := fun i j => H i j - (if Nat.eqb i j then Om i else 0).
  Definition rwa_dm (u : @vec R) (rho : @mat R) : @mat R := fun i j => u i * rho i j * cj R (u j).
  Definition rwa_sv (v : sv_variant) (u psi : @vec R) : @vec R :=
    match v with
    | SvRepaired => fun i => u i * psi i
    | SvPinned => fun _ => sum n (fun k => u k * psi k)      (* numpy.dot(Ut, data[i,:]) : a scalar, broadcast *)
    end.
  Definition dm_of (psi : @vec R) : @mat R := fun i j => psi i * cj R (psi j).

  (* GKSL dissipator  gamma (K rho K^T - 1/2 {K^T K, rho})  with hg = gamma/2 *)
  Definition gksl (Nb : nat) (hg : nat -> R) (Km : nat -> @mat R) (rho : @mat R) : @mat R :=
    fun a b => sum Nb (fun m =>
      (hg m + hg m) * mmul n (Km m) (mmul n rho (mT (Km m))) a b
      - hg m * (mmul n (mmul n (mT (Km m)) (Km m)) rho a b + mmul n rho (mmul n (mT (Km m)) (Km m)) a b)).
End Model.

(* ---------------- executable instances (complex rationals) ---------------- *)
Definition gq_i : GQ := gi QR.
Definition qprefs (dt : Q) (L : nat) : list GQ := map (fun l => q2gq (dt / inject_Z (Z.of_nat l)) 0) (seq 1 L).

Definition gq_mat_close (tol : Q) (n : nat) (A B : @mat GQ) : bool :=
  forallb (fun a => forallb (fun b => gq_close tol (A a b) (B a b)) (seq 0 n)) (seq 0 n).
Definition gq_vec_close (tol : Q) (n : nat) (u v : @vec GQ) : bool :=
  forallb (fun a => gq_close tol (u a) (v a)) (seq 0 n).
Definition gq_vec (l : list (Q * Q)) : @vec GQ := vec_of (map gqc l).

Inductive pkind := PHam | PTensor | POps | PTdTensor.
Record case02 := mkCase02 {
  p_kind : pkind; p_n : nat; p_nb : nat;
  p_H : list (list (Q * Q));
  p_R : list (list (list (list (list (Q * Q)))));     (* tensors: one (time independent) or one per tensor time index *)
  p_K : list (list (list (Q * Q))); p_L : list (list (list (Q * Q))); p_Ld : list (list (list (Q * Q)));
  p_E : list (list (list (Q * Q)));                    (* dephasing multipliers per refined step ([] = none) *)
  p_dt : Q; p_L_order : nat; p_nref : nat; p_nsteps : nat;
  p_stride : nat; p_cutoff : nat;
  p_rho0 : list (list (Q * Q));
  p_out : list (list (list (Q * Q)));
  p_tol : Q
}.

Definition case02_G (c : case02) : nat -> @mat GQ -> @mat GQ :=
  let n := p_n c in let H := gq_mat (p_H c) in
  match p_kind c with
  | PHam => fun _ => G_ham gq_i n H
  | PTensor => let Rt := tab4 n (gq_tens (nth 0 (p_R c) [])) in fun _ => G_tensor gq_i n H Rt
  | POps => fun _ => G_ops gq_i n H (p_nb c) (gq_ops (p_K c)) (gq_ops (p_L c)) (gq_ops (p_Ld c))
  | PTdTensor => fun j => G_tensor gq_i n H (gq_tens (nth (td_index (p_stride c) (p_cutoff c) j) (p_R c) []))
  end.
Definition case02_D (c : case02) : nat -> @mat GQ -> @mat GQ :=
  match p_E c with
  | [] => no_deph
  | _ => fun j => dephase (p_n c) (gq_mat (nth j (p_E c) []))
  end.
Definition case02_traj (c : case02) : list (@mat GQ) :=
  dm_traj (p_n c) (case02_G c) (case02_D c) (qprefs (p_dt c) (p_L_order c)) (p_nsteps c) (p_nref c) (gq_mat (p_rho0 c)).
(* every tensor index the walk uses exists (Python would raise IndexError otherwise) *)
Definition case02_walk_ok (c : case02) : bool :=
  match p_kind c with
  | PTdTensor => forallb (fun i => Nat.ltb i (length (p_R c))) (td_walk WalkRepaired (p_nsteps c * p_nref c) 1 (p_stride c) (p_cutoff c))
  | _ => true
  end.
Definition agrees02 (c : case02) : bool :=
  case02_walk_ok c && all2 (fun A l => gq_mat_close (p_tol c) (p_n c) A (gq_mat l)) (case02_traj c) (p_out c).
(* the model's own verdict on the exact invariants of the run (trace exactly conserved, exactly Hermitian) *)
Definition invariants02 (c : case02) : bool :=
  let n := p_n c in let r0 := gq_mat (p_rho0 c) in
  forallb (fun A => gq_eqb (mtr n A) (mtr n r0) &&
                    forallb (fun a => forallb (fun b => gq_eqb (cj GQ (A b a)) (A a b)) (seq 0 n)) (seq 0 n)) (case02_traj c).

(* state vectors *)
Record case02sv := mkCase02sv {
  s_n : nat; s_H : list (list (Q * Q)); s_dt : Q; s_L_order : nat; s_nref : nat; s_nsteps : nat;
  s_psi0 : list (Q * Q); s_out : list (list (Q * Q)); s_tol : Q
}.
Definition agrees02sv (c : case02sv) : bool :=
  all2 (fun v l => gq_vec_close (s_tol c) (s_n c) v (gq_vec l))
       (sv_traj gq_i (s_n c) (gq_mat (s_H c)) (qprefs (s_dt c) (s_L_order c)) (s_nsteps c) (s_nref c) (gq_vec (s_psi0 c))) (s_out c).

(* RWA conversion of one stored state with the implementation's own phases u *)
Record case02rwa := mkCase02rwa {
  w_n : nat; w_u : list (Q * Q); w_in : list (list (Q * Q)); w_out : list (list (Q * Q));     (* density matrix *)
  w_psi : list (Q * Q); w_psi_out : list (Q * Q); w_tol : Q                                   (* state vector *)
}.
Definition agrees02rwa (v : sv_variant) (c : case02rwa) : bool :=
  gq_mat_close (w_tol c) (w_n c) (rwa_dm (gq_vec (w_u c)) (gq_mat (w_in c))) (gq_mat (w_out c)) &&
  gq_vec_close (w_tol c) (w_n c) (rwa_sv (w_n c) v (gq_vec (w_u c)) (gq_vec (w_psi c))) (gq_vec (w_psi_out c)).
