(* Model of the units management of quantarhei/core/managers.py: convert_energy_2_internal_u /
   convert_energy_2_current_u (with the reciprocal handling of "nm"), length conversion,
   Manager.set_current_units / unset_current_units (single saved slot, reset on every set),
   energy_units / length_units .__enter__/__exit__, and the raw switch in AggregateBase.build.
   Executable definitions only. *)
From Coq Require Import ZArith List Bool QArith.
Import ListNotations.

Inductive eunit := E_fs | E_int | E_cm | E_eV | E_meV | E_THz | E_J | E_SI | E_nm | E_Ha | E_au.
Inductive lunit := L_int | L_A | L_nm | L_Bohr | L_au | L_m | L_SI.
Definition all_eunits := [E_fs; E_int; E_cm; E_eV; E_meV; E_THz; E_J; E_SI; E_nm; E_Ha; E_au].
Definition is_nm (u : eunit) : bool := match u with E_nm => true | _ => false end.

Definition eunit_eqb (a b : eunit) : bool :=
  match a, b with
  | E_fs, E_fs | E_int, E_int | E_cm, E_cm | E_eV, E_eV | E_meV, E_meV | E_THz, E_THz | E_J, E_J
  | E_SI, E_SI | E_nm, E_nm | E_Ha, E_Ha | E_au, E_au => true
  | _, _ => false
  end.
Definition lunit_eqb (a b : lunit) : bool :=
  match a, b with
  | L_int, L_int | L_A, L_A | L_nm, L_nm | L_Bohr, L_Bohr | L_au, L_au | L_m, L_m | L_SI, L_SI => true
  | _, _ => false
  end.

(* ---- conversions; [fac] are the conversion factors (floats of units.py, taken as exact rationals) ---- *)
Section Conv.
  Variable fac : eunit -> Q.
  (* value given in units u -> internal; scalars (a zero wavelength is not a valid scalar input) *)
  Definition to_int (u : eunit) (x : Q) : Q := if is_nm u then (1 / x) / fac u else x * fac u.
  (* internal -> units v *)
  Definition to_cur (v : eunit) (y : Q) : Q := if is_nm v then (1 / y) / fac v else y / fac v.
  (* elementwise versions for arrays: zero is read as zero energy in "nm" *)
  Definition to_int_elt (u : eunit) (x : Q) : Q := if is_nm u then (if Qeq_bool x 0 then 0 else (1 / x) / fac u) else x * fac u.
  Definition to_cur_elt (v : eunit) (y : Q) : Q := if is_nm v then (if Qeq_bool y 0 then 0 else (1 / y) / fac v) else y / fac v.
  (* qr.convert(x, u, to=v) *)
  Definition convert (u v : eunit) (x : Q) : Q := to_cur v (to_int u x).
End Conv.

(* ---- the manager's units state ---- *)
Record ust := mkU {
  cur_e : eunit;  cur_l : lunit;
  saved_e : option eunit;  saved_l : option lunit;    (* Manager._saved_units (one slot per set) *)
  count : Z;  in_eu : bool                             (* _in_eu_count, _in_energy_units_context *)
}.

(* Manager.set_current_units(utype, units): forgets every earlier saved value *)
Definition set_e (s : ust) (u : eunit) : ust := mkU u (cur_l s) (Some (cur_e s)) None (count s) (in_eu s).
Definition set_l (s : ust) (u : lunit) : ust := mkU (cur_e s) u None (Some (cur_l s)) (count s) (in_eu s).
(* Manager.unset_current_units("energy"): None = "Units to restore not found" *)
Definition unset_e (s : ust) : option ust :=
  match saved_e s with Some c => Some (mkU c (cur_l s) (saved_e s) (saved_l s) (count s) (in_eu s)) | None => None end.

Definition enter_e (s : ust) (u : eunit) : ust :=
  let s1 := set_e s u in mkU (cur_e s1) (cur_l s1) (saved_e s1) (saved_l s1) (count s1 + 1) true.
Definition exit_e (s : ust) (backup : eunit) : ust :=
  let s1 := set_e s backup in
  let c := (count s1 - 1)%Z in
  mkU (cur_e s1) (cur_l s1) (saved_e s1) (saved_l s1) c (if (c =? 0)%Z then false else in_eu s1).

(* how AggregateBase.build switches to internal units *)
Inductive build_variant := RawSwitch | ContextSwitch.

(* programs: what user code and the library do with units *)
Inductive prog :=
| PSkip
| PSeq (a b : prog)
| PWithE (u : eunit) (body : prog)        (* with energy_units(u): body   (a new context object) *)
| PWithL (u : lunit) (body : prog)        (* with length_units(u): body *)
| PRaise                                  (* an exception is raised *)
| PTry (body : prog)                      (* try: body / except: pass *)
| PBuild (v : build_variant) (body : prog)(* Aggregate.build: switch to "int", body, switch back *)
| PObs.                                   (* observe the current units *)

(* (state, raised, observations) *)
Fixpoint exec (p : prog) (s : ust) : ust * bool * list (eunit * lunit) :=
  match p with
  | PSkip => (s, false, [])
  | PSeq a b => let '(s1, r1, o1) := exec a s in
                if r1 then (s1, true, o1) else let '(s2, r2, o2) := exec b s1 in (s2, r2, o1 ++ o2)
  | PWithE u body =>
      let backup := cur_e s in
      let '(s1, r, o) := exec body (enter_e s u) in (exit_e s1 backup, r, o)
  | PWithL u body =>
      let backup := cur_l s in
      let '(s1, r, o) := exec body (set_l s u) in (set_l s1 backup, r, o)
  | PRaise => (s, true, [])
  | PTry body => let '(s1, _, o) := exec body s in (s1, false, o)
  | PBuild RawSwitch body =>
      let '(s1, r, o) := exec body (set_e s E_int) in
      if r then (s1, true, o)                      (* no finally: the units stay switched *)
      else match unset_e s1 with Some s2 => (s2, false, o) | None => (s1, true, o) end
  | PBuild ContextSwitch body =>
      let backup := cur_e s in
      let '(s1, r, o) := exec body (enter_e s E_int) in (exit_e s1 backup, r, o)
  | PObs => (s, false, [(cur_e s, cur_l s)])
  end.

(* programs in which build uses the context manager *)
Fixpoint repaired (p : prog) : bool :=
  match p with
  | PSeq a b => repaired a && repaired b
  | PWithE _ b | PWithL _ b | PTry b => repaired b
  | PBuild RawSwitch _ => false
  | PBuild ContextSwitch b => repaired b
  | _ => true
  end.

(* ---- unit types without a reciprocal member (length): plain scaling ---- *)
Definition all_lunits := [L_int; L_A; L_nm; L_Bohr; L_au; L_m; L_SI].
Section Lin.
  Variable facl : lunit -> Q.
  Definition to_int_l (u : lunit) (x : Q) : Q := x * facl u.
  Definition to_cur_l (v : lunit) (y : Q) : Q := y / facl v.
  Definition convert_l (u v : lunit) (x : Q) : Q := to_cur_l v (to_int_l u x).
End Lin.
