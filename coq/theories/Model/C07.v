(* C07: executable comparison of the two forms of a relaxation tensor acting on an operator (integer data):
   the implementation's result of apply() in operator form and in tensor form against the model's apply_ops and
   tapply (convert_ops ...).  Definitions only. *)
From Coq Require Import ZArith List Bool Arith.
From QV Require Import Base.Alg Base.Sums Base.Mat Base.Tens Base.Util Model.C01.
Import ListNotations.

Record case07 := mkCase07 {
  a_n : nat; a_nb : nat;
  a_K : list (list (list (Z * Z))); a_L : list (list (list (Z * Z))); a_Ld : list (list (list (Z * Z)));
  a_rho : list (list (Z * Z));
  a_out_ops : list (list (Z * Z));        (* implementation: apply in operator form *)
  a_out_tens : list (list (Z * Z))        (* implementation: apply after convert_2_tensor *)
}.
Definition agrees07 (c : case07) : bool :=
  let n := a_n c in
  let K := gz_ops (a_K c) in let L := gz_ops (a_L c) in let Ld := gz_ops (a_Ld c) in
  let rho := gz_mat (a_rho c) in
  gz_mat_eqb n (apply_ops n (a_nb c) K L Ld rho) (gz_mat (a_out_ops c)) &&
  gz_mat_eqb n (tapply n (convert_ops n (a_nb c) K L Ld) rho) (gz_mat (a_out_tens c)).
